/-
Props/C17.lean — malformed inputs are rejected at assignment, valid ones stored faithfully.
Validator model: Model/Validators.lean (mirrors magpylib/_src/input_checks.py and the setters branch by
branch); documented formats: Spec/ValidSpec.lean (written top-down, independently of the validators);
per-attribute configuration and the control-flow skeleton of the modelled functions: Gen/Attr.lean
(regenerated from the source on every run).
/- FULL: every public attribute of every class raises only the library's input error.
   Proved here: for every validator of input_checks.py that an attribute setter uses (scalar, vector,
   vertices, cylinder segment) and for the pixel / handedness / vertices / position setters:
   accepted ⇔ documented format, every rejection is MagpylibBadUserInput, the stored value is the
   float copy of the input, a rejected assignment changes nothing.
   Excluded input classes, each with a proved witness that the exclusion is necessary:
   complex numbers for scalar attributes (TypeError), check_format_input_vector2 (ValueError on a bad
   shape; rank unchecked), None entries (nan) for the cylinder-segment conditions.
   orientation, field_func and style arguments are exercised by the grammar oracle only. -/
-/
import MagpyVerif.Lemmas.Validators
namespace MagpyVerif.C17
open MagpyVerif.Valid MagpyVerif.Gen

/-! ## the shared building blocks `is_array_like`, `make_float_array`, `check_array_shape` -/

/-- `is_array_like` passes exactly lists, tuples and ndarrays, and raises the library's input error otherwise -/
theorem array_like_check_iff (v : PyVal) :
    (isArrayLikeCheck v = .ok () ↔ (∃ xs, v = .seq xs) ∨ (∃ sh d, v = .arr sh d)) ∧
    (∀ e, isArrayLikeCheck v = .error e → e = .badUserInput) := by
  cases v <;> simp [isArrayLikeCheck, isArrayLike]

/-- `make_float_array` as repaired (statement-by-statement model, under the recorded assumption on `np.array`): the
conversion succeeds exactly on array_likes in the documented top-down sense — rectangular nestings of numbers
(int, float, bool, nan; not `None`, not strings, not complex numbers, not other objects), or ndarrays — returning that
shape and the entries in row-major order (`prod shape` of them); every failure is the library's input error -/
theorem float_conversion_iff_rectangular (v : PyVal) (a : NDArr) :
    (makeFloatArray v = .ok a ↔ hasShape a.shape v = true ∧ a.data = flat v) ∧
    (makeFloatArray v = .ok a → a.data.length = prod a.shape) ∧
    (∀ e, makeFloatArray v = .error e → e = .badUserInput) := by
  rw [makeFloatArray_eq]
  unfold makeFloatArraySimple
  cases hsh : shapeOf v with
  | none =>
    dsimp only
    refine ⟨⟨fun h => (by cases h), ?_⟩, fun h => (by cases h), fun e h => (by injection h with h; exact h.symm)⟩
    rintro ⟨hs, _⟩
    rw [(shapeOf_iff_hasShape _ v).mpr hs] at hsh
    cases hsh
  | some sh =>
    have hs := (shapeOf_iff_hasShape sh v).mp hsh
    dsimp only
    refine ⟨⟨?_, ?_⟩, ?_, fun e h => (by cases h)⟩
    · intro h; injection h with h; subst h; exact ⟨hs, rfl⟩
    · rintro ⟨hs', hd⟩
      have := hasShape_unique _ _ v hs hs'
      cases a; simp only at this hd; subst this; subst hd; rfl
    · intro h; injection h with h; subst h; exact flat_length sh v hs

/-- `check_array_shape` (for `dims` without rank 0) passes exactly when the rank is one of `dims`, the last
axis has the size `shape_m1` (or "any") and the first axis the size `length` (or None); every failure is the
library's input error -/
theorem array_shape_check_iff_documented (a : NDArr) (dims : List Nat) (m1 : Int) (len : Nat) (h0 : 0 ∉ dims) :
    (checkArrayShape a dims m1 len = .ok () ↔ shapeCond dims m1 len a.shape) ∧
    (∀ e, checkArrayShape a dims m1 len = .error e → e = .badUserInput) :=
  ⟨checkArrayShape_ok_iff a dims m1 len h0, fun e h => checkArrayShape_error a dims m1 len h0 e h⟩

/-- the hypothesis `0 ∉ dims` is necessary: with rank 0 allowed, `inp.shape[-1]` raises IndexError on a 0-d array
(no setter of the regenerated table allows rank 0: `table_rejects_with_input_error`) -/
example : checkArrayShape ⟨[], [.fin 2]⟩ [0, 1] 3 0 = .error (.foreign "IndexError") := by rfl
example : makeFloatArray (.seq [.seq [.num 1, .bool true], .seq [.npbool false, .nanf]]) =
    .ok ⟨[2, 2], [.fin 1, .fin 1, .fin 0, .nan]⟩ := by rfl
example : makeFloatArray (.seq [.num 1, .none, .num 3]) = .error .badUserInput := by rfl
example : makeFloatArray (.seq [.num 1, .str "2", .num 3]) = .error .badUserInput := by rfl
example : makeFloatArray (.seq [.seq [.num 1, .num 2], .seq [.num 3]]) = .error .badUserInput := by rfl
example : makeFloatArray (.seq [.num 1, .cplx]) = .error .badUserInput := by rfl
example : makeFloatArray (.seq [.num 1, .str "abc"]) = .error .badUserInput := by rfl

/-! ## the generic vector validator `check_format_input_vector` -/

/-- C17 (generic vector validator, any configuration without rank 0 and without reshape):
`check_format_input_vector` returns normally exactly for `None` (where allowed) and for array_likes whose
shape meets the documented (dims, shape_m1, length) condition and — where `forbid_negative0` — have no
entry `<= 0`; what it returns is the float copy of the input with that shape. -/
theorem vector_ok_iff (cfg : Attr.Row) (h0 : 0 ∉ cfg.dims) (hr : cfg.reshape = false) (v : PyVal) (s : Stored) :
    checkVector cfg v = .ok s ↔
      (cfg.allowNone = true ∧ v = .none ∧ s = .none) ∨
      (isArrayLike v = true ∧ ∃ sh, hasShape sh v = true ∧ shapeCond cfg.dims cfg.shapeM1 cfg.length sh ∧
        (cfg.forbidNegative0 = true → ∀ x ∈ flat v, x.le (.fin 0) = false) ∧ s = .array ⟨sh, flat v⟩) := by
  by_cases hv : v = .none
  · subst hv
    rw [checkVector_none]
    cases cfg.allowNone
    · simp [isArrayLike]
    · simp only [if_true, Except.ok.injEq, isArrayLike, true_and, Bool.false_eq_true, false_and, or_false]
      exact eq_comm
  by_cases ha : isArrayLike v = true
  · rw [checkVector_of_arrayLike cfg v ha]
    simp only [hv, false_and, and_false, false_or, ha, true_and]
    cases hsh : shapeOf v with
    | none =>
      simp only [reduceCtorEq, false_iff, not_exists, not_and]
      intro sh hs
      rw [(shapeOf_iff_hasShape sh v).mpr hs] at hsh
      cases hsh
    | some sh0 =>
      have hs0 := (shapeOf_iff_hasShape sh0 v).mp hsh
      simp only [afterConvert, hr, Bool.false_eq_true, if_false]
      cases hc : checkArrayShape ⟨sh0, flat v⟩ cfg.dims cfg.shapeM1 cfg.length with
      | error e =>
        simp only [reduceCtorEq, false_iff, not_exists, not_and]
        intro sh hs hcond
        have := hasShape_unique sh sh0 v hs hs0
        subst this
        have := (checkArrayShape_ok_iff ⟨sh, flat v⟩ cfg.dims cfg.shapeM1 cfg.length h0).mpr hcond
        rw [this] at hc
        cases hc
      | ok u =>
        have hcond := (checkArrayShape_ok_iff ⟨sh0, flat v⟩ cfg.dims cfg.shapeM1 cfg.length h0).mp hc
        by_cases hf : (cfg.forbidNegative0 && (flat v).any fun x => x.le (.fin 0)) = true
        · simp only [hf, if_true, reduceCtorEq, false_iff, not_exists, not_and]
          intro sh _ _ hall
          simp only [Bool.and_eq_true, List.any_eq_true] at hf
          obtain ⟨hf0, x, hx, hle⟩ := hf
          rw [hall hf0 x hx] at hle
          cases hle
        · simp only [hf, Bool.false_eq_true, if_false, Except.ok.injEq]
          constructor
          · intro h
            refine ⟨sh0, hs0, hcond, ?_, h.symm⟩
            intro hf0 x hx
            simp only [hf0, Bool.true_and, List.any_eq_true, not_exists, not_and, Bool.not_eq_true] at hf
            exact hf x hx
          · rintro ⟨sh, hs, _, _, rfl⟩
            rw [hasShape_unique sh sh0 v hs hs0]
  · have ha' : isArrayLike v = false := by simpa using ha
    rw [checkVector_of_not_arrayLike cfg v ha' hv]
    simp [hv, ha']

/-- C17 (never a foreign error): whatever `check_format_input_vector` rejects, it rejects with the
library's input error — for every configuration that does not allow rank 0 and reshapes to (-1, 3)
only when the last axis is required to be 3. -/
theorem vector_error_is_bad (cfg : Attr.Row) (h0 : 0 ∉ cfg.dims) (hr : cfg.reshape = true → cfg.shapeM1 = 3)
    (v : PyVal) (e : Err) (h : checkVector cfg v = .error e) : e = .badUserInput := by
  by_cases hv : v = .none
  · subst hv
    rw [checkVector_none] at h
    cases hn : cfg.allowNone <;> simp [hn] at h
    exact h.symm
  by_cases ha : isArrayLike v = true
  · rw [checkVector_of_arrayLike cfg v ha] at h
    cases hsh : shapeOf v with
    | none => simp only [hsh] at h; injection h with h; exact h.symm
    | some sh =>
      simp only [hsh, afterConvert] at h
      cases hc : checkArrayShape ⟨sh, flat v⟩ cfg.dims cfg.shapeM1 cfg.length with
      | error e' =>
        simp only [hc] at h
        injection h with h
        subst h
        exact checkArrayShape_error _ _ _ _ h0 _ hc
      | ok u =>
        simp only [hc] at h
        have hcond := (checkArrayShape_ok_iff ⟨sh, flat v⟩ cfg.dims cfg.shapeM1 cfg.length h0).mp hc
        cases hrs : cfg.reshape with
        | false =>
          simp only [hrs, Bool.false_eq_true, if_false] at h
          split at h
          · injection h with h; exact h.symm
          · cases h
        | true =>
          simp only [hrs, if_true] at h
          split at h
          · injection h with h; exact h.symm
          · split at h
            · exfalso
              rename_i hmod
              have h3 := hr hrs
              obtain ⟨_, hlast, _⟩ := hcond
              rw [h3] at hlast
              rcases hlast with hl | ⟨l, hl, hl3⟩
              · cases hl
              · have hl3' : l = 3 := by omega
                subst hl3'
                obtain ⟨ns, hns⟩ := List.getLast?_eq_some_iff.mp hl
                simp only at hns
                simp only [NDArr.size, hns, prod_append_singleton, Nat.mul_mod_left, bne_self_eq_false, Bool.false_eq_true] at hmod
            · cases h
  · have ha' : isArrayLike v = false := by simpa using ha
    rw [checkVector_of_not_arrayLike cfg v ha' hv] at h
    injection h with h; exact h.symm

/-! ## attributes documented as "array_like, shape (k,)": polarization, magnetization, moment, Cuboid/Cylinder dimension -/

/-- configuration "k numbers or None" -/
def vecCfg (cls attr : String) (k : Nat) (pos : Bool) : Attr.Row :=
  ⟨cls, attr, "check_format_input_vector", [1], k, 0, true, false, pos, false⟩

/-- what the validator of a "shape (k,)" attribute returns, and when -/
theorem vec_ok_iff (cls attr : String) (k : Nat) (pos : Bool) (v : PyVal) (s : Stored) :
    checkVector (vecCfg cls attr k pos) v = .ok s ↔
      (v = .none ∧ s = .none) ∨
      (isArrayLike v = true ∧ hasShape [k] v = true ∧ (pos = true → ∀ x ∈ flat v, x.le (.fin 0) = false) ∧
        s = .array ⟨[k], flat v⟩) := by
  rw [vector_ok_iff _ (by simp [vecCfg]) rfl]
  simp only [vecCfg, true_and, shapeCond_vec]
  constructor
  · rintro (h | ⟨ha, sh, hs, rfl, hp, rfl⟩)
    · exact Or.inl h
    · exact Or.inr ⟨ha, hs, hp, rfl⟩
  · rintro (h | ⟨ha, hs, hp, rfl⟩)
    · exact Or.inl h
    · exact Or.inr ⟨ha, [k], hs, rfl, hp, rfl⟩

/-- C17 (accepts exactly the documented format): an attribute documented as "array_like of shape (k,), or
None" accepts a value iff it is None or a list/tuple/ndarray of exactly k float-compatible entries, none
of them `<= 0` where the documentation says so; everything else — other lengths, nesting, ragged rows,
strings, scalars, complex entries, other objects — is rejected. -/
theorem accepts_iff_documented (cls attr : String) (k : Nat) (pos : Bool) (v : PyVal) :
    (∃ s, checkVector (vecCfg cls attr k pos) v = .ok s) ↔ docVec k pos v = true := by
  by_cases hv : v = .none
  · subst hv
    simp [vec_ok_iff, docVec]
  · rw [docVec_of_ne_none k pos v hv]
    simp only [vec_ok_iff, hv, false_and, false_or, Bool.and_eq_true, Bool.or_eq_true, Bool.not_eq_true',
      List.all_eq_true]
    constructor
    · rintro ⟨s, ha, hs, hp, _⟩
      refine ⟨⟨ha, hs⟩, ?_⟩
      cases pos with
      | false => exact Or.inl rfl
      | true => exact Or.inr (hp rfl)
    · rintro ⟨⟨ha, hs⟩, hp⟩
      refine ⟨_, ha, hs, ?_, rfl⟩
      intro hpos
      subst hpos
      simpa using hp

/-- the former findings `coerced-entry:None` and `coerced-entry:numeric-string` (numpy's coercion of a `None` entry to nan
and of a numeric string to its value was accepted; before the repair of `make_float_array` this theorem read
`documented_includes_coerced_entries`): such entries are neither documented nor accepted any more, for every
length, sign requirement and position of the entry — "array_like of numbers" means numbers -/
theorem coerced_entries_rejected (cls attr : String) (k : Nat) (pos : Bool) (xs ys : List PyVal) (s : String) :
    docVec k pos (.seq (xs ++ .none :: ys)) = false ∧ docVec k pos (.seq (xs ++ .str s :: ys)) = false ∧
    checkVector (vecCfg cls attr k pos) (.seq (xs ++ .none :: ys)) = .error .badUserInput ∧
    checkVector (vecCfg cls attr k pos) (.seq (xs ++ .str s :: ys)) = .error .badUserInput := by
  have key : ∀ l : PyVal, hasShape [] l = false → docVec k pos (.seq (xs ++ l :: ys)) = false := by
    intro l hl
    rw [docVec_of_ne_none _ _ _ (by simp)]
    have : hasShape [k] (.seq (xs ++ l :: ys)) = false := by
      apply Bool.eq_false_iff.mpr
      intro h
      have := ((hasShape_vec_iff k _).mp h).2 l (by simp)
      rw [hl] at this; cases this
    simp [this]
  have rej : ∀ v : PyVal, docVec k pos v = false → checkVector (vecCfg cls attr k pos) v = .error .badUserInput := by
    intro v hv
    cases hc : checkVector (vecCfg cls attr k pos) v with
    | ok s0 =>
      have := (accepts_iff_documented cls attr k pos v).mp ⟨s0, hc⟩
      rw [hv] at this; cases this
    | error e =>
      rw [vector_error_is_bad (vecCfg cls attr k pos) (by simp [vecCfg]) (by simp [vecCfg]) v e hc]
  exact ⟨key _ rfl, key _ rfl, rej _ (key _ rfl), rej _ (key _ rfl)⟩

example : checkVector (vecCfg "Cuboid" "dimension" 3 true) (.seq [.num 1, .none, .num 3]) = .error .badUserInput :=
  (coerced_entries_rejected "Cuboid" "dimension" 3 true [.num 1] [.num 3] "").2.2.1
example : checkVector (vecCfg "Cuboid" "dimension" 3 true) (.seq [.num 1, .str "2", .num 3]) = .error .badUserInput := by rfl

/-- the documented format read for plain numbers: a list/tuple of integers/floats is accepted iff it has
exactly k entries, all positive where sizes are meant (the statement of this theorem before the grammar
had bool / None / string entries) -/
theorem accepts_numbers_iff (cls attr : String) (k : Nat) (pos : Bool) (vals : List Int) :
    (∃ s, checkVector (vecCfg cls attr k pos) (.seq (vals.map .num)) = .ok s) ↔
      (vals.length = k ∧ (pos = true → ∀ x ∈ vals, 0 < x)) := by
  rw [accepts_iff_documented, docVec_of_ne_none _ _ _ (by simp)]
  simp only [isArrayLike, Bool.true_and, Bool.and_eq_true, hasShape_nums, flat, flatL_nums, Bool.or_eq_true,
    Bool.not_eq_true', List.all_eq_true, List.mem_map, forall_exists_index, and_imp,
    forall_apply_eq_imp_iff₂, FVal.le, decide_eq_false_iff_not, Int.not_le, and_congr_right_iff]
  intro _
  cases pos <;> simp

/-- C17 (stored value): what an accepted assignment stores is `None` for `None` and otherwise the float
copy of the k entries, shape (k,) -/
theorem stored_is_float_copy (cls attr : String) (k : Nat) (pos : Bool) (v : PyVal) (s : Stored)
    (h : checkVector (vecCfg cls attr k pos) v = .ok s) :
    (v = .none ∧ s = .none) ∨ (s = .array ⟨[k], flat v⟩ ∧ (flat v).length = k) := by
  rcases (vec_ok_iff cls attr k pos v s).mp h with h | ⟨_, hs, _, rfl⟩
  · exact Or.inl h
  · exact Or.inr ⟨rfl, by simpa [prod] using flat_length [k] v hs⟩

example : checkVector (vecCfg "Cuboid" "dimension" 3 true) (.seq [.num 1, .num 2, .num 3]) = .ok (.array ⟨[3], [.fin 1, .fin 2, .fin 3]⟩) := by rfl
example : checkVector (vecCfg "Cuboid" "dimension" 3 true) (.seq [.num 1, .num (-2), .num 3]) = .error .badUserInput := by rfl
example : checkVector (vecCfg "Cuboid" "dimension" 3 true) (.seq [.seq [.num 1, .num 2, .num 3]]) = .error .badUserInput := by rfl
example : checkVector (vecCfg "Cuboid" "dimension" 3 true) (.arr [3] [1, 2, 3]) = .ok (.array ⟨[3], [.fin 1, .fin 2, .fin 3]⟩) := by rfl
example : docVec 3 true (.seq [.num 1, .bool true, .num 3]) = true := by decide
/-- a nan given as a float is a number: it is stored, and passes the "no value <= 0" test (`nan <= 0` is false) -/
example : checkVector (vecCfg "Cuboid" "dimension" 3 true) (.seq [.num 1, .nanf, .num 3]) = .ok (.array ⟨[3], [.fin 1, .nan, .fin 3]⟩) := by rfl

/-! ## attributes documented as "array_like, shape (n,3)": Triangle / Tetrahedron / Polyline vertices -/

/-- configuration "None or n rows of 3 numbers", `L = 0`: any n -/
def rowsCfg (cls attr : String) (L : Nat) : Attr.Row :=
  ⟨cls, attr, "check_format_input_vector", [2], 3, L, true, false, false, false⟩

theorem rows_ok_iff (cls attr : String) (L : Nat) (v : PyVal) (s : Stored) :
    checkVector (rowsCfg cls attr L) v = .ok s ↔
      (v = .none ∧ s = .none) ∨
      (isArrayLike v = true ∧ ∃ n, hasShape [n, 3] v = true ∧ (L = 0 ∨ n = L) ∧ s = .array ⟨[n, 3], flat v⟩) := by
  rw [vector_ok_iff _ (by simp [rowsCfg]) rfl]
  simp only [rowsCfg, true_and, shapeCond_rows, Bool.false_eq_true, false_imp_iff]
  constructor
  · rintro (h | ⟨ha, sh, hs, ⟨n, rfl, hn⟩, rfl⟩)
    · exact Or.inl h
    · exact Or.inr ⟨ha, n, hs, hn, rfl⟩
  · rintro (h | ⟨ha, n, hs, hn, rfl⟩)
    · exact Or.inl h
    · exact Or.inr ⟨ha, [n, 3], hs, ⟨n, rfl, hn⟩, rfl⟩

/-- C17: a vertices attribute documented as "shape (L,3)" (Triangle: L = 3, Tetrahedron: L = 4) accepts
exactly None and array_likes of L rows of 3 float-compatible entries -/
theorem fixed_rows_accepts_iff_documented (cls attr : String) (L : Nat) (hL : L ≠ 0) (v : PyVal) :
    (∃ s, checkVector (rowsCfg cls attr L) v = .ok s) ↔ docRows (some L) 0 v = true := by
  by_cases hv : v = .none
  · subst hv; simp [rows_ok_iff, docRows]
  · rw [docRows_of_ne_none _ _ v hv]
    simp only [rows_ok_iff, hv, false_and, false_or, hL, Bool.and_eq_true, beq_iff_eq]
    constructor
    · rintro ⟨s, ha, n, hs, hn, _⟩
      have := outerLen_of_hasShape n [3] v hs
      subst hn
      rw [this]
      exact ⟨⟨ha, hs⟩, rfl⟩
    · rintro ⟨⟨ha, hs⟩, hn⟩
      rw [hn] at hs
      exact ⟨_, ha, L, hs, rfl, rfl⟩

theorem triangleCfg_eq : triangleCfg = rowsCfg "Triangle" "vertices" 3 := rfl
theorem tetrahedronCfg_eq : tetrahedronCfg = rowsCfg "Tetrahedron" "vertices" 4 := rfl
theorem verticesCfg_eq : verticesCfg = rowsCfg "input_checks" "check_format_input_vertices" 0 := rfl

/-- C17 (Triangle.vertices): accepted ⇔ None or shape (3,3); everything else — 2 or 4 vertices, rows of 2
or 4 coordinates, ragged or deeper nesting — is rejected -/
theorem triangle_accepts_iff_documented (v : PyVal) :
    (∃ s, checkVector triangleCfg v = .ok s) ↔ docRows (some 3) 0 v = true :=
  fixed_rows_accepts_iff_documented _ _ 3 (by decide) v

/-- C17 (Tetrahedron.vertices): accepted ⇔ None or shape (4,3) -/
theorem tetrahedron_accepts_iff_documented (v : PyVal) :
    (∃ s, checkVector tetrahedronCfg v = .ok s) ↔ docRows (some 4) 0 v = true :=
  fixed_rows_accepts_iff_documented _ _ 4 (by decide) v

/-- C17 (stored vertices): an accepted non-None value is stored as its float copy of shape (L,3) with 3·L entries -/
theorem fixed_rows_stored (cls attr : String) (L : Nat) (hL : L ≠ 0) (v : PyVal) (s : Stored)
    (h : checkVector (rowsCfg cls attr L) v = .ok s) :
    (v = .none ∧ s = .none) ∨ (s = .array ⟨[L, 3], flat v⟩ ∧ (flat v).length = L * 3) := by
  rcases (rows_ok_iff cls attr L v s).mp h with h | ⟨_, n, hs, hn, rfl⟩
  · exact Or.inl h
  · have hn' : n = L := by rcases hn with h0 | h0; exact absurd h0 hL; exact h0
    subst hn'
    exact Or.inr ⟨rfl, by simpa [prod] using flat_length [n, 3] v hs⟩

/-- `check_format_input_vertices` after the separator rows were replaced: what it returns, and when -/
theorem verticesCore_ok_iff (v : PyVal) (s : Stored) :
    checkVerticesCore v = .ok s ↔
      (v = .none ∧ s = .none) ∨
      (isArrayLike v = true ∧ ∃ n, 2 ≤ n ∧ hasShape [n, 3] v = true ∧ s = .array ⟨[n, 3], flat v⟩) := by
  unfold checkVerticesCore
  rw [verticesCfg_eq]
  cases h : checkVector (rowsCfg "input_checks" "check_format_input_vertices" 0) v with
  | error e =>
    simp only [reduceCtorEq, false_iff, not_or, not_and, not_exists]
    constructor
    · rintro rfl _
      have := (rows_ok_iff "input_checks" "check_format_input_vertices" 0 PyVal.none Stored.none).mpr (Or.inl ⟨rfl, rfl⟩)
      rw [h] at this; cases this
    · intro ha n _ hs _
      have := (rows_ok_iff "input_checks" "check_format_input_vertices" 0 v _).mpr (Or.inr ⟨ha, n, hs, Or.inl rfl, rfl⟩)
      rw [h] at this; cases this
  | ok s0 =>
    rcases (rows_ok_iff _ _ 0 v s0).mp h with ⟨rfl, rfl⟩ | ⟨ha, n, hs, _, rfl⟩
    · simp only [isArrayLike, Bool.false_eq_true, false_and, or_false, true_and, Except.ok.injEq]
      exact eq_comm
    · have hv : v ≠ .none := by rintro rfl; simp [isArrayLike] at ha
      simp only [List.head?_cons, hv, false_and, false_or, ha, true_and]
      by_cases hn : n < 2
      · simp only [hn, if_true, reduceCtorEq, false_iff, not_exists, not_and]
        intro m hm hsm
        have := hasShape_unique _ _ v hs hsm
        simp only [List.cons.injEq, and_true] at this
        omega
      · simp only [hn, if_false, Except.ok.injEq]
        constructor
        · rintro rfl
          exact ⟨n, by omega, hs, rfl⟩
        · rintro ⟨m, _, hsm, rfl⟩
          have := hasShape_unique _ _ v hs hsm
          rw [this]

/-- `check_format_input_vertices` (Polyline.vertices): what it returns, and when — in terms of the value after
`none_rows_to_nan` -/
theorem vertices_ok_iff (v : PyVal) (s : Stored) :
    checkVertices v = .ok s ↔
      (v = .none ∧ s = .none) ∨
      (isArrayLike v = true ∧ ∃ n, 2 ≤ n ∧ hasShape [n, 3] (noneRowsToNan v) = true ∧
        s = .array ⟨[n, 3], flat (noneRowsToNan v)⟩) := by
  unfold checkVertices
  rw [vertPrep_eq, verticesCore_ok_iff, noneRowsToNan_ne_none, noneRowsToNan_arrayLike]

/-- C17 (Polyline.vertices): accepted ⇔ None, or an (n,3) ndarray, or a list/tuple of n rows each of which is a triple of
numbers or the separator row (None, None, None); n ≥ 2.  A row with one or two `None` entries, a `None` row of another
length, `None` anywhere in a deeper nesting are rejected. -/
theorem polyline_vertices_accepts_iff_documented (v : PyVal) :
    (∃ s, checkVertices v = .ok s) ↔ docPolyVertices v = true := by
  cases v with
  | none => simp [vertices_ok_iff, docPolyVertices]
  | seq rows =>
    simp only [vertices_ok_iff, reduceCtorEq, false_and, false_or, isArrayLike, true_and, noneRowsToNan_hasShape,
      docPolyVertices, Bool.and_eq_true, decide_eq_true_eq, List.all_eq_true, Bool.or_eq_true]
    constructor
    · rintro ⟨s, n, hn, ⟨hl, _, hr⟩, _⟩
      exact ⟨by omega, hr⟩
    · rintro ⟨hn, hr⟩
      exact ⟨_, rows.length, hn, ⟨rfl, by omega, hr⟩, rfl⟩
  | arr sh d =>
    simp only [vertices_ok_iff, reduceCtorEq, false_and, false_or, isArrayLike, true_and, noneRowsToNan, hasShape,
      beq_iff_eq, docPolyVertices]
    constructor
    · rintro ⟨s, n, hn, rfl, _⟩
      simpa using hn
    · intro h
      split at h
      · rename_i n
        exact ⟨_, n, by simpa using h, rfl, rfl⟩
      · cases h
  | bool b => simp [vertices_ok_iff, docPolyVertices, isArrayLike]
  | num n => simp [vertices_ok_iff, docPolyVertices, isArrayLike]
  | flt n => simp [vertices_ok_iff, docPolyVertices, isArrayLike]
  | npbool b => simp [vertices_ok_iff, docPolyVertices, isArrayLike]
  | nanf => simp [vertices_ok_iff, docPolyVertices, isArrayLike]
  | cplx => simp [vertices_ok_iff, docPolyVertices, isArrayLike]
  | str s => simp [vertices_ok_iff, docPolyVertices, isArrayLike]
  | obj => simp [vertices_ok_iff, docPolyVertices, isArrayLike]
  | rot n f => simp [vertices_ok_iff, docPolyVertices, isArrayLike]

/-- what `none_rows_to_nan` stores for a row: a separator row becomes three nan, a triple of numbers is kept -/
theorem polyline_row_stored (r : PyVal) (h : hasShape [3] r = true ∨ isNoneRow3 r = true) :
    flat (rowNan r) = polyRowData r := by
  unfold polyRowData
  by_cases hn : isNoneRow3 r = true
  · rw [(isNoneRow3_iff r).mp hn]; rfl
  · simp only [hn, Bool.false_eq_true, if_false]
    have h3 : hasShape [3] r = true := h.resolve_right hn
    cases r with
    | seq xs =>
      unfold rowNan
      by_cases hall : xs.all isNoneLeaf = true
      · have hx := (hasShape_vec_iff 3 xs).mp h3
        match xs, hx with
        | [a, b, c], hx =>
          have := hx.2 a (by simp)
          simp only [List.all_cons, Bool.and_eq_true] at hall
          cases a <;> simp_all [isNoneLeaf, hasShape, isEntry]
      · simp [hall]
    | _ => rfl

/-- C17 (Polyline.vertices, stored value): an accepted list of rows is stored as the (n,3) array of its rows, a
separator row as (nan, nan, nan) -/
theorem polyline_vertices_stored (rows : List PyVal) (s : Stored) (h : checkVertices (.seq rows) = .ok s) :
    s = .array ⟨[rows.length, 3], flatL (rows.map rowNan)⟩ ∧
      ∀ r ∈ rows, flat (rowNan r) = polyRowData r ∧ (polyRowData r).length = 3 := by
  rcases (vertices_ok_iff _ s).mp h with ⟨h0, _⟩ | ⟨_, n, hn, hs, rfl⟩
  · cases h0
  · obtain ⟨hl, hn0, hr⟩ := (noneRowsToNan_hasShape rows n).mp hs
    subst hl
    have hne : rows ≠ [] := by rintro rfl; exact hn0 rfl
    have hraw := rawShape_rows rows [3] hne (fun r hx => rawShape_row3 r (hr r hx))
    refine ⟨by simp only [noneRowsToNan, hraw, flat], ?_⟩
    intro r hrm
    refine ⟨polyline_row_stored r (hr r hrm), ?_⟩
    rw [← polyline_row_stored r (hr r hrm)]
    simpa [prod] using flat_length [3] (rowNan r) ((rowNan_hasShape3 r).mpr (hr r hrm))

/-- C17: `check_format_input_vertices` rejects only with the library's input error -/
theorem verticesCore_error_is_bad (v : PyVal) (e : Err) (h : checkVerticesCore v = .error e) : e = .badUserInput := by
  unfold checkVerticesCore at h
  cases hc : checkVector verticesCfg v with
  | error e' =>
    simp only [hc] at h
    injection h with h; subst h
    exact vector_error_is_bad verticesCfg (by simp [verticesCfg]) (by simp [verticesCfg]) v _ hc
  | ok s0 =>
    rw [verticesCfg_eq] at hc
    rcases (rows_ok_iff _ _ 0 v s0).mp hc with ⟨rfl, rfl⟩ | ⟨ha, n, hs, _, rfl⟩
    · rw [verticesCfg_eq, hc] at h; cases h
    · rw [verticesCfg_eq, hc] at h
      simp only [List.head?_cons] at h
      split at h
      · injection h with h; exact h.symm
      · cases h


/-- C17: `check_format_input_vertices` rejects only with the library's input error -/
theorem vertices_error_is_bad (v : PyVal) (e : Err) (h : checkVertices v = .error e) : e = .badUserInput :=
  verticesCore_error_is_bad _ e h

example : checkVector triangleCfg (.seq [.seq [.num 0, .num 0, .num 0], .seq [.num 1, .num 0, .num 0], .seq [.num 0, .num 1, .num 0]])
    = .ok (.array ⟨[3, 3], [.fin 0, .fin 0, .fin 0, .fin 1, .fin 0, .fin 0, .fin 0, .fin 1, .fin 0]⟩) := by rfl
example : docRows (some 3) 0 (.seq [.seq [.num 0, .num 0, .num 0], .seq [.num 1, .num 0, .num 0], .seq [.num 0, .num 1, .num 0]]) = true := by decide
example : checkVector triangleCfg (.seq [.seq [.num 0, .num 0, .num 0], .seq [.num 1, .num 0, .num 0]]) = .error .badUserInput := by rfl
example : checkVertices (.seq [.seq [.num 0, .num 0, .num 0]]) = .error .badUserInput := by rfl
example : checkVertices (.seq [.seq [.num 0, .num 0, .num 0], .seq [.none, .none, .none], .seq [.num 1, .num 0, .num 0]]) =
    .ok (.array ⟨[3, 3], [.fin 0, .fin 0, .fin 0, .nan, .nan, .nan, .fin 1, .fin 0, .fin 0]⟩) := by rfl
example : checkVertices (.seq [.seq [.num 0, .num 0, .num 0], .seq [.num 1, .none, .num 0]]) = .error .badUserInput := by rfl
example : checkVertices (.seq [.seq [.none, .none], .seq [.none, .none]]) = .error .badUserInput := by rfl
example : docPolyVertices (.seq [.seq [.num 0, .num 0, .num 0], .seq [.none, .none, .none], .seq [.num 1, .num 0, .num 0]]) = true := by decide
example : checkVertices (.arr [2, 3] [0, 0, 0, 1, 1, 1]) = .ok (.array ⟨[2, 3], [.fin 0, .fin 0, .fin 0, .fin 1, .fin 1, .fin 1]⟩) := by rfl

/-! ## `position` (class_BaseGeo.py): shape (3,) or (m,3), stored as (m,3) -/

/-- what the validation in the `position` setter returns, and when -/
theorem position_ok_iff (v : PyVal) (s : Stored) :
    checkVector positionCfg v = .ok s ↔
      (isArrayLike v = true ∧
        ((hasShape [3] v = true ∧ s = .array ⟨[1, 3], flat v⟩) ∨
         (∃ m, 1 ≤ m ∧ hasShape [m, 3] v = true ∧ s = .array ⟨[m, 3], flat v⟩))) := by
  by_cases hv : v = .none
  · subst hv
    rw [checkVector_none]
    simp [positionCfg, isArrayLike]
  by_cases ha : isArrayLike v = true
  · rw [checkVector_of_arrayLike _ v ha]
    simp only [ha, true_and]
    cases hsh : shapeOf v with
    | none =>
      have hno : ∀ sh, hasShape sh v ≠ true := by
        intro sh hs
        rw [(shapeOf_iff_hasShape sh v).mpr hs] at hsh
        cases hsh
      simp only [reduceCtorEq, false_iff, not_or, not_and, not_exists]
      exact ⟨fun h => absurd h (hno _), fun m _ h => absurd h (hno _)⟩
    | some sh0 =>
      have hs0 := (shapeOf_iff_hasShape sh0 v).mp hsh
      simp only [afterConvert_position]
      constructor
      · rintro (⟨rfl, rfl⟩ | ⟨m, hm, rfl, rfl⟩)
        · exact Or.inl ⟨hs0, rfl⟩
        · exact Or.inr ⟨m, hm, hs0, rfl⟩
      · rintro (⟨hs, rfl⟩ | ⟨m, hm, hs, rfl⟩)
        · exact Or.inl ⟨hasShape_unique _ _ v hs0 hs, rfl⟩
        · exact Or.inr ⟨m, hm, hasShape_unique _ _ v hs0 hs, rfl⟩
  · have ha' : isArrayLike v = false := by simpa using ha
    rw [checkVector_of_not_arrayLike _ v ha' hv]
    simp [ha']

/-- C17 (position): accepted ⇔ array_like of shape (3,) or (m,3) with m ≥ 1 (None, scalars, an empty
path, other ranks and row lengths are rejected) -/
theorem position_accepts_iff_documented (v : PyVal) :
    (∃ s, checkVector positionCfg v = .ok s) ↔ docPosition v = true := by
  simp only [position_ok_iff, docPosition, Bool.and_eq_true, Bool.or_eq_true, decide_eq_true_eq]
  constructor
  · rintro ⟨s, ha, (⟨hs, _⟩ | ⟨m, hm, hs, _⟩)⟩
    · exact ⟨ha, Or.inl hs⟩
    · have := outerLen_of_hasShape m [3] v hs
      rw [this]
      exact ⟨ha, Or.inr ⟨hs, hm⟩⟩
  · rintro ⟨ha, (hs | ⟨hs, hm⟩)⟩
    · exact ⟨_, ha, Or.inl ⟨hs, rfl⟩⟩
    · exact ⟨_, ha, Or.inr ⟨_, hm, hs, rfl⟩⟩

/-- C17 (position is stored as a path): an accepted position is stored as a float array of shape (m,3),
m ≥ 1, holding the entries of the input in order (3·m of them) -/
theorem position_stored (v : PyVal) (s : Stored) (h : checkVector positionCfg v = .ok s) :
    ∃ m, 1 ≤ m ∧ s = .array ⟨[m, 3], flat v⟩ ∧ (flat v).length = m * 3 := by
  rcases (position_ok_iff v s).mp h with ⟨_, (⟨hs, rfl⟩ | ⟨m, hm, hs, rfl⟩)⟩
  · exact ⟨1, by omega, rfl, by simpa [prod] using flat_length [3] v hs⟩
  · exact ⟨m, hm, rfl, by simpa [prod] using flat_length [m, 3] v hs⟩

/-- C17: the `position` validation rejects only with the library's input error -/
theorem position_error_is_bad (v : PyVal) (e : Err) (h : checkVector positionCfg v = .error e) : e = .badUserInput :=
  vector_error_is_bad positionCfg (by simp [positionCfg]) (by simp [positionCfg]) v e h

example : checkVector positionCfg (.seq [.num 1, .num 2, .num 3]) = .ok (.array ⟨[1, 3], [.fin 1, .fin 2, .fin 3]⟩) := by rfl
example : checkVector positionCfg (.arr [0, 3] []) = .error .badUserInput := by rfl
example : checkVector positionCfg (.seq [.seq [.num 1, .num 2, .num 3], .seq [.num 4, .num 5, .num 6]])
    = .ok (.array ⟨[2, 3], [.fin 1, .fin 2, .fin 3, .fin 4, .fin 5, .fin 6]⟩) := by rfl
example : docPosition (.seq [.seq [.num 1, .num 2, .num 3], .seq [.num 4, .num 5, .num 6]]) = true := by decide

/-! ## `Sensor.pixel` and `Sensor.handedness` (class_Sensor.py) -/

theorem pixelvec_ok_iff (v : PyVal) (s : Stored) :
    checkVector pixelCfg v = .ok s ↔
      (v = .none ∧ s = .none) ∨
      (isArrayLike v = true ∧ ∃ ns : List Nat, hasShape (ns ++ [3]) v = true ∧ ns.length ≤ 18 ∧
        s = .array ⟨ns ++ [3], flat v⟩) := by
  rw [vector_ok_iff _ (by decide) rfl]
  have e1 : pixelCfg.shapeM1 = 3 := rfl
  have e2 : pixelCfg.length = 0 := rfl
  have e3 : pixelCfg.allowNone = true := rfl
  have e4 : pixelCfg.forbidNegative0 = false := rfl
  simp only [e1, e2, e3, e4, shapeCond_pixel, true_and, Bool.false_eq_true, false_imp_iff]
  constructor
  · rintro (h | ⟨ha, sh, hs, ⟨ns, rfl, hn⟩, rfl⟩)
    · exact Or.inl h
    · exact Or.inr ⟨ha, ns, hs, hn, rfl⟩
  · rintro (h | ⟨ha, ns, hs, hn, rfl⟩)
    · exact Or.inl h
    · exact Or.inr ⟨ha, _, hs, ⟨ns, rfl, hn⟩, rfl⟩

/-- what the validation in the `pixel` setter returns, and when -/
theorem pixel_ok_iff (v : PyVal) (s : Stored) :
    checkPixel v = .ok s ↔
      (v = .none ∧ s = .none) ∨
      (isArrayLike v = true ∧ ∃ ns : List Nat, hasShape (ns ++ [3]) v = true ∧ ns.length ≤ 18 ∧ 0 ∉ ns ∧
        s = .array ⟨ns ++ [3], flat v⟩) := by
  unfold checkPixel
  cases h : checkVector pixelCfg v with
  | error e =>
    simp only [reduceCtorEq, false_iff, not_or, not_and, not_exists]
    constructor
    · rintro rfl _
      have := (pixelvec_ok_iff PyVal.none Stored.none).mpr (Or.inl ⟨rfl, rfl⟩)
      rw [h] at this; cases this
    · intro ha ns hs hn _ _
      have := (pixelvec_ok_iff v _).mpr (Or.inr ⟨ha, ns, hs, hn, rfl⟩)
      rw [h] at this; cases this
  | ok s0 =>
    rcases (pixelvec_ok_iff v s0).mp h with ⟨rfl, rfl⟩ | ⟨ha, ns, hs, hn, rfl⟩
    · simp only [isArrayLike, Bool.false_eq_true, false_and, or_false, true_and, Except.ok.injEq]
      exact eq_comm
    · have hv : v ≠ .none := by rintro rfl; simp [isArrayLike] at ha
      simp only [hv, false_and, false_or, ha, true_and, NDArr.size]
      have hz : (prod (ns ++ [3]) == 0) = true ↔ 0 ∈ ns := by
        rw [beq_iff_eq, prod_eq_zero_iff]
        simp
      by_cases h0 : 0 ∈ ns
      · simp only [hz.mpr h0, if_true, reduceCtorEq, false_iff, not_exists, not_and]
        intro ms hms _ hm0
        have := hasShape_unique _ _ v hs hms
        have := List.append_inj_left' this rfl
        subst this
        exact absurd h0 hm0
      · have : (prod (ns ++ [3]) == 0) = false := by
          cases hb : (prod (ns ++ [3]) == 0)
          · rfl
          · exact absurd (hz.mp hb) h0
        simp only [this, Bool.false_eq_true, if_false, Except.ok.injEq]
        constructor
        · rintro rfl
          exact ⟨ns, hs, hn, h0, rfl⟩
        · rintro ⟨ms, hms, _, _, rfl⟩
          rw [hasShape_unique _ _ v hs hms]

/-- C17 (Sensor.pixel): accepted ⇔ None or array_like of shape (3,) or (n1,…,nk,3), k ≤ 18, without an
empty axis -/
theorem pixel_accepts_iff_documented (v : PyVal) : (∃ s, checkPixel v = .ok s) ↔ DocPixel v := by
  simp only [pixel_ok_iff, DocPixel]
  constructor
  · rintro ⟨s, (⟨hv, _⟩ | ⟨ha, ns, hs, hn, h0, _⟩)⟩
    · exact Or.inl hv
    · exact Or.inr ⟨ha, ns, hs, hn, h0⟩
  · rintro (hv | ⟨ha, ns, hs, hn, h0⟩)
    · exact ⟨_, Or.inl ⟨hv, rfl⟩⟩
    · exact ⟨_, Or.inr ⟨ha, ns, hs, hn, h0, rfl⟩⟩

/-- C17 (pixel is stored as a float copy of the same shape) -/
theorem pixel_stored (v : PyVal) (s : Stored) (h : checkPixel v = .ok s) :
    (v = .none ∧ s = .none) ∨ ∃ sh, hasShape sh v = true ∧ s = .array ⟨sh, flat v⟩ ∧ (flat v).length = prod sh ∧ prod sh ≠ 0 := by
  rcases (pixel_ok_iff v s).mp h with h | ⟨_, ns, hs, _, h0, rfl⟩
  · exact Or.inl h
  · refine Or.inr ⟨_, hs, rfl, flat_length _ v hs, ?_⟩
    rw [Ne, prod_eq_zero_iff]
    simpa using h0

/-- C17: the `pixel` validation rejects only with the library's input error -/
theorem pixel_error_is_bad (v : PyVal) (e : Err) (h : checkPixel v = .error e) : e = .badUserInput := by
  unfold checkPixel at h
  cases hc : checkVector pixelCfg v with
  | error e' =>
    simp only [hc] at h
    injection h with h; subst h
    exact vector_error_is_bad pixelCfg (by decide) (by simp [pixelCfg]) v _ hc
  | ok s0 =>
    simp only [hc] at h
    cases s0 with
    | array a =>
      simp only at h
      split at h
      · injection h with h; exact h.symm
      · cases h
    | _ => cases h

/-- C17 (Sensor.handedness): accepted ⇔ the string "right" or "left"; the string itself is stored; every
other value — other strings, lists, numbers, None — raises the library's input error -/
theorem handedness_accepts_iff_documented (v : PyVal) :
    ((∃ s, checkHandedness v = .ok s) ↔ docHandedness v = true) ∧
    (docHandedness v = false → checkHandedness v = .error .badUserInput) ∧
    (∀ s, checkHandedness v = .ok s → ∃ t, v = .str t ∧ s = .text t) := by
  cases v with
  | str t =>
    simp only [checkHandedness, docHandedness]
    by_cases ht : (t == "right" || t == "left") = true
    · simp [ht]
    · simp [ht]
  | _ => simp [checkHandedness, docHandedness]

example : checkPixel (.seq [.seq [.num 1, .num 2, .num 3], .seq [.num 4, .num 5, .num 6]])
    = .ok (.array ⟨[2, 3], [.fin 1, .fin 2, .fin 3, .fin 4, .fin 5, .fin 6]⟩) := by rfl
example : checkPixel (.arr [2, 0, 3] []) = .error .badUserInput := by rfl
example : checkPixel (.arr [0, 3] []) = .error .badUserInput := by rfl
example : DocPixel (.seq [.seq [.num 1, .num 2, .num 3], .seq [.num 4, .num 5, .num 6]]) :=
  Or.inr ⟨rfl, [2], by decide, by decide, by decide⟩
example : checkHandedness (.str "left") = .ok (.text "left") := by simp [checkHandedness]
example : checkHandedness (.seq [.str "left"]) = .error .badUserInput := by rfl

/-! ## `CylinderSegment.dimension`: check_format_input_cylinder_segment -/

theorem segmentCfg_eq : segmentCfg = vecCfg "input_checks" "check_format_input_cylinder_segment" 5 false := rfl

/-- what `check_format_input_cylinder_segment` returns, and when (entries other than None/nan) -/
theorem cylseg_ok_iff (v : PyVal) (s : Stored) (hnan : FVal.nan ∉ flat v) :
    checkCylSeg v = .ok s ↔
      (v = .none ∧ s = .none) ∨
      (isArrayLike v = true ∧ hasShape [5] v = true ∧ ∃ r1 r2 h p1 p2 : Int,
        flat v = [.fin r1, .fin r2, .fin h, .fin p1, .fin p2] ∧ segmentOK r1 r2 h p1 p2 ∧
        s = .array ⟨[5], flat v⟩) := by
  unfold checkCylSeg
  rw [segmentCfg_eq]
  cases hc : checkVector (vecCfg "input_checks" "check_format_input_cylinder_segment" 5 false) v with
  | error e =>
    simp only [reduceCtorEq, false_iff, not_or, not_and, not_exists]
    constructor
    · rintro rfl _
      have := (vec_ok_iff "input_checks" "check_format_input_cylinder_segment" 5 false PyVal.none Stored.none).mpr (Or.inl ⟨rfl, rfl⟩)
      rw [hc] at this; cases this
    · intro ha hs r1 r2 h p1 p2 _ _ _
      have := (vec_ok_iff "input_checks" "check_format_input_cylinder_segment" 5 false v _).mpr
        (Or.inr ⟨ha, hs, by simp, rfl⟩)
      rw [hc] at this; cases this
  | ok s0 =>
    rcases (vec_ok_iff _ _ 5 false v s0).mp hc with ⟨rfl, rfl⟩ | ⟨ha, hs, _, rfl⟩
    · simp only [isArrayLike, Bool.false_eq_true, false_and, or_false, true_and, Except.ok.injEq]
      exact eq_comm
    · have hv : v ≠ .none := by rintro rfl; simp [isArrayLike] at ha
      have hlen : (flat v).length = 5 := by simpa [prod] using flat_length [5] v hs
      obtain ⟨r1, r2, h, p1, p2, hflat⟩ := list5_fin (flat v) hlen hnan
      simp only [hv, false_and, false_or, ha, hs, true_and, hflat]
      by_cases hok : segmentOK r1 r2 h p1 p2
      · have hb := (not_congr (segment_cases_iff r1 r2 h p1 p2)).mpr (Classical.not_not.mpr hok)
        simp only [hb, Bool.false_eq_true, if_false, Except.ok.injEq]
        constructor
        · rintro rfl
          exact ⟨r1, r2, h, p1, p2, rfl, hok, rfl⟩
        · rintro ⟨_, _, _, _, _, _, _, rfl⟩
          rfl
      · have hb := (segment_cases_iff r1 r2 h p1 p2).mpr hok
        simp only [hb, if_true, reduceCtorEq, false_iff, not_exists, not_and]
        intro a b c d e heq hok'
        simp only [List.cons.injEq, FVal.fin.injEq, and_true] at heq
        obtain ⟨rfl, rfl, rfl, rfl, rfl⟩ := heq
        exact absurd hok' hok

/-- C17 (CylinderSegment.dimension), for entries other than None: accepted ⇔ None or array_like of shape
(5,) = (r1, r2, h, phi1, phi2) with 0 ≤ r1 ≤ r2, 0 < r2, 0 < h, phi1 ≤ phi2, phi2 − phi1 ≤ 360.  Negative
sizes, inner radius above outer radius, a reversed or more than 360 degree angle range are rejected.
(The class docstring asks r1 < r2 and phi1 < phi2 strictly: the code accepts the degenerate r1 = r2 and
phi1 = phi2, see `cylseg_accepts_degenerate`.) -/
theorem cylseg_accepts_iff_documented_partial (v : PyVal) (hnan : FVal.nan ∉ flat v) :
    (∃ s, checkCylSeg v = .ok s) ↔ docSegment v = true := by
  by_cases hv : v = .none
  · subst hv
    simp [cylseg_ok_iff _ _ hnan, docSegment]
  · rw [docSegment_of_ne_none v hv]
    simp only [cylseg_ok_iff _ _ hnan, hv, false_and, false_or, Bool.and_eq_true]
    constructor
    · rintro ⟨s, ha, hs, r1, r2, h, p1, p2, hflat, hok, _⟩
      refine ⟨⟨ha, hs⟩, ?_⟩
      rw [hflat]
      simpa using hok
    · rintro ⟨⟨ha, hs⟩, hm⟩
      split at hm
      · rename_i r1 r2 h p1 p2 hflat
        exact ⟨_, ha, hs, r1, r2, h, p1, p2, hflat, by simpa using hm, rfl⟩
      · cases hm

/-- the exclusion of nan entries in `cylseg_accepts_iff_documented_partial` is necessary: every comparison with nan
is false, so (1, 2, 1, nan, 90) passes all five conditions.  (A `None` entry, which numpy used to turn into nan, is
refused since the repair of `make_float_array`; a nan given as a float still gets through.) -/
theorem cylseg_accepts_nan :
    checkCylSeg (.seq [.num 1, .num 2, .num 1, .nanf, .num 90]) =
      .ok (.array ⟨[5], [.fin 1, .fin 2, .fin 1, .nan, .fin 90]⟩) ∧
    docSegment (.seq [.num 1, .num 2, .num 1, .nanf, .num 90]) = false ∧
    checkCylSeg (.seq [.num 1, .num 2, .num 1, .none, .num 90]) = .error .badUserInput := ⟨by rfl, by decide, by rfl⟩

/-- docstring and code disagree: the class docstring requires r1 < r2 and phi1 < phi2, the code accepts equality -/
theorem cylseg_accepts_degenerate :
    (∃ s, checkCylSeg (.seq [.num 1, .num 1, .num 1, .num 30, .num 30]) = .ok s) := ⟨_, by rfl⟩

/-- C17: `check_format_input_cylinder_segment` rejects only with the library's input error (also for
None/nan entries): the tuple unpacking cannot fail after the shape check -/
theorem cylseg_error_is_bad (v : PyVal) (e : Err) (h : checkCylSeg v = .error e) : e = .badUserInput := by
  unfold checkCylSeg at h
  cases hc : checkVector segmentCfg v with
  | error e' =>
    simp only [hc] at h
    injection h with h; subst h
    exact vector_error_is_bad segmentCfg (by simp [segmentCfg]) (by simp [segmentCfg]) v _ hc
  | ok s0 =>
    rw [segmentCfg_eq] at hc
    rcases (vec_ok_iff _ _ 5 false v s0).mp hc with ⟨rfl, rfl⟩ | ⟨ha, hs, _, rfl⟩
    · rw [segmentCfg_eq, hc] at h; cases h
    · rw [segmentCfg_eq, hc] at h
      have hlen : (flat v).length = 5 := by simpa [prod] using flat_length [5] v hs
      match hf : flat v, hlen with
      | [x1, x2, x3, x4, x5], _ =>
        simp only [hf] at h
        split at h
        · injection h with h; exact h.symm
        · cases h

/-- C17 (stored dimension): the float copy, shape (5,) -/
theorem cylseg_stored (v : PyVal) (s : Stored) (h : checkCylSeg v = .ok s) :
    (v = .none ∧ s = .none) ∨ s = .array ⟨[5], flat v⟩ := by
  unfold checkCylSeg at h
  cases hc : checkVector segmentCfg v with
  | error e' => simp only [hc] at h; cases h
  | ok s0 =>
    rw [segmentCfg_eq] at hc
    rcases (vec_ok_iff _ _ 5 false v s0).mp hc with ⟨rfl, rfl⟩ | ⟨ha, hs, _, rfl⟩
    · rw [segmentCfg_eq, hc] at h
      injection h with h
      exact Or.inl ⟨rfl, h.symm⟩
    · rw [segmentCfg_eq, hc] at h
      simp only at h
      split at h
      · split at h
        · cases h
        · injection h with h; exact Or.inr h.symm
      · cases h

example : checkCylSeg (.seq [.num 0, .num 1, .num 1, .num 0, .num 360]) = .ok (.array ⟨[5], [.fin 0, .fin 1, .fin 1, .fin 0, .fin 360]⟩) := by rfl
example : checkCylSeg (.seq [.num 2, .num 1, .num 1, .num 0, .num 90]) = .error .badUserInput := by rfl   -- r1 > r2
example : checkCylSeg (.seq [.num 1, .num 2, .num 1, .num 90, .num 0]) = .error .badUserInput := by rfl   -- reversed angles
example : checkCylSeg (.seq [.num 1, .num 2, .num 1, .num 0, .num 361]) = .error .badUserInput := by rfl  -- more than 360 degrees
example : checkCylSeg (.seq [.num 1, .num 2, .num (-1), .num 0, .num 90]) = .error .badUserInput := by rfl -- negative height
example : checkCylSeg (.seq [.num 1, .num 2, .num 1, .num 0]) = .error .badUserInput := by rfl            -- four entries
example : docSegment (.seq [.num 0, .num 1, .num 1, .num 0, .num 360]) = true := by decide

/-! ## scalar attributes (current, diameter): check_format_input_scalar -/

/-- C17 (scalar attributes), for every value: accepted ⇔ None (where allowed) or
an int/float/numpy real scalar/bool, not negative where the attribute is a size; every other value —
strings (also numeric ones), numpy.bool_, complex numbers, sequences, 0-d arrays, other objects — raises the
library's input error; the stored value is `float(value)`.  (Full strength since the repair of
check_format_input_scalar: before it, complex numbers escaped as a TypeError from `float(inp)`.) -/
theorem scalar_accepts_iff_documented (an fn : Bool) (v : PyVal) :
    ((∃ s, checkScalar an fn v = .ok s) ↔ docScalar an fn v = true) ∧
    (docScalar an fn v = false → checkScalar an fn v = .error .badUserInput) ∧
    (∀ s, checkScalar an fn v = .ok s → s = scalarValue v) := by
  cases v with
  | cplx => cases an <;> cases fn <;> simp [checkScalar, docScalar, isNumber, pyFloat]
  | num n =>
    have key : checkScalar an fn (.num n) =
        if (fn && decide (n < 0)) = true then .error .badUserInput else .ok (.scalar (.fin n)) := by
      cases an <;> cases fn <;> simp [checkScalar, isNumber, pyFloat, FVal.lt]
    rw [key]
    by_cases hb : (fn && decide (n < 0)) = true
    · have hdoc : docScalar an fn (.num n) = false := by
        simp only [Bool.and_eq_true, decide_eq_true_eq] at hb
        obtain ⟨rfl, hn⟩ := hb
        simp only [docScalar, Bool.not_true, Bool.false_or, decide_eq_false_iff_not]
        omega
      rw [if_pos hb, hdoc]
      refine ⟨⟨?_, ?_⟩, fun _ => rfl, ?_⟩
      · rintro ⟨_, h⟩; cases h
      · intro h; cases h
      · intro s h; cases h
    · have hdoc : docScalar an fn (.num n) = true := by
        simp only [Bool.and_eq_true, decide_eq_true_eq, not_and] at hb
        cases fn with
        | false => simp [docScalar]
        | true =>
          have := hb rfl
          simp only [docScalar, Bool.not_true, Bool.false_or, decide_eq_true_eq]
          omega
      rw [if_neg hb, hdoc]
      refine ⟨⟨fun _ => rfl, fun _ => ⟨_, rfl⟩⟩, ?_, ?_⟩
      · intro h; cases h
      · intro s h; injection h with h; exact h.symm
  | flt n =>
    have key : checkScalar an fn (.flt n) =
        if (fn && decide (n < 0)) = true then .error .badUserInput else .ok (.scalar (.fin n)) := by
      cases an <;> cases fn <;> simp [checkScalar, isNumber, pyFloat, FVal.lt]
    rw [key]
    by_cases hb : (fn && decide (n < 0)) = true
    · have hdoc : docScalar an fn (.flt n) = false := by
        simp only [Bool.and_eq_true, decide_eq_true_eq] at hb
        obtain ⟨rfl, hn⟩ := hb
        simp only [docScalar, Bool.not_true, Bool.false_or, decide_eq_false_iff_not]
        omega
      rw [if_pos hb, hdoc]
      refine ⟨⟨?_, ?_⟩, fun _ => rfl, ?_⟩
      · rintro ⟨_, h⟩; cases h
      · intro h; cases h
      · intro s h; cases h
    · have hdoc : docScalar an fn (.flt n) = true := by
        simp only [Bool.and_eq_true, decide_eq_true_eq, not_and] at hb
        cases fn with
        | false => simp [docScalar]
        | true =>
          have := hb rfl
          simp only [docScalar, Bool.not_true, Bool.false_or, decide_eq_true_eq]
          omega
      rw [if_neg hb, hdoc]
      refine ⟨⟨fun _ => rfl, fun _ => ⟨_, rfl⟩⟩, ?_, ?_⟩
      · intro h; cases h
      · intro s h; injection h with h; exact h.symm
  | none => cases an <;> cases fn <;> simp [checkScalar, docScalar, isNumber, scalarValue, eq_comm]
  | nanf => cases an <;> cases fn <;> simp [checkScalar, docScalar, isNumber, pyFloat, scalarValue, FVal.lt, eq_comm]
  | bool b => cases an <;> cases fn <;> cases b <;> simp [checkScalar, docScalar, isNumber, pyFloat, scalarValue, FVal.lt, eq_comm]
  | npbool b => cases an <;> cases fn <;> simp [checkScalar, docScalar, isNumber]
  | str t => cases an <;> cases fn <;> simp [checkScalar, docScalar, isNumber]
  | obj => cases an <;> cases fn <;> simp [checkScalar, docScalar, isNumber]
  | rot n f => cases an <;> cases fn <;> simp [checkScalar, docScalar, isNumber]
  | seq xs => cases an <;> cases fn <;> simp [checkScalar, docScalar, isNumber]
  | arr sh d => cases an <;> cases fn <;> simp [checkScalar, docScalar, isNumber]

/-- the scalar validator never lets a foreign exception escape: every rejection is the library's input error
(complex numbers, which pass `isinstance(inp, numbers.Number)` and make `float(inp)` raise TypeError, included) -/
theorem scalar_never_foreign (an fn : Bool) (v : PyVal) (e : Err) (h : checkScalar an fn v = .error e) :
    e = .badUserInput := by
  cases v with
  | num n =>
    have key : checkScalar an fn (.num n) =
        if (fn && decide (n < 0)) = true then .error .badUserInput else .ok (.scalar (.fin n)) := by
      cases an <;> cases fn <;> simp [checkScalar, isNumber, pyFloat, FVal.lt]
    rw [key] at h
    split at h <;> simp_all
  | flt n =>
    have key : checkScalar an fn (.flt n) =
        if (fn && decide (n < 0)) = true then .error .badUserInput else .ok (.scalar (.fin n)) := by
      cases an <;> cases fn <;> simp [checkScalar, isNumber, pyFloat, FVal.lt]
    rw [key] at h
    split at h <;> simp_all
  | cplx => cases an <;> cases fn <;> simp_all [checkScalar, isNumber, pyFloat]
  | none => cases an <;> cases fn <;> simp_all [checkScalar, isNumber]
  | nanf => cases an <;> cases fn <;> simp_all [checkScalar, isNumber, pyFloat, FVal.lt]
  | bool b => cases an <;> cases fn <;> cases b <;> simp_all [checkScalar, isNumber, pyFloat, FVal.lt]
  | npbool b => cases an <;> cases fn <;> simp_all [checkScalar, isNumber]
  | str t => cases an <;> cases fn <;> simp_all [checkScalar, isNumber]
  | obj => cases an <;> cases fn <;> simp_all [checkScalar, isNumber]
  | rot n f => cases an <;> cases fn <;> simp_all [checkScalar, isNumber]
  | seq xs => cases an <;> cases fn <;> simp_all [checkScalar, isNumber]
  | arr sh d => cases an <;> cases fn <;> simp_all [checkScalar, isNumber]

example : checkScalar true false .cplx = .error .badUserInput := by rfl
example : checkScalar true true (.num 0) = .ok (.scalar (.fin 0)) := by rfl
example : checkScalar true true (.num (-1)) = .error .badUserInput := by rfl
example : checkScalar true false (.num (-1)) = .ok (.scalar (.fin (-1))) := by rfl
example : checkScalar true true (.str "3") = .error .badUserInput := by rfl
example : checkScalar true true (.bool true) = .ok (.scalar (.fin 1)) := by rfl
example : checkScalar true true (.npbool true) = .error .badUserInput := by rfl
example : checkScalar true true .cplx = .error .badUserInput := by rfl
example : checkScalar false false .none = .error .badUserInput := by rfl
/-- a nan is a float and not negative: `Sphere(diameter=float('nan'))` is accepted (observed on the real code) -/
theorem scalar_accepts_nan : checkScalar true true .nanf = .ok (.scalar .nan) := by rfl

/-! ## check_format_input_vector2 (TriangularMesh.from_mesh) -/

/-- what `check_format_input_vector2` returns, and when: the value is array_like, float-convertible, and
on the axes that both the array and `shape` have, the sizes given in `shape` are matched -/
theorem vector2_ok_iff (shape : List (Option Nat)) (v : PyVal) (s : Stored) :
    checkVector2 shape v = .ok s ↔
      (isArrayLike v = true ∧ ∃ sh, hasShape sh v = true ∧ shapeAgrees sh shape ∧ s = .array ⟨sh, flat v⟩) := by
  rw [checkVector2]; simp only [makeFloatArray_eq]; unfold isArrayLikeCheck makeFloatArraySimple
  by_cases ha : isArrayLike v = true
  · simp only [ha, Bool.not_true, Bool.false_eq_true, if_false, true_and]
    cases hsh : shapeOf v with
    | none =>
      simp only [reduceCtorEq, false_iff, not_exists, not_and]
      intro sh hs
      rw [(shapeOf_iff_hasShape sh v).mpr hs] at hsh
      cases hsh
    | some sh0 =>
      have hs0 := (shapeOf_iff_hasShape sh0 v).mp hsh
      simp only
      cases hz : zipShapeCheck sh0 shape with
      | error e =>
        simp only [reduceCtorEq, false_iff, not_exists, not_and]
        intro sh hs hag
        have := hasShape_unique _ _ v hs hs0
        subst this
        rw [(zipShapeCheck_ok_iff sh shape).mpr hag] at hz
        cases hz
      | ok u =>
        have hag := (zipShapeCheck_ok_iff sh0 shape).mp hz
        simp only [Except.ok.injEq]
        constructor
        · rintro rfl; exact ⟨sh0, hs0, hag, rfl⟩
        · rintro ⟨sh, hs, _, rfl⟩
          rw [hasShape_unique _ _ v hs hs0]
  · have ha' : isArrayLike v = false := by simpa using ha
    simp [ha']

/-- the shape argument used by TriangularMesh.from_mesh -/
def meshShape : List (Option Nat) := [Option.none, some 3, some 3]

/-- C17 (from_mesh, only this direction holds): every array_like of the documented shape (n,3,3) is accepted
and stored as its float copy.  Missing for the full statement, and false of the code (witnesses below):
the converse — the rank is not compared, so shapes (3,), (n,3), (n,3,3,k) pass as well — and the
error kind — a wrong axis size raises ValueError, not the library's input error. -/
theorem vector2_accepts_documented_partial (n : Nat) (v : PyVal) (ha : isArrayLike v = true)
    (hs : hasShape [n, 3, 3] v = true) : checkVector2 meshShape v = .ok (.array ⟨[n, 3, 3], flat v⟩) := by
  rw [vector2_ok_iff]
  refine ⟨ha, _, hs, ?_, rfl⟩
  intro i d k h1 h2
  match i with
  | 0 => simp [meshShape] at h2
  | 1 => simp [meshShape] at h1 h2; omega
  | 2 => simp [meshShape] at h1 h2; omega
  | (j + 3) => simp [meshShape] at h2

/-- witness: a wrong axis size escapes as a foreign ValueError (the property asks for the library's input error) -/
theorem vector2_bad_shape_is_foreign :
    checkVector2 meshShape (.seq [.seq [.seq [.num 1, .num 2], .seq [.num 3, .num 4], .seq [.num 5, .num 6]]]) =
      .error (.foreign "ValueError") := by rfl

/-- witness: the rank is not checked — a flat (3,) vector is accepted where shape (n,3,3) is documented
(from_mesh then fails in `reshape` with a foreign ValueError) -/
theorem vector2_accepts_undocumented :
    checkVector2 meshShape (.seq [.num 1, .num 2, .num 3]) = .ok (.array ⟨[3], [.fin 1, .fin 2, .fin 3]⟩) := by rfl

/-- every rejection of `check_format_input_vector2` is either the library's input error (not array_like,
not float-convertible) or the ValueError of the shape loop -/
theorem vector2_error_kinds (shape : List (Option Nat)) (v : PyVal) (e : Err) (h : checkVector2 shape v = .error e) :
    e = .badUserInput ∨ e = .foreign "ValueError" := by
  rw [checkVector2] at h; simp only [makeFloatArray_eq] at h; unfold isArrayLikeCheck makeFloatArraySimple at h
  by_cases ha : isArrayLike v = true
  · simp only [ha, Bool.not_true, Bool.false_eq_true, if_false] at h
    cases hsh : shapeOf v with
    | none => simp only [hsh] at h; injection h with h; exact Or.inl h.symm
    | some sh0 =>
      simp only [hsh] at h
      cases hz : zipShapeCheck sh0 shape with
      | error e' =>
        simp only [hz] at h
        injection h with h; subst h
        exact Or.inr (zipShapeCheck_error _ _ _ hz)
      | ok u => simp only [hz] at h; cases h
  · have ha' : isArrayLike v = false := by simpa using ha
    simp only [ha', Bool.not_false, if_true] at h
    injection h with h; exact Or.inl h.symm

example : checkVector2 meshShape (.arr [1, 3, 3] [0, 0, 0, 1, 0, 0, 0, 1, 0]) =
    .ok (.array ⟨[1, 3, 3], [.fin 0, .fin 0, .fin 0, .fin 1, .fin 0, .fin 0, .fin 0, .fin 1, .fin 0]⟩) := by rfl

/-! ## arguments of move / rotate / getB: start, degrees, field, output, anchor, angle, axis, orientation -/

/-- `start`: accepted ⇔ an int (bool included) or the string 'auto'; floats (also integer-valued ones), numpy.bool_, None, other
strings, sequences are refused with the library's input error -/
theorem start_accepts_iff_documented (v : PyVal) :
    ((∃ s, checkStart v = .ok s) ↔ docStart v = true) ∧ (∀ e, checkStart v = .error e → e = .badUserInput) := by
  cases v <;> simp [checkStart, docStart]
  all_goals (split <;> simp_all)

/-- `degrees`: accepted ⇔ a Python bool (numpy.bool_, 0 and 1 are refused) -/
theorem degrees_accepts_iff_documented (v : PyVal) :
    ((∃ s, checkDegrees v = .ok s) ↔ docDegrees v = true) ∧ (∀ e, checkDegrees v = .error e → e = .badUserInput) := by
  cases v <;> simp [checkDegrees, docDegrees]

/-- `field`: accepted ⇔ one of the strings "B", "H", "M", "J" -/
theorem field_accepts_iff_documented (v : PyVal) :
    ((∃ s, checkField v = .ok s) ↔ docField v = true) ∧ (∀ e, checkField v = .error e → e = .badUserInput) := by
  cases v <;> simp [checkField, docField, or_assoc]
  all_goals (split <;> simp_all [or_assoc])

/-- `output`: accepted ⇔ "ndarray" or "dataframe" — but every rejection is a ValueError, not the library's input error
(pinned by tests/test_getBH_interfaces.py::test_getBH_bad_output_type) -/
theorem output_accepts_iff_documented (v : PyVal) :
    ((∃ s, checkOutput v = .ok s) ↔ docOutput v = true) ∧ (∀ e, checkOutput v = .error e → e = .foreign "ValueError") := by
  cases v <;> simp [checkOutput, docOutput]
  all_goals (split <;> simp_all)

/-- witness: a bad `output` raises a foreign error -/
theorem output_rejection_is_foreign : checkOutput (.num 1) = .error (.foreign "ValueError") := rfl

theorem anchor_ok_iff (v : PyVal) (s : Stored) :
    checkAnchor v = .ok s ↔
      (isZero v = true ∧ s = .array ⟨[3], [.fin 0, .fin 0, .fin 0]⟩) ∨ (v = .none ∧ s = .none) ∨
      (isArrayLike v = true ∧ ∃ sh, hasShape sh v = true ∧ shapeCond [1, 2] 3 0 sh ∧ prod sh ≠ 0 ∧ s = .array ⟨sh, flat v⟩) := by
  unfold checkAnchor
  by_cases hz : (isNumber v && isZeroNumber v) = true
  · have hz' : isZero v = true := by cases v <;> simp_all [isNumber, isZeroNumber, isZero]
    have hna : isArrayLike v = false := by cases v <;> simp_all [isNumber, isArrayLike]
    have hnn : v ≠ .none := by rintro rfl; simp [isNumber] at hz
    simp only [hz, if_true, Except.ok.injEq, hz', true_and, hnn, false_and, hna, Bool.false_eq_true, or_false]
    exact eq_comm
  · have hz' : isZero v = false := by
      cases v <;> simp_all [isNumber, isZeroNumber, isZero]
      all_goals (split <;> simp_all)
    simp only [hz, Bool.false_eq_true, if_false, hz', false_and, false_or]
    unfold anchorVec
    have hv : ∀ s, checkVector anchorCfg v = .ok s ↔ (v = .none ∧ s = .none) ∨
        (isArrayLike v = true ∧ ∃ sh, hasShape sh v = true ∧ shapeCond [1, 2] 3 0 sh ∧ s = .array ⟨sh, flat v⟩) := by
      intro s
      rw [vector_ok_iff anchorCfg (by simp [anchorCfg]) rfl]
      simp [anchorCfg]
    cases hc : checkVector anchorCfg v with
    | error e =>
      simp only [reduceCtorEq, false_iff, not_or, not_and, not_exists]
      refine ⟨?_, ?_⟩
      · rintro rfl rfl
        have := (hv .none).mpr (Or.inl ⟨rfl, rfl⟩)
        rw [hc] at this; cases this
      · intro ha sh hs hcnd _ hs'
        have := (hv s).mpr (Or.inr ⟨ha, sh, hs, hcnd, hs'⟩)
        rw [hc] at this; cases this
    | ok s0 =>
      rcases (hv s0).mp hc with ⟨rfl, rfl⟩ | ⟨ha, sh, hs, hcnd, rfl⟩
      · simp only [isArrayLike, Bool.false_eq_true, false_and, or_false, true_and, Except.ok.injEq]
        exact eq_comm
      · have hvn : v ≠ .none := by rintro rfl; simp [isArrayLike] at ha
        simp only [hvn, false_and, false_or, ha, true_and, NDArr.size]
        by_cases h0 : prod sh = 0
        · simp only [h0, beq_self_eq_true, if_true, reduceCtorEq, false_iff, not_exists, not_and]
          intro sh' hs' _ hp
          rw [hasShape_unique _ _ v hs' hs] at hp
          exact absurd h0 hp
        · have hb : (prod sh == 0) = false := by simpa using h0
          simp only [hb, Bool.false_eq_true, if_false, Except.ok.injEq]
          constructor
          · rintro rfl; exact ⟨sh, hs, hcnd, h0, rfl⟩
          · rintro ⟨sh', hs', _, _, rfl⟩
            rw [hasShape_unique _ _ v hs' hs]

/-- `anchor`: accepted ⇔ None, the number 0, or an array_like of shape (3,) or (n,3) with n ≥ 1 — at full strength since the
repair of `check_format_input_anchor` (before it the empty (0,3) array passed the check and `rotate_from_angax(45, 'z',
anchor=np.zeros((0,3)))` failed later with a ValueError; the statement then carried the disjunct `∨ hasShape [0, 3] v`) -/
theorem anchor_accepts_iff_documented (v : PyVal) :
    (∃ s, checkAnchor v = .ok s) ↔ docAnchor v = true := by
  simp only [anchor_ok_iff]
  by_cases hn : v = .none
  · subst hn; exact ⟨fun _ => rfl, fun _ => ⟨.none, Or.inr (Or.inl ⟨rfl, rfl⟩)⟩⟩
  have hdoc : docAnchor v = (isZero v || (isArrayLike v && (hasShape [3] v || (hasShape [outerLen v, 3] v && decide (1 ≤ outerLen v))))) := by
    cases v <;> first | (exact absurd rfl hn) | rfl
  rw [hdoc]
  simp only [hn, false_and, false_or, Bool.or_eq_true, Bool.and_eq_true, decide_eq_true_eq]
  constructor
  · rintro ⟨s, h | ⟨ha, sh, hs, hc, hp, _⟩⟩
    · exact Or.inl h.1
    · rcases (shapeCond_position sh).mp hc with rfl | ⟨m, rfl⟩
      · exact Or.inr ⟨ha, Or.inl hs⟩
      · have ho := outerLen_of_hasShape m [3] v hs
        have hm : m ≠ 0 := by rintro rfl; simp [prod] at hp
        exact Or.inr ⟨ha, Or.inr ⟨by rw [ho]; exact hs, by omega⟩⟩
  · rintro (hz | ⟨ha, h3 | ⟨hs, h1⟩⟩)
    · exact ⟨_, Or.inl ⟨hz, rfl⟩⟩
    · exact ⟨_, Or.inr ⟨ha, [3], h3, (shapeCond_position _).mpr (Or.inl rfl), by simp [prod], rfl⟩⟩
    · exact ⟨_, Or.inr ⟨ha, _, hs, (shapeCond_position _).mpr (Or.inr ⟨_, rfl⟩), by simp [prod]; omega, rfl⟩⟩

/-- the former finding `anchor-accepts-empty` (before the repair this theorem stated the acceptance): the empty (0,3) array is
not a documented anchor and is refused with the library's input error -/
theorem anchor_rejects_empty :
    checkAnchor (.arr [0, 3] []) = .error .badUserInput ∧ docAnchor (.arr [0, 3] []) = false := ⟨by rfl, by decide⟩

theorem anchor_error_is_bad (v : PyVal) (e : Err) (h : checkAnchor v = .error e) : e = .badUserInput := by
  unfold checkAnchor at h
  split at h
  · cases h
  · unfold anchorVec at h
    cases hc : checkVector anchorCfg v with
    | error e' =>
      simp only [hc] at h
      injection h with h; subst h
      exact vector_error_is_bad anchorCfg (by simp [anchorCfg]) (by simp [anchorCfg]) v _ hc
    | ok s0 =>
      simp only [hc] at h
      cases s0 with
      | array a =>
        dsimp only at h
        split at h
        · injection h with h; exact h.symm
        · cases h
      | none => cases h
      | scalar x => cases h
      | text t => cases h
      | quats n => cases h

/-- `angle`: every real number (int, float, bool, nan) is accepted and stored as its float; everything else that is not a
number goes through the vector validator for shape (n,), n ≥ 0 -/
theorem angle_accepts_iff_documented (v : PyVal) :
    (∃ s, checkAngle v = .ok s) ↔ docAngle v = true := by
  unfold checkAngle docAngle
  by_cases hnum : isNumber v = true
  · have hna : isArrayLike v = false := by cases v <;> simp_all [isNumber, isArrayLike]
    cases v <;> simp_all [isNumber, pyFloat, isRealNumber]
  · have hr : isRealNumber v = false := by cases v <;> simp_all [isNumber, isRealNumber]
    simp only [hnum, Bool.false_eq_true, if_false, hr, Bool.false_or, Bool.and_eq_true]
    constructor
    · rintro ⟨s, h⟩
      rcases (vector_ok_iff angleCfg (by simp [angleCfg]) rfl v s).mp h with ⟨h0, _⟩ | ⟨ha, sh, hs, hc, _⟩
      · simp [angleCfg] at h0
      · obtain ⟨hd, _⟩ := hc
        simp only [angleCfg, List.mem_singleton] at hd
        match sh, hd with
        | [n], _ => exact ⟨ha, by rw [outerLen_of_hasShape n [] v hs]; exact hs⟩
    · rintro ⟨ha, hs⟩
      exact ⟨_, (vector_ok_iff angleCfg (by simp [angleCfg]) rfl v _).mpr
        (Or.inr ⟨ha, _, hs, ⟨by simp [angleCfg], Or.inl rfl, Or.inl rfl⟩, by simp [angleCfg], rfl⟩)⟩

/-- every rejection of `angle` is the library's input error — at full strength since the repair of
`check_format_input_angle` (before it a complex number escaped as the TypeError of `float(inp)`:
`rotate_from_angax(1j, 'z')`; the statement then read `e = badUserInput ∨ (v = cplx ∧ e = foreign "TypeError")`) -/
theorem angle_error_is_bad (v : PyVal) (e : Err) (h : checkAngle v = .error e) : e = .badUserInput := by
  unfold checkAngle at h
  split at h
  · cases v <;> simp_all [isNumber, pyFloat]
  · exact vector_error_is_bad angleCfg (by simp [angleCfg]) (by simp [angleCfg]) v e h

/-- the former finding `foreign-error:angle:TypeError`: a complex angle is refused with the library's input error -/
theorem angle_complex_is_bad : checkAngle .cplx = .error .badUserInput := rfl

theorem axis_vec_ok_iff (v : PyVal) (s : Stored) :
    checkVector axisCfg v = .ok s ↔ (isArrayLike v = true ∧ hasShape [3] v = true ∧ s = .array ⟨[3], flat v⟩) := by
  rw [vector_ok_iff axisCfg (by simp [axisCfg]) rfl]
  simp only [axisCfg, Bool.false_eq_true, false_and, false_or, false_implies, true_and]
  have : ∀ sh, shapeCond [1] 3 0 sh ↔ sh = [3] := fun sh => shapeCond_vec 3 sh
  constructor
  · rintro ⟨ha, sh, hs, hc, rfl⟩
    rw [(this sh).mp hc] at hs ⊢
    exact ⟨ha, hs, rfl⟩
  · rintro ⟨ha, hs, rfl⟩
    exact ⟨ha, [3], hs, (this _).mpr rfl, rfl⟩

/-- `axis`: accepted ⇔ one of "x", "y", "z", or an array_like of three numbers that is not (0,0,0); every rejection is the
library's input error.  (nan entries pass: `nan == 0` is false; the rotation is then refused by the finiteness check of
`check_format_input_orientation`.) -/
theorem axis_accepts_iff_documented (v : PyVal) :
    ((∃ s, checkAxis v = .ok s) ↔ docAxis v = true) ∧ (∀ e, checkAxis v = .error e → e = .badUserInput) := by
  have gen : ∀ w : PyVal, ((∃ s, axisVec w = .ok s) ↔ docAxisVec w = true) ∧ (∀ e, axisVec w = .error e → e = .badUserInput) := by
    intro w
    unfold axisVec docAxisVec
    cases hc : checkVector axisCfg w with
    | error e' =>
      have hbad := vector_error_is_bad axisCfg (by simp [axisCfg]) (by simp [axisCfg]) w e' hc
      dsimp only
      refine ⟨⟨fun h => (by obtain ⟨_, h⟩ := h; cases h), ?_⟩, fun e h => (by injection h with h; rw [← h]; exact hbad)⟩
      intro hdoc
      simp only [Bool.and_eq_true] at hdoc
      have := (axis_vec_ok_iff w _).mpr ⟨hdoc.1.1, hdoc.1.2, rfl⟩
      rw [hc] at this; cases this
    | ok s0 =>
      obtain ⟨ha, hs, rfl⟩ := (axis_vec_ok_iff w s0).mp hc
      simp only [ha, hs, Bool.true_and]
      by_cases hz : (flat w).all (· == FVal.fin 0) = true
      · simp [hz]
      · simp [hz]
  cases v with
  | str t =>
    simp only [checkAxis, docAxis]
    by_cases hx : t = "x"
    · subst hx; simp
    by_cases hy : t = "y"
    · subst hy; simp
    by_cases hzz : t = "z"
    · subst hzz; simp
    simp [hx, hy, hzz]
  | none => simpa only [checkAxis, docAxis] using gen .none
  | bool b => simpa only [checkAxis, docAxis] using gen (.bool b)
  | num n => simpa only [checkAxis, docAxis] using gen (.num n)
  | flt n => simpa only [checkAxis, docAxis] using gen (.flt n)
  | npbool b => simpa only [checkAxis, docAxis] using gen (.npbool b)
  | nanf => simpa only [checkAxis, docAxis] using gen .nanf
  | cplx => simpa only [checkAxis, docAxis] using gen .cplx
  | obj => simpa only [checkAxis, docAxis] using gen .obj
  | rot n f => simpa only [checkAxis, docAxis] using gen (.rot n f)
  | seq xs => simpa only [checkAxis, docAxis] using gen (.seq xs)
  | arr sh d => simpa only [checkAxis, docAxis] using gen (.arr sh d)

/-- `orientation` (attribute and constructor: init_format; move/rotate argument: not): accepted ⇔ None or a scipy Rotation
whose quaternions are all finite (repo commit c681ce5) and, for the attribute, not empty; stored: one unit quaternion for None,
the n quaternions of the Rotation otherwise; every rejection is the library's input error -/
theorem orientation_accepts_iff_documented (isAttr : Bool) (v : PyVal) :
    ((∃ s, checkOrientation isAttr v = .ok s) ↔ docOrientation isAttr v = true) ∧
    (∀ e, checkOrientation isAttr v = .error e → e = .badUserInput) ∧
    (∀ s, checkOrientation isAttr v = .ok s → s = .quats (match v with | .rot n _ => n | _ => 1)) := by
  cases v <;> simp [checkOrientation, docOrientation]
  rename_i n f
  cases f <;> cases isAttr <;> simp
  all_goals (by_cases hn : n = 0 <;> simp [hn])
  all_goals (intro s h; exact h.symm)

example : checkStart (.flt 1) = .error .badUserInput := by rfl
example : checkStart (.bool true) = .ok .none := by rfl
example : checkStart (.str "auto") = .ok .none := by simp [checkStart]
example : checkDegrees (.npbool true) = .error .badUserInput := by rfl
example : checkAnchor (.bool false) = .ok (.array ⟨[3], [.fin 0, .fin 0, .fin 0]⟩) := by rfl
example : checkAnchor (.seq [.num 1, .num 2, .num 3]) = .ok (.array ⟨[3], [.fin 1, .fin 2, .fin 3]⟩) := by rfl
example : checkAngle (.seq []) = .ok (.array ⟨[0], []⟩) := by rfl
example : checkAxis (.seq [.num 0, .flt 0, .num 0]) = .error .badUserInput := by rfl
example : checkAxis (.seq [.nanf, .num 0, .num 0]) = .ok (.array ⟨[3], [.nan, .fin 0, .fin 0]⟩) := by rfl
example : checkOrientation true (.rot 0 true) = .error .badUserInput := by rfl
example : checkOrientation false (.rot 0 true) = .ok (.quats 0) := by rfl
example : checkOrientation false (.rot 2 false) = .error .badUserInput := by rfl

/-! ## rejected assignments change nothing -/

/-- C17 (rejected assignment keeps the state): every setter of the form "validate, then assign" leaves
the stored value as it was when the validator raises, and stores what the validator returned otherwise -/
theorem setter_reject_keeps_state (check : PyVal → Except Err Stored) (old : Stored) (v : PyVal) :
    ((setAttrWith check old v).2 ≠ none → (setAttrWith check old v).1 = old) ∧
    ((setAttrWith check old v).2 = none → check v = .ok (setAttrWith check old v).1) := by
  unfold setAttrWith
  cases check v <;> simp

/-- a rejected assignment leaves the stored value as it was; an accepted one stores the validated copy -/
theorem reject_keeps_state (cfg : Attr.Row) (old : Stored) (v : PyVal) :
    ((setAttr cfg old v).2 ≠ none → (setAttr cfg old v).1 = old) ∧
    ((setAttr cfg old v).2 = none → checkVector cfg v = .ok (setAttr cfg old v).1) :=
  setter_reject_keeps_state (checkVector cfg) old v

/-- C17 (Sensor): a rejected `pixel` or `handedness` assignment raises the library's input error and leaves
both attributes unchanged; an accepted one changes only the assigned attribute, to the validated copy.
(The pixel setter validates into a local variable and assigns last.) -/
theorem sensor_reject_keeps_state (st : SensorState) (v : PyVal) :
    (∀ e, (st.setPixel v).2 = some e → e = .badUserInput ∧ (st.setPixel v).1 = st) ∧
    ((st.setPixel v).2 = none → checkPixel v = .ok (st.setPixel v).1.pixel ∧ (st.setPixel v).1.handedness = st.handedness) ∧
    (∀ e, (st.setHandedness v).2 = some e → e = .badUserInput ∧ (st.setHandedness v).1 = st) ∧
    ((st.setHandedness v).2 = none →
      checkHandedness v = .ok (st.setHandedness v).1.handedness ∧ (st.setHandedness v).1.pixel = st.pixel) := by
  refine ⟨?_, ?_, ?_, ?_⟩
  · intro e h
    unfold SensorState.setPixel at h ⊢
    cases hc : checkPixel v with
    | error e' =>
      simp only [hc, Option.some.injEq] at h ⊢
      subst h
      exact ⟨pixel_error_is_bad v _ hc, trivial⟩
    | ok s => simp [hc] at h
  · intro h
    unfold SensorState.setPixel at h ⊢
    cases hc : checkPixel v with
    | error e' => simp [hc] at h
    | ok s => simp
  · intro e h
    unfold SensorState.setHandedness at h ⊢
    cases hc : checkHandedness v with
    | error e' =>
      simp only [hc, Option.some.injEq] at h ⊢
      subst h
      refine ⟨?_, trivial⟩
      have := (handedness_accepts_iff_documented v).2.1
      cases hd : docHandedness v with
      | false => rw [this hd] at hc; injection hc with hc; exact hc.symm
      | true =>
        obtain ⟨s, hs⟩ := (handedness_accepts_iff_documented v).1.mpr hd
        rw [hs] at hc; cases hc
    | ok s => simp [hc] at h
  · intro h
    unfold SensorState.setHandedness at h ⊢
    cases hc : checkHandedness v with
    | error e' => simp [hc] at h
    | ok s => simp

/-- C17 (position setter): a rejected position raises the library's input error and leaves position and
orientation path as they were; an accepted one stores the (m,3) float path and the orientation path gets
the same length m -/
theorem position_reject_keeps_state (st : GeoState) (v : PyVal) :
    (∀ e, (st.setPosition v).2 = some e → e = .badUserInput ∧ (st.setPosition v).1 = st) ∧
    ((st.setPosition v).2 = none →
      ∃ m, 1 ≤ m ∧ (st.setPosition v).1 = ⟨.array ⟨[m, 3], flat v⟩, m⟩) := by
  refine ⟨?_, ?_⟩
  · intro e h
    unfold GeoState.setPosition at h ⊢
    cases hc : checkVector positionCfg v with
    | error e' =>
      simp only [hc, Option.some.injEq] at h ⊢
      subst h
      exact ⟨position_error_is_bad v _ hc, trivial⟩
    | ok s => simp [hc] at h
  · intro h
    unfold GeoState.setPosition at h ⊢
    cases hc : checkVector positionCfg v with
    | error e' => simp [hc] at h
    | ok s =>
      obtain ⟨m, hm, rfl, _⟩ := position_stored v s hc
      exact ⟨m, hm, rfl⟩

example : (SensorState.mk (.array ⟨[3], [.fin 1, .fin 2, .fin 3]⟩) (.text "right")).setPixel (.arr [0, 3] []) =
    (⟨.array ⟨[3], [.fin 1, .fin 2, .fin 3]⟩, .text "right"⟩, some .badUserInput) := by rfl
example : (GeoState.mk (.array ⟨[1, 3], [.fin 0, .fin 0, .fin 0]⟩) 1).setPosition (.seq [.seq [.num 1, .num 2, .num 3], .seq [.num 4, .num 5, .num 6]]) =
    (⟨.array ⟨[2, 3], [.fin 1, .fin 2, .fin 3, .fin 4, .fin 5, .fin 6]⟩, 2⟩, none) := by rfl

/-! ## the generated tables: which validator with which arguments each setter calls; the source the model mirrors -/

/-- every vector-valued attribute of the object classes is configured as its documentation says
(checked against the table regenerated from the setters' source on every run) -/
theorem table_is_documented :
    Attr.table.filter (fun r => r.validator == "check_format_input_vector") =
      [ positionCfg,
        vecCfg "BaseMagnet" "magnetization" 3 false,
        vecCfg "BaseMagnet" "polarization" 3 false,
        vecCfg "Cuboid" "dimension" 3 true,
        vecCfg "Cylinder" "dimension" 2 true,
        vecCfg "Dipole" "moment" 3 false,
        pixelCfg,
        tetrahedronCfg,
        triangleCfg ] := by
  decide

/-- the remaining validated attributes: scalar ones with their flags (diameters must not be negative),
CylinderSegment.dimension and Polyline.vertices with their dedicated validators -/
theorem table_other_validators :
    (Attr.table.filter (fun r => r.validator != "check_format_input_vector")).map
        (fun r => (r.cls, r.attr, r.validator, r.allowNone, r.forbidNegative)) =
      [ ("BaseCurrent", "current", "check_format_input_scalar", true, false),
        ("BaseGeo", "orientation", "check_format_input_orientation", false, false),
        ("Circle", "diameter", "check_format_input_scalar", true, true),
        ("CylinderSegment", "dimension", "check_format_input_cylinder_segment", false, false),
        ("Polyline", "vertices", "check_format_input_vertices", false, false),
        ("Sphere", "diameter", "check_format_input_scalar", true, true) ] := by
  decide

/-- the calls of the generic vector validator inside check_format_input_vertices and
check_format_input_cylinder_segment carry the arguments the model uses -/
theorem inner_is_modelled : verticesCfg ∈ Attr.inner ∧ segmentCfg ∈ Attr.inner ∧ anchorCfg ∈ Attr.inner ∧ axisCfg ∈ Attr.inner ∧
    angleCfg ∈ Attr.inner := by
  decide

/-- C17 (every vector attribute of the regenerated table, never a foreign error): whatever value is
assigned to position, magnetization, polarization, moment, dimension (Cuboid, Cylinder), pixel or
vertices (Triangle, Tetrahedron), a rejection is the library's input error -/
theorem table_rejects_with_input_error (r : Attr.Row) (hr : r ∈ Attr.table)
    (hv : r.validator = "check_format_input_vector") (v : PyVal) (e : Err) (h : checkVector r v = .error e) :
    e = .badUserInput := by
  have key : ∀ r ∈ Attr.table, r.validator = "check_format_input_vector" →
      0 ∉ r.dims ∧ (r.reshape = true → r.shapeM1 = 3) := by decide
  obtain ⟨h0, h3⟩ := key r hr hv
  exact vector_error_is_bad r h0 h3 v e h

/-- the five geometric conditions of check_format_input_cylinder_segment as the source states them now
(the model's `checkCylSeg` and the spec's `segmentOK` were written against exactly these) -/
theorem segConds_is_modelled :
    Attr.segConds =
      [ ("unpack", "(r1, r2, h, phi1, phi2) = inp"),
        ("case2", "r1 > r2"),
        ("case3", "phi1 > phi2"),
        ("case4", "phi2 - phi1 > 360"),
        ("case5", "(r1 < 0) | (r2 <= 0) | (h <= 0)"),
        ("raise-if", "case2 | case3 | case4 | case5") ] := by
  decide

/-- the control-flow skeleton (tests, assignments, raises and returns, in source order) of every function
modelled by hand in Model/Validators.lean, as the source states it now -/
theorem skeleton_is_modelled :
    Attr.skeleton =
      [ ("is_array_like", ["if not isinstance(inp, (list, tuple, np.ndarray))", "  raise MagpylibBadUserInput"]),
        ("make_float_array", ["try", "  arr = inp if isinstance(inp, np.ndarray) else np.array(inp)", "  kind = arr.dtype.kind", "  if kind not in 'fiub'", "    if kind != 'O' or not all((isinstance(x, (numbers.Number, np.bool_)) for x in arr.flat))", "      bad = {'O': 'None or other objects that are not numbers', 'U': 'strings', 'S': 'bytes'}.get(...)", "      raise TypeError", "  if arr is inp", "    inp_array = np.array(arr, dtype=float)", "  else", "    inp_array = np.asarray(arr, dtype=float)", "except Exception", "  raise MagpylibBadUserInput", "return inp_array"]),
        ("none_rows_to_nan", ["try", "  arr = np.array(inp)", "  if arr.dtype.kind == 'O' and arr.ndim == 2", "    arr[np.equal(arr, None).all(axis=1)] = np.nan", "except Exception", "  return inp", "return arr"]),
        ("check_array_shape", ["if inp.ndim in dims", "  if shape_m1 == 'any' or inp.shape[-1] == shape_m1", "    if length is None or len(inp) == length", "      return None", "raise MagpylibBadUserInput"]),
        ("check_format_input_scalar", ["if allow_None", "  if inp is None", "    return None", "if not isinstance(inp, numbers.Number)", "  raise MagpylibBadUserInput", "try", "  inp = float(inp)", "except (TypeError, OverflowError)", "  raise MagpylibBadUserInput", "if forbid_negative", "  if inp < 0", "    raise MagpylibBadUserInput", "return inp"]),
        ("check_format_input_vector", ["if allow_None", "  if inp is None", "    return None", "is_array_like(...)", "inp = make_float_array(...)", "check_array_shape(...)", "if isinstance(reshape, tuple)", "  if inp.size == 0", "    raise MagpylibBadUserInput", "  return np.reshape(inp, reshape)", "if forbid_negative0", "  if np.any(inp <= 0)", "    raise MagpylibBadUserInput", "return inp"]),
        ("check_format_input_vector2", ["is_array_like(...)", "inp = make_float_array(...)", "for (d1, d2) in zip(inp.shape, shape)", "  if d2 is not None", "    if d1 != d2", "      raise ValueError", "return inp"]),
        ("check_format_input_vertices", ["if isinstance(inp, (list, tuple))", "  inp = none_rows_to_nan(inp)", "inp = check_format_input_vector(...)", "if inp is not None", "  if inp.shape[0] < 2", "    raise MagpylibBadUserInput", "return inp"]),
        ("check_start_type", ["if not (isinstance(inp, (int, np.integer)) or (isinstance(inp, str) and inp == 'auto'))", "  raise MagpylibBadUserInput"]),
        ("check_degree_type", ["if not isinstance(inp, bool)", "  raise MagpylibBadUserInput"]),
        ("check_field_input", ["allowed = tuple('BHMJ')", "if not (isinstance(inp, str) and inp in allowed)", "  raise MagpylibBadUserInput"]),
        ("check_getBH_output_type", ["acceptable = ('ndarray', 'dataframe')", "if output not in acceptable", "  raise ValueError", "if output == 'dataframe'", "  try", "  except ImportError", "    raise ModuleNotFoundError", "return output"]),
        ("check_format_input_anchor", ["if isinstance(inp, numbers.Number) and inp == 0", "  return np.array((0.0, 0.0, 0.0))", "inp = check_format_input_vector(...)", "if inp is not None and inp.size == 0", "  raise MagpylibBadUserInput", "return inp"]),
        ("check_format_input_angle", ["if isinstance(inp, numbers.Number)", "  try", "    return float(inp)", "  except (TypeError, OverflowError)", "    raise MagpylibBadUserInput", "return check_format_input_vector(inp, dims=(1,), shape_m1='any', sig_name='angle', sig_type='int, float or array_like (list, tuple, ndarray) with shape (n,)')"]),
        ("check_format_input_axis", ["if isinstance(inp, str)", "  if inp == 'x'", "    return np.array((1, 0, 0))", "  if inp == 'y'", "    return np.array((0, 1, 0))", "  if inp == 'z'", "    return np.array((0, 0, 1))", "  raise MagpylibBadUserInput", "inp = check_format_input_vector(...)", "if np.all(inp == 0)", "  raise MagpylibBadUserInput", "return inp"]),
        ("check_format_input_orientation", ["if not isinstance(inp, (Rotation, type(None)))", "  raise MagpylibBadUserInput", "if inp is None", "  inpQ = np.array((0, 0, 0, 1))", "  inp = Rotation.from_quat(inpQ)", "else", "  inpQ = inp.as_quat()", "  if not np.all(np.isfinite(inpQ))", "    raise MagpylibBadUserInput", "if init_format", "  if inpQ.size == 0", "    raise MagpylibBadUserInput", "  return np.reshape(inpQ, (-1, 4))", "return (inp, inpQ)"]),
        ("Sensor.pixel", ["pixel = check_format_input_vector(...)", "if pixel is not None and pixel.size == 0", "  raise MagpylibBadUserInput", "self._pixel = pixel"]),
        ("Sensor.handedness", ["if not (isinstance(val, str) and val in {'right', 'left'})", "  raise MagpylibBadUserInput", "self._handedness = val"]) ] := by
  rfl

end MagpyVerif.C17
