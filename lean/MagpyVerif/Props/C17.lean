/-
Props/C17.lean — malformed inputs are rejected at assignment, valid ones stored faithfully.
Validator model: Model/Validators.lean; per-attribute configuration: Gen/Attr.lean (regenerated
from the setters' source on every run).
/- FULL: every public attribute of every class.  Proved here: the generic vector validator
   accepts exactly "None or k numbers (positive where documented)" for every k, the table rows of
   all vector attributes are the documented ones, rejected assignments keep the stored value.
   Scalar attributes, orientation, CylinderSegment.dimension, Polyline.vertices, pixel and
   handedness are exercised by the grammar oracle on the real setters and constructors. -/
-/
import MagpyVerif.Model.Validators
namespace MagpyVerif.C17
open MagpyVerif.Valid MagpyVerif.Gen

/-- documented format "k numbers": a sequence of exactly k numeric entries -/
def IsVecN (k : Nat) (v : PyVal) : Prop := ∃ vals : List Int, vals.length = k ∧ v = .seq (vals.map .num)

theorem shapeOf_scalar_iff (x : PyVal) : shapeOf x = some [] ↔ ∃ v, x = .num v := by
  cases x with
  | none => simp [shapeOf]
  | str => simp [shapeOf]
  | num v => simp [shapeOf]
  | seq xs =>
    simp only [shapeOf, reduceCtorEq, exists_false, iff_false]
    cases shapesOf xs with
    | none => simp
    | some l =>
      cases l with
      | nil => simp
      | cons s ss => simp only; split <;> simp

theorem shapesOf_nums (vals : List Int) : shapesOf (vals.map .num) = some (vals.map fun _ => []) := by
  induction vals with
  | nil => rfl
  | cons v vs ih => simp [shapesOf, shapeOf, ih]

theorem shapesOf_all_scalar (xs : List PyVal) (ss : List (List Nat)) (h : shapesOf xs = some ss)
    (hall : ∀ s ∈ ss, s = []) : ∃ vals : List Int, xs = vals.map .num := by
  induction xs generalizing ss with
  | nil => exact ⟨[], rfl⟩
  | cons x xs ih =>
    simp only [shapesOf] at h
    cases hx : shapeOf x with
    | none => simp [hx] at h
    | some s =>
      cases hxs : shapesOf xs with
      | none => simp [hx, hxs] at h
      | some ss' =>
        simp only [hx, hxs, Option.some.injEq] at h
        subst h
        have hs : s = [] := hall s (by simp)
        subst hs
        obtain ⟨v, rfl⟩ := (shapeOf_scalar_iff x).mp hx
        obtain ⟨vals, rfl⟩ := ih ss' hxs (fun s hs => hall s (by simp [hs]))
        exact ⟨v :: vals, rfl⟩

theorem shapesOf_length (xs : List PyVal) (ss : List (List Nat)) (h : shapesOf xs = some ss) :
    ss.length = xs.length := by
  induction xs generalizing ss with
  | nil => simp [shapesOf] at h; subst h; rfl
  | cons x xs ih =>
    simp only [shapesOf] at h
    cases hx : shapeOf x with
    | none => simp [hx] at h
    | some s =>
      cases hxs : shapesOf xs with
      | none => simp [hx, hxs] at h
      | some ss' =>
        simp only [hx, hxs, Option.some.injEq] at h
        subst h
        simp [ih ss' hxs]

/-- a rank-1 array of length k ≥ 1 is exactly a sequence of k numbers -/
theorem shapeOf_vec_iff (xs : List PyVal) (k : Nat) (hk : 1 ≤ k) :
    shapeOf (.seq xs) = some [k] ↔ ∃ vals : List Int, vals.length = k ∧ xs = vals.map .num := by
  constructor
  · intro h
    simp only [shapeOf] at h
    cases hs : shapesOf xs with
    | none => simp [hs] at h
    | some l =>
      cases l with
      | nil => simp [hs] at h; omega
      | cons s ss =>
        simp only [hs] at h
        split at h
        · rename_i hall
          simp only [Option.some.injEq, List.cons.injEq] at h
          obtain ⟨h1, h2⟩ := h
          subst h2
          have hall' : ∀ t ∈ ([] :: ss), t = [] := by
            intro t ht
            rcases List.mem_cons.mp ht with rfl | ht
            · rfl
            · exact eq_of_beq (List.all_eq_true.mp hall t ht)
          obtain ⟨vals, rfl⟩ := shapesOf_all_scalar xs _ hs hall'
          refine ⟨vals, ?_, rfl⟩
          have := shapesOf_length _ _ hs
          simp at this
          omega
        · simp at h
  · rintro ⟨vals, hl, rfl⟩
    simp only [shapeOf, shapesOf_nums]
    cases vals with
    | nil => simp at hl; omega
    | cons v vs =>
      simp only [List.map_cons]
      have : (vs.map fun _ => ([] : List Nat)).all (· == []) = true := by simp
      simp only [this, if_true, List.length_map]
      simp at hl; simp [hl]

theorem leavesL_nums (vals : List Int) : leavesL (vals.map .num) = vals := by
  induction vals with
  | nil => rfl
  | cons v vs ih => simp [leavesL, leaves, ih]

/-- configuration "k numbers or None" -/
def vecCfg (cls attr : String) (k : Nat) (pos : Bool) : Attr.Row :=
  ⟨cls, attr, "check_format_input_vector", [1], k, 0, true, false, pos, false⟩

/-- C17 (accepts exactly the documented format): an attribute documented as "array_like of k
numbers, or None" accepts a value iff it is None or a sequence of exactly k numbers (all
positive where the documentation says so); everything else — other lengths, nesting, strings,
scalars — raises the library's input error. -/
theorem accepts_iff_documented (cls attr : String) (k : Nat) (hk : 1 ≤ k) (pos : Bool) (v : PyVal) :
    (∃ s, checkVector (vecCfg cls attr k pos) v = .ok s) ↔
      (v = .none ∨ ∃ vals : List Int, vals.length = k ∧ v = .seq (vals.map .num) ∧
        (pos = true → ∀ x ∈ vals, 0 < x)) := by
  cases v with
  | none => simp [checkVector, vecCfg]
  | num x => simp [checkVector]
  | str => simp [checkVector]
  | seq xs =>
    simp only [reduceCtorEq, false_or, PyVal.seq.injEq]
    constructor
    · rintro ⟨s, hs⟩
      simp only [checkVector, vecCfg] at hs
      cases hsh : shapeOf (.seq xs) with
      | none => simp [hsh] at hs
      | some sh =>
        simp only [hsh] at hs
        by_cases hc : (([1] : List Nat).contains sh.length && (((k : Int) == -1) || (sh.getLast?.map (fun (j : Nat) => (j : Int))) == some (k : Int)) &&
            (((0 : Nat) == 0) || sh.head? == some 0)) = true
        · have hshape : sh = [k] := by
            simp only [Bool.and_eq_true, Bool.or_eq_true, beq_iff_eq] at hc
            have h1 : sh.length = 1 := by simpa using hc.1.1
            match sh, h1 with
            | [a], _ =>
              have := hc.1.2
              simp at this
              have hak : a = k := by omega
              rw [hak]
          subst hshape
          obtain ⟨vals, hl, rfl⟩ := (shapeOf_vec_iff xs k hk).mp hsh
          refine ⟨vals, hl, rfl, ?_⟩
          intro hp x hx
          subst hp
          simp only [hc, Bool.not_true, Bool.false_eq_true, if_false, Bool.false_and, Bool.true_and] at hs
          by_cases hany : ((leaves (PyVal.seq (vals.map .num))).any fun x => decide (x ≤ 0)) = true
          · simp [hany] at hs
          · simp only [leaves, leavesL_nums, List.any_eq_true, decide_eq_true_eq, not_exists, not_and, Int.not_le] at hany
            exact hany x hx
        · have hc' := eq_false_of_ne_true hc
          simp only [hc', Bool.not_false, if_true] at hs
          cases hs
    · rintro ⟨vals, hl, rfl, hpos⟩
      have hsh := (shapeOf_vec_iff (vals.map .num) k hk).mpr ⟨vals, hl, rfl⟩
      simp only [checkVector, vecCfg, hsh]
      have hc : (([1] : List Nat).contains [k].length && (((k : Int) == -1) || ([k].getLast?.map (fun (j : Nat) => (j : Int))) == some (k : Int)) &&
          (((0 : Nat) == 0) || [k].head? == some 0)) = true := by simp
      simp only [hc, Bool.not_true, Bool.false_eq_true, if_false, Bool.false_and, leaves, leavesL_nums]
      cases pos with
      | false => simp
      | true =>
        have : vals.any (· ≤ 0) = false := by
          simp only [List.any_eq_false, decide_eq_true_eq, Int.not_le]
          exact hpos rfl
        simp [this]

/-- every vector-valued attribute of the object classes is configured as its documentation says
(checked against the table regenerated from the setters' source on every run) -/
theorem table_is_documented :
    Attr.table.filter (fun r => r.validator == "check_format_input_vector") =
      [ ⟨"BaseGeo", "position", "check_format_input_vector", [1, 2], 3, 0, false, false, false, true⟩,
        vecCfg "BaseMagnet" "magnetization" 3 false,
        vecCfg "BaseMagnet" "polarization" 3 false,
        vecCfg "Cuboid" "dimension" 3 true,
        vecCfg "Cylinder" "dimension" 2 true,
        vecCfg "Dipole" "moment" 3 false,
        ⟨"Sensor", "pixel", "check_format_input_vector", [], 3, 0, true, false, false, false⟩,
        ⟨"Tetrahedron", "vertices", "check_format_input_vector", [2], 3, 4, true, false, false, false⟩,
        ⟨"Triangle", "vertices", "check_format_input_vector", [2], 3, 3, true, false, false, false⟩ ] := by
  decide

/-- a rejected assignment leaves the stored value as it was; an accepted one stores the validated copy -/
theorem reject_keeps_state (cfg : Attr.Row) (old : Stored) (v : PyVal) :
    ((setAttr cfg old v).2 ≠ none → (setAttr cfg old v).1 = old) ∧
    ((setAttr cfg old v).2 = none → checkVector cfg v = .ok (setAttr cfg old v).1) := by
  unfold setAttr
  cases checkVector cfg v <;> simp

example : checkVector (vecCfg "Cuboid" "dimension" 3 true) (.seq [.num 1, .num 2, .num 3]) = .ok (some ([3], [1, 2, 3])) := by rfl
example : checkVector (vecCfg "Cuboid" "dimension" 3 true) (.seq [.num 1, .num (-2), .num 3]) = .error .badUserInput := by rfl
example : checkVector (vecCfg "Cuboid" "dimension" 3 true) (.seq [.seq [.num 1, .num 2, .num 3]]) = .error .badUserInput := by rfl
end MagpyVerif.C17
