/-
Props/C04.lean — a Sensor reports the global field at its pixels, in its own frame;
left-handed sensors flip x; pixel_agg reduces over exactly each sensor's pixels.
-/
import MagpyVerif.Lemmas.Level2Shape
import MagpyVerif.Lemmas.OctaCarrier
import MagpyVerif.Lemmas.Level2Post
import MagpyVerif.Lemmas.Audit2C04
import MagpyVerif.Lemmas.Handed
namespace MagpyVerif.C04
open MagpyVerif MagpyVerif.Level2
variable {G V : Type}

section
variable [Group G] [AddCommGroup V] [DistribMulAction G V] [BEq G] [LawfulBEq G]

/-- the code's three back-rotation paths (all-unit orientation: skipped; static orientation:
`orientation[0]` for the whole path; general: tiled/repeated quaternions) all yield
`R_k(m)⁻¹ • B` on sensor `k`'s own pixel slice and leave every other pixel untouched; a
left-handed sensor then flips the x-component (`flipX`) of its own slice only. -/
theorem sensor_frame (flipX : V → V) (k : Sens G V) (hk : k.ori ≠ [])
    (hlen : k.pos.length = k.ori.length) (lo hi : Nat) (B : List (List (List V))) :
    sensorFrame flipX k lo hi B =
      B.map fun Bl => Bl.mapIdx fun m row => row.mapIdx fun j v =>
        if lo ≤ j ∧ j < hi then
          (if k.left then flipX (match clampGet k.ori m with | some r => r⁻¹ • v | none => v)
           else (match clampGet k.ori m with | some r => r⁻¹ • v | none => v))
        else v :=
  sensorFrame_spec flipX k hk hlen lo hi B

/-- pixel global positions: sensor orientation applied to the pixel offsets plus sensor position,
at each path index, independently of the other sensors of the call -/
theorem pixel_positions (ks1 ks2 : List (Sens G V)) (m : Nat) :
    poso (ks1 ++ ks2) m = poso ks1 m ++ poso ks2 m :=
  poso_append ks1 ks2 m
end

/-- pixel_agg with different pixel shapes: the cumulative-index split hands the reduction
exactly sensor `k`'s pixels, for any list of sensors and any per-sensor pixel counts -/
theorem pixel_agg_is_reduction {γ : Type} (ks : List (Sens G V)) (g : Sens G V → List γ)
    (hg : ∀ k ∈ ks, (g k).length = pixNum k) :
    splitRow (pixInds ks) (ks.flatMap g) = ks.map g :=
  splitRow_pixInds ks g hg

example : splitRow (cumsum 0 [2, 1, 3]) [10, 11, 20, 30, 31, 32] = [[10, 11], [20], [30, 31, 32]] := by decide


/-- the reading of sensor `k` at path index `m` for its pixel offset `px` (through
`C06.level2_refines` this is the element the pipeline returns): the global field at the pixel's
global position `R_k(m) px + P_k(m)`, rotated into the sensor frame by `R_k(m)⁻¹`, x-flipped for a
left-handed sensor -/
theorem sensor_reading [Group G] [AddCommGroup V] [DistribMulAction G V] [BEq G] [LawfulBEq G]
    (flipX : V → V) (e : Entry G V) (k : Sens G V) (m : Nat) (r : G) (p : V)
    (hr : clampGet k.ori m = some r) (hp : clampGet k.pos m = some p) :
    (pixPos k m).map (specValue flipX e k m) =
      k.pixels.map fun px =>
        let v := r⁻¹ • ((e.leaves.map fun s => level1 s m (r • px + p)).sum)
        if k.left then flipX v else v := by
  simp only [pixPos, hr, hp, List.map_map]
  apply List.map_congr_left
  intro px _
  simp only [Function.comp, specValue, sensT, hr]

section aggEndToEnd
variable [Group G] [AddCommGroup V] [DistribMulAction G V] [BEq G] [LawfulBEq G]

/-- **pixel_agg, end to end** (both code branches: the `pix_all_same` reshape-and-reduce and the
`np.split(B, pix_inds[1:-1])` one): with a `pixel_agg` the call is accepted for arbitrary — also
different — pixel shapes per sensor, and the element `(l, m, k)` of the returned array (row-major
position `(l·M + m)·K + k`; the pixel axis has length 1) is the reduction `aggList agg` over exactly
the pixel list `[l][m][k]` of the tensor the same call computes before aggregation
(`Model/Level2.tensor`, i.e. what `pixel_agg=None` would return where that is allowed): every pixel of
sensor `k` enters once, no pixel of another sensor does. -/
theorem pixel_agg_is_reduction_end_to_end (flipX : V → V) (vmin vmax : V → V → V)
    (entries : List (Entry G V)) (sensors : List (Sens G V)) (agg : Agg) (hagg : agg ≠ .none)
    (out : Out V) (hs : ∀ k ∈ sensors, k.WF)
    (h : getBH flipX vmin vmax entries sensors false false agg = .ok out) (l m k : Nat)
    (hm : m < pathLen (entries.flatMap Entry.leaves) sensors) (hk : k < sensors.length) :
    out.data[(l * pathLen (entries.flatMap Entry.leaves) sensors + m) * sensors.length + k]? =
      (((tensor flipX entries sensors)[l]?.bind (·[m]?)).bind (·[k]?)).map
        (aggList agg vmin vmax) := by
  have hok := not_bad_of_getBH_ok h
  have hne : sensors ≠ [] := fun hs => hok (Or.inr (Or.inl hs))
  obtain ⟨k0, ks, hks⟩ := List.exists_cons_of_ne_nil hne
  have hk0 : sensors.head? = some k0 := by rw [hks]; rfl
  have hr := coreB_rect flipX vmin vmax entries sensors false agg hok hs k0 hk0
  rw [getBH_ok flipX vmin vmax entries sensors false false agg hok] at h
  cases h
  simp only [hagg, Bool.false_eq_true, if_false] at hr ⊢
  have := flat4_getElem? hr l m k 0 hm hk Nat.one_pos
  rw [Nat.mul_one, Nat.add_zero] at this
  rw [this]
  simp only [coreB, hagg, Bool.false_eq_true, if_false, id]
  exact aggT_getElem? agg vmin vmax _ l m k

/-- … and in terms of the specification: the element for entry `e`, path index `m` and sensor `s` is
the reduction over the readings of `s`'s own pixels (global field of `e` at each pixel position,
in the sensor frame, see `sensor_reading`) -/
theorem pixel_agg_of_sensor_readings (flipX : V → V) (vmin vmax : V → V → V)
    (entries : List (Entry G V)) (sensors : List (Sens G V)) (agg : Agg) (hagg : agg ≠ .none)
    (out : Out V) (hs : ∀ k ∈ sensors, k.WF)
    (h : getBH flipX vmin vmax entries sensors false false agg = .ok out) (l m k : Nat)
    (e : Entry G V) (s : Sens G V) (hl : entries[l]? = some e)
    (hm : m < pathLen (entries.flatMap Entry.leaves) sensors) (hk : sensors[k]? = some s) :
    out.data[(l * pathLen (entries.flatMap Entry.leaves) sensors + m) * sensors.length + k]? =
      some (aggList agg vmin vmax ((pixPos s m).map (specValue flipX e s m))) := by
  have hok := not_bad_of_getBH_ok h
  have he : ∀ e ∈ entries, e.leaves ≠ [] := fun e he hl => hok (Or.inr (Or.inr (Or.inl ⟨e, he, hl⟩)))
  rw [pixel_agg_is_reduction_end_to_end flipX vmin vmax entries sensors agg hagg out hs h l m k hm
    (List.getElem?_eq_some_iff.mp hk).1, tensor_eq_spec flipX entries sensors he hs,
    specTensor_pixels flipX entries sensors l m k e s hl hm hk]
  rfl
end aggEndToEnd

-- non-vacuity: the reduction step on a 1 × 1 × 2 array with 2 and 3 pixels, and the hypotheses of
-- `pixel_agg_is_reduction_end_to_end` on the scene `Level2.Example` with *different* pixel shapes
-- ((2,) and (3,)): the call with pixel_agg succeeds, the one without is rejected
example : aggT (V := Int) .sum min max [[[[1, 2], [10, 20, 30]]]] = [[[[3], [60]]]] := by decide
example : aggT (V := Int) .max min max [[[[1, 2], [10, 30, 20]]]] = [[[[2], [30]]]] := by decide
open Level2.Example in
example : (∃ out, getBH exFlip exMin exMax exEntries exSensorsMixed false false .max = .ok out ∧
      out.shape = [2, 2, 2, 1]) ∧
    getBH exFlip exMin exMax exEntries exSensorsMixed false false .none = .error .badUserInput ∧
    (∀ k ∈ exSensorsMixed, k.ori ≠ [] ∧ k.pos.length = k.ori.length ∧ k.pixels.length = pixNum k) := by
  refine ⟨⟨_, getBH_ok _ _ _ _ _ _ _ _ (exNotBadMixed _ (by decide)), ?_⟩,
    (getBH_error_iff _ _ _ _ _ _ _ _ _).mpr ⟨rfl, exBadMixed⟩, ?_⟩
  · simp [shape0, exPathLenMixed]; simp [exEntries, exSensorsMixed]
  · intro k hk
    simp only [exSensorsMixed, List.mem_cons, List.not_mem_nil, or_false] at hk
    rcases hk with rfl | rfl <;> simp [pixNum]


/-! ### pixel_agg as ANY reduction, in the order of the code (c03post)

`Model/Level2.getBHF`: the post-processing with `pixel_agg_func` an arbitrary function of the pixel list (what
`getattr(np, pixel_agg)` is).  The order of the code: every pixel value is first brought into ITS sensor's frame
(rotation by the sensor's orientation at that path index, x-flip for a left-handed sensor), then the reduction runs
over that sensor's own pixels.  Aggregating first and rotating the aggregate would be a different function for
non-linear reductions (Props/C03 `aggregate_then_rotate_not_covariant`). -/
section aggAny
variable [Group G] [AddCommGroup V] [DistribMulAction G V] [BEq G] [LawfulBEq G]

/-- element `(l, m, k)` of the array returned with `pixel_agg = f` is `f` of pixel list `[l][m][k]` of the tensor the
same call computes before aggregation — both code branches (equal pixel shapes: reshape and reduce over the pixel
axes; different shapes: `np.split` at the cumulative pixel indices), any `f` -/
theorem pixel_agg_any_is_reduction_end_to_end (flipX : V → V)
    (entries : List (Entry G V)) (sensors : List (Sens G V)) (f : List V → V)
    (out : Out V) (hs : ∀ k ∈ sensors, k.WF)
    (h : getBHF flipX entries sensors false false (some f) = .ok out) (l m k : Nat)
    (hm : m < pathLen (entries.flatMap Entry.leaves) sensors) (hk : k < sensors.length) :
    out.data[(l * pathLen (entries.flatMap Entry.leaves) sensors + m) * sensors.length + k]? =
      (((tensor flipX entries sensors)[l]?.bind (·[m]?)).bind (·[k]?)).map f := by
  have hok := not_bad_of_getBHF_ok h
  have hne : sensors ≠ [] := fun hs => hok (Or.inr (Or.inl hs))
  obtain ⟨k0, ks, hks⟩ := List.exists_cons_of_ne_nil hne
  have hk0 : sensors.head? = some k0 := by rw [hks]; rfl
  have hr := coreBF_rect flipX entries sensors false (some f) hok hs k0 hk0
  rw [getBHF_ok flipX entries sensors false false (some f) hok] at h
  cases h
  simp only [Bool.false_eq_true, if_false, Option.isNone_some] at hr ⊢
  have := flat4_getElem? hr l m k 0 hm hk Nat.one_pos
  rw [Nat.mul_one, Nat.add_zero] at this
  rw [this]
  simp only [coreBF, Bool.false_eq_true, if_false, id]
  exact aggTF_getElem? f _ l m k

/-- **C04: pixel_agg is the reduction of the sensor-frame values** — for any reduction `f`, any number and nesting of
sources, any sensors (different pixel shapes allowed), the element for source entry `e` (index `l`), path index `m`
and sensor `s` (index `k`) of the array returned with `pixel_agg = f` is

  `f [ flip?( R_s(m)⁻¹ • B_e(R_s(m) • px + P_s(m)) )  for px in s.pixels ]`

— `f` over exactly `s`'s own pixels `px`, each value being the global field of `e` (sum over its leaves, each at its own
pose `m`) at the pixel's global position, rotated into `s`'s frame at path index `m` and x-flipped iff `s` is
left-handed, BEFORE `f` is applied.  `R_s(m)`, `P_s(m)`: the sensor's pose at `m`, staying at its last pose beyond
the end of its path. -/
theorem pixel_agg_is_reduction_of_sensor_frame_values (flipX : V → V)
    (entries : List (Entry G V)) (sensors : List (Sens G V)) (f : List V → V)
    (out : Out V) (hs : ∀ k ∈ sensors, k.WF)
    (h : getBHF flipX entries sensors false false (some f) = .ok out) (l m k : Nat)
    (e : Entry G V) (s : Sens G V) (hl : entries[l]? = some e)
    (hm : m < pathLen (entries.flatMap Entry.leaves) sensors) (hk : sensors[k]? = some s)
    (r : G) (p : V) (hr : clampGet s.ori m = some r) (hp : clampGet s.pos m = some p) :
    out.data[(l * pathLen (entries.flatMap Entry.leaves) sensors + m) * sensors.length + k]? =
      some (f (s.pixels.map fun px =>
        let v := r⁻¹ • ((e.leaves.map fun src => level1 src m (r • px + p)).sum)
        if s.left then flipX v else v)) := by
  have hok := not_bad_of_getBHF_ok h
  have he : ∀ e ∈ entries, e.leaves ≠ [] := fun e he hl => hok (Or.inr (Or.inr (Or.inl ⟨e, he, hl⟩)))
  rw [pixel_agg_any_is_reduction_end_to_end flipX entries sensors f out hs h l m k hm
    (List.getElem?_eq_some_iff.mp hk).1, tensor_eq_spec flipX entries sensors he hs,
    specTensor_pixels flipX entries sensors l m k e s hl hm hk, Option.map_some,
    sensor_reading flipX e s m r p hr hp]

/-- the `Agg` names the integer driver runs (sum / min / max) are instances: same statement for `getBH` -/
theorem pixel_agg_named_is_reduction_of_sensor_frame_values (flipX : V → V) (vmin vmax : V → V → V)
    (entries : List (Entry G V)) (sensors : List (Sens G V)) (agg : Agg) (hagg : agg ≠ .none)
    (out : Out V) (hs : ∀ k ∈ sensors, k.WF)
    (h : getBH flipX vmin vmax entries sensors false false agg = .ok out) (l m k : Nat)
    (e : Entry G V) (s : Sens G V) (hl : entries[l]? = some e)
    (hm : m < pathLen (entries.flatMap Entry.leaves) sensors) (hk : sensors[k]? = some s)
    (r : G) (p : V) (hr : clampGet s.ori m = some r) (hp : clampGet s.pos m = some p) :
    out.data[(l * pathLen (entries.flatMap Entry.leaves) sensors + m) * sensors.length + k]? =
      some (aggList agg vmin vmax (s.pixels.map fun px =>
        let v := r⁻¹ • ((e.leaves.map fun src => level1 src m (r • px + p)).sum)
        if s.left then flipX v else v)) := by
  rw [getBH_eq_F] at h
  have hfn : agg.fn vmin vmax = some (aggList agg vmin vmax) := by cases agg <;> first | rfl | exact absurd rfl hagg
  rw [hfn] at h
  exact pixel_agg_is_reduction_of_sensor_frame_values flipX entries sensors _ out hs h l m k e s hl hm hk r p hr hp
/-- (audit2) the data of the returned array do not depend on `squeeze` (only the shape does): `np.squeeze` /
`np.expand_dims` do not touch the values.  By definition of the model (`getBHF` computes `data` before it looks at `squeeze`); the
numpy side of this is assumed and exercised by the streams. -/
theorem getBHF_data_squeeze_irrelevant (flipX : V → V) (entries : List (Entry G V)) (sensors : List (Sens G V))
    (sumup squeeze : Bool) (agg : Option (List V → V)) :
    (getBHF flipX entries sensors sumup squeeze agg).map (·.data) =
      (getBHF flipX entries sensors sumup false agg).map (·.data) := by
  unfold getBHF
  cases level2CoreF flipX entries sensors sumup agg <;> rfl

/-- (audit2) `pixel_agg_is_reduction_of_sensor_frame_values` for either value of `squeeze` (the theorem above fixes
`squeeze = false`; `sumup = true` is Props/C05 `sumup_of_pixel_agg_is_sum_of_aggregates` = `Level2.getBHF_sumup_agg_elem`) -/
theorem pixel_agg_is_reduction_of_sensor_frame_values_any_squeeze (flipX : V → V) (squeeze : Bool)
    (entries : List (Entry G V)) (sensors : List (Sens G V)) (f : List V → V)
    (out : Out V) (hs : ∀ k ∈ sensors, k.WF)
    (h : getBHF flipX entries sensors false squeeze (some f) = .ok out) (l m k : Nat)
    (e : Entry G V) (s : Sens G V) (hl : entries[l]? = some e)
    (hm : m < pathLen (entries.flatMap Entry.leaves) sensors) (hk : sensors[k]? = some s)
    (r : G) (p : V) (hr : clampGet s.ori m = some r) (hp : clampGet s.pos m = some p) :
    out.data[(l * pathLen (entries.flatMap Entry.leaves) sensors + m) * sensors.length + k]? =
      some (f (s.pixels.map fun px =>
        let v := r⁻¹ • ((e.leaves.map fun src => level1 src m (r • px + p)).sum)
        if s.left then flipX v else v)) := by
  have hd := getBHF_data_squeeze_irrelevant flipX entries sensors false squeeze (some f)
  rw [h] at hd
  cases h0 : getBHF flipX entries sensors false false (some f) with
  | error err => rw [h0] at hd; cases hd
  | ok out0 =>
    rw [h0] at hd
    have hdata : out.data = out0.data := by simpa [Except.map] using hd
    rw [hdata]
    exact pixel_agg_is_reduction_of_sensor_frame_values flipX entries sensors f out0 hs h0 l m k e s hl hm hk r p hr hp
end aggAny

-- non-vacuity: on the scene `Level2.Example` with different pixel shapes ((2,) and (3,)) the call with an arbitrary
-- reduction (here: the last pixel value — neither linear nor symmetric) is accepted and has shape (2, 2, 2, 1)
open Level2.Example in
example : (∃ out, getBHF exFlip exEntries exSensorsMixed false false (some fun l => l.getLastD 0) = .ok out ∧
      out.shape = [2, 2, 2, 1]) ∧
    (∀ k ∈ exSensorsMixed, k.ori ≠ [] ∧ k.pos.length = k.ori.length ∧ k.pixels.length = pixNum k) := by
  refine ⟨⟨_, getBHF_ok _ _ _ _ _ _ (by simp [BadInputF, exEntries, exSensorsMixed, Entry.leaves]), ?_⟩, ?_⟩
  · simp [shape0F, exPathLenMixed]; simp [exEntries, exSensorsMixed]
  · intro k hk
    simp only [exSensorsMixed, List.mem_cons, List.not_mem_nil, or_false] at hk
    rcases hk with rfl | rfl <;> simp [pixNum]

/-! ### on the carrier the driver computes with (AUDIT X1)

The driver evaluates the model at `M3 Int` / `V3 Int` (Model/Basic.lean, `⁻¹` = transpose — not a group); the
theorems above are over an abstract `Group G`.  Lemmas/OctaCarrier.lean: on octahedral rotation matrices (`IsOct`)
the `M3 Int` evaluation is the evaluation at the group `Oct`. -/
section driverCarrier

/-- **`sensor_frame` on the driver's carrier**: for a sensor whose orientation matrices are octahedral the three
back-rotation code paths, evaluated with the integer matrix operations (`⁻¹` = transpose, `==` the derived
comparison), all yield `R_k(m)ᵀ • v` on the sensor's own pixel slice -/
theorem sensor_frame_on_driver_carrier (flipX : V3 Int → V3 Int) (k : SensZ) (hko : k.RotsOct) (hk : k.ori ≠ [])
    (hlen : k.pos.length = k.ori.length) (lo hi : Nat) (B : List (List (List (V3 Int)))) :
    sensorFrame flipX k lo hi B =
      B.map fun Bl => Bl.mapIdx fun m row => row.mapIdx fun j v =>
        if lo ≤ j ∧ j < hi then sensTOp flipX k m v else v := by
  obtain ⟨k', rfl⟩ := exists_oct_sensor k hko
  have hk' : k'.ori ≠ [] := by simpa [Sens.mapG] using hk
  have hlen' : k'.pos.length = k'.ori.length := by simpa [Sens.mapG] using hlen
  rw [sensorFrame_at_Oct_eq_at_M3Int, sensorFrame_sensT flipX k' hk' hlen']
  simp only [sensT_eq_op, sensTOp_mapG octHom]

/-- **`sensor_reading` on the driver's carrier**: the reading of sensor `k` at path index `m`, with the integer
matrix operations (this statement only unfolds the specification; it needs no hypothesis on the matrices —
its content comes with `C06.level2_refines_on_driver_carrier`, which says that these readings are what the
driver's `tensor` holds) -/
theorem sensor_reading_on_driver_carrier (flipX : V3 Int → V3 Int) (e : EntryZ) (k : SensZ) (m : Nat)
    (r : M3 Int) (p : V3 Int) (hr : clampGet k.ori m = some r) (hp : clampGet k.pos m = some p) :
    (pixPosOp k m).map (specValueOp flipX e k m) =
      k.pixels.map fun px =>
        let v := r⁻¹ • ((e.leaves.map fun s => level1 s m (r • px + p)).sum)
        if k.left then flipX v else v := by
  simp only [pixPosOp, hr, hp, List.map_map]
  apply List.map_congr_left
  intro px _
  simp only [Function.comp, specValueOp, sensTOp, hr]

-- non-vacuity (driver-style data `Level2.DriverExample`: left-handed sensor, 90° about z at its first step):
-- hypotheses of `sensor_frame_on_driver_carrier` hold for the sensor, and a reading evaluated as the driver does
open Level2.DriverExample in
example : ∀ k ∈ drvSensors, k.RotsOct ∧ k.ori ≠ [] ∧ k.pos.length = k.ori.length :=
  fun k hk => ⟨drvSensors_rotsOct k hk, (drvSensors_WF k hk).1, (drvSensors_WF k hk).2.1⟩
open Level2.DriverExample in
example : sensTOp (G := M3 Int) drvFlip ⟨[⟨7, 0, 0⟩, ⟨8, 1, 0⟩], [rotZ90, 1], [⟨0, 0, 0⟩, ⟨1, 0, 0⟩], [2], true⟩ 0 ⟨1, 2, 3⟩
    = ⟨-2, -1, 3⟩ := by decide
-- (audit2) `sensor_frame_on_driver_carrier` APPLIED (the example above only lists its hypotheses): for the left-handed
-- driver-style sensor rotated by 90° about z at its first step, any slice and any tensor
open Level2.DriverExample in
example (lo hi : Nat) (B : List (List (List (V3 Int)))) (k : SensZ) (hk : k ∈ drvSensors) :
    sensorFrame drvFlip k lo hi B =
      B.map fun Bl => Bl.mapIdx fun m row => row.mapIdx fun j v =>
        if lo ≤ j ∧ j < hi then sensTOp drvFlip k m v else v :=
  sensor_frame_on_driver_carrier drvFlip k (drvSensors_rotsOct k hk) (drvSensors_WF k hk).1 (drvSensors_WF k hk).2.1 lo hi B

/-! #### (audit2) `pixel_agg_is_reduction_of_sensor_frame_values` on the driver's carrier

The c03post theorem is over an abstract `Group G`; its non-vacuity example evaluates `getBHF` at `M3 Int` (not a group)
and never applies the theorem.  Here it is transferred to the `M3 Int` evaluation (decidable hypotheses) and APPLIED to a
driver-style scene with different pixel shapes, a left-handed rotating sensor and a sensor whose path is shorter than the
longest one. -/

/-- **C04 pixel_agg on the driver's carrier**: integer matrix operations (`⁻¹` = transpose), all orientation matrices of the
scene octahedral, `f` ANY function of the pixel list -/
theorem pixel_agg_is_reduction_of_sensor_frame_values_on_driver_carrier (flipX : V3 Int → V3 Int)
    (entries : List EntryZ) (sensors : List SensZ) (f : List (V3 Int) → V3 Int) (out : Out (V3 Int))
    (heo : ∀ e ∈ entries, e.RotsOct) (hso : ∀ k ∈ sensors, k.RotsOct) (hs : ∀ k ∈ sensors, k.WF)
    (h : getBHF flipX entries sensors false false (some f) = .ok out) (l m k : Nat)
    (e : EntryZ) (s : SensZ) (hl : entries[l]? = some e)
    (hm : m < pathLen (entries.flatMap Entry.leaves) sensors) (hk : sensors[k]? = some s)
    (r : M3 Int) (p : V3 Int) (hr : clampGet s.ori m = some r) (hp : clampGet s.pos m = some p) :
    out.data[(l * pathLen (entries.flatMap Entry.leaves) sensors + m) * sensors.length + k]? =
      some (f (s.pixels.map fun px =>
        let v := r⁻¹ • ((e.leaves.map fun src => level1 src m (r • px + p)).sum)
        if s.left then flipX v else v)) := by
  obtain ⟨es, rfl⟩ := exists_oct_entries entries heo
  obtain ⟨ks, rfl⟩ := exists_oct_sensors sensors hso
  rw [getBHF_mapG octHom] at h
  rw [List.getElem?_map] at hl hk
  obtain ⟨e', hl', rfl⟩ := Option.map_eq_some_iff.mp hl
  obtain ⟨s', hk', rfl⟩ := Option.map_eq_some_iff.mp hk
  rw [flatMap_leaves_mapG, pathLen_mapG] at hm ⊢
  have hs' : ∀ k ∈ ks, k.WF := fun k h => (Sens.mapG_WF Oct.toM3 k).mp (hs _ (List.mem_map_of_mem h))
  have := getBHF_agg_elem flipX es ks f out hs' h l m k e' s' hl' hm hk'
  rw [List.length_map, this, ← sensor_reading_on_driver_carrier flipX e'.toM3 s'.toM3 m r p hr hp,
     pixPos_at_Oct_eq_at_M3Int]
  congr 2
  apply List.map_congr_left
  intro x _
  exact (specValue_at_Oct_eq_at_M3Int flipX e' s' m x).symm

section aggDriverExample
open Level2.DriverExample Level2.Example

/-- driver-style sensors with DIFFERENT pixel shapes ((2,) and (3,)): the first left-handed with a 2-step path, rotated by
90° about z at its first step; the second with a 1-step path (shorter than the longest path, 2), rotated by 90° about x -/
def mixSensors : List SensZ :=
  [⟨[⟨7, 0, 0⟩, ⟨8, 1, 0⟩], [rotZ90, 1], [⟨0, 0, 0⟩, ⟨1, 0, 0⟩], [2], true⟩,
   ⟨[⟨0, 5, 0⟩], [rotX90], [⟨0, 0, 0⟩, ⟨0, 0, 1⟩, ⟨0, 0, 2⟩], [3], false⟩]

theorem mixSensors_rotsOct : ∀ k ∈ mixSensors, k.RotsOct := by
  simp only [mixSensors, Sens.RotsOct, List.mem_cons, List.not_mem_nil, or_false, forall_eq_or_imp, forall_eq]
  decide
theorem mixSensors_WF : ∀ k ∈ mixSensors, k.WF := by simp [mixSensors, Sens.WF, pixNum]
theorem mix_notBad (f : List (V3 Int) → V3 Int) : ¬ BadInputF drvEntries mixSensors (some f) := by
  simp [BadInputF, drvEntries, mixSensors, Entry.leaves]
theorem mix_pathLen : pathLen (drvEntries.flatMap Entry.leaves) mixSensors = 2 := by
  simp [pathLen, drvEntries, mixSensors, Entry.leaves]
theorem drv_leaves0 : (drvEntries.headD (.coll [])).leaves =
    [⟨[⟨3, 0, 0⟩, ⟨4, 0, 0⟩], [1, rotZ90], fun x => x + ⟨1, 0, 0⟩⟩, ⟨[⟨0, 0, 2⟩], [rotX90], fun x => x + x⟩] := by
  simp [drvEntries, Entry.leaves]

/-- componentwise maximum (the model's `aggList .max`, what the integer driver runs for `pixel_agg="max"`) -/
def drvMaxV : List (V3 Int) → V3 Int := aggList .max exMin exMax

-- the theorem APPLIED (every hypothesis instantiated) with the non-linear reduction `max`: element (0, 0, 0) — the
-- left-handed sensor at its rotated first step, two pixels — and element (0, 1, 1) — the three-pixel sensor, whose
-- one-step path stays at its last pose at m = 1; the values are those of the explicit sensor-frame formula
example : ∃ out, getBHF drvFlip drvEntries mixSensors false false (some drvMaxV) = .ok out ∧
    out.data[(0 * 2 + 0) * 2 + 0]? = some ⟨0, -19, -4⟩ ∧ out.data[(0 * 2 + 1) * 2 + 1]? = some ⟨-4, -4, -10⟩ := by
  have h := getBHF_ok drvFlip drvEntries mixSensors false false (some drvMaxV) (mix_notBad _)
  refine ⟨_, h, ?_, ?_⟩
  · have := pixel_agg_is_reduction_of_sensor_frame_values_on_driver_carrier drvFlip drvEntries mixSensors drvMaxV _
      drvEntries_rotsOct mixSensors_rotsOct mixSensors_WF h 0 0 0 (drvEntries.headD (.coll [])) _ rfl
      (by rw [mix_pathLen]; decide) rfl rotZ90 ⟨7, 0, 0⟩ rfl rfl
    rw [mix_pathLen, drv_leaves0] at this
    exact this.trans (by decide)
  · have := pixel_agg_is_reduction_of_sensor_frame_values_on_driver_carrier drvFlip drvEntries mixSensors drvMaxV _
      drvEntries_rotsOct mixSensors_rotsOct mixSensors_WF h 0 1 1 (drvEntries.headD (.coll [])) _ rfl
      (by rw [mix_pathLen]; decide) rfl rotX90 ⟨0, 5, 0⟩ rfl rfl
    rw [mix_pathLen, drv_leaves0] at this
    exact this.trans (by decide)
end aggDriverExample
end driverCarrier

/-! ### (audit2) instantiation with the numpy reductions of Model/PixelAgg

The c03post theorems quantify over every `f`, but no carrier in the development had BOTH the algebraic structure they need
(`AddCommGroup V`, a group acting on it) AND the reductions `mean / median / std / ptp` (which need `Num α`: only `Float`
and `ℝ`).  Lemmas/Audit2C04.lean: the octahedral group `Oct` acts on `V3 ℝ` (the model's own `M3.apply` / `+` / `-`). -/
section realCarrier
/-- (audit2) **the `level2f` driver command, at the real numbers**: `Driver/Level2FFam.run` evaluates
`match PixelAgg.byName name with | some a => getBHF flipX es ks sumup squeeze a` (at `Float`).  The same expression at
`V3 ℝ`, with the octahedral group acting on it, IS an instance of `pixel_agg_is_reduction_of_sensor_frame_values`: for
every reduction name the model knows (`sum, mean, min, max, median, std, ptp`), element `(l, m, k)` is that reduction of
Model/PixelAgg over the sensor-frame values of sensor `k`'s own pixels. -/
theorem named_numpy_reduction_is_reduction_of_sensor_frame_values (name : String) (f : List (V3 ℝ) → V3 ℝ)
    (_hname : PixelAgg.byName (α := ℝ) name = some (some f)) (flipX : V3 ℝ → V3 ℝ)
    (entries : List (Entry Oct (V3 ℝ))) (sensors : List (Sens Oct (V3 ℝ)))
    (out : Out (V3 ℝ)) (hs : ∀ k ∈ sensors, k.WF)
    (h : getBHF flipX entries sensors false false (some f) = .ok out) (l m k : Nat)
    (e : Entry Oct (V3 ℝ)) (s : Sens Oct (V3 ℝ)) (hl : entries[l]? = some e)
    (hm : m < pathLen (entries.flatMap Entry.leaves) sensors) (hk : sensors[k]? = some s)
    (r : Oct) (p : V3 ℝ) (hr : clampGet s.ori m = some r) (hp : clampGet s.pos m = some p) :
    out.data[(l * pathLen (entries.flatMap Entry.leaves) sensors + m) * sensors.length + k]? =
      some (f (s.pixels.map fun px =>
        let v := r⁻¹ • ((e.leaves.map fun src => level1 src m (r • px + p)).sum)
        if s.left then flipX v else v)) :=
  pixel_agg_is_reduction_of_sensor_frame_values flipX entries sensors f out hs h l m k e s hl hm hk r p hr hp

/-- a left-handed three-pixel sensor rotated by 90° about z, reading the field `B(x) = x` of a source at the origin -/
noncomputable def realSensors : List (Sens Oct (V3 ℝ)) :=
  [⟨[⟨0, 0, 0⟩], [⟨Level2.DriverExample.rotZ90, Level2.DriverExample.isOct_rotZ90⟩],
    [⟨1, 0, 0⟩, ⟨2, 0, 0⟩, ⟨4, 0, 0⟩], [3], true⟩]
noncomputable def realEntries : List (Entry Oct (V3 ℝ)) := [.leaf ⟨[⟨0, 0, 0⟩], [1], fun x => x⟩]

-- non-vacuity with `np.median` (Model/PixelAgg.npMedian componentwise): every hypothesis instantiated, theorem applied
example : ∃ out, getBHF (fun a : V3 ℝ => ⟨-a.x, a.y, a.z⟩) realEntries realSensors false false
      (some (PixelAgg.comp PixelAgg.npMedian)) = .ok out ∧
    ∃ vals : List (V3 ℝ), vals.length = 3 ∧ out.data[0]? = some (PixelAgg.comp PixelAgg.npMedian vals) := by
  have hok : ¬ BadInputF realEntries realSensors (some (PixelAgg.comp (PixelAgg.npMedian (α := ℝ)))) := by
    simp [BadInputF, realEntries, realSensors, Entry.leaves]
  have h := getBHF_ok (fun a : V3 ℝ => ⟨-a.x, a.y, a.z⟩) realEntries realSensors false false _ hok
  refine ⟨_, h, ?_⟩
  have hpl : pathLen (realEntries.flatMap Entry.leaves) realSensors = 1 := by
    simp [pathLen, realEntries, realSensors, Entry.leaves]
  have := named_numpy_reduction_is_reduction_of_sensor_frame_values "median" _ rfl _ realEntries realSensors _
    (by intro k hk
        simp only [realSensors, List.mem_singleton] at hk
        subst hk
        exact ⟨by simp, rfl, rfl⟩) h 0 0 0 _ _ rfl (by rw [hpl]; decide) rfl _ _ rfl rfl
  have h0 : (0 * pathLen (realEntries.flatMap Entry.leaves) realSensors + 0) * realSensors.length + 0 = 0 := by simp
  rw [h0] at this
  exact ⟨_, by simp, this⟩
end realCarrier

/-! ### the handedness flip as a concrete map, read from the source (AUDIT2 C04 (b)) -/
section Handed
open MagpyVerif.Gen.Handed

/-- what translate/gen.py finds in getBH_level2 on this run: exactly one statement under a handedness test, of the form
`if sens.handedness == "left": B[..., pix_slice, 0] *= -1`, nothing else under such a test, and no write into `B` after it
inside the sensor loop (so it acts on the values already rotated into the sensor frame) -/
theorem source_handedness_branch :
    flipSites = [("left", 0, -1)] ∧ otherStmts = 0 ∧ flipAfterRotation = true := by decide

/-- the statements of the source's handedness branch, run on one field vector (numpy `*=` on component `axis`) -/
def runFlipSites {α : Type} [Mul α] [IntCast α] (hand : String) (v : V3 α) : V3 α :=
  flipSites.foldl (fun acc s => if s.1 = hand then V3.scaleComp s.2.1 (s.2.2 : α) acc else acc) v

/-- **left_handed_flips_x**: the source's handedness branch, as regenerated, run on any vector over any ring, is
`V3.flipX` — the function the driver streams evaluate and that instantiates the abstract `flipX` of the theorems above —
for the literal "left", and the identity for every other value of `handedness` (the setter admits only "right") -/
theorem left_handed_flips_x {α : Type} [Ring α] (v : V3 α) :
    runFlipSites "left" v = V3.flipX v ∧ ∀ h : String, h ≠ "left" → runFlipSites h v = v := by
  refine ⟨?_, fun h hh => ?_⟩
  · simp only [runFlipSites, flipSites, List.foldl_cons, List.foldl_nil, if_true, Int.cast_neg, Int.cast_one]
    exact V3.scaleComp_zero_neg_one v
  · simp only [runFlipSites, flipSites, List.foldl_cons, List.foldl_nil]
    rw [if_neg (fun e => hh e.symm)]

/-- `sensor_reading` with the concrete flip: a left-handed sensor reports the NEGATED x-component and the unchanged y- and
z-components of what the same sensor would report right-handed -/
theorem left_handed_reading_components {α : Type} [Neg α] (left : Bool) (v : V3 α) :
    let w := if left then V3.flipX v else v
    w.x = (if left then -v.x else v.x) ∧ w.y = v.y ∧ w.z = v.z := by
  cases left <;> simp

/-- the flip is an involutive reflection: applying it twice is the identity, it preserves scalar products and reverses
vector products (the image of a right-handed frame is left-handed) -/
theorem flip_is_reflection (a b : V3 ℝ) :
    V3.flipX (V3.flipX a) = a ∧ V3.dot (V3.flipX a) (V3.flipX b) = V3.dot a b ∧
      V3.cross (V3.flipX a) (V3.flipX b) = -V3.flipX (V3.cross a b) :=
  ⟨V3.flipX_involutive a, V3.flipX_dot a b, V3.flipX_cross a b⟩

-- non-vacuity: x̂ × ŷ = ẑ, and the flipped pair gives -ẑ; the branch run on integers
example : V3.cross (V3.flipX (⟨1, 0, 0⟩ : V3 Int)) (V3.flipX ⟨0, 1, 0⟩) = ⟨0, 0, -1⟩ := by decide
example : runFlipSites "left" (⟨3, 4, 5⟩ : V3 Int) = ⟨-3, 4, 5⟩ ∧ runFlipSites "right" (⟨3, 4, 5⟩ : V3 Int) = ⟨3, 4, 5⟩ := by decide
end Handed

end MagpyVerif.C04
