/-
Props/C04.lean — a Sensor reports the global field at its pixels, in its own frame;
left-handed sensors flip x; pixel_agg reduces over exactly each sensor's pixels.
-/
import MagpyVerif.Lemmas.Level2Compose
namespace MagpyVerif.C04
open MagpyVerif MagpyVerif.Level2
variable {G V : Type}

section
variable [Group G] [AddCommGroup V] [DistribMulAction G V] [BEq G] [LawfulBEq G]

/-- the code's three back-rotation paths (all-unit orientation: skipped; static orientation:
`orientation[0]` for the whole path; general: tiled/repeated quaternions) all yield
`R_k(m)⁻¹ • B` on sensor `k`'s own pixel slice and leave every other pixel untouched; a
left-handed sensor then flips the x-component (`flipX`) of its own slice only. -/
theorem sensor_frame (flipX : V → V) (k : Sens G V) (hk : k.ori ≠ [])
    (hlen : k.pos.length = k.ori.length) (lo hi : Nat) (B : List (List (List V))) :
    sensorFrame flipX k lo hi B =
      B.map fun Bl => Bl.mapIdx fun m row => row.mapIdx fun j v =>
        if lo ≤ j ∧ j < hi then
          (if k.left then flipX (match clampGet k.ori m with | some r => r⁻¹ • v | none => v)
           else (match clampGet k.ori m with | some r => r⁻¹ • v | none => v))
        else v :=
  sensorFrame_spec flipX k hk hlen lo hi B

/-- pixel global positions: sensor orientation applied to the pixel offsets plus sensor position,
at each path index, independently of the other sensors of the call -/
theorem pixel_positions (ks1 ks2 : List (Sens G V)) (m : Nat) :
    poso (ks1 ++ ks2) m = poso ks1 m ++ poso ks2 m :=
  poso_append ks1 ks2 m
end

/-- pixel_agg with different pixel shapes: the cumulative-index split hands the reduction
exactly sensor `k`'s pixels, for any list of sensors and any per-sensor pixel counts -/
theorem pixel_agg_is_reduction {γ : Type} (ks : List (Sens G V)) (g : Sens G V → List γ)
    (hg : ∀ k ∈ ks, (g k).length = pixNum k) :
    splitRow (pixInds ks) (ks.flatMap g) = ks.map g :=
  splitRow_pixInds ks g hg

example : splitRow (cumsum 0 [2, 1, 3]) [10, 11, 20, 30, 31, 32] = [[10, 11], [20], [30, 31, 32]] := by decide


/-- the reading of sensor `k` at path index `m` for its pixel offset `px` (through
`C06.level2_refines` this is the element the pipeline returns): the global field at the pixel's
global position `R_k(m) px + P_k(m)`, rotated into the sensor frame by `R_k(m)⁻¹`, x-flipped for a
left-handed sensor -/
theorem sensor_reading [Group G] [AddCommGroup V] [DistribMulAction G V] [BEq G] [LawfulBEq G]
    (flipX : V → V) (e : Entry G V) (k : Sens G V) (m : Nat) (r : G) (p : V)
    (hr : clampGet k.ori m = some r) (hp : clampGet k.pos m = some p) :
    (pixPos k m).map (specValue flipX e k m) =
      k.pixels.map fun px =>
        let v := r⁻¹ • ((e.leaves.map fun s => level1 s m (r • px + p)).sum)
        if k.left then flipX v else v := by
  simp only [pixPos, hr, hp, List.map_map]
  apply List.map_congr_left
  intro px _
  simp only [Function.comp, specValue, sensT, hr]

end MagpyVerif.C04
