/-
Props/C12.lean — results are invariant under the choice of length unit (λ > 0 a common factor on
every length): magnets unchanged, currents ÷ λ, dipoles ÷ λ³; proportional to the excitation.
Proved here for the kernels that are plain algebra (Dipole, Sphere incl. its inside/outside
switch, straight current segment incl. its foot-point case split) and for the Cuboid: its six
closed-form factors, the octant reflection and sign logic, and every mask of its wrapper.
/- FULL: all source classes.  Not shown by theorem: Cylinder, CylinderSegment, Circle,
   Triangle family (kernels not ported to the real carrier); there the oracle rescales one
   configuration over 10^-9 … 10^9.  Known finding: TriangularMesh inside/outside and
   orientation tests use absolute tolerances and fail for lengths ≲ 1e-6. -/
-/
import MagpyVerif.Lemmas.KernReal
namespace MagpyVerif.C12
open MagpyVerif MagpyVerif.Kern

theorem norm_scale (l : ℝ) (hl : 0 < l) (x : V3 ℝ) : Kern.norm (vs l x) = l * Kern.norm x := by
  simp only [Kern.norm, vs, sqrt_real]
  have : l * x.x * (l * x.x) + l * x.y * (l * x.y) + l * x.z * (l * x.z) = l ^ 2 * (x.x * x.x + x.y * x.y + x.z * x.z) := by ring
  rw [this, Real.sqrt_mul (by positivity), Real.sqrt_sq hl.le]

section
variable (l : ℝ) (hl : 0 < l)
include hl

/-- Dipole: scaling the observer distance by λ divides H (and B) by λ³ -/
theorem dipole_homogeneous (m x : V3 ℝ) (hx : Kern.norm x ≠ 0) :
    dipoleH m (vs l x) = vs (1 / l ^ 3) (dipoleH m x) := by
  have hn := norm_scale l hl x
  simp only [dipoleH, hn]
  have hl' : l ≠ 0 := hl.ne'
  have hpi : Real.pi ≠ 0 := Real.pi_ne_zero
  apply V3.ext' <;> simp [vs, vd, n, V3.dot] <;> field_simp <;> ring

/-- Sphere: scaling diameter and observer by λ leaves all four fields unchanged, including the
choice between the inside and the outside formula -/
theorem sphere_scale_invariant (f : Field) (d : ℝ) (pol x : V3 ℝ) (hx : Kern.norm x ≠ 0) :
    bhjmSphere f (l * d) pol (vs l x) = bhjmSphere f d pol x := by
  have hn := norm_scale l hl x
  have hl' : l ≠ 0 := hl.ne'
  have habs : |l * d| = l * |d| := by rw [abs_mul, abs_of_pos hl]
  have hiff : (l * |d| / 2 < l * Kern.norm x) ↔ (|d| / 2 < Kern.norm x) := by
    constructor
    · intro h; nlinarith
    · intro h; nlinarith
  cases f <;> simp only [bhjmSphere, hn, lt_real, abs_real, n, ofNat_real, Nat.cast_ofNat, habs, hiff] <;>
    (by_cases hc : |d| / 2 < Kern.norm x <;> simp only [hc, decide_true, decide_false, if_true, if_false, Bool.false_eq_true] <;>
      (apply V3.ext' <;> simp [vs, vd, zero3, n, V3.dot] <;> (try field_simp) <;> (try ring)))

/-- all fields scale proportionally with the excitation: Sphere -/
theorem sphere_linear_in_polarization (f : Field) (c d : ℝ) (pol x : V3 ℝ) :
    bhjmSphere f d (vs c pol) x = vs c (bhjmSphere f d pol x) := by
  cases f <;> simp only [bhjmSphere, lt_real, abs_real, n, ofNat_real, Nat.cast_ofNat] <;>
    (by_cases hc : |d| / 2 < Kern.norm x <;> simp only [hc, decide_true, decide_false, if_true, if_false, Bool.false_eq_true] <;>
      (apply V3.ext' <;> simp [vs, vd, zero3, n, V3.dot] <;> (try field_simp) <;> (try ring)))

theorem vs_sub (a b : V3 ℝ) : vs l a - vs l b = vs l (a - b) := by
  apply V3.ext' <;> simp [vs] <;> ring

theorem vd_vs_cancel (p : V3 ℝ) (c : ℝ) : vd (vs l p) (l * c) = vd p c := by
  have hl' : l ≠ 0 := hl.ne'
  apply V3.ext' <;> simp only [vd, vs] <;> exact mul_div_mul_left _ _ hl'

/-- straight current segment: scaling all lengths by λ divides H by λ; every internal branch
decision (which side of the segment the foot point lies on) is taken on dimensionless
quantities and does not change -/
theorem segment_homogeneous (cur : ℝ) (p1 p2 po : V3 ℝ) :
    segmentH cur (vs l p1) (vs l p2) (vs l po) = vs (1 / l) (segmentH cur p1 p2 po) := by
  have hl' : l ≠ 0 := hl.ne'
  simp only [segmentH, vs_sub l hl, norm_scale l hl, vd_vs_cancel l hl]
  generalize segmentCore (vd p1 (Kern.norm (p1 - p2))) (vd p2 (Kern.norm (p1 - p2))) (vd po (Kern.norm (p1 - p2))) = c
  have hpi : Real.pi ≠ 0 := Real.pi_ne_zero
  apply V3.ext' <;> simp [vs, vd, n] <;> ring
end

/-! ### Cuboid -/

theorem sqrt3_scale (l : ℝ) (hl : 0 < l) (u v w : ℝ) :
    Real.sqrt (l * u * (l * u) + l * v * (l * v) + l * w * (l * w)) = l * Real.sqrt (u * u + v * v + w * w) := by
  have : l * u * (l * u) + l * v * (l * v) + l * w * (l * w) = l ^ 2 * (u * u + v * v + w * w) := by ring
  rw [this, Real.sqrt_mul (by positivity), Real.sqrt_sq hl.le]

theorem log4_scale (l : ℝ) (hl : 0 < l) (a b c d e f g h : ℝ) (hP : a * b * c * d ≠ 0) (hQ : e * f * g * h ≠ 0) :
    Real.log (l * a * (l * b) * (l * c) * (l * d)) - Real.log (l * e * (l * f) * (l * g) * (l * h)) =
      Real.log (a * b * c * d) - Real.log (e * f * g * h) := by
  have h1 : l * a * (l * b) * (l * c) * (l * d) = l ^ 4 * (a * b * c * d) := by ring
  have h2 : l * e * (l * f) * (l * g) * (l * h) = l ^ 4 * (e * f * g * h) := by ring
  have hl4 : l ^ 4 ≠ 0 := by positivity
  rw [h1, h2, Real.log_mul hl4 hP, Real.log_mul hl4 hQ]
  ring

theorem arg_scale (l : ℝ) (hl : 0 < l) (u w v m : ℝ) :
    Complex.arg ⟨l * v * (l * m), l * u * (l * w)⟩ = Complex.arg ⟨v * m, u * w⟩ := by
  have : (⟨l * v * (l * m), l * u * (l * w)⟩ : ℂ) = ((l ^ 2 : ℝ) : ℂ) * ⟨v * m, u * w⟩ := by
    apply Complex.ext
    · simp only [Complex.mul_re, Complex.ofReal_re, Complex.ofReal_im]; ring
    · simp only [Complex.mul_im, Complex.ofReal_re, Complex.ofReal_im]; ring
  rw [this, Complex.arg_real_mul _ (by positivity)]

/-- the eight corner distances -/
noncomputable def cd3 (u v w : ℝ) : ℝ := Real.sqrt (u * u + v * v + w * w)

/-- Cuboid: the six closed-form factors of `magnet_cuboid_Bfield` are invariant under a common
positive length factor `l`, provided the arguments of the six logarithms do not vanish (i.e. off
the edges and their extensions, which the wrapper masks out) -/
theorem cuboidFF_scale_invariant (l : ℝ) (hl : 0 < l) (xma xpa ymb ypb zmc zpc : ℝ)
    (h1 : (xma + cd3 xma ymb zmc) * (xpa + cd3 xpa ypb zmc) * (xpa + cd3 xpa ymb zpc) * (xma + cd3 xma ypb zpc) ≠ 0)
    (h2 : (xpa + cd3 xpa ymb zmc) * (xma + cd3 xma ypb zmc) * (xma + cd3 xma ymb zpc) * (xpa + cd3 xpa ypb zpc) ≠ 0)
    (h3 : (-ymb + cd3 xma ymb zmc) * (-ypb + cd3 xpa ypb zmc) * (-ymb + cd3 xpa ymb zpc) * (-ypb + cd3 xma ypb zpc) ≠ 0)
    (h4 : (-ymb + cd3 xpa ymb zmc) * (-ypb + cd3 xma ypb zmc) * (ymb - cd3 xma ymb zpc) * (ypb - cd3 xpa ypb zpc) ≠ 0)
    (h5 : (-zmc + cd3 xma ymb zmc) * (-zmc + cd3 xpa ypb zmc) * (-zpc + cd3 xpa ymb zpc) * (-zpc + cd3 xma ypb zpc) ≠ 0)
    (h6 : (-zmc + cd3 xpa ymb zmc) * (zmc - cd3 xma ypb zmc) * (-zpc + cd3 xma ymb zpc) * (zpc - cd3 xpa ypb zpc) ≠ 0) :
    cuboidFF (l * xma) (l * xpa) (l * ymb) (l * ypb) (l * zmc) (l * zpc) = cuboidFF xma xpa ymb ypb zmc zpc := by
  have hs := sqrt3_scale l hl
  have f1 : ∀ a b : ℝ, l * a + l * b = l * (a + b) := fun a b => by ring
  have f2 : ∀ a b : ℝ, -(l * a) + l * b = l * (-a + b) := fun a b => by ring
  have f3 : ∀ a b : ℝ, l * a - l * b = l * (a - b) := fun a b => by ring
  unfold cuboidFF
  simp only [sqrt_real, log_real, atan2_real, hs, f1, f2, f3]
  simp only [cd3] at h1 h2 h3 h4 h5 h6
  rw [log4_scale l hl _ _ _ _ _ _ _ _ h1 h2, log4_scale l hl _ _ _ _ _ _ _ _ h3 h4,
    log4_scale l hl _ _ _ _ _ _ _ _ h5 h6]
  simp only [arg_scale l hl]

theorem cuboidFlip_scale (l : ℝ) (hl : 0 < l) (x : V3 ℝ) : cuboidFlip (vs l x) = cuboidFlip x := by
  simp only [cuboidFlip, vs, lt_real, n, ofNat_real, Nat.cast_zero, CuboidFlip.mk.injEq, decide_eq_decide]
  refine ⟨?_, ?_, ?_⟩
  · constructor <;> intro h <;> nlinarith
  · constructor <;> intro h <;> nlinarith
  · constructor <;> intro h <;> nlinarith

theorem cuboidReflect_scale (l : ℝ) (hl : 0 < l) (x : V3 ℝ) : cuboidReflect (vs l x) = vs l (cuboidReflect x) := by
  have hf := cuboidFlip_scale l hl x
  simp only [cuboidReflect, hf]
  apply V3.ext' <;> simp only [vs] <;> split <;> ring

/-- C12 (Cuboid): B of a cuboid is unchanged when dimension and observer are multiplied by the same
positive factor — for every observer of the general case (the wrapper's masks, themselves
scale-free by `cuboidMasks_scale_invariant`, route all other observers to the special cases) -/
theorem cuboidB_scale_invariant (l : ℝ) (hl : 0 < l) (dim pol x : V3 ℝ)
    (hgen :
      let r := cuboidReflect x
      let xma := r.x - dim.x / 2; let xpa := r.x + dim.x / 2
      let ymb := r.y - dim.y / 2; let ypb := r.y + dim.y / 2
      let zmc := r.z - dim.z / 2; let zpc := r.z + dim.z / 2
      (xma + cd3 xma ymb zmc) * (xpa + cd3 xpa ypb zmc) * (xpa + cd3 xpa ymb zpc) * (xma + cd3 xma ypb zpc) ≠ 0 ∧
      (xpa + cd3 xpa ymb zmc) * (xma + cd3 xma ypb zmc) * (xma + cd3 xma ymb zpc) * (xpa + cd3 xpa ypb zpc) ≠ 0 ∧
      (-ymb + cd3 xma ymb zmc) * (-ypb + cd3 xpa ypb zmc) * (-ymb + cd3 xpa ymb zpc) * (-ypb + cd3 xma ypb zpc) ≠ 0 ∧
      (-ymb + cd3 xpa ymb zmc) * (-ypb + cd3 xma ypb zmc) * (ymb - cd3 xma ymb zpc) * (ypb - cd3 xpa ypb zpc) ≠ 0 ∧
      (-zmc + cd3 xma ymb zmc) * (-zmc + cd3 xpa ypb zmc) * (-zpc + cd3 xpa ymb zpc) * (-zpc + cd3 xma ypb zpc) ≠ 0 ∧
      (-zmc + cd3 xpa ymb zmc) * (zmc - cd3 xma ypb zmc) * (-zpc + cd3 xma ymb zpc) * (zpc - cd3 xpa ypb zpc) ≠ 0) :
    cuboidB (vs l dim) pol (vs l x) = cuboidB dim pol x := by
  obtain ⟨h1, h2, h3, h4, h5, h6⟩ := hgen
  simp only [cuboidB, cuboidFlip_scale l hl, cuboidReflect_scale l hl]
  simp only [vs, n, ofNat_real, Nat.cast_ofNat]
  have e : ∀ r d : ℝ, l * r - l * d / 2 = l * (r - d / 2) := fun r d => by ring
  have e' : ∀ r d : ℝ, l * r + l * d / 2 = l * (r + d / 2) := fun r d => by ring
  simp only [e, e']
  rw [cuboidFF_scale_invariant l hl _ _ _ _ _ _ h1 h2 h3 h4 h5 h6]

/-- the Cuboid wrapper's inside / surface / edge / special-case masks use relative tolerances
only: they are the same at every length scale -/
theorem cuboidMasks_scale_invariant (l : ℝ) (hl : 0 < l) (dim pol x : V3 ℝ) :
    cuboidMasks (vs l dim) pol (vs l x) = cuboidMasks dim pol x := by
  have habs : ∀ a : ℝ, |l * a| = l * |a| := fun a => by rw [abs_mul, abs_of_pos hl]
  have hlt : ∀ u v : ℝ, (l * u < l * v) ↔ (u < v) := fun u v => by
    constructor <;> intro h <;> nlinarith
  simp only [cuboidMasks, vs, lt_real, abs_real, eq0_real, n, ofNat_real, habs]
  have r3 : l * |dim.x| / ↑(2 : ℕ) * (l * |dim.y| / ↑(2 : ℕ)) * (l * |dim.z| / ↑(2 : ℕ)) = 0 ↔
      |dim.x| / ↑(2 : ℕ) * (|dim.y| / ↑(2 : ℕ)) * (|dim.z| / ↑(2 : ℕ)) = 0 := by
    have hl' : l ≠ 0 := hl.ne'
    constructor
    · intro h
      have : l ^ 3 * (|dim.x| / ↑(2 : ℕ) * (|dim.y| / ↑(2 : ℕ)) * (|dim.z| / ↑(2 : ℕ))) = 0 := by
        rw [← h]; ring
      rcases mul_eq_zero.mp this with h' | h'
      · exact absurd h' (by positivity)
      · exact h'
    · intro h
      have : l * |dim.x| / ↑(2 : ℕ) * (l * |dim.y| / ↑(2 : ℕ)) * (l * |dim.z| / ↑(2 : ℕ)) =
          l ^ 3 * (|dim.x| / ↑(2 : ℕ) * (|dim.y| / ↑(2 : ℕ)) * (|dim.z| / ↑(2 : ℕ))) := by ring
      rw [this, h, mul_zero]
  simp only [r3]
  have r1 : ∀ a xx : ℝ, l * |xx| - l * |a| / ↑(2 : ℕ) = l * (|xx| - |a| / ↑(2 : ℕ)) := fun a xx => by ring
  have r2 : ∀ t a : ℝ, t * (l * |a| / ↑(2 : ℕ)) = l * (t * (|a| / ↑(2 : ℕ))) := fun t a => by ring
  simp only [r1, r2, habs, hlt]
end MagpyVerif.C12
