/-
Props/C12.lean — results are invariant under the choice of length unit (λ > 0 a common factor on
every length): magnets unchanged, currents ÷ λ, dipoles ÷ λ³; proportional to the excitation.
Proved here for the kernels that are plain algebra (Dipole, Sphere incl. its inside/outside
switch, straight current segment incl. its foot-point case split) and for the Cuboid: its six
closed-form factors, the octant reflection and sign logic, and every mask of its wrapper.
Also: Triangle (edge integrals with their relative `1e-12·l` branch test, solid angle, assembled
sheet field), Tetrahedron (chirality fix, barycentric inside test, all four fields) and Circle
(`current_circle_Hfield` with the cel iteration as an opaque function, and every special-case
mask of `BHJM_circle`) — helper algebra in Lemmas/KernAlgebra.lean.  Cylinder: the whole ported
`BHJM_magnet_cylinder` (Model/Cylinder.lean; `cel0` opaque) — Lemmas/KernCylinder.lean.
TriangularMesh inside test (`mask_inside_enclosing_box`, `lines_end_in_trimesh`,
`mask_inside_trimesh`, `is_facet_inwards` as repaired by f73fae7 / d9c8d28: all lengths divided by
the mesh size first), ported in Model/TrimeshInside.lean — helper lemmas in Lemmas/TrimeshInside.lean.
/- FULL: all source classes.  Not shown by theorem: CylinderSegment (kernel not ported to the real
   carrier); there the oracle rescales one configuration over 10^-9 … 10^9 and 2^±33. -/
-/
import MagpyVerif.Lemmas.KernReal
import MagpyVerif.Lemmas.KernAlgebra
import MagpyVerif.Lemmas.KernCylinder
import MagpyVerif.Lemmas.CylinderBatchScale
import MagpyVerif.Lemmas.TrimeshInside
import MagpyVerif.Lemmas.KernelLiterals
import MagpyVerif.Props.C15
import MagpyVerif.Model.Polyline
import MagpyVerif.Lemmas.KernCylSeg
import MagpyVerif.Lemmas.KernCylSegScale
namespace MagpyVerif.C12
open MagpyVerif MagpyVerif.Kern

theorem norm_scale (l : ℝ) (hl : 0 < l) (x : V3 ℝ) : Kern.norm (vs l x) = l * Kern.norm x := by
  simp only [Kern.norm, vs, sqrt_real]
  have : l * x.x * (l * x.x) + l * x.y * (l * x.y) + l * x.z * (l * x.z) = l ^ 2 * (x.x * x.x + x.y * x.y + x.z * x.z) := by ring
  rw [this, Real.sqrt_mul (by positivity), Real.sqrt_sq hl.le]

section
variable (l : ℝ) (hl : 0 < l)
include hl

/-- Dipole: scaling the observer distance by λ divides H (and B) by λ³ -/
theorem dipole_homogeneous (m x : V3 ℝ) (hx : Kern.norm x ≠ 0) :
    dipoleH m (vs l x) = vs (1 / l ^ 3) (dipoleH m x) := by
  have hn := norm_scale l hl x
  simp only [dipoleH, hn]
  have hl' : l ≠ 0 := hl.ne'
  have hpi : Real.pi ≠ 0 := Real.pi_ne_zero
  apply V3.ext' <;> simp [vs, vd, n, V3.dot] <;> field_simp <;> ring

/-- Sphere: scaling diameter and observer by λ leaves all four fields unchanged, including the
choice between the inside and the outside formula -/
theorem sphere_scale_invariant (f : Field) (d : ℝ) (pol x : V3 ℝ) (hx : Kern.norm x ≠ 0) :
    bhjmSphere f (l * d) pol (vs l x) = bhjmSphere f d pol x := by
  have hn := norm_scale l hl x
  have hl' : l ≠ 0 := hl.ne'
  have habs : |l * d| = l * |d| := by rw [abs_mul, abs_of_pos hl]
  have hiff : (l * |d| / 2 < l * Kern.norm x) ↔ (|d| / 2 < Kern.norm x) := by
    constructor
    · intro h; nlinarith
    · intro h; nlinarith
  cases f <;> simp only [bhjmSphere, hn, lt_real, abs_real, n, ofNat_real, Nat.cast_ofNat, habs, hiff] <;>
    (by_cases hc : |d| / 2 < Kern.norm x <;> simp only [hc, decide_true, decide_false, if_true, if_false, Bool.false_eq_true] <;>
      (apply V3.ext' <;> simp [vs, vd, zero3, n, V3.dot] <;> (try field_simp) <;> (try ring)))

/-- all fields scale proportionally with the excitation: Sphere -/
theorem sphere_linear_in_polarization (f : Field) (c d : ℝ) (pol x : V3 ℝ) :
    bhjmSphere f d (vs c pol) x = vs c (bhjmSphere f d pol x) := by
  cases f <;> simp only [bhjmSphere, lt_real, abs_real, n, ofNat_real, Nat.cast_ofNat] <;>
    (by_cases hc : |d| / 2 < Kern.norm x <;> simp only [hc, decide_true, decide_false, if_true, if_false, Bool.false_eq_true] <;>
      (apply V3.ext' <;> simp [vs, vd, zero3, n, V3.dot] <;> (try field_simp) <;> (try ring)))

theorem vs_sub (a b : V3 ℝ) : vs l a - vs l b = vs l (a - b) := by
  apply V3.ext' <;> simp [vs] <;> ring

theorem vd_vs_cancel (p : V3 ℝ) (c : ℝ) : vd (vs l p) (l * c) = vd p c := by
  have hl' : l ≠ 0 := hl.ne'
  apply V3.ext' <;> simp only [vd, vs] <;> exact mul_div_mul_left _ _ hl'

/-- straight current segment: scaling all lengths by λ divides H by λ; every internal branch
decision (which side of the segment the foot point lies on) is taken on dimensionless
quantities and does not change -/
theorem segment_homogeneous (cur : ℝ) (p1 p2 po : V3 ℝ) :
    segmentH cur (vs l p1) (vs l p2) (vs l po) = vs (1 / l) (segmentH cur p1 p2 po) := by
  have hl' : l ≠ 0 := hl.ne'
  simp only [segmentH, vs_sub l hl, norm_scale l hl, vd_vs_cancel l hl]
  generalize segmentCore (vd p1 (Kern.norm (p1 - p2))) (vd p2 (Kern.norm (p1 - p2))) (vd po (Kern.norm (p1 - p2))) = c
  have hpi : Real.pi ≠ 0 := Real.pi_ne_zero
  apply V3.ext' <;> simp [vs, vd, n] <;> ring
end

/-! ### Cuboid -/

theorem sqrt3_scale (l : ℝ) (hl : 0 < l) (u v w : ℝ) :
    Real.sqrt (l * u * (l * u) + l * v * (l * v) + l * w * (l * w)) = l * Real.sqrt (u * u + v * v + w * w) := by
  have : l * u * (l * u) + l * v * (l * v) + l * w * (l * w) = l ^ 2 * (u * u + v * v + w * w) := by ring
  rw [this, Real.sqrt_mul (by positivity), Real.sqrt_sq hl.le]

theorem log4_scale (l : ℝ) (hl : 0 < l) (a b c d e f g h : ℝ) (hP : a * b * c * d ≠ 0) (hQ : e * f * g * h ≠ 0) :
    Real.log (l * a * (l * b) * (l * c) * (l * d)) - Real.log (l * e * (l * f) * (l * g) * (l * h)) =
      Real.log (a * b * c * d) - Real.log (e * f * g * h) := by
  have h1 : l * a * (l * b) * (l * c) * (l * d) = l ^ 4 * (a * b * c * d) := by ring
  have h2 : l * e * (l * f) * (l * g) * (l * h) = l ^ 4 * (e * f * g * h) := by ring
  have hl4 : l ^ 4 ≠ 0 := by positivity
  rw [h1, h2, Real.log_mul hl4 hP, Real.log_mul hl4 hQ]
  ring

theorem arg_scale (l : ℝ) (hl : 0 < l) (u w v m : ℝ) :
    Complex.arg ⟨l * v * (l * m), l * u * (l * w)⟩ = Complex.arg ⟨v * m, u * w⟩ := by
  have : (⟨l * v * (l * m), l * u * (l * w)⟩ : ℂ) = ((l ^ 2 : ℝ) : ℂ) * ⟨v * m, u * w⟩ := by
    apply Complex.ext
    · simp only [Complex.mul_re, Complex.ofReal_re, Complex.ofReal_im]; ring
    · simp only [Complex.mul_im, Complex.ofReal_re, Complex.ofReal_im]; ring
  rw [this, Complex.arg_real_mul _ (by positivity)]

/-- the eight corner distances -/
noncomputable def cd3 (u v w : ℝ) : ℝ := Real.sqrt (u * u + v * v + w * w)

/-- Cuboid: the six closed-form factors of `magnet_cuboid_Bfield` are invariant under a common
positive length factor `l`, provided the arguments of the six logarithms do not vanish (i.e. off
the edges and their extensions, which the wrapper masks out) -/
theorem cuboidFF_scale_invariant (l : ℝ) (hl : 0 < l) (xma xpa ymb ypb zmc zpc : ℝ)
    (h1 : (xma + cd3 xma ymb zmc) * (xpa + cd3 xpa ypb zmc) * (xpa + cd3 xpa ymb zpc) * (xma + cd3 xma ypb zpc) ≠ 0)
    (h2 : (xpa + cd3 xpa ymb zmc) * (xma + cd3 xma ypb zmc) * (xma + cd3 xma ymb zpc) * (xpa + cd3 xpa ypb zpc) ≠ 0)
    (h3 : (-ymb + cd3 xma ymb zmc) * (-ypb + cd3 xpa ypb zmc) * (-ymb + cd3 xpa ymb zpc) * (-ypb + cd3 xma ypb zpc) ≠ 0)
    (h4 : (-ymb + cd3 xpa ymb zmc) * (-ypb + cd3 xma ypb zmc) * (ymb - cd3 xma ymb zpc) * (ypb - cd3 xpa ypb zpc) ≠ 0)
    (h5 : (-zmc + cd3 xma ymb zmc) * (-zmc + cd3 xpa ypb zmc) * (-zpc + cd3 xpa ymb zpc) * (-zpc + cd3 xma ypb zpc) ≠ 0)
    (h6 : (-zmc + cd3 xpa ymb zmc) * (zmc - cd3 xma ypb zmc) * (-zpc + cd3 xma ymb zpc) * (zpc - cd3 xpa ypb zpc) ≠ 0) :
    cuboidFF (l * xma) (l * xpa) (l * ymb) (l * ypb) (l * zmc) (l * zpc) = cuboidFF xma xpa ymb ypb zmc zpc := by
  have hs := sqrt3_scale l hl
  have f1 : ∀ a b : ℝ, l * a + l * b = l * (a + b) := fun a b => by ring
  have f2 : ∀ a b : ℝ, -(l * a) + l * b = l * (-a + b) := fun a b => by ring
  have f3 : ∀ a b : ℝ, l * a - l * b = l * (a - b) := fun a b => by ring
  unfold cuboidFF
  simp only [sqrt_real, log_real, atan2_real, hs, f1, f2, f3]
  simp only [cd3] at h1 h2 h3 h4 h5 h6
  rw [log4_scale l hl _ _ _ _ _ _ _ _ h1 h2, log4_scale l hl _ _ _ _ _ _ _ _ h3 h4,
    log4_scale l hl _ _ _ _ _ _ _ _ h5 h6]
  simp only [arg_scale l hl]

theorem cuboidFlip_scale (l : ℝ) (hl : 0 < l) (x : V3 ℝ) : cuboidFlip (vs l x) = cuboidFlip x := by
  simp only [cuboidFlip, vs, lt_real, n, ofNat_real, Nat.cast_zero, CuboidFlip.mk.injEq, decide_eq_decide]
  refine ⟨?_, ?_, ?_⟩
  · constructor <;> intro h <;> nlinarith
  · constructor <;> intro h <;> nlinarith
  · constructor <;> intro h <;> nlinarith

theorem cuboidReflect_scale (l : ℝ) (hl : 0 < l) (x : V3 ℝ) : cuboidReflect (vs l x) = vs l (cuboidReflect x) := by
  have hf := cuboidFlip_scale l hl x
  simp only [cuboidReflect, hf]
  apply V3.ext' <;> simp only [vs] <;> split <;> ring

/-- C12 (Cuboid): B of a cuboid is unchanged when dimension and observer are multiplied by the same
positive factor — for every observer of the general case (the wrapper's masks, themselves
scale-free by `cuboidMasks_scale_invariant`, route all other observers to the special cases) -/
theorem cuboidB_scale_invariant (l : ℝ) (hl : 0 < l) (dim pol x : V3 ℝ)
    (hgen :
      let r := cuboidReflect x
      let xma := r.x - dim.x / 2; let xpa := r.x + dim.x / 2
      let ymb := r.y - dim.y / 2; let ypb := r.y + dim.y / 2
      let zmc := r.z - dim.z / 2; let zpc := r.z + dim.z / 2
      (xma + cd3 xma ymb zmc) * (xpa + cd3 xpa ypb zmc) * (xpa + cd3 xpa ymb zpc) * (xma + cd3 xma ypb zpc) ≠ 0 ∧
      (xpa + cd3 xpa ymb zmc) * (xma + cd3 xma ypb zmc) * (xma + cd3 xma ymb zpc) * (xpa + cd3 xpa ypb zpc) ≠ 0 ∧
      (-ymb + cd3 xma ymb zmc) * (-ypb + cd3 xpa ypb zmc) * (-ymb + cd3 xpa ymb zpc) * (-ypb + cd3 xma ypb zpc) ≠ 0 ∧
      (-ymb + cd3 xpa ymb zmc) * (-ypb + cd3 xma ypb zmc) * (ymb - cd3 xma ymb zpc) * (ypb - cd3 xpa ypb zpc) ≠ 0 ∧
      (-zmc + cd3 xma ymb zmc) * (-zmc + cd3 xpa ypb zmc) * (-zpc + cd3 xpa ymb zpc) * (-zpc + cd3 xma ypb zpc) ≠ 0 ∧
      (-zmc + cd3 xpa ymb zmc) * (zmc - cd3 xma ypb zmc) * (-zpc + cd3 xma ymb zpc) * (zpc - cd3 xpa ypb zpc) ≠ 0) :
    cuboidB (vs l dim) pol (vs l x) = cuboidB dim pol x := by
  obtain ⟨h1, h2, h3, h4, h5, h6⟩ := hgen
  simp only [cuboidB, cuboidFlip_scale l hl, cuboidReflect_scale l hl]
  simp only [vs, n, ofNat_real, Nat.cast_ofNat]
  have e : ∀ r d : ℝ, l * r - l * d / 2 = l * (r - d / 2) := fun r d => by ring
  have e' : ∀ r d : ℝ, l * r + l * d / 2 = l * (r + d / 2) := fun r d => by ring
  simp only [e, e']
  rw [cuboidFF_scale_invariant l hl _ _ _ _ _ _ h1 h2 h3 h4 h5 h6]

/-- the Cuboid wrapper's inside / surface / edge / special-case masks use relative tolerances
only: they are the same at every length scale -/
theorem cuboidMasks_scale_invariant (l : ℝ) (hl : 0 < l) (dim pol x : V3 ℝ) :
    cuboidMasks (vs l dim) pol (vs l x) = cuboidMasks dim pol x := by
  have habs : ∀ a : ℝ, |l * a| = l * |a| := fun a => by rw [abs_mul, abs_of_pos hl]
  have hlt : ∀ u v : ℝ, (l * u < l * v) ↔ (u < v) := fun u v => by
    constructor <;> intro h <;> nlinarith
  simp only [cuboidMasks, vs, lt_real, abs_real, eq0_real, n, ofNat_real, habs]
  have r3 : l * |dim.x| / ↑(2 : ℕ) * (l * |dim.y| / ↑(2 : ℕ)) * (l * |dim.z| / ↑(2 : ℕ)) = 0 ↔
      |dim.x| / ↑(2 : ℕ) * (|dim.y| / ↑(2 : ℕ)) * (|dim.z| / ↑(2 : ℕ)) = 0 := by
    have hl' : l ≠ 0 := hl.ne'
    constructor
    · intro h
      have : l ^ 3 * (|dim.x| / ↑(2 : ℕ) * (|dim.y| / ↑(2 : ℕ)) * (|dim.z| / ↑(2 : ℕ))) = 0 := by
        rw [← h]; ring
      rcases mul_eq_zero.mp this with h' | h'
      · exact absurd h' (by positivity)
      · exact h'
    · intro h
      have : l * |dim.x| / ↑(2 : ℕ) * (l * |dim.y| / ↑(2 : ℕ)) * (l * |dim.z| / ↑(2 : ℕ)) =
          l ^ 3 * (|dim.x| / ↑(2 : ℕ) * (|dim.y| / ↑(2 : ℕ)) * (|dim.z| / ↑(2 : ℕ))) := by ring
      rw [this, h, mul_zero]
  simp only [r3]
  have r1 : ∀ a xx : ℝ, l * |xx| - l * |a| / ↑(2 : ℕ) = l * (|xx| - |a| / ↑(2 : ℕ)) := fun a xx => by ring
  have r2 : ∀ t a : ℝ, t * (l * |a| / ↑(2 : ℕ)) = l * (t * (|a| / ↑(2 : ℕ))) := fun t a => by ring
  simp only [r1, r2, habs, hlt]

/-! ### Triangle -/

/-- Triangle, one edge integral `I` of `triangle_Bfield`: multiplying the two vertex–observer vectors
`R`, `Rn` of the edge's ends and the edge vector `L` by the same `l > 0` divides `I` by `l`.  No
non-degeneracy hypothesis is needed: every branch test compares lengths with lengths or with 0, or a
squared length with a multiple of a squared length (`rn < r`, `rho2 <= 1e-30 * l2`, `a < 0`, `c > 0`,
`a >= 0`, `c < 0`), the argument of each logarithm is a ratio of products of lengths of equal degree (so
it is literally unchanged), and the division by `l_edge` carries the `1/l`. -/
theorem triEdgeI_scale (l : ℝ) (hl : 0 < l) (R Rn L : V3 ℝ) :
    triEdgeI (vs l R) (vs l Rn) (vs l L) = 1 / l * triEdgeI R Rn L :=
  triEdgeI_scale' mu0R l hl R Rn L

/-- the switch between the general formula and the on-edge value of `triangle_Bfield`
(`(rho2 <= 1e-30 * l2) & (a < 0) & (c > 0)`, with `rho2` taken from the nearer end `rn < r`) is taken at the
same observers whatever the length unit: the only tolerance left is relative to the edge length (squared
distance from the edge line against `1e-30` times the squared edge length), the other comparisons are of a
length with 0; `triEdgeI` is the on-edge value where the test holds and the cancellation-free general formula
where it fails -/
theorem triEdge_branch_scale_free (l : ℝ) (hl : 0 < l) (R Rn L : V3 ℝ) :
    (triEdgeOn (V3.dot (vs l R) (vs l R)) (V3.dot (vs l Rn) (vs l Rn)) (V3.dot (vs l L) (vs l L))
        (V3.dot (vs l R) (vs l L)) (V3.dot (vs l Rn) (vs l L))
        (V3.dot (V3.cross (vs l R) (vs l L)) (V3.cross (vs l R) (vs l L)))
        (V3.dot (V3.cross (vs l Rn) (vs l L)) (V3.cross (vs l Rn) (vs l L))) ↔
      triEdgeOn (V3.dot R R) (V3.dot Rn Rn) (V3.dot L L) (V3.dot R L) (V3.dot Rn L)
        (V3.dot (V3.cross R L) (V3.cross R L)) (V3.dot (V3.cross Rn L) (V3.cross Rn L))) ∧
    triEdgeI R Rn L = triEdgeS (V3.dot R R) (V3.dot Rn Rn) (V3.dot L L) (V3.dot R L) (V3.dot Rn L)
      (V3.dot (V3.cross R L) (V3.cross R L)) (V3.dot (V3.cross Rn L) (V3.cross Rn L)) := by
  refine ⟨?_, triEdgeI_eq mu0R R Rn L⟩
  simp only [dot_vs_vs mu0R, cross_dot_scale mu0R]
  exact triEdgeOn_scale l hl _ _ _ _ _ _ _

-- non-vacuity: both branches of the edge integral occur — observer off the edge line
-- (R = (1,0,0), L = (0,1,0): rho2 = 1 > 1e-30), and observer on the edge (R = (-1/2,0,0), L = (1,0,0): rho2 = 0, a = -1/2, c = 1/2)
example : ¬ triEdgeOn (V3.dot (⟨1, 0, 0⟩ : V3 ℝ) ⟨1, 0, 0⟩) (V3.dot (⟨1, 1, 0⟩ : V3 ℝ) ⟨1, 1, 0⟩)
    (V3.dot (⟨0, 1, 0⟩ : V3 ℝ) ⟨0, 1, 0⟩) (V3.dot (⟨1, 0, 0⟩ : V3 ℝ) ⟨0, 1, 0⟩) (V3.dot (⟨1, 1, 0⟩ : V3 ℝ) ⟨0, 1, 0⟩)
    (V3.dot (V3.cross (⟨1, 0, 0⟩ : V3 ℝ) ⟨0, 1, 0⟩) (V3.cross (⟨1, 0, 0⟩ : V3 ℝ) ⟨0, 1, 0⟩))
    (V3.dot (V3.cross (⟨1, 1, 0⟩ : V3 ℝ) ⟨0, 1, 0⟩) (V3.cross (⟨1, 1, 0⟩ : V3 ℝ) ⟨0, 1, 0⟩)) := by
  simp [triEdgeOn, V3.dot, V3.cross]
example : triEdgeOn (V3.dot (⟨-1 / 2, 0, 0⟩ : V3 ℝ) ⟨-1 / 2, 0, 0⟩) (V3.dot (⟨1 / 2, 0, 0⟩ : V3 ℝ) ⟨1 / 2, 0, 0⟩)
    (V3.dot (⟨1, 0, 0⟩ : V3 ℝ) ⟨1, 0, 0⟩) (V3.dot (⟨-1 / 2, 0, 0⟩ : V3 ℝ) ⟨1, 0, 0⟩) (V3.dot (⟨1 / 2, 0, 0⟩ : V3 ℝ) ⟨1, 0, 0⟩)
    (V3.dot (V3.cross (⟨-1 / 2, 0, 0⟩ : V3 ℝ) ⟨1, 0, 0⟩) (V3.cross (⟨-1 / 2, 0, 0⟩ : V3 ℝ) ⟨1, 0, 0⟩))
    (V3.dot (V3.cross (⟨1 / 2, 0, 0⟩ : V3 ℝ) ⟨1, 0, 0⟩) (V3.cross (⟨1 / 2, 0, 0⟩ : V3 ℝ) ⟨1, 0, 0⟩)) := by
  simp [triEdgeOn, V3.dot, V3.cross]
  norm_num
example : triEdgeI (vs 1000 (⟨1, 0, 0⟩ : V3 ℝ)) (vs 1000 ⟨1, 1, 0⟩) (vs 1000 ⟨0, 1, 0⟩) =
    1 / 1000 * triEdgeI ⟨1, 0, 0⟩ ⟨1, 1, 0⟩ ⟨0, 1, 0⟩ :=
  triEdgeI_scale 1000 (by norm_num) _ _ _

/-- Triangle, `solid_angle`: the solid angle under which the triangle is seen is unchanged when
the three vertex–observer vectors and their lengths are multiplied by `l > 0` (numerator and
denominator of the `arctan2` both scale by `l³`), including the `|result| > 6.2831853 → 0` guard -/
theorem solidAngle_scale (l : ℝ) (hl : 0 < l) (R0 R1 R2 : V3 ℝ) (r0 r1 r2 : ℝ) :
    solidAngle (vs l R0) (vs l R1) (vs l R2) (l * r0) (l * r1) (l * r2) = solidAngle R0 R1 R2 r0 r1 r2 :=
  solidAngle_scale' mu0R l hl R0 R1 R2 r0 r1 r2

example : solidAngle (vs 3 (⟨1, 0, 0⟩ : V3 ℝ)) (vs 3 ⟨0, 1, 0⟩) (vs 3 ⟨0, 0, 1⟩) (3 * 1) (3 * 1) (3 * 1) =
    solidAngle ⟨1, 0, 0⟩ ⟨0, 1, 0⟩ ⟨0, 0, 1⟩ 1 1 1 := solidAngle_scale 3 (by norm_num) _ _ _ _ _ _

/-- C12 (Triangle): `triangle_Bfield` returns the same B when the three vertices and the observer
are multiplied by the same `l > 0` — for every triangle and every observer (the unit normal, the
charge density σ = n·J, the solid angle and `I·L` for each edge are all dimensionless) -/
theorem triangleB_scale_invariant (l : ℝ) (hl : 0 < l) (v0 v1 v2 pol x : V3 ℝ) :
    triangleB (vs l v0) (vs l v1) (vs l v2) pol (vs l x) = triangleB v0 v1 v2 pol x :=
  triangleB_scale' mu0R l hl v0 v1 v2 pol x

/-- C12 (Triangle): all four outputs of `BHJM_triangle` are unit invariant -/
theorem bhjmTriangle_scale_invariant (l : ℝ) (hl : 0 < l) (f : Field) (v0 v1 v2 pol x : V3 ℝ) :
    bhjmTriangle f (vs l v0) (vs l v1) (vs l v2) pol (vs l x) = bhjmTriangle f v0 v1 v2 pol x :=
  bhjmTriangle_scale' mu0R l hl f v0 v1 v2 pol x

example : bhjmTriangle .H (vs (1 / 1000000000) (⟨0, 0, 0⟩ : V3 ℝ)) (vs (1 / 1000000000) ⟨1, 0, 0⟩)
    (vs (1 / 1000000000) ⟨0, 1, 0⟩) ⟨0, 0, 1⟩ (vs (1 / 1000000000) ⟨1, 2, 3⟩) =
    bhjmTriangle .H ⟨0, 0, 0⟩ ⟨1, 0, 0⟩ ⟨0, 1, 0⟩ ⟨0, 0, 1⟩ ⟨1, 2, 3⟩ :=
  bhjmTriangle_scale_invariant _ (by norm_num) _ _ _ _ _ _

/-! ### Tetrahedron -/

/-- `check_chirality` decides by the sign of a determinant that scales by `l³ > 0`: the same two
vertices are exchanged (or not) at every length scale -/
theorem tetraChirality_scale (l : ℝ) (hl : 0 < l) (v0 v1 v2 v3 : V3 ℝ) :
    tetraChirality (vs l v0) (vs l v1) (vs l v2) (vs l v3) =
      ((vs l (tetraChirality v0 v1 v2 v3).1, vs l (tetraChirality v0 v1 v2 v3).2.1,
        vs l (tetraChirality v0 v1 v2 v3).2.2.1, vs l (tetraChirality v0 v1 v2 v3).2.2.2)) :=
  tetraChirality_scale' mu0R l hl v0 v1 v2 v3

/-- `point_inside` of the Tetrahedron works on barycentric coordinates (ratios of determinants):
the inside set scales with the body -/
theorem tetraInside_scale_invariant (l : ℝ) (hl : 0 < l) (v0 v1 v2 v3 x : V3 ℝ) :
    tetraInside (vs l v0) (vs l v1) (vs l v2) (vs l v3) (vs l x) = tetraInside v0 v1 v2 v3 x :=
  tetraInside_scale' mu0R l hl v0 v1 v2 v3 x

/-- C12 (Tetrahedron): B, H, J and M of `BHJM_magnet_tetrahedron` are unchanged when the four
vertices and the observer are multiplied by the same `l > 0` — every observer, inside or outside -/
theorem bhjmTetra_scale_invariant (l : ℝ) (hl : 0 < l) (f : Field) (v0 v1 v2 v3 pol x : V3 ℝ) :
    bhjmTetra f (vs l v0) (vs l v1) (vs l v2) (vs l v3) pol (vs l x) = bhjmTetra f v0 v1 v2 v3 pol x :=
  bhjmTetra_scale' mu0R l hl f v0 v1 v2 v3 pol x

-- non-vacuity: a left-handed tetrahedron (the swap happens) with an observer inside
example : tetraChirality (⟨0, 0, 0⟩ : V3 ℝ) ⟨1, 0, 0⟩ ⟨0, 0, 1⟩ ⟨0, 1, 0⟩ =
    (⟨0, 0, 0⟩, ⟨1, 0, 0⟩, ⟨0, 1, 0⟩, ⟨0, 0, 1⟩) := by
  simp [tetraChirality, det3, n]
example : tetraInside (⟨0, 0, 0⟩ : V3 ℝ) ⟨1, 0, 0⟩ ⟨0, 0, 1⟩ ⟨0, 1, 0⟩ ⟨1 / 4, 1 / 4, 1 / 4⟩ = true := by
  simp [tetraInside, det3, n]
  norm_num

/-! ### Circle -/

/-- Circle, `current_circle_Hfield` in cylinder coordinates: multiplying loop radius and observer
(r, z) by `l` divides (Hr, Hz) by `l`.  After the first two lines (`r/r0`, `z/r0`) the computation
— including both Bulirsch `cel` iterations and whether they finish within `fuel` steps — is the
same; only the prefactor `pf` carries `1/r0`. -/
theorem circleHcyl_homogeneous (l : ℝ) (hl : l ≠ 0) (fuel : Nat) (r0 r z i0 : ℝ) :
    circleHcyl fuel (l * r0) (l * r) (l * z) i0 =
      (circleHcyl fuel r0 r z i0).map (fun h => (h.1 / l, h.2 / l)) :=
  circleHcyl_scale' mu0R l hl fuel r0 r z i0

/-- C12 (Circle): `BHJM_circle` with diameter and observer multiplied by `l > 0` returns the field
divided by `l`, for all four outputs and through every special case: the masks "zero diameter",
"on the wire within 1e-15·r0" and "on the axis" select the same observers at every scale, the
on-axis formula is homogeneous of degree −1, and the azimuth used to rotate back is unchanged -/
theorem bhjmCircle_homogeneous (l : ℝ) (hl : 0 < l) (fuel : Nat) (f : Field) (d cur : ℝ) (x : V3 ℝ) :
    bhjmCircle fuel f (l * d) cur (vs l x) = (bhjmCircle fuel f d cur x).map (vs (1 / l)) :=
  bhjmCircle_scale' mu0R l hl fuel f d cur x

-- non-vacuity: an observer on the axis of a loop of diameter 2 (special case with non-zero field)
example : bhjmCircle 200 .H 2 1 (⟨0, 0, 0⟩ : V3 ℝ) = some ⟨0, 0, 1 / 2⟩ := by
  simp [bhjmCircle, n]
example : bhjmCircle 200 .H (1000 * 2) 1 (vs 1000 (⟨3, 4, 5⟩ : V3 ℝ)) =
    (bhjmCircle 200 .H 2 1 ⟨3, 4, 5⟩).map (vs (1 / 1000)) :=
  bhjmCircle_homogeneous 1000 (by norm_num) 200 .H 2 1 _

/-! ### Cylinder -/

/-- C12 (Cylinder): all four outputs of `BHJM_magnet_cylinder` are unchanged when diameter, height
and observer are multiplied by the same `l > 0`, for every observer and every polarization, through
every mask (inside, on hull / on bases with the relative `np.isclose(rtol=1e-15, atol=0)`, on the
edge, the switch `r/r0 < 0.05` to the Taylor branch, `rm == 0`): the code divides `r`, `z`, `z0` by
`r0` first, these three quotients and the azimuth are the same numbers at every scale, and nothing
else of the lengths is used afterwards.  In particular the same `cel0` calls are made (`cel0` is an
opaque function here) and the result is `none` at one scale iff at the other. -/
theorem cylinder_scale_invariant (l : ℝ) (hl : 0 < l) (fuel : Nat) (f : Field) (d h : ℝ) (pol x : V3 ℝ) :
    bhjmCylinder fuel f (l * d, l * h) pol (vs l x) = bhjmCylinder fuel f (d, h) pol x :=
  bhjmCylinder_scale' mu0R l hl fuel f d h pol x

-- non-vacuity: millimetres vs metres for a generic observer; and a concrete inside observer with J = pol ≠ 0
example : bhjmCylinder 200 .B (1000 * 2, 1000 * 3) ⟨1, 2, 3⟩ (vs 1000 (⟨3, 4, 5⟩ : V3 ℝ)) =
    bhjmCylinder 200 .B (2, 3) ⟨1, 2, 3⟩ ⟨3, 4, 5⟩ :=
  cylinder_scale_invariant 1000 (by norm_num) 200 .B 2 3 _ _
example : bhjmCylinder 200 .J (2, 2) ⟨1, 2, 3⟩ (⟨0, 0, 0⟩ : V3 ℝ) = some ⟨1, 2, 3⟩ := by
  simp [bhjmCylinder, bhjmCylinderRow, cylMasks, n]
/-- C12 (Cylinder, the BATCH as coded — Model/CylinderBatch.lean, `cylbatch` rows of the kern stream): multiplying diameter, height
and observer of EVERY row of a call by the same `l > 0` leaves the whole result unchanged, with `cel` the real dispatcher (`cel0` per
entry below 10 entries, the masked array routine `celv` from 10 on; no longer an opaque function): the rows' dimensionless
coordinates are the same numbers, so the masks, the sub-batches `cel` is called on, their sizes — hence the routine `cel` takes —
and all its arguments are the same at every scale.  `none` at one scale iff at the other -/
theorem cylinder_batch_scale_invariant (l : ℝ) (hl : 0 < l) (fuel : Nat) (f : Field) (rows : List (CylRow ℝ)) :
    bhjmCylinderBatch (celDispatch fuel) fuel f (rows.map (cylRowScale l)) =
      bhjmCylinderBatch (celDispatch fuel) fuel f rows :=
  bhjmCylinderBatch_scale l hl fuel f rows

-- non-vacuity: twelve rows (array path of `cel`), millimetres vs metres
example : bhjmCylinderBatch (celDispatch 200) 200 .B ((List.replicate 12 exCylRow).map (cylRowScale 1000)) =
    bhjmCylinderBatch (celDispatch 200) 200 .B (List.replicate 12 exCylRow) :=
  cylinder_batch_scale_invariant 1000 (by norm_num) 200 .B _

/-! ### TriangularMesh: bounding-box pre-filter, ray test, inside test, facet-orientation seed test -/

/-- C12 (`mask_inside_enclosing_box`): the bounding-box pre-filter of the TriangularMesh inside test selects the same
observers whatever the length unit — for every list of faces, every observer and every `l > 0`; its tolerance is
`1e-12` times the largest edge of the box, so both sides of each of its six strict comparisons scale by `l`. -/
theorem inside_enclosing_box_scale_invariant (l : ℝ) (hl : 0 < l) (faces : List (Tri ℝ)) (x : V3 ℝ) :
    insideEnclosingBox (faces.map (triScale l)) (vs l x) = insideEnclosingBox faces x := by
  simp only [insideEnclosingBox, meshVerts_scale, insideBoxV_scale l hl]

/-- C12 (`lines_end_in_trimesh`): for a mesh of positive size (largest bounding-box edge), multiplying the mesh and both
end points of a test line by `l > 0` does not change the verdict: the function first divides everything by the mesh
size, after which the two calls work on identical numbers, so every later test (reference-point switch at `1e-16`,
plane side, touch at `1e-7`, pass-through at `1e-12`, parity) decides identically. -/
theorem lines_end_in_trimesh_scale_invariant (l : ℝ) (hl : 0 < l) (l0 l1 : V3 ℝ) (faces : List (Tri ℝ))
    (hs : 0 < meshSize faces) :
    linesEndInTrimesh (vs l l0) (vs l l1) (faces.map (triScale l)) = linesEndInTrimesh l0 l1 faces :=
  linesEndInTrimesh_scale l hl l0 l1 faces hs

/-- C12 (`mask_inside_trimesh`, the inside/outside decision of TriangularMesh): for EVERY list of faces (closed or not,
degenerate or not, also a mesh collapsed to one point, where the code skips the division), every observer and every
`l > 0`, the model of `mask_inside_trimesh` gives the same answer for the mesh and observer multiplied by `l` as for the
original: the pre-filter is unit-free, the start point of the test ray (`min − size·(12.0012345, 5.9923456, 6.9932109)`)
scales with the mesh, the ray test is unit-free on meshes of positive size, and an observer that passes the pre-filter
certifies a positive size. -/
theorem mask_inside_trimesh_scale_invariant (l : ℝ) (hl : 0 < l) (faces : List (Tri ℝ)) (x : V3 ℝ) :
    maskInsideTrimesh (faces.map (triScale l)) (vs l x) = maskInsideTrimesh faces x :=
  maskInsideTrimesh_scale l hl faces x

/-- C12 (`is_facet_inwards`, the seed of the face re-orientation): the check point (facet centre displaced along the
facet normal by `1e-5·|v1|`, a length of the facet itself) scales with the mesh, hence the inwards/outwards verdict of
the seed facet does not depend on the length unit. -/
theorem is_facet_inwards_scale_invariant (l : ℝ) (hl : 0 < l) (face : Tri ℝ) (faces : List (Tri ℝ)) :
    isFacetInwards (triScale l face) (faces.map (triScale l)) = isFacetInwards face faces :=
  isFacetInwards_scale l hl face faces

-- non-vacuity (`Kern.unitTetra`: the tetrahedron (0,0,0), (1,0,0), (0,1,0), (0,0,1)): the model finds (1/4,1/4,1/4) inside —
-- so it does at nanometre numbers and at kilometre numbers
example : maskInsideTrimesh (unitTetra.map (triScale (1 / 1000000000))) (vs (1 / 1000000000) ⟨1 / 4, 1 / 4, 1 / 4⟩) = true := by
  rw [mask_inside_trimesh_scale_invariant _ (by norm_num)]; exact unitTetra_quarter_inside
example : maskInsideTrimesh (unitTetra.map (triScale 1000)) (vs 1000 ⟨1 / 4, 1 / 4, 1 / 4⟩) = true := by
  rw [mask_inside_trimesh_scale_invariant _ (by norm_num)]; exact unitTetra_quarter_inside
-- … and (3/5,3/5,3/5), which passes the bounding-box pre-filter, outside at every scale (decided by the ray test)
example : insideEnclosingBox (unitTetra.map (triScale (1 / 1000000))) (vs (1 / 1000000) ⟨3 / 5, 3 / 5, 3 / 5⟩) = true ∧
    maskInsideTrimesh (unitTetra.map (triScale (1 / 1000000))) (vs (1 / 1000000) ⟨3 / 5, 3 / 5, 3 / 5⟩) = false := by
  rw [mask_inside_trimesh_scale_invariant _ (by norm_num), inside_enclosing_box_scale_invariant _ (by norm_num)]
  exact unitTetra_outside_in_box
-- an observer outside the bounding box is rejected by the pre-filter
example : maskInsideTrimesh unitTetra ⟨2, 1 / 4, 1 / 4⟩ = false := by
  have hbox : insideBoxV (meshVerts unitTetra) ⟨2, 1 / 4, 1 / 4⟩ = false := by
    simp [insideBoxV, ut_min, ut_max, pyMax_real, n]
    intro h; norm_num at h
  simp only [maskInsideTrimesh, hbox, Bool.false_eq_true, if_false]
-- the hypothesis of `lines_end_in_trimesh_scale_invariant` is met: the unit tetrahedron has size 1
example : meshSize unitTetra = 1 := ut_size
example : isFacetInwards (triScale 1000 (⟨0, 0, 0⟩, ⟨0, 1, 0⟩, ⟨1, 0, 0⟩)) (unitTetra.map (triScale 1000)) =
    isFacetInwards (⟨0, 0, 0⟩, ⟨0, 1, 0⟩, ⟨1, 0, 0⟩) unitTetra := is_facet_inwards_scale_invariant _ (by norm_num) _ _

end MagpyVerif.C12

/-! ### added by the audit: wrapper-level statements (the functions the driver runs) where only kernels were covered — Sphere
without the superfluous `norm x ≠ 0`, all four outputs of `BHJM_dipole`, `BHJM_magnet_cuboid` with the six-logarithm hypothesis
discharged by its own mask (via Props/C15), the masked Polyline row, and the ported `BHJM_cylinder_segment` -/

namespace MagpyVerif.C12
open MagpyVerif MagpyVerif.Kern

-- non-vacuity of `dipole_homogeneous` / `sphere_scale_invariant` (hx)
example : Kern.norm (⟨1, 0, 0⟩ : V3 ℝ) ≠ 0 := by simp [Kern.norm]

/-- Sphere: the hypothesis `norm x ≠ 0` of `sphere_scale_invariant` is not needed (centre included) -/
theorem sphere_scale_invariant_all (l : ℝ) (hl : 0 < l) (f : Field) (d : ℝ) (pol x : V3 ℝ) :
    bhjmSphere f (l * d) pol (vs l x) = bhjmSphere f d pol x := by
  by_cases hx : Kern.norm x ≠ 0
  · exact sphere_scale_invariant l hl f d pol x hx
  · have hx0 : Kern.norm x = 0 := not_not.mp hx
    have hn := norm_scale l hl x
    have habs : |l * d| = l * |d| := by rw [abs_mul, abs_of_pos hl]
    have h1 : ¬ (|d| / 2 < 0) := not_lt.mpr (by positivity)
    have h2 : ¬ (l * |d| / 2 < l * 0) := by rw [mul_zero]; exact not_lt.mpr (by positivity)
    cases f <;>
      simp only [bhjmSphere, hn, hx0, lt_real, abs_real, n, ofNat_real, Nat.cast_ofNat, habs, h1, h2, decide_false,
        Bool.false_eq_true, if_false]

/-- Dipole, all four outputs of `BHJM_dipole` (the function the driver runs) -/
theorem bhjmDipole_homogeneous (l : ℝ) (hl : 0 < l) (f : Field) (m x : V3 ℝ) (hx : Kern.norm x ≠ 0) :
    bhjmDipole f m (vs l x) = vs (1 / l ^ 3) (bhjmDipole f m x) := by
  cases f
  · simp only [bhjmDipole, dipole_homogeneous l hl m x hx]
    apply V3.ext' <;> simp [vs] <;> ring
  · simp only [bhjmDipole, dipole_homogeneous l hl m x hx]
  · apply V3.ext' <;> simp [bhjmDipole, vs, zero3, n]
  · apply V3.ext' <;> simp [bhjmDipole, vs, zero3, n]

end MagpyVerif.C12

namespace MagpyVerif.C12
open MagpyVerif MagpyVerif.Kern

/-- C12 (Cuboid, whole `BHJM_magnet_cuboid` as run by the driver): all four outputs are unchanged under a common
positive length factor, for EVERY observer of a cuboid with positive sides — the `hgen` hypothesis of
`cuboidB_scale_invariant` is discharged by the wrapper's own `general` mask (`C15.cuboid_defined_off_edges`),
and the rows with `general = false` do not evaluate the core -/
theorem bhjmCuboid_scale_invariant (l : ℝ) (hl : 0 < l) (f : Field) (dim pol x : V3 ℝ)
    (hx : 0 < dim.x) (hy : 0 < dim.y) (hz : 0 < dim.z) :
    bhjmCuboid f (vs l dim) pol (vs l x) = bhjmCuboid f dim pol x := by
  simp only [bhjmCuboid, cuboidMasks_scale_invariant l hl]
  cases hg : (cuboidMasks dim pol x).general
  · cases f <;> simp only [wrapB, Bool.false_eq_true, if_false]
  · have D := C15.cuboid_defined_off_edges dim pol x hx hy hz hg
    simp only at D
    obtain ⟨_, p1, p2, p3, p4, p5, p6, _⟩ := D
    rw [cuboidB_scale_invariant l hl dim pol x ⟨p1.ne', p2.ne', p3.ne', p4.ne', p5.ne', p6.ne'⟩]

-- non-vacuity of `hgen` of `cuboidB_scale_invariant`: an outside observer of the 1×2×3 cuboid
example : cuboidB (vs 1000 (⟨1, 2, 3⟩ : V3 ℝ)) ⟨0, 0, 1⟩ (vs 1000 ⟨2, 3, 4⟩) = cuboidB ⟨1, 2, 3⟩ ⟨0, 0, 1⟩ ⟨2, 3, 4⟩ := by
  have D := C15.cuboid_defined_off_edges ⟨1, 2, 3⟩ ⟨0, 0, 1⟩ ⟨2, 3, 4⟩ (by norm_num) (by norm_num) (by norm_num)
    (by simp [cuboidMasks, n]; norm_num)
  simp only at D
  obtain ⟨_, p1, p2, p3, p4, p5, p6, _⟩ := D
  exact cuboidB_scale_invariant 1000 (by norm_num) _ _ _ ⟨p1.ne', p2.ne', p3.ne', p4.ne', p5.ne', p6.ne'⟩

end MagpyVerif.C12

namespace MagpyVerif.C12
open MagpyVerif MagpyVerif.Kern

theorem v3eq_scale (l : ℝ) (hl : 0 < l) (a b : V3 ℝ) : v3eq (vs l a) (vs l b) = v3eq a b := by
  have e : ∀ u v : ℝ, (l * u - l * v = 0) ↔ (u - v = 0) := fun u v => by
    rw [← mul_sub]; simp [hl.ne']
  simp only [v3eq, vs, eq0_real, e]

/-- C12 (Polyline, one row of `BHJM_current_polyline` incl. `mask_equal` and the on-line mask `norm_o4 < 1e-15`,
which is taken after the division by the segment length): all four outputs divide by `l` -/
theorem bhjmSegment_homogeneous (l : ℝ) (hl : 0 < l) (f : Field) (cur : ℝ) (p1 p2 po : V3 ℝ) :
    bhjmSegment f cur (vs l p1) (vs l p2) (vs l po) = vs (1 / l) (bhjmSegment f cur p1 p2 po) := by
  have hl' : l ≠ 0 := hl.ne'
  have hM : segmentHMasked cur (vs l p1) (vs l p2) (vs l po) = vs (1 / l) (segmentHMasked cur p1 p2 po) := by
    simp only [segmentHMasked, vs_sub l hl, norm_scale l hl, vd_vs_cancel l hl]
    generalize segmentCore (vd p1 (Kern.norm (p1 - p2))) (vd p2 (Kern.norm (p1 - p2))) (vd po (Kern.norm (p1 - p2))) = c
    split_ifs
    · apply V3.ext' <;> simp [vs, zero3, n]
    · apply V3.ext' <;> simp [vs, vd, n] <;> ring
  cases f <;> simp only [bhjmSegment, v3eq_scale l hl, hM] <;> (try split_ifs) <;>
    (apply V3.ext' <;> simp [vs, zero3, n] <;> (try ring))

end MagpyVerif.C12

namespace MagpyVerif.C12
open MagpyVerif MagpyVerif.Kern MagpyVerif.Kern.CylSeg

/-- the prologue of `BHJM_cylinder_segment` makes everything dimensionless (units of the outer radius) -/
theorem segNormalise_scale (μ : ℝ) (S : SegSpecial) (l : ℝ) (hl : 0 < l) (x : V3 ℝ) (r1 r2 h p1 p2 : ℝ) (hr2 : r2 ≠ 0) :
    letI := realNumX μ S
    segNormalise (vs l x) (l * r1) (l * r2) (l * h) p1 p2 = segNormalise x r1 r2 h p1 p2 := by
  let _ := realNumX μ S
  have habs : ∀ a : ℝ, |l * a| = l * |a| := fun a => by rw [abs_mul, abs_of_pos hl]
  have hp : 0 < |r2| := abs_pos.mpr hr2
  have hlp : 0 < l * |r2| := mul_pos hl hp
  have hl' : l ≠ 0 := hl.ne'
  have hp' : |r2| ≠ 0 := hp.ne'
  simp only [segNormalise, vs, abs_real, lt_real, n, ofNat_real, Nat.cast_zero, habs, hlp, hp, decide_true, if_true]
  have e : ∀ a : ℝ, l * a / (l * |r2|) = a / |r2| := fun a => mul_div_mul_left _ _ hl'
  simp only [e]

/-- C12 (CylinderSegment): all four outputs of the ported `BHJM_cylinder_segment` are unchanged when the radii, the
height and the observer are multiplied by the same `l > 0` (angles untouched), for every observer, through every mask and
all 26 cases, with the special functions opaque: after the prologue the two calls work on identical numbers -/
theorem cylseg_scale_invariant (μ : ℝ) (S : SegSpecial) (l : ℝ) (hl : 0 < l) (f : Field) (x : V3 ℝ)
    (r1 r2 h p1 p2 : ℝ) (pol : V3 ℝ) (hr2 : r2 ≠ 0) :
    letI := realNumX μ S
    bhjmCylSeg f (vs l x) (l * r1) (l * r2) (l * h) p1 p2 pol = bhjmCylSeg f x r1 r2 h p1 p2 pol := by
  let _ := realNumX μ S
  unfold bhjmCylSeg
  rw [segNormalise_scale μ S l hl x r1 r2 h p1 p2 hr2]

example : (2 : ℝ) ≠ 0 := by norm_num
/-! ### CylinderSegment -/
namespace MagpyVerif.C12
open MagpyVerif MagpyVerif.Kern MagpyVerif.Kern.CylSeg

/- FULL: the same without `r2 ≠ 0`.  For `r2 = 0` the code's unit is 1 (`np.where(r2 > 0, r2, 1.0)`), nothing is normalised
and the absolute part of `close` (atol = 1e-12, `cylseg_close_not_scale_invariant`) and of the `1e-14` slabs decides; a
segment with outer radius 0 is an empty body (the docstring asks `r1 < r2`). -/
/-- **C12 (CylinderSegment): all four outputs of the ported `BHJM_cylinder_segment` are unchanged when `r1`, `r2`, `h` and the
observer are multiplied by the same `l > 0`**, for every observer (inside, outside, on a face, on an edge, on the axis, next
to a special case of the 26-case analysis), every polarization and every pair of section angles.  Individual boundary terms
contain `log r_i` etc. and are not invariant; the code never evaluates them at the user's scale: it divides all lengths by
the outer radius first (repair 1470506), so masks, case ids and every argument of the case functions and of
`ellipkinc` / `ellipeinc` / `el3_angle` are literally the same numbers at every scale.  `none` (NaN row) at one scale iff at
the other. -/
theorem cylseg_scale_invariant_partial (μ : ℝ) (S : SegSpecial) (l : ℝ) (hl : 0 < l) (f : Field) (x : V3 ℝ)
    (r1 r2 h p1 p2 : ℝ) (hr2 : r2 ≠ 0) (pol : V3 ℝ) :
    @bhjmCylSeg ℝ (realNumX μ S) f (@vs ℝ (realNum μ) l x) (l * r1) (l * r2) (l * h) p1 p2 pol =
      @bhjmCylSeg ℝ (realNumX μ S) f x r1 r2 h p1 p2 pol :=
  bhjmCylSeg_scale μ S l hl f x r1 r2 h p1 p2 hr2 pol

-- non-vacuity: millimetres vs metres
example (μ : ℝ) (S : SegSpecial) (pol : V3 ℝ) :
    @bhjmCylSeg ℝ (realNumX μ S) .B (@vs ℝ (realNum μ) 1000 ⟨3, 4, 5⟩) (1000 * 1) (1000 * 2) (1000 * 3) 10 80 pol =
      @bhjmCylSeg ℝ (realNumX μ S) .B ⟨3, 4, 5⟩ 1 2 3 10 80 pol :=
  cylseg_scale_invariant_partial μ S 1000 (by norm_num) .B _ 1 2 3 10 80 (by norm_num) pol

/-- the same for `BHJM_cylinder_segment_internal` (what the CylinderSegment class calls), through the switch to
Cylinder(2·r2, h) − Cylinder(2·r1, h) for ranges of 360° or more -/
theorem cylseg_internal_scale_invariant_partial (μ : ℝ) (S : SegSpecial) (l : ℝ) (hl : 0 < l) (fuel : Nat) (f : Field)
    (x : V3 ℝ) (r1 r2 h p1 p2 : ℝ) (hr2 : r2 ≠ 0) (pol : V3 ℝ) :
    @bhjmCylSegInternal ℝ (realNumX μ S) fuel f (@vs ℝ (realNum μ) l x) (l * r1) (l * r2) (l * h) p1 p2 pol =
      @bhjmCylSegInternal ℝ (realNumX μ S) fuel f x r1 r2 h p1 p2 pol :=
  bhjmCylSegInternal_scale μ S l hl fuel f x r1 r2 h p1 p2 hr2 pol

/-- the normalised row (observer / r2, radii / r2, ±h / (2 r2), angles in rad shifted into [−2π, 2π]) — the only thing the
masks (`segMasks`: inside / on-surface) and `determine_cases` ever see — is the same at every scale -/
theorem cylseg_normalised_row_scale_invariant (μ : ℝ) (S : SegSpecial) (l : ℝ) (hl : 0 < l) (x : V3 ℝ)
    (r1 r2 h p1 p2 : ℝ) (hr2 : r2 ≠ 0) :
    @segNormalise ℝ (realNumX μ S) (@vs ℝ (realNum μ) l x) (l * r1) (l * r2) (l * h) p1 p2 =
      @segNormalise ℝ (realNumX μ S) x r1 r2 h p1 p2 :=
  segNormalise_scale μ S l hl x r1 r2 h p1 p2 hr2

/-- witness that the hypothesis matters / that the core alone is not unit invariant: `close` (rtol = atol = 1e-12), hence
`determine_cases` and `magnet_cylinder_segment_Hfield` called directly with un-normalised lengths, depends on the scale -/
theorem cylseg_close_not_scale_invariant (μ : ℝ) (S : SegSpecial) :
    @close ℝ (realNumX μ S) (2 / 1000000000000) 0 = false ∧
    @close ℝ (realNumX μ S) (1 / 4 * (2 / 1000000000000)) (1 / 4 * 0) = true :=
  close_not_scale_invariant μ S

end MagpyVerif.C12
