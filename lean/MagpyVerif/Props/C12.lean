/-
Props/C12.lean — results are invariant under the choice of length unit (λ > 0 a common factor on
every length): magnets unchanged, currents ÷ λ, dipoles ÷ λ³; proportional to the excitation.
Proved here for the kernels that are plain algebra (Dipole, Sphere incl. its inside/outside
switch, straight current segment incl. its foot-point case split).
/- FULL: all source classes.  Not shown by theorem: Cuboid, Cylinder, CylinderSegment, Circle,
   Triangle family (kernels not ported to the real carrier); there the oracle rescales one
   configuration over 10^-9 … 10^9.  Known finding: TriangularMesh inside/outside and
   orientation tests use absolute tolerances and fail for lengths ≲ 1e-6. -/
-/
import MagpyVerif.Lemmas.KernReal
namespace MagpyVerif.C12
open MagpyVerif MagpyVerif.Kern

theorem norm_scale (l : ℝ) (hl : 0 < l) (x : V3 ℝ) : Kern.norm (vs l x) = l * Kern.norm x := by
  simp only [Kern.norm, vs, sqrt_real]
  have : l * x.x * (l * x.x) + l * x.y * (l * x.y) + l * x.z * (l * x.z) = l ^ 2 * (x.x * x.x + x.y * x.y + x.z * x.z) := by ring
  rw [this, Real.sqrt_mul (by positivity), Real.sqrt_sq hl.le]

section
variable (l : ℝ) (hl : 0 < l)
include hl

/-- Dipole: scaling the observer distance by λ divides H (and B) by λ³ -/
theorem dipole_homogeneous (m x : V3 ℝ) (hx : Kern.norm x ≠ 0) :
    dipoleH m (vs l x) = vs (1 / l ^ 3) (dipoleH m x) := by
  have hn := norm_scale l hl x
  simp only [dipoleH, hn]
  have hl' : l ≠ 0 := hl.ne'
  have hpi : Real.pi ≠ 0 := Real.pi_ne_zero
  apply V3.ext' <;> simp [vs, vd, n, V3.dot] <;> field_simp <;> ring

/-- Sphere: scaling diameter and observer by λ leaves all four fields unchanged, including the
choice between the inside and the outside formula -/
theorem sphere_scale_invariant (f : Field) (d : ℝ) (pol x : V3 ℝ) (hx : Kern.norm x ≠ 0) :
    bhjmSphere f (l * d) pol (vs l x) = bhjmSphere f d pol x := by
  have hn := norm_scale l hl x
  have hl' : l ≠ 0 := hl.ne'
  have habs : |l * d| = l * |d| := by rw [abs_mul, abs_of_pos hl]
  have hiff : (l * |d| / 2 < l * Kern.norm x) ↔ (|d| / 2 < Kern.norm x) := by
    constructor
    · intro h; nlinarith
    · intro h; nlinarith
  cases f <;> simp only [bhjmSphere, hn, lt_real, abs_real, n, ofNat_real, Nat.cast_ofNat, habs, hiff] <;>
    (by_cases hc : |d| / 2 < Kern.norm x <;> simp only [hc, decide_true, decide_false, if_true, if_false, Bool.false_eq_true] <;>
      (apply V3.ext' <;> simp [vs, vd, zero3, n, V3.dot] <;> (try field_simp) <;> (try ring)))

/-- all fields scale proportionally with the excitation: Sphere -/
theorem sphere_linear_in_polarization (f : Field) (c d : ℝ) (pol x : V3 ℝ) :
    bhjmSphere f d (vs c pol) x = vs c (bhjmSphere f d pol x) := by
  cases f <;> simp only [bhjmSphere, lt_real, abs_real, n, ofNat_real, Nat.cast_ofNat] <;>
    (by_cases hc : |d| / 2 < Kern.norm x <;> simp only [hc, decide_true, decide_false, if_true, if_false, Bool.false_eq_true] <;>
      (apply V3.ext' <;> simp [vs, vd, zero3, n, V3.dot] <;> (try field_simp) <;> (try ring)))

theorem vs_sub (a b : V3 ℝ) : vs l a - vs l b = vs l (a - b) := by
  apply V3.ext' <;> simp [vs] <;> ring

theorem vd_vs_cancel (p : V3 ℝ) (c : ℝ) : vd (vs l p) (l * c) = vd p c := by
  have hl' : l ≠ 0 := hl.ne'
  apply V3.ext' <;> simp only [vd, vs] <;> exact mul_div_mul_left _ _ hl'

/-- straight current segment: scaling all lengths by λ divides H by λ; every internal branch
decision (which side of the segment the foot point lies on) is taken on dimensionless
quantities and does not change -/
theorem segment_homogeneous (cur : ℝ) (p1 p2 po : V3 ℝ) :
    segmentH cur (vs l p1) (vs l p2) (vs l po) = vs (1 / l) (segmentH cur p1 p2 po) := by
  have hl' : l ≠ 0 := hl.ne'
  simp only [segmentH, vs_sub l hl, norm_scale l hl, vd_vs_cancel l hl]
  generalize segmentCore (vd p1 (Kern.norm (p1 - p2))) (vd p2 (Kern.norm (p1 - p2))) (vd po (Kern.norm (p1 - p2))) = c
  have hpi : Real.pi ≠ 0 := Real.pi_ne_zero
  apply V3.ext' <;> simp [vs, vd, n] <;> ring
end
end MagpyVerif.C12
