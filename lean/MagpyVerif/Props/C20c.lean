/-
Props/C20c.lean — C20, the STATE MACHINE part: histories of updates, attribute assignments and resets on
`magpylib.defaults` and on the styles of n objects (Model/StyleState.lean, executed by the driver family `sstate`
on the class structure, validators and DEFAULTS tree regenerated from the source, Gen/StyleSchema.lean).

  * `reset_restores`           after ANY history, `defaults.reset()` succeeds and yields exactly the initial defaults tree
  * `initial_defaults_are_DEFAULTS`  that tree has at every leaf of `DEFAULTS` what the leaf's setter makes of the hard
                               coded value, and the constructor default / None at every other leaf
  * `setattr_unknown_name_rejected(_at)` every name that is neither a property nor another public attribute of the class:
                               AttributeError, world unchanged (for all names, all objects, all sub-objects, all states)
  * `method_names_rejected`    every callable attribute name (methods, dunder methods) is rejected (repo fix 3fc7703);
                               `private_slots_not_rejected`: witness that the regenerated list `others` is needed
  * `update_unknown_name_rejected` the same through `update(name=v)` on a stable state
  * `rejected_setattr_keeps_world`  a rejected attribute assignment changes nothing, whatever was rejected
  * `rejected_update_applies_earlier_keys`  witness: a rejected `update` is NOT atomic in the code
  * `styles_independent`, `objects_independent_of_history`, `style_object_assignment_ignored`
-/
import MagpyVerif.Lemmas.StyleState
import MagpyVerif.Gen.StyleSchema

namespace MagpyVerif.C20c
open MagpyVerif.StyleNested MagpyVerif.StyleState MagpyVerif.Gen.StyleSchema

/-- the world a history starts from: `magpylib.defaults` after import and one new object per listed style class -/
def init (cls : List Nat) : World := initWorld tables classes defaults cls

/-- properties / other attributes of `DefaultSettings` -/
def props0 : List (Key × Schema) := [(dk, .obj cDisplay.props cDisplay.others none cDisplay.ctor cDisplay.varkw)]
def others0 : List Str := cDefaultSettings.others

theorem props0_eq : cDefaultSettings.props = props0 := rfl

theorem classes_zero : ∃ bases, classes[0]? = some ⟨"DefaultSettings".toList, bases, cDefaultSettings⟩ := ⟨_, rfl⟩

/-- the top-level shape of the defaults object of a world -/
def Inv0 (w : World) : Prop := ∃ x, w[0]? = some ⟨0, [(dk, x)]⟩

def shapeOk : Except Kind Dict → Bool
  | .ok [(k, _)] => k == dk
  | _ => false

theorem shapeOk_elim {r : Except Kind Dict} (h : shapeOk r = true) : ∃ x, r = .ok [(dk, x)] := by
  unfold shapeOk at h
  split at h
  · rename_i k x
    simp only [beq_iff_eq] at h
    exact ⟨x, by rw [h]⟩
  · cases h

def isOkD : Except Kind Dict → Bool
  | .ok _ => true
  | .error _ => false

/-- computed on the regenerated classes: `DefaultSettings.__init__` succeeds with the one property `display` -/
theorem newTree_defaults_shape : shapeOk (construct tables props0 cDefaultSettings.ctor cDefaultSettings.varkw []) = true := by
  decide +kernel

/-- computed: `Display()` succeeds -/
theorem display_constructs : isOkD (construct tables cDisplay.props cDisplay.ctor cDisplay.varkw []) = true := by
  decide +kernel

/-- the state `reset` produces (whatever the state before, see `reset_from_any_state`) -/
def resetResult : Dict × Except Kind Unit :=
  resetDefaults tables defaults props0 others0 [(dk, .leaf none)]

/-- computed: the reset at import time succeeds -/
theorem resetResult_ok : isOkU resetResult.2 = true := by
  decide +kernel

/-- `reset` does not read the state it replaces -/
theorem reset_from_any_state (x : Tree) : resetDefaults tables defaults props0 others0 [(dk, x)] = resetResult := by
  have h := display_constructs
  cases hc : construct tables cDisplay.props cDisplay.ctor cDisplay.varkw [] with
  | error e => rw [hc] at h; cases h
  | ok r => exact resetDefaults_indep tables _ _ _ _ _ others0 defaults x (.leaf none) r hc

theorem initDefaults_eq (n : Str) (b : List Str) : initDefaults tables defaults ⟨n, b, cDefaultSettings⟩ = resetResult := by
  obtain ⟨x, hx⟩ := shapeOk_elim newTree_defaults_shape
  have ho : cDefaultSettings.others = others0 := rfl
  simp only [initDefaults, newTree, props0_eq, ho, hx]
  exact reset_from_any_state x

theorem init_zero (cls : List Nat) : (init cls)[0]? = some ⟨0, resetResult.1⟩ := by
  obtain ⟨bases, hb⟩ := classes_zero
  unfold init initWorld
  rw [hb]
  simp only [List.cons_append, List.getElem?_cons_zero]
  rw [initDefaults_eq]

theorem resetResult_shape0 : Shape0 resetResult.1 :=
  resetDefaults_shape0 tables _ _ _ _ _ others0 defaults _ ⟨_, rfl⟩

theorem inv0_init (cls : List Nat) : Inv0 (init cls) := by
  obtain ⟨x, hx⟩ := resetResult_shape0
  exact ⟨x, by rw [init_zero, hx]⟩

/-- an in-place operation on `magpylib.defaults` -/
theorem onObj_zero (f : List (Key × Schema) → List Str → Dict → Dict × Except Kind Unit) (w : World) (x : Tree)
    (hx : w[0]? = some ⟨0, [(dk, x)]⟩) :
    onObj classes w 0 f = (setTree w 0 (f props0 others0 [(dk, x)]).1, .ofExcept (f props0 others0 [(dk, x)]).2) := by
  obtain ⟨bases, hb⟩ := classes_zero
  unfold onObj
  rw [hx]
  simp only [hb]
  rfl

/-- an in-place operation on `magpylib.defaults` that keeps the top-level shape keeps the invariant -/
theorem onObj_inv0 (f : List (Key × Schema) → List Str → Dict → Dict × Except Kind Unit)
    (hf : ∀ cur, Shape0 cur → Shape0 (f props0 others0 cur).1) (w : World) (h : Inv0 w) : Inv0 (onObj classes w 0 f).1 := by
  obtain ⟨x, hx⟩ := h
  rw [onObj_zero f w x hx]
  obtain ⟨y, hy⟩ := hf [(dk, x)] ⟨x, rfl⟩
  refine ⟨y, ?_⟩
  simp only []
  rw [setTree_getElem?_self w 0 _ _ hx, hy]

theorem inv0_step (w : World) (op : Op) (h : Inv0 w) : Inv0 (step tables classes defaults w op).1 := by
  by_cases ht : op.target = 0
  · cases op with
    | update i path arg kwargs mt rno =>
      have hi : i = 0 := ht
      subst hi
      exact onObj_inv0 _ (fun cur hc => atPath_shape0 _ _ _ _ _ others0 _ path
        (fun _ c hc' => updateObj_shape0 tables _ _ _ _ _ others0 c hc' arg kwargs mt rno) cur hc) w h
    | setattr i path name val =>
      have hi : i = 0 := ht
      subst hi
      refine onObj_inv0 _ (fun cur hc => atPath_shape0 _ _ _ _ _ others0 _ path (fun _ c hc' => ?_) cur hc) w h
      obtain ⟨x, rfl⟩ := hc'
      cases hs : setAttr tables [(dk, Schema.obj cDisplay.props cDisplay.others none cDisplay.ctor cDisplay.varkw)] others0 [(dk, x)] name val with
      | ok c' =>
        have := setAttr_shape0 tables _ _ _ _ _ others0 x name val c' hs
        simp only [hs]
        exact this
      | error e =>
        simp only [hs]
        exact ⟨x, rfl⟩
    | reset => exact onObj_inv0 _ (fun cur hc => resetDefaults_shape0 tables _ _ _ _ _ others0 defaults cur hc) w h
    | resetStyle => exact onObj_inv0 _ (fun cur hc => resetStyle_shape0 tables _ _ _ _ _ others0 defaults cur hc) w h
    | setStyle i val =>
      have hi : i = 0 := ht
      subst hi
      simpa [step] using h
    | setStyleObj i j =>
      have hi : i = 0 := ht
      subst hi
      simpa [step] using h
    | read i path =>
      obtain ⟨x, hx⟩ := h
      refine ⟨x, ?_⟩
      rw [← hx]
      simp only [step]
      split
      · rfl
      · split
        · rfl
        · split <;> rfl
  · obtain ⟨x, hx⟩ := h
    exact ⟨x, by rw [step_frame tables classes defaults w op 0 (fun e => ht e.symm), hx]⟩

theorem inv0_exec : ∀ (ops : List Op) (w : World), Inv0 w → Inv0 (exec tables classes defaults w ops) := by
  intro ops
  induction ops with
  | nil => intro w h; exact h
  | cons op t ih => intro w h; rw [exec_cons]; exact ih _ (inv0_step w op h)

/-- **C20: `defaults.reset()` restores every default, after any sequence of updates, assignments and resets.**
For every number and kind of objects and EVERY history `ops` (updates in any notation on any sub-object with any flags,
attribute assignments, accepted or rejected, resets of the whole or of the styles, style assignments, reads):
`magpylib.defaults.reset()` then succeeds, the defaults tree is exactly the tree at import time, and no object's own
style is touched.  (Assignments to private slots — outcome `shadow` — are outside the model, see `private_slots_not_rejected`.) -/
theorem reset_restores (cls : List Nat) (ops : List Op) :
    let w := exec tables classes defaults (init cls) ops
    (match (step tables classes defaults w .reset).2 with | .ok => True | _ => False) ∧
    (step tables classes defaults w .reset).1[0]? = (init cls)[0]? ∧
    ∀ j, j ≠ 0 → (step tables classes defaults w .reset).1[j]? = w[j]? := by
  intro w
  obtain ⟨x, hx⟩ := inv0_exec ops (init cls) (inv0_init cls)
  have hstep : step tables classes defaults w .reset = (setTree w 0 resetResult.1, .ofExcept resetResult.2) := by
    show onObj classes w 0 (resetDefaults tables defaults) = _
    rw [onObj_zero _ w x hx, reset_from_any_state]
  refine ⟨?_, ?_, fun j hj => step_frame tables classes defaults w .reset j hj⟩
  · rw [hstep]
    have := resetResult_ok
    cases hr : resetResult.2 with
    | ok u => simp [Out.ofExcept]
    | error e => rw [hr] at this; cases this
  · rw [hstep, init_zero]
    exact setTree_getElem?_self w 0 _ _ hx

/-- non-vacuity: a history with an accepted update, a rejected one, a partial style reset and an assignment, then reset -/
example :
    let ops : List Op := [.update 0 [] none [(.str "display_autosizefactor".toList, .leaf (some 4))] true false,
      .update 0 [dk] none [(.str "backend".toList, .leaf (some 41))] true false, .resetStyle,
      .setattr 0 [dk, .str "style".toList, .str "base".toList] (.str "opacity".toList) (.leaf (some 21))]
    beqKids ((exec tables classes defaults (init [1]) ops)[0]?.map (·.tree) |>.getD []) resetResult.1 = false ∧
    beqKids (((step tables classes defaults (exec tables classes defaults (init [1]) ops) .reset).1)[0]?.map (·.tree) |>.getD [])
      resetResult.1 = true := by
  decide +kernel

/-- value of a DEFAULTS leaf after its setter: every leaf of `DEFAULTS` is in the reset tree as a leaf -/
def leafPaths : Tree → List (List Key × Option Val)
  | .leaf v => [([], v)]
  | .node kids => go kids
where go : List (Key × Tree) → List (List Key × Option Val)
  | [] => []
  | (k, t) :: r => (leafPaths t).map (fun pv => (k :: pv.1, pv.2)) ++ go r

/-- **"restores every default", leaf by leaf (computed over the regenerated DEFAULTS and classes).**  At every one of the
(more than 100) leaves of `DEFAULTS` the tree after `reset()` holds exactly what that leaf's own setter stores for the
hard coded value (e.g. the lower-cased colour string), and the setter accepts it. -/
theorem initial_defaults_are_DEFAULTS :
    (leafPaths defaults).length ≥ 100 ∧
    (leafPaths defaults).all (fun pv =>
      match leafVid props0 pv.1, getPath (.node resetResult.1) pv.1 with
      | some vid, some (.leaf got) =>
        (match runV tables vid (.leaf pv.2) with
          | .ok stored => stored == got
          | .error _ => false)
      | _, _ => false) = true := by
  decide +kernel

/-! ### invalid names -/

/-- **C20: every name outside the schema is rejected** (attribute assignment on the object itself).  For every world,
every object `i` (the defaults or an object's style), EVERY name `n` — with or without underscores — that is not a
property of the object's class and not in the class's regenerated list `others` of non-property names the code still
lets through (the private slots `_color`, …, `__doc__`, `__module__`, `__dict__`, the frozen flag; no method, no public
name), and every value: AttributeError, and the world is exactly as before.  (Before repo fix 3fc7703 every existing
attribute, methods included, was accepted; the model then had a blanket exception for underscored names.) -/
theorem setattr_unknown_name_rejected (T : Tables) (Cs : List ClassInfo) (D : Tree) (w : World) (i : Nat) (o : Obj) (c : ClassInfo)
    (n : Str) (val : Tree) (hw : w[i]? = some o) (hc : Cs[o.cls]? = some c)
    (hn : lookup (.str n) c.schema.props = none) (ho : c.schema.others.contains n = false) :
    step T Cs D w (.setattr i [] (.str n) val) = (w, .err .attribute) := by
  simp only [step, onObj, hw, hc, atPath_nil, setAttr, hn, ho, Bool.false_eq_true, if_false]
  rw [setTree_same w i o hw]
  rfl

/-- the same for a sub-object at any depth (`defaults.display.style.magnet.magnetisation = …`) -/
theorem setattr_unknown_name_rejected_at (T : Tables) (Cs : List ClassInfo) (D : Tree) (w : World) (i : Nat) (o : Obj) (c : ClassInfo)
    (path : List Key) (ps : List (Key × Schema)) (os : List Str) (sub : Dict)
    (n : Str) (val : Tree) (hw : w[i]? = some o) (hc : Cs[o.cls]? = some c)
    (hs : subObj c.schema.props c.schema.others o.tree path = some (ps, os, sub))
    (hn : lookup (.str n) ps = none) (ho : os.contains n = false) :
    step T Cs D w (.setattr i path (.str n) val) = (w, .err .attribute) := by
  simp only [step, onObj, hw, hc]
  rw [atPath_of_subObj_error _ .attribute path _ _ _ ps os sub hs
    (by simp only [setAttr, hn, ho, Bool.false_eq_true, if_false])]
  simp only []
  rw [setTree_same w i o hw]
  rfl

/-- non-vacuity on the regenerated classes: `magpylib.defaults.display.style.magnet.magnetisation = 1` (a misspelt
property, three levels down) and an unknown underscored name `defaults.display._zzz = 1` -/
example : (match (step tables classes defaults (init []) (.setattr 0 [dk, .str "style".toList, .str "magnet".toList]
    (.str "magnetisation".toList) (.leaf (some 8)))).2 with | .err .attribute => true | _ => false) = true ∧
    (match (step tables classes defaults (init []) (.setattr 0 [dk] (.str "_zzz".toList) (.leaf (some 8)))).2 with
      | .err .attribute => true | _ => false) = true := by
  decide +kernel

/-- what the regenerated classes must satisfy for the two corollaries below: no callable attribute name of any property
class (`methodNames`: `copy`, `update`, `as_dict`, `reset`, `add_trace`, `_freeze`, `__init__`, `__class__`, …) is a
property or assignable in any class, and every assignable non-property name contains an underscore -/
def nodeOk (x : List (Key × Schema) × List Str) : Bool :=
  methodNames.all (fun m => (lookup (.str m) x.1).isNone && !x.2.contains m) && x.2.all (fun n => n.contains '_')

/-- computed over every property class nested in every class of the table (37 classes) -/
theorem all_nodes_ok :
    classes.all (fun c => ((c.schema.props, c.schema.others) :: nodesL c.schema.props).all nodeOk) = true ∧
    methodNames.length ≥ 30 := by
  decide +kernel

theorem nodeOk_of_subObj (o : Obj) (c : ClassInfo) (hc : classes[o.cls]? = some c) (path : List Key) (ps : List (Key × Schema))
    (os : List Str) (sub : Dict) (hs : subObj c.schema.props c.schema.others o.tree path = some (ps, os, sub)) :
    nodeOk (ps, os) = true := by
  have hmem : c ∈ classes := List.mem_of_getElem? hc
  have h1 := List.all_eq_true.mp all_nodes_ok.1 c hmem
  exact List.all_eq_true.mp h1 (ps, os) (subObj_mem_nodes path _ _ _ ps os sub hs)

/-- **C20: every method name is rejected** (true since repo fix 3fc7703; before it `defaults.copy = 1` replaced the
method on the instance, the former witness `method_names_not_rejected`).  For every reachable or unreachable world over
the regenerated classes, every object, every sub-object at any depth, every callable attribute name `m` of any property
class (public methods, private methods, dunder methods) and every value: `X.m = val` raises AttributeError and changes
nothing. -/
theorem method_names_rejected (w : World) (i : Nat) (o : Obj) (c : ClassInfo) (path : List Key) (ps : List (Key × Schema))
    (os : List Str) (sub : Dict) (m : Str) (val : Tree) (hw : w[i]? = some o) (hc : classes[o.cls]? = some c)
    (hs : subObj c.schema.props c.schema.others o.tree path = some (ps, os, sub)) (hm : m ∈ methodNames) :
    step tables classes defaults w (.setattr i path (.str m) val) = (w, .err .attribute) := by
  have hok := nodeOk_of_subObj o c hc path ps os sub hs
  simp only [nodeOk, Bool.and_eq_true, List.all_eq_true, Bool.not_eq_true', Option.isNone_iff_eq_none] at hok
  obtain ⟨h1, h2⟩ := hok.1 m hm
  exact setattr_unknown_name_rejected_at tables classes defaults w i o c path ps os sub m val hw hc hs h1 h2

/-- non-vacuity: `magpylib.defaults.copy = 1`, `defaults.display.style.reset = None` and `obj.style.update(update=1)` are
rejected with AttributeError on the regenerated classes (the first was accepted before 3fc7703) -/
example :
    (match (step tables classes defaults (init []) (.setattr 0 [] (.str "copy".toList) (.leaf (some 8)))).2 with
      | .err .attribute => true | _ => false) = true ∧
    (match (step tables classes defaults (init []) (.setattr 0 [dk, .str "style".toList] (.str "reset".toList) (.leaf none))).2 with
      | .err .attribute => true | _ => false) = true ∧
    (match (step tables classes defaults (init [1]) (.update 1 [] none [(.str "update".toList, .leaf (some 8))] true false)).2 with
      | .err .attribute => true | _ => false) = true ∧
    "copy".toList ∈ methodNames ∧ "__class__".toList ∈ methodNames := by
  decide +kernel

/-- the names the code still lets through are not rejected (witness that `others` cannot be dropped): assigning the
private slot `defaults.display._backend = 1` bypasses the validator; the model reports `shadow` and makes no claim -/
theorem private_slots_not_rejected :
    (match (step tables classes defaults (init []) (.setattr 0 [dk] (.str "_backend".toList) (.leaf (some 8)))).2 with
      | .err .shadow => true | _ => false) = true := by
  decide +kernel

/-- **C20: invalid names are rejected through `update` as well.**  `obj.update(n=v)` for a name `n` (no underscore in it,
so the magic notation leaves it alone) that is neither a property nor in `others`, on an object in a stable
state (`obj.update()` changes nothing) whose `as_dict()` has no such key: AttributeError and the object is unchanged. -/
theorem update_unknown_name_rejected (T : Tables) (props : List (Key × Schema)) (others : List Str) (cur : Dict)
    (n : Str) (v : Option Val) (rno : Bool) (hst : Stable T props others cur) (hk : lookup (.str n) cur = none)
    (hn : lookup (.str n) props = none) (ho : others.contains n = false) (hsep : '_' ∉ n) :
    updateObj T props others cur none [(.str n, .leaf v)] true rno = (cur, .error .attribute) := by
  have hm := magicToDict_single '_' v n [] (by simpa using hsep)
  simp only [joinWith, List.map_cons, List.map_nil, pathTree] at hm
  simp only [updateObj, mergeDict, List.foldl_cons, List.foldl_nil, setKey, hm, Bool.not_true, updateNested, updDict,
    updLoop_single, hk, updVal, Option.isSome_none, isNoneOrMissing, Bool.true_or, if_true, Bool.not_false, Bool.or_true]
  rw [setKey_of_lookup_none hk, setAllS_append, hst]
  simp only [setAllS_cons, setAttr, hn, ho, Bool.false_eq_true, if_false]

/-- … and on the regenerated classes the list `others` needs no mention: every assignable non-property name contains an
underscore, so through `update` EVERY keyword without underscore that is not a property — every public method name
among them — is rejected, for every class at any depth. -/
theorem update_rejects_every_non_property_name (o : Obj) (c : ClassInfo) (hc : classes[o.cls]? = some c) (path : List Key)
    (ps : List (Key × Schema)) (os : List Str) (sub : Dict)
    (hs : subObj c.schema.props c.schema.others o.tree path = some (ps, os, sub))
    (n : Str) (v : Option Val) (rno : Bool) (hst : Stable tables ps os sub) (hk : lookup (.str n) sub = none)
    (hn : lookup (.str n) ps = none) (hsep : '_' ∉ n) :
    updateObj tables ps os sub none [(.str n, .leaf v)] true rno = (sub, .error .attribute) := by
  have hok := nodeOk_of_subObj o c hc path ps os sub hs
  simp only [nodeOk, Bool.and_eq_true, List.all_eq_true] at hok
  have ho : os.contains n = false := by
    cases hcn : os.contains n with
    | false => rfl
    | true =>
      exfalso
      have hmem : n ∈ os := List.contains_iff_mem.mp hcn
      exact hsep (List.contains_iff_mem.mp (hok.2 n hmem))
  exact update_unknown_name_rejected tables ps os sub n v rno hst hk hn ho hsep

/-- computed: the state at import time is stable, for the defaults and for a new style object of every class -/
theorem initial_states_stable :
    stableB tables props0 others0 resetResult.1 = true ∧
    classes.all (fun c => match newTree tables c with
      | .ok t => stableB tables c.schema.props c.schema.others t
      | .error _ => false) = true := by
  decide +kernel

/-- non-vacuity of `update_unknown_name_rejected`: `magpylib.defaults.update(colour=…)` at import time -/
example : updateObj tables props0 others0 resetResult.1 none [(.str "colour".toList, .leaf (some 8))] true false =
    (resetResult.1, .error .attribute) :=
  update_unknown_name_rejected tables props0 others0 resetResult.1 "colour".toList (some 8) false
    (stable_of_stableB _ _ _ _ initial_states_stable.1) (by decide +kernel) (by decide +kernel) (by decide +kernel) (by decide)

/-! ### rejected operations and the state -/

/-- **a rejected attribute assignment leaves the world unchanged** — whatever is rejected (unknown name, invalid value,
unknown keys inside an assigned dict, a path that cannot be followed), at any depth, in any state. -/
theorem rejected_setattr_keeps_world (T : Tables) (Cs : List ClassInfo) (D : Tree) (w : World) (i : Nat) (path : List Key) (name : Key)
    (val : Tree) (e : Kind) (h : (step T Cs D w (.setattr i path name val)).2 = .err e) :
    (step T Cs D w (.setattr i path name val)).1 = w := by
  simp only [step, onObj] at h ⊢
  cases hw : w[i]? with
  | none => rfl
  | some o =>
    rw [hw] at h
    simp only [] at h ⊢
    cases hc : Cs[o.cls]? with
    | none => rfl
    | some c =>
      rw [hc] at h
      simp only [] at h ⊢
      generalize hf : (fun ps' os' c => match setAttr T ps' os' c name val with
        | .ok c' => (c', Except.ok ())
        | .error e => (c, Except.error e)) = f at h ⊢
      have hfp : ∀ ps os c e, (f ps os c).2 = .error e → (f ps os c).1 = c := by
        intro ps os c e he
        subst hf
        simp only [] at he ⊢
        cases hs : setAttr T ps os c name val with
        | ok c' => rw [hs] at he; cases he
        | error e' => rfl
      cases hr : (atPath f c.schema.props c.schema.others o.tree path).2 with
      | ok u => rw [hr] at h; cases h
      | error e' =>
        rw [atPath_error_unchanged f hfp path _ _ _ e' hr]
        exact setTree_same w i o hw

/-- **a rejected `update` is NOT atomic (witness; the code's loop `for k, v in new_dict.items(): setattr(self, k, v)`
stops at the first exception).**  `magpylib.defaults.display.update(autosizefactor=5, backend="bogus")` raises
AssertionError and leaves `autosizefactor == 5`; with an unknown name instead of the invalid value
(`update(autosizefactor=5, bogus=1)`) AttributeError, and again `autosizefactor == 5`. -/
theorem rejected_update_applies_earlier_keys :
    let asf := [dk, .str "autosizefactor".toList]
    let w := init []
    let r1 := step tables classes defaults w (.update 0 [dk] none [(.str "autosizefactor".toList, .leaf (some 4)), (.str "backend".toList, .leaf (some 41))] true false)
    let r2 := step tables classes defaults w (.update 0 [dk] none [(.str "autosizefactor".toList, .leaf (some 4)), (.str "bogus".toList, .leaf (some 8))] true false)
    let get := fun (w : World) => (w[0]?.map fun o => getPath (.node o.tree) asf).join
    (match r1.2 with | .err .assertion => true | _ => false) = true ∧
    (match r2.2 with | .err .attribute => true | _ => false) = true ∧
    (match get w, get r1.1, get r2.1 with
      | some (.leaf (some 0)), some (.leaf (some 4)), some (.leaf (some 4)) => true
      | _, _, _ => false) = true := by
  decide +kernel

/-! ### reads after writes -/

/- FULL: for every history, the value read at a leaf path is what the setter stored for the last ACCEPTED write that
   covers the path (an assignment or an update key at that path, a dict assigned above it, a reset), else the initial
   value — a refinement of the whole machine to a map `Path → Value`.
   Proved here: the single-step core (an accepted assignment at any depth is read back as the value the leaf's setter
   stores; a rejected one changes nothing: `rejected_setattr_keeps_world`; a reset gives the initial tree whatever came
   before: `reset_restores`; operations on other objects do not interfere: `objects_independent_of_history`).
   Missing: the frame condition for the OTHER leaves of the same object under `update` (it re-assigns every property,
   which is the identity only on stable states: `initial_states_stable` shows stability at import time, its
   preservation by every operation is observed by the `sstate` stream, not proved). -/
/-- **last accepted write is read back (any depth).**  If `path` leads to a sub-object that has the plain property `k`
and the property's setter accepts `val` storing `v'`, then `X.k = val` succeeds and reading `X.k` afterwards gives `v'`. -/
theorem leaf_write_read_back_partial (T : Tables) (k : Key) (val : Tree) (vid : Nat) (v' : Option Val) (hv : runV T vid val = .ok v') :
    ∀ (path : List Key) (ps : List (Key × Schema)) (os : List Str) (c : Dict) (ps' : List (Key × Schema)) (os' : List Str) (c' : Dict),
      subObj ps os c path = some (ps', os', c') → lookup k ps' = some (.leaf vid) →
      (atPath (assignOp T k val) ps os c path).2 = .ok () ∧
      readPath ps (atPath (assignOp T k val) ps os c path).1 (path ++ [k]) = .ok (.leaf v') := by
  intro path
  induction path with
  | nil =>
    intro ps os c ps' os' c' h hk
    simp only [subObj, Option.some.injEq, Prod.mk.injEq] at h
    obtain ⟨rfl, rfl, rfl⟩ := h
    have hs : setAttr T ps os c k val = .ok (setKey k (.leaf v') c) := by
      simp only [setAttr, hk]
      rw [setProp]
      simp only [hv]
    simp only [atPath_nil, assignOp, hs, List.nil_append, readPath, hk, lookup_setKey_self, and_self]
  | cons k0 ks ih =>
    intro ps os c ps' os' c' h hk
    unfold subObj at h
    split at h
    · rename_i ps1 os1 _ _ _ sub hp hc
      obtain ⟨h1, h2⟩ := ih ps1 os1 sub ps' os' c' h hk
      unfold atPath
      simp only [hp, hc]
      refine ⟨h1, ?_⟩
      simp only [List.cons_append, readPath, hp, lookup_setKey_self]
      exact h2
    · cases h

/-- non-vacuity on the regenerated classes: `magpylib.defaults.display.style.base.path.line.width = 2` is read back -/
example : (match (step tables classes defaults
      (step tables classes defaults (init []) (.setattr 0 [dk, .str "style".toList, .str "base".toList, .str "path".toList, .str "line".toList]
        (.str "width".toList) (.leaf (some 15)))).1
      (.read 0 [dk, .str "style".toList, .str "base".toList, .str "path".toList, .str "line".toList, .str "width".toList])).2 with
    | .val (.leaf (some 15)) => true | _ => false) = true := by
  decide +kernel

/-! ### independence of objects -/

/-- **C20: styles of different objects are independent.**  An operation on object `i` (an update in any notation, an
assignment, `obj.style = …`) changes neither the defaults nor the own style of any other object `j` — hence nothing that
is computed from them, in particular `get_style(obj_j)` (any function `F` of the defaults tree and of `obj_j`'s own
tree; `Model/StyleNested.resolveNested` is one). -/
theorem styles_independent (T : Tables) (Cs : List ClassInfo) (D : Tree) (w : World) (op : Op) (j : Nat) {β : Type}
    (F : Option Obj → Option Obj → β) (hj : j ≠ op.target) (h0 : op.target ≠ 0) :
    let w' := (step T Cs D w op).1
    w'[j]? = w[j]? ∧ w'[0]? = w[0]? ∧ F w'[0]? w'[j]? = F w[0]? w[j]? := by
  have h1 := step_frame T Cs D w op j hj
  have h2 := step_frame T Cs D w op 0 (fun e => h0 e.symm)
  exact ⟨h1, h2, by rw [h1, h2]⟩

/-- … for any history: whatever is done to the other objects and to the defaults, object `j`'s own style stays what
it was (and operations on the objects never change the defaults). -/
theorem objects_independent_of_history (T : Tables) (Cs : List ClassInfo) (D : Tree) (w : World) (ops : List Op) (j : Nat)
    (h : ∀ op ∈ ops, op.target ≠ j) : (exec T Cs D w ops)[j]? = w[j]? :=
  exec_frame T Cs D ops w j h

/-- `obj_i.style = obj_j.style` does not make the two objects share a style: the setter (`BaseGeo._validate_style`)
checks the class of the value and then IGNORES it — the world is unchanged whatever the outcome. -/
theorem style_object_assignment_ignored (T : Tables) (Cs : List ClassInfo) (D : Tree) (w : World) (i j : Nat) :
    (step T Cs D w (.setStyleObj i j)).1 = w := by
  simp only [step]
  split
  · rfl
  · split
    · split
      · split <;> rfl
      · rfl
    · rfl

/-- non-vacuity: two Cuboid-class styles and a Sensor-class style; an update of the first changes it and leaves the others -/
example :
    let w := init [1, 1, 2]
    let w' := (step tables classes defaults w (.update 1 [] none [(.str "path_line_width".toList, .leaf (some 15))] true false)).1
    (match w'[1]?, w[1]? with | some a, some b => !beqKids a.tree b.tree | _, _ => false) = true ∧
    (match w'[2]?, w[2]? with | some a, some b => beqKids a.tree b.tree | _, _ => false) = true := by
  decide +kernel

/-! ### history level: what is read from `magpylib.defaults` is the last accepted write, else the default -/

/- FULL: the same for histories that also contain `update` (any notation), assignments of dicts / None to sub-objects and
   `display.style.reset()` on the defaults, and for the objects' own styles.  Those operations re-build sub-objects from
   their dictionaries; that this changes no other leaf needs `construct` to be idempotent on every reached state
   (stability preserved by every operation), which is proved for the states at import time only and observed by the
   `sstate` stream (375 reached states per quick run).  Proved here: histories in which `magpylib.defaults` itself is
   changed by assignments to plain properties at any depth (accepted or rejected), `reset()` and reads — with ARBITRARY
   operations on the objects in between. -/

/-- the operations on `magpylib.defaults` covered (anything goes on the other objects) -/
def Simple0 : Op → Prop
  | .setattr i p k _ => i ≠ 0 ∨ (leafVid props0 (p ++ [k])).isSome
  | .update i _ _ _ _ _ => i ≠ 0
  | .resetStyle => False
  | _ => True

def outOk : Out → Bool
  | .ok => true
  | _ => false

/-- what a history has done to one leaf: nothing yet / stored `v` / put back to the default -/
inductive Eff where
  | keep
  | set (v : Option Val)
  | init

/-- the specification, one operation with its outcome at a time (no tree in sight): an ACCEPTED assignment to exactly
the path `q` stores what the setter makes of the value, a reset puts the default back, everything else — rejected
assignments, assignments elsewhere, operations on other objects, reads — keeps what was there -/
def effStep (q : List Key) (vid : Nat) (e : Eff) (x : Op × Bool) : Eff :=
  match x.1 with
  | .setattr i p k val =>
    if i = 0 ∧ p ++ [k] = q ∧ x.2 = true then
      (match runV tables vid val with | .ok v => .set v | .error _ => e)
    else e
  | .reset => .init
  | _ => e

/-- a history with the outcome (accepted or not) of every operation -/
def annot : World → List Op → List (Op × Bool)
  | _, [] => []
  | w, op :: t => (op, outOk (step tables classes defaults w op).2) :: annot (step tables classes defaults w op).1 t

def Eff.val (q : List Key) (base : Except Kind Tree) : Eff → Except Kind Tree
  | .keep => base
  | .set v => .ok (.leaf v)
  | .init => readPath props0 resetResult.1 q

/-- `magpylib.defaults.<q>` -/
def read0 (w : World) (q : List Key) : Except Kind Tree :=
  match w[0]? with
  | some o => readPath props0 o.tree q
  | none => .error .other

theorem effStep_val (q : List Key) (vid : Nat) (e : Eff) (x : Op × Bool) (b : Except Kind Tree) :
    (effStep q vid e x).val q b = (effStep q vid .keep x).val q (e.val q b) := by
  unfold effStep
  split
  · split
    · split <;> rfl
    · rfl
  · rfl
  · rfl

theorem foldl_val (q : List Key) (vid : Nat) : ∀ (l : List (Op × Bool)) (e : Eff) (b : Except Kind Tree),
    (l.foldl (effStep q vid) e).val q b = (l.foldl (effStep q vid) .keep).val q (e.val q b) := by
  intro l
  induction l with
  | nil => intro e b; rfl
  | cons x t ih =>
    intro e b
    simp only [List.foldl_cons]
    rw [ih (effStep q vid e x) b, ih (effStep q vid .keep x) (e.val q b), effStep_val]

theorem step_read_world (w : World) (i : Nat) (p : List Key) : (step tables classes defaults w (.read i p)).1 = w := by
  simp only [step]
  split
  · rfl
  · split
    · rfl
    · split <;> rfl

theorem step_reset_inv0 (w : World) (x : Tree) (hx : w[0]? = some ⟨0, [(dk, x)]⟩) :
    step tables classes defaults w .reset = (setTree w 0 resetResult.1, .ofExcept resetResult.2) := by
  show onObj classes w 0 (resetDefaults tables defaults) = _
  rw [onObj_zero _ w x hx, reset_from_any_state]

theorem read0_of_eq {w w' : World} (h : w'[0]? = w[0]?) (q : List Key) : read0 w' q = read0 w q := by
  unfold read0; rw [h]

/-- one operation: the read afterwards is the read before, transformed by the operation's specified effect -/
theorem read0_step (w : World) (h : Inv0 w) (op : Op) (hs : Simple0 op) (q : List Key) (vid : Nat)
    (hq : leafVid props0 q = some vid) :
    read0 (step tables classes defaults w op).1 q =
      (effStep q vid .keep (op, outOk (step tables classes defaults w op).2)).val q (read0 w q) := by
  obtain ⟨x, hx⟩ := h
  cases op with
  | update i path arg kwargs mt rno =>
    have hi : i ≠ 0 := hs
    exact read0_of_eq (step_frame tables classes defaults w (.update i path arg kwargs mt rno) 0 (fun e => hi e.symm)) q
  | setattr i p k val =>
    by_cases hi : i = 0
    · subst hi
      have hvid : ∃ vid', leafVid props0 (p ++ [k]) = some vid' := by
        rcases hs with h0 | h1
        · exact absurd rfl h0
        · exact Option.isSome_iff_exists.mp h1
      obtain ⟨vid', hvid'⟩ := hvid
      have hstep : step tables classes defaults w (.setattr 0 p k val) =
          (setTree w 0 (atPath (assignOp tables k val) props0 others0 [(dk, x)] p).1,
           .ofExcept (atPath (assignOp tables k val) props0 others0 [(dk, x)] p).2) :=
        onObj_zero (fun ps os cur => atPath (assignOp tables k val) ps os cur p) w x hx
      rw [hstep]
      simp only []
      have hread : ∀ t, read0 (setTree w 0 t) q = readPath props0 t q := by
        intro t; unfold read0; rw [setTree_getElem?_self w 0 t _ hx]
      have hbase : read0 w q = readPath props0 [(dk, x)] q := by unfold read0; rw [hx]
      rw [hread, hbase]
      cases hr : (atPath (assignOp tables k val) props0 others0 [(dk, x)] p).2 with
      | error e =>
        have hfp : ∀ ps os c e, (assignOp tables k val ps os c).2 = .error e → (assignOp tables k val ps os c).1 = c := by
          intro ps os c e he
          unfold assignOp at he ⊢
          cases hsa : setAttr tables ps os c k val with
          | ok c' => rw [hsa] at he; cases he
          | error e' => rfl
        rw [atPath_error_unchanged _ hfp p _ _ _ e hr]
        simp [effStep, Out.ofExcept, outOk, Eff.val]
      | ok u =>
        obtain ⟨ps', os', c', v', hsub, hk, hv⟩ := assign_accepted_elim tables k val p props0 others0 [(dk, x)] vid' hvid' hr
        by_cases hpq : p ++ [k] = q
        · have hvv : vid' = vid := by rw [hpq, hq] at hvid'; injection hvid' with e; exact e.symm
          subst hvv
          have hb := (leaf_write_read_back_partial tables k val vid' v' hv p props0 others0 [(dk, x)] ps' os' c' hsub hk).2
          rw [hpq] at hb
          rw [hb]
          simp [effStep, Out.ofExcept, outOk, Eff.val, hpq, hv]
        · rw [assign_frame tables k val vid' v' hv p props0 others0 [(dk, x)] ps' os' c' q vid hsub hk hq (fun e => hpq e.symm)]
          simp [effStep, Eff.val, hpq]
    · rw [read0_of_eq (step_frame tables classes defaults w (.setattr i p k val) 0 (fun e => hi e.symm)) q]
      simp [effStep, Eff.val, hi]
  | reset =>
    rw [step_reset_inv0 w x hx]
    simp only [effStep, Eff.val]
    unfold read0
    rw [setTree_getElem?_self w 0 _ _ hx]
  | resetStyle => exact absurd hs id
  | setStyle i val =>
    by_cases hi : i = 0
    · subst hi
      have : (step tables classes defaults w (.setStyle 0 val)).1 = w := by simp [step]
      rw [this]; rfl
    · exact read0_of_eq (step_frame tables classes defaults w (.setStyle i val) 0 (fun e => hi e.symm)) q
  | setStyleObj i j =>
    rw [style_object_assignment_ignored]; rfl
  | read i p =>
    rw [step_read_world]; rfl

theorem reads_refine_from (q : List Key) (vid : Nat) (hq : leafVid props0 q = some vid) : ∀ (ops : List Op) (w : World), Inv0 w →
    (∀ op ∈ ops, Simple0 op) →
    read0 (exec tables classes defaults w ops) q = ((annot w ops).foldl (effStep q vid) .keep).val q (read0 w q) := by
  intro ops
  induction ops with
  | nil => intro w _ _; rfl
  | cons op t ih =>
    intro w hw hs
    rw [exec_cons, annot, List.foldl_cons, foldl_val,
      ih _ (inv0_step w op hw) (fun o ho => hs o (List.mem_cons_of_mem _ ho)),
      read0_step w hw op (hs op (List.mem_cons_self ..)) q vid hq]

/-- **C20, history level (defaults, leaf assignments / resets / reads; arbitrary operations on the objects).**  After any
such history, reading a plain property `q` of `magpylib.defaults` (any depth) gives: the value its setter stored for the
LAST ACCEPTED assignment to `q` since the last `reset()`, else the default — i.e. the state machine refines the map
`path ↦ value` computed from the operations and their outcomes alone (`effStep`). -/
theorem defaults_reads_refine_partial (cls : List Nat) (ops : List Op) (hs : ∀ op ∈ ops, Simple0 op) (q : List Key) (vid : Nat)
    (hq : leafVid props0 q = some vid) :
    read0 (exec tables classes defaults (init cls) ops) q =
      ((annot (init cls) ops).foldl (effStep q vid) .keep).val q (readPath props0 resetResult.1 q) := by
  rw [reads_refine_from q vid hq ops (init cls) (inv0_init cls) hs]
  unfold read0
  rw [init_zero]

/-- non-vacuity: accepted write (5), write to another leaf, rejected write ('tail' is no number), an update of an object's
style and a read in between: the specification says `set 5`; after a further reset it says `init` -/
example :
    let q : List Key := [dk, .str "autosizefactor".toList]
    let ops : List Op := [.setattr 0 [dk] (.str "autosizefactor".toList) (.leaf (some 4)),
      .setattr 0 [dk, .str "animation".toList] (.str "fps".toList) (.leaf (some 4)),
      .setattr 0 [dk] (.str "autosizefactor".toList) (.leaf (some 41)),
      .update 1 [] none [(.str "opacity".toList, .leaf (some 21))] true false, .read 0 q]
    (leafVid props0 q).isSome = true ∧
    (match (annot (init [1]) ops).foldl (effStep q ((leafVid props0 q).getD 0)) .keep with | .set (some 4) => true | _ => false) = true ∧
    (match (annot (init [1]) (ops ++ [.reset])).foldl (effStep q ((leafVid props0 q).getD 0)) .keep with | .init => true | _ => false) = true ∧
    (match read0 (exec tables classes defaults (init [1]) ops) q with | .ok (.leaf (some 4)) => true | _ => false) = true := by
  decide +kernel

end MagpyVerif.C20c
