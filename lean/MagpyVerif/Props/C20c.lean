/-
Props/C20c.lean — C20, the STATE MACHINE part: histories of updates, attribute assignments and resets on
`magpylib.defaults` and on the styles of n objects (Model/StyleState.lean, executed by the driver family `sstate`
on the class structure, validators and DEFAULTS tree regenerated from the source, Gen/StyleSchema.lean).

  * `reset_restores`           after ANY history, `defaults.reset()` succeeds and yields exactly the initial defaults tree
  * `initial_defaults_are_DEFAULTS`  that tree has at every leaf of `DEFAULTS` what the leaf's setter makes of the hard
                               coded value, and the constructor default / None at every other leaf
  * `setattr_unknown_name_rejected(_at)` every name that is neither a property nor another public attribute of the class:
                               AttributeError, world unchanged (for all names, all objects, all sub-objects, all states)
  * `method_names_not_rejected` witness that the exclusion is necessary (`defaults.copy = 1` is accepted by the code)
  * `update_unknown_name_rejected` the same through `update(name=v)` on a stable state
  * `rejected_setattr_keeps_world`  a rejected attribute assignment changes nothing, whatever was rejected
  * `rejected_update_applies_earlier_keys`  witness: a rejected `update` is NOT atomic in the code
  * `styles_independent`, `objects_independent_of_history`, `style_object_assignment_ignored`
-/
import MagpyVerif.Lemmas.StyleState
import MagpyVerif.Gen.StyleSchema

namespace MagpyVerif.C20c
open MagpyVerif.StyleNested MagpyVerif.StyleState MagpyVerif.Gen.StyleSchema

/-- the world a history starts from: `magpylib.defaults` after import and one new object per listed style class -/
def init (cls : List Nat) : World := initWorld tables classes defaults cls

/-- properties / other attributes of `DefaultSettings` -/
def props0 : List (Key × Schema) := [(dk, .obj cDisplay.props cDisplay.others none cDisplay.ctor cDisplay.varkw)]
def others0 : List Str := cDefaultSettings.others

theorem props0_eq : cDefaultSettings.props = props0 := rfl

theorem classes_zero : ∃ bases, classes[0]? = some ⟨"DefaultSettings".toList, bases, cDefaultSettings⟩ := ⟨_, rfl⟩

/-- the top-level shape of the defaults object of a world -/
def Inv0 (w : World) : Prop := ∃ x, w[0]? = some ⟨0, [(dk, x)]⟩

def shapeOk : Except Kind Dict → Bool
  | .ok [(k, _)] => k == dk
  | _ => false

theorem shapeOk_elim {r : Except Kind Dict} (h : shapeOk r = true) : ∃ x, r = .ok [(dk, x)] := by
  unfold shapeOk at h
  split at h
  · rename_i k x
    simp only [beq_iff_eq] at h
    exact ⟨x, by rw [h]⟩
  · cases h

def isOkD : Except Kind Dict → Bool
  | .ok _ => true
  | .error _ => false

/-- computed on the regenerated classes: `DefaultSettings.__init__` succeeds with the one property `display` -/
theorem newTree_defaults_shape : shapeOk (construct tables props0 cDefaultSettings.ctor cDefaultSettings.varkw []) = true := by
  decide +kernel

/-- computed: `Display()` succeeds -/
theorem display_constructs : isOkD (construct tables cDisplay.props cDisplay.ctor cDisplay.varkw []) = true := by
  decide +kernel

/-- the state `reset` produces (whatever the state before, see `reset_from_any_state`) -/
def resetResult : Dict × Except Kind Unit :=
  resetDefaults tables defaults props0 others0 [(dk, .leaf none)]

/-- computed: the reset at import time succeeds -/
theorem resetResult_ok : isOkU resetResult.2 = true := by
  decide +kernel

/-- `reset` does not read the state it replaces -/
theorem reset_from_any_state (x : Tree) : resetDefaults tables defaults props0 others0 [(dk, x)] = resetResult := by
  have h := display_constructs
  cases hc : construct tables cDisplay.props cDisplay.ctor cDisplay.varkw [] with
  | error e => rw [hc] at h; cases h
  | ok r => exact resetDefaults_indep tables _ _ _ _ _ others0 defaults x (.leaf none) r hc

theorem initDefaults_eq (n : Str) (b : List Str) : initDefaults tables defaults ⟨n, b, cDefaultSettings⟩ = resetResult := by
  obtain ⟨x, hx⟩ := shapeOk_elim newTree_defaults_shape
  have ho : cDefaultSettings.others = others0 := rfl
  simp only [initDefaults, newTree, props0_eq, ho, hx]
  exact reset_from_any_state x

theorem init_zero (cls : List Nat) : (init cls)[0]? = some ⟨0, resetResult.1⟩ := by
  obtain ⟨bases, hb⟩ := classes_zero
  unfold init initWorld
  rw [hb]
  simp only [List.cons_append, List.getElem?_cons_zero]
  rw [initDefaults_eq]

theorem resetResult_shape0 : Shape0 resetResult.1 :=
  resetDefaults_shape0 tables _ _ _ _ _ others0 defaults _ ⟨_, rfl⟩

theorem inv0_init (cls : List Nat) : Inv0 (init cls) := by
  obtain ⟨x, hx⟩ := resetResult_shape0
  exact ⟨x, by rw [init_zero, hx]⟩

/-- an in-place operation on `magpylib.defaults` -/
theorem onObj_zero (f : List (Key × Schema) → List Str → Dict → Dict × Except Kind Unit) (w : World) (x : Tree)
    (hx : w[0]? = some ⟨0, [(dk, x)]⟩) :
    onObj classes w 0 f = (setTree w 0 (f props0 others0 [(dk, x)]).1, .ofExcept (f props0 others0 [(dk, x)]).2) := by
  obtain ⟨bases, hb⟩ := classes_zero
  unfold onObj
  rw [hx]
  simp only [hb]
  rfl

/-- an in-place operation on `magpylib.defaults` that keeps the top-level shape keeps the invariant -/
theorem onObj_inv0 (f : List (Key × Schema) → List Str → Dict → Dict × Except Kind Unit)
    (hf : ∀ cur, Shape0 cur → Shape0 (f props0 others0 cur).1) (w : World) (h : Inv0 w) : Inv0 (onObj classes w 0 f).1 := by
  obtain ⟨x, hx⟩ := h
  rw [onObj_zero f w x hx]
  obtain ⟨y, hy⟩ := hf [(dk, x)] ⟨x, rfl⟩
  refine ⟨y, ?_⟩
  simp only []
  rw [setTree_getElem?_self w 0 _ _ hx, hy]

theorem inv0_step (w : World) (op : Op) (h : Inv0 w) : Inv0 (step tables classes defaults w op).1 := by
  by_cases ht : op.target = 0
  · cases op with
    | update i path arg kwargs mt rno =>
      have hi : i = 0 := ht
      subst hi
      exact onObj_inv0 _ (fun cur hc => atPath_shape0 _ _ _ _ _ others0 _ path
        (fun _ c hc' => updateObj_shape0 tables _ _ _ _ _ others0 c hc' arg kwargs mt rno) cur hc) w h
    | setattr i path name val =>
      have hi : i = 0 := ht
      subst hi
      refine onObj_inv0 _ (fun cur hc => atPath_shape0 _ _ _ _ _ others0 _ path (fun _ c hc' => ?_) cur hc) w h
      obtain ⟨x, rfl⟩ := hc'
      cases hs : setAttr tables [(dk, Schema.obj cDisplay.props cDisplay.others none cDisplay.ctor cDisplay.varkw)] others0 [(dk, x)] name val with
      | ok c' =>
        have := setAttr_shape0 tables _ _ _ _ _ others0 x name val c' hs
        simp only [hs]
        exact this
      | error e =>
        simp only [hs]
        exact ⟨x, rfl⟩
    | reset => exact onObj_inv0 _ (fun cur hc => resetDefaults_shape0 tables _ _ _ _ _ others0 defaults cur hc) w h
    | resetStyle => exact onObj_inv0 _ (fun cur hc => resetStyle_shape0 tables _ _ _ _ _ others0 defaults cur hc) w h
    | setStyle i val =>
      have hi : i = 0 := ht
      subst hi
      simpa [step] using h
    | setStyleObj i j =>
      have hi : i = 0 := ht
      subst hi
      simpa [step] using h
    | read i path =>
      obtain ⟨x, hx⟩ := h
      refine ⟨x, ?_⟩
      rw [← hx]
      simp only [step]
      split
      · rfl
      · split
        · rfl
        · split <;> rfl
  · obtain ⟨x, hx⟩ := h
    exact ⟨x, by rw [step_frame tables classes defaults w op 0 (fun e => ht e.symm), hx]⟩

theorem inv0_exec : ∀ (ops : List Op) (w : World), Inv0 w → Inv0 (exec tables classes defaults w ops) := by
  intro ops
  induction ops with
  | nil => intro w h; exact h
  | cons op t ih => intro w h; rw [exec_cons]; exact ih _ (inv0_step w op h)

/-- **C20: `defaults.reset()` restores every default, after any sequence of updates, assignments and resets.**
For every number and kind of objects and EVERY history `ops` (updates in any notation on any sub-object with any flags,
attribute assignments, accepted or rejected, resets of the whole or of the styles, style assignments, reads):
`magpylib.defaults.reset()` then succeeds, the defaults tree is exactly the tree at import time, and no object's own
style is touched.  (Names shadowing methods — outcome `shadow` — are outside the model, see `method_names_not_rejected`.) -/
theorem reset_restores (cls : List Nat) (ops : List Op) :
    let w := exec tables classes defaults (init cls) ops
    (match (step tables classes defaults w .reset).2 with | .ok => True | _ => False) ∧
    (step tables classes defaults w .reset).1[0]? = (init cls)[0]? ∧
    ∀ j, j ≠ 0 → (step tables classes defaults w .reset).1[j]? = w[j]? := by
  intro w
  obtain ⟨x, hx⟩ := inv0_exec ops (init cls) (inv0_init cls)
  have hstep : step tables classes defaults w .reset = (setTree w 0 resetResult.1, .ofExcept resetResult.2) := by
    show onObj classes w 0 (resetDefaults tables defaults) = _
    rw [onObj_zero _ w x hx, reset_from_any_state]
  refine ⟨?_, ?_, fun j hj => step_frame tables classes defaults w .reset j hj⟩
  · rw [hstep]
    have := resetResult_ok
    cases hr : resetResult.2 with
    | ok u => simp [Out.ofExcept]
    | error e => rw [hr] at this; cases this
  · rw [hstep, init_zero]
    exact setTree_getElem?_self w 0 _ _ hx

/-- non-vacuity: a history with an accepted update, a rejected one, a partial style reset and an assignment, then reset -/
example :
    let ops : List Op := [.update 0 [] none [(.str "display_autosizefactor".toList, .leaf (some 4))] true false,
      .update 0 [dk] none [(.str "backend".toList, .leaf (some 41))] true false, .resetStyle,
      .setattr 0 [dk, .str "style".toList, .str "base".toList] (.str "opacity".toList) (.leaf (some 21))]
    beqKids ((exec tables classes defaults (init [1]) ops)[0]?.map (·.tree) |>.getD []) resetResult.1 = false ∧
    beqKids (((step tables classes defaults (exec tables classes defaults (init [1]) ops) .reset).1)[0]?.map (·.tree) |>.getD [])
      resetResult.1 = true := by
  decide +kernel

/-- value of a DEFAULTS leaf after its setter: every leaf of `DEFAULTS` is in the reset tree as a leaf -/
def leafPaths : Tree → List (List Key × Option Val)
  | .leaf v => [([], v)]
  | .node kids => go kids
where go : List (Key × Tree) → List (List Key × Option Val)
  | [] => []
  | (k, t) :: r => (leafPaths t).map (fun pv => (k :: pv.1, pv.2)) ++ go r

/-- the validator row of the leaf at a path of the `DefaultSettings` schema -/
def leafVid : List (Key × Schema) → List Key → Option Nat
  | _, [] => none
  | ps, [k] => match lookup k ps with | some (.leaf vid) => some vid | _ => none
  | ps, k :: k2 :: ks => match lookup k ps with | some (.obj ps' _ _ _ _) => leafVid ps' (k2 :: ks) | _ => none

/-- **"restores every default", leaf by leaf (computed over the regenerated DEFAULTS and classes).**  At every one of the
(more than 100) leaves of `DEFAULTS` the tree after `reset()` holds exactly what that leaf's own setter stores for the
hard coded value (e.g. the lower-cased colour string), and the setter accepts it. -/
theorem initial_defaults_are_DEFAULTS :
    (leafPaths defaults).length ≥ 100 ∧
    (leafPaths defaults).all (fun pv =>
      match leafVid props0 pv.1, getPath (.node resetResult.1) pv.1 with
      | some vid, some (.leaf got) =>
        (match runV tables vid (.leaf pv.2) with
          | .ok stored => stored == got
          | .error _ => false)
      | _, _ => false) = true := by
  decide +kernel

/-! ### invalid names -/

/-- **C20: every name outside the schema is rejected** (attribute assignment on the object itself).  For every world,
every object `i` (the defaults or an object's style), every name `n` that is not a property of the object's class, does
not start with an underscore and is not one of the class's other public attributes (`update`, `copy`, `as_dict`, …; the
regenerated `others`), and every value: AttributeError, and the world is exactly as before. -/
theorem setattr_unknown_name_rejected (T : Tables) (Cs : List ClassInfo) (D : Tree) (w : World) (i : Nat) (o : Obj) (c : ClassInfo)
    (n : Str) (val : Tree) (hw : w[i]? = some o) (hc : Cs[o.cls]? = some c)
    (hn : lookup (.str n) c.schema.props = none) (hu : underscored n = false) (ho : c.schema.others.contains n = false) :
    step T Cs D w (.setattr i [] (.str n) val) = (w, .err .attribute) := by
  simp only [step, onObj, hw, hc, atPath_nil, setAttr, hn, hu, ho, Bool.or_self, Bool.false_eq_true, if_false]
  rw [setTree_same w i o hw]
  rfl

/-- the same for a sub-object at any depth (`defaults.display.style.magnet.magnetisation = …`) -/
theorem setattr_unknown_name_rejected_at (T : Tables) (Cs : List ClassInfo) (D : Tree) (w : World) (i : Nat) (o : Obj) (c : ClassInfo)
    (path : List Key) (ps : List (Key × Schema)) (os : List Str) (sub : Dict)
    (n : Str) (val : Tree) (hw : w[i]? = some o) (hc : Cs[o.cls]? = some c)
    (hs : subObj c.schema.props c.schema.others o.tree path = some (ps, os, sub))
    (hn : lookup (.str n) ps = none) (hu : underscored n = false) (ho : os.contains n = false) :
    step T Cs D w (.setattr i path (.str n) val) = (w, .err .attribute) := by
  simp only [step, onObj, hw, hc]
  rw [atPath_of_subObj_error _ .attribute path _ _ _ ps os sub hs
    (by simp only [setAttr, hn, hu, ho, Bool.or_self, Bool.false_eq_true, if_false])]
  simp only []
  rw [setTree_same w i o hw]
  rfl

/-- non-vacuity on the regenerated classes: `magpylib.defaults.display.style.magnet.magnetisation = 1` (a misspelt
property, three levels down) -/
example : (match (step tables classes defaults (init []) (.setattr 0 [dk, .str "style".toList, .str "magnet".toList]
    (.str "magnetisation".toList) (.leaf (some 8)))).2 with | .err .attribute => true | _ => false) = true := by
  decide +kernel

/-- **the exclusion of the other public attributes is necessary (witness; defect of the code).**  `hasattr` is true for
methods, so `MagicProperties.__setattr__` lets `magpylib.defaults.copy = 1` through: the model reports `shadow` where the
property demands a rejection.  Real code: afterwards `magpylib.defaults.copy()` raises TypeError and `reset()` does not
repair it. -/
theorem method_names_not_rejected :
    (match (step tables classes defaults (init []) (.setattr 0 [] (.str "copy".toList) (.leaf (some 8)))).2 with
      | .err .shadow => true | _ => false) = true ∧
    (match (step tables classes defaults (init []) (.update 0 [] none [(.str "update".toList, .leaf (some 8))] true false)).2 with
      | .err .shadow => true | _ => false) = true := by
  decide +kernel

/-- **C20: invalid names are rejected through `update` as well.**  `obj.update(n=v)` for a name `n` (no underscore in it,
so the magic notation leaves it alone) that is neither a property nor another public attribute, on an object in a stable
state (`obj.update()` changes nothing) whose `as_dict()` has no such key: AttributeError and the object is unchanged. -/
theorem update_unknown_name_rejected (T : Tables) (props : List (Key × Schema)) (others : List Str) (cur : Dict)
    (n : Str) (v : Option Val) (rno : Bool) (hst : Stable T props others cur) (hk : lookup (.str n) cur = none)
    (hn : lookup (.str n) props = none) (hu : underscored n = false) (ho : others.contains n = false) (hsep : '_' ∉ n) :
    updateObj T props others cur none [(.str n, .leaf v)] true rno = (cur, .error .attribute) := by
  have hm := magicToDict_single '_' v n [] (by simpa using hsep)
  simp only [joinWith, List.map_cons, List.map_nil, pathTree] at hm
  simp only [updateObj, mergeDict, List.foldl_cons, List.foldl_nil, setKey, hm, Bool.not_true, updateNested, updDict,
    updLoop_single, hk, updVal, Option.isSome_none, isNoneOrMissing, Bool.true_or, if_true, Bool.not_false, Bool.or_true]
  rw [setKey_of_lookup_none hk, setAllS_append, hst]
  simp only [setAllS_cons, setAttr, hn, hu, ho, Bool.or_self, Bool.false_eq_true, if_false]

/-- computed: the state at import time is stable, for the defaults and for a new style object of every class -/
theorem initial_states_stable :
    stableB tables props0 others0 resetResult.1 = true ∧
    classes.all (fun c => match newTree tables c with
      | .ok t => stableB tables c.schema.props c.schema.others t
      | .error _ => false) = true := by
  decide +kernel

/-- non-vacuity of `update_unknown_name_rejected`: `magpylib.defaults.update(colour=…)` at import time -/
example : updateObj tables props0 others0 resetResult.1 none [(.str "colour".toList, .leaf (some 8))] true false =
    (resetResult.1, .error .attribute) :=
  update_unknown_name_rejected tables props0 others0 resetResult.1 "colour".toList (some 8) false
    (stable_of_stableB _ _ _ _ initial_states_stable.1) (by decide +kernel) (by decide +kernel) (by decide) (by decide +kernel) (by decide)

/-! ### rejected operations and the state -/

/-- **a rejected attribute assignment leaves the world unchanged** — whatever is rejected (unknown name, invalid value,
unknown keys inside an assigned dict, a path that cannot be followed), at any depth, in any state. -/
theorem rejected_setattr_keeps_world (T : Tables) (Cs : List ClassInfo) (D : Tree) (w : World) (i : Nat) (path : List Key) (name : Key)
    (val : Tree) (e : Kind) (h : (step T Cs D w (.setattr i path name val)).2 = .err e) :
    (step T Cs D w (.setattr i path name val)).1 = w := by
  simp only [step, onObj] at h ⊢
  cases hw : w[i]? with
  | none => rfl
  | some o =>
    rw [hw] at h
    simp only [] at h ⊢
    cases hc : Cs[o.cls]? with
    | none => rfl
    | some c =>
      rw [hc] at h
      simp only [] at h ⊢
      generalize hf : (fun ps' os' c => match setAttr T ps' os' c name val with
        | .ok c' => (c', Except.ok ())
        | .error e => (c, Except.error e)) = f at h ⊢
      have hfp : ∀ ps os c e, (f ps os c).2 = .error e → (f ps os c).1 = c := by
        intro ps os c e he
        subst hf
        simp only [] at he ⊢
        cases hs : setAttr T ps os c name val with
        | ok c' => rw [hs] at he; cases he
        | error e' => rfl
      cases hr : (atPath f c.schema.props c.schema.others o.tree path).2 with
      | ok u => rw [hr] at h; cases h
      | error e' =>
        rw [atPath_error_unchanged f hfp path _ _ _ e' hr]
        exact setTree_same w i o hw

/-- **a rejected `update` is NOT atomic (witness; the code's loop `for k, v in new_dict.items(): setattr(self, k, v)`
stops at the first exception).**  `magpylib.defaults.display.update(autosizefactor=5, backend="bogus")` raises
AssertionError and leaves `autosizefactor == 5`; with an unknown name instead of the invalid value
(`update(autosizefactor=5, bogus=1)`) AttributeError, and again `autosizefactor == 5`. -/
theorem rejected_update_applies_earlier_keys :
    let asf := [dk, .str "autosizefactor".toList]
    let w := init []
    let r1 := step tables classes defaults w (.update 0 [dk] none [(.str "autosizefactor".toList, .leaf (some 4)), (.str "backend".toList, .leaf (some 41))] true false)
    let r2 := step tables classes defaults w (.update 0 [dk] none [(.str "autosizefactor".toList, .leaf (some 4)), (.str "bogus".toList, .leaf (some 8))] true false)
    let get := fun (w : World) => (w[0]?.map fun o => getPath (.node o.tree) asf).join
    (match r1.2 with | .err .assertion => true | _ => false) = true ∧
    (match r2.2 with | .err .attribute => true | _ => false) = true ∧
    (match get w, get r1.1, get r2.1 with
      | some (.leaf (some 0)), some (.leaf (some 4)), some (.leaf (some 4)) => true
      | _, _, _ => false) = true := by
  decide +kernel

/-! ### reads after writes -/

/-- the attribute assignment `X.k = val` as the in-place operation `step` runs at a path -/
def assignOp (T : Tables) (k : Key) (val : Tree) : List (Key × Schema) → List Str → Dict → Dict × Except Kind Unit :=
  fun ps' os' c => match setAttr T ps' os' c k val with
    | .ok c' => (c', .ok ())
    | .error e => (c, .error e)

/- FULL: for every history, the value read at a leaf path is what the setter stored for the last ACCEPTED write that
   covers the path (an assignment or an update key at that path, a dict assigned above it, a reset), else the initial
   value — a refinement of the whole machine to a map `Path → Value`.
   Proved here: the single-step core (an accepted assignment at any depth is read back as the value the leaf's setter
   stores; a rejected one changes nothing: `rejected_setattr_keeps_world`; a reset gives the initial tree whatever came
   before: `reset_restores`; operations on other objects do not interfere: `objects_independent_of_history`).
   Missing: the frame condition for the OTHER leaves of the same object under `update` (it re-assigns every property,
   which is the identity only on stable states: `initial_states_stable` shows stability at import time, its
   preservation by every operation is observed by the `sstate` stream, not proved). -/
/-- **last accepted write is read back (any depth).**  If `path` leads to a sub-object that has the plain property `k`
and the property's setter accepts `val` storing `v'`, then `X.k = val` succeeds and reading `X.k` afterwards gives `v'`. -/
theorem leaf_write_read_back_partial (T : Tables) (k : Key) (val : Tree) (vid : Nat) (v' : Option Val) (hv : runV T vid val = .ok v') :
    ∀ (path : List Key) (ps : List (Key × Schema)) (os : List Str) (c : Dict) (ps' : List (Key × Schema)) (os' : List Str) (c' : Dict),
      subObj ps os c path = some (ps', os', c') → lookup k ps' = some (.leaf vid) →
      (atPath (assignOp T k val) ps os c path).2 = .ok () ∧
      readPath ps (atPath (assignOp T k val) ps os c path).1 (path ++ [k]) = .ok (.leaf v') := by
  intro path
  induction path with
  | nil =>
    intro ps os c ps' os' c' h hk
    simp only [subObj, Option.some.injEq, Prod.mk.injEq] at h
    obtain ⟨rfl, rfl, rfl⟩ := h
    have hs : setAttr T ps os c k val = .ok (setKey k (.leaf v') c) := by
      simp only [setAttr, hk]
      rw [setProp]
      simp only [hv]
    simp only [atPath_nil, assignOp, hs, List.nil_append, readPath, hk, lookup_setKey_self, and_self]
  | cons k0 ks ih =>
    intro ps os c ps' os' c' h hk
    unfold subObj at h
    split at h
    · rename_i ps1 os1 _ _ _ sub hp hc
      obtain ⟨h1, h2⟩ := ih ps1 os1 sub ps' os' c' h hk
      unfold atPath
      simp only [hp, hc]
      refine ⟨h1, ?_⟩
      simp only [List.cons_append, readPath, hp, lookup_setKey_self]
      exact h2
    · cases h

/-- non-vacuity on the regenerated classes: `magpylib.defaults.display.style.base.path.line.width = 2` is read back -/
example : (match (step tables classes defaults
      (step tables classes defaults (init []) (.setattr 0 [dk, .str "style".toList, .str "base".toList, .str "path".toList, .str "line".toList]
        (.str "width".toList) (.leaf (some 15)))).1
      (.read 0 [dk, .str "style".toList, .str "base".toList, .str "path".toList, .str "line".toList, .str "width".toList])).2 with
    | .val (.leaf (some 15)) => true | _ => false) = true := by
  decide +kernel

/-! ### independence of objects -/

/-- **C20: styles of different objects are independent.**  An operation on object `i` (an update in any notation, an
assignment, `obj.style = …`) changes neither the defaults nor the own style of any other object `j` — hence nothing that
is computed from them, in particular `get_style(obj_j)` (any function `F` of the defaults tree and of `obj_j`'s own
tree; `Model/StyleNested.resolveNested` is one). -/
theorem styles_independent (T : Tables) (Cs : List ClassInfo) (D : Tree) (w : World) (op : Op) (j : Nat) {β : Type}
    (F : Option Obj → Option Obj → β) (hj : j ≠ op.target) (h0 : op.target ≠ 0) :
    let w' := (step T Cs D w op).1
    w'[j]? = w[j]? ∧ w'[0]? = w[0]? ∧ F w'[0]? w'[j]? = F w[0]? w[j]? := by
  have h1 := step_frame T Cs D w op j hj
  have h2 := step_frame T Cs D w op 0 (fun e => h0 e.symm)
  exact ⟨h1, h2, by rw [h1, h2]⟩

/-- … for any history: whatever is done to the other objects and to the defaults, object `j`'s own style stays what
it was (and operations on the objects never change the defaults). -/
theorem objects_independent_of_history (T : Tables) (Cs : List ClassInfo) (D : Tree) (w : World) (ops : List Op) (j : Nat)
    (h : ∀ op ∈ ops, op.target ≠ j) : (exec T Cs D w ops)[j]? = w[j]? :=
  exec_frame T Cs D ops w j h

/-- `obj_i.style = obj_j.style` does not make the two objects share a style: the setter (`BaseGeo._validate_style`)
checks the class of the value and then IGNORES it — the world is unchanged whatever the outcome. -/
theorem style_object_assignment_ignored (T : Tables) (Cs : List ClassInfo) (D : Tree) (w : World) (i j : Nat) :
    (step T Cs D w (.setStyleObj i j)).1 = w := by
  simp only [step]
  split
  · rfl
  · split
    · split
      · split <;> rfl
      · rfl
    · rfl

/-- non-vacuity: two Cuboid-class styles and a Sensor-class style; an update of the first changes it and leaves the others -/
example :
    let w := init [1, 1, 2]
    let w' := (step tables classes defaults w (.update 1 [] none [(.str "path_line_width".toList, .leaf (some 15))] true false)).1
    (match w'[1]?, w[1]? with | some a, some b => !beqKids a.tree b.tree | _, _ => false) = true ∧
    (match w'[2]?, w[2]? with | some a, some b => beqKids a.tree b.tree | _, _ => false) = true := by
  decide +kernel

end MagpyVerif.C20c
