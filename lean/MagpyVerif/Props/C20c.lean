/-
Props/C20c.lean — C20, the STATE MACHINE part: histories of updates, attribute assignments and resets on
`magpylib.defaults` and on the styles of n objects (Model/StyleState.lean, executed by the driver family `sstate`
on the class structure, validators and DEFAULTS tree regenerated from the source, Gen/StyleSchema.lean).

  * `reset_restores`           after ANY history, `defaults.reset()` succeeds and yields exactly the initial defaults tree
  * `initial_defaults_are_DEFAULTS`  that tree has at every leaf of `DEFAULTS` what the leaf's setter makes of the hard
                               coded value, and the constructor default / None at every other leaf
  * `setattr_unknown_name_rejected(_at)` every name that is neither a property nor another public attribute of the class:
                               AttributeError, world unchanged (for all names, all objects, all sub-objects, all states)
  * `method_names_rejected`    every callable attribute name (methods, dunder methods) is rejected (repo fix 3fc7703);
                               `private_slots_not_rejected`: witness that the regenerated list `others` is needed
  * `update_unknown_name_rejected` the same through `update(name=v)`, in every state (since repo fix cea5f08)
  * `rejected_setattr_keeps_world`  a rejected attribute assignment changes nothing, whatever was rejected
  * `rejected_update_keeps_state`, `rejected_op_keeps_world`  a rejected update (any receiver, depth, keyword set) and
                               every other rejected operation change nothing (updates: since repo fix cea5f08)
  * `styles_independent`, `objects_independent_of_history`, `style_object_assignment_ignored`
-/
import MagpyVerif.Lemmas.StyleState
import MagpyVerif.Lemmas.StyleWF
import MagpyVerif.Gen.StyleSchema

namespace MagpyVerif.C20c
open MagpyVerif.StyleNested MagpyVerif.StyleState MagpyVerif.Gen.StyleSchema

/-- the world a history starts from: `magpylib.defaults` after import and one new object per listed style class -/
def init (cls : List Nat) : World := initWorld tables classes defaults cls

/-- properties / other attributes of `DefaultSettings` -/
def props0 : List (Key × Schema) := [(dk, .obj cDisplay.props cDisplay.others none cDisplay.ctor cDisplay.varkw)]
def others0 : List Str := cDefaultSettings.others

theorem props0_eq : cDefaultSettings.props = props0 := rfl

theorem classes_zero : ∃ bases, classes[0]? = some ⟨"DefaultSettings".toList, bases, cDefaultSettings⟩ := ⟨_, rfl⟩

/-- the top-level shape of the defaults object of a world -/
def Inv0 (w : World) : Prop := ∃ x, w[0]? = some ⟨0, [(dk, x)]⟩

def shapeOk : Except Kind Dict → Bool
  | .ok [(k, _)] => k == dk
  | _ => false

theorem shapeOk_elim {r : Except Kind Dict} (h : shapeOk r = true) : ∃ x, r = .ok [(dk, x)] := by
  unfold shapeOk at h
  split at h
  · rename_i k x
    simp only [beq_iff_eq] at h
    exact ⟨x, by rw [h]⟩
  · cases h

def isOkD : Except Kind Dict → Bool
  | .ok _ => true
  | .error _ => false

/-- computed on the regenerated classes: `DefaultSettings.__init__` succeeds with the one property `display` -/
theorem newTree_defaults_shape : shapeOk (construct tables props0 cDefaultSettings.ctor cDefaultSettings.varkw []) = true := by
  decide +kernel

/-- computed: `Display()` succeeds -/
theorem display_constructs : isOkD (construct tables cDisplay.props cDisplay.ctor cDisplay.varkw []) = true := by
  decide +kernel

/-- the state `reset` produces (whatever the state before, see `reset_from_any_state`) -/
def resetResult : Dict × Except Kind Unit :=
  resetDefaults tables defaults props0 others0 [(dk, .leaf none)]

/-- computed: the reset at import time succeeds -/
theorem resetResult_ok : isOkU resetResult.2 = true := by
  decide +kernel

/-- `reset` does not read the state it replaces -/
theorem reset_from_any_state (x : Tree) : resetDefaults tables defaults props0 others0 [(dk, x)] = resetResult := by
  have h := display_constructs
  cases hc : construct tables cDisplay.props cDisplay.ctor cDisplay.varkw [] with
  | error e => rw [hc] at h; cases h
  | ok r => exact resetDefaults_indep tables _ _ _ _ _ others0 defaults x (.leaf none) r hc

theorem initDefaults_eq (n : Str) (b : List Str) : initDefaults tables defaults ⟨n, b, cDefaultSettings⟩ = resetResult := by
  obtain ⟨x, hx⟩ := shapeOk_elim newTree_defaults_shape
  have ho : cDefaultSettings.others = others0 := rfl
  simp only [initDefaults, newTree, props0_eq, ho, hx]
  exact reset_from_any_state x

theorem init_zero (cls : List Nat) : (init cls)[0]? = some ⟨0, resetResult.1⟩ := by
  obtain ⟨bases, hb⟩ := classes_zero
  unfold init initWorld
  rw [hb]
  simp only [List.cons_append, List.getElem?_cons_zero]
  rw [initDefaults_eq]

theorem resetResult_shape0 : Shape0 resetResult.1 :=
  resetDefaults_shape0 tables _ _ _ _ _ others0 defaults _ ⟨_, rfl⟩

theorem inv0_init (cls : List Nat) : Inv0 (init cls) := by
  obtain ⟨x, hx⟩ := resetResult_shape0
  exact ⟨x, by rw [init_zero, hx]⟩

/-- an in-place operation on `magpylib.defaults` -/
theorem onObj_zero (f : List (Key × Schema) → List Str → Dict → Dict × Except Kind Unit) (w : World) (x : Tree)
    (hx : w[0]? = some ⟨0, [(dk, x)]⟩) :
    onObj classes w 0 f = (setTree w 0 (f props0 others0 [(dk, x)]).1, .ofExcept (f props0 others0 [(dk, x)]).2) := by
  obtain ⟨bases, hb⟩ := classes_zero
  unfold onObj
  rw [hx]
  simp only [hb]
  rfl

/-- an in-place operation on `magpylib.defaults` that keeps the top-level shape keeps the invariant -/
theorem onObj_inv0 (f : List (Key × Schema) → List Str → Dict → Dict × Except Kind Unit)
    (hf : ∀ cur, Shape0 cur → Shape0 (f props0 others0 cur).1) (w : World) (h : Inv0 w) : Inv0 (onObj classes w 0 f).1 := by
  obtain ⟨x, hx⟩ := h
  rw [onObj_zero f w x hx]
  obtain ⟨y, hy⟩ := hf [(dk, x)] ⟨x, rfl⟩
  refine ⟨y, ?_⟩
  simp only []
  rw [setTree_getElem?_self w 0 _ _ hx, hy]

theorem inv0_step (w : World) (op : Op) (h : Inv0 w) : Inv0 (step tables classes defaults w op).1 := by
  by_cases ht : op.target = 0
  · cases op with
    | update i path arg kwargs mt rno =>
      have hi : i = 0 := ht
      subst hi
      exact onObj_inv0 _ (fun cur hc => atPath_shape0 _ _ _ _ _ others0 _ path
        (fun _ c hc' => updateObj_shape0 tables _ _ _ _ _ others0 c hc' arg kwargs mt rno) cur hc) w h
    | setattr i path name val =>
      have hi : i = 0 := ht
      subst hi
      refine onObj_inv0 _ (fun cur hc => atPath_shape0 _ _ _ _ _ others0 _ path (fun _ c hc' => ?_) cur hc) w h
      obtain ⟨x, rfl⟩ := hc'
      cases hs : setAttr tables [(dk, Schema.obj cDisplay.props cDisplay.others none cDisplay.ctor cDisplay.varkw)] others0 [(dk, x)] name val with
      | ok c' =>
        have := setAttr_shape0 tables _ _ _ _ _ others0 x name val c' hs
        simp only [hs]
        exact this
      | error e =>
        simp only [hs]
        exact ⟨x, rfl⟩
    | reset => exact onObj_inv0 _ (fun cur hc => resetDefaults_shape0 tables _ _ _ _ _ others0 defaults cur hc) w h
    | resetStyle => exact onObj_inv0 _ (fun cur hc => resetStyle_shape0 tables _ _ _ _ _ others0 defaults cur hc) w h
    | setStyle i val =>
      have hi : i = 0 := ht
      subst hi
      simpa [step] using h
    | setStyleObj i j =>
      have hi : i = 0 := ht
      subst hi
      simpa [step] using h
    | read i path =>
      obtain ⟨x, hx⟩ := h
      refine ⟨x, ?_⟩
      rw [← hx]
      simp only [step]
      split
      · rfl
      · split
        · rfl
        · split <;> rfl
  · obtain ⟨x, hx⟩ := h
    exact ⟨x, by rw [step_frame tables classes defaults w op 0 (fun e => ht e.symm), hx]⟩

theorem inv0_exec : ∀ (ops : List Op) (w : World), Inv0 w → Inv0 (exec tables classes defaults w ops) := by
  intro ops
  induction ops with
  | nil => intro w h; exact h
  | cons op t ih => intro w h; rw [exec_cons]; exact ih _ (inv0_step w op h)

/-- **C20: `defaults.reset()` restores every default, after any sequence of updates, assignments and resets.**
For every number and kind of objects and EVERY history `ops` (updates in any notation on any sub-object with any flags,
attribute assignments, accepted or rejected, resets of the whole or of the styles, style assignments, reads):
`magpylib.defaults.reset()` then succeeds, the defaults tree is exactly the tree at import time, and no object's own
style is touched.  (Assignments to private slots — outcome `shadow` — are outside the model, see `private_slots_not_rejected`.) -/
theorem reset_restores (cls : List Nat) (ops : List Op) :
    let w := exec tables classes defaults (init cls) ops
    (match (step tables classes defaults w .reset).2 with | .ok => True | _ => False) ∧
    (step tables classes defaults w .reset).1[0]? = (init cls)[0]? ∧
    ∀ j, j ≠ 0 → (step tables classes defaults w .reset).1[j]? = w[j]? := by
  intro w
  obtain ⟨x, hx⟩ := inv0_exec ops (init cls) (inv0_init cls)
  have hstep : step tables classes defaults w .reset = (setTree w 0 resetResult.1, .ofExcept resetResult.2) := by
    show onObj classes w 0 (resetDefaults tables defaults) = _
    rw [onObj_zero _ w x hx, reset_from_any_state]
  refine ⟨?_, ?_, fun j hj => step_frame tables classes defaults w .reset j hj⟩
  · rw [hstep]
    have := resetResult_ok
    cases hr : resetResult.2 with
    | ok u => simp [Out.ofExcept]
    | error e => rw [hr] at this; cases this
  · rw [hstep, init_zero]
    exact setTree_getElem?_self w 0 _ _ hx

/-- non-vacuity: a history with an accepted update, a rejected one, a partial style reset and an assignment, then reset -/
example :
    let ops : List Op := [.update 0 [] none [(.str "display_autosizefactor".toList, .leaf (some 4))] true false,
      .update 0 [dk] none [(.str "backend".toList, .leaf (some 41))] true false, .resetStyle,
      .setattr 0 [dk, .str "style".toList, .str "base".toList] (.str "opacity".toList) (.leaf (some 21))]
    beqKids ((exec tables classes defaults (init [1]) ops)[0]?.map (·.tree) |>.getD []) resetResult.1 = false ∧
    beqKids (((step tables classes defaults (exec tables classes defaults (init [1]) ops) .reset).1)[0]?.map (·.tree) |>.getD [])
      resetResult.1 = true := by
  decide +kernel

/-- value of a DEFAULTS leaf after its setter: every leaf of `DEFAULTS` is in the reset tree as a leaf -/
def leafPaths : Tree → List (List Key × Option Val)
  | .leaf v => [([], v)]
  | .node kids => go kids
where go : List (Key × Tree) → List (List Key × Option Val)
  | [] => []
  | (k, t) :: r => (leafPaths t).map (fun pv => (k :: pv.1, pv.2)) ++ go r

/-- **"restores every default", leaf by leaf (computed over the regenerated DEFAULTS and classes).**  At every one of the
(more than 100) leaves of `DEFAULTS` the tree after `reset()` holds exactly what that leaf's own setter stores for the
hard coded value (e.g. the lower-cased colour string), and the setter accepts it. -/
theorem initial_defaults_are_DEFAULTS :
    (leafPaths defaults).length ≥ 100 ∧
    (leafPaths defaults).all (fun pv =>
      match leafVid props0 pv.1, getPath (.node resetResult.1) pv.1 with
      | some vid, some (.leaf got) =>
        (match runV tables vid (.leaf pv.2) with
          | .ok stored => stored == got
          | .error _ => false)
      | _, _ => false) = true := by
  decide +kernel

/-! ### invalid names -/

/-- **C20: every name outside the schema is rejected** (attribute assignment on the object itself).  For every world,
every object `i` (the defaults or an object's style), EVERY name `n` — with or without underscores — that is not a
property of the object's class and not in the class's regenerated list `others` of non-property names the code still
lets through (the private slots `_color`, …, `__doc__`, `__module__`, `__dict__`, the frozen flag; no method, no public
name), and every value: AttributeError, and the world is exactly as before.  (Before repo fix 3fc7703 every existing
attribute, methods included, was accepted; the model then had a blanket exception for underscored names.) -/
theorem setattr_unknown_name_rejected (T : Tables) (Cs : List ClassInfo) (D : Tree) (w : World) (i : Nat) (o : Obj) (c : ClassInfo)
    (n : Str) (val : Tree) (hw : w[i]? = some o) (hc : Cs[o.cls]? = some c)
    (hn : lookup (.str n) c.schema.props = none) (ho : c.schema.others.contains n = false) :
    step T Cs D w (.setattr i [] (.str n) val) = (w, .err .attribute) := by
  simp only [step, onObj, hw, hc, atPath_nil, setAttr, hn, ho, Bool.false_eq_true, if_false]
  rw [setTree_same w i o hw]
  rfl

/-- the same for a sub-object at any depth (`defaults.display.style.magnet.magnetisation = …`) -/
theorem setattr_unknown_name_rejected_at (T : Tables) (Cs : List ClassInfo) (D : Tree) (w : World) (i : Nat) (o : Obj) (c : ClassInfo)
    (path : List Key) (ps : List (Key × Schema)) (os : List Str) (sub : Dict)
    (n : Str) (val : Tree) (hw : w[i]? = some o) (hc : Cs[o.cls]? = some c)
    (hs : subObj c.schema.props c.schema.others o.tree path = some (ps, os, sub))
    (hn : lookup (.str n) ps = none) (ho : os.contains n = false) :
    step T Cs D w (.setattr i path (.str n) val) = (w, .err .attribute) := by
  simp only [step, onObj, hw, hc]
  rw [atPath_of_subObj_error _ .attribute path _ _ _ ps os sub hs
    (by simp only [setAttr, hn, ho, Bool.false_eq_true, if_false])]
  simp only []
  rw [setTree_same w i o hw]
  rfl

/-- non-vacuity on the regenerated classes: `magpylib.defaults.display.style.magnet.magnetisation = 1` (a misspelt
property, three levels down) and an unknown underscored name `defaults.display._zzz = 1` -/
example : (match (step tables classes defaults (init []) (.setattr 0 [dk, .str "style".toList, .str "magnet".toList]
    (.str "magnetisation".toList) (.leaf (some 8)))).2 with | .err .attribute => true | _ => false) = true ∧
    (match (step tables classes defaults (init []) (.setattr 0 [dk] (.str "_zzz".toList) (.leaf (some 8)))).2 with
      | .err .attribute => true | _ => false) = true := by
  decide +kernel

/-- what the regenerated classes must satisfy for the two corollaries below: no callable attribute name of any property
class (`methodNames`: `copy`, `update`, `as_dict`, `reset`, `add_trace`, `_freeze`, `__init__`, `__class__`, …) is a
property or assignable in any class, and every assignable non-property name contains an underscore -/
def nodeOk (x : List (Key × Schema) × List Str) : Bool :=
  methodNames.all (fun m => (lookup (.str m) x.1).isNone && !x.2.contains m) && x.2.all (fun n => n.contains '_')

/-- computed over every property class nested in every class of the table (37 classes) -/
theorem all_nodes_ok :
    classes.all (fun c => ((c.schema.props, c.schema.others) :: nodesL c.schema.props).all nodeOk) = true ∧
    methodNames.length ≥ 30 := by
  decide +kernel

theorem nodeOk_of_subObj (o : Obj) (c : ClassInfo) (hc : classes[o.cls]? = some c) (path : List Key) (ps : List (Key × Schema))
    (os : List Str) (sub : Dict) (hs : subObj c.schema.props c.schema.others o.tree path = some (ps, os, sub)) :
    nodeOk (ps, os) = true := by
  have hmem : c ∈ classes := List.mem_of_getElem? hc
  have h1 := List.all_eq_true.mp all_nodes_ok.1 c hmem
  exact List.all_eq_true.mp h1 (ps, os) (subObj_mem_nodes path _ _ _ ps os sub hs)

/-- **C20: every method name is rejected** (true since repo fix 3fc7703; before it `defaults.copy = 1` replaced the
method on the instance, the former witness `method_names_not_rejected`).  For every reachable or unreachable world over
the regenerated classes, every object, every sub-object at any depth, every callable attribute name `m` of any property
class (public methods, private methods, dunder methods) and every value: `X.m = val` raises AttributeError and changes
nothing. -/
theorem method_names_rejected (w : World) (i : Nat) (o : Obj) (c : ClassInfo) (path : List Key) (ps : List (Key × Schema))
    (os : List Str) (sub : Dict) (m : Str) (val : Tree) (hw : w[i]? = some o) (hc : classes[o.cls]? = some c)
    (hs : subObj c.schema.props c.schema.others o.tree path = some (ps, os, sub)) (hm : m ∈ methodNames) :
    step tables classes defaults w (.setattr i path (.str m) val) = (w, .err .attribute) := by
  have hok := nodeOk_of_subObj o c hc path ps os sub hs
  simp only [nodeOk, Bool.and_eq_true, List.all_eq_true, Bool.not_eq_true', Option.isNone_iff_eq_none] at hok
  obtain ⟨h1, h2⟩ := hok.1 m hm
  exact setattr_unknown_name_rejected_at tables classes defaults w i o c path ps os sub m val hw hc hs h1 h2

/-- non-vacuity: `magpylib.defaults.copy = 1`, `defaults.display.style.reset = None` and `obj.style.update(update=1)` are
rejected with AttributeError on the regenerated classes (the first was accepted before 3fc7703) -/
example :
    (match (step tables classes defaults (init []) (.setattr 0 [] (.str "copy".toList) (.leaf (some 8)))).2 with
      | .err .attribute => true | _ => false) = true ∧
    (match (step tables classes defaults (init []) (.setattr 0 [dk, .str "style".toList] (.str "reset".toList) (.leaf none))).2 with
      | .err .attribute => true | _ => false) = true ∧
    (match (step tables classes defaults (init [1]) (.update 1 [] none [(.str "update".toList, .leaf (some 8))] true false)).2 with
      | .err .attribute => true | _ => false) = true ∧
    "copy".toList ∈ methodNames ∧ "__class__".toList ∈ methodNames := by
  decide +kernel

/-- the names the code still lets through are not rejected (witness that `others` cannot be dropped): assigning the
private slot `defaults.display._backend = 1` bypasses the validator; the model reports `shadow` and makes no claim -/
theorem private_slots_not_rejected :
    (match (step tables classes defaults (init []) (.setattr 0 [dk] (.str "_backend".toList) (.leaf (some 8)))).2 with
      | .err .shadow => true | _ => false) = true := by
  decide +kernel

/-- **C20: invalid names are rejected through `update` as well.**  `obj.update(n=v)` for a name `n` (no underscore in it,
so the magic notation leaves it alone) that is neither a property nor in `others`: in EVERY state of the object the call
raises and the object is exactly as before.  (Since repo fix cea5f08 — `update` puts the instance dictionary back when
the loop raises — no hypothesis on the state is needed; before it this was a theorem about stable states only.) -/
theorem update_unknown_name_rejected (T : Tables) (props : List (Key × Schema)) (others : List Str) (cur : Dict)
    (n : Str) (v : Option Val) (rno : Bool)
    (hn : lookup (.str n) props = none) (ho : others.contains n = false) (hsep : '_' ∉ n) :
    ∃ e, updateObj T props others cur none [(.str n, .leaf v)] true rno = (cur, .error e) := by
  have hm := magicToDict_single '_' v n [] (by simpa using hsep)
  simp only [joinWith, List.map_cons, List.map_nil, pathTree] at hm
  rcases updateObj_cases T props others cur none [(.str n, .leaf v)] true rno with h | ⟨c, u, hc⟩
  · exact h
  · exfalso
    -- the loop cannot succeed: the dictionary it runs over has the key `n`, which `__setattr__` rejects in every state
    have hbad : ∀ (x : Tree) (c' : Dict), ∃ e, setAttr T props others c' (.str n) x = .error e := by
      intro x c'
      exact ⟨.attribute, by simp only [setAttr, hn, ho, Bool.false_eq_true, if_false]⟩
    have hnd : ∃ x, lookup (.str n) (updLoop false rno cur [(.str n, .leaf v)]) = some x := by
      rw [updLoop_single]
      cases hl : lookup (.str n) cur with
      | none =>
        simp only [updVal, Option.isSome_none, isNoneOrMissing, Bool.true_or, if_true, Bool.not_false, Bool.or_true]
        exact ⟨_, lookup_setKey_self _ _ _⟩
      | some t =>
        cases hu : updVal false rno (some t) (.leaf v) with
        | none => exact ⟨t, hl⟩
        | some r => exact ⟨r, lookup_setKey_self _ _ _⟩
    obtain ⟨x, hx⟩ := hnd
    obtain ⟨e, he⟩ := setAllS_error_of_mem T props others (.str n) x (hbad x) _ cur (mem_of_lookup hx)
    simp only [updateObj, mergeDict, List.foldl_cons, List.foldl_nil, setKey, hm, Bool.not_true, updateNested, updDict] at hc
    rcases hs : setAllS T props others cur (updLoop false rno cur [(.str n, .leaf v)]) with ⟨c2, r2⟩
    rw [hs] at hc he
    simp only [] at he
    subst he
    simp only [] at hc
    cases hc

/-- the exception is AttributeError when the state is stable (`obj.update()` changes nothing: then the loop reaches the
unknown name; in an unstable state it could raise earlier on a property's own value) -/
theorem update_unknown_name_attribute_error (T : Tables) (props : List (Key × Schema)) (others : List Str) (cur : Dict)
    (n : Str) (v : Option Val) (rno : Bool) (hst : Stable T props others cur) (hk : lookup (.str n) cur = none)
    (hn : lookup (.str n) props = none) (ho : others.contains n = false) (hsep : '_' ∉ n) :
    updateObj T props others cur none [(.str n, .leaf v)] true rno = (cur, .error .attribute) := by
  have hm := magicToDict_single '_' v n [] (by simpa using hsep)
  simp only [joinWith, List.map_cons, List.map_nil, pathTree] at hm
  simp only [updateObj, mergeDict, List.foldl_cons, List.foldl_nil, setKey, hm, Bool.not_true, updateNested, updDict,
    updLoop_single, hk, updVal, Option.isSome_none, isNoneOrMissing, Bool.true_or, if_true, Bool.not_false, Bool.or_true]
  rw [setKey_of_lookup_none hk, setAllS_append, hst]
  simp only [setAllS_cons, setAttr, hn, ho, Bool.false_eq_true, if_false]

/-- … and on the regenerated classes the list `others` needs no mention: every assignable non-property name contains an
underscore, so through `update` EVERY keyword without underscore that is not a property — every public method name
among them — is rejected, for every class at any depth, in every state, and the object stays as it was. -/
theorem update_rejects_every_non_property_name (o : Obj) (c : ClassInfo) (hc : classes[o.cls]? = some c) (path : List Key)
    (ps : List (Key × Schema)) (os : List Str) (sub : Dict)
    (hs : subObj c.schema.props c.schema.others o.tree path = some (ps, os, sub))
    (n : Str) (v : Option Val) (rno : Bool) (hn : lookup (.str n) ps = none) (hsep : '_' ∉ n) :
    ∃ e, updateObj tables ps os sub none [(.str n, .leaf v)] true rno = (sub, .error e) := by
  have hok := nodeOk_of_subObj o c hc path ps os sub hs
  simp only [nodeOk, Bool.and_eq_true, List.all_eq_true] at hok
  have ho : os.contains n = false := by
    cases hcn : os.contains n with
    | false => rfl
    | true =>
      exfalso
      have hmem : n ∈ os := List.contains_iff_mem.mp hcn
      exact hsep (List.contains_iff_mem.mp (hok.2 n hmem))
  exact update_unknown_name_rejected tables ps os sub n v rno hn ho hsep

/-- computed: the state at import time is stable, for the defaults and for a new style object of every class -/
theorem initial_states_stable :
    stableB tables props0 others0 resetResult.1 = true ∧
    classes.all (fun c => match newTree tables c with
      | .ok t => stableB tables c.schema.props c.schema.others t
      | .error _ => false) = true := by
  decide +kernel

/-- non-vacuity of `update_unknown_name_attribute_error`: `magpylib.defaults.update(colour=…)` at import time -/
example : updateObj tables props0 others0 resetResult.1 none [(.str "colour".toList, .leaf (some 8))] true false =
    (resetResult.1, .error .attribute) :=
  update_unknown_name_attribute_error tables props0 others0 resetResult.1 "colour".toList (some 8) false
    (stable_of_stableB _ _ _ _ initial_states_stable.1) (by decide +kernel) (by decide +kernel) (by decide +kernel) (by decide)

/-! ### rejected operations and the state -/

/-- **a rejected attribute assignment leaves the world unchanged** — whatever is rejected (unknown name, invalid value,
unknown keys inside an assigned dict, a path that cannot be followed), at any depth, in any state.
(audit2) CAVEAT: the statement also covers `e = .shadow`, which is NOT a rejection by the code: the real
`X._opacity = "bogus"` raises nothing, changes what `X.opacity` reads and can leave a state in which `X.update()` raises;
for `e = .shadow` this is a statement about the model's convention only (the `sstate` stream undoes the real write
before it compares).  As a statement about the code read it with `e ≠ .shadow`.
Generic in `T Cs D`: it follows from the shape of `step` (`(c, .error e)` returns the old sub-tree) and
`atPath_error_unchanged`, i.e. it is close to the definition of the model; the content is in the `sstate` stream. -/
theorem rejected_setattr_keeps_world (T : Tables) (Cs : List ClassInfo) (D : Tree) (w : World) (i : Nat) (path : List Key) (name : Key)
    (val : Tree) (e : Kind) (h : (step T Cs D w (.setattr i path name val)).2 = .err e) :
    (step T Cs D w (.setattr i path name val)).1 = w := by
  simp only [step, onObj] at h ⊢
  cases hw : w[i]? with
  | none => rfl
  | some o =>
    rw [hw] at h
    simp only [] at h ⊢
    cases hc : Cs[o.cls]? with
    | none => rfl
    | some c =>
      rw [hc] at h
      simp only [] at h ⊢
      generalize hf : (fun ps' os' c => match setAttr T ps' os' c name val with
        | .ok c' => (c', Except.ok ())
        | .error e => (c, Except.error e)) = f at h ⊢
      have hfp : ∀ ps os c e, (f ps os c).2 = .error e → (f ps os c).1 = c := by
        intro ps os c e he
        subst hf
        simp only [] at he ⊢
        cases hs : setAttr T ps os c name val with
        | ok c' => rw [hs] at he; cases he
        | error e' => rfl
      cases hr : (atPath f c.schema.props c.schema.others o.tree path).2 with
      | ok u => rw [hr] at h; cases h
      | error e' =>
        rw [atPath_error_unchanged f hfp path _ _ _ e' hr]
        exact setTree_same w i o hw

/-- a rejected in-place operation on an object that leaves the object as it was leaves the world as it was -/
theorem onObj_rejected (Cs : List ClassInfo) (w : World) (i : Nat) (g : List (Key × Schema) → List Str → Dict → Dict × Except Kind Unit)
    (hg : ∀ ps os c e, (g ps os c).2 = .error e → (g ps os c).1 = c) (e : Kind) (h : (onObj Cs w i g).2 = .err e) :
    (onObj Cs w i g).1 = w := by
  unfold onObj at h ⊢
  cases hw : w[i]? with
  | none => rfl
  | some o =>
    rw [hw] at h
    simp only [] at h ⊢
    cases hc : Cs[o.cls]? with
    | none => rfl
    | some c =>
      rw [hc] at h
      simp only [] at h ⊢
      cases hr : (g c.schema.props c.schema.others o.tree).2 with
      | ok u => rw [hr] at h; cases h
      | error e' =>
        rw [hg _ _ _ e' hr]
        exact setTree_same w i o hw

/-- **C20: a rejected `update` leaves the world identical** (true since repo fix cea5f08; before it the properties sorted
before the offending one kept their new values — the former witness `rejected_update_applies_earlier_keys`).  For every
world, every object (the defaults or an object's style), every sub-object at any depth as the receiver, every argument
dictionary and keyword set in any notation, both flags: if `X.update(…)` raises — an invalid value, an unknown name, a
bad key inside a nested dictionary, an alias with a bad value, a path that cannot be followed — nothing has changed.
Every level is atomic: the receiver's own instance dictionary is put back (its old sub-objects with it), and nothing
above the receiver is written at all (`atPath_error_unchanged`). -/
theorem rejected_update_keeps_state (T : Tables) (Cs : List ClassInfo) (D : Tree) (w : World) (i : Nat) (path : List Key)
    (arg : Option Tree) (kwargs : Dict) (mt rno : Bool) (e : Kind)
    (h : (step T Cs D w (.update i path arg kwargs mt rno)).2 = .err e) :
    (step T Cs D w (.update i path arg kwargs mt rno)).1 = w :=
  onObj_rejected Cs w i _ (fun ps os c e' he => atPath_error_unchanged _
    (fun ps' os' c' e'' => updateObj_error_unchanged T ps' os' c' arg kwargs mt rno e'') path ps os c e' he) e h

def opIsReset : Op → Bool
  | .reset => true
  | _ => false

/-- **every rejected operation leaves the world identical** — updates, assignments, `obj.style = …`,
`display.style.reset()`, reads.  (`defaults.reset()` is excluded here: it is `self.display = None` followed by an update
and so not all-or-nothing by construction, but it never raises: `reset_restores`.)
(audit2) Universally quantified over `T Cs D w op` (nothing is restricted to the panel), but for `update` the
all-or-nothing behaviour is WRITTEN INTO the model (`updateObj` returns `cur` on every error branch, mirroring the
save / restore of repo fix cea5f08), so this theorem restates the model; what ties it to the code is the `sstate` stream
(exact `as_dict()` after every rejected operation, rejected multi-key updates generated on purpose).  `e = .shadow` is
not a rejection by the code, see `rejected_setattr_keeps_world`. -/
theorem rejected_op_keeps_world (T : Tables) (Cs : List ClassInfo) (D : Tree) (w : World) (op : Op) (hr : opIsReset op = false)
    (e : Kind) (h : (step T Cs D w op).2 = .err e) : (step T Cs D w op).1 = w := by
  cases op with
  | update i path arg kwargs mt rno => exact rejected_update_keeps_state T Cs D w i path arg kwargs mt rno e h
  | setattr i path name val => exact rejected_setattr_keeps_world T Cs D w i path name val e h
  | reset => cases hr
  | resetStyle =>
    refine onObj_rejected Cs w 0 _ (fun ps os c e' he => ?_) e h
    unfold resetStyle at he ⊢
    split at he
    · exact atPath_error_unchanged _ (fun ps' os' c' e'' => updateObj_error_unchanged T ps' os' c' _ _ _ _ e'') _ ps os c e' he
    · rfl
  | setStyle i val =>
    by_cases hi : i = 0
    · simp only [step, hi, if_true]
    · simp only [step, hi, if_false] at h ⊢
      cases val with
      | leaf v =>
        cases v with
        | none => exact onObj_rejected Cs w i _ (fun ps os c e' => updateObj_error_unchanged T ps os c _ _ _ _ e') e h
        | some n => rfl
      | node kv => exact onObj_rejected Cs w i _ (fun ps os c e' => updateObj_error_unchanged T ps os c _ _ _ _ e') e h
  | setStyleObj i j =>
    simp only [step]
    split
    · rfl
    · split
      · split
        · split <;> rfl
        · rfl
      · rfl
  | read i path =>
    simp only [step]
    split
    · rfl
    · split
      · rfl
      · split <;> rfl

/-- non-vacuity (the reproducers of the repaired finding): `defaults.display.update(autosizefactor=5, backend="tail")`
raises AssertionError, `update(autosizefactor=5, bogus=1)` AttributeError, `cuboid.style.magnetization.update(size=2,
mode="bogus")` — the deprecated alias next to an invalid value — AssertionError; the trees are what they were; and the
same first keyword alone is accepted and changes the tree -/
example :
    let w := init [1]
    let mag : Key := .str "magnetization".toList
    let r1 := step tables classes defaults w (.update 0 [dk] none [(.str "autosizefactor".toList, .leaf (some 4)), (.str "backend".toList, .leaf (some 41))] true false)
    let r2 := step tables classes defaults w (.update 0 [dk] none [(.str "autosizefactor".toList, .leaf (some 4)), (.str "bogus".toList, .leaf (some 8))] true false)
    let r3 := step tables classes defaults w (.update 1 [mag] none [(.str "size".toList, .leaf (some 15)), (.str "mode".toList, .leaf (some 44))] true false)
    let r4 := step tables classes defaults w (.update 0 [dk] none [(.str "autosizefactor".toList, .leaf (some 4))] true false)
    let same := fun (a b : World) (i : Nat) => match a[i]?, b[i]? with | some x, some y => beqKids x.tree y.tree | _, _ => false
    (match r1.2 with | .err .assertion => true | _ => false) = true ∧
    (match r2.2 with | .err .attribute => true | _ => false) = true ∧
    (match r3.2 with | .err .assertion => true | _ => false) = true ∧
    (match r4.2 with | .ok => true | _ => false) = true ∧
    same r1.1 w 0 = true ∧ same r2.1 w 0 = true ∧ same r3.1 w 1 = true ∧ same r4.1 w 0 = false := by
  decide +kernel

/-! ### reads after writes -/

/- FULL: for every history, the value read at a leaf path is what the setter stored for the last ACCEPTED write that
   covers the path (an assignment or an update key at that path, a dict assigned above it, a reset), else the initial
   value — a refinement of the whole machine to a map `Path → Value`.
   Proved here: the single-step core (an accepted assignment at any depth is read back as the value the leaf's setter
   stores; a rejected one changes nothing: `rejected_setattr_keeps_world`; a reset gives the initial tree whatever came
   before: `reset_restores`; operations on other objects do not interfere: `objects_independent_of_history`).
   Missing: the frame condition for the OTHER leaves of the same object under `update` (it re-assigns every property,
   which is the identity only on stable states: `initial_states_stable` shows stability at import time, its
   preservation by every operation is observed by the `sstate` stream, not proved). -/
/-- **last accepted write is read back (any depth).**  If `path` leads to a sub-object that has the plain property `k`
and the property's setter accepts `val` storing `v'`, then `X.k = val` succeeds and reading `X.k` afterwards gives `v'`. -/
theorem leaf_write_read_back_partial (T : Tables) (k : Key) (val : Tree) (vid : Nat) (v' : Option Val) (hv : runV T vid val = .ok v') :
    ∀ (path : List Key) (ps : List (Key × Schema)) (os : List Str) (c : Dict) (ps' : List (Key × Schema)) (os' : List Str) (c' : Dict),
      subObj ps os c path = some (ps', os', c') → lookup k ps' = some (.leaf vid) →
      (atPath (assignOp T k val) ps os c path).2 = .ok () ∧
      readPath ps (atPath (assignOp T k val) ps os c path).1 (path ++ [k]) = .ok (.leaf v') := by
  intro path
  induction path with
  | nil =>
    intro ps os c ps' os' c' h hk
    simp only [subObj, Option.some.injEq, Prod.mk.injEq] at h
    obtain ⟨rfl, rfl, rfl⟩ := h
    have hs : setAttr T ps os c k val = .ok (setKey k (.leaf v') c) := by
      simp only [setAttr, hk]
      rw [setProp]
      simp only [hv]
    simp only [atPath_nil, assignOp, hs, List.nil_append, readPath, hk, lookup_setKey_self, and_self]
  | cons k0 ks ih =>
    intro ps os c ps' os' c' h hk
    unfold subObj at h
    split at h
    · rename_i ps1 os1 _ _ _ sub hp hc
      obtain ⟨h1, h2⟩ := ih ps1 os1 sub ps' os' c' h hk
      unfold atPath
      simp only [hp, hc]
      refine ⟨h1, ?_⟩
      simp only [List.cons_append, readPath, hp, lookup_setKey_self]
      exact h2
    · cases h

/-- non-vacuity on the regenerated classes: `magpylib.defaults.display.style.base.path.line.width = 2` is read back -/
example : (match (step tables classes defaults
      (step tables classes defaults (init []) (.setattr 0 [dk, .str "style".toList, .str "base".toList, .str "path".toList, .str "line".toList]
        (.str "width".toList) (.leaf (some 15)))).1
      (.read 0 [dk, .str "style".toList, .str "base".toList, .str "path".toList, .str "line".toList, .str "width".toList])).2 with
    | .val (.leaf (some 15)) => true | _ => false) = true := by
  decide +kernel

/-! ### independence of objects -/

/-- **C20: styles of different objects are independent.**  An operation on object `i` (an update in any notation, an
assignment, `obj.style = …`) changes neither the defaults nor the own style of any other object `j` — hence nothing that
is computed from them, in particular `get_style(obj_j)` (any function `F` of the defaults tree and of `obj_j`'s own
tree; `Model/StyleNested.resolveNested` is one). -/
theorem styles_independent (T : Tables) (Cs : List ClassInfo) (D : Tree) (w : World) (op : Op) (j : Nat) {β : Type}
    (F : Option Obj → Option Obj → β) (hj : j ≠ op.target) (h0 : op.target ≠ 0) :
    let w' := (step T Cs D w op).1
    w'[j]? = w[j]? ∧ w'[0]? = w[0]? ∧ F w'[0]? w'[j]? = F w[0]? w[j]? := by
  have h1 := step_frame T Cs D w op j hj
  have h2 := step_frame T Cs D w op 0 (fun e => h0 e.symm)
  exact ⟨h1, h2, by rw [h1, h2]⟩

/-- … for any history: whatever is done to the other objects and to the defaults, object `j`'s own style stays what
it was (and operations on the objects never change the defaults). -/
theorem objects_independent_of_history (T : Tables) (Cs : List ClassInfo) (D : Tree) (w : World) (ops : List Op) (j : Nat)
    (h : ∀ op ∈ ops, op.target ≠ j) : (exec T Cs D w ops)[j]? = w[j]? :=
  exec_frame T Cs D ops w j h

/-- `obj_i.style = obj_j.style` does not make the two objects share a style: the setter (`BaseGeo._validate_style`)
checks the class of the value and then IGNORES it — the world is unchanged whatever the outcome. -/
theorem style_object_assignment_ignored (T : Tables) (Cs : List ClassInfo) (D : Tree) (w : World) (i j : Nat) :
    (step T Cs D w (.setStyleObj i j)).1 = w := by
  simp only [step]
  split
  · rfl
  · split
    · split
      · split <;> rfl
      · rfl
    · rfl

/-- non-vacuity: two Cuboid-class styles and a Sensor-class style; an update of the first changes it and leaves the others -/
example :
    let w := init [1, 1, 2]
    let w' := (step tables classes defaults w (.update 1 [] none [(.str "path_line_width".toList, .leaf (some 15))] true false)).1
    (match w'[1]?, w[1]? with | some a, some b => !beqKids a.tree b.tree | _, _ => false) = true ∧
    (match w'[2]?, w[2]? with | some a, some b => beqKids a.tree b.tree | _, _ => false) = true := by
  decide +kernel

/-! ### history level: what is read from `magpylib.defaults` is the last accepted write, else the default -/

/- FULL: the same for histories that also contain `update` (any notation), assignments of dicts / None to sub-objects and
   `display.style.reset()` on the defaults, and for the objects' own styles.  Those operations re-build sub-objects from
   their dictionaries; that this changes no other leaf needs `construct` to be idempotent on every reached state
   (stability preserved by every operation): `reachable_states_wellformed` below and `reachable_states_stable` in
   Props/C20d.lean.  The refinement for the full operation set is `C20d.reads_refine`; the theorem here is its special
   case for leaf assignments on `magpylib.defaults`, kept because it needs no hypothesis on the other objects' operations.  Proved here: histories in which `magpylib.defaults` itself is
   changed by assignments to plain properties at any depth (accepted or rejected), `reset()` and reads — with ARBITRARY
   operations on the objects in between. -/

/-- the operations on `magpylib.defaults` covered (anything goes on the other objects) -/
def Simple0 : Op → Prop
  | .setattr i p k _ => i ≠ 0 ∨ (leafVid props0 (p ++ [k])).isSome
  | .update i _ _ _ _ _ => i ≠ 0
  | .resetStyle => False
  | _ => True

def outOk : Out → Bool
  | .ok => true
  | _ => false

/-- what a history has done to one leaf: nothing yet / stored `v` / put back to the default -/
inductive Eff where
  | keep
  | set (v : Option Val)
  | init

/-- the specification, one operation with its outcome at a time (no tree in sight): an ACCEPTED assignment to exactly
the path `q` stores what the setter makes of the value, a reset puts the default back, everything else — rejected
assignments, assignments elsewhere, operations on other objects, reads — keeps what was there -/
def effStep (q : List Key) (vid : Nat) (e : Eff) (x : Op × Bool) : Eff :=
  match x.1 with
  | .setattr i p k val =>
    if i = 0 ∧ p ++ [k] = q ∧ x.2 = true then
      (match runV tables vid val with | .ok v => .set v | .error _ => e)
    else e
  | .reset => .init
  | _ => e

/-- a history with the outcome (accepted or not) of every operation -/
def annot : World → List Op → List (Op × Bool)
  | _, [] => []
  | w, op :: t => (op, outOk (step tables classes defaults w op).2) :: annot (step tables classes defaults w op).1 t

def Eff.val (q : List Key) (base : Except Kind Tree) : Eff → Except Kind Tree
  | .keep => base
  | .set v => .ok (.leaf v)
  | .init => readPath props0 resetResult.1 q

/-- `magpylib.defaults.<q>` -/
def read0 (w : World) (q : List Key) : Except Kind Tree :=
  match w[0]? with
  | some o => readPath props0 o.tree q
  | none => .error .other

theorem effStep_val (q : List Key) (vid : Nat) (e : Eff) (x : Op × Bool) (b : Except Kind Tree) :
    (effStep q vid e x).val q b = (effStep q vid .keep x).val q (e.val q b) := by
  unfold effStep
  split
  · split
    · split <;> rfl
    · rfl
  · rfl
  · rfl

theorem foldl_val (q : List Key) (vid : Nat) : ∀ (l : List (Op × Bool)) (e : Eff) (b : Except Kind Tree),
    (l.foldl (effStep q vid) e).val q b = (l.foldl (effStep q vid) .keep).val q (e.val q b) := by
  intro l
  induction l with
  | nil => intro e b; rfl
  | cons x t ih =>
    intro e b
    simp only [List.foldl_cons]
    rw [ih (effStep q vid e x) b, ih (effStep q vid .keep x) (e.val q b), effStep_val]

theorem step_read_world (w : World) (i : Nat) (p : List Key) : (step tables classes defaults w (.read i p)).1 = w := by
  simp only [step]
  split
  · rfl
  · split
    · rfl
    · split <;> rfl

theorem step_reset_inv0 (w : World) (x : Tree) (hx : w[0]? = some ⟨0, [(dk, x)]⟩) :
    step tables classes defaults w .reset = (setTree w 0 resetResult.1, .ofExcept resetResult.2) := by
  show onObj classes w 0 (resetDefaults tables defaults) = _
  rw [onObj_zero _ w x hx, reset_from_any_state]

theorem read0_of_eq {w w' : World} (h : w'[0]? = w[0]?) (q : List Key) : read0 w' q = read0 w q := by
  unfold read0; rw [h]

/-- one operation: the read afterwards is the read before, transformed by the operation's specified effect -/
theorem read0_step (w : World) (h : Inv0 w) (op : Op) (hs : Simple0 op) (q : List Key) (vid : Nat)
    (hq : leafVid props0 q = some vid) :
    read0 (step tables classes defaults w op).1 q =
      (effStep q vid .keep (op, outOk (step tables classes defaults w op).2)).val q (read0 w q) := by
  obtain ⟨x, hx⟩ := h
  cases op with
  | update i path arg kwargs mt rno =>
    have hi : i ≠ 0 := hs
    exact read0_of_eq (step_frame tables classes defaults w (.update i path arg kwargs mt rno) 0 (fun e => hi e.symm)) q
  | setattr i p k val =>
    by_cases hi : i = 0
    · subst hi
      have hvid : ∃ vid', leafVid props0 (p ++ [k]) = some vid' := by
        rcases hs with h0 | h1
        · exact absurd rfl h0
        · exact Option.isSome_iff_exists.mp h1
      obtain ⟨vid', hvid'⟩ := hvid
      have hstep : step tables classes defaults w (.setattr 0 p k val) =
          (setTree w 0 (atPath (assignOp tables k val) props0 others0 [(dk, x)] p).1,
           .ofExcept (atPath (assignOp tables k val) props0 others0 [(dk, x)] p).2) :=
        onObj_zero (fun ps os cur => atPath (assignOp tables k val) ps os cur p) w x hx
      rw [hstep]
      simp only []
      have hread : ∀ t, read0 (setTree w 0 t) q = readPath props0 t q := by
        intro t; unfold read0; rw [setTree_getElem?_self w 0 t _ hx]
      have hbase : read0 w q = readPath props0 [(dk, x)] q := by unfold read0; rw [hx]
      rw [hread, hbase]
      cases hr : (atPath (assignOp tables k val) props0 others0 [(dk, x)] p).2 with
      | error e =>
        have hfp : ∀ ps os c e, (assignOp tables k val ps os c).2 = .error e → (assignOp tables k val ps os c).1 = c := by
          intro ps os c e he
          unfold assignOp at he ⊢
          cases hsa : setAttr tables ps os c k val with
          | ok c' => rw [hsa] at he; cases he
          | error e' => rfl
        rw [atPath_error_unchanged _ hfp p _ _ _ e hr]
        simp [effStep, Out.ofExcept, outOk, Eff.val]
      | ok u =>
        obtain ⟨ps', os', c', v', hsub, hk, hv⟩ := assign_accepted_elim tables k val p props0 others0 [(dk, x)] vid' hvid' hr
        by_cases hpq : p ++ [k] = q
        · have hvv : vid' = vid := by rw [hpq, hq] at hvid'; injection hvid' with e; exact e.symm
          subst hvv
          have hb := (leaf_write_read_back_partial tables k val vid' v' hv p props0 others0 [(dk, x)] ps' os' c' hsub hk).2
          rw [hpq] at hb
          rw [hb]
          simp [effStep, Out.ofExcept, outOk, Eff.val, hpq, hv]
        · rw [assign_frame tables k val vid' v' hv p props0 others0 [(dk, x)] ps' os' c' q vid hsub hk hq (fun e => hpq e.symm)]
          simp [effStep, Eff.val, hpq]
    · rw [read0_of_eq (step_frame tables classes defaults w (.setattr i p k val) 0 (fun e => hi e.symm)) q]
      simp [effStep, Eff.val, hi]
  | reset =>
    rw [step_reset_inv0 w x hx]
    simp only [effStep, Eff.val]
    unfold read0
    rw [setTree_getElem?_self w 0 _ _ hx]
  | resetStyle => exact absurd hs id
  | setStyle i val =>
    by_cases hi : i = 0
    · subst hi
      have : (step tables classes defaults w (.setStyle 0 val)).1 = w := by simp [step]
      rw [this]; rfl
    · exact read0_of_eq (step_frame tables classes defaults w (.setStyle i val) 0 (fun e => hi e.symm)) q
  | setStyleObj i j =>
    rw [style_object_assignment_ignored]; rfl
  | read i p =>
    rw [step_read_world]; rfl

theorem reads_refine_from (q : List Key) (vid : Nat) (hq : leafVid props0 q = some vid) : ∀ (ops : List Op) (w : World), Inv0 w →
    (∀ op ∈ ops, Simple0 op) →
    read0 (exec tables classes defaults w ops) q = ((annot w ops).foldl (effStep q vid) .keep).val q (read0 w q) := by
  intro ops
  induction ops with
  | nil => intro w _ _; rfl
  | cons op t ih =>
    intro w hw hs
    rw [exec_cons, annot, List.foldl_cons, foldl_val,
      ih _ (inv0_step w op hw) (fun o ho => hs o (List.mem_cons_of_mem _ ho)),
      read0_step w hw op (hs op (List.mem_cons_self ..)) q vid hq]

/-- **C20, history level (defaults, leaf assignments / resets / reads; arbitrary operations on the objects).**  After any
such history, reading a plain property `q` of `magpylib.defaults` (any depth) gives: the value its setter stored for the
LAST ACCEPTED assignment to `q` since the last `reset()`, else the default — i.e. the state machine refines the map
`path ↦ value` computed from the operations and their outcomes alone (`effStep`). -/
theorem defaults_reads_refine_partial (cls : List Nat) (ops : List Op) (hs : ∀ op ∈ ops, Simple0 op) (q : List Key) (vid : Nat)
    (hq : leafVid props0 q = some vid) :
    read0 (exec tables classes defaults (init cls) ops) q =
      ((annot (init cls) ops).foldl (effStep q vid) .keep).val q (readPath props0 resetResult.1 q) := by
  rw [reads_refine_from q vid hq ops (init cls) (inv0_init cls) hs]
  unfold read0
  rw [init_zero]

/-- non-vacuity: accepted write (5), write to another leaf, rejected write ('tail' is no number), an update of an object's
style and a read in between: the specification says `set 5`; after a further reset it says `init` -/
example :
    let q : List Key := [dk, .str "autosizefactor".toList]
    let ops : List Op := [.setattr 0 [dk] (.str "autosizefactor".toList) (.leaf (some 4)),
      .setattr 0 [dk, .str "animation".toList] (.str "fps".toList) (.leaf (some 4)),
      .setattr 0 [dk] (.str "autosizefactor".toList) (.leaf (some 41)),
      .update 1 [] none [(.str "opacity".toList, .leaf (some 21))] true false, .read 0 q]
    (leafVid props0 q).isSome = true ∧
    (match (annot (init [1]) ops).foldl (effStep q ((leafVid props0 q).getD 0)) .keep with | .set (some 4) => true | _ => false) = true ∧
    (match (annot (init [1]) (ops ++ [.reset])).foldl (effStep q ((leafVid props0 q).getD 0)) .keep with | .init => true | _ => false) = true ∧
    (match read0 (exec tables classes defaults (init [1]) ops) q with | .ok (.leaf (some 4)) => true | _ => false) = true := by
  decide +kernel

/-! ### an invariant of every history: all states are well formed -/

/-- every object of the world is well formed for its class: its tree has exactly the non-alias properties of the class
as keys, in `dir()` order, recursively for every sub-object, and every stored leaf value is a fixpoint of its own
validator (assigning it again stores it again) -/
def WFW (w : World) : Prop :=
  ∀ (i : Nat) (o : Obj), w[i]? = some o → ∃ c, classes[o.cls]? = some c ∧ wfKids (fixB tables) c.schema.props o.tree = true

/-- computed over the regenerated validator table (22 rows × 86 values): whatever a setter stores, it stores unchanged
when it is assigned again — None, every panel value, the dict case.
(audit2) This is a fact about the PROBED table (a closed world of 86 values: the hard coded defaults, 31 probe values and
what the setters store for them; each setter probed on a NEW instance), not about the validators' code: idempotence for
a value outside the panel (`opacity = 0.37`), and independence of a setter from the object's other properties, are not
shown here (the `sstate` stream compares after every operation; `values_outside_panel` must be 0 there).
Not vacuous: `schema_tables_nonvacuous`. -/
theorem validators_idempotent : idemB tables = true := by
  decide +kernel

/-- computed over the 37 regenerated classes: property names pairwise different in every class, alias targets are
paths of length ≥ 2, every class can be instantiated without arguments -/
def isObjSchema : Schema → Bool
  | .obj _ _ _ _ _ => true
  | _ => false

theorem classes_wellformed :
    classes.all (fun c => okSchema c.schema && isOkD (newTree tables c) && isObjSchema c.schema) = true ∧
    wfKids (fixB tables) props0 resetResult.1 = true := by
  decide +kernel

theorem okProps_of_okSchema {s : Schema} (h : okSchema s = true) : okProps s.props = true := by
  cases s with
  | leaf v => rfl
  | alias t => rfl
  | obj ps a b c d =>
    rw [okSchema] at h
    simp only [Bool.and_eq_true] at h
    exact h.1.1

theorem class_ok {c : ClassInfo} (hc : c ∈ classes) : okProps c.schema.props = true := by
  have := List.all_eq_true.mp classes_wellformed.1 c hc
  simp only [Bool.and_eq_true] at this
  exact okProps_of_okSchema this.1.1

theorem onObj_wfw (f : List (Key × Schema) → List Str → Dict → Dict × Except Kind Unit)
    (hf : ∀ ps os c, okProps ps = true → wfKids (fixB tables) ps c = true → wfKids (fixB tables) ps (f ps os c).1 = true)
    (w : World) (i : Nat) (h : WFW w) : WFW (onObj classes w i f).1 := by
  unfold onObj
  cases hw : w[i]? with
  | none => exact h
  | some o =>
    simp only []
    cases hc : classes[o.cls]? with
    | none => exact h
    | some c =>
      simp only []
      intro j o' hj
      by_cases hji : j = i
      · subst hji
        rw [setTree_getElem?_self w j _ o hw] at hj
        injection hj with hj
        subst hj
        obtain ⟨c', hc', hwf⟩ := h j o hw
        rw [hc] at hc'
        injection hc' with hc'
        subst hc'
        exact ⟨c, hc, hf _ _ _ (class_ok (List.mem_of_getElem? hc)) hwf⟩
      · rw [setTree_getElem?_ne w i j _ hji] at hj
        exact h j o' hj

theorem wfw_step (w : World) (op : Op) (h : WFW w) : WFW (step tables classes defaults w op).1 := by
  have hT := validators_idempotent
  cases op with
  | update i path arg kwargs mt rno =>
    exact onObj_wfw _ (fun ps os c hok hw => atPath_wf tables _
      (fun ps' os' c' hok' hw' => updateObj_wf tables hT ps' hok' os' c' arg kwargs mt rno hw') path ps os c hok hw) w i h
  | setattr i path name val =>
    refine onObj_wfw _ (fun ps os c hok hw => atPath_wf tables _ (fun ps' os' c' hok' hw' => ?_) path ps os c hok hw) w i h
    cases hs : setAttr tables ps' os' c' name val with
    | ok c2 => simp only [hs]; exact setAttr_wf tables hT ps' hok' os' c' name val c2 hw' hs
    | error e => simp only [hs]; exact hw'
  | reset =>
    refine onObj_wfw _ (fun ps os c hok hw => ?_) w 0 h
    unfold resetDefaults
    cases hs : setAttr tables ps os c (.str "display".toList) (.leaf none) with
    | error e => exact hw
    | ok c1 => exact updateObj_wf tables hT ps hok os c1 _ _ _ _ (setAttr_wf tables hT ps hok os c _ _ c1 hw hs)
  | resetStyle =>
    refine onObj_wfw _ (fun ps os c hok hw => ?_) w 0 h
    unfold resetStyle
    split
    · exact atPath_wf tables _ (fun ps' os' c' hok' hw' => updateObj_wf tables hT ps' hok' os' c' _ _ _ _ hw') _ ps os c hok hw
    · exact hw
  | setStyle i val =>
    by_cases hi : i = 0
    · simp only [step, hi, if_true]; exact h
    · simp only [step, hi, if_false]
      cases val with
      | leaf v =>
        cases v with
        | none => exact onObj_wfw _ (fun ps os c hok hw => updateObj_wf tables hT ps hok os c _ _ _ _ hw) w i h
        | some n => exact h
      | node kv => exact onObj_wfw _ (fun ps os c hok hw => updateObj_wf tables hT ps hok os c _ _ _ _ hw) w i h
  | setStyleObj i j => rw [style_object_assignment_ignored]; exact h
  | read i p => rw [step_read_world]; exact h

theorem wfw_init (cls : List Nat) (hcls : ∀ ci ∈ cls, ci < classes.length) : WFW (init cls) := by
  have hT := validators_idempotent
  obtain ⟨bases, hb⟩ := classes_zero
  intro i o hi
  cases i with
  | zero =>
    rw [init_zero] at hi
    injection hi with hi
    have hcls0 : o.cls = 0 := by rw [← hi]
    have htree : o.tree = resetResult.1 := by rw [← hi]
    refine ⟨⟨"DefaultSettings".toList, bases, cDefaultSettings⟩, by rw [hcls0]; exact hb, ?_⟩
    rw [htree]
    simp only [props0_eq]
    exact classes_wellformed.2
  | succ j =>
    unfold init initWorld at hi
    rw [hb] at hi
    simp only [List.cons_append, List.nil_append, List.getElem?_cons_succ, List.getElem?_map] at hi
    cases hj : cls[j]? with
    | none => rw [hj] at hi; cases hi
    | some ci =>
      rw [hj] at hi
      simp only [Option.map_some, Option.some.injEq] at hi
      have hlt : ci < classes.length := hcls ci (List.mem_of_getElem? hj)
      have hc : classes[ci]? = some classes[ci] := List.getElem?_eq_getElem hlt
      subst hi
      refine ⟨classes[ci], hc, ?_⟩
      simp only [hc]
      have hmem : classes[ci] ∈ classes := List.getElem_mem hlt
      have hfact := List.all_eq_true.mp classes_wellformed.1 _ hmem
      simp only [Bool.and_eq_true] at hfact
      cases hn : newTree tables classes[ci] with
      | error e => rw [hn] at hfact; cases hfact.1.2
      | ok t =>
        simp only []
        unfold newTree at hn
        cases hsch : classes[ci].schema with
        | leaf v => rw [hsch] at hfact; cases hfact.2
        | alias tg => rw [hsch] at hfact; cases hfact.2
        | obj ps a b ct vk =>
          rw [hsch] at hn hfact
          exact construct_wf tables hT ps a b ct vk hfact.1.1 [] t hn

/-- **C20, an invariant of every history (stability's foundation).**  After ANY history of operations — updates in any
notation with any flags on any sub-object, assignments of values, dicts, None or strings, accepted or rejected, resets —
every object (the defaults and every style) is well formed: its tree has exactly the class's non-alias properties as
keys in `dir()` order at every level, and every stored leaf is a value its validator accepts and stores unchanged.
(audit2) "Reachable" = reachable IN THE MODEL from `init cls` (regenerated DEFAULTS, a new style object per entry of
`cls`) over all seven constructors of `Op`; proved, not assumed.  A history with an operation whose model outcome is
`shadow` (assignment to a private slot `_opacity`, `__doc__`, …) is outside the tie: the code accepts the write, the
model leaves the world alone — after `style._opacity = "bogus"` the real state is NOT stable. -/
theorem reachable_states_wellformed (cls : List Nat) (hcls : ∀ ci ∈ cls, ci < classes.length) :
    ∀ (ops : List Op), WFW (exec tables classes defaults (init cls) ops) := by
  have key : ∀ (ops : List Op) (w : World), WFW w → WFW (exec tables classes defaults w ops) := by
    intro ops
    induction ops with
    | nil => intro w h; exact h
    | cons op t ih => intro w h; rw [exec_cons]; exact ih _ (wfw_step w op h)
  intro ops
  exact key ops _ (wfw_init cls hcls)

/-! ### audit2: guards and applied examples -/

/-- **the regenerated tables are not empty and every validator row is complete** (guards the `decide` theorems of this
file — `all_nodes_ok`, `initial_states_stable`, `validators_idempotent`, `classes_wellformed` — against an empty or
truncated table): at least 8 top-level classes (`DefaultSettings` and the style classes), every object class points to
one of them (not to index 0), at least 20 validator rows, the panel has at least 80 values, every row has an outcome for
EVERY panel value (so the totalising `getD (.error .other)` of `runV` is reached only by indices outside the panel), and
the class trees have at least 37 class nodes (counted with repetition) -/
theorem schema_tables_nonvacuous :
    classes.length ≥ 8 ∧ objectClasses.all (fun oc => decide (0 < oc.2) && decide (oc.2 < classes.length)) = true ∧
    tables.leafV.length ≥ 20 ∧ panel.length ≥ 80 ∧ tables.isStr.length = panel.length ∧
    tables.leafV.all (fun r => r.onVal.length == panel.length) = true ∧
    (classes.map (fun c => 1 + (nodesL c.schema.props).length)).sum ≥ 37 := by
  decide +kernel

/-! ### the name theorems APPLIED (every hypothesis instantiated on the regenerated classes) -/

def exStylePath : List Key := [dk, .str "style".toList]
/-- `magpylib.defaults` at import time, and its class -/
def exO : Obj := ⟨0, resetResult.1⟩
def exC : ClassInfo := classes[0]'(by decide)

theorem exC_class : classes[exO.cls]? = some exC := List.getElem?_eq_getElem (by decide)

theorem exO_init : (init [])[0]? = some exO := init_zero []

/-- computed: at import time `defaults.display.style` is a sub-object, and `colour` is neither a property of its class
nor one of the names its class lets through -/
theorem exStyle_sub :
    (match subObj exC.schema.props exC.schema.others exO.tree exStylePath with
      | some (ps, os, _) => (lookup (.str "colour".toList) ps).isNone && !os.contains "colour".toList
      | none => false) = true := by
  decide +kernel

theorem exStyle_sub_elim : ∃ ps os sub, subObj exC.schema.props exC.schema.others exO.tree exStylePath = some (ps, os, sub) ∧
    lookup (.str "colour".toList) ps = none ∧ os.contains "colour".toList = false := by
  have h := exStyle_sub
  cases hs : subObj exC.schema.props exC.schema.others exO.tree exStylePath with
  | none => rw [hs] at h; cases h
  | some r =>
    obtain ⟨ps, os, sub⟩ := r
    rw [hs] at h
    simp only [Bool.and_eq_true, Option.isNone_iff_eq_none, Bool.not_eq_true'] at h
    exact ⟨ps, os, sub, rfl, h.1, h.2⟩

/-- `method_names_rejected`, `setattr_unknown_name_rejected_at` and `update_rejects_every_non_property_name` APPLIED (all
hypotheses instantiated, two levels down, at import time): `magpylib.defaults.display.style.reset = None`,
`defaults.display.style.colour = 1`, `defaults.display.style.update(colour=1)` -/
example : ∃ ps os sub, subObj exC.schema.props exC.schema.others exO.tree exStylePath = some (ps, os, sub) ∧
    step tables classes defaults (init []) (.setattr 0 exStylePath (.str "reset".toList) (.leaf none)) = (init [], .err .attribute) ∧
    step tables classes defaults (init []) (.setattr 0 exStylePath (.str "colour".toList) (.leaf (some 8))) = (init [], .err .attribute) ∧
    ∃ e, updateObj tables ps os sub none [(.str "colour".toList, .leaf (some 8))] true false = (sub, .error e) := by
  obtain ⟨ps, os, sub, hs, hn, ho⟩ := exStyle_sub_elim
  exact ⟨ps, os, sub, hs,
    method_names_rejected (init []) 0 exO exC exStylePath ps os sub "reset".toList (.leaf none) exO_init exC_class hs (by decide),
    setattr_unknown_name_rejected_at tables classes defaults (init []) 0 exO exC exStylePath ps os sub "colour".toList (.leaf (some 8))
      exO_init exC_class hs hn ho,
    update_rejects_every_non_property_name exO exC exC_class exStylePath ps os sub hs "colour".toList (some 8) false hn (by decide)⟩

def outErr : Out → Option Kind
  | .err e => some e
  | _ => none

theorem out_of_outErr {x : Out} {e : Kind} (h : outErr x = some e) : x = .err e := by
  cases x with
  | ok => cases h
  | err e' => simp only [outErr, Option.some.injEq] at h; rw [h]
  | val t => cases h

/-- `defaults.display.update(autosizefactor=5, backend="tail")`: a valid keyword in front of a refused value -/
def exRejOp : Op :=
  .update 0 [dk] none [(.str "autosizefactor".toList, .leaf (some 4)), (.str "backend".toList, .leaf (some 41))] true false

/-- `rejected_op_keeps_world` / `rejected_update_keeps_state` APPLIED: the hypothesis (the operation is rejected, here
with AssertionError) is established by computation, the conclusion is the theorem's -/
example : (step tables classes defaults (init [1]) exRejOp).1 = init [1] :=
  rejected_op_keeps_world tables classes defaults (init [1]) exRejOp rfl .assertion (out_of_outErr (by decide +kernel))

end MagpyVerif.C20c
