/-
Props/C01.lean — fields equal the magnetostatic integrals they claim to solve.
Proved: Dipole kernel = point-dipole formula; the one-variable Biot–Savart integral of a
straight filament that `current_polyline_Hfield` evaluates in closed form (antiderivative and
definite integral, by the fundamental theorem of calculus); Sphere = ⅔J inside / dipole outside
with the textbook interface conditions (C13, C14); the wrappers add exactly the interior
polarization term (C02); the frame change global↔local is a rigid motion (C03).
/- FULL: for every class the closed form equals its defining surface / line integral.  Not shown:
   (a) that `segmentH`'s |sinθ₁ ∓ sinθ₂| case split equals the definite integral below for every
   position of the foot point (the integral itself is proved); (b) Cuboid, Triangle (hence
   Tetrahedron, TriangularMesh): iterated one-variable integrals of the same kind; (c) Circle,
   Cylinder, CylinderSegment: need Bulirsch cel/el3 theory absent from Mathlib.  For all classes
   the quadrature oracle integrates the defining integral numerically against the real code. -/
-/
import Mathlib.Analysis.SpecialFunctions.Integrals.Basic
import Mathlib.Analysis.SpecialFunctions.Sqrt
import MagpyVerif.Lemmas.KernReal
namespace MagpyVerif.C01
open MagpyVerif MagpyVerif.Kern Real intervalIntegral

/-- antiderivative used by the straight-segment Biot–Savart integral -/
theorem hasDerivAt_seg (d : ℝ) (hd : 0 < d) (t : ℝ) :
    HasDerivAt (fun t => t / (d^2 * Real.sqrt (t^2 + d^2)))
      (1 / ((t^2 + d^2) * Real.sqrt (t^2 + d^2))) t := by
  have hpos : 0 < t^2 + d^2 := by positivity
  have hs : HasDerivAt (fun t => Real.sqrt (t^2 + d^2)) ((2*t) / (2 * Real.sqrt (t^2+d^2))) t := by
    have h1 : HasDerivAt (fun t : ℝ => t^2 + d^2) (2*t) t := by
      simpa using ((hasDerivAt_pow 2 t).add_const (d^2))
    exact h1.sqrt hpos.ne'
  have hsq : Real.sqrt (t^2+d^2) ≠ 0 := (Real.sqrt_pos.mpr hpos).ne'
  have hden : HasDerivAt (fun t => d^2 * Real.sqrt (t^2 + d^2)) (d^2 * ((2*t) / (2 * Real.sqrt (t^2+d^2)))) t :=
    hs.const_mul (d^2)
  have hq : HasDerivAt (fun t => t / (d^2 * Real.sqrt (t^2 + d^2))) _ t :=
    (hasDerivAt_id' t).div hden (by positivity)
  refine hq.congr_deriv ?_
  have hss : Real.sqrt (t^2+d^2) * Real.sqrt (t^2+d^2) = t^2+d^2 := Real.mul_self_sqrt hpos.le
  set s := Real.sqrt (t^2+d^2) with hs_def
  have hspos : 0 < s := Real.sqrt_pos.mpr hpos
  have hd2 : t^2 + d^2 = s*s := hss.symm
  rw [hd2]
  field_simp
  nlinarith [hss, hd2]

/-- the Biot–Savart integral of a straight filament at perpendicular distance `d`, between the
line coordinates `a` and `b` of its end points (the closed form the polyline kernel evaluates:
`b/√(b²+d²) − a/√(a²+d²) = sinθ₂ − sinθ₁`, divided by `d²`) -/
theorem integral_seg (d a b : ℝ) (hd : 0 < d) :
    ∫ t in a..b, 1 / ((t^2 + d^2) * Real.sqrt (t^2 + d^2)) =
      b / (d^2 * Real.sqrt (b^2 + d^2)) - a / (d^2 * Real.sqrt (a^2 + d^2)) := by
  apply integral_eq_sub_of_hasDerivAt (fun t _ => hasDerivAt_seg d hd t)
  apply Continuous.intervalIntegrable
  have : ∀ t : ℝ, (t^2 + d^2) * Real.sqrt (t^2 + d^2) ≠ 0 := by
    intro t; have hpos : 0 < t^2 + d^2 := by positivity
    exact mul_ne_zero hpos.ne' (Real.sqrt_pos.mpr hpos).ne'
  exact continuous_const.div (by fun_prop) this

/-- C01 (Dipole): the kernel is the point-dipole formula -/
theorem dipole_is_point_dipole (m x : V3 ℝ) (hx : Kern.norm x ≠ 0) :
    dipoleH m x = vs (1 / (4 * Real.pi))
      (vd (vs (3 * V3.dot m x) x) (Kern.norm x ^ 5) - vd m (Kern.norm x ^ 3)) := by
  have hpi : Real.pi ≠ 0 := Real.pi_ne_zero
  simp only [dipoleH, n, ofNat_real, Nat.cast_ofNat, pi_real]
  generalize Kern.norm x = r at *
  apply V3.ext' <;> simp [vs, vd] <;> field_simp
end MagpyVerif.C01
