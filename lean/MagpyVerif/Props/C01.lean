/-
Props/C01.lean — fields equal the magnetostatic integrals they claim to solve.
Proved: Dipole kernel = point-dipole formula = minus the gradient of the scalar potential
m·x/(4π|x|³) (three `HasDerivAt` computations); the straight current segment: the port of
`current_polyline_Hfield` (normalisation, foot point, all three branches of the sinθ case split,
direction) equals the Biot–Savart line integral over the segment for every observer off the
carrier line (`segment_is_biot_savart`, via the antiderivative, the fundamental theorem of
calculus and an affine substitution — Lemmas/SegmentBS.lean); the Circle on its axis
(`circle_on_axis_is_biot_savart`: the wrapper's on-axis branch is the loop integral) and off its
axis modulo ONE named classical fact about Bulirsch's `cel` iteration (`CelComputesIntegral`, an
ordinary hypothesis: the iteration converges to the cel integral): `circle_kernel_is_biot_savart_plus_cel_error`
(exact, hypothesis-free: kernel = κ·Biot–Savart + prefactor·(cel iteration value − cel integral)),
`circle_is_biot_savart_of_cel`, `circle_integrals_as_cel`, `circle_loop_integrals`
(Lemmas/CircleBS.lean); the Cuboid: the port of
`magnet_cuboid_Bfield` (octant reflection, arctan2 sums, log differences, `qsigns`) equals the
Coulombian surface-charge integral over its six faces for every observer off the six face planes,
all octants, plus J inside (`cuboid_is_coulomb_integral`, via two nested one-variable FTC steps per
face — Lemmas/RectCharge.lean, Lemmas/CuboidCoulomb.lean); Sphere = ⅔J inside / dipole outside
with the textbook interface conditions (C13, C14); the wrappers add exactly the interior
polarization term (C02); the frame change global↔local is a rigid motion (C03).
/- FULL: for every class the closed form equals its defining surface / line integral.  Not shown:
   (b) Triangle (hence
   Tetrahedron, TriangularMesh): iterated one-variable integrals of the same kind; (c) that the cel
   iteration converges to the cel integral (Circle off its axis: everything else is proved);
   Cylinder, CylinderSegment: need Bulirsch cel/el3 theory absent from Mathlib.  For all classes
   the quadrature oracle integrates the defining integral numerically against the real code. -/
-/
import Mathlib.Analysis.SpecialFunctions.Integrals.Basic
import MagpyVerif.Lemmas.KernelLiterals
import Mathlib.Analysis.SpecialFunctions.Sqrt
import MagpyVerif.Lemmas.KernReal
import MagpyVerif.Lemmas.SegmentBS
import Mathlib.Analysis.Calculus.Deriv.MeanValue
import MagpyVerif.Lemmas.DipoleCalc
import MagpyVerif.Lemmas.RectCharge
import MagpyVerif.Lemmas.CuboidCoulomb
import MagpyVerif.Lemmas.CircleBS
namespace MagpyVerif.C01
open MagpyVerif MagpyVerif.Kern Real intervalIntegral MagpyVerif.SegBS

/-- antiderivative used by the straight-segment Biot–Savart integral -/
theorem hasDerivAt_seg (d : ℝ) (hd : 0 < d) (t : ℝ) :
    HasDerivAt (fun t => t / (d^2 * Real.sqrt (t^2 + d^2)))
      (1 / ((t^2 + d^2) * Real.sqrt (t^2 + d^2))) t := by
  have hpos : 0 < t^2 + d^2 := by positivity
  have hs : HasDerivAt (fun t => Real.sqrt (t^2 + d^2)) ((2*t) / (2 * Real.sqrt (t^2+d^2))) t := by
    have h1 : HasDerivAt (fun t : ℝ => t^2 + d^2) (2*t) t := by
      simpa using ((hasDerivAt_pow 2 t).add_const (d^2))
    exact h1.sqrt hpos.ne'
  have hsq : Real.sqrt (t^2+d^2) ≠ 0 := (Real.sqrt_pos.mpr hpos).ne'
  have hden : HasDerivAt (fun t => d^2 * Real.sqrt (t^2 + d^2)) (d^2 * ((2*t) / (2 * Real.sqrt (t^2+d^2)))) t :=
    hs.const_mul (d^2)
  have hq : HasDerivAt (fun t => t / (d^2 * Real.sqrt (t^2 + d^2))) _ t :=
    (hasDerivAt_id' t).div hden (by positivity)
  refine hq.congr_deriv ?_
  have hss : Real.sqrt (t^2+d^2) * Real.sqrt (t^2+d^2) = t^2+d^2 := Real.mul_self_sqrt hpos.le
  set s := Real.sqrt (t^2+d^2) with hs_def
  have hspos : 0 < s := Real.sqrt_pos.mpr hpos
  have hd2 : t^2 + d^2 = s*s := hss.symm
  rw [hd2]
  field_simp
  nlinarith [hss, hd2]

/-- the Biot–Savart integral of a straight filament at perpendicular distance `d`, between the
line coordinates `a` and `b` of its end points (the closed form the polyline kernel evaluates:
`b/√(b²+d²) − a/√(a²+d²) = sinθ₂ − sinθ₁`, divided by `d²`) -/
theorem integral_seg (d a b : ℝ) (hd : 0 < d) :
    ∫ t in a..b, 1 / ((t^2 + d^2) * Real.sqrt (t^2 + d^2)) =
      b / (d^2 * Real.sqrt (b^2 + d^2)) - a / (d^2 * Real.sqrt (a^2 + d^2)) := by
  apply integral_eq_sub_of_hasDerivAt (fun t _ => hasDerivAt_seg d hd t)
  apply Continuous.intervalIntegrable
  have : ∀ t : ℝ, (t^2 + d^2) * Real.sqrt (t^2 + d^2) ≠ 0 := by
    intro t; have hpos : 0 < t^2 + d^2 := by positivity
    exact mul_ne_zero hpos.ne' (Real.sqrt_pos.mpr hpos).ne'
  exact continuous_const.div (by fun_prop) this

/-- C01 (Dipole): the kernel is the point-dipole formula -/
theorem dipole_is_point_dipole (m x : V3 ℝ) (hx : Kern.norm x ≠ 0) :
    dipoleH m x = vs (1 / (4 * Real.pi))
      (vd (vs (3 * V3.dot m x) x) (Kern.norm x ^ 5) - vd m (Kern.norm x ^ 3)) := by
  have hpi : Real.pi ≠ 0 := Real.pi_ne_zero
  simp only [dipoleH, n, ofNat_real, Nat.cast_ofNat, pi_real]
  generalize Kern.norm x = r at *
  apply V3.ext' <;> simp [vs, vd] <;> field_simp
-- (audit) this theorem only rewrites r·r·r·r·r as r⁵ and /4/π as ·1/(4π): it restates the definition of the kernel (which IS the
-- point-dipole formula the property names); the hypothesis is satisfiable, and it is not even needed (x/0 = 0 on both sides)
example : Kern.norm (⟨0, 0, 1⟩ : V3 ℝ) ≠ 0 := by simp [Kern.norm]

/-- the Biot–Savart integrand `dl × r / |r|³` at parameter `s ∈ [0,1]` along the segment p1 → p2:
`dl = (p2 − p1) ds`, `r = po − (p1 + s (p2 − p1))` -/
noncomputable def bsIntegrand (p1 p2 po : V3 ℝ) (s : ℝ) : V3 ℝ :=
  vd (V3.cross (p2 - p1) (po - (p1 + vs s (p2 - p1)))) (Kern.norm (po - (p1 + vs s (p2 - p1))) ^ 3)

theorem bsIntegrand_eq (p1 p2 po : V3 ℝ) (s : ℝ) :
    bsIntegrand p1 p2 po s =
      vs (1 / (nsq (po - (p1 + vs s (p2 - p1))) * Real.sqrt (nsq (po - (p1 + vs s (p2 - p1))))))
        (V3.cross (p2 - p1) (po - p1)) := by
  have hc : V3.cross (p2 - p1) (po - (p1 + vs s (p2 - p1))) = V3.cross (p2 - p1) (po - p1) := by
    apply V3.ext' <;> simp only [V3.cross, vs, V3.add_x, V3.add_y, V3.add_z, V3.sub_x, V3.sub_y, V3.sub_z] <;> ring
  have hn : Kern.norm (po - (p1 + vs s (p2 - p1))) ^ 3 =
      nsq (po - (p1 + vs s (p2 - p1))) * Real.sqrt (nsq (po - (p1 + vs s (p2 - p1)))) := by
    rw [norm_eq]
    have h2 := Real.mul_self_sqrt (nsq_nonneg (po - (p1 + vs s (p2 - p1))))
    calc Real.sqrt (nsq (po - (p1 + vs s (p2 - p1)))) ^ 3
        = (Real.sqrt (nsq (po - (p1 + vs s (p2 - p1)))) * Real.sqrt (nsq (po - (p1 + vs s (p2 - p1))))) *
            Real.sqrt (nsq (po - (p1 + vs s (p2 - p1)))) := by ring
      _ = _ := by rw [h2]
  unfold bsIntegrand
  rw [hc, hn]
  apply V3.ext' <;> simp only [vs, vd] <;> ring

/-- **C01 (Polyline segment)**: for every current, every segment and every observer off the carrier
line, the value computed by the port of `current_polyline_Hfield` — normalisation by the segment
length, foot point, the `mask2/mask3/mask4` choice between |sinθ₁ − sinθ₂| and |sinθ₁ + sinθ₂|,
direction vector — is the Biot–Savart line integral `I/(4π) ∫₀¹ dl × r / |r|³` over the segment,
component by component. -/
theorem segment_is_biot_savart (cur : ℝ) (p1 p2 po : V3 ℝ)
    (hoff : 0 < nsq (V3.cross (p2 - p1) (po - p1))) :
    segmentH cur p1 p2 po = vs (cur / (4 * Real.pi))
      ⟨∫ s in (0:ℝ)..1, (bsIntegrand p1 p2 po s).x, ∫ s in (0:ℝ)..1, (bsIntegrand p1 p2 po s).y,
       ∫ s in (0:ℝ)..1, (bsIntegrand p1 p2 po s).z⟩ := by
  rw [segmentH_eq p1 p2 po cur hoff]
  simp only [bsIntegrand_eq, vs, K]
  rw [intervalIntegral.integral_mul_const, intervalIntegral.integral_mul_const, intervalIntegral.integral_mul_const]
  apply V3.ext' <;> simp only <;> ring

-- non-vacuity: segment along x, observer above its middle
example : 0 < nsq (V3.cross ((⟨1, 0, 0⟩ : V3 ℝ) - ⟨0, 0, 0⟩) (⟨1/2, 1, 0⟩ - ⟨0, 0, 0⟩)) := by
  simp [nsq, V3.cross]
/-- C01 (Dipole): `dipole_Hfield` is minus the gradient of the magnetic scalar potential of a point
dipole, φ(x) = m·x / (4π|x|³) (`dipolePotential`): at every point (x,y,z) other than the dipole
position the three partial derivatives of φ exist and equal −Hx, −Hy, −Hz of the model kernel.
This is the defining relation H = −∇φ of the field the kernel claims to compute. -/
theorem dipole_is_minus_grad (m : V3 ℝ) (x y z : ℝ) (hx : (⟨x, y, z⟩ : V3 ℝ) ≠ ⟨0, 0, 0⟩) :
    HasDerivAt (fun t => dipolePotential m ⟨t, y, z⟩) (-(dipoleH m ⟨x, y, z⟩).x) x ∧
    HasDerivAt (fun t => dipolePotential m ⟨x, t, z⟩) (-(dipoleH m ⟨x, y, z⟩).y) y ∧
    HasDerivAt (fun t => dipolePotential m ⟨x, y, t⟩) (-(dipoleH m ⟨x, y, z⟩).z) z :=
  dipolePotential_grad m ⟨x, y, z⟩ (norm_ne_zero_of_ne hx)

/-- non-vacuity: moment (0,0,1), point (0,0,1): φ = 1/(4π) there and ∂φ/∂z = −Hz = −1/(2π) ≠ 0 -/
example : HasDerivAt (fun t => dipolePotential ⟨0, 0, 1⟩ (⟨0, 0, t⟩ : V3 ℝ))
    (-(dipoleH ⟨0, 0, 1⟩ (⟨0, 0, 1⟩ : V3 ℝ)).z) 1 := (dipole_is_minus_grad ⟨0, 0, 1⟩ 0 0 1 (by simp)).2.2
example : dipolePotential ⟨0, 0, 1⟩ (⟨0, 0, 1⟩ : V3 ℝ) = 1 / (4 * Real.pi) := by
  simp [dipolePotential, V3.dot, norm_axis_z 1 zero_le_one]

/-- the antiderivative `g(t) = t / (d²·√(t²+d²))` of the straight-filament integrand is strictly
increasing for d > 0 (its derivative `1/((t²+d²)√(t²+d²))` is positive).  Consequence for the
code: for a segment whose end points have line coordinates a < b the quantity
`sinθ₂ − sinθ₁ = d²·(g b − g a)` that `current_polyline_Hfield` calls `deltaSin` is positive, so
the field of a non-degenerate segment never vanishes off its carrier line. -/
theorem seg_antiderivative_strictMono (d : ℝ) (hd : 0 < d) :
    StrictMono (fun t : ℝ => t / (d^2 * Real.sqrt (t^2 + d^2))) := by
  apply strictMono_of_deriv_pos
  intro t
  rw [(hasDerivAt_seg d hd t).deriv]
  have hpos : 0 < t^2 + d^2 := by positivity
  have hs : 0 < Real.sqrt (t^2 + d^2) := Real.sqrt_pos.mpr hpos
  positivity

/-- the definite Biot–Savart integral of a straight filament over a non-empty parameter range
a < b is positive (the closed-form difference of `integral_seg` cannot cancel) -/
theorem integral_seg_pos (d a b : ℝ) (hd : 0 < d) (hab : a < b) :
    0 < ∫ t in a..b, 1 / ((t^2 + d^2) * Real.sqrt (t^2 + d^2)) := by
  rw [integral_seg d a b hd]
  exact sub_pos.mpr (seg_antiderivative_strictMono d hd hab)

example : (0 : ℝ) / (1^2 * Real.sqrt (0^2 + 1^2)) < 1 / (1^2 * Real.sqrt (1^2 + 1^2)) :=
  seg_antiderivative_strictMono 1 one_pos one_pos

/-- (added by the audit) `hasDerivAt_seg`, `integral_seg`, `seg_antiderivative_strictMono` and `integral_seg_pos` above are
calculus facts about a stand-alone real formula; none of them mentions the model.  This is the consequence their docstrings
promise, stated about the kernel the driver runs: off its carrier line the field of a segment carrying a non-zero current
is not the zero vector. -/
theorem segmentH_ne_zero (cur : ℝ) (hc : cur ≠ 0) (p1 p2 po : V3 ℝ)
    (hoff : 0 < SegBS.nsq (V3.cross (p2 - p1) (po - p1))) :
    segmentH cur p1 p2 po ≠ ⟨0, 0, 0⟩ := by
  rw [SegBS.segmentH_eq p1 p2 po cur hoff]
  have hK : 0 < SegBS.K p1 p2 po := by
    rw [SegBS.K_eq_integral]
    apply intervalIntegral.intervalIntegral_pos_of_pos_on
    · exact (SegBS.fK_continuous p1 p2 po hoff).intervalIntegrable _ _
    · intro s _
      have h := SegBS.q_pos p1 p2 po hoff s
      unfold SegBS.fK
      have := Real.sqrt_pos.mpr h
      positivity
    · norm_num
  have hk : cur / (4 * Real.pi) * SegBS.K p1 p2 po ≠ 0 :=
    mul_ne_zero (div_ne_zero hc (by positivity)) hK.ne'
  intro h
  have hx := congrArg V3.x h; have hy := congrArg V3.y h; have hz := congrArg V3.z h
  simp only [vs] at hx hy hz
  have cx := (mul_eq_zero.mp hx).resolve_left hk
  have cy := (mul_eq_zero.mp hy).resolve_left hk
  have cz := (mul_eq_zero.mp hz).resolve_left hk
  simp only [SegBS.nsq, cx, cy, cz, mul_zero, add_zero] at hoff
  exact lt_irrefl _ hoff
/-- the Biot–Savart integrand `dl × r / |r|³` of a circular loop of radius `r0` in the plane z = 0, at loop angle `φ`, for
an observer `(0, 0, z)` on the axis: `dl = r0 (−sin φ, cos φ, 0) dφ`, `r = (0,0,z) − r0 (cos φ, sin φ, 0)` -/
noncomputable def loopIntegrandAxis (r0 z φ : ℝ) : V3 ℝ :=
  let dl : V3 ℝ := ⟨r0 * (-Real.sin φ), r0 * Real.cos φ, 0⟩
  let r : V3 ℝ := ⟨0 - r0 * Real.cos φ, 0 - r0 * Real.sin φ, z - 0⟩
  vd (V3.cross dl r) (Kern.norm r ^ 3)

theorem loopIntegrandAxis_eq (r0 z φ : ℝ) :
    loopIntegrandAxis r0 z φ =
      vd ⟨r0 * z * Real.cos φ, r0 * z * Real.sin φ, r0 * r0⟩ (Real.sqrt (r0 * r0 + z * z) ^ 3) := by
  have hsc := Real.sin_sq_add_cos_sq φ
  unfold loopIntegrandAxis
  have hn : Kern.norm (⟨0 - r0 * Real.cos φ, 0 - r0 * Real.sin φ, z - 0⟩ : V3 ℝ) = Real.sqrt (r0 * r0 + z * z) := by
    simp only [Kern.norm, sqrt_real]
    congr 1
    nlinarith [hsc]
  simp only [hn]
  congr 1
  apply V3.ext' <;> simp only [V3.cross] <;> nlinarith [hsc]

/-- **C01 (Circle, on the axis)**: the value `BHJM_circle` returns for an observer on the loop's axis (its `mask3`
branch: `H = (0, 0, r0² / (z² + r0²)^{3/2} · I / 2)`) is the Biot–Savart integral `I/(4π) ∮ dl × r / |r|³` over the loop. -/
theorem circle_on_axis_is_biot_savart (fuel : Nat) (d cur z : ℝ) (hd : d ≠ 0) :
    bhjmCircle fuel .H d cur ⟨0, 0, z⟩ = some (vs (cur / (4 * Real.pi))
      ⟨∫ φ in (0:ℝ)..(2 * Real.pi), (loopIntegrandAxis |d / 2| z φ).x,
       ∫ φ in (0:ℝ)..(2 * Real.pi), (loopIntegrandAxis |d / 2| z φ).y,
       ∫ φ in (0:ℝ)..(2 * Real.pi), (loopIntegrandAxis |d / 2| z φ).z⟩) := by
  have hr0 : |d / 2| ≠ 0 := by simpa using hd
  have hpos : 0 < |d / 2| * |d / 2| + z * z := by
    have h1 : 0 < |d / 2| := abs_pos.mpr (div_ne_zero hd (two_ne_zero))
    nlinarith [mul_pos h1 h1, mul_self_nonneg z]
  set r0 := |d / 2| with hr0def
  set s := Real.sqrt (r0 * r0 + z * z) with hs
  have hs0 : 0 < s := Real.sqrt_pos.mpr hpos
  have hss : s * s = r0 * r0 + z * z := Real.mul_self_sqrt hpos.le
  simp only [loopIntegrandAxis_eq, vd]
  rw [intervalIntegral.integral_div, intervalIntegral.integral_div, intervalIntegral.integral_div]
  rw [intervalIntegral.integral_const_mul, intervalIntegral.integral_const_mul, intervalIntegral.integral_const]
  rw [integral_cos, integral_sin]
  simp only [Real.sin_two_pi, Real.sin_zero, Real.cos_two_pi, Real.cos_zero, sub_self, mul_zero, zero_div, sub_zero, smul_eq_mul]
  -- the model side: on-axis branch
  simp only [bhjmCircle, sqrt_real, abs_real, eq0_real, n, ofNat_real, Nat.cast_ofNat, Nat.cast_zero, Nat.cast_one, mul_zero, add_zero,
    Real.sqrt_zero, decide_true, if_true, ← hr0def, hr0, decide_false, Bool.false_eq_true, if_false]
  congr 1
  have hpi : Real.pi ≠ 0 := Real.pi_ne_zero
  apply V3.ext' <;> simp only [vs]
  · ring
  · ring
  · rw [show z * z + r0 * r0 = r0 * r0 + z * z by ring, ← hs]
    have : s ^ 3 = (r0 * r0 + z * z) * s := by rw [← hss]; ring
    rw [this]
    field_simp
    ring

-- non-vacuity (audit): loop of diameter 2 with unit current, observer at the centre: H = (0, 0, I/(2 r0)) = (0, 0, 1/2).
-- Note the quantifier: observers exactly ON THE AXIS only (a set of measure zero); off the axis nothing is proved for Circle.
example : bhjmCircle 0 .H (2 : ℝ) 1 ⟨0, 0, 0⟩ = some ⟨0, 0, 1 / 2⟩ := by simp [bhjmCircle, n]

/-! ### Cuboid: the closed form of `magnet_cuboid_Bfield` is the Coulombian surface-charge integral

`cuboidCoulombB dim pol p` (Lemmas/CuboidCoulomb.lean) is, component by component,
`1/(4π) ∮ σ(q) (p − q)/|p − q|³ dA(q)` over the six faces of the cuboid `[−dim/2, dim/2]`, with
`σ = J·n` (`+J_x` on `x' = +dim.x/2`, `−J_x` on `x' = −dim.x/2`, …), each face integral an iterated
`intervalIntegral` in the source coordinates; this is `μ₀H` of the homogeneously polarised body. -/

open MagpyVerif.RectCharge MagpyVerif.CuboidCoulomb in
/-- the field of a uniformly charged rectangle, the two building blocks of the Cuboid formula
(`x`, `y` in-plane offsets, `z ≠ 0` the normal distance, `r = √(x²+y²+z²)`, limits in any order):
normal component  ∫∫ z/r³ = Δ arctan(x y/(z r)),  tangential  ∫∫ x/r³ = Δ log(r − y),
`Δ F = F(x₂,y₂) − F(x₂,y₁) − F(x₁,y₂) + F(x₁,y₁)` -/
theorem rect_charge_field {z : ℝ} (hz : z ≠ 0) (x1 x2 y1 y2 : ℝ) :
    (∫ y in y1..y2, ∫ x in x1..x2, z / rr x y z ^ 3) =
        d2 (fun x y => Real.arctan (x * y / (z * rr x y z))) x1 x2 y1 y2 ∧
    (∫ y in y1..y2, ∫ x in x1..x2, x / rr x y z ^ 3) =
        d2 (fun x y => Real.log (rr x y z - y)) x1 x2 y1 y2 :=
  ⟨rect_normal hz x1 x2 y1 y2, rect_tangential hz x1 x2 y1 y2⟩

example : (∫ y in (0:ℝ)..1, ∫ x in (0:ℝ)..1, (1:ℝ) / MagpyVerif.RectCharge.rr x y 1 ^ 3) =
    MagpyVerif.RectCharge.d2 (fun x y => Real.arctan (x * y / (1 * MagpyVerif.RectCharge.rr x y 1))) 0 1 0 1 :=
  (rect_charge_field one_ne_zero 0 1 0 1).1

open MagpyVerif.CuboidCoulomb in
/-- **C01 (Cuboid)**: for positive side lengths, every polarization and every observer off the six
(infinitely extended) face planes, the value computed by the port of `magnet_cuboid_Bfield` —
reflection of the observer into the bottom-Q4 octant, eight corner distances, the arctan2 sums
`ff1*`, the log differences `ff2*`, the `qsigns` table — is the Coulombian surface-charge integral
`1/(4π) ∮ (J·n)(p − q)/|p − q|³ dA` over the six faces (= μ₀H), plus `J` for observers strictly
inside: B = μ₀H + J inside, B = μ₀H outside.  Covers all eight octants (the reflection is shown
to be invisible in exact arithmetic) and the interior. -/
theorem cuboid_is_coulomb_integral (dim pol p : V3 ℝ) (hdx : 0 < dim.x) (hdy : 0 < dim.y) (hdz : 0 < dim.z)
    (hx : |p.x| ≠ dim.x / 2) (hy : |p.y| ≠ dim.y / 2) (hz : |p.z| ≠ dim.z / 2) :
    cuboidB dim pol p =
      cuboidCoulombB dim pol p +
        (if |p.x| < dim.x / 2 ∧ |p.y| < dim.y / 2 ∧ |p.z| < dim.z / 2 then pol else ⟨0, 0, 0⟩) := by
  have off : ∀ {t a : ℝ}, 0 < a → |t| ≠ a → t - a ≠ 0 ∧ t + a ≠ 0 := by
    intro t a ha h
    constructor
    · intro e; apply h; rw [show t = a by linarith]; exact abs_of_pos ha
    · intro e; apply h; rw [show t = -a by linarith, abs_neg]; exact abs_of_pos ha
  have hX := off (half_pos hdx) hx
  have hY := off (half_pos hdy) hy
  have hZ := off (half_pos hdz) hz
  exact cuboidB_eq_coulomb dim pol p hdx hdy hdz hX.1 hX.2 hY.1 hY.2 hZ.1 hZ.2

open MagpyVerif.CuboidCoulomb in
/-- outside the magnet the closed form is exactly the surface-charge integral -/
theorem cuboid_outside_is_coulomb_integral (dim pol p : V3 ℝ) (hdx : 0 < dim.x) (hdy : 0 < dim.y) (hdz : 0 < dim.z)
    (hx : |p.x| ≠ dim.x / 2) (hy : |p.y| ≠ dim.y / 2) (hz : |p.z| ≠ dim.z / 2)
    (hout : ¬ (|p.x| < dim.x / 2 ∧ |p.y| < dim.y / 2 ∧ |p.z| < dim.z / 2)) :
    cuboidB dim pol p = cuboidCoulombB dim pol p := by
  rw [cuboid_is_coulomb_integral dim pol p hdx hdy hdz hx hy hz, if_neg hout]
  apply V3.ext' <;> simp

-- non-vacuity: a 2×2×2 cuboid; an observer that needs all three reflections (x<0, y>0, z>0), one in the
-- bottom-Q4 octant itself, one strictly inside
example : cuboidB (⟨2, 2, 2⟩ : V3 ℝ) ⟨0, 0, 1⟩ ⟨-3, 1 / 2, 5⟩ =
    MagpyVerif.CuboidCoulomb.cuboidCoulombB ⟨2, 2, 2⟩ ⟨0, 0, 1⟩ ⟨-3, 1 / 2, 5⟩ := by
  apply cuboid_outside_is_coulomb_integral <;> norm_num [abs_of_pos, abs_of_neg]
example : cuboidB (⟨2, 2, 2⟩ : V3 ℝ) ⟨0, 0, 1⟩ ⟨3, -1 / 2, -5⟩ =
    MagpyVerif.CuboidCoulomb.cuboidCoulombB ⟨2, 2, 2⟩ ⟨0, 0, 1⟩ ⟨3, -1 / 2, -5⟩ := by
  apply cuboid_outside_is_coulomb_integral <;> norm_num [abs_of_pos, abs_of_neg]
example : cuboidB (⟨2, 2, 2⟩ : V3 ℝ) ⟨0, 0, 1⟩ ⟨1 / 2, 1 / 3, -1 / 4⟩ =
    MagpyVerif.CuboidCoulomb.cuboidCoulombB ⟨2, 2, 2⟩ ⟨0, 0, 1⟩ ⟨1 / 2, 1 / 3, -1 / 4⟩ + ⟨0, 0, 1⟩ := by
  rw [cuboid_is_coulomb_integral _ _ _ (by norm_num) (by norm_num) (by norm_num)
    (by norm_num [abs_of_pos]) (by norm_num [abs_of_pos]) (by norm_num [abs_of_neg]), if_pos]
  norm_num [abs_of_pos, abs_of_neg]

open MagpyVerif.CuboidCoulomb in
/-- **C01 (Cuboid wrapper, H)**: where `BHJM_magnet_cuboid` takes its general branch and its
tolerance-based inside mask agrees with the geometric interior (observer not within the relative
1e-12 shell around the surface), the returned H is the surface-charge integral divided by μ₀ —
inside and outside the magnet alike. -/
theorem cuboid_wrapper_H_is_coulomb_integral (dim pol p : V3 ℝ) (hdx : 0 < dim.x) (hdy : 0 < dim.y) (hdz : 0 < dim.z)
    (hx : |p.x| ≠ dim.x / 2) (hy : |p.y| ≠ dim.y / 2) (hz : |p.z| ≠ dim.z / 2)
    (hgen : (cuboidMasks dim pol p).general = true)
    (hins : (cuboidMasks dim pol p).inside = decide (|p.x| < dim.x / 2 ∧ |p.y| < dim.y / 2 ∧ |p.z| < dim.z / 2)) :
    bhjmCuboid .H dim pol p = vd (cuboidCoulombB dim pol p) mu0R := by
  simp only [bhjmCuboid, wrapB, hgen, hins, if_true, cuboid_is_coulomb_integral dim pol p hdx hdy hdz hx hy hz,
    decide_eq_true_eq, mu0_real]
  split_ifs <;> apply V3.ext' <;> simp [vd, zero3, n]

-- non-vacuity of the mask hypotheses: general branch taken, inside mask = geometric interior (outside and inside)
example : (cuboidMasks (⟨2, 2, 2⟩ : V3 ℝ) ⟨0, 0, 1⟩ ⟨3, -1 / 2, -5⟩).general = true ∧
    (cuboidMasks (⟨2, 2, 2⟩ : V3 ℝ) ⟨0, 0, 1⟩ ⟨3, -1 / 2, -5⟩).inside =
      decide (|(3 : ℝ)| < 2 / 2 ∧ |(-1 / 2 : ℝ)| < 2 / 2 ∧ |(-5 : ℝ)| < 2 / 2) := by
  constructor <;> simp [cuboidMasks, n] <;> norm_num [abs_of_pos, abs_of_neg]
example : (cuboidMasks (⟨2, 2, 2⟩ : V3 ℝ) ⟨0, 0, 1⟩ ⟨1 / 2, 1 / 3, -1 / 4⟩).general = true ∧
    (cuboidMasks (⟨2, 2, 2⟩ : V3 ℝ) ⟨0, 0, 1⟩ ⟨1 / 2, 1 / 3, -1 / 4⟩).inside =
      decide (|(1 / 2 : ℝ)| < 2 / 2 ∧ |(1 / 3 : ℝ)| < 2 / 2 ∧ |(-1 / 4 : ℝ)| < 2 / 2) := by
  constructor <;> simp [cuboidMasks, n] <;> norm_num [abs_of_pos, abs_of_neg]

open MagpyVerif.CuboidCoulomb in
/-- **C01 (Cuboid wrapper, geometric form)**: for positive side lengths, **every** polarization
(zero included) and every observer outside the three thin shells `| |p_i| − dim_i/2 | < 1e-15·dim_i/2`
in which `BHJM_magnet_cuboid` switches to its surface / edge special cases, the wrapper's masks,
its general branch and `magnet_cuboid_Bfield` together return
  H = (1/μ₀) · (1/(4π)) ∮ (J·n)(p − q)/|p − q|³ dA      (inside and outside alike), and
  B = that surface-charge integral, plus J strictly inside. -/
theorem cuboid_wrapper_is_coulomb_integral (dim pol p : V3 ℝ) (hdx : 0 < dim.x) (hdy : 0 < dim.y) (hdz : 0 < dim.z)
    (hx : rtol * (dim.x / 2) ≤ |(|p.x| - dim.x / 2)|) (hy : rtol * (dim.y / 2) ≤ |(|p.y| - dim.y / 2)|)
    (hz : rtol * (dim.z / 2) ≤ |(|p.z| - dim.z / 2)|) :
    bhjmCuboid .H dim pol p = vd (cuboidCoulombB dim pol p) mu0R ∧
    bhjmCuboid .B dim pol p = cuboidCoulombB dim pol p +
      (if |p.x| < dim.x / 2 ∧ |p.y| < dim.y / 2 ∧ |p.z| < dim.z / 2 then pol else ⟨0, 0, 0⟩) := by
  obtain ⟨hin, hgen⟩ := cuboidMasks_clear dim pol p hdx hdy hdz hx hy hz
  have ox := (shell_clear (half_pos hdx) hx).2.2
  have oy := (shell_clear (half_pos hdy) hy).2.2
  have oz := (shell_clear (half_pos hdz) hz).2.2
  have hcore := cuboid_is_coulomb_integral dim pol p hdx hdy hdz ox oy oz
  by_cases hp : pol.x = 0 ∧ pol.y = 0 ∧ pol.z = 0
  · have hpol : pol = ⟨0, 0, 0⟩ := V3.ext' hp.1 hp.2.1 hp.2.2
    subst hpol
    have hgen' : (cuboidMasks dim ⟨0, 0, 0⟩ p).general = false := by rw [hgen]; simp
    simp only [bhjmCuboid, wrapB, hgen', cuboidCoulombB_zero_pol, mu0_real, Bool.false_eq_true, if_false, ite_self]
    constructor <;> apply V3.ext' <;> simp [vd, zero3, n]
  · simp only [hp, decide_false, Bool.not_false] at hgen
    by_cases hI : |p.x| < dim.x / 2 ∧ |p.y| < dim.y / 2 ∧ |p.z| < dim.z / 2
    · have hin' : (cuboidMasks dim pol p).inside = true := by
        rw [hin]; exact decide_eq_true (show insideP dim p from hI)
      simp only [bhjmCuboid, wrapB, hgen, hin', if_true, hcore, mu0_real, if_pos hI]
      refine ⟨?_, trivial⟩
      apply V3.ext' <;> simp [vd]
    · have hin' : (cuboidMasks dim pol p).inside = false := by
        rw [hin]; exact decide_eq_false (show ¬ insideP dim p from hI)
      simp only [bhjmCuboid, wrapB, hgen, hin', if_true, hcore, mu0_real, if_neg hI, Bool.false_eq_true, if_false]
      refine ⟨?_, trivial⟩
      apply V3.ext' <;> simp [vd, zero3, n]

-- non-vacuity: 2×2×2 cuboid; the three shell hypotheses for ONE observer (3, -1/2, -1/4) (outside, another octant)
open MagpyVerif.CuboidCoulomb in
example : rtol * ((2 : ℝ) / 2) ≤ |(|(3 : ℝ)| - 2 / 2)| ∧ rtol * ((2 : ℝ) / 2) ≤ |(|(-1 / 2 : ℝ)| - 2 / 2)| ∧
    rtol * ((2 : ℝ) / 2) ≤ |(|(-1 / 4 : ℝ)| - 2 / 2)| := by
  unfold rtol
  refine ⟨?_, ?_, ?_⟩ <;> norm_num [abs_of_pos, abs_of_neg]

-- … and (audit) an observer strictly INSIDE: all hypotheses hold and the polarization term is added
open MagpyVerif.CuboidCoulomb in
example : bhjmCuboid .B (⟨2, 2, 2⟩ : V3 ℝ) ⟨0, 0, 1⟩ ⟨1 / 2, 1 / 3, -1 / 4⟩ =
    cuboidCoulombB ⟨2, 2, 2⟩ ⟨0, 0, 1⟩ ⟨1 / 2, 1 / 3, -1 / 4⟩ + ⟨0, 0, 1⟩ := by
  have h := (cuboid_wrapper_is_coulomb_integral (⟨2, 2, 2⟩ : V3 ℝ) ⟨0, 0, 1⟩ ⟨1 / 2, 1 / 3, -1 / 4⟩
    (by norm_num) (by norm_num) (by norm_num)
    (by unfold rtol; norm_num [abs_of_pos, abs_of_neg]) (by unfold rtol; norm_num [abs_of_pos, abs_of_neg])
    (by unfold rtol; norm_num [abs_of_pos, abs_of_neg])).2
  rw [h, if_pos]
  norm_num [abs_of_pos, abs_of_neg]

/-! ### Circle off its axis: the kernel against the Biot–Savart loop integral, modulo one named
classical fact about Bulirsch's `cel` (Lemmas/CircleBS.lean)

`celIntegral kc p a b = ∫₀^{π/2} (a cos²φ + b sin²φ) / ((cos²φ + p sin²φ) √(cos²φ + kc² sin²φ)) dφ`.
`current_circle_Hfield` enters `cel_iter` *after* the prologue of the algorithm with its own loop
variables; they are the prologue states (`celEntry`, tied to the model's `cel0` by
`cel_prologue_state`) of
  first call  (H_r):  cel(q, 1, k2, −k2·q2),
  second call (H_z):  cel(q, 1, k2·(1 − 1/ρ), −k2·q2·(1 + 1/ρ)),        ρ = r/r0,
`q2 = ((r − r0)² + z²)/((r + r0)² + z²)`, `k2 = 1 − q2 = 4 r r0/((r + r0)² + z²)`, `q = √q2`. -/

open MagpyVerif.CircleBS

/-- the vector Biot–Savart integrand `dl × d / |d|³` of the loop for an observer at `(r, 0, z)` -/
theorem loopIntegrand_eq (r0 r z φ : ℝ) :
    loopIntegrand r0 r z φ =
      vd ⟨r0 * z * Real.cos φ, r0 * z * Real.sin φ, r0 * (r0 - r * Real.cos φ)⟩
        (Real.sqrt (r0 * r0 + r * r + z * z - 2 * r0 * r * Real.cos φ) ^ 3) :=
  CircleBS.loopIntegrand_eq r0 r z φ

/-- **C01 (Circle), item 2**: the radial (= x, the observer has azimuth 0) and axial components of
`∮ dl × d / |d|³` are the classical one-dimensional integrals; the azimuthal component vanishes
(the source returns `np.zeros` for it) -/
theorem circle_loop_integrals (r0 r z : ℝ) :
    (∫ φ in (0:ℝ)..(2 * π), (loopIntegrand r0 r z φ).x) =
        ∫ φ in (0:ℝ)..(2 * π),
          r0 * z * Real.cos φ / Real.sqrt (r0 * r0 + r * r + z * z - 2 * r0 * r * Real.cos φ) ^ 3 ∧
    (∫ φ in (0:ℝ)..(2 * π), (loopIntegrand r0 r z φ).z) =
        ∫ φ in (0:ℝ)..(2 * π),
          r0 * (r0 - r * Real.cos φ) / Real.sqrt (r0 * r0 + r * r + z * z - 2 * r0 * r * Real.cos φ) ^ 3 ∧
    (∫ φ in (0:ℝ)..(2 * π), (loopIntegrand r0 r z φ).y) = 0 :=
  CircleBS.circle_loop_integrals r0 r z

/-- integration by parts on `[0, π/2]`: the `cel` with denominator `Δ` (`p = 1`, what the kernel
evaluates) is the `cel` with denominator `Δ³` (`p = kc²`, what the Biot–Savart integral produces) -/
theorem cel_one_eq_cube {kc : ℝ} (hkc : kc ≠ 0) (a b : ℝ) :
    celIntegral kc 1 a b = celIntegral kc (kc ^ 2) b (a * kc ^ 2) :=
  celIntegral_one_eq_cube hkc a b

/-- **C01 (Circle), item 3**: by φ = π − 2θ, the symmetry φ ↦ 2π − φ and the integration by parts
above, each loop integral is a prefactor times `cel(q, 1, a, b)` with exactly the parameters of the
corresponding `cel_iter` call of `current_circle_Hfield` -/
theorem circle_integrals_as_cel {r0 r z : ℝ} (hr0 : 0 < r0) (hr : 0 < r) (hwire : ¬ (z = 0 ∧ r = r0)) :
    (∫ φ in (0:ℝ)..(2 * π),
        r0 * z * Real.cos φ / Real.sqrt (r0 * r0 + r * r + z * z - 2 * r0 * r * Real.cos φ) ^ 3) =
      4 / (((r + r0) * (r + r0) + z * z) * Real.sqrt ((r + r0) * (r + r0) + z * z)) *
        (r0 * z / (circleK2 r0 r z * circleQ2 r0 r z)) *
        celIntegral (circleQ r0 r z) 1 (circleK2 r0 r z) (-(circleK2 r0 r z * circleQ2 r0 r z)) ∧
    (∫ φ in (0:ℝ)..(2 * π),
        r0 * (r0 - r * Real.cos φ) / Real.sqrt (r0 * r0 + r * r + z * z - 2 * r0 * r * Real.cos φ) ^ 3) =
      4 / (((r + r0) * (r + r0) + z * z) * Real.sqrt ((r + r0) * (r + r0) + z * z)) *
        (-(r0 * r) / (circleK2 r0 r z * circleQ2 r0 r z)) *
        celIntegral (circleQ r0 r z) 1 (circleK2 r0 r z * (1 - 1 / (r / r0)))
          (-(circleK2 r0 r z * circleQ2 r0 r z * (1 + 1 / (r / r0)))) :=
  CircleBS.circle_integrals_as_cel hr0 hr hwire

/-- the kernel's `q2`, `k2` in unnormalised coordinates; `k2 + q2 = 1` -/
theorem circle_q2_k2 {r0 r z : ℝ} (hr0 : 0 < r0) (hr : 0 < r) :
    circleQ2 r0 r z = ((r - r0) * (r - r0) + z * z) / ((r + r0) * (r + r0) + z * z) ∧
    circleK2 r0 r z = 4 * r * r0 / ((r + r0) * (r + r0) + z * z) ∧
    circleK2 r0 r z + circleQ2 r0 r z = 1 :=
  ⟨circleQ2_eq hr0 hr, circleK2_eq hr0 hr, circleK2_add_circleQ2 hr0 hr⟩

/-- the state `celEntry kc p a b` is where the model's `cel0` (port of the source's `cel0`, prologue
included) enters its loop; and the loop variables with which `current_circle_Hfield` calls `cel_iter`
are `celEntry q 1 a b` for the two parameter pairs above -/
theorem cel_prologue_state (fuel : ℕ) {kc p : ℝ} (hkc : kc ≠ 0) (hp : 0 < p) (a b : ℝ) :
    cel0 fuel kc p a b =
      cel0Loop fuel (celEntry kc p a b).qc (celEntry kc p a b).kk (celEntry kc p a b).cc
        (celEntry kc p a b).ss (celEntry kc p a b).p (celEntry kc p a b).g (celEntry kc p a b).em :=
  cel0_enters_at_celEntry fuel hkc hp a b

theorem circle_calls_are_cel_prologue_states {r0 r z : ℝ} (hr0 : 0 < r0) (hr : 0 < r)
    (hwire : ¬ (z = 0 ∧ r = r0)) :
    circleEntry1 r0 r z = celEntry (circleQ r0 r z) 1 (circleA1 r0 r z) (circleB1 r0 r z) ∧
    circleEntry2 r0 r z = celEntry (circleQ r0 r z) 1 (circleA2 r0 r z) (circleB2 r0 r z) :=
  ⟨circleEntry1_eq hr0 hr hwire, circleEntry2_eq hr0 hr hwire⟩

/-- the literal `795774.7154594767` of the source stands for `1e7/(4π)`: κ = literal·4π·1e-7 is 1 to
better than 1e-16 (it is not exactly 1: the statements below carry κ explicitly) -/
theorem circle_literal_close : |kappa - 1| < 1 / 10 ^ 16 := kappa_close

/-- **C01 (Circle off the axis), exact and free of any hypothesis about `cel`**: loop radius `r0 > 0`,
observer at cylinder coordinates `(r, z)`, `r > 0`, not on the wire, fuel ≥ `circleFuel r0 r z`
(the bound of `circle_cel_terminates`).  Both cel iterations return values `c₁`, `c₂`, and the port of
`current_circle_Hfield` returns
  H_r = κ·(I/(4π) ∮ (dl × d)_r / |d|³) + (pf·z/r·795774.7154594767)·(c₁ − cel(q, 1, a₁, b₁)),
  H_z = κ·(I/(4π) ∮ (dl × d)_z / |d|³) − (pf·795774.7154594767)·(c₂ − cel(q, 1, a₂, b₂)).
This pins `pf = k/√r/q2/20/r0·1e-6·i0`, the literal, both `(cc, ss)` pairs and the factor `z/r` to
the physics: with any of them changed the first summand would no longer be the Biot–Savart integral. -/
theorem circle_kernel_is_biot_savart_plus_cel_error {r0 r z : ℝ} (i0 : ℝ) (hr0 : 0 < r0) (hr : 0 < r)
    (hwire : ¬ (z = 0 ∧ r = r0)) (fuel : ℕ) (hfuel : circleFuel r0 r z ≤ fuel) :
    ∃ c1 c2 : ℝ,
      celIterRow fuel (celEntry (circleQ r0 r z) 1 (circleA1 r0 r z) (circleB1 r0 r z)) = some c1 ∧
      celIterRow fuel (celEntry (circleQ r0 r z) 1 (circleA2 r0 r z) (circleB2 r0 r z)) = some c2 ∧
      circleHcyl fuel r0 r z i0 = some
        (kappa * circleBSr r0 r z i0 + circlePr r0 r z i0 *
            (c1 - celIntegral (circleQ r0 r z) 1 (circleA1 r0 r z) (circleB1 r0 r z)),
         kappa * circleBSz r0 r z i0 + circlePz r0 r z i0 *
            (c2 - celIntegral (circleQ r0 r z) 1 (circleA2 r0 r z) (circleB2 r0 r z))) :=
  circleHcyl_eq_bs_add_cel_error i0 hr0 hr hwire fuel hfuel

/-- error propagation: if the two values returned by the cel iterations are within `δ₁`, `δ₂` of the
cel integrals, the kernel is within `|pf·z/r·literal|·δ₁`, `|pf·literal|·δ₂` of κ·Biot–Savart -/
theorem circle_is_biot_savart_within {r0 r z : ℝ} (i0 : ℝ) (hr0 : 0 < r0) (hr : 0 < r)
    (hwire : ¬ (z = 0 ∧ r = r0)) (fuel : ℕ) (hfuel : circleFuel r0 r z ≤ fuel) (δ1 δ2 : ℝ)
    (h1 : ∀ c, celIterRow fuel (celEntry (circleQ r0 r z) 1 (circleA1 r0 r z) (circleB1 r0 r z)) = some c →
      |c - celIntegral (circleQ r0 r z) 1 (circleA1 r0 r z) (circleB1 r0 r z)| ≤ δ1)
    (h2 : ∀ c, celIterRow fuel (celEntry (circleQ r0 r z) 1 (circleA2 r0 r z) (circleB2 r0 r z)) = some c →
      |c - celIntegral (circleQ r0 r z) 1 (circleA2 r0 r z) (circleB2 r0 r z)| ≤ δ2) :
    ∃ Hr Hz : ℝ, circleHcyl fuel r0 r z i0 = some (Hr, Hz) ∧
      |Hr - kappa * circleBSr r0 r z i0| ≤ |circlePr r0 r z i0| * δ1 ∧
      |Hz - kappa * circleBSz r0 r z i0| ≤ |circlePz r0 r z i0| * δ2 := by
  obtain ⟨c1, c2, e1, e2, hv⟩ := circleHcyl_eq_bs_add_cel_error i0 hr0 hr hwire fuel hfuel
  refine ⟨_, _, hv, ?_, ?_⟩
  · rw [add_sub_cancel_left, abs_mul]
    exact mul_le_mul_of_nonneg_left (h1 c1 e1) (abs_nonneg _)
  · rw [add_sub_cancel_left, abs_mul]
    exact mul_le_mul_of_nonneg_left (h2 c2 e2) (abs_nonneg _)

/-- **C01 (Circle off the axis) modulo the named fact**: assume `CelComputesIntegral` (Bulirsch's
iteration, started in the prologue state of `cel(kc, 1, a, b)`, `kc > 0`, converges to
`celIntegral kc 1 a b`; a `Prop`, not an axiom).  Then
(1) the model's value is `circleHAt m₁ m₂` — the source's closed form with the two loops stopped after
    `m₁`, `m₂` passes — for the pass counts at which the `while` tests first fail, and
(2) `circleHAt m m → (κ·H_r, κ·H_z)` as `m → ∞`, with `H_r`, `H_z` the Biot–Savart integrals
    `I/(4π) ∮ (dl × d)_{r,z} / |d|³` of the loop.
/- FULL (as first asked for): `CelComputesIntegral → circleHcyl fuel r0 r z i0 = some (H_r, H_z)`.
   Not true as an equality in exact arithmetic, for two reasons that are made explicit instead:
   the loop exits at relative gap < 1e-8 (truncation error of the returned value ≈ gap², see
   `circle_kernel_is_biot_savart_plus_cel_error` / `circle_is_biot_savart_within` for the exact
   dependence), and the decimal literal gives κ ≠ 1 (`circle_literal_close`). -/ -/
theorem circle_is_biot_savart_of_cel (hcel : CelComputesIntegral) {r0 r z : ℝ} (i0 : ℝ)
    (hr0 : 0 < r0) (hr : 0 < r) (hwire : ¬ (z = 0 ∧ r = r0)) :
    (∀ fuel, circleFuel r0 r z ≤ fuel → ∃ m1 m2 : ℕ, m1 < fuel ∧ m2 < fuel ∧
      celRowCont (celRowStep^[m1]
        (celEntry (circleQ r0 r z) 1 (circleA1 r0 r z) (circleB1 r0 r z))) = false ∧
      celRowCont (celRowStep^[m2]
        (celEntry (circleQ r0 r z) 1 (circleA2 r0 r z) (circleB2 r0 r z))) = false ∧
      circleHcyl fuel r0 r z i0 = some (circleHAt m1 m2 r0 r z i0)) ∧
    Filter.Tendsto (fun m => circleHAt m m r0 r z i0) Filter.atTop
      (nhds (kappa * circleBSr r0 r z i0, kappa * circleBSz r0 r z i0)) :=
  ⟨fun fuel hf => circleHcyl_eq_circleHAt i0 hr0 hr hwire fuel hf,
   circleHAt_tendsto hcel i0 hr0 hr hwire⟩

/-- the named fact holds (provably) in the degenerate case `kc = 1`, where the integrand is
elementary: the hypothesis is stated about the right entry state, return expression and integral -/
theorem cel_converges_at_one (a b : ℝ) : CelConverges 1 1 a b := celConverges_one_one a b

-- non-vacuity: loop of radius 1, observer at (r, z) = (2, 1/2) and in the loop's plane outside the wire
example : ∃ c1 c2 : ℝ,
    celIterRow (circleFuel 1 2 (1/2)) (celEntry (circleQ 1 2 (1/2)) 1 (circleA1 1 2 (1/2)) (circleB1 1 2 (1/2))) = some c1 ∧
    celIterRow (circleFuel 1 2 (1/2)) (celEntry (circleQ 1 2 (1/2)) 1 (circleA2 1 2 (1/2)) (circleB2 1 2 (1/2))) = some c2 ∧
    circleHcyl (circleFuel 1 2 (1/2)) 1 2 (1/2) 3 = some
      (kappa * circleBSr 1 2 (1/2) 3 + circlePr 1 2 (1/2) 3 *
          (c1 - celIntegral (circleQ 1 2 (1/2)) 1 (circleA1 1 2 (1/2)) (circleB1 1 2 (1/2))),
       kappa * circleBSz 1 2 (1/2) 3 + circlePz 1 2 (1/2) 3 *
          (c2 - celIntegral (circleQ 1 2 (1/2)) 1 (circleA2 1 2 (1/2)) (circleB2 1 2 (1/2)))) :=
  circle_kernel_is_biot_savart_plus_cel_error 3 one_pos two_pos (by norm_num) _ le_rfl
example : (0:ℝ) < 1 ∧ (0:ℝ) < 2 ∧ ¬ ((0:ℝ) = 0 ∧ (2:ℝ) = 1) := by norm_num
-- the parameters are the ones computed by hand for r0 = 1, r = 2, z = 0: q2 = 1/9, k2 = 8/9
example : circleQ2 1 2 0 = 1 / 9 ∧ circleK2 1 2 0 = 8 / 9 := by
  obtain ⟨h1, h2, -⟩ := circle_q2_k2 (r0 := 1) (r := 2) (z := 0) one_pos two_pos
  rw [h1, h2]; norm_num

/-- the general-observer integrand restricted to the axis is the integrand of
`circle_on_axis_is_biot_savart` -/
theorem loopIntegrandAt_axis (r0 z φ : ℝ) : loopIntegrandAt r0 ⟨0, 0, z⟩ φ = loopIntegrandAxis r0 z φ := rfl

/-- the loop integral at azimuth `ψ`: `∮ dl × d / |d|³ = (I_r cos ψ, I_r sin ψ, I_z)` with the
azimuth-0 integrals `I_r`, `I_z` of `circle_loop_integrals` (rotation about the axis + periodicity) -/
theorem circle_loop_integral_any_azimuth {r0 r z : ℝ} (hr0 : 0 < r0) (hr : 0 < r)
    (hwire : ¬ (z = 0 ∧ r = r0)) (ψ : ℝ) :
    (∫ φ in (0:ℝ)..(2 * π), (loopIntegrandAt r0 ⟨r * Real.cos ψ, r * Real.sin ψ, z⟩ φ).x) =
        (∫ φ in (0:ℝ)..(2 * π), (loopIntegrand r0 r z φ).x) * Real.cos ψ ∧
    (∫ φ in (0:ℝ)..(2 * π), (loopIntegrandAt r0 ⟨r * Real.cos ψ, r * Real.sin ψ, z⟩ φ).y) =
        (∫ φ in (0:ℝ)..(2 * π), (loopIntegrand r0 r z φ).x) * Real.sin ψ ∧
    (∫ φ in (0:ℝ)..(2 * π), (loopIntegrandAt r0 ⟨r * Real.cos ψ, r * Real.sin ψ, z⟩ φ).z) =
        ∫ φ in (0:ℝ)..(2 * π), (loopIntegrand r0 r z φ).z :=
  loopIntegralAt_eq hr0 hr hwire ψ

/-- **C01 (Circle wrapper, field H, any observer of the general branch), exact and hypothesis-free**:
diameter `d ≠ 0`, observer `(x, y, z)` off the axis and outside the wrapper's on-the-wire mask
(`mask2`), fuel ≥ `circleFuelX`.  `BHJM_circle` — masks, `cart_to_cyl_coordinates`,
`current_circle_Hfield`, `cyl_field_to_cart` — returns
  κ · I/(4π) ∮ dl × d / |d|³   (Cartesian vector Biot–Savart integral over the loop)
plus the two cel-iteration errors `c_i − cel(q, 1, a_i, b_i)` times the source's prefactors, turned
to the observer's azimuth.  Together with `circle_on_axis_is_biot_savart` this covers every observer
for which the wrapper does not return its special-case zero. -/
theorem circle_wrapper_is_biot_savart_plus_cel_error (fuel : ℕ) (d cur x y z : ℝ) (hd : d ≠ 0)
    (hxy : ¬ (x = 0 ∧ y = 0))
    (h2 : ¬ (|Real.sqrt (x * x + y * y) - (|d / 2|)| < 1 / 1000000000000000 * |d / 2| ∧
      |z| < 1 / 1000000000000000 * |d / 2|))
    (hfuel : circleFuelX d ⟨x, y, z⟩ ≤ fuel) :
    ∃ c1 c2 : ℝ,
      celIterRow fuel (celEntry (circleQ |d / 2| (Real.sqrt (x * x + y * y)) z) 1
        (circleA1 |d / 2| (Real.sqrt (x * x + y * y)) z) (circleB1 |d / 2| (Real.sqrt (x * x + y * y)) z)) = some c1 ∧
      celIterRow fuel (celEntry (circleQ |d / 2| (Real.sqrt (x * x + y * y)) z) 1
        (circleA2 |d / 2| (Real.sqrt (x * x + y * y)) z) (circleB2 |d / 2| (Real.sqrt (x * x + y * y)) z)) = some c2 ∧
      bhjmCircle fuel .H d cur ⟨x, y, z⟩ = some
        (vs kappa (vs (cur / (4 * π))
          ⟨∫ φ in (0:ℝ)..(2 * π), (loopIntegrandAt |d / 2| ⟨x, y, z⟩ φ).x,
           ∫ φ in (0:ℝ)..(2 * π), (loopIntegrandAt |d / 2| ⟨x, y, z⟩ φ).y,
           ∫ φ in (0:ℝ)..(2 * π), (loopIntegrandAt |d / 2| ⟨x, y, z⟩ φ).z⟩) +
         ⟨circlePr |d / 2| (Real.sqrt (x * x + y * y)) z cur *
              (c1 - celIntegral (circleQ |d / 2| (Real.sqrt (x * x + y * y)) z) 1
                (circleA1 |d / 2| (Real.sqrt (x * x + y * y)) z) (circleB1 |d / 2| (Real.sqrt (x * x + y * y)) z)) *
              Real.cos (Complex.arg ⟨x, y⟩),
          circlePr |d / 2| (Real.sqrt (x * x + y * y)) z cur *
              (c1 - celIntegral (circleQ |d / 2| (Real.sqrt (x * x + y * y)) z) 1
                (circleA1 |d / 2| (Real.sqrt (x * x + y * y)) z) (circleB1 |d / 2| (Real.sqrt (x * x + y * y)) z)) *
              Real.sin (Complex.arg ⟨x, y⟩),
          circlePz |d / 2| (Real.sqrt (x * x + y * y)) z cur *
              (c2 - celIntegral (circleQ |d / 2| (Real.sqrt (x * x + y * y)) z) 1
                (circleA2 |d / 2| (Real.sqrt (x * x + y * y)) z) (circleB2 |d / 2| (Real.sqrt (x * x + y * y)) z))⟩) :=
  bhjmCircle_eq_bs_add_cel_error fuel d cur x y z hd hxy h2 hfuel

-- non-vacuity: diameter 2, observer (3, 4, 1) (r = 5): general branch of the wrapper
example : (2:ℝ) ≠ 0 ∧ ¬ ((3:ℝ) = 0 ∧ (4:ℝ) = 0) ∧
    ¬ (|Real.sqrt ((3:ℝ) * 3 + 4 * 4) - (|(2:ℝ) / 2|)| < 1 / 1000000000000000 * |(2:ℝ) / 2| ∧
      |(1:ℝ)| < 1 / 1000000000000000 * |(2:ℝ) / 2|) := by
  refine ⟨by norm_num, by norm_num, ?_⟩
  intro h
  have := h.2
  norm_num at this

end MagpyVerif.C01
