/-
Props/C01.lean — fields equal the magnetostatic integrals they claim to solve.
Proved: Dipole kernel = point-dipole formula = minus the gradient of the scalar potential
m·x/(4π|x|³) (three `HasDerivAt` computations); the straight current segment: the port of
`current_polyline_Hfield` (normalisation, foot point, all three branches of the sinθ case split,
direction) equals the Biot–Savart line integral over the segment for every observer off the
carrier line (`segment_is_biot_savart`, via the antiderivative, the fundamental theorem of
calculus and an affine substitution — Lemmas/SegmentBS.lean); the Circle on its axis
(`circle_on_axis_is_biot_savart`: the wrapper's on-axis branch is the loop integral); the Cuboid: the port of
`magnet_cuboid_Bfield` (octant reflection, arctan2 sums, log differences, `qsigns`) equals the
Coulombian surface-charge integral over its six faces for every observer off the six face planes,
all octants, plus J inside (`cuboid_is_coulomb_integral`, via two nested one-variable FTC steps per
face — Lemmas/RectCharge.lean, Lemmas/CuboidCoulomb.lean); Sphere = ⅔J inside / dipole outside
with the textbook interface conditions (C13, C14); the wrappers add exactly the interior
polarization term (C02); the frame change global↔local is a rigid motion (C03).
/- FULL: for every class the closed form equals its defining surface / line integral.  Not shown:
   (b) Triangle (hence
   Tetrahedron, TriangularMesh): iterated one-variable integrals of the same kind; (c) Circle off its axis,
   Cylinder, CylinderSegment: need Bulirsch cel/el3 theory absent from Mathlib.  For all classes
   the quadrature oracle integrates the defining integral numerically against the real code. -/
-/
import Mathlib.Analysis.SpecialFunctions.Integrals.Basic
import MagpyVerif.Lemmas.KernelLiterals
import Mathlib.Analysis.SpecialFunctions.Sqrt
import MagpyVerif.Lemmas.KernReal
import MagpyVerif.Lemmas.SegmentBS
import Mathlib.Analysis.Calculus.Deriv.MeanValue
import MagpyVerif.Lemmas.DipoleCalc
import MagpyVerif.Lemmas.RectCharge
import MagpyVerif.Lemmas.CuboidCoulomb
namespace MagpyVerif.C01
open MagpyVerif MagpyVerif.Kern Real intervalIntegral MagpyVerif.SegBS

/-- antiderivative used by the straight-segment Biot–Savart integral -/
theorem hasDerivAt_seg (d : ℝ) (hd : 0 < d) (t : ℝ) :
    HasDerivAt (fun t => t / (d^2 * Real.sqrt (t^2 + d^2)))
      (1 / ((t^2 + d^2) * Real.sqrt (t^2 + d^2))) t := by
  have hpos : 0 < t^2 + d^2 := by positivity
  have hs : HasDerivAt (fun t => Real.sqrt (t^2 + d^2)) ((2*t) / (2 * Real.sqrt (t^2+d^2))) t := by
    have h1 : HasDerivAt (fun t : ℝ => t^2 + d^2) (2*t) t := by
      simpa using ((hasDerivAt_pow 2 t).add_const (d^2))
    exact h1.sqrt hpos.ne'
  have hsq : Real.sqrt (t^2+d^2) ≠ 0 := (Real.sqrt_pos.mpr hpos).ne'
  have hden : HasDerivAt (fun t => d^2 * Real.sqrt (t^2 + d^2)) (d^2 * ((2*t) / (2 * Real.sqrt (t^2+d^2)))) t :=
    hs.const_mul (d^2)
  have hq : HasDerivAt (fun t => t / (d^2 * Real.sqrt (t^2 + d^2))) _ t :=
    (hasDerivAt_id' t).div hden (by positivity)
  refine hq.congr_deriv ?_
  have hss : Real.sqrt (t^2+d^2) * Real.sqrt (t^2+d^2) = t^2+d^2 := Real.mul_self_sqrt hpos.le
  set s := Real.sqrt (t^2+d^2) with hs_def
  have hspos : 0 < s := Real.sqrt_pos.mpr hpos
  have hd2 : t^2 + d^2 = s*s := hss.symm
  rw [hd2]
  field_simp
  nlinarith [hss, hd2]

/-- the Biot–Savart integral of a straight filament at perpendicular distance `d`, between the
line coordinates `a` and `b` of its end points (the closed form the polyline kernel evaluates:
`b/√(b²+d²) − a/√(a²+d²) = sinθ₂ − sinθ₁`, divided by `d²`) -/
theorem integral_seg (d a b : ℝ) (hd : 0 < d) :
    ∫ t in a..b, 1 / ((t^2 + d^2) * Real.sqrt (t^2 + d^2)) =
      b / (d^2 * Real.sqrt (b^2 + d^2)) - a / (d^2 * Real.sqrt (a^2 + d^2)) := by
  apply integral_eq_sub_of_hasDerivAt (fun t _ => hasDerivAt_seg d hd t)
  apply Continuous.intervalIntegrable
  have : ∀ t : ℝ, (t^2 + d^2) * Real.sqrt (t^2 + d^2) ≠ 0 := by
    intro t; have hpos : 0 < t^2 + d^2 := by positivity
    exact mul_ne_zero hpos.ne' (Real.sqrt_pos.mpr hpos).ne'
  exact continuous_const.div (by fun_prop) this

/-- C01 (Dipole): the kernel is the point-dipole formula -/
theorem dipole_is_point_dipole (m x : V3 ℝ) (hx : Kern.norm x ≠ 0) :
    dipoleH m x = vs (1 / (4 * Real.pi))
      (vd (vs (3 * V3.dot m x) x) (Kern.norm x ^ 5) - vd m (Kern.norm x ^ 3)) := by
  have hpi : Real.pi ≠ 0 := Real.pi_ne_zero
  simp only [dipoleH, n, ofNat_real, Nat.cast_ofNat, pi_real]
  generalize Kern.norm x = r at *
  apply V3.ext' <;> simp [vs, vd] <;> field_simp
-- (audit) this theorem only rewrites r·r·r·r·r as r⁵ and /4/π as ·1/(4π): it restates the definition of the kernel (which IS the
-- point-dipole formula the property names); the hypothesis is satisfiable, and it is not even needed (x/0 = 0 on both sides)
example : Kern.norm (⟨0, 0, 1⟩ : V3 ℝ) ≠ 0 := by simp [Kern.norm]

/-- the Biot–Savart integrand `dl × r / |r|³` at parameter `s ∈ [0,1]` along the segment p1 → p2:
`dl = (p2 − p1) ds`, `r = po − (p1 + s (p2 − p1))` -/
noncomputable def bsIntegrand (p1 p2 po : V3 ℝ) (s : ℝ) : V3 ℝ :=
  vd (V3.cross (p2 - p1) (po - (p1 + vs s (p2 - p1)))) (Kern.norm (po - (p1 + vs s (p2 - p1))) ^ 3)

theorem bsIntegrand_eq (p1 p2 po : V3 ℝ) (s : ℝ) :
    bsIntegrand p1 p2 po s =
      vs (1 / (nsq (po - (p1 + vs s (p2 - p1))) * Real.sqrt (nsq (po - (p1 + vs s (p2 - p1))))))
        (V3.cross (p2 - p1) (po - p1)) := by
  have hc : V3.cross (p2 - p1) (po - (p1 + vs s (p2 - p1))) = V3.cross (p2 - p1) (po - p1) := by
    apply V3.ext' <;> simp only [V3.cross, vs, V3.add_x, V3.add_y, V3.add_z, V3.sub_x, V3.sub_y, V3.sub_z] <;> ring
  have hn : Kern.norm (po - (p1 + vs s (p2 - p1))) ^ 3 =
      nsq (po - (p1 + vs s (p2 - p1))) * Real.sqrt (nsq (po - (p1 + vs s (p2 - p1)))) := by
    rw [norm_eq]
    have h2 := Real.mul_self_sqrt (nsq_nonneg (po - (p1 + vs s (p2 - p1))))
    calc Real.sqrt (nsq (po - (p1 + vs s (p2 - p1)))) ^ 3
        = (Real.sqrt (nsq (po - (p1 + vs s (p2 - p1)))) * Real.sqrt (nsq (po - (p1 + vs s (p2 - p1))))) *
            Real.sqrt (nsq (po - (p1 + vs s (p2 - p1)))) := by ring
      _ = _ := by rw [h2]
  unfold bsIntegrand
  rw [hc, hn]
  apply V3.ext' <;> simp only [vs, vd] <;> ring

/-- **C01 (Polyline segment)**: for every current, every segment and every observer off the carrier
line, the value computed by the port of `current_polyline_Hfield` — normalisation by the segment
length, foot point, the `mask2/mask3/mask4` choice between |sinθ₁ − sinθ₂| and |sinθ₁ + sinθ₂|,
direction vector — is the Biot–Savart line integral `I/(4π) ∫₀¹ dl × r / |r|³` over the segment,
component by component. -/
theorem segment_is_biot_savart (cur : ℝ) (p1 p2 po : V3 ℝ)
    (hoff : 0 < nsq (V3.cross (p2 - p1) (po - p1))) :
    segmentH cur p1 p2 po = vs (cur / (4 * Real.pi))
      ⟨∫ s in (0:ℝ)..1, (bsIntegrand p1 p2 po s).x, ∫ s in (0:ℝ)..1, (bsIntegrand p1 p2 po s).y,
       ∫ s in (0:ℝ)..1, (bsIntegrand p1 p2 po s).z⟩ := by
  rw [segmentH_eq p1 p2 po cur hoff]
  simp only [bsIntegrand_eq, vs, K]
  rw [intervalIntegral.integral_mul_const, intervalIntegral.integral_mul_const, intervalIntegral.integral_mul_const]
  apply V3.ext' <;> simp only <;> ring

-- non-vacuity: segment along x, observer above its middle
example : 0 < nsq (V3.cross ((⟨1, 0, 0⟩ : V3 ℝ) - ⟨0, 0, 0⟩) (⟨1/2, 1, 0⟩ - ⟨0, 0, 0⟩)) := by
  simp [nsq, V3.cross]
/-- C01 (Dipole): `dipole_Hfield` is minus the gradient of the magnetic scalar potential of a point
dipole, φ(x) = m·x / (4π|x|³) (`dipolePotential`): at every point (x,y,z) other than the dipole
position the three partial derivatives of φ exist and equal −Hx, −Hy, −Hz of the model kernel.
This is the defining relation H = −∇φ of the field the kernel claims to compute. -/
theorem dipole_is_minus_grad (m : V3 ℝ) (x y z : ℝ) (hx : (⟨x, y, z⟩ : V3 ℝ) ≠ ⟨0, 0, 0⟩) :
    HasDerivAt (fun t => dipolePotential m ⟨t, y, z⟩) (-(dipoleH m ⟨x, y, z⟩).x) x ∧
    HasDerivAt (fun t => dipolePotential m ⟨x, t, z⟩) (-(dipoleH m ⟨x, y, z⟩).y) y ∧
    HasDerivAt (fun t => dipolePotential m ⟨x, y, t⟩) (-(dipoleH m ⟨x, y, z⟩).z) z :=
  dipolePotential_grad m ⟨x, y, z⟩ (norm_ne_zero_of_ne hx)

/-- non-vacuity: moment (0,0,1), point (0,0,1): φ = 1/(4π) there and ∂φ/∂z = −Hz = −1/(2π) ≠ 0 -/
example : HasDerivAt (fun t => dipolePotential ⟨0, 0, 1⟩ (⟨0, 0, t⟩ : V3 ℝ))
    (-(dipoleH ⟨0, 0, 1⟩ (⟨0, 0, 1⟩ : V3 ℝ)).z) 1 := (dipole_is_minus_grad ⟨0, 0, 1⟩ 0 0 1 (by simp)).2.2
example : dipolePotential ⟨0, 0, 1⟩ (⟨0, 0, 1⟩ : V3 ℝ) = 1 / (4 * Real.pi) := by
  simp [dipolePotential, V3.dot, norm_axis_z 1 zero_le_one]

/-- the antiderivative `g(t) = t / (d²·√(t²+d²))` of the straight-filament integrand is strictly
increasing for d > 0 (its derivative `1/((t²+d²)√(t²+d²))` is positive).  Consequence for the
code: for a segment whose end points have line coordinates a < b the quantity
`sinθ₂ − sinθ₁ = d²·(g b − g a)` that `current_polyline_Hfield` calls `deltaSin` is positive, so
the field of a non-degenerate segment never vanishes off its carrier line. -/
theorem seg_antiderivative_strictMono (d : ℝ) (hd : 0 < d) :
    StrictMono (fun t : ℝ => t / (d^2 * Real.sqrt (t^2 + d^2))) := by
  apply strictMono_of_deriv_pos
  intro t
  rw [(hasDerivAt_seg d hd t).deriv]
  have hpos : 0 < t^2 + d^2 := by positivity
  have hs : 0 < Real.sqrt (t^2 + d^2) := Real.sqrt_pos.mpr hpos
  positivity

/-- the definite Biot–Savart integral of a straight filament over a non-empty parameter range
a < b is positive (the closed-form difference of `integral_seg` cannot cancel) -/
theorem integral_seg_pos (d a b : ℝ) (hd : 0 < d) (hab : a < b) :
    0 < ∫ t in a..b, 1 / ((t^2 + d^2) * Real.sqrt (t^2 + d^2)) := by
  rw [integral_seg d a b hd]
  exact sub_pos.mpr (seg_antiderivative_strictMono d hd hab)

example : (0 : ℝ) / (1^2 * Real.sqrt (0^2 + 1^2)) < 1 / (1^2 * Real.sqrt (1^2 + 1^2)) :=
  seg_antiderivative_strictMono 1 one_pos one_pos

/-- (added by the audit) `hasDerivAt_seg`, `integral_seg`, `seg_antiderivative_strictMono` and `integral_seg_pos` above are
calculus facts about a stand-alone real formula; none of them mentions the model.  This is the consequence their docstrings
promise, stated about the kernel the driver runs: off its carrier line the field of a segment carrying a non-zero current
is not the zero vector. -/
theorem segmentH_ne_zero (cur : ℝ) (hc : cur ≠ 0) (p1 p2 po : V3 ℝ)
    (hoff : 0 < SegBS.nsq (V3.cross (p2 - p1) (po - p1))) :
    segmentH cur p1 p2 po ≠ ⟨0, 0, 0⟩ := by
  rw [SegBS.segmentH_eq p1 p2 po cur hoff]
  have hK : 0 < SegBS.K p1 p2 po := by
    rw [SegBS.K_eq_integral]
    apply intervalIntegral.intervalIntegral_pos_of_pos_on
    · exact (SegBS.fK_continuous p1 p2 po hoff).intervalIntegrable _ _
    · intro s _
      have h := SegBS.q_pos p1 p2 po hoff s
      unfold SegBS.fK
      have := Real.sqrt_pos.mpr h
      positivity
    · norm_num
  have hk : cur / (4 * Real.pi) * SegBS.K p1 p2 po ≠ 0 :=
    mul_ne_zero (div_ne_zero hc (by positivity)) hK.ne'
  intro h
  have hx := congrArg V3.x h; have hy := congrArg V3.y h; have hz := congrArg V3.z h
  simp only [vs] at hx hy hz
  have cx := (mul_eq_zero.mp hx).resolve_left hk
  have cy := (mul_eq_zero.mp hy).resolve_left hk
  have cz := (mul_eq_zero.mp hz).resolve_left hk
  simp only [SegBS.nsq, cx, cy, cz, mul_zero, add_zero] at hoff
  exact lt_irrefl _ hoff
/-- the Biot–Savart integrand `dl × r / |r|³` of a circular loop of radius `r0` in the plane z = 0, at loop angle `φ`, for
an observer `(0, 0, z)` on the axis: `dl = r0 (−sin φ, cos φ, 0) dφ`, `r = (0,0,z) − r0 (cos φ, sin φ, 0)` -/
noncomputable def loopIntegrandAxis (r0 z φ : ℝ) : V3 ℝ :=
  let dl : V3 ℝ := ⟨r0 * (-Real.sin φ), r0 * Real.cos φ, 0⟩
  let r : V3 ℝ := ⟨0 - r0 * Real.cos φ, 0 - r0 * Real.sin φ, z - 0⟩
  vd (V3.cross dl r) (Kern.norm r ^ 3)

theorem loopIntegrandAxis_eq (r0 z φ : ℝ) :
    loopIntegrandAxis r0 z φ =
      vd ⟨r0 * z * Real.cos φ, r0 * z * Real.sin φ, r0 * r0⟩ (Real.sqrt (r0 * r0 + z * z) ^ 3) := by
  have hsc := Real.sin_sq_add_cos_sq φ
  unfold loopIntegrandAxis
  have hn : Kern.norm (⟨0 - r0 * Real.cos φ, 0 - r0 * Real.sin φ, z - 0⟩ : V3 ℝ) = Real.sqrt (r0 * r0 + z * z) := by
    simp only [Kern.norm, sqrt_real]
    congr 1
    nlinarith [hsc]
  simp only [hn]
  congr 1
  apply V3.ext' <;> simp only [V3.cross] <;> nlinarith [hsc]

/-- **C01 (Circle, on the axis)**: the value `BHJM_circle` returns for an observer on the loop's axis (its `mask3`
branch: `H = (0, 0, r0² / (z² + r0²)^{3/2} · I / 2)`) is the Biot–Savart integral `I/(4π) ∮ dl × r / |r|³` over the loop. -/
theorem circle_on_axis_is_biot_savart (fuel : Nat) (d cur z : ℝ) (hd : d ≠ 0) :
    bhjmCircle fuel .H d cur ⟨0, 0, z⟩ = some (vs (cur / (4 * Real.pi))
      ⟨∫ φ in (0:ℝ)..(2 * Real.pi), (loopIntegrandAxis |d / 2| z φ).x,
       ∫ φ in (0:ℝ)..(2 * Real.pi), (loopIntegrandAxis |d / 2| z φ).y,
       ∫ φ in (0:ℝ)..(2 * Real.pi), (loopIntegrandAxis |d / 2| z φ).z⟩) := by
  have hr0 : |d / 2| ≠ 0 := by simpa using hd
  have hpos : 0 < |d / 2| * |d / 2| + z * z := by
    have h1 : 0 < |d / 2| := abs_pos.mpr (div_ne_zero hd (two_ne_zero))
    nlinarith [mul_pos h1 h1, mul_self_nonneg z]
  set r0 := |d / 2| with hr0def
  set s := Real.sqrt (r0 * r0 + z * z) with hs
  have hs0 : 0 < s := Real.sqrt_pos.mpr hpos
  have hss : s * s = r0 * r0 + z * z := Real.mul_self_sqrt hpos.le
  simp only [loopIntegrandAxis_eq, vd]
  rw [intervalIntegral.integral_div, intervalIntegral.integral_div, intervalIntegral.integral_div]
  rw [intervalIntegral.integral_const_mul, intervalIntegral.integral_const_mul, intervalIntegral.integral_const]
  rw [integral_cos, integral_sin]
  simp only [Real.sin_two_pi, Real.sin_zero, Real.cos_two_pi, Real.cos_zero, sub_self, mul_zero, zero_div, sub_zero, smul_eq_mul]
  -- the model side: on-axis branch
  simp only [bhjmCircle, sqrt_real, abs_real, eq0_real, n, ofNat_real, Nat.cast_ofNat, Nat.cast_zero, Nat.cast_one, mul_zero, add_zero,
    Real.sqrt_zero, decide_true, if_true, ← hr0def, hr0, decide_false, Bool.false_eq_true, if_false]
  congr 1
  have hpi : Real.pi ≠ 0 := Real.pi_ne_zero
  apply V3.ext' <;> simp only [vs]
  · ring
  · ring
  · rw [show z * z + r0 * r0 = r0 * r0 + z * z by ring, ← hs]
    have : s ^ 3 = (r0 * r0 + z * z) * s := by rw [← hss]; ring
    rw [this]
    field_simp
    ring

-- non-vacuity (audit): loop of diameter 2 with unit current, observer at the centre: H = (0, 0, I/(2 r0)) = (0, 0, 1/2).
-- Note the quantifier: observers exactly ON THE AXIS only (a set of measure zero); off the axis nothing is proved for Circle.
example : bhjmCircle 0 .H (2 : ℝ) 1 ⟨0, 0, 0⟩ = some ⟨0, 0, 1 / 2⟩ := by simp [bhjmCircle, n]

/-! ### Cuboid: the closed form of `magnet_cuboid_Bfield` is the Coulombian surface-charge integral

`cuboidCoulombB dim pol p` (Lemmas/CuboidCoulomb.lean) is, component by component,
`1/(4π) ∮ σ(q) (p − q)/|p − q|³ dA(q)` over the six faces of the cuboid `[−dim/2, dim/2]`, with
`σ = J·n` (`+J_x` on `x' = +dim.x/2`, `−J_x` on `x' = −dim.x/2`, …), each face integral an iterated
`intervalIntegral` in the source coordinates; this is `μ₀H` of the homogeneously polarised body. -/

open MagpyVerif.RectCharge MagpyVerif.CuboidCoulomb in
/-- the field of a uniformly charged rectangle, the two building blocks of the Cuboid formula
(`x`, `y` in-plane offsets, `z ≠ 0` the normal distance, `r = √(x²+y²+z²)`, limits in any order):
normal component  ∫∫ z/r³ = Δ arctan(x y/(z r)),  tangential  ∫∫ x/r³ = Δ log(r − y),
`Δ F = F(x₂,y₂) − F(x₂,y₁) − F(x₁,y₂) + F(x₁,y₁)` -/
theorem rect_charge_field {z : ℝ} (hz : z ≠ 0) (x1 x2 y1 y2 : ℝ) :
    (∫ y in y1..y2, ∫ x in x1..x2, z / rr x y z ^ 3) =
        d2 (fun x y => Real.arctan (x * y / (z * rr x y z))) x1 x2 y1 y2 ∧
    (∫ y in y1..y2, ∫ x in x1..x2, x / rr x y z ^ 3) =
        d2 (fun x y => Real.log (rr x y z - y)) x1 x2 y1 y2 :=
  ⟨rect_normal hz x1 x2 y1 y2, rect_tangential hz x1 x2 y1 y2⟩

example : (∫ y in (0:ℝ)..1, ∫ x in (0:ℝ)..1, (1:ℝ) / MagpyVerif.RectCharge.rr x y 1 ^ 3) =
    MagpyVerif.RectCharge.d2 (fun x y => Real.arctan (x * y / (1 * MagpyVerif.RectCharge.rr x y 1))) 0 1 0 1 :=
  (rect_charge_field one_ne_zero 0 1 0 1).1

open MagpyVerif.CuboidCoulomb in
/-- **C01 (Cuboid)**: for positive side lengths, every polarization and every observer off the six
(infinitely extended) face planes, the value computed by the port of `magnet_cuboid_Bfield` —
reflection of the observer into the bottom-Q4 octant, eight corner distances, the arctan2 sums
`ff1*`, the log differences `ff2*`, the `qsigns` table — is the Coulombian surface-charge integral
`1/(4π) ∮ (J·n)(p − q)/|p − q|³ dA` over the six faces (= μ₀H), plus `J` for observers strictly
inside: B = μ₀H + J inside, B = μ₀H outside.  Covers all eight octants (the reflection is shown
to be invisible in exact arithmetic) and the interior. -/
theorem cuboid_is_coulomb_integral (dim pol p : V3 ℝ) (hdx : 0 < dim.x) (hdy : 0 < dim.y) (hdz : 0 < dim.z)
    (hx : |p.x| ≠ dim.x / 2) (hy : |p.y| ≠ dim.y / 2) (hz : |p.z| ≠ dim.z / 2) :
    cuboidB dim pol p =
      cuboidCoulombB dim pol p +
        (if |p.x| < dim.x / 2 ∧ |p.y| < dim.y / 2 ∧ |p.z| < dim.z / 2 then pol else ⟨0, 0, 0⟩) := by
  have off : ∀ {t a : ℝ}, 0 < a → |t| ≠ a → t - a ≠ 0 ∧ t + a ≠ 0 := by
    intro t a ha h
    constructor
    · intro e; apply h; rw [show t = a by linarith]; exact abs_of_pos ha
    · intro e; apply h; rw [show t = -a by linarith, abs_neg]; exact abs_of_pos ha
  have hX := off (half_pos hdx) hx
  have hY := off (half_pos hdy) hy
  have hZ := off (half_pos hdz) hz
  exact cuboidB_eq_coulomb dim pol p hdx hdy hdz hX.1 hX.2 hY.1 hY.2 hZ.1 hZ.2

open MagpyVerif.CuboidCoulomb in
/-- outside the magnet the closed form is exactly the surface-charge integral -/
theorem cuboid_outside_is_coulomb_integral (dim pol p : V3 ℝ) (hdx : 0 < dim.x) (hdy : 0 < dim.y) (hdz : 0 < dim.z)
    (hx : |p.x| ≠ dim.x / 2) (hy : |p.y| ≠ dim.y / 2) (hz : |p.z| ≠ dim.z / 2)
    (hout : ¬ (|p.x| < dim.x / 2 ∧ |p.y| < dim.y / 2 ∧ |p.z| < dim.z / 2)) :
    cuboidB dim pol p = cuboidCoulombB dim pol p := by
  rw [cuboid_is_coulomb_integral dim pol p hdx hdy hdz hx hy hz, if_neg hout]
  apply V3.ext' <;> simp

-- non-vacuity: a 2×2×2 cuboid; an observer that needs all three reflections (x<0, y>0, z>0), one in the
-- bottom-Q4 octant itself, one strictly inside
example : cuboidB (⟨2, 2, 2⟩ : V3 ℝ) ⟨0, 0, 1⟩ ⟨-3, 1 / 2, 5⟩ =
    MagpyVerif.CuboidCoulomb.cuboidCoulombB ⟨2, 2, 2⟩ ⟨0, 0, 1⟩ ⟨-3, 1 / 2, 5⟩ := by
  apply cuboid_outside_is_coulomb_integral <;> norm_num [abs_of_pos, abs_of_neg]
example : cuboidB (⟨2, 2, 2⟩ : V3 ℝ) ⟨0, 0, 1⟩ ⟨3, -1 / 2, -5⟩ =
    MagpyVerif.CuboidCoulomb.cuboidCoulombB ⟨2, 2, 2⟩ ⟨0, 0, 1⟩ ⟨3, -1 / 2, -5⟩ := by
  apply cuboid_outside_is_coulomb_integral <;> norm_num [abs_of_pos, abs_of_neg]
example : cuboidB (⟨2, 2, 2⟩ : V3 ℝ) ⟨0, 0, 1⟩ ⟨1 / 2, 1 / 3, -1 / 4⟩ =
    MagpyVerif.CuboidCoulomb.cuboidCoulombB ⟨2, 2, 2⟩ ⟨0, 0, 1⟩ ⟨1 / 2, 1 / 3, -1 / 4⟩ + ⟨0, 0, 1⟩ := by
  rw [cuboid_is_coulomb_integral _ _ _ (by norm_num) (by norm_num) (by norm_num)
    (by norm_num [abs_of_pos]) (by norm_num [abs_of_pos]) (by norm_num [abs_of_neg]), if_pos]
  norm_num [abs_of_pos, abs_of_neg]

open MagpyVerif.CuboidCoulomb in
/-- **C01 (Cuboid wrapper, H)**: where `BHJM_magnet_cuboid` takes its general branch and its
tolerance-based inside mask agrees with the geometric interior (observer not within the relative
1e-12 shell around the surface), the returned H is the surface-charge integral divided by μ₀ —
inside and outside the magnet alike. -/
theorem cuboid_wrapper_H_is_coulomb_integral (dim pol p : V3 ℝ) (hdx : 0 < dim.x) (hdy : 0 < dim.y) (hdz : 0 < dim.z)
    (hx : |p.x| ≠ dim.x / 2) (hy : |p.y| ≠ dim.y / 2) (hz : |p.z| ≠ dim.z / 2)
    (hgen : (cuboidMasks dim pol p).general = true)
    (hins : (cuboidMasks dim pol p).inside = decide (|p.x| < dim.x / 2 ∧ |p.y| < dim.y / 2 ∧ |p.z| < dim.z / 2)) :
    bhjmCuboid .H dim pol p = vd (cuboidCoulombB dim pol p) mu0R := by
  simp only [bhjmCuboid, wrapB, hgen, hins, if_true, cuboid_is_coulomb_integral dim pol p hdx hdy hdz hx hy hz,
    decide_eq_true_eq, mu0_real]
  split_ifs <;> apply V3.ext' <;> simp [vd, zero3, n]

-- non-vacuity of the mask hypotheses: general branch taken, inside mask = geometric interior (outside and inside)
example : (cuboidMasks (⟨2, 2, 2⟩ : V3 ℝ) ⟨0, 0, 1⟩ ⟨3, -1 / 2, -5⟩).general = true ∧
    (cuboidMasks (⟨2, 2, 2⟩ : V3 ℝ) ⟨0, 0, 1⟩ ⟨3, -1 / 2, -5⟩).inside =
      decide (|(3 : ℝ)| < 2 / 2 ∧ |(-1 / 2 : ℝ)| < 2 / 2 ∧ |(-5 : ℝ)| < 2 / 2) := by
  constructor <;> simp [cuboidMasks, n] <;> norm_num [abs_of_pos, abs_of_neg]
example : (cuboidMasks (⟨2, 2, 2⟩ : V3 ℝ) ⟨0, 0, 1⟩ ⟨1 / 2, 1 / 3, -1 / 4⟩).general = true ∧
    (cuboidMasks (⟨2, 2, 2⟩ : V3 ℝ) ⟨0, 0, 1⟩ ⟨1 / 2, 1 / 3, -1 / 4⟩).inside =
      decide (|(1 / 2 : ℝ)| < 2 / 2 ∧ |(1 / 3 : ℝ)| < 2 / 2 ∧ |(-1 / 4 : ℝ)| < 2 / 2) := by
  constructor <;> simp [cuboidMasks, n] <;> norm_num [abs_of_pos, abs_of_neg]

open MagpyVerif.CuboidCoulomb in
/-- **C01 (Cuboid wrapper, geometric form)**: for positive side lengths, **every** polarization
(zero included) and every observer outside the three thin shells `| |p_i| − dim_i/2 | < 1e-15·dim_i/2`
in which `BHJM_magnet_cuboid` switches to its surface / edge special cases, the wrapper's masks,
its general branch and `magnet_cuboid_Bfield` together return
  H = (1/μ₀) · (1/(4π)) ∮ (J·n)(p − q)/|p − q|³ dA      (inside and outside alike), and
  B = that surface-charge integral, plus J strictly inside. -/
theorem cuboid_wrapper_is_coulomb_integral (dim pol p : V3 ℝ) (hdx : 0 < dim.x) (hdy : 0 < dim.y) (hdz : 0 < dim.z)
    (hx : rtol * (dim.x / 2) ≤ |(|p.x| - dim.x / 2)|) (hy : rtol * (dim.y / 2) ≤ |(|p.y| - dim.y / 2)|)
    (hz : rtol * (dim.z / 2) ≤ |(|p.z| - dim.z / 2)|) :
    bhjmCuboid .H dim pol p = vd (cuboidCoulombB dim pol p) mu0R ∧
    bhjmCuboid .B dim pol p = cuboidCoulombB dim pol p +
      (if |p.x| < dim.x / 2 ∧ |p.y| < dim.y / 2 ∧ |p.z| < dim.z / 2 then pol else ⟨0, 0, 0⟩) := by
  obtain ⟨hin, hgen⟩ := cuboidMasks_clear dim pol p hdx hdy hdz hx hy hz
  have ox := (shell_clear (half_pos hdx) hx).2.2
  have oy := (shell_clear (half_pos hdy) hy).2.2
  have oz := (shell_clear (half_pos hdz) hz).2.2
  have hcore := cuboid_is_coulomb_integral dim pol p hdx hdy hdz ox oy oz
  by_cases hp : pol.x = 0 ∧ pol.y = 0 ∧ pol.z = 0
  · have hpol : pol = ⟨0, 0, 0⟩ := V3.ext' hp.1 hp.2.1 hp.2.2
    subst hpol
    have hgen' : (cuboidMasks dim ⟨0, 0, 0⟩ p).general = false := by rw [hgen]; simp
    simp only [bhjmCuboid, wrapB, hgen', cuboidCoulombB_zero_pol, mu0_real, Bool.false_eq_true, if_false, ite_self]
    constructor <;> apply V3.ext' <;> simp [vd, zero3, n]
  · simp only [hp, decide_false, Bool.not_false] at hgen
    by_cases hI : |p.x| < dim.x / 2 ∧ |p.y| < dim.y / 2 ∧ |p.z| < dim.z / 2
    · have hin' : (cuboidMasks dim pol p).inside = true := by
        rw [hin]; exact decide_eq_true (show insideP dim p from hI)
      simp only [bhjmCuboid, wrapB, hgen, hin', if_true, hcore, mu0_real, if_pos hI]
      refine ⟨?_, trivial⟩
      apply V3.ext' <;> simp [vd]
    · have hin' : (cuboidMasks dim pol p).inside = false := by
        rw [hin]; exact decide_eq_false (show ¬ insideP dim p from hI)
      simp only [bhjmCuboid, wrapB, hgen, hin', if_true, hcore, mu0_real, if_neg hI, Bool.false_eq_true, if_false]
      refine ⟨?_, trivial⟩
      apply V3.ext' <;> simp [vd, zero3, n]

-- non-vacuity: 2×2×2 cuboid; the three shell hypotheses for ONE observer (3, -1/2, -1/4) (outside, another octant)
open MagpyVerif.CuboidCoulomb in
example : rtol * ((2 : ℝ) / 2) ≤ |(|(3 : ℝ)| - 2 / 2)| ∧ rtol * ((2 : ℝ) / 2) ≤ |(|(-1 / 2 : ℝ)| - 2 / 2)| ∧
    rtol * ((2 : ℝ) / 2) ≤ |(|(-1 / 4 : ℝ)| - 2 / 2)| := by
  unfold rtol
  refine ⟨?_, ?_, ?_⟩ <;> norm_num [abs_of_pos, abs_of_neg]

-- … and (audit) an observer strictly INSIDE: all hypotheses hold and the polarization term is added
open MagpyVerif.CuboidCoulomb in
example : bhjmCuboid .B (⟨2, 2, 2⟩ : V3 ℝ) ⟨0, 0, 1⟩ ⟨1 / 2, 1 / 3, -1 / 4⟩ =
    cuboidCoulombB ⟨2, 2, 2⟩ ⟨0, 0, 1⟩ ⟨1 / 2, 1 / 3, -1 / 4⟩ + ⟨0, 0, 1⟩ := by
  have h := (cuboid_wrapper_is_coulomb_integral (⟨2, 2, 2⟩ : V3 ℝ) ⟨0, 0, 1⟩ ⟨1 / 2, 1 / 3, -1 / 4⟩
    (by norm_num) (by norm_num) (by norm_num)
    (by unfold rtol; norm_num [abs_of_pos, abs_of_neg]) (by unfold rtol; norm_num [abs_of_pos, abs_of_neg])
    (by unfold rtol; norm_num [abs_of_pos, abs_of_neg])).2
  rw [h, if_pos]
  norm_num [abs_of_pos, abs_of_neg]

end MagpyVerif.C01
