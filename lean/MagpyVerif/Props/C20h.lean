/-
Props/C20h.lean — C20, the whole precedence chain over the ABSTRACT maps: the composition of
  * `C20e.effective_style_reads_exact` / `show_keyword_wins` (get_style, defaults layers derived from the tree of
    `magpylib.defaults`, in terms of reads of the world) with
  * `C20g.reads_refine_all_partial` (every read of a plain property in a reachable world is the `absStep` fold of the history).
In every reachable world, for every object and every plain style leaf, the resolved value is the first non-None of
[show keyword, abstract own-style value, abstract family-default values most specific first, abstract base-default value],
where ALL values are folds of `absStep` over the operations and their outcomes: no tree, and no hypothesis `hdef` about the
defaults layers.
-/
import MagpyVerif.Props.C20e
import MagpyVerif.Props.C20g

namespace MagpyVerif.C20h
open MagpyVerif.StyleNested MagpyVerif.StyleState MagpyVerif.Gen.StyleSchema MagpyVerif.C20c MagpyVerif.C20d MagpyVerif.C20e
open MagpyVerif.C20g MagpyVerif.StyleEffective MagpyVerif.Style

/-- the class of `magpylib.defaults` -/
def c0 : ClassInfo := ⟨"DefaultSettings".toList, ["DefaultSettings".toList, "MagicProperties".toList, "object".toList], cDefaultSettings⟩

theorem clsOf_init_zero (cls : List Nat) : clsOf (init cls) 0 = some c0 := by
  unfold clsOf
  rw [init_zero]
  rfl

/-- the abstract value of the plain property `q` (validator `vid`) of object `j` (class `c`) after the history: the fold of
`absStep` over the operations with their outcomes, started from the value after construction / at import time -/
def absVal (cls : List Nat) (ops : List Op) (j : Nat) (c : ClassInfo) (q : List Key) (vid : Nat) : Option Val :=
  match (annot (init cls) ops).foldl (absStep j c q vid) (readAt (init cls) j q) with
  | .ok (.leaf v) => v
  | _ => none

/-- the abstract family default: the abstract value of `magpylib.defaults.display.style.<fam>.<q>` when that is a plain
property of the family's default class, None (skipped) otherwise -/
def absDflt (cls : List Nat) (ops : List Op) (fam : Str) (q : List Key) : Option Val :=
  match leafVid props0 (styleRoot ++ .str fam :: q) with
  | some v0 => absVal cls ops 0 c0 (styleRoot ++ .str fam :: q) v0
  | none => none

/-- the documented precedence chain below the show() keywords, over the abstract maps -/
def absChain (cls : List Nat) (ops : List Op) (j : Nat) (c : ClassInfo) (fams : List Str) (q : List Key) (vid : Nat) : Option Val :=
  firstSome (absVal cls ops j c q vid :: (fams.reverse.map (fun f => absDflt cls ops f q)) ++ [absDflt cls ops "base".toList q])

theorem ownAt_abs (cls : List Nat) (hcls : ∀ ci ∈ cls, ci < classes.length) (ops : List Op)
    (hcov : ∀ x ∈ annot (init cls) ops, x.2 = true → CovOp (init cls) x.1)
    (j : Nat) (c : ClassInfo) (hc0 : clsOf (init cls) j = some c) (q : List Key) (vid : Nat) (hq : leafVid c.schema.props q = some vid) :
    ownAt (exec tables classes defaults (init cls) ops) j q = absVal cls ops j c q vid := by
  unfold ownAt absVal
  rw [reads_refine_all_partial cls hcls ops hcov j c hc0 q vid hq]
  rfl

theorem dfltAt_abs (cls : List Nat) (hcls : ∀ ci ∈ cls, ci < classes.length) (ops : List Op)
    (hcov : ∀ x ∈ annot (init cls) ops, x.2 = true → CovOp (init cls) x.1) (fam : Str) (q : List Key) :
    dfltAt (exec tables classes defaults (init cls) ops) fam q = absDflt cls ops fam q := by
  unfold dfltAt absDflt
  cases hl : leafVid props0 (styleRoot ++ .str fam :: q) with
  | none => rfl
  | some v0 =>
    simp only []
    unfold absVal
    rw [reads_refine_all_partial cls hcls ops hcov 0 c0 (clsOf_init_zero cls) _ v0 (by exact hl)]
    rfl

theorem chain_abs (cls : List Nat) (hcls : ∀ ci ∈ cls, ci < classes.length) (ops : List Op)
    (hcov : ∀ x ∈ annot (init cls) ops, x.2 = true → CovOp (init cls) x.1)
    (j : Nat) (c : ClassInfo) (hc0 : clsOf (init cls) j = some c) (fams : List Str) (q : List Key) (vid : Nat)
    (hq : leafVid c.schema.props q = some vid) :
    chain (exec tables classes defaults (init cls) ops) j fams q = absChain cls ops j c fams q vid := by
  unfold chain absChain
  have hf : (fun f => dfltAt (exec tables classes defaults (init cls) ops) f q) = (fun f => absDflt cls ops f q) :=
    funext (fun f => dfltAt_abs cls hcls ops hcov f q)
  rw [ownAt_abs cls hcls ops hcov j c hc0 q vid hq, dfltAt_abs cls hcls ops hcov "base".toList q, hf]

/- FULL: for EVERY history (no `CovOp`), ANY show() keywords (also such that give a dict / None / a string to a sub-object,
   and the `style={…}` keyword), with `get_style` returning as a conclusion.  Proved: histories whose accepted updates have
   fitting arguments (`C20g.CovOp`: nothing is asked of attribute assignments, resets, rejected operations), show keywords
   that fit the style class after `magic_to_dict`, conditional on `getStyleW … = ok res` (the `seff` stream compares the
   exception classes of the raising calls). -/
/-- **C20 — the effective style is the documented precedence chain over the abstract maps.**  After any history (accepted
updates fitting, `CovOp`) on the defaults and the objects, for every object `j ≥ 1` of class `c` with families `fams`
(`famOK` / `vidsAgree`: computed for every regenerated object class, `C20e.families_fit`, `families_validators_agree`),
every plain style leaf `q`, show() keywords that have no value at `q`: whenever `get_style` returns, the resolved style holds
at `q` exactly the first non-None of [the abstract own-style value; the abstract family defaults, most specific first; the
abstract base default] — every one of them the `absStep` fold of the history (the last accepted write that covers it since
the last `defaults.reset()`, else the value at import time / after construction). -/
theorem effective_style_refines_partial2 (cls : List Nat) (hcls : ∀ ci ∈ cls, ci < classes.length) (ops : List Op)
    (hcov : ∀ x ∈ annot (init cls) ops, x.2 = true → CovOp (init cls) x.1)
    (j : Nat) (o : Obj) (c : ClassInfo) (ho : (exec tables classes defaults (init cls) ops)[j]? = some o)
    (hc : classes[o.cls]? = some c) (fams : List Str)
    (hfam : famOK cDisplayStyle.props c.schema.props ("base".toList :: fams) = true)
    (hagree : vidsAgree cDisplayStyle.props c.schema.props ("base".toList :: fams) = true)
    (kw mk : Dict) (hmk : updArg none (specific o.tree kw) = .ok mk) (hfit : fitsKids c.schema.props mk = true)
    (q : List Str) (vid : Nat) (hq : leafVid c.schema.props (q.map Key.str) = some vid)
    (hkwq : ∀ v, getPath (.node mk) (q.map Key.str) ≠ some (.leaf v))
    (res : Dict) (hres : getStyleW (exec tables classes defaults (init cls) ops) j fams kw = .ok res) :
    readPath c.schema.props res (q.map Key.str) = .ok (.leaf (absChain cls ops j c fams (q.map Key.str) vid)) := by
  obtain ⟨hwf, h0⟩ := reachable_world_ok cls hcls ops
  have hg : Good (init cls) (exec tables classes defaults (init cls) ops) := by
    have key : ∀ (l : List Op) (w : World), Good (init cls) w → Good (init cls) (exec tables classes defaults w l) := by
      intro l
      induction l with
      | nil => intro w h; exact h
      | cons op t ih => intro w h; rw [exec_cons]; exact ih _ (good_step _ w h op)
    exact key ops _ (good_init cls hcls)
  have hc0 : clsOf (init cls) j = some c := by
    rw [← hg.cls]
    unfold clsOf
    rw [ho]
    exact hc
  rw [effective_style_reads_exact _ hwf h0 j o c ho hc fams hfam hagree kw mk hmk hfit (updArg_wf _ _ mk hmk) q vid hq hkwq res hres,
    chain_abs cls hcls ops hcov j c hc0 fams (q.map Key.str) vid hq]

/-- **… and a show() keyword exactly at `q` wins** over all of them (when its setter stores a non-None value) -/
theorem show_keyword_wins_reachable (cls : List Nat) (hcls : ∀ ci ∈ cls, ci < classes.length) (ops : List Op)
    (j : Nat) (o : Obj) (c : ClassInfo) (ho : (exec tables classes defaults (init cls) ops)[j]? = some o)
    (hc : classes[o.cls]? = some c) (fams : List Str)
    (hfam : famOK cDisplayStyle.props c.schema.props ("base".toList :: fams) = true)
    (kw mk : Dict) (hmk : updArg none (specific o.tree kw) = .ok mk) (hfit : fitsKids c.schema.props mk = true)
    (q : List Str) (vid : Nat) (hq : leafVid c.schema.props (q.map Key.str) = some vid)
    (v : Option Val) (a : Val) (hkwq : getPath (.node mk) (q.map Key.str) = some (.leaf v))
    (hv : runV tables vid (.leaf v) = .ok (some a))
    (res : Dict) (hres : getStyleW (exec tables classes defaults (init cls) ops) j fams kw = .ok res) :
    readPath c.schema.props res (q.map Key.str) = .ok (.leaf (some a)) := by
  obtain ⟨hwf, h0⟩ := reachable_world_ok cls hcls ops
  exact show_keyword_wins _ hwf h0 j o c ho hc fams hfam kw mk hmk hfit (updArg_wf _ _ mk hmk) q vid hq v a hkwq hv res hres

/-- non-vacuity: a Cuboid after `defaults.display.style.magnet.magnetization.show = False`,
`defaults.display.style.base.update(opacity=0.5)`, `cuboid.style.path.line.width = 2`, `cuboid.style.path = {"line": {"style":
"dashed"}}` (a sub-object assignment: the width is gone again) and a `defaults.display.style.reset()`; the abstract chain and
the model's `get_style` agree at `opacity`, `magnetization.show`, `path.line.width`, `path.line.style` -/
example :
    let pth : Key := .str "path".toList
    let line : Key := .str "line".toList
    let ops : List Op := [
      .setattr 0 (styleRoot ++ [.str "magnet".toList, .str "magnetization".toList]) (.str "show".toList) (.leaf (some 12)),
      .update 0 (styleRoot ++ [.str "base".toList]) none [(.str "opacity".toList, .leaf (some 21))] true false,
      .setattr 1 [pth, line] (.str "width".toList) (.leaf (some 15)),
      .setattr 1 [] pth (.node [(line, .node [(.str "style".toList, .leaf (some 37))])]),
      .setattr 0 (styleRoot ++ [.str "base".toList, pth, line]) (.str "width".toList) (.leaf (some 10))]
    let c : ClassInfo := ⟨"MagnetStyle".toList, [], cMagnetStyle⟩
    let fams : List Str := ["magnet".toList, "cuboid".toList]
    let w := exec tables classes defaults (init [1]) ops
    let ok := fun (q : List Str) (v : Option Val) =>
      (match leafVid cMagnetStyle.props (q.map Key.str) with
        | some vid => absChain [1] ops 1 c fams (q.map Key.str) vid == v
        | none => false) &&
      (match getStyleW w 1 fams [] with
        | .ok res => (match readPath cMagnetStyle.props res (q.map Key.str) with | .ok (.leaf x) => x == v | _ => false)
        | .error _ => false)
    (annot (init [1]) ops).all (·.2) = true ∧
    ok ["opacity".toList] (some 21) = true ∧ ok ["magnetization".toList, "show".toList] (some 12) = true ∧
    ok ["path".toList, "line".toList, "width".toList] (some 10) = true ∧ ok ["path".toList, "line".toList, "style".toList] (some 37) = true := by
  decide +kernel

end MagpyVerif.C20h
