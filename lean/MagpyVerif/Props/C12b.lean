/-
Props/C12b.lean — C12 (unit invariance) for what lies BETWEEN the user's numbers and the kernels: the pose machinery
(move / rotate with anchor / position and orientation setters / reset_path / padding / the rotate_from_* entry points /
add / remove, objects and nested collections — Model/Path, Tree, History) and the marshalling pipeline of
`getBH_level2` (observer construction `r.apply(pixel) + p`, source-frame transformation, collection loop, sensor
back-rotation, pixel_agg, sumup, squeeze — Model/Level2).  Props/C12.lean proves the kernels unit-free one by one; a change
that rounds a position path to a fixed number of decimals, or compares a length with an absolute tolerance, anywhere in
the pose code leaves all of those theorems intact.  Here:

* `step_homogeneous`, `history_homogeneous`: for EVERY map `σ` of the position carrier that commutes with `+ - 0` and
  the rotation action (`VHom`), every operation and — by induction — every history commutes with `σ`:
  `run (ops.map (scaleOp σ)) (scaleState σ t) = scaleState σ (run ops t)`.  `history_unit_invariant` is the instance
  `σ = (s · )` on `V3 ℝ` for EVERY real `s` (no `s ≠ 0`, no `s > 0`); `history_homogeneous_on_driver_carrier` the
  instance on the integer carrier the compiled driver computes with (the objects of the `path` stream).
* `tensor_unit_covariant`, `getBH_unit_covariant`: the pipeline with all positions, pixels (hence observers) through
  `σ` and every field function `τ`-covariant returns `τ` of the old result; `tensor_unit_covariant_per_entry`: every
  source entry with its own degree.
* `arrangement_covariant`, `arrangement_unit_invariant`: the two combined — any pose history in scaled lengths followed
  by getB gives the scaled result, for all histories, all trees, all selections of sources and sensors, all `s > 0`.
* `abs_sites_pinned`: the regenerated list of absolute-length constructs in the pose / marshalling sources
  (Gen/AbsLen.lean) is the list pinned here, and no site is classified as acting on a length.
-/
import MagpyVerif.Lemmas.Level2Scale
import MagpyVerif.Props.C12
import MagpyVerif.Gen.AbsLen

namespace MagpyVerif.C12b
open MagpyVerif MagpyVerif.Level2 MagpyVerif.Kern RotFrom

/-! ### (1) the pose machinery -/
section pose
variable {G V W α : Type} [Kern.Num α]
variable [Mul G] [Inv G] [One G] [SMul G V] [SMul G W] [Add V] [Sub V] [Zero V] [Add W] [Sub W] [Zero W]

/-- every position in the state through `σ` (orientations unchanged) -/
abbrev scaleState (σ : V → W) : Node G V → Node G W := Node.mapV σ
/-- displacements, anchors, position values of an operation through `σ` (rotations, angles, axes, `start`, addresses
unchanged) -/
abbrev scaleOp (σ : V → W) : HOp α G V → HOp α G W := HOp.mapV σ
/-- a history on a collection tree -/
abbrev run (sc : Scipy α G) (ops : List (HOp α G V)) (t : Node G V) : Node G V := ops.foldl (Node.hstep sc) t

/-- **one operation is homogeneous** — each of move, rotate (scalar / vector input, anchor none / scalar / vector with
`multi_anchor_behavior`, `start` any integer or auto, children rotating about the parent's path), `position =` and
`orientation =` with their child updates, `reset_path`, the six `rotate_from_*` forms, `add`, `remove`, rejected calls,
addressed to any node of any tree -/
theorem step_homogeneous {σ : V → W} (hσ : VHom G σ) (sc : Scipy α G) (t : Node G V) (op : HOp α G V) :
    (scaleState σ t).hstep sc (scaleOp σ op) = scaleState σ (t.hstep sc op) :=
  Node.hstep_mapV hσ sc t op

/-- **every history is homogeneous** -/
theorem history_homogeneous {σ : V → W} (hσ : VHom G σ) (sc : Scipy α G) (ops : List (HOp α G V)) (t : Node G V) :
    run sc (ops.map (scaleOp σ)) (scaleState σ t) = scaleState σ (run sc ops t) :=
  Node.foldl_hstep_mapV hσ sc ops t
end pose

/-- **unit invariance of the pose machinery over ℝ**: for every real `s` (zero and negative included — no absolute
length enters anywhere), every rotation carrier acting linearly, every history -/
theorem history_unit_invariant {G α : Type} [Kern.Num α] [Mul G] [Inv G] [One G] [SMul G (V3 ℝ)]
    (hlin : ∀ (g : G) (c : ℝ) (v : V3 ℝ), g • vs c v = vs c (g • v)) (s : ℝ)
    (sc : Scipy α G) (ops : List (HOp α G (V3 ℝ))) (t : Node G (V3 ℝ)) :
    run sc (ops.map (scaleOp (vs s))) (scaleState (vs s) t) = scaleState (vs s) (run sc ops t) :=
  history_homogeneous (vsHom s hlin) sc ops t

/-- 3×3 real matrices (the instances of Model/Basic.lean) act linearly: `hlin` is satisfiable -/
theorem m3_real_linear (g : M3 ℝ) (c : ℝ) (v : V3 ℝ) : g • vs c v = vs c (g • v) := by
  show M3.apply g (vs c v) = vs c (M3.apply g v)
  apply V3.ext' <;> simp only [M3.apply, V3.dot, vs] <;> ring

/-- **the same on the carrier the compiled driver computes with** (`V3 Int` under `M3 Int`, bare instances of
Model/Basic.lean — the objects the `path` stream compares with the real code), any integer factor -/
theorem history_homogeneous_on_driver_carrier {α : Type} [Kern.Num α] (s : Int) (sc : Scipy α (M3 Int))
    (ops : List (HOp α (M3 Int) (V3 Int))) (t : Node (M3 Int) (V3 Int)) :
    run sc (ops.map (scaleOp (V3.smul s))) (scaleState (V3.smul s) t) = scaleState (V3.smul s) (run sc ops t) :=
  history_homogeneous (intScaleHom s) sc ops t

section nonvacuity
def rz : M3 Int := ⟨⟨0, -1, 0⟩, ⟨1, 0, 0⟩, ⟨0, 0, 1⟩⟩

-- an object is moved, then rotated by 90° and 180° about z about the anchor (1,2,3) with a vector input appended to the
-- path: the positions depend on displacement and anchor; in the unit that is 1000 times smaller (displacement, anchor,
-- stored position × 1000) every number is 1000 times the old one — as `step_homogeneous` says
example :
    let o : Obj (M3 Int) (V3 Int) := ⟨[⟨1, 0, 0⟩], [1]⟩
    (applyRotation (.vector [rz, rz * rz]) (some (.scalar ⟨1, 2, 3⟩)) none none
        (applyMove (.scalar ⟨2, 0, 5⟩) none o)).pos = [⟨3, 0, 5⟩, ⟨3, 4, 5⟩, ⟨-1, 4, 5⟩] ∧
    (applyRotation (.vector [rz, rz * rz]) (some (.scalar ⟨1000, 2000, 3000⟩)) none none
        (applyMove (.scalar ⟨2000, 0, 5000⟩) none (o.mapV (V3.smul 1000)))).pos =
      [⟨3000, 0, 5000⟩, ⟨3000, 4000, 5000⟩, ⟨-1000, 4000, 5000⟩] := by decide
end nonvacuity

/-! ### (2) the marshalling pipeline -/
section pipeline
variable {G V W : Type}
variable [Mul G] [Inv G] [One G] [SMul G V] [SMul G W] [BEq G] [Add V] [Sub V] [Zero V] [Add W] [Sub W] [Zero W]

/-- **the tensor of `getBH_level2` is unit-covariant**: pose paths of sources and sensors and the pixel offsets through
`σ`; every leaf's field function in the new unit `τ`-covariant against the old one (`SrcRel`: the kernel theorems of
Props/C12, `τ` = identity for magnets, `· / s` for currents, `· / s³` for dipoles) ⇒ every entry of the tensor
`[source][path][sensor][pixel]` through `τ`.  Any carrier with the bare operations; no well-formedness hypotheses. -/
theorem tensor_unit_covariant {σ τ : V → W} (hσ : VHom G σ) (hτ : VHom G τ) (flipX : V → V) (flipX' : W → W)
    (hflip : ∀ v, flipX' (τ v) = τ (flipX v)) (es : List (Entry G V)) (es' : List (Entry G W)) (ks : List (Sens G V))
    (hcol : es'.map Entry.colLen = es.map Entry.colLen)
    (hl : List.Forall₂ (SrcRel σ τ) (es.flatMap Entry.leaves) (es'.flatMap Entry.leaves)) :
    tensor flipX' es' (ks.map (Sens.mapV σ)) = (tensor flipX es ks).map (List.map (List.map (List.map τ))) :=
  tensor_rel hσ hτ flipX flipX' hflip es es' ks hcol hl

/-- **`getBH_level2` as a whole** (pixel_agg sum / min / max, sumup, squeeze, the error exits) -/
theorem getBH_unit_covariant {σ τ : V → W} (hσ : VHom G σ) (hτ : VHom G τ) (flipX : V → V) (flipX' : W → W)
    (hflip : ∀ v, flipX' (τ v) = τ (flipX v)) (vmin vmax : V → V → V) (vmin' vmax' : W → W → W)
    (hmin : ∀ a b, vmin' (τ a) (τ b) = τ (vmin a b)) (hmax : ∀ a b, vmax' (τ a) (τ b) = τ (vmax a b))
    (es : List (Entry G V)) (es' : List (Entry G W)) (ks : List (Sens G V))
    (hcol : es'.map Entry.colLen = es.map Entry.colLen)
    (hl : List.Forall₂ (SrcRel σ τ) (es.flatMap Entry.leaves) (es'.flatMap Entry.leaves))
    (sumup squeeze : Bool) (agg : Agg) :
    getBH flipX' vmin' vmax' es' (ks.map (Sens.mapV σ)) sumup squeeze agg =
      (getBH flipX vmin vmax es ks sumup squeeze agg).map (Out.mapV τ) :=
  getBH_rel hσ hτ flipX flipX' hflip vmin vmax vmin' vmax' hmin hmax es es' ks hcol hl sumup squeeze agg
end pipeline

/-- **every source entry with its own power of `s`** (a magnet next to a current loop next to a dipole in one call):
entry `i` of the tensor in the new unit is `τ (entries[i])` of entry `i` in the old unit.  Through `level2_refines`,
hence for a group action and well-formed inputs. -/
theorem tensor_unit_covariant_per_entry {G V : Type} [Group G] [AddCommGroup V] [DistribMulAction G V] [BEq G]
    [LawfulBEq G] {σ : V → V} (hσ : VHom G σ) (τ : Entry G V → V → V) (hτ : ∀ e, VHom G (τ e))
    (flipX : V → V) (hflip : ∀ e v, flipX (τ e v) = τ e (flipX v)) (Φ : Src G V → V → V)
    (entries : List (Entry G V)) (sensors : List (Sens G V))
    (hF : ∀ e ∈ entries, ∀ s ∈ e.leaves, ∀ x, Φ s (σ x) = τ e (s.F x))
    (he : ∀ e ∈ entries, e.leaves ≠ []) (hs : ∀ k ∈ sensors, k.WF) :
    tensor flipX (entries.map (Entry.mapV σ Φ)) (sensors.map (Sens.mapV σ)) =
      List.zipWith (fun e T => T.map (List.map (List.map (τ e)))) entries (tensor flipX entries sensors) :=
  tensor_mapV_per_entry hσ τ hτ flipX hflip Φ entries sensors hF he hs

/-! ### (3) pose history followed by getB -/

/-- the general form (any carrier, any `σ`, `τ`) -/
theorem arrangement_covariant {G V W α : Type} [Kern.Num α]
    [Mul G] [Inv G] [One G] [SMul G V] [SMul G W] [BEq G] [Add V] [Sub V] [Zero V] [Add W] [Sub W] [Zero W]
    {σ τ : V → W} (hσ : VHom G σ) (hτ : VHom G τ) (flipX : V → V) (flipX' : W → W)
    (hflip : ∀ v, flipX' (τ v) = τ (flipX v)) (vmin vmax : V → V → V) (vmin' vmax' : W → W → W)
    (hmin : ∀ a b, vmin' (τ a) (τ b) = τ (vmin a b)) (hmax : ∀ a b, vmax' (τ a) (τ b) = τ (vmax a b))
    (sc : Scipy α G) (ops : List (HOp α G V)) (t : Node G V)
    (srcs : List (SrcSel V W)) (sens : List (SensSel V))
    (hF : ∀ a ∈ srcs, ∀ l ∈ a.leafSels, ∀ x, l.F' (σ x) = τ (l.F x)) (sumup squeeze : Bool) (agg : Agg) :
    getBH flipX' vmin' vmax'
        (srcs.map (SrcSel.entry' (run sc (ops.map (scaleOp σ)) (scaleState σ t)).objs))
        (sens.map fun k => (k.mapV σ).sens (run sc (ops.map (scaleOp σ)) (scaleState σ t)).objs)
        sumup squeeze agg =
      (getBH flipX vmin vmax (srcs.map (SrcSel.entry (run sc ops t).objs))
        (sens.map fun k => k.sens (run sc ops t).objs) sumup squeeze agg).map (Out.mapV τ) :=
  Level2.arrangement_covariant hσ hτ flipX flipX' hflip vmin vmax vmin' vmax' hmin hmax sc ops t srcs sens hF
    sumup squeeze agg

/-- handedness flip, component-wise minimum / maximum on `V3 ℝ` (what the driver's `flipX`, `vmin`, `vmax` are on
its integer carrier) -/
def flipR (a : V3 ℝ) : V3 ℝ := ⟨-a.x, a.y, a.z⟩
noncomputable def minR (a b : V3 ℝ) : V3 ℝ := ⟨min a.x b.x, min a.y b.y, min a.z b.z⟩
noncomputable def maxR (a b : V3 ℝ) : V3 ℝ := ⟨max a.x b.x, max a.y b.y, max a.z b.z⟩

/-- **C12 for arrangements**: build ANY arrangement by ANY history of pose operations on ANY collection tree, read ANY
of its objects as sources (bare or as collections) with ANY of its objects as sensors (any pixels, handedness,
pixel_agg, sumup, squeeze).  Doing all of it with every length multiplied by `s > 0` — displacements, anchors, position
values, initial positions, pixel offsets, and the sources' own dimensions (so that each field function is homogeneous
of degree `−d`: `F' (s·x) = s^(−d) · F x`, the kernel theorems) — returns the same array (same shape, same error)
with every field vector multiplied by `s^(−d)`: unchanged for magnets (`d = 0`), `/ s` for currents, `/ s³` for
dipoles. -/
theorem arrangement_unit_invariant {G α : Type} [Kern.Num α] [Mul G] [Inv G] [One G] [SMul G (V3 ℝ)] [BEq G]
    (hlin : ∀ (g : G) (c : ℝ) (v : V3 ℝ), g • vs c v = vs c (g • v)) (s : ℝ) (hs : 0 < s) (d : ℕ)
    (sc : Scipy α G) (ops : List (HOp α G (V3 ℝ))) (t : Node G (V3 ℝ))
    (srcs : List (SrcSel (V3 ℝ) (V3 ℝ))) (sens : List (SensSel (V3 ℝ)))
    (hF : ∀ a ∈ srcs, ∀ l ∈ a.leafSels, ∀ x, l.F' (vs s x) = vs (1 / s ^ d) (l.F x))
    (sumup squeeze : Bool) (agg : Agg) :
    getBH flipR minR maxR
        (srcs.map (SrcSel.entry' (run sc (ops.map (scaleOp (vs s))) (scaleState (vs s) t)).objs))
        (sens.map fun k => (k.mapV (vs s)).sens (run sc (ops.map (scaleOp (vs s))) (scaleState (vs s) t)).objs)
        sumup squeeze agg =
      (getBH flipR minR maxR (srcs.map (SrcSel.entry (run sc ops t).objs))
        (sens.map fun k => k.sens (run sc ops t).objs) sumup squeeze agg).map (Out.mapV (vs (1 / s ^ d))) := by
  have hc : 0 ≤ 1 / s ^ d := by positivity
  apply arrangement_covariant (vsHom s hlin) (vsHom (1 / s ^ d) hlin) flipR flipR _ minR maxR minR maxR _ _ sc ops t
    srcs sens hF
  · intro v
    apply V3.ext' <;> simp only [flipR, vs] <;> ring
  · intro a b
    apply V3.ext' <;> simp only [minR, vs] <;> exact (mul_min_of_nonneg _ _ hc).symm
  · intro a b
    apply V3.ext' <;> simp only [maxR, vs] <;> exact (mul_max_of_nonneg _ _ hc).symm

-- non-vacuity of `hF`: a Cuboid source (degree 0: all four outputs, EVERY observer — Props/C12
-- `bhjmCuboid_scale_invariant`) in the old unit and with its dimensions in the new unit
example (s : ℝ) (hs : 0 < s) (f : Field) (dim pol : V3 ℝ) (hx : 0 < dim.x) (hy : 0 < dim.y) (hz : 0 < dim.z) (i : Nat) :
    let l : LeafSel (V3 ℝ) (V3 ℝ) := ⟨i, bhjmCuboid f dim pol, bhjmCuboid f (vs s dim) pol⟩
    ∀ x, l.F' (vs s x) = vs (1 / s ^ 0) (l.F x) := by
  intro l x
  show bhjmCuboid f (vs s dim) pol (vs s x) = vs (1 / s ^ 0) (bhjmCuboid f dim pol x)
  rw [C12.bhjmCuboid_scale_invariant s hs f dim pol x hx hy hz]
  apply V3.ext' <;> simp [vs]

-- … and a Dipole (degree 3) away from its own position; at the position itself both sides are Lean's totalised values
-- (audit2: NOT an instance of `hF`, which quantifies over every `x`; `bhjmDipole_homogeneous_all` below is)
example (s : ℝ) (hs : 0 < s) (f : Field) (m x : V3 ℝ) (hx : Kern.norm x ≠ 0) :
    bhjmDipole f m (vs s x) = vs (1 / s ^ 3) (bhjmDipole f m x) :=
  C12.bhjmDipole_homogeneous s hs f m x hx

/-! audit2: `hF` asks for homogeneity at EVERY point `x` (also points no observer visits); the kernel theorems of Props/C12 that carry a side
condition on `x` (`bhjmDipole_homogeneous`: `norm x ≠ 0`) do not discharge it as they stand.  Below: the Dipole for every `x` (at its own
position both sides are Lean's totalised `0`), two more kernels for every `x` (Sphere degree 0, current segment degree 1 — masks included), and
one complete instance of `arrangement_unit_invariant` (ALL hypotheses: rotation carrier `M3 ℝ` through `m3_real_linear`, a Sphere as source). -/

theorem bhjmDipole_homogeneous_all (l : ℝ) (hl : 0 < l) (f : Field) (m x : V3 ℝ) :
    bhjmDipole f m (vs l x) = vs (1 / l ^ 3) (bhjmDipole f m x) := by
  by_cases hx : Kern.norm x ≠ 0
  · exact C12.bhjmDipole_homogeneous l hl f m x hx
  · have hx0 : Kern.norm x = 0 := not_not.mp hx
    have hn : Kern.norm (vs l x) = 0 := by rw [C12.norm_scale l hl x, hx0, mul_zero]
    have h1 : dipoleH m (vs l x) = (⟨0, 0, 0⟩ : V3 ℝ) := by
      simp only [dipoleH, hn]; apply V3.ext' <;> simp [vd, n]
    have h2 : dipoleH m x = (⟨0, 0, 0⟩ : V3 ℝ) := by
      simp only [dipoleH, hx0]; apply V3.ext' <;> simp [vd, n]
    cases f <;> simp only [bhjmDipole, h1, h2] <;> apply V3.ext' <;> simp [vs, zero3, n]

example (s : ℝ) (hs : 0 < s) (f : Field) (dia : ℝ) (pol : V3 ℝ) (i : Nat) :
    let l : LeafSel (V3 ℝ) (V3 ℝ) := ⟨i, bhjmSphere f dia pol, bhjmSphere f (s * dia) pol⟩
    ∀ x, l.F' (vs s x) = vs (1 / s ^ 0) (l.F x) := by
  intro l x
  show bhjmSphere f (s * dia) pol (vs s x) = vs (1 / s ^ 0) (bhjmSphere f dia pol x)
  rw [C12.sphere_scale_invariant_all s hs f dia pol x]
  apply V3.ext' <;> simp [vs]

example (s : ℝ) (hs : 0 < s) (f : Field) (cur : ℝ) (p1 p2 : V3 ℝ) (i : Nat) :
    let l : LeafSel (V3 ℝ) (V3 ℝ) := ⟨i, bhjmSegment f cur p1 p2, bhjmSegment f cur (vs s p1) (vs s p2)⟩
    ∀ x, l.F' (vs s x) = vs (1 / s ^ 1) (l.F x) := by
  intro l x
  show bhjmSegment f cur (vs s p1) (vs s p2) (vs s x) = vs (1 / s ^ 1) (bhjmSegment f cur p1 p2 x)
  rw [C12.bhjmSegment_homogeneous s hs f cur p1 p2 x, pow_one]

example {α : Type} [Kern.Num α] [BEq (M3 ℝ)] (s : ℝ) (hs : 0 < s) (sc : Scipy α (M3 ℝ)) (ops : List (HOp α (M3 ℝ) (V3 ℝ)))
    (t : Node (M3 ℝ) (V3 ℝ)) (f : Field) (dia : ℝ) (pol : V3 ℝ) (i : Nat) (sens : List (SensSel (V3 ℝ))) (sumup squeeze : Bool) (agg : Agg) :
    let srcs : List (SrcSel (V3 ℝ) (V3 ℝ)) := [.one ⟨i, bhjmSphere f dia pol, bhjmSphere f (s * dia) pol⟩]
    getBH flipR minR maxR
        (srcs.map (SrcSel.entry' (run sc (ops.map (scaleOp (vs s))) (scaleState (vs s) t)).objs))
        (sens.map fun k => (k.mapV (vs s)).sens (run sc (ops.map (scaleOp (vs s))) (scaleState (vs s) t)).objs)
        sumup squeeze agg =
      (getBH flipR minR maxR (srcs.map (SrcSel.entry (run sc ops t).objs))
        (sens.map fun k => k.sens (run sc ops t).objs) sumup squeeze agg).map (Out.mapV (vs (1 / s ^ 0))) := by
  intro srcs
  apply arrangement_unit_invariant m3_real_linear s hs 0 sc ops t srcs sens _ sumup squeeze agg
  intro a ha l hl x
  simp only [srcs, List.mem_singleton] at ha
  subst ha
  simp only [SrcSel.leafSels, List.mem_singleton] at hl
  subst hl
  show bhjmSphere f (s * dia) pol (vs s x) = vs (1 / s ^ 0) (bhjmSphere f dia pol x)
  rw [C12.sphere_scale_invariant_all s hs f dia pol x]
  apply V3.ext' <;> simp [vs]

/-! ### (4) regenerated guard: absolute-length constructs in the pose / marshalling sources -/

/-- the sites the scanner (translate/gen.py `gen_abslen`) finds in class_BaseTransform.py, class_BaseGeo.py,
class_Collection.py, utility.py and field_wrap_BH.py on the pinned tree — rounding calls (`round`, `np.round`, `floor`, …,
`int(x)` of a non-integer expression), `isclose` / `allclose`, `atol=` / `rtol=` / `decimals=` keywords, comparisons of
a non-integer-valued expression with a non-zero numeric literal, exact float comparisons inside `all` / `any`,
fractional float literals, powers of ten —, each with the classification of the scanner's table: the two exact
quaternion comparisons (`dimensionless`: sensor orientation against the unit quaternion / against its first entry, no
tolerance), array-size arithmetic (`count`), and the unit-prefix formatting of `show()` (`display-units`).  NONE in the pose machinery (class_BaseTransform / class_BaseGeo /
class_Collection).  A new site anywhere in these five files, or a site that moves to another function or changes its
expression, makes this `decide` fail. -/
theorem abs_sites_pinned : Gen.AbsLen.sites =
    [("field_wrap_BH.py", "getBH_level2", "all(r == unitQ)", "dimensionless"),
     ("field_wrap_BH.py", "getBH_level2", "int(n_pp / max_path_len)", "count"),
     ("field_wrap_BH.py", "getBH_level2", "int(np.prod(ps[:-1]))", "count"),
     ("field_wrap_BH.py", "getBH_level2", "max_path_len > 1", "count"),
     ("utility.py", "add_iteration_suffix", "int(n)", "count"),
     ("utility.py", "check_static_sensor_orient", "np.all(rot == rot[0])", "dimensionless"),
     ("utility.py", "get_unit_factor", "10 ** factor_power", "display-units"),
     ("utility.py", "unit_prefix", "10 ** digits", "display-units"),
     ("utility.py", "unit_prefix", "int(log10(abs(number)))", "display-units")] := by decide

/-- no site is classified as acting on a length of the computation, and none is unclassified -/
theorem no_absolute_length_in_pose_code :
    Gen.AbsLen.sites.all (fun s => s.2.2.2 != "length" && s.2.2.2 != "unclassified") = true := by decide

/-- the pose machinery proper (the three object-model files) has no site at all -/
theorem pose_files_have_no_site :
    Gen.AbsLen.sites.all (fun s => s.1 != "class_BaseTransform.py" && s.1 != "class_BaseGeo.py" &&
      s.1 != "class_Collection.py") = true := by decide

end MagpyVerif.C12b
