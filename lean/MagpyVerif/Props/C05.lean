/-
Props/C05.lean — superposition: collections and sumup add fields; fields are linear in excitation.
-/
import MagpyVerif.Lemmas.Level2Compose
namespace MagpyVerif.C05
open MagpyVerif MagpyVerif.Level2
variable {G V : Type}

/-- the in-place loop `B[i] = sum(B[i:i+len]); B = delete(B, i+1:i+len)` run over the stacked
per-leaf tensors returns, for every top-level entry, the sum over the leaves of that entry's
(nested) tree — for any mix and order of bare sources and collections of any depth. -/
theorem collection_slice_sum [Add V] (f : Src G V → List (List V)) (entries : List (Entry G V))
    (hne : ∀ e ∈ entries, e.leaves ≠ []) :
    collapse 0 (entries.map Entry.colLen) ((entries.flatMap Entry.leaves).map f) =
      entries.map (fun e => sumT (e.leaves.map f)) := by
  have := collapse_spec f entries [] hne
  simpa using this

section
variable [Group G] [AddCommGroup V] [DistribMulAction G V]

/-- additivity in the excitation (marshalling part: frame change commutes with sums) -/
theorem linear_in_excitation_add (s : Src G V) (F1 F2 : V → V) (hF : ∀ x, s.F x = F1 x + F2 x)
    (m : Nat) (x : V) :
    level1 s m x = level1 { s with F := F1 } m x + level1 { s with F := F2 } m x :=
  level1_add s F1 F2 hF m x

/-- homogeneity in the excitation -/
theorem linear_in_excitation_smul {K : Type} [Monoid K] [DistribMulAction K V] [SMulCommClass G K V]
    (s : Src G V) (F1 : V → V) (a : K) (hF : ∀ x, s.F x = a • F1 x) (m : Nat) (x : V) :
    level1 s m x = a • level1 { s with F := F1 } m x :=
  level1_smul s F1 a hF m x
end

example : collapse (V := Int) 0 [none, some 2, none] [[[1]], [[10]], [[20]], [[5]]] = [[[1]], [[30]], [[5]]] := by
  decide


/-- end to end (through `C06.level2_refines`): what any sensor pixel reads from a Collection is the
sum of what it reads from each child entry — children may be sources or collections, nested to any
depth, with any path lengths; `flipX` (the handedness flip) only needs to be additive -/
theorem collection_is_sum_of_children [Group G] [AddCommGroup V] [DistribMulAction G V] [BEq G] [LawfulBEq G]
    (flipX : V → V) (hf : ∀ a b, flipX (a + b) = flipX a + flipX b) (h0 : flipX 0 = 0)
    (cs : List (Entry G V)) (k : Sens G V) (m : Nat) (x : V) :
    specValue flipX (.coll cs) k m x = (cs.map fun c => specValue flipX c k m x).sum :=
  specValue_coll flipX hf h0 cs k m x

end MagpyVerif.C05
