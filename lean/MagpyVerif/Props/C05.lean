/-
Props/C05.lean — superposition: collections and sumup add fields; fields are linear in excitation.
Marshalling part (level 2) first; at the end the kernel part: every ported closed-form kernel
(Dipole, straight segment, Circle, Cuboid, Triangle, Tetrahedron) is linear in its excitation
(moment / current / polarization), over ℝ (helper algebra in Lemmas/KernAlgebra.lean).  Cylinder: the
ported `BHJM_magnet_cylinder` is proportional to the polarization (positive factors for any
polarization, any non-zero factor for an axial one), is the sum of its transversal and axial parts
(Lemmas/KernCylinder.lean)
and fully linear in it (`cylinder_linear_in_polarization`: the polar form `pol_xy`, `tetta =
arctan2(pol_y, pol_x)`, kernel at `phi − tetta` is resolved with the kernel's cos/sin dependence on the
azimuth and the addition theorems), whenever the evaluations involved return a value.
-/
import MagpyVerif.Lemmas.KernCylSeg
import MagpyVerif.Lemmas.KernCylSegLin
import MagpyVerif.Lemmas.KernCylSegDisp
import MagpyVerif.Lemmas.Level2Shape
import MagpyVerif.Lemmas.KernAlgebra
import MagpyVerif.Lemmas.KernCylinder
import MagpyVerif.Lemmas.OctaCarrier
import MagpyVerif.Lemmas.Level2Post
import MagpyVerif.Lemmas.WrapLinear
import MagpyVerif.Props.C13
namespace MagpyVerif.C05
open MagpyVerif MagpyVerif.Level2
variable {G V : Type}

/-- the in-place loop `B[i] = sum(B[i:i+len]); B = delete(B, i+1:i+len)` run over the stacked
per-leaf tensors returns, for every top-level entry, the sum over the leaves of that entry's
(nested) tree — for any mix and order of bare sources and collections of any depth. -/
theorem collection_slice_sum [Add V] (f : Src G V → List (List V)) (entries : List (Entry G V))
    (hne : ∀ e ∈ entries, e.leaves ≠ []) :
    collapse 0 (entries.map Entry.colLen) ((entries.flatMap Entry.leaves).map f) =
      entries.map (fun e => sumT (e.leaves.map f)) := by
  have := collapse_spec f entries [] hne
  simpa using this

section
variable [Group G] [AddCommGroup V] [DistribMulAction G V]

/-- additivity in the excitation (marshalling part: frame change commutes with sums) -/
theorem linear_in_excitation_add (s : Src G V) (F1 F2 : V → V) (hF : ∀ x, s.F x = F1 x + F2 x)
    (m : Nat) (x : V) :
    level1 s m x = level1 { s with F := F1 } m x + level1 { s with F := F2 } m x :=
  level1_add s F1 F2 hF m x

/-- homogeneity in the excitation -/
theorem linear_in_excitation_smul {K : Type} [Monoid K] [DistribMulAction K V] [SMulCommClass G K V]
    (s : Src G V) (F1 : V → V) (a : K) (hF : ∀ x, s.F x = a • F1 x) (m : Nat) (x : V) :
    level1 s m x = a • level1 { s with F := F1 } m x :=
  level1_smul s F1 a hF m x
end

example : collapse (V := Int) 0 [none, some 2, none] [[[1]], [[10]], [[20]], [[5]]] = [[[1]], [[30]], [[5]]] := by
  decide


/-- end to end (through `C06.level2_refines`): what any sensor pixel reads from a Collection is the
sum of what it reads from each child entry — children may be sources or collections, nested to any
depth, with any path lengths; `flipX` (the handedness flip) only needs to be additive -/
theorem collection_is_sum_of_children [Group G] [AddCommGroup V] [DistribMulAction G V] [BEq G] [LawfulBEq G]
    (flipX : V → V) (hf : ∀ a b, flipX (a + b) = flipX a + flipX b) (h0 : flipX 0 = 0)
    (cs : List (Entry G V)) (k : Sens G V) (m : Nat) (x : V) :
    specValue flipX (.coll cs) k m x = (cs.map fun c => specValue flipX c k m x).sum :=
  specValue_coll flipX hf h0 cs k m x

section sumup
variable [Group G] [AddCommGroup V] [DistribMulAction G V] [BEq G] [LawfulBEq G]

/-- **sumup is the sum over the source axis** (`B = np.sum(B, axis=0, keepdims=True)` at the end of
`getBH_level2`): for every accepted input, with or without `pixel_agg`, the array returned with
`sumup=True` has one block of `N = M·K·P` vectors, the array returned with `sumup=False` has one such
block per top-level source entry, and flat element `j` of the former is the sum over all entries `l`
of flat element `l·N + j` of the latter — nothing else is added, nothing is left out. Only
commutative-monoid addition of `V` is used by the summation itself. -/
theorem sumup_is_sum (flipX : V → V) (vmin vmax : V → V → V) (entries : List (Entry G V))
    (sensors : List (Sens G V)) (agg : Agg) (out0 out1 : Out V) (hs : ∀ k ∈ sensors, k.WF)
    (h0 : getBH flipX vmin vmax entries sensors false false agg = .ok out0)
    (h1 : getBH flipX vmin vmax entries sensors true false agg = .ok out1) :
    out0.data.length = entries.length * out1.data.length ∧
    ∀ j < out1.data.length,
      out1.data[j]? = some (((List.range entries.length).map fun l =>
        out0.data.getD (l * out1.data.length + j) 0).sum) := by
  have hok := not_bad_of_getBH_ok h0
  have hne : sensors ≠ [] := fun hs => hok (Or.inr (Or.inl hs))
  obtain ⟨k0, ks, hks⟩ := List.exists_cons_of_ne_nil hne
  have hk0 : sensors.head? = some k0 := by rw [hks]; rfl
  have hL : 0 < entries.length := List.length_pos_iff.mpr (fun h => hok (Or.inl h))
  have hr0 := coreB_rect flipX vmin vmax entries sensors false agg hok hs k0 hk0
  have hr1 := coreB_rect flipX vmin vmax entries sensors true agg hok hs k0 hk0
  rw [getBH_ok flipX vmin vmax entries sensors false false agg hok] at h0
  rw [getBH_ok flipX vmin vmax entries sensors true false agg hok] at h1
  cases h0; cases h1
  simp only [Bool.false_eq_true, if_false, if_true] at hr0 hr1 ⊢
  rw [flat4_length hr0, flat4_length hr1, Nat.one_mul]
  refine ⟨rfl, ?_⟩
  intro j hj
  have := sumupT_getElem? hr0 hL j hj
  simpa [coreB] using this

/-- the same with the four indices written out: element `(m, k, p)` of the `sumup=True` result is the
sum over the source index `l` of the elements `(l, m, k, p)` of the `sumup=False` result, both
addressed in row-major order of the documented shape `(L, M, K, P)` (`P` = number of pixels of a
sensor, or 1 after pixel_agg) -/
theorem sumup_is_sum_indexed (flipX : V → V) (vmin vmax : V → V → V) (entries : List (Entry G V))
    (sensors : List (Sens G V)) (agg : Agg) (out0 out1 : Out V) (hs : ∀ k ∈ sensors, k.WF)
    (h0 : getBH flipX vmin vmax entries sensors false false agg = .ok out0)
    (h1 : getBH flipX vmin vmax entries sensors true false agg = .ok out1)
    (k0 : Sens G V) (hk0 : sensors.head? = some k0) (m k p : Nat)
    (hm : m < pathLen (entries.flatMap Entry.leaves) sensors) (hk : k < sensors.length)
    (hp : p < if agg = .none then pixNum k0 else 1) :
    out1.data[(m * sensors.length + k) * (if agg = .none then pixNum k0 else 1) + p]? =
      some (((List.range entries.length).map fun l =>
        out0.data.getD (((l * pathLen (entries.flatMap Entry.leaves) sensors + m) * sensors.length + k) *
          (if agg = .none then pixNum k0 else 1) + p) 0).sum) := by
  obtain ⟨_, hsum⟩ := sumup_is_sum flipX vmin vmax entries sensors agg out0 out1 hs h0 h1
  have hok := not_bad_of_getBH_ok h0
  have hr1 := coreB_rect flipX vmin vmax entries sensors true agg hok hs k0 hk0
  have hlen : out1.data.length = pathLen (entries.flatMap Entry.leaves) sensors *
      (sensors.length * (if agg = .none then pixNum k0 else 1)) := by
    rw [getBH_ok flipX vmin vmax entries sensors true false agg hok] at h1
    cases h1
    simp only [if_true] at hr1
    rw [flat4_length hr1, Nat.one_mul]
  generalize (if agg = .none then pixNum k0 else 1) = P at *
  generalize pathLen (entries.flatMap Entry.leaves) sensors = M at *
  have hj : (m * sensors.length + k) * P + p < out1.data.length := by
    rw [hlen, ← Nat.mul_assoc]
    exact idx_lt (idx_lt hm hk) hp
  rw [hsum _ hj, hlen]
  congr 3
  funext l
  congr 1
  ring
end sumup

-- non-vacuity: `np.sum(axis=0, keepdims=True)` on a 2 × 1 × 2 × 1 array, and the hypotheses of
-- `sumup_is_sum` (both calls succeed, sensors well-formed) on the scene `Level2.Example`
example : sumupT (V := Int) [[[[1], [2]]], [[[10], [20]]]] = [[[[11], [22]]]] := by decide
open Level2.Example in
example : (∃ out0, getBH exFlip exMin exMax exEntries exSensors false false .none = .ok out0) ∧
    (∃ out1, getBH exFlip exMin exMax exEntries exSensors true false .none = .ok out1) ∧
    (∀ k ∈ exSensors, k.ori ≠ [] ∧ k.pos.length = k.ori.length ∧ k.pixels.length = pixNum k) := by
  refine ⟨⟨_, getBH_ok _ _ _ _ _ _ _ _ (exNotBad _)⟩, ⟨_, getBH_ok _ _ _ _ _ _ _ _ (exNotBad _)⟩, ?_⟩
  intro k hk
  simp only [exSensors, List.mem_cons, List.not_mem_nil, or_false] at hk
  rcases hk with rfl | rfl <;> simp [pixNum]


/-! ### sumup and pixel_agg: what the code does, in its order (c03post)

`getBH_level2` sums over the source axis at the very end, AFTER the per-sensor rotation / flip and AFTER pixel_agg
(`Model/Level2.getBHF`, pixel_agg an arbitrary reduction `f`).  So: `sumup` result = Σ over the source entries of the
values that are there at that point.  Everything linear downstream commutes with it (rotation, flip, additive
reductions: the result is the reading of one compound source); a non-linear reduction does not: the code returns
Σ_e f(readings of e), not f(readings of Σ_e e). -/
section sumupPost
variable [Group G] [AddCommGroup V] [DistribMulAction G V] [BEq G] [LawfulBEq G]

/-- **sumup_after = sum_before(the sumup line)**: for every accepted input and ANY pixel_agg reduction (or none), flat
element `j` of the `sumup=True` result is the sum over the source entries `l` of flat element `l·N + j` of the
`sumup=False` result — the generalisation of `sumup_is_sum` from sum / min / max to every reduction -/
theorem sumup_after_eq_sum_before (flipX : V → V) (entries : List (Entry G V))
    (sensors : List (Sens G V)) (agg : Option (List V → V)) (out0 out1 : Out V) (hs : ∀ k ∈ sensors, k.WF)
    (h0 : getBHF flipX entries sensors false false agg = .ok out0)
    (h1 : getBHF flipX entries sensors true false agg = .ok out1) :
    out0.data.length = entries.length * out1.data.length ∧
    ∀ j < out1.data.length,
      out1.data[j]? = some (((List.range entries.length).map fun l =>
        out0.data.getD (l * out1.data.length + j) 0).sum) :=
  getBHF_sumup_is_sum flipX entries sensors agg out0 out1 hs h0 h1

/-- **sumup commutes with the sensor-frame rotation and the handedness flip** (no pixel_agg): element `(m, k, p)` of the
`sumup=True` result is what sensor `s` reads at its pixel `p` from ONE compound source consisting of all entries
(`.coll entries`: the fields are added in the global frame, then rotated / flipped once) — the code rotates / flips
each entry's field and adds afterwards; equal because both are additive -/
theorem sumup_commutes_with_sensor_frame (flipX : V → V) (hf : ∀ a b, flipX (a + b) = flipX a + flipX b)
    (hf0 : flipX 0 = 0) (entries : List (Entry G V)) (sensors : List (Sens G V))
    (out1 : Out V) (hs : ∀ k ∈ sensors, k.WF)
    (h1 : getBHF flipX entries sensors true false none = .ok out1) (k0 : Sens G V) (hk0 : sensors.head? = some k0)
    (m k p : Nat) (s : Sens G V) (x : V)
    (hm : m < pathLen (entries.flatMap Entry.leaves) sensors) (hk : sensors[k]? = some s)
    (hp : (pixPos s m)[p]? = some x) :
    out1.data[(m * sensors.length + k) * pixNum k0 + p]? = some (specValue flipX (.coll entries) s m x) :=
  getBHF_sumup_elem flipX hf hf0 entries sensors out1 hs h1 k0 hk0 m k p s x hm hk hp

/-- **with pixel_agg the code returns the sum of the aggregates**: element `(m, k)` of the `sumup=True`,
`pixel_agg=f` result is `Σ_e f [reading of entry e at px, in the sensor frame, for px in s's pixels]` -/
theorem sumup_of_pixel_agg_is_sum_of_aggregates (flipX : V → V) (entries : List (Entry G V))
    (sensors : List (Sens G V)) (f : List V → V) (out1 : Out V) (hs : ∀ k ∈ sensors, k.WF)
    (h1 : getBHF flipX entries sensors true false (some f) = .ok out1) (m k : Nat) (s : Sens G V)
    (hm : m < pathLen (entries.flatMap Entry.leaves) sensors) (hk : sensors[k]? = some s) :
    out1.data[m * sensors.length + k]? =
      some ((entries.map fun e => f ((pixPos s m).map (specValue flipX e s m))).sum) :=
  getBHF_sumup_agg_elem flipX entries sensors f out1 hs h1 m k s hm hk

/-- **for an additive reduction** (`sum`, `mean`) **sumup commutes with pixel_agg too**: the result is the aggregate
of the readings of the one compound source `.coll entries` -/
theorem sumup_commutes_with_additive_pixel_agg (flipX : V → V) (hf : ∀ a b, flipX (a + b) = flipX a + flipX b)
    (hf0 : flipX 0 = 0) (entries : List (Entry G V))
    (sensors : List (Sens G V)) (f : List V → V)
    (hadd : ∀ (P : List V) (a b : V → V), f (P.map fun x => a x + b x) = f (P.map a) + f (P.map b))
    (hzero : ∀ P : List V, f (P.map fun _ => 0) = 0)
    (out1 : Out V) (hs : ∀ k ∈ sensors, k.WF)
    (h1 : getBHF flipX entries sensors true false (some f) = .ok out1) (m k : Nat) (s : Sens G V)
    (hm : m < pathLen (entries.flatMap Entry.leaves) sensors) (hk : sensors[k]? = some s) :
    out1.data[m * sensors.length + k]? =
      some (f ((pixPos s m).map (specValue flipX (.coll entries) s m))) := by
  rw [getBHF_sumup_agg_elem flipX entries sensors f out1 hs h1 m k s hm hk,
    sum_agg_eq_agg_sum f hadd hzero entries (fun e x => specValue flipX e s m x) (pixPos s m)]
  congr 2
  apply List.map_congr_left
  intro x _
  exact (specValue_coll flipX hf hf0 entries s m x).symm

/-- `aggList .sum` is additive, so `pixel_agg="sum"` meets the hypotheses of the theorem above -/
theorem sum_is_additive_reduction (vmin vmax : V → V → V) :
    (∀ (P : List V) (a b : V → V), aggList .sum vmin vmax (P.map fun x => a x + b x) =
      aggList .sum vmin vmax (P.map a) + aggList .sum vmin vmax (P.map b)) ∧
    (∀ P : List V, aggList .sum vmin vmax (P.map fun _ => 0) = 0) := by
  have key : ∀ (l : List V) (c : V), l.foldl (· + ·) c = c + l.sum := by
    intro l
    induction l with
    | nil => intro c; simp
    | cons v vs ih => intro c; simp only [List.foldl_cons, List.sum_cons, ih]; abel
  have hs : ∀ l : List V, aggList .sum vmin vmax l = l.sum := by
    intro l
    cases l with
    | nil => rfl
    | cons v vs => simp only [aggList, key, List.sum_cons]
  constructor
  · intro P a b
    rw [hs, hs, hs]
    induction P with
    | nil => simp
    | cons x xs ih => simp only [List.map_cons, List.sum_cons, ih]; abel
  · intro P
    rw [hs]
    induction P with
    | nil => rfl
    | cons x xs ih => simp only [List.map_cons, List.sum_cons, ih, add_zero]
end sumupPost

/-! #### witness: with `max` the sum of the aggregates is NOT the aggregate of the sum -/
section sumupWitness
open Level2.Example

def sMaxV : List (V3 Int) → V3 Int := aggList .max exMin exMax
/-- B(x) = x and B(x) = −x, both at the origin; a sensor with the pixels (1,0,0), (2,0,0) -/
def sA : SrcZ := ⟨[⟨0, 0, 0⟩], [1], fun x => x⟩
def sB : SrcZ := ⟨[⟨0, 0, 0⟩], [1], fun x => -x⟩
def sSens : List SensZ := [⟨[⟨0, 0, 0⟩], [1], [⟨1, 0, 0⟩, ⟨2, 0, 0⟩], [2], false⟩]

/-- `getB([A, B], sens, sumup=True, pixel_agg="max")` = max(1,2) + max(−1,−2) = (1,0,0), whereas the same two
sources as ONE Collection give max(1−1, 2−2) = (0,0,0): hypothesis `hadd` of
`sumup_commutes_with_additive_pixel_agg` cannot be dropped, and `sumup` ≠ "put everything in a Collection" as soon as
a non-linear pixel_agg is used -/
theorem sum_of_max_ne_max_of_sum :
    coreBF exFlip [.leaf sA, .leaf sB] sSens true (some sMaxV) = [[[[⟨1, 0, 0⟩]]]] ∧
    coreBF exFlip [.coll [.leaf sA, .leaf sB]] sSens false (some sMaxV) = [[[[⟨0, 0, 0⟩]]]] := by
  have l1 : ([.leaf sA, .leaf sB] : List EntryZ).flatMap Entry.leaves = [sA, sB] := by simp [Entry.leaves]
  have l2 : ([.coll [.leaf sA, .leaf sB]] : List EntryZ).flatMap Entry.leaves = [sA, sB] := by simp [Entry.leaves]
  have l3 : ([.coll [.leaf sA, .leaf sB]] : List EntryZ).map Entry.colLen = [some 2] := by
    simp [Entry.colLen, Entry.leaves]
  constructor
  · unfold coreBF tensor; simp only [l1]; decide
  · unfold coreBF tensor; simp only [l2, l3]; decide
end sumupWitness

/-! ### linearity of the kernels in the excitation -/
section kernels
open MagpyVerif.Kern

/-- C05 (Triangle): `triangle_Bfield` is linear in the polarization — the polarization enters only
through the surface charge σ = n·J, a factor of the result -/
theorem triangleB_linear (a b : ℝ) (v0 v1 v2 p1 p2 x : V3 ℝ) :
    triangleB v0 v1 v2 (vs a p1 + vs b p2) x =
      vs a (triangleB v0 v1 v2 p1 x) + vs b (triangleB v0 v1 v2 p2 x) :=
  triangleB_linear' mu0R a b v0 v1 v2 p1 p2 x

/-- C05 (Triangle): all four outputs of `BHJM_triangle` are linear in the polarization -/
theorem bhjmTriangle_linear (a b : ℝ) (f : Field) (v0 v1 v2 p1 p2 x : V3 ℝ) :
    bhjmTriangle f v0 v1 v2 (vs a p1 + vs b p2) x =
      vs a (bhjmTriangle f v0 v1 v2 p1 x) + vs b (bhjmTriangle f v0 v1 v2 p2 x) :=
  bhjmTriangle_linear' mu0R a b f v0 v1 v2 p1 p2 x

/-- C05 (Tetrahedron): B, H, J, M of `BHJM_magnet_tetrahedron` are linear in the polarization, for
observers inside and outside (the inside mask and the chirality fix depend on the geometry only) -/
theorem bhjmTetra_linear (a b : ℝ) (f : Field) (v0 v1 v2 v3 p1 p2 x : V3 ℝ) :
    bhjmTetra f v0 v1 v2 v3 (vs a p1 + vs b p2) x =
      vs a (bhjmTetra f v0 v1 v2 v3 p1 x) + vs b (bhjmTetra f v0 v1 v2 v3 p2 x) :=
  bhjmTetra_linear' mu0R a b f v0 v1 v2 v3 p1 p2 x

/-- C05 (Circle): `current_circle_Hfield` is the field of unit current times the current, and it
fails to converge (within `fuel`) for a current iff it does for unit current -/
theorem circleHcyl_proportional (fuel : Nat) (r0 r z i0 : ℝ) :
    circleHcyl fuel r0 r z i0 = (circleHcyl fuel r0 r z 1).map (fun h => (i0 * h.1, i0 * h.2)) :=
  circleHcyl_current_factor mu0R fuel r0 r z i0

/-- C05 (Circle): `current_circle_Hfield` is linear in the current `i0` (whenever both cel
iterations return, i.e. the two single-current results are `some`) -/
theorem circleHcyl_linear (a b : ℝ) (fuel : Nat) (r0 r z i1 i2 : ℝ) (h1 h2 : ℝ × ℝ)
    (e1 : circleHcyl fuel r0 r z i1 = some h1) (e2 : circleHcyl fuel r0 r z i2 = some h2) :
    circleHcyl fuel r0 r z (a * i1 + b * i2) = some (a * h1.1 + b * h2.1, a * h1.2 + b * h2.2) :=
  circleHcyl_linear' mu0R a b fuel r0 r z i1 i2 h1 h2 e1 e2

/-- C05 (Polyline): `current_polyline_Hfield` of one segment is linear in the current -/
theorem segmentH_linear (a b c1 c2 : ℝ) (p1 p2 po : V3 ℝ) :
    segmentH (a * c1 + b * c2) p1 p2 po = vs a (segmentH c1 p1 p2 po) + vs b (segmentH c2 p1 p2 po) :=
  segmentH_linear' mu0R a b c1 c2 p1 p2 po

/-- C05 (Dipole): `dipole_Hfield` is linear in the moment -/
theorem dipoleH_linear (a b : ℝ) (m1 m2 x : V3 ℝ) :
    dipoleH (vs a m1 + vs b m2) x = vs a (dipoleH m1 x) + vs b (dipoleH m2 x) :=
  dipoleH_linear' mu0R a b m1 m2 x

/-- C05 (Cuboid): `magnet_cuboid_Bfield` (general case) is linear in the polarization: the six
closed-form factors and the octant sign flips depend on geometry only -/
theorem cuboidB_linear (a b : ℝ) (dim p1 p2 obs : V3 ℝ) :
    cuboidB dim (vs a p1 + vs b p2) obs = vs a (cuboidB dim p1 obs) + vs b (cuboidB dim p2 obs) :=
  cuboidB_linear' mu0R a b dim p1 p2 obs

-- non-vacuity: J of a tetrahedron at an inside observer is the (combined) polarization itself
example : bhjmTetra .J (⟨0, 0, 0⟩ : V3 ℝ) ⟨1, 0, 0⟩ ⟨0, 1, 0⟩ ⟨0, 0, 1⟩
    (vs 2 ⟨1, 0, 0⟩ + vs 3 ⟨0, 1, 0⟩) ⟨1 / 4, 1 / 4, 1 / 4⟩ = ⟨2, 3, 0⟩ := by
  have h : tetraInside (⟨0, 0, 0⟩ : V3 ℝ) ⟨1, 0, 0⟩ ⟨0, 1, 0⟩ ⟨0, 0, 1⟩ ⟨1 / 4, 1 / 4, 1 / 4⟩ = true := by
    simp [tetraInside, det3, n]
    norm_num
  simp only [bhjmTetra, h, if_true]
  apply V3.ext' <;> simp [vs]
-- the hypotheses of `circleHcyl_linear` hold as soon as the unit-current evaluation converges
example (fuel : Nat) (r0 r z : ℝ) (h : ℝ × ℝ) (e : circleHcyl fuel r0 r z 1 = some h) :
    circleHcyl fuel r0 r z 5 = some (5 * h.1, 5 * h.2) := by
  rw [circleHcyl_proportional, e]; rfl

/-- C05 (Cylinder), transversal and general polarization: all four outputs of `BHJM_magnet_cylinder`
are proportional to the polarization under a positive factor `c` — the masks `pol ≠ 0`, the angle
`tetta = arctan2(pol_y, pol_x)` and hence every argument of the kernels and of `cel0` are unchanged,
`pol_xy` and `pol_z` carry the factor; the result is computed (`some`) for `c·pol` iff it is for `pol` -/
theorem cylinder_linear_in_polarization_tv (c : ℝ) (hc : 0 < c) (fuel : Nat) (f : Field) (dim : ℝ × ℝ)
    (pol x : V3 ℝ) :
    bhjmCylinder fuel f dim (vs c pol) x = (bhjmCylinder fuel f dim pol x).map (vs c) :=
  bhjmCylinderRow_smul mu0R c hc fuel f _ _ _ _ pol

/-- C05 (Cylinder), axial polarization `(0, 0, pz)`: proportional to `pz` for every non-zero factor,
negative ones included (for `c = 0` the code skips the kernel, so the result is then `some 0` even
where the kernel would fail) -/
theorem cylinder_linear_in_polarization_ax (c : ℝ) (hc : c ≠ 0) (fuel : Nat) (f : Field) (dim : ℝ × ℝ)
    (pz : ℝ) (x : V3 ℝ) :
    bhjmCylinder fuel f dim ⟨0, 0, c * pz⟩ x = (bhjmCylinder fuel f dim ⟨0, 0, pz⟩ x).map (vs c) :=
  bhjmCylinderRow_axial_smul mu0R c hc fuel f _ _ _ _ pz

/-- C05 (Cylinder): the field of a cylinder with polarization `(px, py, pz)` is the sum of the fields of
the transversally polarized cylinder `(px, py, 0)` and the axially polarized one `(0, 0, pz)` — all
four outputs, every observer (inside terms, on-edge rule, pol = 0 special case included); it is
computed iff both parts are -/
theorem cylinder_polarization_split (fuel : Nat) (f : Field) (dim : ℝ × ℝ) (pol x : V3 ℝ) :
    bhjmCylinder fuel f dim pol x =
      (bhjmCylinder fuel f dim ⟨pol.x, pol.y, 0⟩ x).bind fun a =>
        (bhjmCylinder fuel f dim ⟨0, 0, pol.z⟩ x).map fun b => a + b :=
  bhjmCylinderRow_split mu0R fuel f _ _ _ _ pol

/-- C05 (Cylinder), full linearity: for arbitrary polarizations `p1 p2` (any directions, also
transversal ones of different azimuth) and arbitrary real `a b` (negative and zero included), all four
outputs of `BHJM_magnet_cylinder` satisfy `bhjm (a·p1 + b·p2) = a·bhjm p1 + b·bhjm p2` whenever the
three evaluations return a value (`none` = a `cel0` call failed; by `cylinder_polarization_split` and
the two theorems above that happens for a polarization iff it happens for its transversal or axial part).
The code computes in polar form (`pol_xy`, `tetta = arctan2(pol_y, pol_x)`, diametral kernel at `phi − tetta`);
the proof uses that the kernel depends on the azimuth through `cos` (Hr, Hz) and `sin` (Hphi) only, in both of
its branches, and `pol_xy·cos(phi − tetta) = pol_x cos phi + pol_y sin phi`. -/
theorem cylinder_linear_in_polarization (a b : ℝ) (fuel : Nat) (f : Field) (dim : ℝ × ℝ) (p1 p2 x v1 v2 v : V3 ℝ)
    (h1 : bhjmCylinder fuel f dim p1 x = some v1) (h2 : bhjmCylinder fuel f dim p2 x = some v2)
    (h : bhjmCylinder fuel f dim (vs a p1 + vs b p2) x = some v) :
    v = vs a v1 + vs b v2 :=
  bhjmCylinderRow_linear mu0R a b fuel f _ _ _ _ p1 p2 v1 v2 v h1 h2 h

-- non-vacuity: J inside the cylinder carries the factor; on the edge H = −(c·pol)/μ₀
example : bhjmCylinder 200 .J (2, 2) (vs 5 ⟨1, 2, 3⟩) (⟨0, 0, 0⟩ : V3 ℝ) = some (vs 5 ⟨1, 2, 3⟩) := by
  simp [bhjmCylinder, bhjmCylinderRow, cylMasks, n]
example : bhjmCylinder 200 .B (2, 3) (vs 5 ⟨1, 2, 3⟩) (⟨3, 4, 5⟩ : V3 ℝ) =
    (bhjmCylinder 200 .B (2, 3) ⟨1, 2, 3⟩ ⟨3, 4, 5⟩).map (vs 5) :=
  cylinder_linear_in_polarization_tv 5 (by norm_num) 200 .B _ _ _
-- the hypotheses of `cylinder_linear_in_polarization` are satisfiable with non-zero values: on the edge of the
-- cylinder of diameter 2 and height 2 (no elliptic integral needed) H = −pol/μ₀ for two transversal
-- polarizations of different direction and for their combination 2·p1 − 3·p2
example :
    bhjmCylinder 0 .H (2, 2) ⟨1, 0, 0⟩ (⟨1, 0, 1⟩ : V3 ℝ) = some ⟨-1 / mu0R, 0, 0⟩ ∧
    bhjmCylinder 0 .H (2, 2) ⟨0, 1, 0⟩ (⟨1, 0, 1⟩ : V3 ℝ) = some ⟨0, -1 / mu0R, 0⟩ ∧
    bhjmCylinder 0 .H (2, 2) (vs 2 ⟨1, 0, 0⟩ + vs (-3) ⟨0, 1, 0⟩) (⟨1, 0, 1⟩ : V3 ℝ) = some ⟨-2 / mu0R, 3 / mu0R, 0⟩ := by
  refine ⟨?_, ?_, ?_⟩ <;>
    simp [bhjmCylinder, bhjmCylinderRow, cylMasks, isclose, n, vd, vs]

/-! #### (audit 2, X3) Circle / Cylinder linearity without the `some` hypotheses

`circleHcyl_linear` and `cylinder_linear_in_polarization` above assume that the three evaluations return (`= some _`); a reader
cannot tell from them whether that ever happens off the masked branches.  The termination lemmas (Lemmas/CelAGM.lean,
Lemmas/KernCylinder.lean — the ones behind `C15.bhjmCircle_terminates` / `C15.cylinder_terminates`) discharge them: with the
input-dependent fuel bound the results exist and are linear.  (The bound is input dependent; `≤ 200`, the fuel the driver uses, is
shown only for `cel_iter0` — C15.) -/

/-- C05 (Cylinder), total: valid dimensions (`d > 0`, `h ≥ 0`), any two polarizations, any real factors, every observer and field -/
theorem cylinder_linear_in_polarization_total (a b : ℝ) (f : Field) (d h : ℝ) (hd : 0 < d) (hh : 0 ≤ h) (p1 p2 x : V3 ℝ)
    (fuel : ℕ) (hfuel : cylFuelX d h x ≤ fuel) :
    ∃ v1 v2, bhjmCylinder fuel f (d, h) p1 x = some v1 ∧ bhjmCylinder fuel f (d, h) p2 x = some v2 ∧
      bhjmCylinder fuel f (d, h) (vs a p1 + vs b p2) x = some (vs a v1 + vs b v2) := by
  obtain ⟨v1, h1⟩ := Option.isSome_iff_exists.mp (bhjmCylinder_isSome fuel f d h p1 x hd hh hfuel)
  obtain ⟨v2, h2⟩ := Option.isSome_iff_exists.mp (bhjmCylinder_isSome fuel f d h p2 x hd hh hfuel)
  obtain ⟨v, hv⟩ := Option.isSome_iff_exists.mp (bhjmCylinder_isSome fuel f d h (vs a p1 + vs b p2) x hd hh hfuel)
  exact ⟨v1, v2, h1, h2, by rw [hv, cylinder_linear_in_polarization a b fuel f (d, h) p1 p2 x v1 v2 v h1 h2 hv]⟩

/-- C05 (Circle), total: off the masked rows (`q2 > 0`, what the wrapper sends to the kernel: `circle_masks_imply_q2_pos`) -/
theorem circleHcyl_linear_total (a b : ℝ) (r0 r z i1 i2 : ℝ) (hq : 0 < circleQ2 r0 r z) (fuel : ℕ)
    (hfuel : circleFuel r0 r z ≤ fuel) :
    ∃ h1 h2, circleHcyl fuel r0 r z i1 = some h1 ∧ circleHcyl fuel r0 r z i2 = some h2 ∧
      circleHcyl fuel r0 r z (a * i1 + b * i2) = some (a * h1.1 + b * h2.1, a * h1.2 + b * h2.2) := by
  obtain ⟨h1, e1⟩ := Option.isSome_iff_exists.mp (circleHcyl_isSome fuel r0 r z i1 hq hfuel)
  obtain ⟨h2, e2⟩ := Option.isSome_iff_exists.mp (circleHcyl_isSome fuel r0 r z i2 hq hfuel)
  exact ⟨h1, h2, e1, e2, circleHcyl_linear a b fuel r0 r z i1 i2 h1 h2 e1 e2⟩

-- non-vacuity: an observer outside the cylinder, elliptic integrals involved (not the fuel-0 edge branch)
example : ∃ v1 v2, bhjmCylinder (cylFuelX 2 3 ⟨3, 4, 1⟩) .B ((2 : ℝ), 3) ⟨1, 2, 3⟩ ⟨3, 4, 1⟩ = some v1 ∧
    bhjmCylinder (cylFuelX 2 3 ⟨3, 4, 1⟩) .B ((2 : ℝ), 3) ⟨0, -1, 5⟩ ⟨3, 4, 1⟩ = some v2 ∧
    bhjmCylinder (cylFuelX 2 3 ⟨3, 4, 1⟩) .B ((2 : ℝ), 3) (vs 2 ⟨1, 2, 3⟩ + vs (-3) ⟨0, -1, 5⟩) ⟨3, 4, 1⟩ =
      some (vs 2 v1 + vs (-3) v2) :=
  cylinder_linear_in_polarization_total 2 (-3) .B 2 3 (by norm_num) (by norm_num) _ _ _ _ le_rfl
end kernels

end MagpyVerif.C05

/-! ### CylinderSegment -/
namespace MagpyVerif.C05
open MagpyVerif MagpyVerif.Kern MagpyVerif.Kern.CylSeg

/-- **C05 (CylinderSegment): all four outputs of the ported `BHJM_cylinder_segment` are linear in the polarization
vector**, at every observer, for arbitrary vectors `p`, `q` (different directions, zero, on the z-axis) and real
`a`, `b`:  `f(a·p + b·q) = a·f(p) + b·f(q)`; a NaN row (`none`) is a NaN row for every polarization.
The code converts the vector to (|p|/μ₀, arctan2(p_y, p_x), arctan2(√(p_x²+p_y²), p_z)) (`cylseg_spherical_conversion`);
each of the 129 translated case functions is linear in the unit vector (sin θ cos φ, sin θ sin φ, cos θ)
(Lemmas/KernCylSegLinGen.lean: statements generated from the source's parameter lists, one uniform tactic; the
special functions are opaque and never see the magnetization angles, `cylseg_special_functions_magnetization_free`);
the boundary sum, the amplitude factor, the rotation to Cartesian components and the B/H/J/M selection are linear. -/
theorem cylseg_linear_in_magnetization (μ : ℝ) (S : SegSpecial) (a b : ℝ) (f : Field)
    (x : V3 ℝ) (r1 r2 h p1 p2 : ℝ) (p q : V3 ℝ) :
    @bhjmCylSeg ℝ (realNumX μ S) f x r1 r2 h p1 p2 (lin2 a b p q) =
      olin a b (@bhjmCylSeg ℝ (realNumX μ S) f x r1 r2 h p1 p2 p) (@bhjmCylSeg ℝ (realNumX μ S) f x r1 r2 h p1 p2 q) :=
  bhjmCylSeg_linear μ S a b f x r1 r2 h p1 p2 p q

-- non-vacuity: the combination really mixes directions (e_x + e_z), which the magnitude-only statement could not reach,
-- and `olin` of two present rows is a present row
example : lin2 1 1 (⟨1, 0, 0⟩ : V3 ℝ) ⟨0, 0, 1⟩ = ⟨1, 0, 1⟩ := by simp [lin2]
example (X Y : V3 ℝ) : (olin 2 3 (some X) (some Y)).isSome := rfl
-- … and the equation is between proper rows, not `none = none`: at the centre of the apex line of the wedge
-- CylinderSegment(dimension=(0, 1, 2, 30, 120)) every field is a row, for every polarization
example (μ : ℝ) (S : SegSpecial) (f : Field) (pol : V3 ℝ) :
    (@bhjmCylSeg ℝ (realNumX μ S) f ⟨0, 0, 0⟩ 0 1 2 30 120 pol).isSome = true :=
  wedge_centre_isSome μ S f pol

/-- the Cartesian core of the wrapper (H of the not-on-surface rows) is linear in the polarization vector, and it
is `p_x/μ₀ · E_x + p_y/μ₀ · E_y + p_z/μ₀ · E_z` with unit fields `E` that depend on geometry and observer only -/
theorem cylseg_core_linear_in_magnetization (μ : ℝ) (S : SegSpecial) (N : SegNorm ℝ) (a b : ℝ) (p q : V3 ℝ) :
    @segCoreH ℝ (realNumX μ S) N (lin2 a b p q) =
      olin a b (@segCoreH ℝ (realNumX μ S) N p) (@segCoreH ℝ (realNumX μ S) N q) ∧
    @segCoreH ℝ (realNumX μ S) N p =
      ocomb (p.z / μ) (p.y / μ) (p.x / μ) (segCoreUnit μ S N 0 0)
        (segCoreUnit μ S N (Real.pi / 2) (Real.pi / 2)) (segCoreUnit μ S N 0 (Real.pi / 2)) :=
  ⟨segCoreH_linear μ S N a b p q, segCoreH_cartesian μ S N p⟩

/-- whether the core returns a NaN row does not depend on the polarization -/
theorem cylseg_nan_rows_independent_of_magnetization (μ : ℝ) (S : SegSpecial) (N : SegNorm ℝ) (p q : V3 ℝ) :
    (@segCoreH ℝ (realNumX μ S) N p).isSome = (@segCoreH ℝ (realNumX μ S) N q).isSome :=
  segCoreH_isSome μ S N p q

/-- the hypothesis about arccos/arctan2 the linearity rests on, proved: the code's conversion to
(amplitude, azimuth, polar angle) satisfies `M·(sin θ cos φ, sin θ sin φ, cos θ) = p/μ₀` for every vector `p`
(for `p = 0` the amplitude is 0; on the z-axis `arctan2(0, 0) = 0` and `sin θ = 0`) -/
theorem cylseg_spherical_conversion (μ : ℝ) (p : V3 ℝ) :
    let m := Real.sqrt (p.x * p.x + p.y * p.y + p.z * p.z) / μ
    let φ := Complex.arg ⟨p.x, p.y⟩
    let θ := Complex.arg ⟨p.z, Real.sqrt (p.x * p.x + p.y * p.y)⟩
    m * Real.cos θ = p.z / μ ∧ m * Real.sin θ * Real.sin φ = p.y / μ ∧ m * Real.sin θ * Real.cos φ = p.x / μ :=
  sph_of_cart μ p

/-- `magnet_cylinder_segment_Hfield` in spherical magnetization coordinates is the combination of its values for unit
magnetization along e_z, e_y, e_x -/
theorem cylseg_Hfield_linear_in_unit_vector (μ : ℝ) (S : SegSpecial) (r phi z r1 r2 p1 p2 z1 z2 mag φ θ : ℝ) :
    @segH ℝ (realNumX μ S) r phi z r1 r2 p1 p2 z1 z2 mag φ θ =
      ocomb (mag * Real.cos θ) (mag * (Real.sin θ * Real.sin φ)) (mag * (Real.sin θ * Real.cos φ))
        (@segH ℝ (realNumX μ S) r phi z r1 r2 p1 p2 z1 z2 1 0 0)
        (@segH ℝ (realNumX μ S) r phi z r1 r2 p1 p2 z1 z2 1 (Real.pi / 2) (Real.pi / 2))
        (@segH ℝ (realNumX μ S) r phi z r1 r2 p1 p2 z1 z2 1 0 (Real.pi / 2)) :=
  segH_sphlin μ S r phi z r1 r2 p1 p2 z1 z2 mag φ θ

/-- emitted by the translator's syntactic scan and checked here: the special functions never take the magnetization
angles as arguments, and no case function uses them outside `np.sin` / `np.cos` in a non-polynomial position -/
theorem cylseg_special_functions_magnetization_free :
    specialCallDeps.all (fun e => e.2.2.all fun v => v ∈ ["r", "r_i", "r_bar_i", "phi_bar_j", "z_bar_k"]) = true ∧
    magArgOffences = [] :=
  ⟨specialCallDeps_magnetization_free, magArgOffences_empty⟩

/-- (audit 2, X4) the `decide`d table of the theorem above is not empty and mentions each of the three special functions: the
`all` does not hold vacuously.  (`magArgOffences = []` is the translator's verdict "no offence found"; that the scan looks at every
call is trusted — translate/cylseg2lean.py.  The Lean proof of `cylseg_linear_in_magnetization` does not use the table: there the
special functions are explicit arguments of the translated case functions.) -/
theorem cylseg_special_call_table_nonempty :
    specialCallDeps ≠ [] ∧
    ["ellipkinc", "ellipeinc", "el3angle"].all (fun g => specialCallDeps.any fun e => e.2.1 == g) = true :=
  ⟨by decide, by decide⟩

/-- the magnitude part (kept: it is what the rescaling oracle exercises): a positive factor on the polarization
multiplies all four outputs -/
theorem cylseg_scales_with_polarization (μ : ℝ) (S : SegSpecial) (c : ℝ) (hc : 0 < c) (f : Field)
    (x : V3 ℝ) (r1 r2 h p1 p2 : ℝ) (pol : V3 ℝ) :
    @bhjmCylSeg ℝ (realNumX μ S) f x r1 r2 h p1 p2 (@vs ℝ (realNum μ) c pol) =
      (@bhjmCylSeg ℝ (realNumX μ S) f x r1 r2 h p1 p2 pol).map (@vs ℝ (realNum μ) c) :=
  bhjmCylSeg_smul μ S c hc f x r1 r2 h p1 p2 pol

/-- the core `magnet_cylinder_segment_Hfield` is proportional to the magnetization amplitude (any real factor) -/
theorem cylseg_core_linear_in_amplitude (μ : ℝ) (S : SegSpecial) (c r phi z r1 r2 p1 p2 z1 z2 mag phiM thM : ℝ) :
    @segH ℝ (realNumX μ S) r phi z r1 r2 p1 p2 z1 z2 (c * mag) phiM thM =
      (@segH ℝ (realNumX μ S) r phi z r1 r2 p1 p2 z1 z2 mag phiM thM).map (@vs ℝ (realNum μ) c) :=
  segH_smul μ S c r phi z r1 r2 p1 p2 z1 z2 mag phiM thM

-- non-vacuity: a positive factor exists
example : (0 : ℝ) < 5 := by norm_num


/-! ### on the carrier the driver computes with (AUDIT X1)

The driver evaluates the model at `M3 Int` / `V3 Int` (Model/Basic.lean, `⁻¹` = transpose — not a group);
`collection_is_sum_of_children` is over an abstract `Group G`.  Lemmas/OctaCarrier.lean: on octahedral rotation
matrices (`IsOct`) the `M3 Int` evaluation is the evaluation at the group `Oct`.  `specValueOp` is `specValue`
with the bare operation classes (`specValue_eq_op`). -/
section driverCarrier
open MagpyVerif.Level2

/-- **`collection_is_sum_of_children` on the driver's carrier**: with the integer matrix operations, what a
sensor pixel reads from a Collection is the sum of what it reads from each child, for any nesting, whenever the
rotation matrices of the collection's leaves and of the sensor are octahedral.  (Obtained by transfer from the group `Oct`, hence the
hypotheses; `collection_is_sum_of_children_on_M3Int` below drops them: only additivity of the matrix action is used.) -/
theorem collection_is_sum_of_children_on_driver_carrier
    (flipX : V3 Int → V3 Int) (hf : ∀ a b, flipX (a + b) = flipX a + flipX b) (h0 : flipX 0 = 0)
    (cs : List EntryZ) (k : SensZ) (hco : (Entry.coll cs : EntryZ).RotsOct) (hko : k.RotsOct)
    (m : Nat) (x : V3 Int) :
    specValueOp flipX (.coll cs) k m x = (cs.map fun c => specValueOp flipX c k m x).sum := by
  obtain ⟨cs', rfl⟩ := exists_oct_entries cs ((Entry.rotsOct_coll cs).mp hco)
  obtain ⟨k', rfl⟩ := exists_oct_sensor k hko
  rw [← Entry.toM3_coll, specValue_at_Oct_eq_at_M3Int, List.map_map]
  simp only [Function.comp_def, specValue_at_Oct_eq_at_M3Int]
  exact collection_is_sum_of_children flipX hf h0 cs' k' m x

/-- **`collection_is_sum_of_children` at `M3 Int` for ARBITRARY integer matrices**: the superposition statement
uses nothing of the rotation carrier but additivity of the matrix action, which `M3.apply` has for every integer
matrix (`M3.smul_add'`, `M3.smul_zero'`) — no orthogonality, no determinant condition, `⁻¹` is just the transpose.
This is the full-strength form on the driver's carrier; the `…_on_driver_carrier` version above is its special case. -/
theorem collection_is_sum_of_children_on_M3Int
    (flipX : V3 Int → V3 Int) (hf : ∀ a b, flipX (a + b) = flipX a + flipX b) (h0 : flipX 0 = 0)
    (cs : List EntryZ) (k : SensZ) (m : Nat) (x : V3 Int) :
    specValueOp flipX (.coll cs) k m x = (cs.map fun c => specValueOp flipX c k m x).sum :=
  specValueOp_coll_M3Int flipX hf h0 cs k m x

-- non-vacuity of the arbitrary-matrix form: a shear (not orthogonal, det 1) and a scaling (det 8) as "orientations";
-- both sides evaluated as the driver evaluates them
example :
    let shear : M3 Int := ⟨⟨1, 2, 0⟩, ⟨0, 1, 0⟩, ⟨0, 0, 1⟩⟩
    let scale : M3 Int := ⟨⟨2, 0, 0⟩, ⟨0, 2, 0⟩, ⟨0, 0, 2⟩⟩
    let c1 : EntryZ := .leaf ⟨[⟨1, 0, 0⟩], [shear], fun x => x + ⟨1, 0, 0⟩⟩
    let c2 : EntryZ := .coll [.leaf ⟨[⟨0, 1, 0⟩], [scale], fun x => x + x⟩]
    let k : SensZ := ⟨[⟨5, 0, 0⟩], [shear], [⟨0, 0, 0⟩], [1], true⟩
    ¬ IsOct shear ∧ ¬ IsOct scale ∧
    specValueOp Level2.DriverExample.drvFlip (.coll [c1, c2]) k 0 ⟨3, 4, 5⟩ =
      specValueOp Level2.DriverExample.drvFlip c1 k 0 ⟨3, 4, 5⟩ + specValueOp Level2.DriverExample.drvFlip c2 k 0 ⟨3, 4, 5⟩ := by
  intro shear scale c1 c2 k
  refine ⟨by decide, by decide, ?_⟩
  have h := collection_is_sum_of_children_on_M3Int Level2.DriverExample.drvFlip
    (by intro a b; simp only [Level2.DriverExample.drvFlip, V3.add_def, V3.mk.injEq, and_true]; omega) (by decide)
    [c1, c2] k 0 ⟨3, 4, 5⟩
  simpa using h

-- non-vacuity: the nested collection and the left-handed sensor of `Level2.DriverExample` (90° rotations about z
-- and x, integer positions) and the driver's handedness flip meet every hypothesis
open Level2.DriverExample in
example : (∀ a b, drvFlip (a + b) = drvFlip a + drvFlip b) ∧ drvFlip 0 = 0 ∧
    (∀ e ∈ drvEntries, e.RotsOct) ∧ (∀ k ∈ drvSensors, k.RotsOct) := by
  refine ⟨?_, by decide, drvEntries_rotsOct, drvSensors_rotsOct⟩
  intro a b
  simp only [drvFlip, V3.add_def, V3.mk.injEq, and_true]
  omega

/-! #### (audit 2) the `sumup` / `pixel_agg` theorems on the driver's carrier

`sumup_after_eq_sum_before`, `sumup_commutes_with_sensor_frame`, `sumup_of_pixel_agg_is_sum_of_aggregates` above are stated
for an abstract `Group G`; the driver runs `getBHF` at `M3 Int` (family `level2`, through `getBH_eq_F`) and at `M3 Float`
(family `level2f`) — neither is a group (AUDIT X1).  Transfer along `octHom` (`getBHF_mapG`): for octahedral rotation
matrices the `M3 Int` evaluation satisfies the same statements, written with the bare operation classes (`pixPosOp`,
`specValueOp`).  Nothing is proved about the `M3 Float` evaluation (stream `level2f` only, tolerance 1e-9). -/

/-- `sumup_after_eq_sum_before` for what the driver evaluates (`M3 Int`), octahedral rotation matrices -/
theorem sumup_after_eq_sum_before_on_driver_carrier (flipX : V3 Int → V3 Int) (entries : List EntryZ)
    (sensors : List SensZ) (agg : Option (List (V3 Int) → V3 Int)) (out0 out1 : Out (V3 Int))
    (heo : ∀ e ∈ entries, e.RotsOct) (hso : ∀ k ∈ sensors, k.RotsOct) (hs : ∀ k ∈ sensors, k.WF)
    (h0 : getBHF flipX entries sensors false false agg = .ok out0)
    (h1 : getBHF flipX entries sensors true false agg = .ok out1) :
    out0.data.length = entries.length * out1.data.length ∧
    ∀ j < out1.data.length,
      out1.data[j]? = some (((List.range entries.length).map fun l =>
        out0.data.getD (l * out1.data.length + j) 0).sum) := by
  obtain ⟨es, rfl⟩ := exists_oct_entries entries heo
  obtain ⟨ks, rfl⟩ := exists_oct_sensors sensors hso
  rw [getBHF_mapG octHom] at h0 h1
  have h := sumup_after_eq_sum_before flipX es ks agg out0 out1
    (fun k h => (Sens.mapG_WF Oct.toM3 k).mp (hs _ (List.mem_map_of_mem h))) h0 h1
  simpa only [List.length_map] using h

/-- `sumup_of_pixel_agg_is_sum_of_aggregates` for what the driver evaluates (`M3 Int`) -/
theorem sumup_of_pixel_agg_is_sum_of_aggregates_on_driver_carrier (flipX : V3 Int → V3 Int) (entries : List EntryZ)
    (sensors : List SensZ) (f : List (V3 Int) → V3 Int) (out1 : Out (V3 Int))
    (heo : ∀ e ∈ entries, e.RotsOct) (hso : ∀ k ∈ sensors, k.RotsOct) (hs : ∀ k ∈ sensors, k.WF)
    (h1 : getBHF flipX entries sensors true false (some f) = .ok out1) (m k : Nat) (s : SensZ)
    (hm : m < pathLen (entries.flatMap Entry.leaves) sensors) (hk : sensors[k]? = some s) :
    out1.data[m * sensors.length + k]? =
      some ((entries.map fun e => f ((pixPosOp s m).map (specValueOp flipX e s m))).sum) := by
  obtain ⟨es, rfl⟩ := exists_oct_entries entries heo
  obtain ⟨ks, rfl⟩ := exists_oct_sensors sensors hso
  rw [getBHF_mapG octHom] at h1
  rw [flatMap_leaves_mapG, pathLen_mapG] at hm
  rw [List.getElem?_map] at hk
  obtain ⟨s', hk', rfl⟩ := Option.map_eq_some_iff.mp hk
  have h := sumup_of_pixel_agg_is_sum_of_aggregates flipX es ks f out1
    (fun k h => (Sens.mapG_WF Oct.toM3 k).mp (hs _ (List.mem_map_of_mem h))) h1 m k s' hm hk'
  rw [List.length_map, h, List.map_map]
  congr 2
  apply List.map_congr_left
  intro e _
  simp only [Function.comp]
  rw [pixPosOp_mapG octHom, pixPos_eq_op]
  congr 1
  apply List.map_congr_left
  intro x _
  exact (specValueOp_mapG octHom flipX e s' m x).symm

/-- `sumup_commutes_with_sensor_frame` for what the driver evaluates (`M3 Int`) -/
theorem sumup_commutes_with_sensor_frame_on_driver_carrier (flipX : V3 Int → V3 Int)
    (hf : ∀ a b, flipX (a + b) = flipX a + flipX b) (hf0 : flipX 0 = 0) (entries : List EntryZ) (sensors : List SensZ)
    (out1 : Out (V3 Int)) (heo : ∀ e ∈ entries, e.RotsOct) (hso : ∀ k ∈ sensors, k.RotsOct) (hs : ∀ k ∈ sensors, k.WF)
    (h1 : getBHF flipX entries sensors true false none = .ok out1) (k0 : SensZ) (hk0 : sensors.head? = some k0)
    (m k p : Nat) (s : SensZ) (x : V3 Int)
    (hm : m < pathLen (entries.flatMap Entry.leaves) sensors) (hk : sensors[k]? = some s)
    (hp : (pixPosOp s m)[p]? = some x) :
    out1.data[(m * sensors.length + k) * pixNum k0 + p]? = some (specValueOp flipX (.coll entries) s m x) := by
  obtain ⟨es, rfl⟩ := exists_oct_entries entries heo
  obtain ⟨ks, rfl⟩ := exists_oct_sensors sensors hso
  rw [getBHF_mapG octHom] at h1
  rw [flatMap_leaves_mapG, pathLen_mapG] at hm
  rw [List.getElem?_map] at hk
  obtain ⟨s', hk', rfl⟩ := Option.map_eq_some_iff.mp hk
  rw [List.head?_map] at hk0
  obtain ⟨k0', hk0', rfl⟩ := Option.map_eq_some_iff.mp hk0
  rw [pixPosOp_mapG octHom, ← pixPos_eq_op] at hp
  have h := sumup_commutes_with_sensor_frame flipX hf hf0 es ks out1
    (fun k h => (Sens.mapG_WF Oct.toM3 k).mp (hs _ (List.mem_map_of_mem h))) h1 k0' hk0' m k p s' x hm hk' hp
  rw [List.length_map, pixNum_mapG, h, ← Entry.toM3_coll, specValue_at_Oct_eq_at_M3Int]

-- non-vacuity (audit 2; the `sumup` theorems had no example that instantiates `h0`, `h1` for `getBHF`): the witness scene of
-- `sum_of_max_ne_max_of_sum` with the NON-LINEAR reduction `max` meets every hypothesis, both calls return, and the theorem
-- applies to this `M3 Int` evaluation
open Level2.Example in
example : ∃ out0 out1,
    getBHF exFlip ([.leaf sA, .leaf sB] : List EntryZ) sSens false false (some sMaxV) = .ok out0 ∧
    getBHF exFlip ([.leaf sA, .leaf sB] : List EntryZ) sSens true false (some sMaxV) = .ok out1 ∧
    out0.data.length = 2 * out1.data.length ∧
    ∀ j < out1.data.length, out1.data[j]? = some (((List.range 2).map fun l =>
      out0.data.getD (l * out1.data.length + j) 0).sum) := by
  have hnb : ¬ BadInputF ([.leaf sA, .leaf sB] : List EntryZ) sSens (some sMaxV) := by
    simp [BadInputF, sSens, Entry.leaves]
  have heo : ∀ e ∈ ([.leaf sA, .leaf sB] : List EntryZ), e.RotsOct := by
    simp [Entry.RotsOct, Entry.leaves, sA, sB]; decide
  have hso : ∀ k ∈ sSens, k.RotsOct := by simp [sSens, Sens.RotsOct]; decide
  have hs : ∀ k ∈ sSens, k.WF := by simp [sSens, Sens.WF, pixNum]
  have h0 := getBHF_ok exFlip ([.leaf sA, .leaf sB] : List EntryZ) sSens false false (some sMaxV) hnb
  have h1 := getBHF_ok exFlip ([.leaf sA, .leaf sB] : List EntryZ) sSens true false (some sMaxV) hnb
  exact ⟨_, _, h0, h1,
    sumup_after_eq_sum_before_on_driver_carrier exFlip _ sSens (some sMaxV) _ _ heo hso hs h0 h1⟩
end driverCarrier

end MagpyVerif.C05

/-! ### TriangularMesh: linear in the polarization (c03post) -/
namespace MagpyVerif.C05
open MagpyVerif MagpyVerif.Kern

/-- a sum of sheets is linear when every sheet is -/
theorem sum3_linear {ι : Type} (a b : ℝ) (L : List ι) (g1 g2 : ι → V3 ℝ) :
    sum3 (L.map fun t => vs a (g1 t) + vs b (g2 t)) = vs a (sum3 (L.map g1)) + vs b (sum3 (L.map g2)) := by
  have key : ∀ (c1 c2 : V3 ℝ), (L.map fun t => vs a (g1 t) + vs b (g2 t)).foldl (· + ·) (vs a c1 + vs b c2) =
      vs a ((L.map g1).foldl (· + ·) c1) + vs b ((L.map g2).foldl (· + ·) c2) := by
    induction L with
    | nil => intro c1 c2; rfl
    | cons t ts ih =>
      intro c1 c2
      simp only [List.map_cons, List.foldl_cons]
      rw [← ih (c1 + g1 t) (c2 + g2 t)]
      congr 1
      apply V3.ext' <;> simp [vs] <;> ring
  unfold sum3
  rw [← key]
  congr 1
  apply V3.ext' <;> simp [vs, zero3, n]

/-- the sum of the Triangle sheets of one mesh row is linear in the row's polarization
(`C05.triangleB_linear` per face) -/
theorem meshRowSheets_linear (a b : ℝ) (faces : List (Tri ℝ)) (obs p1 p2 : V3 ℝ) :
    meshRowSheets ⟨faces, obs, vs a p1 + vs b p2⟩ =
      vs a (meshRowSheets ⟨faces, obs, p1⟩) + vs b (meshRowSheets ⟨faces, obs, p2⟩) := by
  unfold meshRowSheets
  simp only [triangleB_linear]
  exact sum3_linear a b faces _ _

/-- the `wrapH` dispatch (B = μ₀H-core + J inside, H = core/μ₀, J, M = J/μ₀) is linear in (polarization, core) jointly,
for a fixed inside verdict -/
theorem wrapH_linear (a b : ℝ) (f : Field) (ins : Bool) (p1 p2 c1 c2 : V3 ℝ) :
    wrapH f ins (vs a p1 + vs b p2) (vs a c1 + vs b c2) = vs a (wrapH f ins p1 c1) + vs b (wrapH f ins p2 c2) := by
  cases f <;> cases ins <;> (apply V3.ext' <;> simp [wrapH, vs, vd, zero3, n] <;> ring)

/-- **C05 (TriangularMesh): the modelled `BHJM_magnet_trimesh` (B, H, J, M; in_out="auto": inside term included) is
linear in the polarization vector, per row of any batch.**  `rows` = (faces, observer, p1, p2) per row — rows may
belong to different meshes with different face counts (both summation branches), repeated meshes (the grouping loop)
and different polarizations; `meshId` is what the grouping loop compares (`mesh[new] == mesh[prev]`), `inside` the
ray-casting verdict per mesh and observer: it is a function of the mesh and the observer only, so the polarization
cannot influence it as long as `meshId` does not look at it (`hid`; true of the code: it compares the `mesh` arrays).
Row `i` of the batch with polarizations `a·p1ᵢ + b·p2ᵢ` is `a·`(row `i` with `p1`) `+ b·`(row `i` with `p2`).
Proof: `C13.trimesh_is_wrapH_of_sheets` (every row is `wrapH` of ITS sheets and ITS inside verdict, for every batch
composition), `triangleB_linear` per sheet, `wrapH_linear`. -/
theorem trimesh_linear_in_polarization {M : Type} [DecidableEq M] (f : Field) (meshId : MeshRow ℝ → M)
    (inside : M → V3 ℝ → Bool) (hid : ∀ r r' : MeshRow ℝ, r.faces = r'.faces → meshId r = meshId r')
    (a b : ℝ) (rows : List (List (Tri ℝ) × V3 ℝ × V3 ℝ × V3 ℝ)) :
    bhjmTrimesh f meshId inside (rows.map fun r => ⟨r.1, r.2.1, vs a r.2.2.1 + vs b r.2.2.2⟩) =
      List.zipWith (fun u v => vs a u + vs b v)
        (bhjmTrimesh f meshId inside (rows.map fun r => ⟨r.1, r.2.1, r.2.2.1⟩))
        (bhjmTrimesh f meshId inside (rows.map fun r => ⟨r.1, r.2.1, r.2.2.2⟩)) := by
  rw [C13.trimesh_is_wrapH_of_sheets, C13.trimesh_is_wrapH_of_sheets, C13.trimesh_is_wrapH_of_sheets]
  simp only [List.map_map, List.zipWith_map_left, List.zipWith_map_right, List.zipWith_self]
  apply List.map_congr_left
  intro r _
  simp only [Function.comp]
  rw [meshRowSheets_linear, hid ⟨r.1, r.2.1, vs a r.2.2.1 + vs b r.2.2.2⟩ ⟨r.1, r.2.1, r.2.2.1⟩ rfl,
    hid ⟨r.1, r.2.1, r.2.2.2⟩ ⟨r.1, r.2.1, r.2.2.1⟩ rfl]
  exact wrapH_linear a b f _ _ _ _ _

/-- the instance the code uses: meshes identified by their face arrays -/
theorem trimesh_linear_in_polarization_by_faces [DecidableEq (List (Tri ℝ))] (f : Field)
    (inside : List (Tri ℝ) → V3 ℝ → Bool) (a b : ℝ) (rows : List (List (Tri ℝ) × V3 ℝ × V3 ℝ × V3 ℝ)) :
    bhjmTrimesh f (·.faces) inside (rows.map fun r => ⟨r.1, r.2.1, vs a r.2.2.1 + vs b r.2.2.2⟩) =
      List.zipWith (fun u v => vs a u + vs b v)
        (bhjmTrimesh f (·.faces) inside (rows.map fun r => ⟨r.1, r.2.1, r.2.2.1⟩))
        (bhjmTrimesh f (·.faces) inside (rows.map fun r => ⟨r.1, r.2.1, r.2.2.2⟩)) :=
  trimesh_linear_in_polarization f (·.faces) inside (fun _ _ h => h) a b rows

/-- … and the inside verdict of a row does not depend on its polarization (by construction of the model: the verdict is
a function of mesh identity and observer; stated so that the claim is explicit) -/
theorem trimesh_inside_independent_of_polarization {M : Type} (meshId : MeshRow ℝ → M) (inside : M → V3 ℝ → Bool)
    (hid : ∀ r r' : MeshRow ℝ, r.faces = r'.faces → meshId r = meshId r') (faces : List (Tri ℝ)) (obs p q : V3 ℝ) :
    inside (meshId ⟨faces, obs, p⟩) obs = inside (meshId ⟨faces, obs, q⟩) obs := by
  rw [hid ⟨faces, obs, p⟩ ⟨faces, obs, q⟩ rfl]

-- non-vacuity: J of a two-row batch (same mesh, one observer inside, one outside): the inside row carries the
-- combined polarization, the outside row is 0
example (t : Tri ℝ) (inside : List (Tri ℝ) → V3 ℝ → Bool) [DecidableEq (List (Tri ℝ))]
    (hin : inside [t] ⟨0, 0, 0⟩ = true) (hout : inside [t] ⟨9, 9, 9⟩ = false) :
    bhjmTrimesh .J (·.faces) inside [⟨[t], ⟨0, 0, 0⟩, vs 2 ⟨1, 0, 0⟩ + vs 3 ⟨0, 1, 0⟩⟩, ⟨[t], ⟨9, 9, 9⟩, ⟨5, 5, 5⟩⟩] =
      [⟨2, 3, 0⟩, ⟨0, 0, 0⟩] := by
  rw [C13.trimesh_is_wrapH_of_sheets]
  simp only [List.map_cons, List.map_nil, hin, hout, wrapH]
  refine List.cons_eq_cons.mpr ⟨?_, List.cons_eq_cons.mpr ⟨?_, rfl⟩⟩ <;> (apply V3.ext' <;> simp [vs, zero3, n])

end MagpyVerif.C05

/-! ### linearity at the level of the BHJM WRAPPERS, every mask row included (c05wrap)

The theorems above are about the closed-form kernels.  The wrappers `BHJM_*` add masks — some computed from the excitation
itself (`pol == 0` rows of Cuboid and Cylinder return 0 without a kernel call; the Cylinder calls its transversal kernel only on
rows with `pol_x != 0 | pol_y != 0` and its axial kernel only on rows with `pol_z != 0`), the others from geometry (zero dimension,
on an edge, on the surface, inside / outside, on the axis / wire / carrier line).  A mask on the excitation is compatible with
linearity only if the skipped formula vanishes there (it does: `cuboid_kernel_vanishes_at_zero_polarization`,
`cylinder_zero_polarization_row`), and a SUM of two non-zero excitations can be zero or lose its transversal / axial part, so the
three evaluations of `f (a·p + b·q) = a·f p + b·f q` may run through three different mask rows.  Below: for every modelled wrapper,
all four fields, arbitrary real `a b` and arbitrary excitations, any value `μ` of mu_0.  No wrapper has a threshold on the size
of the excitation (all excitation masks are exact `== 0` tests), so none of the statements needs a witness of non-linearity. -/
namespace MagpyVerif.C05
open MagpyVerif MagpyVerif.Kern MagpyVerif.Kern.CylSeg

/-- the general-case formula of `magnet_cuboid_Bfield` is 0 at polarization 0 — what the mask `mask_pol_not_null` relies on -/
theorem cuboid_kernel_vanishes_at_zero_polarization (μ : ℝ) (dim x : V3 ℝ) : letI := realNum μ
    cuboidB dim ⟨0, 0, 0⟩ x = zero3 :=
  cuboidB_pol_zero μ dim ⟨0, 0, 0⟩ x rfl rfl rfl

/-- `BHJM_magnet_cuboid` is the dispatch with the GEOMETRIC masks only (inside; `mask_dim_not_null & mask_not_edge`, i.e. the
general mask of a probe polarization ≠ 0) applied to the kernel value: the `pol == 0` mask never changes a result -/
theorem cuboid_pol_mask_is_redundant (μ : ℝ) (f : Field) (dim pol x : V3 ℝ) : letI := realNum μ
    bhjmCuboid f dim pol x =
      wrapB f (cuboidMasks dim ⟨1, 1, 1⟩ x).inside (cuboidMasks dim ⟨1, 1, 1⟩ x).general pol (cuboidB dim pol x) :=
  bhjmCuboid_eq_geo μ f dim pol x

/-- **C05 (Cuboid wrapper)**: B, H, J, M of `BHJM_magnet_cuboid` are linear in the polarization at every observer — inside,
outside, on a face, on an edge / corner (B = 0 there), for a cuboid with a zero side (B = 0), and through the `pol == 0` rows -/
theorem cuboid_wrapper_linear (μ a b : ℝ) (f : Field) (dim p q x : V3 ℝ) : letI := realNum μ
    bhjmCuboid f dim (vs a p + vs b q) x = vs a (bhjmCuboid f dim p x) + vs b (bhjmCuboid f dim q x) :=
  bhjmCuboid_linear' μ a b f dim p q x

-- non-vacuity: p and −p in one statement — the left side runs through the `pol == 0` row, the right side through the
-- general row twice (observer outside, off the edges): B(p) + B(−p) = 0 is a statement about the kernel values
example (μ : ℝ) (dim p x : V3 ℝ) : letI := realNum μ
    vs 1 (bhjmCuboid .B dim p x) + vs 1 (bhjmCuboid .B dim (vs (-1) p) x) = zero3 := by
  letI := realNum μ
  have h := cuboid_wrapper_linear μ 1 1 .B dim p (vs (-1) p) x
  have e : vs 1 p + vs 1 (vs (-1) p) = (⟨0, 0, 0⟩ : V3 ℝ) := by apply V3.ext' <;> simp [vs]
  rw [e] at h
  rw [← h, cuboid_pol_mask_is_redundant, cuboid_kernel_vanishes_at_zero_polarization]
  cases (cuboidMasks dim (⟨1, 1, 1⟩ : V3 ℝ) x).inside <;> cases (cuboidMasks dim (⟨1, 1, 1⟩ : V3 ℝ) x).general <;>
    (apply V3.ext' <;> simp [wrapB, zero3, n])
-- … and the general row is really reached: the masks of a unit cube at the observer (3, 4, 5)
example : letI := realNum 1
    (cuboidMasks (⟨1, 1, 1⟩ : V3 ℝ) ⟨1, 2, 3⟩ ⟨3, 4, 5⟩).general = true ∧
    (cuboidMasks (⟨1, 1, 1⟩ : V3 ℝ) ⟨0, 0, 0⟩ ⟨3, 4, 5⟩).general = false := by
  constructor <;> (simp [cuboidMasks, n]; try norm_num)

/-- **C05 (Sphere wrapper)**: `BHJM_magnet_sphere`, inside and outside (the mask `r > r_sphere` does not see the polarization) -/
theorem sphere_wrapper_linear (μ a b : ℝ) (f : Field) (d : ℝ) (p q x : V3 ℝ) : letI := realNum μ
    bhjmSphere f d (vs a p + vs b q) x = vs a (bhjmSphere f d p x) + vs b (bhjmSphere f d q x) :=
  bhjmSphere_linear' μ a b f d p q x

example : letI := realNum 1
    bhjmSphere .B 2 (vs 2 ⟨1, 0, 0⟩ + vs 3 ⟨0, 1, 0⟩) (⟨0, 0, 0⟩ : V3 ℝ) = ⟨2 * (2 / 3), 3 * (2 / 3), 0⟩ := by
  simp [bhjmSphere, Kern.norm, vs, n]
  norm_num

/-- **C05 (Dipole wrapper)**: `BHJM_dipole` off the dipole position (the model has no `r == 0` row: there the code returns
±inf / 0 per component, which no real-valued statement covers) -/
theorem dipole_wrapper_linear (μ a b : ℝ) (f : Field) (m1 m2 x : V3 ℝ) : letI := realNum μ
    bhjmDipole f (vs a m1 + vs b m2) x = vs a (bhjmDipole f m1 x) + vs b (bhjmDipole f m2 x) :=
  bhjmDipole_linear' μ a b f m1 m2 x

example : (vs 2 (⟨1, 0, 0⟩ : V3 ℝ) + vs 3 ⟨0, 1, 0⟩) = ⟨2, 3, 0⟩ := by apply V3.ext' <;> simp [vs]

/-- **C05 (Polyline wrapper, one segment row of `BHJM_current_polyline`)**: linear in the current, including the rows
`segment_start == segment_end` (0) and observers on the carrier line (`norm_o4 < 1e-15`: 0) -/
theorem polyline_segment_wrapper_linear (μ a b : ℝ) (f : Field) (c1 c2 : ℝ) (p1 p2 po : V3 ℝ) : letI := realNum μ
    bhjmSegment f (a * c1 + b * c2) p1 p2 po = vs a (bhjmSegment f c1 p1 p2 po) + vs b (bhjmSegment f c2 p1 p2 po) :=
  bhjmSegment_linear' μ a b f c1 c2 p1 p2 po

/-- … and a whole Polyline instance (the sum over its consecutive vertex pairs) -/
theorem polyline_wrapper_linear (a b : ℝ) (f : Field) (c1 c2 : ℝ) (verts : List (V3 ℝ)) (po : V3 ℝ) :
    polylineRow f (a * c1 + b * c2) verts po = vs a (polylineRow f c1 verts po) + vs b (polylineRow f c2 verts po) := by
  unfold polylineRow
  rw [← sum3_linear a b (pairs verts)]
  congr 1
  apply List.map_congr_left
  intro ab _
  exact bhjmSegment_linear' mu0R a b f c1 c2 ab.1 ab.2 po

example : pairs [(1 : Nat), 2, 3] = [(1, 2), (2, 3)] := rfl

/-- **C05 (Circle wrapper)**: `BHJM_circle` is linear in the current through all its rows (zero diameter, on the wire, on the
axis, general), as an equation between optional results: `none` (a cel iteration did not exit within `fuel`) for one current
is `none` for every current (`circle_wrapper_defined_independent_of_current`; with the fuel of Props/C15 it never occurs) -/
theorem circle_wrapper_linear (μ a b : ℝ) (fuel : Nat) (f : Field) (d i1 i2 : ℝ) (x : V3 ℝ) : letI := realNum μ
    bhjmCircle fuel f d (a * i1 + b * i2) x = olin a b (bhjmCircle fuel f d i1 x) (bhjmCircle fuel f d i2 x) :=
  bhjmCircle_linear' μ a b fuel f d i1 i2 x

theorem circle_wrapper_defined_independent_of_current (μ : ℝ) (fuel : Nat) (f : Field) (d i1 i2 : ℝ) (x : V3 ℝ) :
    letI := realNum μ
    (bhjmCircle fuel f d i1 x).isSome = (bhjmCircle fuel f d i2 x).isSome :=
  bhjmCircle_isSome_current μ fuel f d i1 i2 x

-- non-vacuity: on the axis the three results are rows, and they combine
example : letI := realNum 1
    bhjmCircle 200 .H 2 (2 * 1 + 3 * 1) (⟨0, 0, 0⟩ : V3 ℝ) = some ⟨0, 0, 5 / 2⟩ ∧
    olin 2 3 (bhjmCircle 200 .H 2 1 (⟨0, 0, 0⟩ : V3 ℝ)) (bhjmCircle 200 .H 2 1 (⟨0, 0, 0⟩ : V3 ℝ)) = some ⟨0, 0, 5 / 2⟩ := by
  constructor <;> (simp [bhjmCircle, olin, n]; try norm_num)

/-- the `pol == 0` row of `BHJM_magnet_cylinder`: computed without a kernel call (no `cel` failure possible), 0 in all fields -/
theorem cylinder_zero_polarization_row (μ : ℝ) (fuel : Nat) (f : Field) (dim : ℝ × ℝ) (x : V3 ℝ) : letI := realNum μ
    bhjmCylinder fuel f dim ⟨0, 0, 0⟩ x = some ⟨0, 0, 0⟩ :=
  bhjmCylinder_pol_zero μ fuel f dim x

/-- **C05 (Cylinder wrapper)**: if `BHJM_magnet_cylinder` returns for `p` and for `q` (no `cel` failure) then it RETURNS for
`a·p + b·q` and the value is the combination — through every mask row: `p`, `q`, `a·p + b·q` may each be zero, axial only,
transversal only or mixed (e.g. `p = (1, 0, 1)`, `q = (−1, 0, 1)`: the sum is axial, the transversal kernel is not called for
it), on the edge (B = 0, H = −J/μ₀), inside / outside.  Strengthens `cylinder_linear_in_polarization`, which assumes the
third evaluation. -/
theorem cylinder_wrapper_linear (μ a b : ℝ) (fuel : Nat) (f : Field) (dim : ℝ × ℝ) (p q x v1 v2 : V3 ℝ) : letI := realNum μ
    bhjmCylinder fuel f dim p x = some v1 → bhjmCylinder fuel f dim q x = some v2 →
    bhjmCylinder fuel f dim (vs a p + vs b q) x = some (vs a v1 + vs b v2) :=
  bhjmCylinder_linear_some μ a b fuel f dim p q x v1 v2

/-- **C05 (Cylinder wrapper), unconditional** for valid dimensions (`0 < d`, `0 ≤ h`) and the fuel of Props/C15
(`cylFuelX`, a function of geometry and observer only): all three evaluations return, and they combine.  (mu_0 = 4π·1e-7) -/
theorem cylinder_wrapper_linear_total (a b : ℝ) (fuel : ℕ) (f : Field) (d h : ℝ) (hd : 0 < d) (hh : 0 ≤ h) (p q x : V3 ℝ)
    (hf : cylFuelX d h x ≤ fuel) :
    ∃ v1 v2, bhjmCylinder fuel f (d, h) p x = some v1 ∧ bhjmCylinder fuel f (d, h) q x = some v2 ∧
      bhjmCylinder fuel f (d, h) (vs a p + vs b q) x = some (vs a v1 + vs b v2) :=
  bhjmCylinder_linear_total a b fuel f d h hd hh p q x hf

-- non-vacuity: the hypotheses are satisfiable with polarizations that cancel transversally: p = (1, 0, 1), q = (−1, 0, 1)
example (fuel : ℕ) (x : V3 ℝ) (hf : cylFuelX 2 3 x ≤ fuel) :
    ∃ v1 v2, bhjmCylinder fuel .B (2, 3) ⟨1, 0, 1⟩ x = some v1 ∧ bhjmCylinder fuel .B (2, 3) ⟨-1, 0, 1⟩ x = some v2 ∧
      bhjmCylinder fuel .B (2, 3) (vs 1 ⟨1, 0, 1⟩ + vs 1 ⟨-1, 0, 1⟩) x = some (vs 1 v1 + vs 1 v2) ∧
      (vs 1 (⟨1, 0, 1⟩ : V3 ℝ) + vs 1 ⟨-1, 0, 1⟩) = ⟨0, 0, 2⟩ := by
  obtain ⟨v1, v2, h1, h2, h3⟩ := cylinder_wrapper_linear_total 1 1 fuel .B 2 3 (by norm_num) (by norm_num) ⟨1, 0, 1⟩ ⟨-1, 0, 1⟩ x hf
  refine ⟨v1, v2, h1, h2, h3, ?_⟩
  apply V3.ext' <;> simp [vs] <;> norm_num

/-- **C05 (CylinderSegment, the function the class calls)**: `BHJM_cylinder_segment_internal` — the segment solution below
360° (exactly linear, NaN rows included: `cylseg_linear_in_magnetization`) and Cylinder(2 r2) − [r1 ≠ 0] Cylinder(2 r1) from 360°
on: whenever it returns for `p` and `q` it returns the combination for `a·p + b·q` -/
theorem cylseg_internal_wrapper_linear (μ : ℝ) (S : SegSpecial) (a b : ℝ) (fuel : Nat) (f : Field) (x : V3 ℝ)
    (r1 r2 h p1 p2 : ℝ) (p q v1 v2 : V3 ℝ) :
    @bhjmCylSegInternal ℝ (realNumX μ S) fuel f x r1 r2 h p1 p2 p = some v1 →
    @bhjmCylSegInternal ℝ (realNumX μ S) fuel f x r1 r2 h p1 p2 q = some v2 →
    @bhjmCylSegInternal ℝ (realNumX μ S) fuel f x r1 r2 h p1 p2 (lin2 a b p q) = some (lin2 a b v1 v2) :=
  bhjmCylSegInternal_linear_some μ S a b fuel f x r1 r2 h p1 p2 p q v1 v2

-- non-vacuity: J of the full ring (360°: the Cylinder branch) at the centre of the wall is a row for every polarization
example (μ : ℝ) (S : SegSpecial) (pol : V3 ℝ) :
    (@bhjmCylSegInternal ℝ (realNumX μ S) 0 .J ⟨3 / 2, 0, 0⟩ 1 2 2 0 360 pol).isSome = true := by
  rw [internal_full_ring μ S 0 .J _ 1 2 2 0 360 pol (by norm_num)]
  simp [bhjmCylinder, bhjmCylinderRow]

/-- Triangle, Tetrahedron, TriangularMesh row: the wrappers have no mask on the polarization; their wrapper-level statements
are `bhjmTriangle_linear`, `bhjmTetra_linear`, `trimesh_linear_in_polarization` above (zero-area sheet, inside / outside,
chirality fix: geometry only).  Collected here for generic μ. -/
theorem triangle_tetra_wrapper_linear (μ a b : ℝ) (f : Field) (v0 v1 v2 v3 p q x : V3 ℝ) : letI := realNum μ
    bhjmTriangle f v0 v1 v2 (vs a p + vs b q) x = vs a (bhjmTriangle f v0 v1 v2 p x) + vs b (bhjmTriangle f v0 v1 v2 q x) ∧
    bhjmTetra f v0 v1 v2 v3 (vs a p + vs b q) x = vs a (bhjmTetra f v0 v1 v2 v3 p x) + vs b (bhjmTetra f v0 v1 v2 v3 q x) :=
  ⟨bhjmTriangle_linear' μ a b f v0 v1 v2 p q x, bhjmTetra_linear' μ a b f v0 v1 v2 v3 p q x⟩

end MagpyVerif.C05

/-! ### the one row of a wrapper that is NOT linear: the Dipole at its own position (c05wrap)

`dipole_Hfield` has the mask `r == 0`: there `H = moment / 0.0` with NaN → 0, i.e. +inf / −inf / 0 per component
(`Model/DipoleSing.lean`; B = μ₀H the same, J = M = 0).  No extension of the reals makes that additive. -/
namespace MagpyVerif.C05
open MagpyVerif MagpyVerif.Kern

/- FULL: `BHJM_dipole` with its `r == 0` row is linear in the moment at every observer:
   H(a·m1 + b·m2) = a·H(m1) + b·H(m2).   FALSE at the dipole position — witness: -/
/-- **witness**: `m1 = (1, 0, 0)`, `m2 = (−1, 0, 0)` at the dipole position: H(m1) = (+inf, 0, 0), H(m2) = (−inf, 0, 0), but
H(m1 + m2) = H(0) = (0, 0, 0) — whereas (+inf) + (−inf) is no number (NaN in IEEE arithmetic) -/
theorem dipole_at_position_not_additive : letI := realNum 1
    bhjmDipoleAtPosition .H (⟨1, 0, 0⟩ : V3 ℝ) = ⟨.pinf, .zero, .zero⟩ ∧
    bhjmDipoleAtPosition .H (⟨-1, 0, 0⟩ : V3 ℝ) = ⟨.ninf, .zero, .zero⟩ ∧
    bhjmDipoleAtPosition .H ((⟨1, 0, 0⟩ : V3 ℝ) + ⟨-1, 0, 0⟩) = ⟨.zero, .zero, .zero⟩ := by
  refine ⟨?_, ?_, ?_⟩ <;> simp [bhjmDipoleAtPosition, singOf, n]

/-- what holds there (`…_partial`): the row is positively homogeneous of degree 0 in the value set {−inf, 0, +inf}
(`c·(±inf) = ±inf` for `c > 0`: consistent with proportionality) and odd -/
theorem dipole_at_position_homogeneous_partial (μ c : ℝ) (hc : 0 < c) (f : Field) (m : V3 ℝ) : letI := realNum μ
    bhjmDipoleAtPosition f (vs c m) = bhjmDipoleAtPosition f m ∧
    bhjmDipoleAtPosition f (vs (-1) m) =
      ⟨(bhjmDipoleAtPosition f m).x.neg, (bhjmDipoleAtPosition f m).y.neg, (bhjmDipoleAtPosition f m).z.neg⟩ := by
  letI := realNum μ
  cases f <;> simp only [bhjmDipoleAtPosition, vs, singOf_pos_smul μ c hc, neg_one_mul, singOf_neg, Sing.neg, and_self]

example : (0 : ℝ) < 2 := by norm_num

end MagpyVerif.C05
