/-
Lemmas/MeshUnique.lean — what `np.unique(points, axis=0, return_inverse=True)` (Model/MeshUnique.lean, the glue of
`TriangularMesh.from_mesh` / `from_triangles`) guarantees, for every carrier whose row comparisons form a total preorder whose
symmetric part is the row equality (`RowLaws`: true of ℝ and ℚ with `=` / `<`, and of IEEE doubles without NaN, where the
symmetric part identifies `-0.0` and `0.0`):

  * `uniqueRows_inverse`  : every input row is `==` to the unique row its inverse index points at   (vertices[tr] == points);
  * `uniqueRows_distinct` : the unique rows are pairwise `!=`;   `uniqueRows_subset` : each of them is one of the input rows;
  * `fromMesh_roundtrip`  : `vertices[faces]` is the soup, triangle by triangle and corner by corner, up to `==`;
  * `fromMesh_faces_in_range`.
Over ℝ (`RowCmp.real`, `rowLaws_real`) `==` is identity: `fromMesh_roundtrip_real`, `fromMesh_vertices_nodup`, `fromMesh_vertex_count`.
-/
import Mathlib.Data.List.Forall2
import Mathlib.Data.Prod.Lex
import Mathlib.Data.Real.Basic
import Mathlib.Data.Finset.Card
import Mathlib.Tactic
import MagpyVerif.Model.MeshUnique
import MagpyVerif.Lemmas.MeshPerm
import MagpyVerif.Lemmas.KernReal

namespace MagpyVerif.Kern
variable {α : Type}

/-- the row order is a total preorder (`p ≤ q` := `¬ rowLt q p`) and the row equality is its symmetric part -/
structure RowLaws (c : RowCmp α) : Prop where
  le_trans : ∀ p q r : V3 α, rowLt c q p = false → rowLt c r q = false → rowLt c r p = false
  le_total : ∀ p q : V3 α, rowLt c q p = false ∨ rowLt c p q = false
  eq_iff : ∀ p q : V3 α, rowEq c p q = true ↔ (rowLt c q p = false ∧ rowLt c p q = false)

namespace RowLaws
variable {c : RowCmp α} (h : RowLaws c)
include h

theorem refl (p : V3 α) : rowEq c p p = true := by
  rw [h.eq_iff]; rcases h.le_total p p with h1 | h1 <;> exact ⟨h1, h1⟩

theorem symm {p q : V3 α} (e : rowEq c p q = true) : rowEq c q p = true := by
  rw [h.eq_iff] at e ⊢; exact ⟨e.2, e.1⟩

theorem trans {p q r : V3 α} (e1 : rowEq c p q = true) (e2 : rowEq c q r = true) : rowEq c p r = true := by
  rw [h.eq_iff] at e1 e2 ⊢
  exact ⟨h.le_trans p q r e1.1 e2.1, h.le_trans r q p e2.2 e1.2⟩

theorem ne_symm {p q : V3 α} (e : rowEq c p q = false) : rowEq c q p = false := by
  cases h' : rowEq c q p
  · rfl
  · rw [h.symm h'] at e; exact absurd e (by simp)

end RowLaws

/-! ### the pass over the sorted rows -/

theorem labelRuns_spec {c : RowCmp α} (h : RowLaws c) : ∀ (l : List (V3 α × Nat)) (prev : Option (V3 α)) (k : Nat) (hd : List (V3 α)),
    hd.length = k → (∀ q, prev = some q → ∃ v, hd[k - 1]? = some v ∧ rowEq c v q = true) →
    List.Forall₂ (fun (lab : Nat × Nat) (e : V3 α × Nat) =>
        lab.1 = e.2 ∧ ∃ v, (hd ++ (labelRuns c prev k l).1)[lab.2]? = some v ∧ rowEq c v e.1 = true)
      (labelRuns c prev k l).2 l
  | [], _, _, _, _, _ => by simp [labelRuns]
  | (p, i) :: rest, prev, k, hd, hk, hp => by
    -- the two shapes of the step
    have headCase : (∀ q, prev = some q → rowEq c p q = false) →
        labelRuns c prev k ((p, i) :: rest) =
          (p :: (labelRuns c (some p) (k + 1) rest).1, (i, k) :: (labelRuns c (some p) (k + 1) rest).2) := by
      intro hq
      cases prev with
      | none => simp [labelRuns]
      | some q => simp [labelRuns, hq q rfl]
    have tailCase : ∀ q, prev = some q → rowEq c p q = true →
        labelRuns c prev k ((p, i) :: rest) =
          ((labelRuns c (some p) k rest).1, (i, k - 1) :: (labelRuns c (some p) k rest).2) := by
      intro q hq he
      subst hq
      simp [labelRuns, he]
    by_cases hcase : ∀ q, prev = some q → rowEq c p q = false
    · rw [headCase hcase]
      have ih := labelRuns_spec h rest (some p) (k + 1) (hd ++ [p]) (by simp [hk])
        (fun q hq => ⟨p, by simp [← hk], by cases hq; exact h.refl p⟩)
      refine List.Forall₂.cons ⟨rfl, p, by simp [← hk], h.refl p⟩ ?_
      simpa [List.append_assoc] using ih
    · push Not at hcase
      obtain ⟨q, hq, he⟩ := hcase
      have he' : rowEq c p q = true := by simpa using he
      rw [tailCase q hq he']
      obtain ⟨v, hv, hvq⟩ := hp q hq
      have hvp : rowEq c v p = true := h.trans hvq (h.symm he')
      have hlt : k - 1 < hd.length := by
        have := (List.getElem?_eq_some_iff.mp hv).1
        exact this
      have ih := labelRuns_spec h rest (some p) k hd hk (fun q' hq' => ⟨v, hv, by cases hq'; exact hvp⟩)
      refine List.Forall₂.cons ⟨rfl, v, ?_, hvp⟩ ih
      simp only
      rw [List.getElem?_append_left hlt]; exact hv

theorem labelRuns_heads_mem (c : RowCmp α) : ∀ (l : List (V3 α × Nat)) (prev : Option (V3 α)) (k : Nat),
    ∀ v ∈ (labelRuns c prev k l).1, ∃ e ∈ l, e.1 = v
  | [], _, _ => by simp [labelRuns]
  | (p, i) :: rest, prev, k => by
    intro v hv
    have tailStep : ∀ k', v ∈ (labelRuns c (some p) k' rest).1 → ∃ e ∈ (p, i) :: rest, e.1 = v := fun k' hv' => by
      obtain ⟨e, he, hev⟩ := labelRuns_heads_mem c rest _ _ v hv'
      exact ⟨e, List.mem_cons_of_mem _ he, hev⟩
    have headStep : ∀ k', v ∈ p :: (labelRuns c (some p) k' rest).1 → ∃ e ∈ (p, i) :: rest, e.1 = v := fun k' hv' => by
      rcases List.mem_cons.mp hv' with rfl | hv'
      · exact ⟨(v, i), by simp, rfl⟩
      · exact tailStep k' hv'
    cases prev with
    | none =>
      simp only [labelRuns, if_true] at hv
      exact headStep _ hv
    | some q =>
      cases hE : rowEq c p q
      · simp only [labelRuns, hE, Bool.not_false, if_true] at hv
        exact headStep _ hv
      · simp only [labelRuns, hE, Bool.not_true, Bool.false_eq_true, if_false] at hv
        exact tailStep _ hv

/-- on a sorted list the run heads are pairwise different (and strictly above the row before the list) -/
theorem labelRuns_heads_distinct {c : RowCmp α} (h : RowLaws c) : ∀ (l : List (V3 α × Nat)) (prev : Option (V3 α)) (k : Nat),
    l.Pairwise (fun a b => rowLt c b.1 a.1 = false) →
    (∀ q, prev = some q → ∀ e ∈ l, rowLt c e.1 q = false) →
    (∀ q, prev = some q → ∀ v ∈ (labelRuns c prev k l).1, rowLt c v q = false ∧ rowEq c v q = false) ∧
      (labelRuns c prev k l).1.Pairwise (fun a b => rowEq c a b = false)
  | [], _, _, _, _ => by simp [labelRuns]
  | (p, i) :: rest, prev, k, hs, hp => by
    obtain ⟨hs1, hs2⟩ := List.pairwise_cons.mp hs
    have key : ∀ k', (∀ v ∈ (labelRuns c (some p) k' rest).1, rowLt c v p = false ∧ rowEq c v p = false) ∧
        (labelRuns c (some p) k' rest).1.Pairwise (fun a b => rowEq c a b = false) := fun k' => by
      have := labelRuns_heads_distinct h rest (some p) k' hs2 (fun q hq e he => by cases hq; exact hs1 e he)
      exact ⟨this.1 p rfl, this.2⟩
    -- a head `v` of the rest is strictly above everything that is `≤ p`
    have above : ∀ q, rowLt c p q = false → ∀ v, rowLt c v p = false → rowEq c v p = false →
        rowLt c v q = false ∧ rowEq c v q = false := by
      intro q hqp v hpv hne
      refine ⟨h.le_trans q p v hqp hpv, ?_⟩
      cases hE : rowEq c v q
      · rfl
      · exfalso
        have e := (h.eq_iff v q).mp hE
        -- e.1 : rowLt q v = false (v ≤ q), e.2 : rowLt v q = false (q ≤ v)
        have hvp : rowLt c p v = false := h.le_trans v q p e.1 hqp
        have : rowEq c v p = true := (h.eq_iff v p).mpr ⟨hvp, hpv⟩
        rw [this] at hne; exact absurd hne (by simp)
    by_cases hcase : ∀ q, prev = some q → rowEq c p q = false
    · have hshape : (labelRuns c prev k ((p, i) :: rest)).1 = p :: (labelRuns c (some p) (k + 1) rest).1 := by
        cases prev with
        | none => simp [labelRuns]
        | some q => simp [labelRuns, hcase q rfl]
      rw [hshape]
      obtain ⟨kA, kB⟩ := key (k + 1)
      refine ⟨?_, List.pairwise_cons.mpr ⟨fun v hv => h.ne_symm (kA v hv).2, kB⟩⟩
      intro q hq v hv
      have hqp : rowLt c p q = false := hp q hq (p, i) (by simp)
      rcases List.mem_cons.mp hv with rfl | hv
      · exact ⟨hqp, hcase q hq⟩
      · exact above q hqp v (kA v hv).1 (kA v hv).2
    · push Not at hcase
      obtain ⟨q, hq, he⟩ := hcase
      have he' : rowEq c p q = true := by simpa using he
      have hshape : (labelRuns c prev k ((p, i) :: rest)).1 = (labelRuns c (some p) k rest).1 := by
        subst hq; simp [labelRuns, he']
      rw [hshape]
      obtain ⟨kA, kB⟩ := key k
      refine ⟨?_, kB⟩
      intro q' hq' v hv
      have : q' = q := by rw [hq] at hq'; exact (Option.some.inj hq').symm
      subst this
      have hqp : rowLt c p q' = false := hp q' hq (p, i) (by simp)
      exact above q' hqp v (kA v hv).1 (kA v hv).2

/-! ### `np.unique` -/

theorem forall₂_left_mem {β γ : Type} {R : β → γ → Prop} {l1 : List β} {l2 : List γ} (h : List.Forall₂ R l1 l2) :
    ∀ a ∈ l1, ∃ b ∈ l2, R a b := by
  induction h with
  | nil => simp
  | cons hab _ ih =>
    intro a ha
    rcases List.mem_cons.mp ha with rfl | ha
    · exact ⟨_, by simp, hab⟩
    · obtain ⟨b, hb, hr⟩ := ih a ha
      exact ⟨b, List.mem_cons_of_mem _ hb, hr⟩

theorem forall₂_right_mem {β γ : Type} {R : β → γ → Prop} {l1 : List β} {l2 : List γ} (h : List.Forall₂ R l1 l2) :
    ∀ b ∈ l2, ∃ a ∈ l1, R a b := by
  induction h with
  | nil => simp
  | cons hab _ ih =>
    intro b hb
    rcases List.mem_cons.mp hb with rfl | hb
    · exact ⟨_, by simp, hab⟩
    · obtain ⟨a, ha, hr⟩ := ih b hb
      exact ⟨a, List.mem_cons_of_mem _ ha, hr⟩

theorem mem_argsortRows (c : RowCmp α) (pts : List (V3 α)) (e : V3 α × Nat) :
    e ∈ argsortRows c pts ↔ pts[e.2]? = some e.1 := by
  unfold argsortRows
  rw [List.mem_mergeSort]
  obtain ⟨p, i⟩ := e
  exact List.mk_mem_zipIdx_iff_getElem?

theorem argsortRows_sorted {c : RowCmp α} (h : RowLaws c) (pts : List (V3 α)) :
    (argsortRows c pts).Pairwise (fun a b => rowLt c b.1 a.1 = false) := by
  have := List.pairwise_mergeSort (le := fun (a b : V3 α × Nat) => !rowLt c b.1 a.1)
    (fun a b d hab hbd => by
      simp only [Bool.not_eq_true'] at hab hbd ⊢
      exact h.le_trans a.1 b.1 d.1 hab hbd)
    (fun a b => by
      rcases h.le_total a.1 b.1 with h1 | h1 <;> simp [h1])
    pts.zipIdx
  unfold argsortRows
  refine this.imp ?_
  intro a b hab
  simpa using hab

theorem uniqueRows_length (c : RowCmp α) (pts : List (V3 α)) : (uniqueRows c pts).2.length = pts.length := by
  simp [uniqueRows]

/-- `vertices[tr] == points`, row by row -/
theorem uniqueRows_inverse {c : RowCmp α} (h : RowLaws c) (pts : List (V3 α)) (i : Nat) (hi : i < pts.length) :
    ∃ j v, (uniqueRows c pts).2[i]? = some j ∧ (uniqueRows c pts).1[j]? = some v ∧ rowEq c v pts[i] = true := by
  have spec := labelRuns_spec h (argsortRows c pts) none 0 [] rfl (fun q hq => by cases hq)
  simp only [List.nil_append] at spec
  have hmem : (pts[i], i) ∈ argsortRows c pts := by rw [mem_argsortRows]; simp [hi]
  obtain ⟨lab0, hlab0, hl0, -⟩ := forall₂_right_mem spec _ hmem
  have hsome : ((labelRuns c none 0 (argsortRows c pts)).2.find? fun e => e.1 == i).isSome := by
    rw [List.find?_isSome]
    exact ⟨lab0, hlab0, by simpa using hl0⟩
  obtain ⟨lab, hfind⟩ := Option.isSome_iff_exists.mp hsome
  have hlabmem := List.mem_of_find?_eq_some hfind
  have hlab1 : lab.1 = i := by simpa using List.find?_some hfind
  obtain ⟨e, he, he2, v, hv, hve⟩ := forall₂_left_mem spec lab hlabmem
  rw [mem_argsortRows] at he
  have hei : e.2 = i := by rw [← he2, hlab1]
  have hep : e.1 = pts[i] := by
    rw [hei] at he
    rw [List.getElem?_eq_getElem hi] at he
    exact (Option.some.inj he).symm
  refine ⟨lab.2, v, ?_, hv, by rw [← hep]; exact hve⟩
  simp [uniqueRows, hi, hfind]

/-- the unique rows are pairwise different … -/
theorem uniqueRows_distinct {c : RowCmp α} (h : RowLaws c) (pts : List (V3 α)) :
    (uniqueRows c pts).1.Pairwise (fun a b => rowEq c a b = false) :=
  (labelRuns_heads_distinct h (argsortRows c pts) none 0 (argsortRows_sorted h pts) (fun q hq => by cases hq)).2

/-- … and each of them is one of the input rows -/
theorem uniqueRows_subset (c : RowCmp α) (pts : List (V3 α)) : ∀ v ∈ (uniqueRows c pts).1, v ∈ pts := by
  intro v hv
  obtain ⟨e, he, hev⟩ := labelRuns_heads_mem c (argsortRows c pts) none 0 v hv
  rw [mem_argsortRows] at he
  rw [← hev]
  exact List.mem_of_getElem? he

/-! ### `from_mesh`: the soup, its points, the faces -/

theorem soupPoints_cons (t : Tri α) (ts : List (Tri α)) :
    soupPoints (t :: ts) = t.1 :: t.2.1 :: t.2.2 :: soupPoints ts := by
  simp [soupPoints]

theorem soupPoints_length (soup : List (Tri α)) : (soupPoints soup).length = 3 * soup.length := by
  induction soup with
  | nil => rfl
  | cons t ts ih => rw [soupPoints_cons]; simp [ih]; omega

/-- `vertices[tr.reshape((-1, 3))]` against the soup, from `vertices[tr]` against its points -/
theorem meshArray_facesOf [Num α] (R : V3 α → V3 α → Prop) (verts : List (V3 α)) : ∀ (soup : List (Tri α)) (inv : List Nat),
    List.Forall₂ (fun j p => R (verts.getD j zero3) p) inv (soupPoints soup) →
    List.Forall₂ (fun a b : Tri α => R a.1 b.1 ∧ R a.2.1 b.2.1 ∧ R a.2.2 b.2.2) (meshArray verts (facesOf inv)) soup
  | [], inv, hf => by
    have : inv = [] := by
      have := hf.length_eq
      simpa [soupPoints] using this
    subst this
    simp [facesOf, meshArray]
  | t :: ts, inv, hf => by
    rw [soupPoints_cons] at hf
    match inv, hf with
    | a :: b :: d :: rest, .cons ha (.cons hb (.cons hd hrest)) =>
      have ih := meshArray_facesOf R verts ts rest hrest
      simp only [facesOf, meshArray, List.map_cons]
      exact List.Forall₂.cons ⟨ha, hb, hd⟩ ih

theorem facesOf_in_range (n : Nat) : ∀ (inv : List Nat), (∀ j ∈ inv, j < n) → ∀ f ∈ facesOf inv, FaceInRange n f
  | a :: b :: d :: rest, hj, f, hf => by
    simp only [facesOf, List.mem_cons] at hf
    rcases hf with rfl | hf
    · exact ⟨hj a (by simp), hj b (by simp), hj d (by simp)⟩
    · exact facesOf_in_range n rest (fun j hjr => hj j (by simp [hjr])) f hf
  | [], _, f, hf => by simp [facesOf] at hf
  | [_], _, f, hf => by simp [facesOf] at hf
  | [_, _], _, f, hf => by simp [facesOf] at hf

theorem facesOf_length : ∀ (inv : List Nat) (n : Nat), inv.length = 3 * n → (facesOf inv).length = n
  | [], n, h => by
    have : n = 0 := by simp at h; omega
    simp [facesOf, this]
  | [_], n, h => by simp at h; omega
  | [_, _], n, h => by simp at h; omega
  | _ :: _ :: _ :: rest, n, h => by
    cases n with
    | zero => simp at h
    | succ m =>
      simp only [facesOf, List.length_cons]
      rw [facesOf_length rest m (by simp at h; omega)]

/-- the inverse indices against the points, as a `Forall₂` -/
theorem uniqueRows_forall₂ [Num α] {c : RowCmp α} (h : RowLaws c) (pts : List (V3 α)) :
    List.Forall₂ (fun j p => rowEq c ((uniqueRows c pts).1.getD j zero3) p = true) (uniqueRows c pts).2 pts := by
  rw [List.forall₂_iff_get]
  refine ⟨uniqueRows_length c pts, ?_⟩
  intro i h1 h2
  obtain ⟨j, v, hj, hv, hE⟩ := uniqueRows_inverse h pts i h2
  have e1 : (uniqueRows c pts).2.get ⟨i, h1⟩ = j := by
    rw [List.get_eq_getElem]
    rw [List.getElem?_eq_getElem h1] at hj
    exact Option.some.inj hj
  rw [e1, List.getD_eq_getElem?_getD, hv]
  simpa using hE

/-- **from_mesh round trip**: `vertices[faces]` is the soup, triangle by triangle, corner by corner, up to the carrier's `==` -/
theorem fromMesh_roundtrip [Num α] {c : RowCmp α} (h : RowLaws c) (soup : List (Tri α)) :
    List.Forall₂ (fun a b : Tri α => rowEq c a.1 b.1 = true ∧ rowEq c a.2.1 b.2.1 = true ∧ rowEq c a.2.2 b.2.2 = true)
      (meshArray (fromMesh c soup).1 (fromMesh c soup).2) soup :=
  meshArray_facesOf (fun a b => rowEq c a b = true) _ soup _ (uniqueRows_forall₂ h (soupPoints soup))

theorem fromMesh_faces_length (c : RowCmp α) (soup : List (Tri α)) : (fromMesh c soup).2.length = soup.length :=
  facesOf_length _ _ (by rw [uniqueRows_length, soupPoints_length])

/-- every index of every face is a valid vertex index -/
theorem fromMesh_faces_in_range {c : RowCmp α} (h : RowLaws c) (soup : List (Tri α)) :
    ∀ f ∈ (fromMesh c soup).2, FaceInRange (fromMesh c soup).1.length f := by
  apply facesOf_in_range
  intro j hj
  obtain ⟨i, hi, hij⟩ := List.getElem_of_mem hj
  have hi' : i < (soupPoints soup).length := by rwa [uniqueRows_length] at hi
  obtain ⟨j', v, hj', hv, -⟩ := uniqueRows_inverse h (soupPoints soup) i hi'
  rw [List.getElem?_eq_getElem hi, hij] at hj'
  cases Option.some.inj hj'
  exact (List.getElem?_eq_some_iff.mp hv).1

/-! ### the real carrier: `==` is identity -/

/-- `=` and `<` of ℝ -/
noncomputable def RowCmp.real : RowCmp ℝ where
  eq a b := decide (a = b)
  lt a b := decide (a < b)

theorem rowEq_real (p q : V3 ℝ) : rowEq RowCmp.real p q = true ↔ p = q := by
  simp only [rowEq, RowCmp.real, Bool.and_eq_true, decide_eq_true_eq]
  constructor
  · rintro ⟨⟨hx, hy⟩, hz⟩; exact V3.ext' hx hy hz
  · rintro rfl; exact ⟨⟨rfl, rfl⟩, rfl⟩

/-- the sort key: the lexicographic order on the three coordinates -/
def lexKey (p : V3 ℝ) : ℝ ×ₗ (ℝ ×ₗ ℝ) := toLex (p.x, toLex (p.y, p.z))

theorem lexKey_injective : Function.Injective lexKey := by
  intro p q hpq
  have h1 := congrArg (fun k => (ofLex k).1) hpq
  have h2 := congrArg (fun k => (ofLex (ofLex k).2).1) hpq
  have h3 := congrArg (fun k => (ofLex (ofLex k).2).2) hpq
  exact V3.ext' h1 h2 h3

theorem rowLt_real (p q : V3 ℝ) : rowLt RowCmp.real p q = true ↔ lexKey p < lexKey q := by
  simp only [rowLt, RowCmp.real, lexKey, Prod.Lex.toLex_lt_toLex, Bool.or_eq_true, Bool.and_eq_true, Bool.not_eq_true',
    decide_eq_true_eq, decide_eq_false_iff_not, not_lt]
  rcases lt_trichotomy p.x q.x with hx | hx | hx
  · simp [hx]
  · rcases lt_trichotomy p.y q.y with hy | hy | hy
    · simp [hx, hy]
    · simp [hx, hy]
    · simp [hx, hy, not_lt.mpr hy.le, hy.ne']
  · simp [not_lt.mpr hx.le, hx.ne', not_le.mpr hx]

theorem rowLt_real_false (p q : V3 ℝ) : rowLt RowCmp.real q p = false ↔ lexKey p ≤ lexKey q := by
  rw [← not_lt, ← rowLt_real]; simp

theorem rowLaws_real : RowLaws RowCmp.real where
  le_trans p q r := by
    simp only [rowLt_real_false]; exact le_trans
  le_total p q := by
    simp only [rowLt_real_false]; exact le_total _ _
  eq_iff p q := by
    simp only [rowLt_real_false, rowEq_real]
    constructor
    · rintro rfl; exact ⟨le_refl _, le_refl _⟩
    · rintro ⟨h1, h2⟩; exact lexKey_injective (le_antisymm h1 h2)

/-- over ℝ the round trip is an identity of lists of triangles -/
theorem fromMesh_roundtrip_real (soup : List (Tri ℝ)) :
    meshArray (fromMesh RowCmp.real soup).1 (fromMesh RowCmp.real soup).2 = soup := by
  have h := fromMesh_roundtrip rowLaws_real soup
  have : List.Forall₂ (· = ·) (meshArray (fromMesh RowCmp.real soup).1 (fromMesh RowCmp.real soup).2) soup := by
    refine h.imp ?_
    rintro ⟨a1, a2, a3⟩ ⟨b1, b2, b3⟩ ⟨h1, h2, h3⟩
    rw [rowEq_real] at h1 h2 h3
    simp only at h1 h2 h3
    rw [h1, h2, h3]
  rwa [List.forall₂_eq_eq_eq] at this

theorem fromMesh_vertices_nodup (soup : List (Tri ℝ)) : (fromMesh RowCmp.real soup).1.Nodup := by
  have h := uniqueRows_distinct rowLaws_real (soupPoints soup)
  refine h.imp ?_
  intro a b hab he
  rw [(rowEq_real a b).mpr he] at hab
  exact absurd hab (by simp)

theorem fromMesh_vertices_mem (soup : List (Tri ℝ)) (p : V3 ℝ) :
    p ∈ (fromMesh RowCmp.real soup).1 ↔ p ∈ soupPoints soup := by
  constructor
  · exact uniqueRows_subset _ _ p
  · intro hp
    obtain ⟨i, hi, rfl⟩ := List.getElem_of_mem hp
    obtain ⟨j, v, -, hv, hE⟩ := uniqueRows_inverse rowLaws_real (soupPoints soup) i hi
    rw [rowEq_real] at hE
    rw [← hE]
    exact List.mem_of_getElem? hv

/-- number of vertices = number of distinct corner points of the soup -/
theorem fromMesh_vertex_count [DecidableEq (V3 ℝ)] (soup : List (Tri ℝ)) :
    (fromMesh RowCmp.real soup).1.length = (soupPoints soup).toFinset.card := by
  rw [← List.toFinset_card_of_nodup (fromMesh_vertices_nodup soup)]
  congr 1
  ext p
  simp only [List.mem_toFinset]
  exact fromMesh_vertices_mem soup p

end MagpyVerif.Kern
