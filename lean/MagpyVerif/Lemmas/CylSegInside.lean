/-
Lemmas/CylSegInside.lean — C02 for the CylinderSegment: off the tolerance band of its surface tests, the inside mask that
`BHJM_cylinder_segment` computes (`mask_r_in & mask_phi_in & mask_z_in`, the observer azimuth compared as `phi` and as its copy
shifted by one turn, the angle range shifted by full turns into [−2π, 2π]) IS the geometric predicate
`r1 < r < r2 ∧ |z| < h/2 ∧ ∃ k : ℤ, phi1 < phi + 2πk < phi2`.  Over `realNumX μ S` (any mu_0, opaque special functions).
-/
import MagpyVerif.Lemmas.KernCylSeg
import MagpyVerif.Lemmas.KernAlgebra
import MagpyVerif.Lemmas.KernCylinder
namespace MagpyVerif.Kern.CylSeg
open MagpyVerif MagpyVerif.Kern

/-- `rtol = atol = 1e-12` of `close` -/
noncomputable def tolC : ℝ := 1 / 1000000000000

theorem tolC_pos : 0 < tolC := by unfold tolC; norm_num

/-- `close(a, b)` = `np.isclose(a, b, rtol=1e-12, atol=1e-12)` on the reals -/
theorem close_tolC_iff (μ : ℝ) (S : SegSpecial) (a b : ℝ) :
    @close ℝ (realNumX μ S) a b = true ↔ |a - b| ≤ tolC + tolC * |b| := by
  simp only [close, isclose, le_real, eq0_real, abs_real, n, ofNat_real, sub_self, decide_true, Bool.and_true,
    Bool.or_eq_true, Bool.and_eq_true, decide_eq_true_eq, tolC, Nat.cast_ofNat, Nat.cast_one]
  constructor
  · rintro (h | ⟨h1, h2⟩)
    · exact h
    · have : a = b := le_antisymm h1 h2
      subst this
      simp only [sub_self, abs_zero]
      positivity
  · intro h; exact Or.inl h

theorem close_tolC_false_iff (μ : ℝ) (S : SegSpecial) (a b : ℝ) :
    @close ℝ (realNumX μ S) a b = false ↔ tolC + tolC * |b| < |a - b| := by
  rw [← not_le, ← close_tolC_iff μ S, Bool.not_eq_true]

theorem signNe_real_iff (μ : ℝ) (S : SegSpecial) (a b : ℝ) :
    @signNe ℝ (realNumX μ S) a b = true ↔ sgnR a ≠ sgnR b := by
  simp only [signNe, eq0_real, Bool.not_eq_true', decide_eq_false_iff_not, sub_eq_zero]
  rfl

/-- `np.sign(a) != np.sign(b)` for `b ≤ a`, both non-zero: `b < 0 < a` -/
theorem sgnR_ne_iff (a b : ℝ) (ha : a ≠ 0) (hb : b ≠ 0) (hab : b ≤ a) : sgnR a ≠ sgnR b ↔ b < 0 ∧ 0 < a := by
  have neg : ∀ t : ℝ, t < 0 → sgnR t = -1 := fun t ht => by simp [sgnR, ht, not_lt_of_gt ht]
  have pos : ∀ t : ℝ, 0 < t → sgnR t = 1 := fun t ht => by simp [sgnR, ht]
  rcases lt_or_gt_of_ne ha with ha' | ha' <;> rcases lt_or_gt_of_ne hb with hb' | hb'
  · rw [neg a ha', neg b hb']
    constructor
    · intro h; exact absurd rfl h
    · rintro ⟨_, h⟩; linarith
  · linarith
  · rw [pos a ha', neg b hb']
    constructor
    · intro _; exact ⟨hb', ha'⟩
    · intro _; norm_num
  · rw [pos a ha', pos b hb']
    constructor
    · intro h; exact absurd rfl h
    · rintro ⟨h, _⟩; linarith

theorem pymod_real (μ : ℝ) (S : SegSpecial) (a b : ℝ) : @NumX.pymod ℝ (realNumX μ S) a b = a - b * (⌊a / b⌋ : ℝ) := rfl
theorem ceil_realX' (μ : ℝ) (S : SegSpecial) (x : ℝ) : @NumX.ceil ℝ (realNumX μ S) x = (⌈x⌉ : ℝ) := rfl
theorem sgn_real (μ : ℝ) (S : SegSpecial) (a : ℝ) : @NumX.sgn ℝ (realNumX μ S) a = sgnR a := rfl

/-- numpy's `|d| % 2π` vanishes when `d` is a whole number of turns -/
theorem pymod_abs_turns (d : ℝ) (k : ℤ) (hd : d = 2 * Real.pi * k) :
    |d| - 2 * Real.pi * (⌊|d| / (2 * Real.pi)⌋ : ℝ) = 0 := by
  have hpi : (0 : ℝ) < 2 * Real.pi := by positivity
  have habs : |d| = 2 * Real.pi * ((|k| : ℤ) : ℝ) := by
    rw [hd, abs_mul, abs_of_pos hpi, Int.cast_abs]
  rw [habs, mul_div_cancel_left₀ _ hpi.ne', Int.floor_intCast]
  ring

/-- the code's test "azimuth `phi` lies on the half-plane `phi_j`" (`mask_phi1`, `mask_phi2`; the same test as in
`determine_cases`) -/
noncomputable def onPhi (phi phij : ℝ) : Prop :=
  let m := |phi - phij| - 2 * Real.pi * (⌊|phi - phij| / (2 * Real.pi)⌋ : ℝ)
  |m - 0| ≤ tolC + tolC * |(0 : ℝ)| ∨ |m - 2 * Real.pi| ≤ tolC + tolC * |2 * Real.pi|

theorem onPhi_of_turns (phi phij : ℝ) (k : ℤ) (h : phi - phij = 2 * Real.pi * k) : onPhi phi phij := by
  left
  rw [pymod_abs_turns _ k h]
  simp only [sub_self, abs_zero, mul_zero, add_zero]
  exact tolC_pos.le

/-- the observer azimuth is in the open range for some number of full turns ⇔ it is for the azimuth itself or for the copy
`phi − sign(phi)·2π` the code compares — for `phi ∈ (−π, π]` (what `arctan2` returns) and a range inside [−2π, 2π] -/
theorem angle_range_iff (phi phi1 phi2 : ℝ) (hlo : -Real.pi < phi) (hhi : phi ≤ Real.pi)
    (h1 : -(2 * Real.pi) ≤ phi1) (h2 : phi2 ≤ 2 * Real.pi) :
    ((phi1 < phi ∧ phi < phi2) ∨ (phi1 < phi - sgnR phi * 2 * Real.pi ∧ phi - sgnR phi * 2 * Real.pi < phi2)) ↔
      ∃ k : ℤ, phi1 < phi + 2 * Real.pi * k ∧ phi + 2 * Real.pi * k < phi2 := by
  have hpi := Real.pi_pos
  constructor
  · rintro (h | h)
    · exact ⟨0, by simpa using h⟩
    · rcases lt_trichotomy phi 0 with hp | hp | hp
      · refine ⟨1, ?_⟩
        have : sgnR phi = -1 := by simp [sgnR, hp, not_lt_of_gt hp]
        rw [this] at h
        constructor <;> [have := h.1; have := h.2] <;> push_cast <;> linarith
      · refine ⟨0, ?_⟩
        have : sgnR phi = 0 := by simp [sgnR, hp]
        rw [this] at h
        constructor <;> [have := h.1; have := h.2] <;> push_cast <;> linarith
      · refine ⟨-1, ?_⟩
        have : sgnR phi = 1 := by simp [sgnR, hp]
        rw [this] at h
        constructor <;> [have := h.1; have := h.2] <;> push_cast <;> linarith
  · rintro ⟨k, hk1, hk2⟩
    have hkhi : k ≤ 1 := by
      by_contra hc
      have : (2 : ℤ) ≤ k := by omega
      have : (2 : ℝ) ≤ k := by exact_mod_cast this
      nlinarith
    have hklo : -1 ≤ k := by
      by_contra hc
      have : k ≤ -2 := by omega
      have : (k : ℝ) ≤ -2 := by exact_mod_cast this
      nlinarith
    have hk : k = -1 ∨ k = 0 ∨ k = 1 := by omega
    rcases hk with rfl | rfl | rfl
    · right
      push_cast at hk1 hk2
      have hp : 0 < phi := by linarith
      have : sgnR phi = 1 := by simp [sgnR, hp]
      rw [this]
      constructor <;> linarith
    · left
      push_cast at hk1 hk2
      constructor <;> linarith
    · right
      push_cast at hk1 hk2
      have hp : phi < 0 := by linarith
      have : sgnR phi = -1 := by simp [sgnR, hp, not_lt_of_gt hp]
      rw [this]
      constructor <;> linarith

/-- **the masks of `BHJM_cylinder_segment` off the tolerance band** (normalised quantities: lengths in units of the outer
radius, angles in rad, range shifted into [−2π, 2π]).  If the observer is `close` to none of the six bounding surfaces
(`r = r1`, `r = r2`, `z = z1`, `z = z2` by `close`; `phi = phi1`, `phi = phi2` by the modulo test `onPhi`) then no surface mask
fires and the inside mask is the open geometric segment. -/
theorem segMasks_off_band (μ : ℝ) (S : SegSpecial) (r phi z r1 r2 phi1 phi2 z1 z2 : ℝ)
    (hr : 0 ≤ r) (hr1 : 0 ≤ r1) (hlo : -Real.pi < phi) (hhi : phi ≤ Real.pi)
    (h1 : -(2 * Real.pi) ≤ phi1) (h12 : phi1 ≤ phi2) (h2 : phi2 ≤ 2 * Real.pi)
    (br1 : tolC + tolC * |r1| < |r - r1|) (br2 : tolC + tolC * |r2| < |r - r2|)
    (bz1 : tolC + tolC * |z1| < |z - z1|) (bz2 : tolC + tolC * |z2| < |z - z2|)
    (bp1 : ¬ onPhi phi phi1) (bp2 : ¬ onPhi phi phi2) :
    (@segMasks ℝ (realNumX μ S) r phi z r1 r2 phi1 phi2 z1 z2).notOnSurf = true ∧
    ((@segMasks ℝ (realNumX μ S) r phi z r1 r2 phi1 phi2 z1 z2).inside = true ↔
      (r1 < r ∧ r < r2) ∧ (z1 < z ∧ z < z2) ∧ ∃ k : ℤ, phi1 < phi + 2 * Real.pi * k ∧ phi + 2 * Real.pi * k < phi2) := by
  have cr1 := (close_tolC_false_iff μ S r r1).mpr br1
  have cr2 := (close_tolC_false_iff μ S r r2).mpr br2
  have cz1 := (close_tolC_false_iff μ S z z1).mpr bz1
  have cz2 := (close_tolC_false_iff μ S z z2).mpr bz2
  -- the two azimuth tests of the code are `onPhi`
  have cp : ∀ pj : ℝ, ¬ onPhi phi pj →
      (@close ℝ (realNumX μ S) (@NumX.pymod ℝ (realNumX μ S) (@Num.abs ℝ (realNum μ) (phi - pj))
          (@Kern.n ℝ (realNum μ) 2 * @Num.pi ℝ (realNum μ))) (@Kern.n ℝ (realNum μ) 0) ||
        @close ℝ (realNumX μ S) (@NumX.pymod ℝ (realNumX μ S) (@Num.abs ℝ (realNum μ) (phi - pj))
          (@Kern.n ℝ (realNum μ) 2 * @Num.pi ℝ (realNum μ))) (@Kern.n ℝ (realNum μ) 2 * @Num.pi ℝ (realNum μ))) = false := by
    intro pj hpj
    rw [Bool.or_eq_false_iff, close_tolC_false_iff, close_tolC_false_iff]
    simp only [onPhi, not_or, not_le] at hpj
    simpa [n, pymod_real] using hpj
  -- the apex rule needs r close to 0 and r1 close to 0: then r is close to r1
  have apex : (@close ℝ (realNumX μ S) r (@Kern.n ℝ (realNum μ) 0) && @close ℝ (realNumX μ S) r1 (@Kern.n ℝ (realNum μ) 0)) = false := by
    rw [Bool.and_eq_false_iff, close_tolC_false_iff, close_tolC_false_iff]
    by_contra hc
    simp only [not_or, not_lt, n, ofNat_real, Nat.cast_zero, sub_zero, abs_zero, mul_zero, add_zero] at hc
    rw [abs_of_nonneg hr, abs_of_nonneg hr1] at hc
    have : |r - r1| ≤ tolC := by
      rw [abs_le]; constructor <;> linarith [hc.1, hc.2]
    have : tolC * |r1| ≥ 0 := mul_nonneg tolC_pos.le (abs_nonneg _)
    linarith
  have hne1 : phi - phi1 ≠ 0 := fun h => bp1 (onPhi_of_turns phi phi1 0 (by simpa using h))
  have hne2 : phi - phi2 ≠ 0 := fun h => bp2 (onPhi_of_turns phi phi2 0 (by simpa using h))
  have hne1' : phi - sgnR phi * 2 * Real.pi - phi1 ≠ 0 := by
    intro h
    rcases lt_trichotomy phi 0 with hp | hp | hp
    · have e : sgnR phi = -1 := by simp [sgnR, hp, not_lt_of_gt hp]
      rw [e] at h
      exact bp1 (onPhi_of_turns phi phi1 (-1) (by push_cast; linarith))
    · have e : sgnR phi = 0 := by simp [sgnR, hp]
      rw [e] at h
      exact hne1 (by linarith)
    · have e : sgnR phi = 1 := by simp [sgnR, hp]
      rw [e] at h
      exact bp1 (onPhi_of_turns phi phi1 1 (by push_cast; linarith))
  have hne2' : phi - sgnR phi * 2 * Real.pi - phi2 ≠ 0 := by
    intro h
    rcases lt_trichotomy phi 0 with hp | hp | hp
    · have e : sgnR phi = -1 := by simp [sgnR, hp, not_lt_of_gt hp]
      rw [e] at h
      exact bp2 (onPhi_of_turns phi phi2 (-1) (by push_cast; linarith))
    · have e : sgnR phi = 0 := by simp [sgnR, hp]
      rw [e] at h
      exact hne2 (by linarith)
    · have e : sgnR phi = 1 := by simp [sgnR, hp]
      rw [e] at h
      exact bp2 (onPhi_of_turns phi phi2 1 (by push_cast; linarith))
  have s1 := (signNe_real_iff μ S (phi - phi1) (phi - phi2)).trans (sgnR_ne_iff _ _ hne1 hne2 (by linarith))
  have s2 := (signNe_real_iff μ S (phi - sgnR phi * 2 * Real.pi - phi1) (phi - sgnR phi * 2 * Real.pi - phi2)).trans
    (sgnR_ne_iff _ _ hne1' hne2' (by linarith))
  have hang := angle_range_iff phi phi1 phi2 hlo hhi h1 h2
  unfold segMasks
  simp only [cr1, cr2, cz1, cz2, cp phi1 bp1, cp phi2 bp2, apex, Bool.or_false, Bool.false_and,
    Bool.not_false, Bool.and_eq_true, Bool.or_eq_true, lt_real, decide_eq_true_eq, true_and]
  simp only [n, ofNat_real, Nat.cast_ofNat, pi_real, sgn_real]
  rw [s1, s2, ← hang]
  constructor
  · rintro ⟨⟨hrr, hpp⟩, hzz⟩
    refine ⟨hrr, hzz, ?_⟩
    rcases hpp with hpp | hpp
    · left; constructor <;> linarith [hpp.1, hpp.2]
    · right; constructor <;> linarith [hpp.1, hpp.2]
  · rintro ⟨hrr, hzz, hpp⟩
    refine ⟨⟨hrr, ?_⟩, hzz⟩
    rcases hpp with hpp | hpp
    · left; constructor <;> linarith [hpp.1, hpp.2]
    · right; constructor <;> linarith [hpp.1, hpp.2]

/-! ### from the raw inputs (any length unit, degrees) to the normalised row -/

/-- an azimuth farther than `1e-12·(1 + 2π)` from every full-turn copy of `P` fails the code's modulo test against every
shifted copy of `P` -/
theorem not_onPhi_of_far (phi P : ℝ) (hfar : ∀ k : ℤ, tolC * (1 + 2 * Real.pi) < |phi - P - 2 * Real.pi * k|) (t : ℤ) :
    ¬ onPhi phi (P - 2 * Real.pi * t) := by
  have hpi := Real.pi_pos
  have ht := tolC_pos
  have htp : 0 < tolC * (2 * Real.pi) := by positivity
  unfold onPhi
  simp only [sub_zero, abs_zero, mul_zero, add_zero, abs_of_pos (show (0 : ℝ) < 2 * Real.pi by positivity)]
  generalize hd : phi - (P - 2 * Real.pi * t) = d
  generalize ⌊|d| / (2 * Real.pi)⌋ = nn
  rcases le_total 0 d with h0 | h0
  · rw [abs_of_nonneg h0]
    rintro (h | h)
    · have := hfar (nn - t)
      have e : phi - P - 2 * Real.pi * ((nn - t : ℤ) : ℝ) = d - 2 * Real.pi * nn := by push_cast; linarith
      rw [e] at this
      nlinarith
    · have := hfar (nn - t + 1)
      have e : phi - P - 2 * Real.pi * ((nn - t + 1 : ℤ) : ℝ) = d - 2 * Real.pi * nn - 2 * Real.pi := by push_cast; linarith
      rw [e] at this
      nlinarith
  · rw [abs_of_nonpos h0]
    rintro (h | h)
    · have := hfar (-nn - t)
      have e : phi - P - 2 * Real.pi * ((-nn - t : ℤ) : ℝ) = -(-d - 2 * Real.pi * nn) := by push_cast; linarith
      rw [e, abs_neg] at this
      nlinarith
    · have := hfar (-nn - t - 1)
      have e : phi - P - 2 * Real.pi * ((-nn - t - 1 : ℤ) : ℝ) = -(-d - 2 * Real.pi * nn - 2 * Real.pi) := by
        push_cast; linarith
      rw [e, abs_neg] at this
      nlinarith

/-- the shift of the angle range by full turns: for `p1 ≤ p2 ≤ p1 + 360` (degrees) the normalised range is the range in
radians minus a whole number of turns and lies in [−2π, 2π] -/
theorem segNormalise_angles (μ : ℝ) (S : SegSpecial) (x : V3 ℝ) (r1 r2 h p1 p2 : ℝ) (h12 : p1 ≤ p2) (h360 : p2 ≤ p1 + 360) :
    ∃ t : ℤ, (@segNormalise ℝ (realNumX μ S) x r1 r2 h p1 p2).phi1 = p1 / 180 * Real.pi - 2 * Real.pi * t ∧
      (@segNormalise ℝ (realNumX μ S) x r1 r2 h p1 p2).phi2 = p2 / 180 * Real.pi - 2 * Real.pi * t ∧
      -(2 * Real.pi) ≤ p1 / 180 * Real.pi - 2 * Real.pi * t ∧ p2 / 180 * Real.pi - 2 * Real.pi * t ≤ 2 * Real.pi := by
  have hpi := Real.pi_pos
  have h2pi : (0 : ℝ) < 2 * Real.pi := by positivity
  have hP12 : p1 / 180 * Real.pi ≤ p2 / 180 * Real.pi := by
    apply mul_le_mul_of_nonneg_right _ hpi.le; linarith
  have hP360 : p2 / 180 * Real.pi ≤ p1 / 180 * Real.pi + 2 * Real.pi := by
    have : p2 / 180 * Real.pi ≤ (p1 + 360) / 180 * Real.pi := by
      apply mul_le_mul_of_nonneg_right _ hpi.le; linarith
    linarith
  unfold segNormalise
  simp only [n, ofNat_real, Nat.cast_ofNat, Nat.cast_zero, pi_real, lt_real, ceil_realX']
  generalize p1 / 180 * Real.pi = P1 at *
  generalize p2 / 180 * Real.pi = P2 at *
  by_cases hgt : 2 * Real.pi < P2
  · simp only [hgt, decide_true, if_true]
    refine ⟨⌈(P2 - 2 * Real.pi) / (2 * Real.pi)⌉, rfl, rfl, ?_, ?_⟩
    · have h1 := Int.ceil_lt_add_one ((P2 - 2 * Real.pi) / (2 * Real.pi))
      have : (⌈(P2 - 2 * Real.pi) / (2 * Real.pi)⌉ : ℝ) * (2 * Real.pi) < P2 := by
        have := mul_lt_mul_of_pos_right h1 h2pi
        rw [add_mul, div_mul_cancel₀ _ h2pi.ne'] at this
        linarith
      linarith
    · have h1 := Int.le_ceil ((P2 - 2 * Real.pi) / (2 * Real.pi))
      have := mul_le_mul_of_nonneg_right h1 h2pi.le
      rw [div_mul_cancel₀ _ h2pi.ne'] at this
      linarith
  · simp only [hgt, decide_false, Bool.false_eq_true, if_false]
    by_cases hlt : P1 < -(2 * Real.pi)
    · simp only [hlt, decide_true, if_true]
      refine ⟨-⌈(-(2 * Real.pi) - P1) / (2 * Real.pi)⌉, by push_cast; ring, by push_cast; ring, ?_, ?_⟩
      · have h1 := Int.le_ceil ((-(2 * Real.pi) - P1) / (2 * Real.pi))
        have := mul_le_mul_of_nonneg_right h1 h2pi.le
        rw [div_mul_cancel₀ _ h2pi.ne'] at this
        push_cast
        linarith
      · have h1 := Int.ceil_lt_add_one ((-(2 * Real.pi) - P1) / (2 * Real.pi))
        have := mul_lt_mul_of_pos_right h1 h2pi
        rw [add_mul, div_mul_cancel₀ _ h2pi.ne'] at this
        push_cast
        linarith
    · simp only [hlt, decide_false, Bool.false_eq_true, if_false]
      refine ⟨0, by simp, by simp, ?_, ?_⟩ <;> (push_cast; linarith)

theorem sqrt_div_unit (u : ℝ) (hu : 0 < u) (a b : ℝ) :
    Real.sqrt (a / u * (a / u) + b / u * (b / u)) = Real.sqrt (a * a + b * b) / u := by
  have : a / u * (a / u) + b / u * (b / u) = (a * a + b * b) / (u * u) := by field_simp
  rw [this, Real.sqrt_div' _ (by positivity), Real.sqrt_mul_self hu.le]

theorem arg_div_unit (u : ℝ) (hu : 0 < u) (a b : ℝ) : Complex.arg ⟨a / u, b / u⟩ = Complex.arg ⟨a, b⟩ := by
  have := arg_pos_smul (1 / u) (by positivity) a b
  rw [← this]
  congr 2 <;> ring

open Classical in
/-- **C02 (CylinderSegment): J of the ported `BHJM_cylinder_segment` is the polarization on the open geometric segment
and 0 outside, for every observer off the tolerance band of the six bounding surfaces.**  Inputs as the class validates
them (`0 ≤ r1`, `0 < r2`, `0 ≤ h`, `p1 ≤ p2 ≤ p1 + 360` in degrees, any range — the code's shift by full turns is covered).
`ρ`, `φ` are the observer's cylinder coordinates as the code computes them.  The band, with the code's tolerances
(`close`: rtol = atol = 1e-12, lengths measured in units of the outer radius `r2`): `|ρ − r_i|/r2 > 1e-12·(1 + r_i/r2)`,
`|z ∓ h/2|/r2 > 1e-12·(1 + h/(2 r2))`, and the azimuth farther than `1e-12·(1 + 2π)` rad from every full-turn copy of the two
bounding half-planes. -/
theorem bhjmCylSeg_J_indicator (μ : ℝ) (S : SegSpecial) (x : V3 ℝ) (r1 r2 h p1 p2 : ℝ) (pol : V3 ℝ)
    (hr1 : 0 ≤ r1) (hr2 : 0 < r2) (hh : 0 ≤ h) (h12 : p1 ≤ p2) (h360 : p2 ≤ p1 + 360)
    (br1 : tolC + tolC * (r1 / r2) < |Real.sqrt (x.x * x.x + x.y * x.y) / r2 - r1 / r2|)
    (br2 : tolC + tolC * 1 < |Real.sqrt (x.x * x.x + x.y * x.y) / r2 - 1|)
    (bz1 : tolC + tolC * (h / r2 / 2) < |x.z / r2 + h / r2 / 2|)
    (bz2 : tolC + tolC * (h / r2 / 2) < |x.z / r2 - h / r2 / 2|)
    (bp1 : ∀ k : ℤ, tolC * (1 + 2 * Real.pi) < |Complex.arg ⟨x.x, x.y⟩ - p1 / 180 * Real.pi - 2 * Real.pi * k|)
    (bp2 : ∀ k : ℤ, tolC * (1 + 2 * Real.pi) < |Complex.arg ⟨x.x, x.y⟩ - p2 / 180 * Real.pi - 2 * Real.pi * k|) :
    @bhjmCylSeg ℝ (realNumX μ S) .J x r1 r2 h p1 p2 pol =
      some (if (r1 < Real.sqrt (x.x * x.x + x.y * x.y) ∧ Real.sqrt (x.x * x.x + x.y * x.y) < r2) ∧ |x.z| < h / 2 ∧
          ∃ k : ℤ, p1 / 180 * Real.pi < Complex.arg ⟨x.x, x.y⟩ + 2 * Real.pi * k ∧
            Complex.arg ⟨x.x, x.y⟩ + 2 * Real.pi * k < p2 / 180 * Real.pi
        then pol else @zero3 ℝ (realNum μ)) := by
  have hpi := Real.pi_pos
  obtain ⟨t, e1, e2, hlo, hhi⟩ := segNormalise_angles μ S x r1 r2 h p1 p2 h12 h360
  -- the normalised row
  have eobs : (@segNormalise ℝ (realNumX μ S) x r1 r2 h p1 p2).obs = ⟨x.x / r2, x.y / r2, x.z / r2⟩ := by
    simp [segNormalise, abs_of_pos hr2, hr2, n]
  have er1 : (@segNormalise ℝ (realNumX μ S) x r1 r2 h p1 p2).r1 = r1 / r2 := by
    simp [segNormalise, abs_of_pos hr2, abs_of_nonneg hr1, hr2, n]
  have er2 : (@segNormalise ℝ (realNumX μ S) x r1 r2 h p1 p2).r2 = 1 := by
    simp [segNormalise, abs_of_pos hr2, hr2, hr2.ne', n]
  have ez1 : (@segNormalise ℝ (realNumX μ S) x r1 r2 h p1 p2).z1 = -(h / r2 / 2) := by
    simp [segNormalise, abs_of_pos hr2, abs_of_nonneg hh, hr2, n]; ring
  have ez2 : (@segNormalise ℝ (realNumX μ S) x r1 r2 h p1 p2).z2 = h / r2 / 2 := by
    simp [segNormalise, abs_of_pos hr2, abs_of_nonneg hh, hr2, n]
  unfold bhjmCylSeg
  simp only [wrapSegment, Option.some.injEq]
  rw [eobs, er1, er2, ez1, ez2, e1, e2]
  simp only [sq, sqrt_real, atan2_real, sqrt_div_unit r2 hr2, arg_div_unit r2 hr2]
  set ρ := Real.sqrt (x.x * x.x + x.y * x.y) with hρ
  set φ := Complex.arg ⟨x.x, x.y⟩ with hφ
  have hq1 : 0 ≤ r1 / r2 := div_nonneg hr1 hr2.le
  have hz0 : 0 ≤ h / r2 / 2 := by positivity
  obtain ⟨hns, hin⟩ := segMasks_off_band μ S (ρ / r2) φ (x.z / r2) (r1 / r2) 1 (p1 / 180 * Real.pi - 2 * Real.pi * t)
    (p2 / 180 * Real.pi - 2 * Real.pi * t) (-(h / r2 / 2)) (h / r2 / 2)
    (div_nonneg (Real.sqrt_nonneg _) hr2.le) hq1 (Complex.neg_pi_lt_arg _) (Complex.arg_le_pi _) hlo
    (by
      have : p1 / 180 * Real.pi ≤ p2 / 180 * Real.pi := by
        apply mul_le_mul_of_nonneg_right _ hpi.le; linarith
      linarith) hhi
    (by rwa [abs_of_nonneg hq1]) (by rwa [abs_one])
    (by rw [abs_neg, abs_of_nonneg hz0, sub_neg_eq_add]; exact bz1) (by rwa [abs_of_nonneg hz0])
    (not_onPhi_of_far φ _ bp1 t) (not_onPhi_of_far φ _ bp2 t)
  rw [hns, Bool.and_true]
  have key : ((@segMasks ℝ (realNumX μ S) (ρ / r2) φ (x.z / r2) (r1 / r2) 1 (p1 / 180 * Real.pi - 2 * Real.pi * t)
      (p2 / 180 * Real.pi - 2 * Real.pi * t) (-(h / r2 / 2)) (h / r2 / 2)).inside = true) ↔
      ((r1 < ρ ∧ ρ < r2) ∧ |x.z| < h / 2 ∧ ∃ k : ℤ, p1 / 180 * Real.pi < φ + 2 * Real.pi * k ∧
        φ + 2 * Real.pi * k < p2 / 180 * Real.pi) := by
    rw [hin]
    refine and_congr ?_ (and_congr ?_ ?_)
    · rw [div_lt_div_iff_of_pos_right hr2, div_lt_one hr2]
    · rw [abs_lt]
      constructor
      · rintro ⟨a1, a2⟩
        have b1 := mul_lt_mul_of_pos_right a1 hr2
        have b2 := mul_lt_mul_of_pos_right a2 hr2
        rw [div_mul_cancel₀ _ hr2.ne'] at b1 b2
        have e : h / r2 / 2 * r2 = h / 2 := by field_simp
        rw [neg_mul, e] at b1; rw [e] at b2
        exact ⟨b1, b2⟩
      · rintro ⟨a1, a2⟩
        have e : h / r2 / 2 = h / 2 / r2 := by ring
        rw [e, ← neg_div, div_lt_div_iff_of_pos_right hr2, div_lt_div_iff_of_pos_right hr2]
        exact ⟨a1, a2⟩
    · constructor
      · rintro ⟨k, a1, a2⟩
        exact ⟨k + t, by push_cast; linarith, by push_cast; linarith⟩
      · rintro ⟨k, a1, a2⟩
        exact ⟨k - t, by push_cast; linarith, by push_cast; linarith⟩
  by_cases hg : (r1 < ρ ∧ ρ < r2) ∧ |x.z| < h / 2 ∧ ∃ k : ℤ, p1 / 180 * Real.pi < φ + 2 * Real.pi * k ∧
      φ + 2 * Real.pi * k < p2 / 180 * Real.pi
  · rw [if_pos hg, if_pos (key.mpr hg)]
  · rw [if_neg hg, if_neg (fun hc => hg (key.mp hc))]

end MagpyVerif.Kern.CylSeg
