/-
Lemmas/WrapLinear.lean — linearity in the excitation at the level of the BHJM WRAPPERS (C05), i.e. including every mask
the wrappers compute from the excitation itself (`pol == 0` rows of Cuboid / Cylinder, the transversal / axial split of
the Cylinder) and from the geometry (zero dimension, on-edge, on-surface, inside / outside, on-axis / on-wire / on-line).
Over `realNum μ` for any value `μ` of mu_0.  The property-level statements are in Props/C05.
-/
import MagpyVerif.Lemmas.KernAlgebra
import MagpyVerif.Lemmas.KernCylinder
import MagpyVerif.Lemmas.KernCylSegLin
import MagpyVerif.Model.Polyline
import MagpyVerif.Model.DipoleSing
namespace MagpyVerif.Kern
open MagpyVerif MagpyVerif.Kern.CylSeg

/-! ### Cuboid -/

/-- the closed form vanishes at polarization 0: what makes the `pol == 0` mask of the wrappers consistent with linearity -/
theorem cuboidB_pol_zero (μ : ℝ) (dim pol x : V3 ℝ) (hx : pol.x = 0) (hy : pol.y = 0) (hz : pol.z = 0) : letI := realNum μ
    cuboidB dim pol x = zero3 := by
  simp only [cuboidB]
  generalize @cuboidFF ℝ (realNum μ) _ _ _ _ _ _ = F
  generalize @cuboidFlip ℝ (realNum μ) x = fl
  apply V3.ext' <;> simp [cuboidAssemble, vd, zero3, n, hx, hy, hz]

/-- the geometric part of `mask_gen` (`mask_dim_not_null & mask_not_edge`): the mask of a probe polarization ≠ 0 -/
noncomputable def cuboidGeoGeneral (μ : ℝ) (dim x : V3 ℝ) : Bool :=
  letI := realNum μ
  (cuboidMasks dim ⟨1, 1, 1⟩ x).general

theorem cuboidMasks_inside_pol (μ : ℝ) (dim pol x : V3 ℝ) : letI := realNum μ
    (cuboidMasks dim pol x).inside = (cuboidMasks dim ⟨1, 1, 1⟩ x).inside := rfl

theorem cuboidMasks_general_pol (μ : ℝ) (dim pol x : V3 ℝ) : letI := realNum μ
    (cuboidMasks dim pol x).general =
      (!(decide (pol.x = 0) && decide (pol.y = 0) && decide (pol.z = 0)) && cuboidGeoGeneral μ dim x) := by
  simp only [cuboidGeoGeneral, cuboidMasks, eq0_real, one_ne_zero, decide_false, Bool.false_and, Bool.not_false,
    Bool.true_and, Bool.and_assoc]

/-- `BHJM_magnet_cuboid` with the `pol == 0` mask removed: the mask only skips a computation whose result is 0 -/
theorem bhjmCuboid_eq_geo (μ : ℝ) (f : Field) (dim pol x : V3 ℝ) : letI := realNum μ
    bhjmCuboid f dim pol x =
      wrapB f (cuboidMasks dim ⟨1, 1, 1⟩ x).inside (cuboidGeoGeneral μ dim x) pol (cuboidB dim pol x) := by
  letI := realNum μ
  unfold bhjmCuboid
  dsimp only
  rw [cuboidMasks_general_pol, cuboidMasks_inside_pol]
  by_cases hp : pol.x = 0 ∧ pol.y = 0 ∧ pol.z = 0
  · obtain ⟨hx, hy, hz⟩ := hp
    have h0 := cuboidB_pol_zero μ dim pol x hx hy hz
    cases f <;> simp only [wrapB, hx, hy, hz, decide_true, Bool.and_self, Bool.not_true, Bool.false_and, h0] <;>
      (try split_ifs) <;> rfl
  · have : (!(decide (pol.x = 0) && decide (pol.y = 0) && decide (pol.z = 0))) = true := by
      simp only [Bool.not_eq_true', Bool.and_eq_false_iff, decide_eq_false_iff_not]
      by_contra hc
      simp only [not_or, not_not] at hc
      exact hp ⟨hc.1.1, hc.1.2, hc.2⟩
    rw [this, Bool.true_and]

theorem wrapB_linear (μ a b : ℝ) (f : Field) (i g : Bool) (p q c1 c2 : V3 ℝ) : letI := realNum μ
    wrapB f i g (vs a p + vs b q) (vs a c1 + vs b c2) = vs a (wrapB f i g p c1) + vs b (wrapB f i g q c2) := by
  cases f <;> cases i <;> cases g <;> (apply V3.ext' <;> simp [wrapB, vs, vd, zero3, n] <;> (try ring1))

/-- **Cuboid wrapper**: all four fields, every mask row -/
theorem bhjmCuboid_linear' (μ a b : ℝ) (f : Field) (dim p q x : V3 ℝ) : letI := realNum μ
    bhjmCuboid f dim (vs a p + vs b q) x = vs a (bhjmCuboid f dim p x) + vs b (bhjmCuboid f dim q x) := by
  letI := realNum μ
  rw [bhjmCuboid_eq_geo, bhjmCuboid_eq_geo, bhjmCuboid_eq_geo, cuboidB_linear', wrapB_linear]

/-! ### Sphere, Dipole -/

theorem bhjmSphere_linear' (μ a b : ℝ) (f : Field) (d : ℝ) (p q x : V3 ℝ) : letI := realNum μ
    bhjmSphere f d (vs a p + vs b q) x = vs a (bhjmSphere f d p x) + vs b (bhjmSphere f d q x) := by
  letI := realNum μ
  cases f <;> simp only [bhjmSphere] <;> split_ifs <;>
    (generalize @Kern.norm ℝ (realNum μ) x = r) <;>
    (apply V3.ext' <;> simp [vs, vd, zero3, n, V3.dot] <;> ring)

theorem bhjmDipole_linear' (μ a b : ℝ) (f : Field) (m1 m2 x : V3 ℝ) : letI := realNum μ
    bhjmDipole f (vs a m1 + vs b m2) x = vs a (bhjmDipole f m1 x) + vs b (bhjmDipole f m2 x) := by
  letI := realNum μ
  cases f <;> simp only [bhjmDipole, dipoleH_linear'] <;>
    (apply V3.ext' <;> simp [vs, zero3, n] <;> (try ring1))

/-! ### Polyline -/

theorem bhjmSegment_linear' (μ a b : ℝ) (f : Field) (c1 c2 : ℝ) (p1 p2 po : V3 ℝ) : letI := realNum μ
    bhjmSegment f (a * c1 + b * c2) p1 p2 po = vs a (bhjmSegment f c1 p1 p2 po) + vs b (bhjmSegment f c2 p1 p2 po) := by
  letI := realNum μ
  cases f <;> simp only [bhjmSegment, segmentHMasked] <;>
    (generalize @segmentCore ℝ (realNum μ) _ _ _ = c) <;> (try split_ifs) <;>
    (apply V3.ext' <;> simp [vs, zero3, n] <;> (try ring1))

/-! ### Circle -/

theorem olin_some (a b : ℝ) (X Y : V3 ℝ) :
    olin a b (some X) (some Y) = some ⟨a * X.x + b * Y.x, a * X.y + b * Y.y, a * X.z + b * Y.z⟩ := rfl

theorem bhjmCircle_linear' (μ a b : ℝ) (fuel : Nat) (f : Field) (d i1 i2 : ℝ) (x : V3 ℝ) : letI := realNum μ
    bhjmCircle fuel f d (a * i1 + b * i2) x = olin a b (bhjmCircle fuel f d i1 x) (bhjmCircle fuel f d i2 x) := by
  letI := realNum μ
  have hH : bhjmCircle fuel .H d (a * i1 + b * i2) x = olin a b (bhjmCircle fuel .H d i1 x) (bhjmCircle fuel .H d i2 x) := by
    simp only [bhjmCircle]
    split_ifs
    · simp [olin, zero3, n]
    · simp only [olin, Option.some.injEq]
      apply V3.ext' <;> simp [n] <;> ring
    · simp [olin, zero3, n]
    · rw [circleHcyl_current_factor μ fuel _ _ _ (a * i1 + b * i2), circleHcyl_current_factor μ fuel _ _ _ i1,
        circleHcyl_current_factor μ fuel _ _ _ i2]
      rcases @circleHcyl ℝ (realNum μ) fuel _ _ _ 1 with _ | ⟨hr, hz⟩
      · rfl
      · simp only [Option.map_some, olin, Option.some.injEq]
        apply V3.ext' <;> simp <;> ring
  cases f
  case H => exact hH
  case B =>
    rw [bhjmCircle_B_eq, bhjmCircle_B_eq, bhjmCircle_B_eq, hH]
    rcases @bhjmCircle ℝ (realNum μ) fuel .H d i1 x with _ | X
    · rfl
    · rcases @bhjmCircle ℝ (realNum μ) fuel .H d i2 x with _ | Y
      · rfl
      · simp only [olin, Option.map_some, Option.some.injEq]
        apply V3.ext' <;> simp [vs] <;> ring
  case J => simp [bhjmCircle, olin, zero3, n]
  case M => simp [bhjmCircle, olin, zero3, n]

/-- whether `BHJM_circle` returns (both cel iterations exit within `fuel`) does not depend on the current -/
theorem bhjmCircle_isSome_current (μ : ℝ) (fuel : Nat) (f : Field) (d i1 i2 : ℝ) (x : V3 ℝ) : letI := realNum μ
    (bhjmCircle fuel f d i1 x).isSome = (bhjmCircle fuel f d i2 x).isSome := by
  letI := realNum μ
  have hH : (bhjmCircle fuel .H d i1 x).isSome = (bhjmCircle fuel .H d i2 x).isSome := by
    simp only [bhjmCircle]
    split_ifs <;> try rfl
    rw [circleHcyl_current_factor μ fuel _ _ _ i1, circleHcyl_current_factor μ fuel _ _ _ i2]
    rcases @circleHcyl ℝ (realNum μ) fuel _ _ _ 1 with _ | ⟨hr, hz⟩ <;> rfl
  cases f
  case H => exact hH
  case B => rw [bhjmCircle_B_eq, bhjmCircle_B_eq, Option.isSome_map, Option.isSome_map, hH]
  case J => rfl
  case M => rfl

/-! ### Cylinder: the masks `pol_x != 0 | pol_y != 0` (transversal kernel), `pol_z != 0` (axial kernel), `pol == 0` -/

theorem bind_map_isSome {β γ δ : Type} (o1 : Option β) (o2 : Option γ) (g : β → γ → δ) :
    (o1.bind fun t => o2.map (g t)).isSome = (o1.isSome && o2.isSome) := by
  cases o1 <;> cases o2 <;> rfl

/-- if the transversal core returns for `p` and for `q` it returns for every combination: the kernel is skipped only for
polarizations without transversal part, and those are closed under combination -/
theorem cylCoreTv_isSome_comb (μ a b : ℝ) (fuel : Nat) (z0 r z phi : ℝ) (p q : V3 ℝ) :
    (cylCoreTv μ fuel z0 r z phi p).isSome → (cylCoreTv μ fuel z0 r z phi q).isSome →
    (cylCoreTv μ fuel z0 r z phi (@vs ℝ (realNum μ) a p + @vs ℝ (realNum μ) b q)).isSome := by
  let _ := realNum μ
  simp only [cylCoreTv_lin]
  rcases cylDiametralAmp μ fuel z0 r z with _ | A
  · intro h1 h2
    split_ifs with c3
    · exfalso
      have hp : ¬ ((p.x ≠ 0 ∨ p.y ≠ 0) ∧ (cylMasks z0 r z).onEdge = false) := fun c => by
        rw [if_pos c] at h1; simp at h1
      have hq : ¬ ((q.x ≠ 0 ∨ q.y ≠ 0) ∧ (cylMasks z0 r z).onEdge = false) := fun c => by
        rw [if_pos c] at h2; simp at h2
      have hpx : p.x = 0 := by by_contra hh; exact hp ⟨Or.inl hh, c3.2⟩
      have hpy : p.y = 0 := by by_contra hh; exact hp ⟨Or.inr hh, c3.2⟩
      have hqx : q.x = 0 := by by_contra hh; exact hq ⟨Or.inl hh, c3.2⟩
      have hqy : q.y = 0 := by by_contra hh; exact hq ⟨Or.inr hh, c3.2⟩
      rcases c3.1 with hh | hh <;> (apply hh; simp [vs, hpx, hpy, hqx, hqy])
    · rfl
  · intro _ _
    split_ifs <;> rfl

theorem cylCoreAx_isSome_comb (μ a b : ℝ) (fuel : Nat) (z0 r z phi : ℝ) (p q : V3 ℝ) :
    (cylCoreAx μ fuel z0 r z phi p).isSome → (cylCoreAx μ fuel z0 r z phi q).isSome →
    (cylCoreAx μ fuel z0 r z phi (@vs ℝ (realNum μ) a p + @vs ℝ (realNum μ) b q)).isSome := by
  let _ := realNum μ
  unfold cylCoreAx
  rcases @cylAxialB ℝ (realNum μ) fuel z0 r z with _ | A
  · intro h1 h2
    split_ifs with c3
    · exfalso
      have hp : ¬ (p.z ≠ 0 ∧ (cylMasks z0 r z).onEdge = false) := fun c => by
        rw [if_pos c] at h1; simp at h1
      have hq : ¬ (q.z ≠ 0 ∧ (cylMasks z0 r z).onEdge = false) := fun c => by
        rw [if_pos c] at h2; simp at h2
      have hpz : p.z = 0 := by by_contra hh; exact hp ⟨hh, c3.2⟩
      have hqz : q.z = 0 := by by_contra hh; exact hq ⟨hh, c3.2⟩
      apply c3.1; simp [vs, hpz, hqz]
    · rfl
  · intro _ _
    split_ifs <;> rfl

/-- **Cylinder wrapper (row form)**: if the code returns a value for `p` and for `q` it returns one for `a·p + b·q`, and
that is `a·`(value for `p`)` + b·`(value for `q`) -/
theorem bhjmCylinderRow_linear_some (μ a b : ℝ) (fuel : Nat) (f : Field) (z0 r z phi : ℝ) (p q v1 v2 : V3 ℝ) :
    letI := realNum μ
    bhjmCylinderRow fuel f z0 r z phi p = some v1 → bhjmCylinderRow fuel f z0 r z phi q = some v2 →
    bhjmCylinderRow fuel f z0 r z phi (vs a p + vs b q) = some (vs a v1 + vs b v2) := by
  let _ := realNum μ
  intro h1 h2
  have hs : (bhjmCylinderRow fuel f z0 r z phi (vs a p + vs b q)).isSome := by
    have fin : ∀ g : Field, g = .B ∨ g = .H → (bhjmCylinderRow fuel g z0 r z phi p).isSome →
        (bhjmCylinderRow fuel g z0 r z phi q).isSome → (bhjmCylinderRow fuel g z0 r z phi (vs a p + vs b q)).isSome := by
      intro g hg s1 s2
      rw [bhjmCylinderRow_eq_wrap μ fuel g hg, bind_map_isSome, Bool.and_eq_true] at s1 s2 ⊢
      exact ⟨cylCoreTv_isSome_comb μ a b fuel z0 r z phi p q s1.1 s2.1,
        cylCoreAx_isSome_comb μ a b fuel z0 r z phi p q s1.2 s2.2⟩
    cases f
    case B => exact fin .B (Or.inl rfl) (by rw [h1]; rfl) (by rw [h2]; rfl)
    case H => exact fin .H (Or.inr rfl) (by rw [h1]; rfl) (by rw [h2]; rfl)
    case J => rfl
    case M => rfl
  obtain ⟨v, hv⟩ := Option.isSome_iff_exists.mp hs
  rw [hv, bhjmCylinderRow_linear μ a b fuel f z0 r z phi p q v1 v2 v h1 h2 hv]

/-- **Cylinder wrapper**, `BHJM_magnet_cylinder` for one row -/
theorem bhjmCylinder_linear_some (μ a b : ℝ) (fuel : Nat) (f : Field) (dim : ℝ × ℝ) (p q x v1 v2 : V3 ℝ) :
    letI := realNum μ
    bhjmCylinder fuel f dim p x = some v1 → bhjmCylinder fuel f dim q x = some v2 →
    bhjmCylinder fuel f dim (vs a p + vs b q) x = some (vs a v1 + vs b v2) :=
  bhjmCylinderRow_linear_some μ a b fuel f _ _ _ _ p q v1 v2

/-- the row with polarization 0 is computed without any kernel call and is 0 in all four fields -/
theorem bhjmCylinder_pol_zero (μ : ℝ) (fuel : Nat) (f : Field) (dim : ℝ × ℝ) (x : V3 ℝ) :
    letI := realNum μ
    bhjmCylinder fuel f dim ⟨0, 0, 0⟩ x = some ⟨0, 0, 0⟩ := by
  let _ := realNum μ
  unfold bhjmCylinder bhjmCylinderRow
  cases f <;> simp [zero3, n, vd] <;> (try split_ifs) <;> simp [V3.neg_x]

/-- **Cylinder wrapper, unconditional for valid dimensions** (mu_0 = 4π·1e-7; with the fuel of Props/C15): all three
evaluations return and the combination is the combination of the values -/
theorem bhjmCylinder_linear_total (a b : ℝ) (fuel : ℕ) (f : Field) (d h : ℝ) (hd : 0 < d) (hh : 0 ≤ h) (p q x : V3 ℝ)
    (hf : cylFuelX d h x ≤ fuel) :
    ∃ v1 v2, bhjmCylinder fuel f (d, h) p x = some v1 ∧ bhjmCylinder fuel f (d, h) q x = some v2 ∧
      bhjmCylinder fuel f (d, h) (vs a p + vs b q) x = some (vs a v1 + vs b v2) := by
  obtain ⟨v1, h1⟩ := Option.isSome_iff_exists.mp (bhjmCylinder_isSome fuel f d h p x hd hh hf)
  obtain ⟨v2, h2⟩ := Option.isSome_iff_exists.mp (bhjmCylinder_isSome fuel f d h q x hd hh hf)
  exact ⟨v1, v2, h1, h2, bhjmCylinder_linear_some mu0R a b fuel f (d, h) p q x v1 v2 h1 h2⟩

/-! ### CylinderSegment, the function the class calls (`BHJM_cylinder_segment_internal`) -/

theorem lin2_eq_vs (μ a b : ℝ) (p q : V3 ℝ) : lin2 a b p q = @vs ℝ (realNum μ) a p + @vs ℝ (realNum μ) b q := rfl

theorem lin2_sub (a b : ℝ) (u1 u2 w1 w2 : V3 ℝ) : lin2 a b u1 u2 - lin2 a b w1 w2 = lin2 a b (u1 - w1) (u2 - w2) := by
  apply V3.ext' <;> simp [lin2] <;> ring

/-- **`BHJM_cylinder_segment_internal`** (segment solution below 360°, Cylinder(2 r2) − Cylinder(2 r1) from 360° on): whenever
it returns for `p` and for `q` it returns for `a·p + b·q`, with the combined value -/
theorem bhjmCylSegInternal_linear_some (μ : ℝ) (S : SegSpecial) (a b : ℝ) (fuel : Nat) (f : Field) (x : V3 ℝ)
    (r1 r2 h p1 p2 : ℝ) (p q v1 v2 : V3 ℝ) :
    @bhjmCylSegInternal ℝ (realNumX μ S) fuel f x r1 r2 h p1 p2 p = some v1 →
    @bhjmCylSegInternal ℝ (realNumX μ S) fuel f x r1 r2 h p1 p2 q = some v2 →
    @bhjmCylSegInternal ℝ (realNumX μ S) fuel f x r1 r2 h p1 p2 (lin2 a b p q) = some (lin2 a b v1 v2) := by
  by_cases hseg : p2 - p1 < 360
  · rw [internal_segment μ S fuel f x r1 r2 h p1 p2 _ hseg, internal_segment μ S fuel f x r1 r2 h p1 p2 _ hseg,
      internal_segment μ S fuel f x r1 r2 h p1 p2 _ hseg, bhjmCylSeg_linear]
    intro h1 h2
    rw [h1, h2]; rfl
  · have hfull : 360 ≤ p2 - p1 := not_lt.mp hseg
    rw [internal_full_ring μ S fuel f x r1 r2 h p1 p2 _ hfull, internal_full_ring μ S fuel f x r1 r2 h p1 p2 _ hfull,
      internal_full_ring μ S fuel f x r1 r2 h p1 p2 _ hfull]
    intro h1 h2
    rcases ho1 : @bhjmCylinder ℝ (realNum μ) fuel f (2 * r2, h) p x with _ | o1
    · rw [ho1] at h1; simp at h1
    rcases ho2 : @bhjmCylinder ℝ (realNum μ) fuel f (2 * r2, h) q x with _ | o2
    · rw [ho2] at h2; simp at h2
    rw [ho1] at h1; rw [ho2] at h2
    rw [lin2_eq_vs μ, bhjmCylinder_linear_some μ a b fuel f (2 * r2, h) p q x o1 o2 ho1 ho2]
    simp only [Option.bind_some] at h1 h2 ⊢
    by_cases hr : r1 = 0
    · simp only [hr, ne_eq, not_true_eq_false, if_false, Option.some.injEq] at h1 h2 ⊢
      rw [← h1, ← h2]; rfl
    · simp only [hr, ne_eq, not_false_eq_true, if_true] at h1 h2 ⊢
      rcases hi1 : @bhjmCylinder ℝ (realNum μ) fuel f (2 * r1, h) p x with _ | i1
      · rw [hi1] at h1; simp at h1
      rcases hi2 : @bhjmCylinder ℝ (realNum μ) fuel f (2 * r1, h) q x with _ | i2
      · rw [hi2] at h2; simp at h2
      rw [hi1] at h1; rw [hi2] at h2
      rw [bhjmCylinder_linear_some μ a b fuel f (2 * r1, h) p q x i1 i2 hi1 hi2]
      simp only [Option.map_some, Option.some.injEq] at h1 h2 ⊢
      rw [← h1, ← h2, ← lin2_eq_vs, ← lin2_eq_vs, lin2_sub]

/-! ### Dipole at its own position (`r == 0`): ±inf / 0 per component -/

/-- negation on the three-point value set -/
def Sing.neg : Sing → Sing
  | .ninf => .pinf
  | .zero => .zero
  | .pinf => .ninf

theorem singOf_pos_smul (μ c : ℝ) (hc : 0 < c) (v : ℝ) : @singOf ℝ (realNum μ) (c * v) = @singOf ℝ (realNum μ) v := by
  simp only [singOf, lt_real, n, ofNat_real, Nat.cast_zero, decide_eq_true_eq]
  rcases lt_trichotomy v 0 with h | h | h
  · have : c * v < 0 := mul_neg_of_pos_of_neg hc h
    simp [h, this, not_lt_of_gt h, not_lt_of_gt this]
  · simp [h]
  · have : 0 < c * v := mul_pos hc h
    simp [h, this]

theorem singOf_neg (μ : ℝ) (v : ℝ) : @singOf ℝ (realNum μ) (-v) = (@singOf ℝ (realNum μ) v).neg := by
  simp only [singOf, lt_real, n, ofNat_real, Nat.cast_zero, decide_eq_true_eq, neg_pos, neg_lt_zero]
  rcases lt_trichotomy v 0 with h | h | h
  · simp [h, not_lt_of_gt h, Sing.neg]
  · simp [h, Sing.neg]
  · simp [h, not_lt_of_gt h, Sing.neg]

end MagpyVerif.Kern
