/-
Lemmas/MeshPerm.lean — C16: the index-level functions of TriangularMesh commute with a renumbering of the vertices
(`get_disconnected_faces_subsets` incl. its final face selection, `get_inwards_mask`, `fix_trimesh_orientation`), the final
face selection partitions the faces, and the reorientation sweep forgets which input faces were given flipped.
-/
import Mathlib.Tactic
import Mathlib.Logic.Relation
import MagpyVerif.Model.MeshPipeline
import MagpyVerif.Lemmas.MeshConn
import MagpyVerif.Lemmas.MeshOrient
namespace MagpyVerif.Mesh

/-! ### lists under an injective map -/

section inj
variable {β γ : Type} [BEq β] [LawfulBEq β] [BEq γ] [LawfulBEq γ] {g : β → γ}

theorem contains_map_inj (hg : Function.Injective g) (l : List β) (v : β) : (l.map g).contains (g v) = l.contains v := by
  rw [Bool.eq_iff_iff]
  simp [hg.eq_iff]

theorem eraseDups_map_inj (hg : Function.Injective g) : ∀ (n : Nat) (l : List β), l.length ≤ n →
    (l.map g).eraseDups = l.eraseDups.map g := by
  intro n
  induction n with
  | zero =>
    intro l hl
    have : l = [] := List.eq_nil_of_length_eq_zero (by omega)
    subst this; rfl
  | succ n ih =>
    intro l hl
    cases l with
    | nil => rfl
    | cons a as =>
      rw [List.map_cons, List.eraseDups_cons, List.eraseDups_cons, List.map_cons, List.filter_map]
      have hf : ((fun b => !b == g a) ∘ g) = fun b => !b == a := by
        funext b
        simp only [Function.comp]
        by_cases h : b = a
        · simp [h]
        · have : g b ≠ g a := fun h' => h (hg h')
          simp [h, this]
      rw [hf, ih _ (by
        have := List.length_filter_le (fun b => !b == a) as
        simp only [List.length_cons] at hl
        omega)]

theorem eraseDups_map_inj' (hg : Function.Injective g) (l : List β) : (l.map g).eraseDups = l.eraseDups.map g :=
  eraseDups_map_inj hg l.length l (Nat.le_refl _)

theorem filter_not_contains_map_inj (hg : Function.Injective g) (l s : List β) :
    (l.map g).filter (fun v => !(s.map g).contains v) = (l.filter fun v => !s.contains v).map g := by
  rw [List.filter_map]
  congr 1
  apply List.filter_congr
  intro x _
  simp only [Function.comp, contains_map_inj hg]

theorem any_contains_map_inj (hg : Function.Injective g) (l s : List β) :
    (l.map g).any (fun v => (s.map g).contains v) = l.any fun v => s.contains v := by
  rw [List.any_map]
  congr 1
  funext x
  simp only [Function.comp, contains_map_inj hg]

theorem all_contains_map_inj (hg : Function.Injective g) (l s : List β) :
    (l.map g).all (fun v => (s.map g).contains v) = l.all fun v => s.contains v := by
  rw [List.all_map]
  congr 1
  funext x
  simp only [Function.comp, contains_map_inj hg]

end inj

/-! ### `get_disconnected_faces_subsets` under a renumbering -/

section renumber
variable {σ : Nat → Nat}

theorem verts_mapFace (σ : Nat → Nat) (f : Face) : verts (mapFace σ f) = (verts f).map σ := rfl

theorem sweepStep_map (hσ : Function.Injective σ) (acc : List Nat × List Face) (r : Face) :
    sweepStep (acc.1.map σ, acc.2.map (mapFace σ)) (mapFace σ r) =
      ((sweepStep acc r).1.map σ, (sweepStep acc r).2.map (mapFace σ)) := by
  simp only [sweepStep, verts_mapFace, any_contains_map_inj hσ]
  split
  · simp only [filter_not_contains_map_inj hσ, eraseDups_map_inj' hσ, List.map_append]
  · simp only [List.map_append, List.map_cons, List.map_nil]

theorem foldl_sweepStep_map (hσ : Function.Injective σ) (rest : List Face) : ∀ (acc : List Nat × List Face),
    (rest.map (mapFace σ)).foldl sweepStep (acc.1.map σ, acc.2.map (mapFace σ)) =
      ((rest.foldl sweepStep acc).1.map σ, (rest.foldl sweepStep acc).2.map (mapFace σ)) := by
  induction rest with
  | nil => intro acc; rfl
  | cons r rest ih =>
    intro acc
    simp only [List.map_cons, List.foldl_cons]
    rw [sweepStep_map hσ, ih]

theorem sweep_map (hσ : Function.Injective σ) (first : List Nat) (rest : List Face) :
    sweep (first.map σ) (rest.map (mapFace σ)) = ((sweep first rest).1.map σ, (sweep first rest).2.map (mapFace σ)) := by
  have := foldl_sweepStep_map hσ rest (first, [])
  simpa only [sweep, List.map_nil] using this

theorem absorb_map (hσ : Function.Injective σ) : ∀ (n : Nat) (first : List Nat) (rest : List Face),
    absorb n (first.map σ) (rest.map (mapFace σ)) = ((absorb n first rest).1.map σ, (absorb n first rest).2.map (mapFace σ)) := by
  intro n
  induction n with
  | zero => intro first rest; rfl
  | succ n ih =>
    intro first rest
    simp only [absorb, sweep_map hσ, List.length_map]
    split
    · exact ih _ _
    · rfl

/-- `subsets_inds` of the renumbered face list is the renumbered `subsets_inds`: same subsets, same order, same order inside -/
theorem subsets_map (hσ : Function.Injective σ) : ∀ (n : Nat) (faces : List Face),
    subsets n (faces.map (mapFace σ)) = (subsets n faces).map (List.map σ) := by
  intro n
  induction n with
  | zero => intro faces; rfl
  | succ n ih =>
    intro faces
    cases faces with
    | nil => rfl
    | cons f rest =>
      simp only [List.map_cons, subsets, List.length_map]
      have hv : (verts (mapFace σ f)).eraseDups = ((verts f).eraseDups).map σ := by
        rw [verts_mapFace, eraseDups_map_inj' hσ]
      rw [hv, absorb_map hσ]
      simp only [ih]

theorem mapFace_injective (hσ : Function.Injective σ) : Function.Injective (mapFace σ) := by
  rintro ⟨a, b, c⟩ ⟨a', b', c'⟩ h
  simp only [mapFace, Prod.mk.injEq] at h
  obtain ⟨h1, h2, h3⟩ := h
  rw [hσ h1, hσ h2, hσ h3]

theorem selectFaces_map (hσ : Function.Injective σ) (faces : List Face) (ps : List Nat) :
    selectFaces (faces.map (mapFace σ)) (ps.map σ) = (selectFaces faces ps).map (mapFace σ) := by
  simp only [selectFaces, List.filter_map]
  congr 1
  apply List.filter_congr
  intro f _
  simp only [Function.comp, verts_mapFace, all_contains_map_inj hσ]

/-- what `get_disconnected_faces_subsets` returns for the renumbered faces: the renumbered face subsets -/
theorem facesSubsets_map (hσ : Function.Injective σ) (faces : List Face) :
    facesSubsets (faces.map (mapFace σ)) = (facesSubsets faces).map (List.map (mapFace σ)) := by
  simp only [facesSubsets, List.length_map, subsets_map hσ, List.map_map]
  apply List.map_congr_left
  intro ps _
  simp only [Function.comp, selectFaces_map hσ]

end renumber


/-! ### the final face selection of `get_disconnected_faces_subsets` -/

/-- `np.isin(face, ps).all()` -/
def faceIn (f : Face) (ps : List Nat) : Bool := (verts f).all fun v => ps.contains v

theorem selectFaces_eq (faces : List Face) (ps : List Nat) : selectFaces faces ps = faces.filter fun f => faceIn f ps := rfl

theorem count_flatten_filters {β γ : Type} [BEq β] [LawfulBEq β] (l : List β) (p : β → γ → Bool) (x : β) : ∀ (qs : List γ),
    ((qs.map fun q => l.filter fun y => p y q).flatten).count x = l.count x * qs.countP (fun q => p x q) := by
  intro qs
  induction qs with
  | nil => simp
  | cons q qs ih =>
    rw [List.map_cons, List.flatten_cons, List.count_append, ih, List.countP_cons, Nat.mul_add, Nat.add_comm]
    congr 1
    by_cases h : p x q = true
    · rw [List.count_filter (by simpa using h)]; simp [h]
    · have : x ∉ l.filter fun y => p y q := fun hm => h (by simpa using (List.mem_filter.mp hm).2)
      rw [List.count_eq_zero.mpr this]; simp [h]

theorem countP_eq_one_of_pairwise {γ : Type} (P : γ → Bool) : ∀ (l : List γ), l.Pairwise (fun s t => ¬ (P s = true ∧ P t = true)) →
    (∃ s ∈ l, P s = true) → l.countP P = 1 := by
  intro l
  induction l with
  | nil => intro _ h; obtain ⟨s, hs, _⟩ := h; cases hs
  | cons a l ih =>
    intro hp hex
    rw [List.pairwise_cons] at hp
    rw [List.countP_cons]
    by_cases ha : P a = true
    · have : l.countP P = 0 := by
        rw [List.countP_eq_zero]
        intro t ht hPt
        exact hp.1 t ht ⟨ha, hPt⟩
      simp [ha, this]
    · obtain ⟨s, hs, hPs⟩ := hex
      rcases List.mem_cons.mp hs with rfl | hs'
      · exact absurd hPs ha
      · simp [ha, ih hp.2 ⟨s, hs', hPs⟩]

theorem faceIn_iff (f : Face) (ps : List Nat) : faceIn f ps = true ↔ ∀ v ∈ verts f, v ∈ ps := by
  simp [faceIn, List.all_eq_true]

/-- in a list of components every face of the mesh is selected by exactly one of them -/
theorem IsComponents.countP_faceIn {L : List Face} {SS : List (List Nat)} (c : IsComponents L SS) (f : Face) (hf : f ∈ L) :
    SS.countP (fun ps => faceIn f ps) = 1 := by
  apply countP_eq_one_of_pairwise
  · refine c.disjoint.imp ?_
    intro s t hst ⟨hs, ht⟩
    have h1 := (faceIn_iff f s).mp hs f.1 (by simp [verts])
    have h2 := (faceIn_iff f t).mp ht f.1 (by simp [verts])
    exact hst _ h1 h2
  · obtain ⟨s, hs, h1⟩ := c.cover f hf f.1 (by simp [verts])
    refine ⟨s, hs, (faceIn_iff f s).mpr ?_⟩
    intro v hv
    exact (c.cls s hs f.1 h1 v).mpr (vconn_of_face hf (by simp [verts]) hv)

/-- the face subsets returned by `get_disconnected_faces_subsets` partition the faces: concatenated they are a
rearrangement of the face list (every face, with its multiplicity, exactly once) -/
theorem facesSubsets_flatten_perm (faces : List Face) : (facesSubsets faces).flatten.Perm faces := by
  have c := subsets_isComponents (faces.length + 1) faces (by omega)
  rw [List.perm_iff_count]
  intro f
  have h := count_flatten_filters faces (fun (y : Face) (q : List Nat) => faceIn y q) f (subsets (faces.length + 1) faces)
  have h' : (facesSubsets faces).flatten.count f = faces.count f * (subsets (faces.length + 1) faces).countP (fun q => faceIn f q) := h
  rw [h']
  by_cases hf : f ∈ faces
  · rw [c.countP_faceIn f hf, Nat.mul_one]
  · rw [List.count_eq_zero.mpr hf, Nat.zero_mul]

/-- every face lands in exactly one of the returned subsets (one position of the returned list) -/
theorem face_in_exactly_one_subset (faces : List Face) (f : Face) (hf : f ∈ faces) :
    ∃! i : Fin (facesSubsets faces).length, f ∈ (facesSubsets faces)[i] := by
  have c := subsets_isComponents (faces.length + 1) faces (by omega)
  set SS := subsets (faces.length + 1) faces with hSS
  have hlen : (facesSubsets faces).length = SS.length := by simp [facesSubsets, hSS]
  have hget : ∀ i (hi : i < (facesSubsets faces).length), (facesSubsets faces)[i] = selectFaces faces (SS[i]'(hlen ▸ hi)) := by
    intro i hi
    simp [facesSubsets, hSS]
  have hmem : ∀ i (hi : i < (facesSubsets faces).length), f ∈ (facesSubsets faces)[i] ↔ faceIn f (SS[i]'(hlen ▸ hi)) = true := by
    intro i hi
    rw [hget i hi, selectFaces_eq, List.mem_filter]
    exact ⟨fun h => h.2, fun h => ⟨hf, h⟩⟩
  obtain ⟨s, hs, h1⟩ := c.cover f hf f.1 (by simp [verts])
  have hPs : faceIn f s = true := (faceIn_iff f s).mpr fun v hv =>
    (c.cls s hs f.1 h1 v).mpr (vconn_of_face hf (by simp [verts]) hv)
  obtain ⟨i, hi, rfl⟩ := List.getElem_of_mem hs
  refine ⟨⟨i, hlen ▸ hi⟩, (hmem i (hlen ▸ hi)).mpr hPs, ?_⟩
  rintro ⟨j, hj⟩ hfj
  have hPj := (hmem j hj).mp hfj
  have hd := List.pairwise_iff_getElem.mp c.disjoint
  apply Fin.ext
  show j = i
  have hj' : j < SS.length := hlen ▸ hj
  have m1 := (faceIn_iff f _).mp hPs f.1 (by simp [verts])
  have m2 := (faceIn_iff f _).mp hPj f.1 (by simp [verts])
  rcases Nat.lt_trichotomy j i with h | h | h
  · exact absurd m1 (hd j i hj' hi h _ m2)
  · exact h
  · exact absurd m2 (hd i j hi hj' h _ m1)

/-- a returned face subset consists of faces of the mesh, in the order of the face list, and its faces use only the vertices
of its component -/
theorem facesSubsets_sublist (faces : List Face) (fs : List Face) (h : fs ∈ facesSubsets faces) : fs.Sublist faces := by
  simp only [facesSubsets, List.mem_map] at h
  obtain ⟨ps, _, rfl⟩ := h
  exact List.filter_sublist


/-! ### `get_inwards_mask` / `fix_trimesh_orientation` under a renumbering -/

section renumberOrient
variable {σ : Nat → Nat}

/-- a directed edge with renumbered end points -/
def mapDE (σ : Nat → Nat) (e : Edge) : Edge := (σ e.1, σ e.2)

theorem mapDE_injective (hσ : Function.Injective σ) : Function.Injective (mapDE σ) := by
  rintro ⟨a, b⟩ ⟨a', b'⟩ h
  simp only [mapDE, Prod.mk.injEq] at h
  rw [hσ h.1, hσ h.2]

theorem dirEdges_mapFace (σ : Nat → Nat) (f : Face) : dirEdges (mapFace σ f) = (dirEdges f).map (mapDE σ) := rfl
theorem dirEdgesR_mapFace (σ : Nat → Nat) (f : Face) : dirEdgesR (mapFace σ f) = (dirEdgesR f).map (mapDE σ) := rfl
theorem flipFace_mapFace (σ : Nat → Nat) (f : Face) : flipFace (mapFace σ f) = mapFace σ (flipFace f) := rfl

theorem symmDiff_map {g : Edge → Edge} (hg : Function.Injective g) (free es : List Edge) :
    symmDiff (free.map g) (es.map g) = (symmDiff free es).map g := by
  simp only [symmDiff, filter_not_contains_map_inj hg, eraseDups_map_inj' hg, List.map_append]

theorem getD_map_face (σ : Nat → Nat) (tris : List Face) (i : Nat) (hi : i < tris.length) :
    (tris.map (mapFace σ)).getD i (0, 0, 0) = mapFace σ (tris.getD i (0, 0, 0)) := by
  simp [List.getD_eq_getElem?_getD, List.getElem?_map, List.getElem?_eq_getElem hi]

def mapScan (σ : Nat → Nat) (r : Option (Nat × Bool × List Edge)) : Option (Nat × Bool × List Edge) :=
  r.map fun x => (x.1, x.2.1, x.2.2.map (mapDE σ))

theorem scan_map (hσ : Function.Injective σ) (tris : List Face) (free : List Edge) : ∀ (idx : List Nat),
    (∀ i ∈ idx, i < tris.length) →
    scan (tris.map (mapFace σ)) (free.map (mapDE σ)) idx = mapScan σ (scan tris free idx) := by
  intro idx
  induction idx with
  | nil => intro _; rfl
  | cons i is ih =>
    intro h
    have hi := h i List.mem_cons_self
    have hg := mapDE_injective hσ
    simp only [scan, getD_map_face σ tris i hi, dirEdges_mapFace, dirEdgesR_mapFace, List.isEmpty_map]
    by_cases h0 : free.isEmpty = true
    · simp only [h0, if_true, mapScan, Option.map_some, symmDiff_map hg]
    · simp only [h0, Bool.false_eq_true, if_false]
      have a1 := any_contains_map_inj hg (dirEdges (tris.getD i (0, 0, 0))) free
      have a2 := any_contains_map_inj hg (dirEdgesR (tris.getD i (0, 0, 0))) free
      rw [a1, a2]
      split
      · simp only [mapScan, Option.map_some, symmDiff_map hg]
      · split
        · simp only [mapScan, Option.map_some, symmDiff_map hg]
        · exact ih fun j hj => h j (List.mem_cons_of_mem _ hj)

/-- the state of the sweep over the renumbered faces: only `free_edges` is renumbered -/
def mapSt (σ : Nat → Nat) (st : OrientSt) : OrientSt := { st with free := st.free.map (mapDE σ) }

theorem orientStep_map (hσ : Function.Injective σ) (seed : List Nat → Bool) (tris : List Face) (st : OrientSt)
    (h : ∀ i ∈ st.indices, i < tris.length) :
    orientStep seed (tris.map (mapFace σ)) (mapSt σ st) = mapSt σ (orientStep seed tris st) := by
  unfold orientStep
  cases hc : st.anyConnected
  · have e1 : (mapSt σ st).anyConnected = false := hc
    simp only [e1, Bool.false_eq_true, if_false]
    have := scan_map hσ tris [] st.indices h
    simp only [List.map_nil] at this
    simp only [mapSt, this]
    cases scan tris [] st.indices with
    | none => simp [mapScan]
    | some r => simp [mapScan]
  · have e1 : (mapSt σ st).anyConnected = true := hc
    simp only [e1, if_true]
    have := scan_map hσ tris st.free st.indices h
    simp only [mapSt, this]
    cases scan tris st.free st.indices with
    | none => simp [mapScan]
    | some r => simp [mapScan]

theorem orientStep_indices_subset (seed : List Nat → Bool) (tris : List Face) (st : OrientSt) :
    ∀ i ∈ (orientStep seed tris st).indices, i ∈ st.indices := by
  intro i hi
  unfold orientStep at hi
  cases hc : st.anyConnected <;> simp only [hc, Bool.false_eq_true, if_false, if_true] at hi
  · cases hs : scan tris [] st.indices with
    | none => simpa [hs] using hi
    | some r => rw [hs] at hi; exact List.mem_of_mem_erase hi
  · cases hs : scan tris st.free st.indices with
    | none => simpa [hs] using hi
    | some r => rw [hs] at hi; exact List.mem_of_mem_erase hi

theorem orientLoop_map (hσ : Function.Injective σ) (seed : List Nat → Bool) (tris : List Face) : ∀ (n : Nat) (st : OrientSt),
    (∀ i ∈ st.indices, i < tris.length) →
    orientLoop seed (tris.map (mapFace σ)) n (mapSt σ st) = mapSt σ (orientLoop seed tris n st) := by
  intro n
  induction n with
  | zero => intro st _; rfl
  | succ n ih =>
    intro st h
    simp only [orientLoop]
    have : (mapSt σ st).indices = st.indices := rfl
    rw [this]
    split
    · rfl
    · rw [orientStep_map hσ seed tris st h]
      exact ih _ fun i hi => h i (orientStep_indices_subset seed tris st i hi)

/-- `get_inwards_mask` does not see a renumbering of the vertices (same seed verdicts) -/
theorem inwardsMask_map (hσ : Function.Injective σ) (seed : List Nat → Bool) (tris : List Face) :
    inwardsMask seed (tris.map (mapFace σ)) = inwardsMask seed tris := by
  unfold inwardsMask
  have h0 : orientInit (tris.map (mapFace σ)) = mapSt σ (orientInit tris) := by
    simp [orientInit, mapSt]
  rw [List.length_map, h0, orientLoop_map hσ seed tris _ _ (by simp [orientInit])]
  rfl

/-- `fix_trimesh_orientation` of the renumbered faces = the renumbered result -/
theorem fixOrientation_map (hσ : Function.Injective σ) (seed : List Nat → Bool) (tris : List Face) :
    fixOrientation seed (tris.map (mapFace σ)) = (fixOrientation seed tris).map (mapFace σ) := by
  unfold fixOrientation
  rw [inwardsMask_map hσ]
  generalize inwardsMask seed tris = m
  induction tris generalizing m with
  | nil => rfl
  | cons f fs ih =>
    cases m with
    | nil => rfl
    | cons b bs =>
      simp only [List.map_cons, List.zipWith_cons_cons, ih bs, flipFace_mapFace]
      cases b <;> rfl

theorem mem_fixOrientation (seed : List Nat → Bool) (tris : List Face) (g : Face) (h : g ∈ fixOrientation seed tris) :
    ∃ f ∈ tris, g = f ∨ g = flipFace f := by
  unfold fixOrientation at h
  generalize inwardsMask seed tris = m at h
  induction tris generalizing m with
  | nil => simp at h
  | cons f fs ih =>
    cases m with
    | nil => simp at h
    | cons b bs =>
      simp only [List.zipWith_cons_cons, List.mem_cons] at h
      rcases h with h | h
      · refine ⟨f, List.mem_cons_self, ?_⟩
        cases b
        · exact Or.inl (by simpa using h)
        · exact Or.inr (by simpa using h)
      · obtain ⟨f', hf', h'⟩ := ih bs h
        exact ⟨f', List.mem_cons_of_mem _ hf', h'⟩

end renumberOrient


/-! ### winding: the sweep forgets which input faces were given flipped -/

/-- the face list with the faces flagged by `φ` given with the other winding `(a, b, c) → (a, c, b)` -/
def flipBy (φ : Nat → Bool) (tris : List Face) : List Face := tris.mapIdx fun i f => if φ i then flipFace f else f

theorem length_flipBy (φ : Nat → Bool) (tris : List Face) : (flipBy φ tris).length = tris.length := by simp [flipBy]

theorem flipFace_flipFace (f : Face) : flipFace (flipFace f) = f := rfl

theorem faceAt_flipBy (φ : Nat → Bool) (tris : List Face) (i : Nat) :
    faceAt (flipBy φ tris) i = if φ i then flipFace (faceAt tris i) else faceAt tris i := by
  simp only [faceAt, flipBy, List.getD_eq_getElem?_getD, List.getElem?_mapIdx]
  cases h : tris[i]? with
  | none => simp [flipFace]
  | some f => simp

theorem mem_dirEdgesR_flipFace (f : Face) (e : Edge) : e ∈ dirEdgesR (flipFace f) ↔ e ∈ dirEdges f := by
  obtain ⟨a, b, c⟩ := f
  simp only [dirEdges, dirEdgesR, flipFace, List.mem_cons, List.not_mem_nil, or_false]
  tauto

theorem mem_orient_flipFace (b : Bool) (f : Face) (e : Edge) : e ∈ orient b (flipFace f) ↔ e ∈ orient (!b) f := by
  cases b
  · simp only [orient, Bool.false_eq_true, if_false, Bool.not_false, if_true]; exact mem_dirEdges_flipFace f e
  · simp only [orient, if_true, Bool.not_true, Bool.false_eq_true, if_false]; exact mem_dirEdgesR_flipFace f e

theorem mem_orient_flipBy (ρ φ : Nat → Bool) (tris : List Face) (i : Nat) (e : Edge) :
    e ∈ orient (ρ i ^^ φ i) (faceAt (flipBy φ tris) i) ↔ e ∈ orient (ρ i) (faceAt tris i) := by
  rw [faceAt_flipBy]
  cases φ i
  · simp
  · simp only [if_true, Bool.xor_true, mem_orient_flipFace, Bool.not_not]

/-- if `ρ` orients the mesh consistently, `ρ xor φ` orients the mesh given with the faces `φ` flipped -/
theorem Consistent.flipBy {tris : List Face} {ρ : Nat → Bool} (h : Consistent tris ρ) (φ : Nat → Bool) :
    Consistent (flipBy φ tris) (fun i => ρ i ^^ φ i) := by
  intro i j hi hj hij e he hej
  rw [length_flipBy] at hi hj
  exact h i j hi hj hij e ((mem_orient_flipBy ρ φ tris i e).mp he) ((mem_orient_flipBy ρ φ tris j e).mp hej)

/-- faces `i` and `j` have an (undirected) edge in common -/
def EdgeLinked (tris : List Face) (i j : Nat) : Prop :=
  i < tris.length ∧ j < tris.length ∧
    ∃ e, (e ∈ dirEdges (faceAt tris i) ∨ e ∈ dirEdgesR (faceAt tris i)) ∧ (e ∈ dirEdges (faceAt tris j) ∨ e ∈ dirEdgesR (faceAt tris j))

/-- every face can be reached from face 0 through shared edges (one body; two bodies touching in a vertex are not) -/
def EdgeConnected (tris : List Face) : Prop := ∀ i, i < tris.length → Relation.ReflTransGen (EdgeLinked tris) 0 i

theorem undirected_iff_orient (b : Bool) (f : Face) (e : Edge) :
    (e ∈ dirEdges f ∨ e ∈ dirEdgesR f) ↔ (e ∈ orient b f ∨ e.swap ∈ orient b f) := by
  cases b
  · simp only [orient, Bool.false_eq_true, if_false]
    rw [mem_dirEdgesR_iff]
  · simp only [orient, if_true]
    rw [mem_dirEdges_iff, or_comm]

theorem undirected_flipFace (f : Face) (e : Edge) :
    (e ∈ dirEdges (flipFace f) ∨ e ∈ dirEdgesR (flipFace f)) ↔ (e ∈ dirEdges f ∨ e ∈ dirEdgesR f) := by
  rw [mem_dirEdges_flipFace, mem_dirEdgesR_flipFace, or_comm]

theorem edgeLinked_flipBy (φ : Nat → Bool) (tris : List Face) (i j : Nat) :
    EdgeLinked (flipBy φ tris) i j ↔ EdgeLinked tris i j := by
  have key : ∀ k e, (e ∈ dirEdges (faceAt (flipBy φ tris) k) ∨ e ∈ dirEdgesR (faceAt (flipBy φ tris) k)) ↔
      (e ∈ dirEdges (faceAt tris k) ∨ e ∈ dirEdgesR (faceAt tris k)) := by
    intro k e
    rw [faceAt_flipBy]
    cases φ k
    · simp
    · simp only [if_true, undirected_flipFace]
  simp only [EdgeLinked, length_flipBy, key]

theorem edgeConnected_flipBy (φ : Nat → Bool) (tris : List Face) : EdgeConnected (flipBy φ tris) ↔ EdgeConnected tris := by
  have h : EdgeLinked (flipBy φ tris) = EdgeLinked tris := by
    funext i j; exact propext (edgeLinked_flipBy φ tris i j)
  simp only [EdgeConnected, length_flipBy, h]

/-- two consistent orientations agree or disagree on both of two faces that share an edge -/
theorem consistent_rel_of_linked {tris : List Face} {ρ ρ' : Nat → Bool} (h : Consistent tris ρ) (h' : Consistent tris ρ')
    {i j : Nat} (hl : EdgeLinked tris i j) : (ρ i ^^ ρ' i) = (ρ j ^^ ρ' j) := by
  by_cases hij : i = j
  · rw [hij]
  obtain ⟨hi, hj, e0, hei, hej⟩ := hl
  -- choose the direction in which face i (oriented by ρ) runs through the edge
  obtain ⟨e, he, heju⟩ : ∃ e, e ∈ orient (ρ i) (faceAt tris i) ∧
      (e ∈ dirEdges (faceAt tris j) ∨ e ∈ dirEdgesR (faceAt tris j)) := by
    rcases (undirected_iff_orient (ρ i) _ e0).mp hei with h1 | h1
    · exact ⟨e0, h1, hej⟩
    · refine ⟨e0.swap, h1, ?_⟩
      rw [← mem_dirEdgesR_iff, ← mem_dirEdges_iff, or_comm]
      exact hej
  have n1 : e ∉ orient (ρ j) (faceAt tris j) := h i j hi hj hij e he
  have s1 : e.swap ∈ orient (ρ j) (faceAt tris j) := by
    rcases (undirected_iff_orient (ρ j) _ e).mp heju with h2 | h2
    · exact absurd h2 n1
    · exact h2
  cases hi' : ρ' i ^^ ρ i
  · -- ρ' i = ρ i
    have ei : ρ' i = ρ i := by simpa using hi'
    have he' : e ∈ orient (ρ' i) (faceAt tris i) := ei ▸ he
    have n2 : e ∉ orient (ρ' j) (faceAt tris j) := h' i j hi hj hij e he'
    have : ρ' j = ρ j := by
      by_contra hne
      have : ρ' j = !ρ j := by cases hρ : ρ j <;> cases hρ' : ρ' j <;> simp_all
      rw [this, mem_orient_not] at n2
      exact n2 s1
    rw [ei, this]
    simp
  · have ei : ρ' i = !ρ i := by cases hρ : ρ i <;> cases hρ' : ρ' i <;> simp_all
    have he' : e.swap ∈ orient (ρ' i) (faceAt tris i) := by
      rw [ei, mem_orient_not, Prod.swap_swap]; exact he
    have n2 : e.swap ∉ orient (ρ' j) (faceAt tris j) := h' i j hi hj hij _ he'
    have : ρ' j = !ρ j := by
      by_contra hne
      have : ρ' j = ρ j := by cases hρ : ρ j <;> cases hρ' : ρ' j <;> simp_all
      rw [this] at n2
      exact n2 s1
    rw [ei, this]
    cases ρ i <;> cases ρ j <;> rfl

/-- on an edge-connected mesh a consistent orientation is unique up to flipping every face -/
theorem consistent_unique {tris : List Face} {ρ ρ' : Nat → Bool} (h : Consistent tris ρ) (h' : Consistent tris ρ')
    (hc : EdgeConnected tris) (i : Nat) (hi : i < tris.length) : ρ' i = (ρ i ^^ (ρ 0 ^^ ρ' 0)) := by
  have key : (ρ 0 ^^ ρ' 0) = (ρ i ^^ ρ' i) := by
    have := hc i hi
    induction this with
    | refl => rfl
    | tail _ hl ih => rw [ih hl.1]; exact consistent_rel_of_linked h h' hl
  rw [key]
  cases ρ i <;> cases ρ' i <;> rfl

/-! the seed face (face 0) keeps the verdict of the first seed test -/

theorem orientStep_keeps_zero (seed : List Nat → Bool) (tris : List Face) (st : OrientSt) (h0 : 0 ∉ st.indices)
    (hl : 0 < st.mask.length) :
    0 ∉ (orientStep seed tris st).indices ∧ (orientStep seed tris st).mask.length = st.mask.length ∧
      (orientStep seed tris st).mask.getD 0 false = st.mask.getD 0 false := by
  refine ⟨fun h => h0 (orientStep_indices_subset seed tris st 0 h), ?_⟩
  unfold orientStep
  cases hc : st.anyConnected <;> simp only [Bool.false_eq_true, if_false, if_true]
  · have hm : (setAt st.mask st.indices (seed st.indices)).getD 0 false = st.mask.getD 0 false := by
      rw [getD_setAt _ _ _ _ hl, if_neg h0]
    cases hs : scan tris [] st.indices with
    | none => exact ⟨length_setAt _ _ _, hm⟩
    | some r =>
      obtain ⟨i, flip, fr⟩ := r
      have hi := (scan_some hs).1
      have hne : (0 : Nat) ≠ i := fun h => h0 (h ▸ hi)
      cases flip
      · exact ⟨length_setAt _ _ _, hm⟩
      · simp only [if_true]
        refine ⟨by rw [length_toggleAt, length_setAt], ?_⟩
        rw [getD_toggleAt _ _ _ (by rw [length_setAt]; exact hl), if_neg hne, hm]
  · cases hs : scan tris st.free st.indices with
    | none => exact ⟨rfl, rfl⟩
    | some r =>
      obtain ⟨i, flip, fr⟩ := r
      have hi := (scan_some hs).1
      have hne : (0 : Nat) ≠ i := fun h => h0 (h ▸ hi)
      cases flip
      · exact ⟨rfl, rfl⟩
      · simp only [if_true]
        exact ⟨length_toggleAt _ _, by rw [getD_toggleAt _ _ _ hl, if_neg hne]⟩

theorem orientLoop_keeps_zero (seed : List Nat → Bool) (tris : List Face) : ∀ (n : Nat) (st : OrientSt), 0 ∉ st.indices →
    0 < st.mask.length → (orientLoop seed tris n st).mask.getD 0 false = st.mask.getD 0 false := by
  intro n
  induction n with
  | zero => intro st _ _; rfl
  | succ n ih =>
    intro st h0 hl
    simp only [orientLoop]
    split
    · rfl
    · obtain ⟨a, b, c⟩ := orientStep_keeps_zero seed tris st h0 hl
      rw [ih _ a (b ▸ hl), c]

/-- `get_inwards_mask`: the entry of face 0 is the verdict of the FIRST seed test `is_facet_inwards(msh[0], msh)` — no later
step of the sweep touches it (for every face list) -/
theorem inwardsMask_zero (seed : List Nat → Bool) (tris : List Face) (hne : tris ≠ []) :
    (inwardsMask seed tris).getD 0 false = seed (List.range tris.length) := by
  obtain ⟨n, hn⟩ : ∃ n, tris.length = n + 1 := ⟨tris.length - 1, by have := List.length_pos_of_ne_nil hne; omega⟩
  unfold inwardsMask
  have hfuel : 2 * tris.length + 1 = (2 * tris.length) + 1 := rfl
  rw [hfuel]
  simp only [orientLoop]
  have hidx : (orientInit tris).indices = 0 :: (List.range' 1 n) := by
    simp [orientInit, hn, List.range_eq_range', List.range'_succ]
  have hE : (orientInit tris).indices.isEmpty = false := by rw [hidx]; rfl
  rw [hE]
  simp only [Bool.false_eq_true, if_false]
  have hstep : orientStep seed tris (orientInit tris) =
      { mask := setAt (orientInit tris).mask (orientInit tris).indices (seed (orientInit tris).indices),
        indices := (orientInit tris).indices.erase 0,
        free := symmDiff [] (dirEdges (tris.getD 0 (0, 0, 0))), anyConnected := true } := by
    unfold orientStep
    have hc : (orientInit tris).anyConnected = false := rfl
    simp only [hc, Bool.false_eq_true, if_false]
    rw [hidx]
    simp only [scan, List.isEmpty_nil, if_true, Bool.false_eq_true, if_false]
  rw [hstep]
  have hm : (orientInit tris).mask.length = tris.length := by simp [orientInit]
  rw [orientLoop_keeps_zero]
  · simp only
    rw [getD_setAt _ _ _ _ (by rw [hm, hn]; omega)]
    have : (0 : Nat) ∈ (orientInit tris).indices := by rw [hidx]; exact List.mem_cons_self
    rw [if_pos this]
    rfl
  · simp only
    rw [hidx, List.erase_cons_head]
    simp only [List.mem_range'_1]
    omega
  · simp only
    rw [length_setAt, hm, hn]; omega

/-- on an edge-connected orientable mesh `get_inwards_mask` is determined by the reference orientation and the verdict of the
first seed test: `mask[i] = ρ i xor ρ 0 xor seed` -/
theorem inwardsMask_eq_of_connected {tris : List Face} {ρ : Nat → Bool} (hρ : Consistent tris ρ) (hc : EdgeConnected tris)
    (seed : List Nat → Bool) (i : Nat) (hi : i < tris.length) :
    (inwardsMask seed tris).getD i false = (ρ i ^^ (ρ 0 ^^ seed (List.range tris.length))) := by
  have hne : tris ≠ [] := fun h => by rw [h] at hi; exact Nat.not_lt_zero _ hi
  have hm := (orientLoop_consistent hρ seed).2.2
  have := consistent_unique hρ hm hc i hi
  rw [this, inwardsMask_zero seed tris hne]

theorem fixOrientation_getD (seed : List Nat → Bool) (tris : List Face) (hlen : (inwardsMask seed tris).length = tris.length)
    (i : Nat) (hi : i < tris.length) :
    (fixOrientation seed tris).getD i (0, 0, 0) =
      if (inwardsMask seed tris).getD i false then flipFace (faceAt tris i) else faceAt tris i := by
  have hi' : i < (inwardsMask seed tris).length := by rw [hlen]; exact hi
  simp only [fixOrientation, faceAt, List.getD_eq_getElem?_getD, List.getElem?_zipWith, List.getElem?_eq_getElem hi,
    List.getElem?_eq_getElem hi', Option.getD_some]

/-- **winding invariance of the reorientation.**  `tris` edge-connected and orientable; the same mesh given with the faces
`φ` flipped, reoriented with a seed test `seed'`.  If the seed verdicts are geometric — flipping the seed face flips the
verdict: `seed' = seed xor φ 0` on the first call — then `fix_trimesh_orientation` returns the same list of faces. -/
theorem fixOrientation_flipBy {tris : List Face} {ρ : Nat → Bool} (hρ : Consistent tris ρ) (hc : EdgeConnected tris)
    (seed seed' : List Nat → Bool) (φ : Nat → Bool)
    (hseed : seed' (List.range tris.length) = (seed (List.range tris.length) ^^ φ 0)) :
    fixOrientation seed' (flipBy φ tris) = fixOrientation seed tris := by
  have hρ' := hρ.flipBy φ
  have hc' := (edgeConnected_flipBy φ tris).mpr hc
  have l1 := (orientLoop_consistent hρ seed).2.1
  have l2 := (orientLoop_consistent hρ' seed').2.1
  have lf : (flipBy φ tris).length = tris.length := length_flipBy φ tris
  apply List.ext_getElem
  · simp [fixOrientation, l1, l2, lf]
  · intro i h1 h2
    have hi : i < tris.length := by simpa [fixOrientation, l1] using h2
    have g1 := fixOrientation_getD seed tris l1 i hi
    have g2 := fixOrientation_getD seed' (flipBy φ tris) l2 i (lf ▸ hi)
    rw [List.getD_eq_getElem?_getD, List.getElem?_eq_getElem h2, Option.getD_some] at g1
    rw [List.getD_eq_getElem?_getD, List.getElem?_eq_getElem h1, Option.getD_some] at g2
    rw [g1, g2, inwardsMask_eq_of_connected hρ hc seed i hi, inwardsMask_eq_of_connected hρ' hc' seed' i (lf ▸ hi), lf, hseed,
      faceAt_flipBy]
    cases ρ i <;> cases ρ 0 <;> cases φ i <;> cases φ 0 <;> cases seed (List.range tris.length) <;>
      simp [flipFace_flipFace]

/-- the output of `fix_trimesh_orientation` is the input with the faces flagged by the mask flipped -/
theorem fixOrientation_eq_flipBy (seed : List Nat → Bool) (tris : List Face) (hlen : (inwardsMask seed tris).length = tris.length) :
    fixOrientation seed tris = flipBy (fun i => (inwardsMask seed tris).getD i false) tris := by
  apply List.ext_getElem
  · simp [fixOrientation, hlen, length_flipBy]
  · intro i h1 h2
    have hi : i < tris.length := by simpa [length_flipBy] using h2
    have g1 := fixOrientation_getD seed tris hlen i hi
    rw [List.getD_eq_getElem?_getD, List.getElem?_eq_getElem h1, Option.getD_some] at g1
    have g2 := faceAt_flipBy (fun i => (inwardsMask seed tris).getD i false) tris i
    simp only [faceAt] at g2
    rw [List.getD_eq_getElem?_getD, List.getElem?_eq_getElem h2, Option.getD_some] at g2
    rw [g1, g2]
    rfl

/-- **idempotence**: reorienting the reoriented faces changes nothing, provided the seed test of the second run finds the
(already reoriented) seed face outwards -/
theorem fixOrientation_idem {tris : List Face} {ρ : Nat → Bool} (hρ : Consistent tris ρ) (hc : EdgeConnected tris)
    (seed seed' : List Nat → Bool) (hseed : seed' (List.range tris.length) = false) :
    fixOrientation seed' (fixOrientation seed tris) = fixOrientation seed tris := by
  have l1 := (orientLoop_consistent hρ seed).2.1
  have hne_or : tris = [] ∨ tris ≠ [] := by by_cases h : tris = [] <;> simp [h]
  rcases hne_or with h | hne
  · subst h; rfl
  rw [fixOrientation_eq_flipBy seed tris l1]
  have := fixOrientation_flipBy hρ hc seed seed' (fun i => (inwardsMask seed tris).getD i false)
    (by simp only [inwardsMask_zero seed tris hne, hseed, Bool.xor_self])
  rw [this, fixOrientation_eq_flipBy seed tris l1]

end MagpyVerif.Mesh

/-! ### the pipeline vertices + faces → `(n, 3, 3)` array under a renumbering of the vertex table (any carrier) -/

namespace MagpyVerif.Kern
open MagpyVerif.Mesh
variable {α : Type} [Num α]

/-- all three indices of the face address the vertex table -/
def FaceInRange (n : Nat) (f : Face) : Prop := f.1 < n ∧ f.2.1 < n ∧ f.2.2 < n

/-- `verts'` is the vertex table `verts` renumbered by `σ`: the vertex with old index `i` has new index `σ i` -/
def Renumbered (σ : Nat → Nat) (verts verts' : List (V3 α)) : Prop :=
  ∀ i, i < verts.length → verts'.getD (σ i) zero3 = verts.getD i zero3

theorem triAt_renumber {σ : Nat → Nat} {verts verts' : List (V3 α)} (h : Renumbered σ verts verts') (f : Face)
    (hf : FaceInRange verts.length f) : triAt verts' (mapFace σ f) = triAt verts f := by
  simp only [triAt, mapFace, h _ hf.1, h _ hf.2.1, h _ hf.2.2]

/-- `vertices[faces]` is the same array for the renumbered input -/
theorem meshArray_renumber {σ : Nat → Nat} {verts verts' : List (V3 α)} (h : Renumbered σ verts verts') (faces : List Face)
    (hf : ∀ f ∈ faces, FaceInRange verts.length f) :
    meshArray verts' (faces.map (mapFace σ)) = meshArray verts faces := by
  simp only [meshArray, List.map_map]
  apply List.map_congr_left
  intro f hfm
  exact triAt_renumber h f (hf f hfm)

theorem faceInRange_flipFace (n : Nat) (f : Face) (h : FaceInRange n f) : FaceInRange n (flipFace f) :=
  ⟨h.1, h.2.2, h.2.1⟩

theorem fixTrimeshOrientation_renumber {σ : Nat → Nat} (hσ : Function.Injective σ) {verts verts' : List (V3 α)}
    (h : Renumbered σ verts verts') (faces : List Face) (hf : ∀ f ∈ faces, FaceInRange verts.length f) :
    fixTrimeshOrientation verts' (faces.map (mapFace σ)) = (fixTrimeshOrientation verts faces).map (mapFace σ) := by
  simp only [fixTrimeshOrientation, meshArray_renumber h faces hf, fixOrientation_map hσ]

theorem getInwardsMask_renumber {σ : Nat → Nat} (hσ : Function.Injective σ) {verts verts' : List (V3 α)}
    (h : Renumbered σ verts verts') (faces : List Face) (hf : ∀ f ∈ faces, FaceInRange verts.length f) :
    getInwardsMask verts' (faces.map (mapFace σ)) = getInwardsMask verts faces := by
  simp only [getInwardsMask, meshArray_renumber h faces hf, inwardsMask_map hσ]

theorem reorientedMesh_renumber {σ : Nat → Nat} (hσ : Function.Injective σ) {verts verts' : List (V3 α)}
    (h : Renumbered σ verts verts') (faces : List Face) (hf : ∀ f ∈ faces, FaceInRange verts.length f) :
    reorientedMesh verts' (faces.map (mapFace σ)) = reorientedMesh verts faces := by
  simp only [reorientedMesh, fixTrimeshOrientation_renumber hσ h faces hf]
  apply meshArray_renumber h
  intro g hg
  obtain ⟨f, hfm, hgf⟩ := mem_fixOrientation _ _ g hg
  rcases hgf with rfl | rfl
  · exact hf _ hfm
  · exact faceInRange_flipFace _ _ (hf _ hfm)

end MagpyVerif.Kern
