/-
Lemmas/StyleLeaf.lean — every property setter, every constructor call and every `update` loop, seen from ONE plain
property (C20): the value read at a leaf path `q` after the operation is a function (`propRead`, `ctorRead`, `attrRead`)
of the operation's arguments, the class structure and the value read at `q` before — no other part of the tree.
  * `setLeafAt_read`: the deprecated alias setter (`Magnetization.size`) writes exactly its target leaf,
  * `setProp_read` / `constructProps_read` (mutual): a plain property takes its setter's image of the assigned value; a
    sub-object assigned a dict / None / a string is built by the constructor: below it every leaf takes the setter's image of
    the value the dict (after the named parameters with their defaults and `magic_to_dict`) has for it, else of None; an
    alias key of the dict then overwrites its target,
  * `setAllS_read`: the loop of `update` is the fold of these effects over `new_dict`.
No hypothesis on the tree: these are statements about `setKey` / `lookup` along one path.
-/
import MagpyVerif.Lemmas.StyleUpdate

namespace MagpyVerif.StyleState
open MagpyVerif.StyleNested

/-! ### reading along a path after `d[k] = v` -/

theorem leafVid_head {ps : List (Key × Schema)} {k0 : Key} {ks : List Key} {vq : Nat} (h : leafVid ps (k0 :: ks) = some vq) :
    (ks = [] ∧ lookup k0 ps = some (.leaf vq)) ∨
    (∃ ps1 os1 sh ct vk, ks ≠ [] ∧ lookup k0 ps = some (.obj ps1 os1 sh ct vk) ∧ leafVid ps1 ks = some vq) := by
  cases ks with
  | nil =>
    simp only [leafVid] at h
    split at h
    · rename_i v0 hl; injection h with h; subst h; exact .inl ⟨rfl, hl⟩
    · cases h
  | cons k2 ks' =>
    simp only [leafVid] at h
    split at h
    · rename_i ps1 os1 sh ct vk hl; exact .inr ⟨ps1, os1, sh, ct, vk, by simp, hl, h⟩
    · cases h

theorem leafVid_nil (ps : List (Key × Schema)) : leafVid ps [] = none := by simp [leafVid]

/-- a different head key: nothing read along `q` changes -/
theorem readPath_setKey_ne {ps : List (Key × Schema)} {c : Dict} {k : Key} {v : Tree} {k0 : Key} {ks : List Key} {vq : Nat}
    (hq : leafVid ps (k0 :: ks) = some vq) (h : k ≠ k0) : readPath ps (setKey k v c) (k0 :: ks) = readPath ps c (k0 :: ks) := by
  rcases leafVid_head hq with ⟨rfl, hl⟩ | ⟨ps1, os1, sh, ct, vk, _, hl, _⟩
  · simp only [readPath, hl, lookup_setKey_ne h]
  · simp only [readPath, hl, lookup_setKey_ne h]

theorem readPath_setKey_obj {ps : List (Key × Schema)} {c : Dict} {k : Key} {sub : Dict} {ps1 : List (Key × Schema)} {os1 : List Str}
    {sh : Option Key} {ct : List (Key × Option Val)} {vk : Bool} (hl : lookup k ps = some (.obj ps1 os1 sh ct vk)) (q' : List Key) :
    readPath ps (setKey k (.node sub) c) (k :: q') = readPath ps1 sub q' := by
  simp only [readPath, hl, lookup_setKey_self]

theorem readPath_obj {ps : List (Key × Schema)} {c : Dict} {k : Key} {sub : Dict} {ps1 : List (Key × Schema)} {os1 : List Str}
    {sh : Option Key} {ct : List (Key × Option Val)} {vk : Bool} (hl : lookup k ps = some (.obj ps1 os1 sh ct vk))
    (hc : lookup k c = some (.node sub)) (q' : List Key) : readPath ps c (k :: q') = readPath ps1 sub q' := by
  simp only [readPath, hl, hc]

theorem readPath_setKey_leaf {ps : List (Key × Schema)} {c : Dict} {k : Key} {t : Tree} {v0 : Nat} (hl : lookup k ps = some (.leaf v0)) :
    readPath ps (setKey k t c) [k] = .ok t := by
  simp only [readPath, hl, lookup_setKey_self]

/-- nothing is read below a key that is not there -/
theorem readPath_missing {ps : List (Key × Schema)} {c : Dict} {k0 : Key} {ks : List Key} {vq : Nat}
    (hq : leafVid ps (k0 :: ks) = some vq) (hc : lookup k0 c = none) : readPath ps c (k0 :: ks) = .error .attribute := by
  rcases leafVid_head hq with ⟨rfl, hl⟩ | ⟨ps1, os1, sh, ct, vk, _, hl, _⟩
  · simp only [readPath, hl, hc]
  · simp only [readPath, hl, hc]

/-! ### the effect of one setter on what is read at `q` -/

/-- what is read after a setter stored its image of `val` -/
def setR (T : Tables) (vid : Nat) (val : Tree) (b : Except Kind Tree) : Except Kind Tree :=
  match runV T vid val with
  | .ok x => .ok (.leaf x)
  | .error _ => b

mutual
/-- **`setattr(self, k, val)` for the property `k` with schema `s`, seen from the plain property `q`** (validator `vid`) of
`self`; `b` is what was read at `q` before.  A plain property: its own path takes the setter's image.  The alias: None
does nothing, anything else goes to the setter of the target leaf.  A sub-object: everything below `k` is rebuilt by the
constructor from the keyword arguments the value stands for (`objKwargs`: a dict itself, None ↦ no keywords, a string
↦ the shorthand key), starting from "nothing there". -/
def propRead (T : Tables) (vid : Nat) (k : Key) : Schema → Tree → List Key → Except Kind Tree → Except Kind Tree
  | .leaf _, val, q, b => if q = [k] then setR T vid val b else b
  | .alias tgt, val, q, b =>
    match val with
    | .leaf none => b
    | _ => if q = tgt then setR T vid val b else b
  | .obj ps _ short ct vk, val, q, b =>
    match q with
    | [] => b
    | k' :: q' =>
      if k' = k then
        match objKwargs T short val with
        | .error _ => b
        | .ok kw =>
          match ctorDict ps ct vk kw with
          | .error _ => b
          | .ok g => ctorRead T vid g ps q' (.error .attribute)
      else b
/-- **the loop of `MagicProperties.__init__`, seen from `q`**: every property of the class in `dir()` order is assigned
the value the (parsed) keyword dictionary `g` has for it, else None -/
def ctorRead (T : Tables) (vid : Nat) (g : Dict) : List (Key × Schema) → List Key → Except Kind Tree → Except Kind Tree
  | [], _, b => b
  | (k, s) :: rest, q, b => ctorRead T vid g rest q (propRead T vid k s ((lookup k g).getD (.leaf none)) q b)
end

theorem ctorRead_nil (T : Tables) (vid : Nat) (g : Dict) (q : List Key) (b : Except Kind Tree) : ctorRead T vid g [] q b = b := by
  rw [ctorRead]

theorem ctorRead_cons (T : Tables) (vid : Nat) (g : Dict) (k : Key) (s : Schema) (rest : List (Key × Schema)) (q : List Key)
    (b : Except Kind Tree) :
    ctorRead T vid g ((k, s) :: rest) q b = ctorRead T vid g rest q (propRead T vid k s ((lookup k g).getD (.leaf none)) q b) := by
  rw [ctorRead]

/-! ### the alias setter -/

/-- **the alias setter writes its target leaf and nothing else** -/
theorem setLeafAt_read (T : Tables) (val : Tree) : ∀ (tgt : List Key) (props : List (Key × Schema)) (acc r : Dict),
    setLeafAt T props acc tgt val = .ok r → ∀ (q : List Key) (vid : Nat), leafVid props q = some vid →
    readPath props r q = if q = tgt then setR T vid val (readPath props acc q) else readPath props acc q
  | [], props, acc, r, h, _, _, _ => by rw [setLeafAt] at h; cases h
  | [k], props, acc, r, h, q, vid, hq => by
    rw [setLeafAt] at h
    split at h
    · rename_i vid' hl
      split at h
      · rename_i v hv
        injection h with h
        subst h
        cases q with
        | nil => rw [leafVid_nil] at hq; cases hq
        | cons k0 ks =>
          by_cases hk : k = k0
          · subst hk
            rcases leafVid_head hq with ⟨rfl, hl'⟩ | ⟨ps1, os1, sh, ct, vk, _, hl', _⟩
            · rw [hl] at hl'
              injection hl' with hl'
              injection hl' with hl'
              subst hl'
              rw [readPath_setKey_leaf hl]
              simp [setR, hv]
            · rw [hl] at hl'; cases hl'
          · rw [readPath_setKey_ne hq hk]
            have : ¬ (k0 :: ks = [k]) := by intro e; injection e with e1 _; exact hk e1.symm
            simp [this]
      · cases h
    · cases h
  | k :: k2 :: ks2, props, acc, r, h, q, vid, hq => by
    rw [setLeafAt] at h
    split at h
    · rename_i ps1 os1 sh ct vk sub hl hc
      split at h
      · rename_i r' hr
        injection h with h
        subst h
        cases q with
        | nil => rw [leafVid_nil] at hq; cases hq
        | cons k0 ks =>
          by_cases hk : k = k0
          · subst hk
            rcases leafVid_head hq with ⟨rfl, hl'⟩ | ⟨ps1', os1', sh', ct', vk', _, hl', hq'⟩
            · rw [hl] at hl'; cases hl'
            · rw [hl] at hl'
              injection hl' with hl'
              injection hl' with e1 e2 e3 e4 e5
              subst e1
              rw [readPath_setKey_obj hl, readPath_obj hl hc, setLeafAt_read T val (k2 :: ks2) ps1 sub r' hr ks vid hq']
              by_cases he : ks = k2 :: ks2
              · simp [he]
              · have : ¬ (k :: ks = k :: k2 :: ks2) := by intro e; injection e with _ e2; exact he e2
                simp [he, this]
          · rw [readPath_setKey_ne hq hk]
            have : ¬ (k0 :: ks = k :: k2 :: ks2) := by intro e; injection e with e1 _; exact hk e1.symm
            simp [this]
      · cases h
    · cases h

/-! ### setters and constructors -/

mutual
/-- **one setter, seen from one plain property** -/
theorem setProp_read (T : Tables) : ∀ (s : Schema), okSchema s = true → ∀ (all : List (Key × Schema)) (acc : Dict) (k : Key) (val : Tree) (r : Dict),
    lookup k all = some s → setProp T all acc k s val = .ok r → ∀ (q : List Key) (vid : Nat), leafVid all q = some vid →
    readPath all r q = propRead T vid k s val q (readPath all acc q)
  | .leaf vid', _, all, acc, k, val, r, hl, h, q, vid, hq => by
    rw [setProp] at h
    split at h
    · rename_i v hv
      injection h with h
      subst h
      rw [propRead]
      cases q with
      | nil => rw [leafVid_nil] at hq; cases hq
      | cons k0 ks =>
        by_cases hk : k = k0
        · subst hk
          rcases leafVid_head hq with ⟨rfl, hl'⟩ | ⟨ps1, os1, sh, ct, vk, _, hl', _⟩
          · rw [hl] at hl'
            injection hl' with hl'
            injection hl' with hl'
            subst hl'
            rw [readPath_setKey_leaf hl]
            simp [setR, hv]
          · rw [hl] at hl'; cases hl'
        · rw [readPath_setKey_ne hq hk]
          have : ¬ (k0 :: ks = [k]) := by intro e; injection e with e1 _; exact hk e1.symm
          simp [this]
    · cases h
  | .alias tgt, _, all, acc, k, val, r, _, h, q, vid, hq => by
    by_cases hval : val = .leaf none
    · subst hval
      rw [setProp_alias_none] at h
      injection h with h
      subst h
      rw [propRead]
    · rw [setProp_alias_val T all acc k tgt val hval] at h
      rw [setLeafAt_read T val tgt all acc r h q vid hq]
      cases val with
      | leaf v =>
        cases v with
        | none => exact absurd rfl hval
        | some n => rw [propRead]; intro e; cases e
      | node kv => rw [propRead]; intro e; cases e
  | .obj ps a short ct vk, hok, all, acc, k, val, r, hl, h, q, vid, hq => by
    rw [setProp] at h
    cases q with
    | nil => rw [leafVid_nil] at hq; cases hq
    | cons k0 ks =>
      rw [propRead]
      by_cases hk : k0 = k
      · subst hk
        rw [if_pos rfl]
        rcases leafVid_head hq with ⟨rfl, hl'⟩ | ⟨ps1', os1', sh', ct', vk', hne, hl', hq'⟩
        · rw [hl] at hl'; cases hl'
        · rw [hl] at hl'
          injection hl' with hl'
          injection hl' with e1 e2 e3 e4 e5
          subst e1
          cases hkw : objKwargs T short val with
          | error e => rw [hkw] at h; cases h
          | ok kw =>
            rw [hkw] at h
            simp only [] at h ⊢
            cases hg : ctorDict ps ct vk kw with
            | error e => rw [hg] at h; cases h
            | ok g =>
              rw [hg] at h
              simp only [] at h ⊢
              cases hr : constructProps T ps g ps [] with
              | error e => rw [hr] at h; cases h
              | ok r' =>
                rw [hr] at h
                injection h with h
                subst h
                rw [readPath_setKey_obj hl]
                rw [okSchema] at hok
                simp only [Bool.and_eq_true] at hok
                have := constructProps_read T ps hok.1.1 ps g [] [] r' (by simp) hok.1.2 hr ks vid hq'
                rw [this]
                cases ks with
                | nil => exact absurd rfl hne
                | cons k2 ks' =>
                  rw [readPath_missing hq' (by rfl)]
      · rw [if_neg hk]
        cases hkw : objKwargs T short val with
        | error e => rw [hkw] at h; cases h
        | ok kw =>
          rw [hkw] at h
          simp only [] at h
          cases hg : ctorDict ps ct vk kw with
          | error e => rw [hg] at h; cases h
          | ok g =>
            rw [hg] at h
            simp only [] at h
            cases hr : constructProps T ps g ps [] with
            | error e => rw [hr] at h; cases h
            | ok r' =>
              rw [hr] at h
              injection h with h
              subst h
              exact readPath_setKey_ne hq (fun e => hk e.symm)
/-- **the loop of `__init__`, seen from one plain property** -/
theorem constructProps_read (T : Tables) : ∀ (rest : List (Key × Schema)), okProps rest = true →
    ∀ (all : List (Key × Schema)) (g : Dict) (pre : List (Key × Schema)) (acc r : Dict), all = pre ++ rest → nodupK all = true →
      constructProps T all g rest acc = .ok r → ∀ (q : List Key) (vid : Nat), leafVid all q = some vid →
      readPath all r q = ctorRead T vid g rest q (readPath all acc q)
  | [], _, all, g, pre, acc, r, _, _, h, q, vid, _ => by
    rw [constructProps] at h
    injection h with h
    subst h
    rw [ctorRead_nil]
  | (k, s) :: rest', hok, all, g, pre, acc, r, hall, hnd, h, q, vid, hq => by
    rw [constructProps] at h
    rw [okProps] at hok
    simp only [Bool.and_eq_true] at hok
    rw [ctorRead_cons]
    split at h
    · cases h
    · rename_i acc' hs
      have hall' : all = (pre ++ [(k, s)]) ++ rest' := by rw [hall]; simp
      have hl : lookup k all = some s := by
        have hkp : lookup k pre = none := nodupK_prefix_lookup k s rest' pre (by rw [← hall]; exact hnd)
        rw [hall, lookup_append, hkp]
        simp [lookup_cons]
      rw [constructProps_read T rest' hok.2 all g (pre ++ [(k, s)]) acc' r hall' hnd h q vid hq,
        setProp_read T s hok.1 all acc k _ acc' hl hs q vid hq]
end

/-- **`class_(**kw)`, seen from one plain property**: what is read at `q` in the new object -/
theorem construct_read (T : Tables) (ps : List (Key × Schema)) (a : List Str) (b : Option Key) (ct : List (Key × Option Val)) (vk : Bool)
    (hok : okSchema (.obj ps a b ct vk) = true) (kw r : Dict) (h : construct T ps ct vk kw = .ok r) (q : List Key) (vid : Nat)
    (hq : leafVid ps q = some vid) :
    ∃ g, ctorDict ps ct vk kw = .ok g ∧ readPath ps r q = ctorRead T vid g ps q (.error .attribute) := by
  rw [okSchema] at hok
  simp only [Bool.and_eq_true] at hok
  unfold construct at h
  cases hg : ctorDict ps ct vk kw with
  | error e => rw [hg] at h; cases h
  | ok g =>
    rw [hg] at h
    simp only [] at h
    refine ⟨g, rfl, ?_⟩
    rw [constructProps_read T ps hok.1.1 ps g [] [] r (by simp) hok.1.2 h q vid hq]
    cases q with
    | nil => rw [leafVid_nil] at hq; cases hq
    | cons k0 ks => rw [readPath_missing hq (by rfl)]

/-! ### attribute assignment and the loop of `update` -/

/-- `setattr(self, k, val)` seen from `q`: a property runs its setter; (other names are not accepted) -/
def attrRead (T : Tables) (vid : Nat) (props : List (Key × Schema)) (k : Key) (val : Tree) (q : List Key) (b : Except Kind Tree) :
    Except Kind Tree :=
  match lookup k props with
  | some s => propRead T vid k s val q b
  | none => b

theorem setAttr_read (T : Tables) (props : List (Key × Schema)) (hok : okProps props = true) (others : List Str) (cur : Dict) (k : Key)
    (val : Tree) (r : Dict) (h : setAttr T props others cur k val = .ok r) (q : List Key) (vid : Nat)
    (hq : leafVid props q = some vid) : readPath props r q = attrRead T vid props k val q (readPath props cur q) := by
  unfold setAttr at h
  unfold attrRead
  cases hl : lookup k props with
  | none =>
    rw [hl] at h
    simp only [] at h
    cases k with
    | str n => simp only [] at h; split at h <;> cases h
    | int n => cases h
  | some s =>
    rw [hl] at h
    simp only [] at h ⊢
    exact setProp_read T s (okProps_lookup hok hl) props cur k val r hl h q vid hq

/-- **the loop of `update`, seen from one plain property**: the fold of the setters' effects over `new_dict` -/
theorem setAllS_read (T : Tables) (props : List (Key × Schema)) (hok : okProps props = true) (others : List Str) :
    ∀ (items cur : Dict), (setAllS T props others cur items).2 = .ok () → ∀ (q : List Key) (vid : Nat), leafVid props q = some vid →
    readPath props (setAllS T props others cur items).1 q =
      items.foldl (fun b kv => attrRead T vid props kv.1 kv.2 q b) (readPath props cur q) := by
  intro items
  induction items with
  | nil => intro cur _ q vid _; rw [setAllS_nil]; rfl
  | cons hd t ih =>
    obtain ⟨k, v⟩ := hd
    intro cur h q vid hq
    rw [setAllS_cons] at h ⊢
    cases hs : setAttr T props others cur k v with
    | error e => rw [hs] at h; cases h
    | ok cur' =>
      rw [hs] at h
      simp only [] at h ⊢
      rw [ih cur' h q vid hq, List.foldl_cons, setAttr_read T props hok others cur k v cur' hs q vid hq]

/-! ### `_replace_None_only=True`: an accepted update with a fitting argument, either flag -/

mutual
theorem updVal_shaped_rno (sko rno : Bool) : ∀ (v : Tree) (s : Schema) (cv : Tree), fitsVal s v = true → wfVal anyLeaf s cv = true →
    updVal sko rno (some cv) v = none ∨ ∃ r, updVal sko rno (some cv) v = some r ∧ wfVal anyLeaf s r = true
  | .leaf x, s, cv, hf, hc => by
    cases s with
    | leaf vid =>
      by_cases h : (isNoneOrMissing (some cv) || !rno) = true
      · exact .inr ⟨.leaf x, by simp [updVal, h], by rw [wfVal]; rfl⟩
      · exact .inl (by simp [updVal, h])
    | alias t => rw [fitsVal] at hf; cases hf
    | obj a b c d e => rw [fitsVal] at hf; cases hf
  | .node mk, s, cv, hf, hc => by
    cases s with
    | leaf vid => rw [fitsVal] at hf; cases hf
    | alias t => rw [fitsVal] at hf; cases hf
    | obj ps a b c d =>
      rw [fitsVal] at hf
      obtain ⟨ck, rfl, hck⟩ := wfVal_obj_elim hc
      refine .inr ⟨.node (updLoop sko rno ck mk), ?_, ?_⟩
      · rw [updVal_node]; simp [updDict]
      · rw [wfVal]; exact updLoop_shaped_rno sko rno mk ps ck hf hck
theorem updLoop_shaped_rno (sko rno : Bool) : ∀ (m : Dict) (ps : List (Key × Schema)) (acc : Dict), fitsKids ps m = true →
    wfKids anyLeaf ps acc = true → wfKids anyLeaf ps (updLoop sko rno acc m) = true
  | [], ps, acc, _, h => by rw [updLoop_nil]; exact h
  | (k, v) :: r, ps, acc, hf, h => by
    rw [fitsKids_cons] at hf
    simp only [Bool.and_eq_true] at hf
    cases hs : lookup k ps with
    | none => rw [hs] at hf; cases hf.1
    | some s =>
      rw [hs] at hf
      have hna : s.isAlias = false := by
        cases s with
        | leaf v' => rfl
        | obj a b c d e => rfl
        | alias t => have h1 := hf.1; cases v <;> simp [fitsVal] at h1
      obtain ⟨cv, hcv1, hcv2⟩ := wfKids_lookup anyLeaf k s hna ps acc h hs
      rw [updLoop_cons, hcv1]
      rcases updVal_shaped_rno sko rno v s cv hf.1 hcv2 with hn | ⟨r', hr1, hr2⟩
      · rw [hn]
        exact updLoop_shaped_rno sko rno r ps acc hf.2 h
      · rw [hr1]
        simp only []
        exact updLoop_shaped_rno sko rno r ps _ hf.2 (wfKids_setKey anyLeaf k s r' hr2 ps acc h hs)
end

/-- the leaf `new_dict` has at a plain property's path: the value `m` gives it — if `m` has one there and, with
`replace_None_only`, the current value is None — else the old one -/
theorem getPath_updLoop_fits_rno (sko rno : Bool) (ps : List (Key × Schema)) (cur m : Dict) (q : List Key) (vid : Nat) (y : Option Val)
    (hcur : wfKids anyLeaf ps cur = true) (hf : fitsKids ps m = true) (hm : StyleNested.wfKids m = true)
    (hq : leafVid ps q = some vid) (hy : getPath (.node cur) q = some (.leaf y)) :
    getPath (.node (updLoop sko rno cur m)) q =
      match getPath (.node m) q with
      | some (.leaf v) => if (y.isNone || !rno) = true then some (.leaf v) else some (.leaf y)
      | _ => some (.leaf y) := by
  have hnd : Tree.node (updLoop sko rno cur m) = updDict sko rno (.node cur) m := rfl
  rw [hnd]
  rcases fits_leaf_cases q ps m vid hf hq with ⟨v, hv⟩ | hc
  · rw [getPath_updDict_leaf sko rno v q (.node cur) m hm hv, writable_of_getPath_leaf sko rno q (.node cur) y hy, hv, hy]
    simp only []
    cases (y.isNone || !rno) <;> rfl
  · rw [getPath_updDict_untouched sko rno q (.node cur) m hm hc, getPath_eq_none_of_not_covers q (.node m) hc, hy]

/-- what is read at the plain property `q` after an accepted `X.update(…, _replace_None_only=rno)` with fitting nested
argument `m`, `X` the sub-object at `p`: below `p`, where `m` has a value and (if `rno`) None was read before, the
setter's image of it; everywhere else what was read before -/
def updReadR (T : Tables) (rno : Bool) (p q : List Key) (m : Dict) (vid : Nat) (base : Except Kind Tree) : Except Kind Tree :=
  if p.isPrefixOf q then
    match getPath (.node m) (q.drop p.length) with
    | some (.leaf v) =>
      if !rno || (match base with | .ok (.leaf none) => true | _ => false) then setR T vid (.leaf v) base else base
    | _ => base
  else base

theorem updateObj_fits_read_rno (T : Tables) (ps : List (Key × Schema)) (os : List Str) (cur : Dict) (arg : Option Tree) (kwargs : Dict)
    (mt rno : Bool) (m : Dict) (hm : updArg arg kwargs = .ok m) (hfit : fitsKids ps m = true) (hmw : StyleNested.wfKids m = true)
    (hok : okProps ps = true) (hok2 : okProps2 ps = true) (hnd : nodupK ps = true) (hw : wfKids (fixB T) ps cur = true)
    (hacc : (updateObj T ps os cur arg kwargs mt rno).2 = .ok ()) (q : List Key) (vid : Nat) (hq : leafVid ps q = some vid) :
    readPath ps (updateObj T ps os cur arg kwargs mt rno).1 q = updReadR T rno [] q m vid (readPath ps cur q) := by
  have hsh := wfKids_shaped (fixB T) ps cur hw
  have hnds := updLoop_shaped_rno (!mt) rno m ps cur hfit hsh
  have hsa := setAllS_shaped T ps os ps [] cur (updLoop (!mt) rno cur m) (fun _ _ h => h) hnd (fun _ _ => rfl) hnds hsh
  rw [updateObj_eq, hm] at hacc ⊢
  simp only [] at hacc ⊢
  simp only [List.nil_append] at hsa
  cases hn : normKids T ps (updLoop (!mt) rno cur m) with
  | error e =>
    rw [hn] at hsa
    simp only [] at hsa hacc
    rcases hs : setAllS T ps os cur (updLoop (!mt) rno cur m) with ⟨c, r⟩
    rw [hs] at hsa hacc
    simp only [] at hsa
    subst hsa
    simp only [] at hacc
    cases hacc
  | ok out =>
    rw [hn] at hsa
    simp only [] at hsa
    rw [hsa]
    simp only []
    obtain ⟨x, x', g1, g2, g3⟩ := read_normKids T q ps _ out vid hok hok2 hnds hn hq
    obtain ⟨y, hy1, hy2, hy3⟩ := read_wf (fixB T) q ps cur vid hw hq
    rw [getPath_updLoop_fits_rno (!mt) rno ps cur m q vid y hsh hfit hmw hq hy1] at g1
    have hold : some (Tree.leaf y) = some (Tree.leaf x) → readPath ps out q = readPath ps cur q := by
      intro h
      injection h with h
      injection h with h
      subst h
      rw [runV_of_fixB hy3] at g2
      injection g2 with g2
      rw [g3, hy2, g2]
    unfold updReadR
    simp only [List.isPrefixOf, List.length_nil, List.drop_zero, if_true]
    rw [hy2]
    cases hg : getPath (.node m) q with
    | none => rw [hg] at g1; rw [hold g1, hy2]
    | some t =>
      cases t with
      | node kv => rw [hg] at g1; rw [hold g1, hy2]
      | leaf v =>
        rw [hg] at g1
        simp only [] at g1 ⊢
        cases rno with
        | false =>
          simp only [Bool.not_false, Bool.or_true, if_true] at g1
          injection g1 with g1
          injection g1 with g1
          subst g1
          simp [setR, g2, g3]
        | true =>
          cases y with
          | none =>
            simp only [Option.isNone_none, Bool.true_or, if_true] at g1
            injection g1 with g1
            injection g1 with g1
            subst g1
            simp [setR, g2, g3]
          | some n =>
            simp only [Option.isNone_some, Bool.not_true, Bool.or_false, Bool.false_eq_true, if_false] at g1
            rw [hold g1, hy2]
            simp

theorem update_at_read_rno (T : Tables) (ps : List (Key × Schema)) (os : List Str) (tree : Dict) (p : List Key) (arg : Option Tree)
    (kwargs : Dict) (mt rno : Bool) (m : Dict) (hm : updArg arg kwargs = .ok m) (ps' : List (Key × Schema))
    (hp : propsAt ps p = some ps') (hfit : fitsKids ps' m = true) (hmw : StyleNested.wfKids m = true)
    (hok : okProps ps = true) (hok2 : okProps2 ps = true) (hnd : nodupK ps = true) (hw : wfKids (fixB T) ps tree = true)
    (hacc : (atPath (fun ps' os' c' => updateObj T ps' os' c' arg kwargs mt rno) ps os tree p).2 = .ok ())
    (q : List Key) (vid : Nat) (hq : leafVid ps q = some vid) :
    readPath ps (atPath (fun ps' os' c' => updateObj T ps' os' c' arg kwargs mt rno) ps os tree p).1 q =
      updReadR T rno p q m vid (readPath ps tree q) := by
  by_cases hpre : p.isPrefixOf q = true
  · have hpq : p ++ q.drop p.length = q := List.prefix_iff_eq_append.mp (List.isPrefixOf_iff_prefix.mp hpre)
    obtain ⟨ps1, os1, c1, hsub, hacc1⟩ := atPath_ok_elim _ p ps os tree hacc
    have hps : ps1 = ps' := by
      have := propsAt_of_subObj p ps os tree ps1 os1 c1 hsub
      rw [hp] at this
      injection this with this
      exact this.symm
    subst hps
    obtain ⟨g1, g2, g3, g4, g5⟩ := subObj_facts (fixB T) p ps os tree ps1 os1 c1 hsub hok hok2 hnd hw
    have hq' : leafVid ps1 (q.drop p.length) = some vid := g5 _ vid (by rw [hpq]; exact hq)
    have hin := atPath_read_inside (fun ps' os' c' => updateObj T ps' os' c' arg kwargs mt rno) p ps os tree ps1 os1 c1
      (q.drop p.length) hsub
    rw [hpq] at hin
    have hbase : readPath ps tree q = readPath ps1 c1 (q.drop p.length) := by
      have := subObj_read (fixB T) p ps os tree ps1 os1 c1 (q.drop p.length) hsub
      rw [hpq] at this
      exact this
    rw [hin, hbase, updateObj_fits_read_rno T ps1 os1 c1 arg kwargs mt rno m hm hfit hmw g1 g2 g3 g4 hacc1 (q.drop p.length) vid hq']
    unfold updReadR
    simp [hpre]
  · unfold updReadR
    simp only [hpre, Bool.false_eq_true, if_false]
    exact atPath_read_outside _ p ps os tree q vid hq (fun h => hpre (List.isPrefixOf_iff_prefix.mpr h))

/-! ### an attribute assignment at a path, of any kind -/

/-- `X.k = val` (`X` the sub-object at `p`) seen from the plain property `q` of the object: computed from the class
structure and the assignment alone -/
def assignRead (T : Tables) (vid : Nat) (ps : List (Key × Schema)) (p : List Key) (k : Key) (val : Tree) (q : List Key)
    (b : Except Kind Tree) : Except Kind Tree :=
  if p.isPrefixOf q then
    match propsAt ps p with
    | some ps' => attrRead T vid ps' k val (q.drop p.length) b
    | none => b
  else b

/-- **an accepted attribute assignment of ANY kind — a value for a plain property, a dict / None / a string for a
sub-object, the deprecated alias — at any depth, seen from any plain property of the object** -/
theorem assign_at_read (T : Tables) (ps : List (Key × Schema)) (os : List Str) (tree : Dict) (p : List Key) (k : Key) (val : Tree)
    (hok : okProps ps = true) (hok2 : okProps2 ps = true) (hnd : nodupK ps = true) (hw : wfKids (fixB T) ps tree = true)
    (hacc : (atPath (assignOp T k val) ps os tree p).2 = .ok ())
    (q : List Key) (vid : Nat) (hq : leafVid ps q = some vid) :
    readPath ps (atPath (assignOp T k val) ps os tree p).1 q = assignRead T vid ps p k val q (readPath ps tree q) := by
  unfold assignRead
  by_cases hpre : p.isPrefixOf q = true
  · have hpq : p ++ q.drop p.length = q := List.prefix_iff_eq_append.mp (List.isPrefixOf_iff_prefix.mp hpre)
    obtain ⟨ps1, os1, c1, hsub, hacc1⟩ := atPath_ok_elim _ p ps os tree hacc
    have hp := propsAt_of_subObj p ps os tree ps1 os1 c1 hsub
    obtain ⟨g1, g2, g3, g4, g5⟩ := subObj_facts (fixB T) p ps os tree ps1 os1 c1 hsub hok hok2 hnd hw
    have hq' : leafVid ps1 (q.drop p.length) = some vid := g5 _ vid (by rw [hpq]; exact hq)
    have hin := atPath_read_inside (assignOp T k val) p ps os tree ps1 os1 c1 (q.drop p.length) hsub
    rw [hpq] at hin
    have hbase : readPath ps tree q = readPath ps1 c1 (q.drop p.length) := by
      have := subObj_read (fixB T) p ps os tree ps1 os1 c1 (q.drop p.length) hsub
      rw [hpq] at this
      exact this
    simp only [hpre, if_true, hp]
    rw [hin, hbase]
    unfold assignOp at hacc1 ⊢
    cases hs : setAttr T ps1 os1 c1 k val with
    | error e => rw [hs] at hacc1; cases hacc1
    | ok c' =>
      simp only []
      exact setAttr_read T ps1 g1 os1 c1 k val c' hs (q.drop p.length) vid hq'
  · simp only [hpre, Bool.false_eq_true, if_false]
    exact atPath_read_outside _ p ps os tree q vid hq (fun h => hpre (List.isPrefixOf_iff_prefix.mpr h))

/-! ### the output of `magic_to_dict` has pairwise different keys at every level -/

theorem mapValsM_wf {f : Dict → Except Err Dict} (hf : ∀ kd r, f kd = .ok r → StyleNested.wfKids r = true) :
    ∀ (G R : Dict), mapValsM f G = .ok R → nodupK G = true → StyleNested.wfKids R = true := by
  intro G
  induction G with
  | nil => intro R h _; simp only [mapValsM_nil, Except.ok.injEq] at h; subst h; rfl
  | cons hd t ih =>
    intro R h hnd
    obtain ⟨k', v'⟩ := hd
    rw [nodupK_cons] at hnd
    simp only [Bool.and_eq_true, Option.isNone_iff_eq_none] at hnd
    cases v' with
    | leaf lv =>
      rw [mapValsM_cons_leaf] at h
      cases ht : mapValsM f t with
      | error e => rw [ht] at h; cases h
      | ok rs =>
        rw [ht] at h; simp only [Except.ok.injEq] at h; subst h
        rw [StyleNested.wfKids_cons]
        simp only [Bool.and_eq_true, Option.isNone_iff_eq_none]
        exact ⟨⟨(mapValsM_lookup_none ht k').mpr hnd.1, rfl⟩, ih rs ht hnd.2⟩
    | node kv =>
      rw [mapValsM_cons_node] at h
      cases hfk : f kv with
      | error e => rw [hfk] at h; cases h
      | ok r1 =>
        rw [hfk] at h; simp only [] at h
        cases ht : mapValsM f t with
        | error e => rw [ht] at h; cases h
        | ok rs =>
          rw [ht] at h; simp only [Except.ok.injEq] at h; subst h
          rw [StyleNested.wfKids_cons]
          simp only [Bool.and_eq_true, Option.isNone_iff_eq_none]
          exact ⟨⟨(mapValsM_lookup_none ht k').mpr hnd.1, by simpa [Tree.wf] using hf kv r1 hfk⟩, ih rs ht hnd.2⟩

theorem magicStep_nodup (sep : Char) (acc : Dict) (k : Key) (v : Tree) (a : Dict) (h : magicStep sep acc k v = .ok a)
    (hn : nodupK acc = true) : nodupK a = true := by
  unfold magicStep at h
  split at h
  · cases h
  · split at h
    · injection h with h; subst h; exact hn
    · injection h with h; subst h; exact nodupK_setKey _ _ hn
    · simp only [] at h
      split at h
      · injection h with h; subst h; exact nodupK_setKey _ _ hn
      · injection h with h; subst h; exact nodupK_setKey _ _ hn

theorem magicLoop_nodup (sep : Char) : ∀ (kw acc g : Dict), magicLoop sep acc kw = .ok g → nodupK acc = true → nodupK g = true := by
  intro kw
  induction kw with
  | nil => intro acc g h hn; rw [magicLoop_nil] at h; injection h with h; subst h; exact hn
  | cons hd t ih =>
    obtain ⟨k, v⟩ := hd
    intro acc g h hn
    rw [magicLoop_cons] at h
    cases hs : magicStep sep acc k v with
    | error e => rw [hs] at h; cases h
    | ok a => rw [hs] at h; exact ih a g h (magicStep_nodup sep acc k v a hs hn)

theorem magicFuel_wf (sep : Char) : ∀ (n : Nat) (kw r : Dict), magicFuel sep n kw = .ok r → StyleNested.wfKids r = true := by
  intro n
  induction n with
  | zero => intro kw r h; simp [magicFuel] at h
  | succ n ih =>
    intro kw r h
    rw [magicFuel_succ] at h
    cases hg : magicLoop sep [] kw with
    | error e => rw [hg] at h; cases h
    | ok g =>
      rw [hg] at h
      exact mapValsM_wf (fun kd r' h' => ih kd r' h') g r h (magicLoop_nodup sep kw [] g hg rfl)

/-- **the parsed argument of an `update` has pairwise different keys at every level** -/
theorem updArg_wf (arg : Option Tree) (kwargs : Dict) (m : Dict) (h : updArg arg kwargs = .ok m) : StyleNested.wfKids m = true := by
  have key : ∀ (kw : Dict), (match magicToDict '_' (.node kw) with
      | .ok (.node m) => (.ok m : Except Kind Dict)
      | .ok (.leaf _) => .error .attribute
      | .error e => .error (.ofErr e)) = .ok m → StyleNested.wfKids m = true := by
    intro kw h
    simp only [magicToDict] at h
    cases hf : magicFuel '_' (weightKids '_' kw + 1) kw with
    | error e => rw [hf] at h; cases h
    | ok r =>
      rw [hf] at h
      simp only [] at h
      injection h with h
      subst h
      exact magicFuel_wf '_' _ kw r hf
  unfold updArg at h
  cases arg with
  | none => exact key _ h
  | some a =>
    cases a with
    | leaf v => cases h
    | node ka => exact key _ h

/-! ### `_match_properties=False`: keys that are not properties are ignored -/

mutual
/-- as `fitsVal`, below a key also `fitsKidsS` -/
def fitsValS (sko : Bool) : Schema → Tree → Bool
  | .leaf _, .leaf _ => true
  | .leaf _, .node _ => false
  | .alias _, _ => false
  | .obj ps _ _ _ _, .node m => fitsKidsS sko ps m
  | .obj _ _ _ _ _, .leaf _ => false
/-- every key is a (non-alias) property and its value fits it — or, with `same_keys_only` (`_match_properties=False`), is
no property at all (then `update_nested_dict` drops it, whatever its value) -/
def fitsKidsS (sko : Bool) : List (Key × Schema) → Dict → Bool
  | _, [] => true
  | ps, (k, v) :: r => (match lookup k ps with | some s => fitsValS sko s v | none => sko) && fitsKidsS sko ps r
end

theorem fitsKidsS_cons (sko : Bool) (ps : List (Key × Schema)) (k : Key) (v : Tree) (r : Dict) :
    fitsKidsS sko ps ((k, v) :: r) = ((match lookup k ps with | some s => fitsValS sko s v | none => sko) && fitsKidsS sko ps r) := by
  rw [fitsKidsS]

theorem fitsKidsS_lookup {sko : Bool} {ps : List (Key × Schema)} {k : Key} {v : Tree} {s : Schema} (hs : lookup k ps = some s) :
    ∀ {m : Dict}, fitsKidsS sko ps m = true → lookup k m = some v → fitsValS sko s v = true := by
  intro m
  induction m with
  | nil => intro _ h; simp at h
  | cons hd t ih =>
    obtain ⟨k', v'⟩ := hd
    intro hf hl
    rw [fitsKidsS_cons] at hf
    simp only [Bool.and_eq_true] at hf
    by_cases hk : k' = k
    · simp only [lookup_cons, hk, if_true, Option.some.injEq] at hl
      subst hl; subst hk
      rw [hs] at hf
      exact hf.1
    · simp only [lookup_cons, hk, if_false] at hl
      exact ih hf.2 hl

mutual
theorem updVal_shapedS (sko rno : Bool) : ∀ (v : Tree) (s : Schema) (cv : Tree), fitsValS sko s v = true → wfVal anyLeaf s cv = true →
    updVal sko rno (some cv) v = none ∨ ∃ r, updVal sko rno (some cv) v = some r ∧ wfVal anyLeaf s r = true
  | .leaf x, s, cv, hf, hc => by
    cases s with
    | leaf vid =>
      by_cases h : (isNoneOrMissing (some cv) || !rno) = true
      · exact .inr ⟨.leaf x, by simp [updVal, h], by rw [wfVal]; rfl⟩
      · exact .inl (by simp [updVal, h])
    | alias t => rw [fitsValS] at hf; cases hf
    | obj a b c d e => rw [fitsValS] at hf; cases hf
  | .node mk, s, cv, hf, hc => by
    cases s with
    | leaf vid => rw [fitsValS] at hf; cases hf
    | alias t => rw [fitsValS] at hf; cases hf
    | obj ps a b c d =>
      rw [fitsValS] at hf
      obtain ⟨ck, rfl, hck⟩ := wfVal_obj_elim hc
      refine .inr ⟨.node (updLoop sko rno ck mk), ?_, ?_⟩
      · rw [updVal_node]; simp [updDict]
      · rw [wfVal]; exact updLoop_shapedS sko rno mk ps ck hf hck
theorem updLoop_shapedS (sko rno : Bool) : ∀ (m : Dict) (ps : List (Key × Schema)) (acc : Dict), fitsKidsS sko ps m = true →
    wfKids anyLeaf ps acc = true → wfKids anyLeaf ps (updLoop sko rno acc m) = true
  | [], ps, acc, _, h => by rw [updLoop_nil]; exact h
  | (k, v) :: r, ps, acc, hf, h => by
    rw [fitsKidsS_cons] at hf
    simp only [Bool.and_eq_true] at hf
    cases hs : lookup k ps with
    | none =>
      rw [hs] at hf
      have hsko : sko = true := hf.1
      subst hsko
      have hka : lookup k acc = none := wfKids_lookup_none anyLeaf k ps acc h hs
      have hn : updVal true rno (lookup k acc) v = none := by
        rw [hka]
        cases v with
        | leaf x => simp [updVal]
        | node kv => rw [updVal_node]; simp
      rw [updLoop_cons, hn]
      exact updLoop_shapedS true rno r ps acc hf.2 h
    | some s =>
      rw [hs] at hf
      have hna : s.isAlias = false := by
        cases s with
        | leaf v' => rfl
        | obj a b c d e => rfl
        | alias t => have h1 := hf.1; cases v <;> simp [fitsValS] at h1
      obtain ⟨cv, hcv1, hcv2⟩ := wfKids_lookup anyLeaf k s hna ps acc h hs
      rw [updLoop_cons, hcv1]
      rcases updVal_shapedS sko rno v s cv hf.1 hcv2 with hn | ⟨r', hr1, hr2⟩
      · rw [hn]
        exact updLoop_shapedS sko rno r ps acc hf.2 h
      · rw [hr1]
        simp only []
        exact updLoop_shapedS sko rno r ps _ hf.2 (wfKids_setKey anyLeaf k s r' hr2 ps acc h hs)
end

theorem fitsValS_leaf_elim {sko : Bool} {vid : Nat} {t : Tree} (h : fitsValS sko (.leaf vid) t = true) : ∃ v, t = .leaf v := by
  cases t with
  | leaf v => exact ⟨v, rfl⟩
  | node kv => rw [fitsValS] at h; cases h

theorem fitsValS_obj_elim {sko : Bool} {ps : List (Key × Schema)} {a : List Str} {b : Option Key} {c : List (Key × Option Val)} {d : Bool} {t : Tree}
    (h : fitsValS sko (.obj ps a b c d) t = true) : ∃ m, t = .node m ∧ fitsKidsS sko ps m = true := by
  cases t with
  | leaf v => rw [fitsValS] at h; cases h
  | node m => rw [fitsValS] at h; exact ⟨m, rfl, h⟩

theorem fits_leaf_casesS (sko : Bool) : ∀ (q : List Key) (ps : List (Key × Schema)) (m : Dict) (vid : Nat), fitsKidsS sko ps m = true →
    leafVid ps q = some vid → (∃ v, getPath (.node m) q = some (.leaf v)) ∨ covers (.node m) q = false
  | [], ps, m, vid, _, hq => by simp [leafVid] at hq
  | k :: ks, ps, m, vid, hf, hq => by
    rcases leafVid_head hq with ⟨rfl, hk⟩ | ⟨ps1, os1, sh, ct, vk, hne, hk, hq'⟩
    · cases hm : lookup k m with
      | none => exact .inr (by simp [covers_node_cons, hm])
      | some t =>
        obtain ⟨v, rfl⟩ := fitsValS_leaf_elim (fitsKidsS_lookup hk hf hm)
        exact .inl ⟨v, by simp [getPath, hm]⟩
    · cases hm : lookup k m with
      | none => exact .inr (by simp [covers_node_cons, hm])
      | some t =>
        obtain ⟨m1, rfl, hm1⟩ := fitsValS_obj_elim (fitsKidsS_lookup hk hf hm)
        rcases fits_leaf_casesS sko ks ps1 m1 vid hm1 hq' with ⟨v, hv⟩ | hc
        · exact .inl ⟨v, by simp only [getPath, hm]; exact hv⟩
        · exact .inr (by simp only [covers_node_cons, hm]; exact hc)

theorem getPath_updLoop_fitsS (sko rno : Bool) (ps : List (Key × Schema)) (cur m : Dict) (q : List Key) (vid : Nat) (y : Option Val)
    (hf : fitsKidsS sko ps m = true) (hm : StyleNested.wfKids m = true)
    (hq : leafVid ps q = some vid) (hy : getPath (.node cur) q = some (.leaf y)) :
    getPath (.node (updLoop sko rno cur m)) q =
      match getPath (.node m) q with
      | some (.leaf v) => if (y.isNone || !rno) = true then some (.leaf v) else some (.leaf y)
      | _ => some (.leaf y) := by
  have hnd : Tree.node (updLoop sko rno cur m) = updDict sko rno (.node cur) m := rfl
  rw [hnd]
  rcases fits_leaf_casesS sko q ps m vid hf hq with ⟨v, hv⟩ | hc
  · rw [getPath_updDict_leaf sko rno v q (.node cur) m hm hv, writable_of_getPath_leaf sko rno q (.node cur) y hy, hv, hy]
    simp only []
    cases (y.isNone || !rno) <;> rfl
  · rw [getPath_updDict_untouched sko rno q (.node cur) m hm hc, getPath_eq_none_of_not_covers q (.node m) hc, hy]

/-- `updateObj_fits_read_rno` with keys that are no properties allowed under `_match_properties=False` -/
theorem updateObj_fits_readS (T : Tables) (ps : List (Key × Schema)) (os : List Str) (cur : Dict) (arg : Option Tree) (kwargs : Dict)
    (mt rno : Bool) (m : Dict) (hm : updArg arg kwargs = .ok m) (hfit : fitsKidsS (!mt) ps m = true)
    (hok : okProps ps = true) (hok2 : okProps2 ps = true) (hnd : nodupK ps = true) (hw : wfKids (fixB T) ps cur = true)
    (hacc : (updateObj T ps os cur arg kwargs mt rno).2 = .ok ()) (q : List Key) (vid : Nat) (hq : leafVid ps q = some vid) :
    readPath ps (updateObj T ps os cur arg kwargs mt rno).1 q = updReadR T rno [] q m vid (readPath ps cur q) := by
  have hmw := updArg_wf arg kwargs m hm
  have hsh := wfKids_shaped (fixB T) ps cur hw
  have hnds := updLoop_shapedS (!mt) rno m ps cur hfit hsh
  have hsa := setAllS_shaped T ps os ps [] cur (updLoop (!mt) rno cur m) (fun _ _ h => h) hnd (fun _ _ => rfl) hnds hsh
  rw [updateObj_eq, hm] at hacc ⊢
  simp only [] at hacc ⊢
  simp only [List.nil_append] at hsa
  cases hn : normKids T ps (updLoop (!mt) rno cur m) with
  | error e =>
    rw [hn] at hsa
    simp only [] at hsa hacc
    rcases hs : setAllS T ps os cur (updLoop (!mt) rno cur m) with ⟨c, r⟩
    rw [hs] at hsa hacc
    simp only [] at hsa
    subst hsa
    simp only [] at hacc
    cases hacc
  | ok out =>
    rw [hn] at hsa
    simp only [] at hsa
    rw [hsa]
    simp only []
    obtain ⟨x, x', g1, g2, g3⟩ := read_normKids T q ps _ out vid hok hok2 hnds hn hq
    obtain ⟨y, hy1, hy2, hy3⟩ := read_wf (fixB T) q ps cur vid hw hq
    rw [getPath_updLoop_fitsS (!mt) rno ps cur m q vid y hfit hmw hq hy1] at g1
    have hold : some (Tree.leaf y) = some (Tree.leaf x) → readPath ps out q = readPath ps cur q := by
      intro h
      injection h with h
      injection h with h
      subst h
      rw [runV_of_fixB hy3] at g2
      injection g2 with g2
      rw [g3, hy2, g2]
    unfold updReadR
    simp only [List.isPrefixOf, List.length_nil, List.drop_zero, if_true]
    rw [hy2]
    cases hg : getPath (.node m) q with
    | none => rw [hg] at g1; rw [hold g1, hy2]
    | some t =>
      cases t with
      | node kv => rw [hg] at g1; rw [hold g1, hy2]
      | leaf v =>
        rw [hg] at g1
        simp only [] at g1 ⊢
        cases rno with
        | false =>
          simp only [Bool.not_false, Bool.or_true, if_true] at g1
          injection g1 with g1
          injection g1 with g1
          subst g1
          simp [setR, g2, g3]
        | true =>
          cases y with
          | none =>
            simp only [Option.isNone_none, Bool.true_or, if_true] at g1
            injection g1 with g1
            injection g1 with g1
            subst g1
            simp [setR, g2, g3]
          | some n =>
            simp only [Option.isNone_some, Bool.not_true, Bool.or_false, Bool.false_eq_true, if_false] at g1
            rw [hold g1, hy2]
            simp

theorem update_at_readS (T : Tables) (ps : List (Key × Schema)) (os : List Str) (tree : Dict) (p : List Key) (arg : Option Tree)
    (kwargs : Dict) (mt rno : Bool) (m : Dict) (hm : updArg arg kwargs = .ok m) (ps' : List (Key × Schema))
    (hp : propsAt ps p = some ps') (hfit : fitsKidsS (!mt) ps' m = true)
    (hok : okProps ps = true) (hok2 : okProps2 ps = true) (hnd : nodupK ps = true) (hw : wfKids (fixB T) ps tree = true)
    (hacc : (atPath (fun ps' os' c' => updateObj T ps' os' c' arg kwargs mt rno) ps os tree p).2 = .ok ())
    (q : List Key) (vid : Nat) (hq : leafVid ps q = some vid) :
    readPath ps (atPath (fun ps' os' c' => updateObj T ps' os' c' arg kwargs mt rno) ps os tree p).1 q =
      updReadR T rno p q m vid (readPath ps tree q) := by
  by_cases hpre : p.isPrefixOf q = true
  · have hpq : p ++ q.drop p.length = q := List.prefix_iff_eq_append.mp (List.isPrefixOf_iff_prefix.mp hpre)
    obtain ⟨ps1, os1, c1, hsub, hacc1⟩ := atPath_ok_elim _ p ps os tree hacc
    have hps : ps1 = ps' := by
      have := propsAt_of_subObj p ps os tree ps1 os1 c1 hsub
      rw [hp] at this
      injection this with this
      exact this.symm
    subst hps
    obtain ⟨g1, g2, g3, g4, g5⟩ := subObj_facts (fixB T) p ps os tree ps1 os1 c1 hsub hok hok2 hnd hw
    have hq' : leafVid ps1 (q.drop p.length) = some vid := g5 _ vid (by rw [hpq]; exact hq)
    have hin := atPath_read_inside (fun ps' os' c' => updateObj T ps' os' c' arg kwargs mt rno) p ps os tree ps1 os1 c1
      (q.drop p.length) hsub
    rw [hpq] at hin
    have hbase : readPath ps tree q = readPath ps1 c1 (q.drop p.length) := by
      have := subObj_read (fixB T) p ps os tree ps1 os1 c1 (q.drop p.length) hsub
      rw [hpq] at this
      exact this
    rw [hin, hbase, updateObj_fits_readS T ps1 os1 c1 arg kwargs mt rno m hm hfit g1 g2 g3 g4 hacc1 (q.drop p.length) vid hq']
    unfold updReadR
    simp [hpre]
  · unfold updReadR
    simp only [hpre, Bool.false_eq_true, if_false]
    exact atPath_read_outside _ p ps os tree q vid hq (fun h => hpre (List.isPrefixOf_iff_prefix.mpr h))

/-- a fitting dictionary also fits in the wider sense -/
theorem fitsKidsS_of_fits (sko : Bool) : ∀ (ps : List (Key × Schema)) (m : Dict), fitsKids ps m = true → fitsKidsS sko ps m = true := by
  have hv : ∀ (n : Nat) (s : Schema) (v : Tree), sizeOf v ≤ n → fitsVal s v = true → fitsValS sko s v = true := by
    intro n
    induction n with
    | zero => intro s v hs; cases v <;> simp at hs <;> omega
    | succ n ih =>
      intro s v hs h
      cases s with
      | leaf vid => cases v with
        | leaf x => rw [fitsValS]
        | node kv => rw [fitsVal] at h; cases h
      | alias t => rw [fitsVal] at h; cases h
      | obj ps a b c d =>
        cases v with
        | leaf x => rw [fitsVal] at h; cases h
        | node kv =>
          rw [fitsVal] at h
          rw [fitsValS]
          have hsz : ∀ kv' : Dict, sizeOf kv' ≤ n → fitsKids ps kv' = true → fitsKidsS sko ps kv' = true := by
            intro kv'
            induction kv' with
            | nil => intro _ _; rw [fitsKidsS]
            | cons hd t iht =>
              obtain ⟨k, v'⟩ := hd
              intro hsz hf
              rw [fitsKids_cons] at hf
              rw [fitsKidsS_cons]
              simp only [Bool.and_eq_true] at hf ⊢
              simp only [List.cons.sizeOf_spec, Prod.mk.sizeOf_spec] at hsz
              refine ⟨?_, iht (by omega) hf.2⟩
              cases hl : lookup k ps with
              | none => rw [hl] at hf; cases hf.1
              | some s' => rw [hl] at hf; exact ih s' v' (by omega) hf.1
          apply hsz kv _ h
          simp only [Tree.node.sizeOf_spec] at hs
          omega
  intro ps m
  induction m with
  | nil => intro _; rw [fitsKidsS]
  | cons hd t iht =>
    obtain ⟨k, v⟩ := hd
    intro hf
    rw [fitsKids_cons] at hf
    rw [fitsKidsS_cons]
    simp only [Bool.and_eq_true] at hf ⊢
    refine ⟨?_, iht hf.2⟩
    cases hl : lookup k ps with
    | none => rw [hl] at hf; cases hf.1
    | some s' => rw [hl] at hf; exact hv _ s' v (Nat.le_refl _) hf.1

end MagpyVerif.StyleState
