/- helper lemmas for C18 on the attributed forest (Model/ForestAttr.lean): heap well-formedness (`WF`: no container
is held twice), the frame relation `Keeps` (which containers / records an operation leaves alone), the three primitive
writes, the path / style / copy operations built from them, and the frame lemmas of the tree operations -/
import Mathlib.Tactic
import MagpyVerif.Model.ForestAttr
import MagpyVerif.Lemmas.Copy
namespace MagpyVerif

namespace Forest
namespace C18aux
/-- (from `copy_leaves_original`) -/
theorem copy_old (s : Forest) (o j : Nat) (hj : j < s.n) :
    (s.copy o).parent j = s.parent j ∧ (s.copy o).children j = s.children j ∧
    (s.copy o).srcs j = s.srcs j ∧ (s.copy o).sens j = s.sens j ∧ (s.copy o).colls j = s.colls j ∧
    (s.copy o).kind j = s.kind j := by
  have h : ¬ s.n ≤ j := by omega
  simp [copy, h]

/-- parents of clones are clones -/
theorem copy_links (s : Forest) (_hi : s.Inv) (o : Nat) :
    True ∧ (∀ j, IsNew s o j → ∀ p, (s.copy o).parent j = some p → s.n ≤ p) := by
  refine ⟨trivial, ?_⟩
  intro j hj p hp
  rw [copy_parent, if_pos hj] at hp
  split at hp
  · cases hp
  · cases hpar : s.parent (s.csrc o j) with
    | none => rw [hpar] at hp; cases hp
    | some q =>
      rw [hpar] at hp
      simp only [Option.map_some, Option.some.injEq] at hp
      rw [← hp]; exact cren_ge s o q
end C18aux
end Forest

namespace AForest
open Forest

/-- heap well-formedness: every container held by an existing object lies below `next` (so a fresh address is
new), and no container is held twice — neither by two objects nor in two slots of one object -/
structure WF (s : AForest) : Prop where
  bound : ∀ i sl a, i < s.f.n → (s.na i).adr sl = some a → a < s.next
  inj : ∀ i j sl tl a, i < s.f.n → j < s.f.n → (s.na i).adr sl = some a → (s.na j).adr tl = some a →
    i = j ∧ sl = tl

/-- `t` keeps the containers `(j, sl)` with `P j sl` (same address, same content) and the immutable data of the
objects `j` with `M j` — of the objects that exist in `s` -/
structure Keeps (P : Nat → Slot → Prop) (M : Nat → Prop) (s t : AForest) : Prop where
  n_le : s.f.n ≤ t.f.n
  next_le : s.next ≤ t.next
  adr_eq : ∀ j sl, P j sl → j < s.f.n → (t.na j).adr sl = (s.na j).adr sl
  heap_eq : ∀ j sl a, P j sl → j < s.f.n → (s.na j).adr sl = some a → t.heap a = s.heap a
  meta_eq : ∀ j, M j → j < s.f.n →
    (t.na j).cls = (s.na j).cls ∧ (t.na j).scal = (s.na j).scal ∧ (t.na j).skw = (s.na j).skw

theorem Keeps.refl (P M) (s : AForest) : Keeps P M s s :=
  ⟨le_refl _, le_refl _, fun _ _ _ _ => rfl, fun _ _ _ _ _ _ => rfl, fun _ _ _ => ⟨rfl, rfl, rfl⟩⟩

theorem Keeps.trans {P M} {s t u : AForest} (h1 : Keeps P M s t) (h2 : Keeps P M t u) : Keeps P M s u := by
  refine ⟨le_trans h1.n_le h2.n_le, le_trans h1.next_le h2.next_le, ?_, ?_, ?_⟩
  · intro j sl hp hj
    rw [h2.adr_eq j sl hp (lt_of_lt_of_le hj h1.n_le), h1.adr_eq j sl hp hj]
  · intro j sl a hp hj ha
    rw [h2.heap_eq j sl a hp (lt_of_lt_of_le hj h1.n_le) (by rw [h1.adr_eq j sl hp hj]; exact ha),
      h1.heap_eq j sl a hp hj ha]
  · intro j hm hj
    obtain ⟨a1, a2, a3⟩ := h1.meta_eq j hm hj
    obtain ⟨b1, b2, b3⟩ := h2.meta_eq j hm (lt_of_lt_of_le hj h1.n_le)
    exact ⟨b1.trans a1, b2.trans a2, b3.trans a3⟩

theorem Keeps.mono {P P' : Nat → Slot → Prop} {M M' : Nat → Prop} {s t : AForest} (h : Keeps P M s t)
    (hp : ∀ j sl, P' j sl → P j sl) (hm : ∀ j, M' j → M j) : Keeps P' M' s t :=
  ⟨h.n_le, h.next_le, fun j sl p hj => h.adr_eq j sl (hp j sl p) hj,
   fun j sl a p hj ha => h.heap_eq j sl a (hp j sl p) hj ha, fun j m hj => h.meta_eq j (hm j m) hj⟩

theorem Keeps.cellAt {P M} {s t : AForest} (h : Keeps P M s t) (j : Nat) (sl : Slot) (hp : P j sl) (hj : j < s.f.n) :
    t.cellAt j sl = s.cellAt j sl := by
  unfold AForest.cellAt
  rw [h.adr_eq j sl hp hj]
  cases ha : (s.na j).adr sl with
  | none => rfl
  | some a => simp only [Option.map_some]; rw [h.heap_eq j sl a hp hj ha]

/-- an attribute-level operation: the forest is not touched, well-formedness is kept, `P`/`M` are kept -/
structure Step (P : Nat → Slot → Prop) (M : Nat → Prop) (s t : AForest) : Prop where
  wf : WF t
  f_eq : t.f = s.f
  keeps : Keeps P M s t
  /-- the class of an object is never written -/
  cls_eq : ∀ j, (t.na j).cls = (s.na j).cls

theorem Step.refl (P M) (s : AForest) (hw : WF s) : Step P M s s := ⟨hw, rfl, Keeps.refl P M s, fun _ => rfl⟩

theorem Step.trans {P M} {s t u : AForest} (h1 : Step P M s t) (h2 : Step P M t u) : Step P M s u :=
  ⟨h2.wf, h2.f_eq.trans h1.f_eq, h1.keeps.trans h2.keeps, fun j => (h2.cls_eq j).trans (h1.cls_eq j)⟩

theorem Step.mono {P P' : Nat → Slot → Prop} {M M' : Nat → Prop} {s t : AForest} (h : Step P M s t)
    (hp : ∀ j sl, P' j sl → P j sl) (hm : ∀ j, M' j → M j) : Step P' M' s t :=
  ⟨h.wf, h.f_eq, h.keeps.mono hp hm, h.cls_eq⟩

/-! ### the primitive writes -/

theorem adr_setFresh (s : AForest) (i : Nat) (sl : Slot) (c : Cell) (j : Nat) (tl : Slot) :
    ((s.setFresh i sl c).na j).adr tl = if j = i ∧ tl = sl then some s.next else (s.na j).adr tl := by
  unfold setFresh
  by_cases hj : j = i
  · subst hj
    by_cases ht : tl = sl <;> simp [upd, ht]
  · simp [upd, hj]

theorem heap_setFresh (s : AForest) (i : Nat) (sl : Slot) (c : Cell) (a : Nat) :
    (s.setFresh i sl c).heap a = if a = s.next then c else s.heap a := rfl

theorem meta_setFresh (s : AForest) (i : Nat) (sl : Slot) (c : Cell) (j : Nat) :
    ((s.setFresh i sl c).na j).cls = (s.na j).cls ∧ ((s.setFresh i sl c).na j).scal = (s.na j).scal ∧
    ((s.setFresh i sl c).na j).skw = (s.na j).skw := by
  unfold setFresh
  by_cases hj : j = i
  · subst hj; simp [upd]
  · simp [upd, hj]

theorem setFresh_spec (s : AForest) (i : Nat) (sl : Slot) (c : Cell) (hw : WF s) :
    Step (fun j tl => ¬ (j = i ∧ tl = sl)) (fun _ => True) s (s.setFresh i sl c) ∧
    (s.setFresh i sl c).cellAt i sl = some c := by
  refine ⟨⟨⟨?_, ?_⟩, rfl, ⟨le_refl _, Nat.le_succ _, ?_, ?_, ?_⟩, fun j => (meta_setFresh s i sl c j).1⟩, ?_⟩
  · intro j tl a hj ha
    rw [adr_setFresh] at ha
    show a < s.next + 1
    split at ha
    · cases ha; omega
    · have := hw.bound j tl a hj ha; omega
  · intro j k tl ul a hj hk ha hb
    rw [adr_setFresh] at ha hb
    split at ha <;> split at hb
    · rename_i h1 h2; exact ⟨h1.1.trans h2.1.symm, h1.2.trans h2.2.symm⟩
    · cases ha; have := hw.bound k ul _ hk hb; omega
    · cases hb; have := hw.bound j tl _ hj ha; omega
    · exact hw.inj j k tl ul a hj hk ha hb
  · intro j tl hp _
    rw [adr_setFresh, if_neg hp]
  · intro j tl a _ hj ha
    rw [heap_setFresh]
    have := hw.bound j tl a hj ha
    rw [if_neg (by omega)]
  · intro j _ _; exact meta_setFresh s i sl c j
  · unfold AForest.cellAt
    rw [adr_setFresh, if_pos ⟨rfl, rfl⟩]
    simp [heap_setFresh]

theorem write_spec (s : AForest) (i : Nat) (sl : Slot) (c : Cell) (hw : WF s) (hi : i < s.f.n) :
    Step (fun j tl => ¬ (j = i ∧ tl = sl)) (fun _ => True) s (s.write i sl c) ∧
    (s.write i sl c).cellAt i sl = some c := by
  unfold write
  cases h : (s.na i).adr sl with
  | none => exact setFresh_spec s i sl c hw
  | some a =>
    refine ⟨⟨⟨hw.bound, hw.inj⟩, rfl, ⟨le_refl _, le_refl _, fun _ _ _ _ => rfl, ?_, fun _ _ _ => ⟨rfl, rfl, rfl⟩⟩, fun _ => rfl⟩, ?_⟩
    · intro j tl b hp hj hb
      show upd s.heap a c b = s.heap b
      rw [upd_other]
      intro hba
      subst hba
      exact hp (hw.inj j i tl sl b hj hi hb h)
    · show ((s.na i).adr sl).map (upd s.heap a c) = some c
      rw [h]; simp [upd]

theorem setMeta_spec (s : AForest) (i : Nat) (scal : List (Nat × Int)) (skw : SData) (hw : WF s) :
    Step (fun _ _ => True) (fun j => j ≠ i) s (s.setMeta i scal skw) ∧
    ((s.setMeta i scal skw).na i).cls = (s.na i).cls ∧ ((s.setMeta i scal skw).na i).scal = scal ∧
    ((s.setMeta i scal skw).na i).skw = skw := by
  have hadr : ∀ j, ((s.setMeta i scal skw).na j).adr = (s.na j).adr := by
    intro j
    unfold setMeta
    by_cases hj : j = i
    · subst hj; simp [upd]
    · simp [upd, hj]
  refine ⟨⟨⟨?_, ?_⟩, rfl, ⟨le_refl _, le_refl _, ?_, fun _ _ _ _ _ _ => rfl, ?_⟩, ?_⟩, ?_⟩
  · intro j tl a hj ha; rw [hadr] at ha; exact hw.bound j tl a hj ha
  · intro j k tl ul a hj hk ha hb; rw [hadr] at ha hb; exact hw.inj j k tl ul a hj hk ha hb
  · intro j tl _ _; rw [hadr]
  · intro j hj _
    unfold setMeta
    simp [upd, hj]
  · intro j
    unfold setMeta
    by_cases hj : j = i
    · subst hj; simp [upd]
    · simp [upd, hj]
  · unfold setMeta; simp [upd]

/-! ### folds -/

theorem foldl_step {P M} (Q : Nat → Prop) (f0 : Forest) (g : AForest → Nat → AForest)
    (hg : ∀ s i, s.f = f0 → WF s → i < f0.n → Q i → Step P M s (g s i)) :
    ∀ (l : List Nat) (s : AForest), s.f = f0 → WF s → (∀ i ∈ l, i < f0.n ∧ Q i) → Step P M s (l.foldl g s) := by
  intro l
  induction l with
  | nil => intro s _ hw _; exact Step.refl P M s hw
  | cons i l ih =>
    intro s hf hw hl
    have h1 := hg s i hf hw (hl i (by simp)).1 (hl i (by simp)).2
    have h2 := ih (g s i) (h1.f_eq.trans hf) h1.wf (fun j hj => hl j (by simp [hj]))
    exact h1.trans h2

/-- a set of objects that is closed under `children` contains the whole subtree of each of its members -/
theorem subtree_closed (f : Forest) (Q : Nat → Prop) (hcl : ∀ c y, Q c → y ∈ f.children c → Q y) :
    ∀ (k o : Nat), Q o → ∀ x ∈ f.subtree k o, Q x := by
  intro k
  induction k with
  | zero => intro o _ x hx; simp [subtree] at hx
  | succ k ih =>
    intro o ho x hx
    simp only [subtree, List.mem_cons, List.mem_flatMap] at hx
    rcases hx with rfl | ⟨y, hy, hxy⟩
    · exact ho
    · exact ih y (hcl o y ho hy) x hxy

/-! ### path operations -/

abbrev PathP (Q : Nat → Prop) : Nat → Slot → Prop := fun j tl => ¬ Q j ∨ (tl ≠ .pos ∧ tl ≠ .ori)

theorem moveOne_step (inp : PathIn AVec) (start : Option Int) (s : AForest) (i : Nat) (hw : WF s) (hi : i < s.f.n) :
    Step (PathP (· = i)) (fun _ => True) s (moveOne inp start s i) := by
  unfold moveOne
  simp only
  split
  · have h1 := (setFresh_spec s i .pos (.vecs (applyMove inp start (s.objOf i)).pos) hw).1
    have h2 := (setFresh_spec _ i .ori (.rots (applyMove inp start (s.objOf i)).ori) h1.wf).1
    refine (h1.mono ?_ (fun _ h => h)).trans (h2.mono ?_ (fun _ h => h))
    · rintro j tl (h | h) ⟨rfl, rfl⟩
      · exact h rfl
      · exact h.1 rfl
    · rintro j tl (h | h) ⟨rfl, rfl⟩
      · exact h rfl
      · exact h.2 rfl
  · refine (write_spec s i .pos _ hw hi).1.mono ?_ (fun _ h => h)
    rintro j tl (h | h) ⟨rfl, rfl⟩
    · exact h rfl
    · exact h.1 rfl

theorem rotOne_step (rot : PathIn ARot) (anchor : Option (PathIn AVec)) (start : Option Int) (pp : Option (List AVec))
    (s : AForest) (i : Nat) (hw : WF s) (hi : i < s.f.n) :
    Step (PathP (· = i)) (fun _ => True) s (rotOne rot anchor start pp s i) := by
  unfold rotOne
  simp only
  have hmono : ∀ (sl : Slot), (sl = .pos ∨ sl = .ori) → ∀ j tl, PathP (· = i) j tl → ¬ (j = i ∧ tl = sl) := by
    rintro sl hsl j tl (h | h) ⟨rfl, rfl⟩
    · exact h rfl
    · rcases hsl with rfl | rfl
      · exact h.1 rfl
      · exact h.2 rfl
  have key : ∀ (b : Bool), Step (PathP (· = i)) (fun _ => True) s
      ((if b then s.setFresh i .pos (.vecs (applyRotation rot anchor start pp (s.objOf i)).pos)
        else s.write i .pos (.vecs (applyRotation rot anchor start pp (s.objOf i)).pos)).setFresh i .ori
        (.rots (applyRotation rot anchor start pp (s.objOf i)).ori)) := by
    intro b
    cases b
    · have h1 := (write_spec s i .pos (.vecs (applyRotation rot anchor start pp (s.objOf i)).pos) hw hi).1
      have h2 := (setFresh_spec _ i .ori (.rots (applyRotation rot anchor start pp (s.objOf i)).ori) h1.wf).1
      exact (h1.mono (hmono _ (Or.inl rfl)) (fun _ h => h)).trans (h2.mono (hmono _ (Or.inr rfl)) (fun _ h => h))
    · have h1 := (setFresh_spec s i .pos (.vecs (applyRotation rot anchor start pp (s.objOf i)).pos) hw).1
      have h2 := (setFresh_spec _ i .ori (.rots (applyRotation rot anchor start pp (s.objOf i)).ori) h1.wf).1
      exact (h1.mono (hmono _ (Or.inl rfl)) (fun _ h => h)).trans (h2.mono (hmono _ (Or.inr rfl)) (fun _ h => h))
  exact key _

theorem pathP_mono (Q : Nat → Prop) (i : Nat) (hq : Q i) : ∀ j tl, PathP Q j tl → PathP (· = i) j tl := by
  rintro j tl (h | h)
  · exact Or.inl (fun hji => h (hji ▸ hq))
  · exact Or.inr h

/-- `Q` is closed under `children` and lies inside the existing objects -/
def ChildClosed (f : Forest) (Q : Nat → Prop) : Prop := ∀ c y, Q c → y ∈ f.children c → Q y ∧ y < f.n

theorem targets_in (s : AForest) (Q : Nat → Prop) (hcl : ChildClosed s.f Q) (x : Nat) (hq : Q x) (hx : x < s.f.n) :
    ∀ i ∈ s.targets x, i < s.f.n ∧ Q i := by
  intro i hi
  exact subtree_closed s.f (fun j => j < s.f.n ∧ Q j) (fun c y hc hy => ⟨(hcl c y hc.2 hy).2, (hcl c y hc.2 hy).1⟩)
    _ x ⟨hx, hq⟩ i hi

theorem move_step (s : AForest) (Q : Nat → Prop) (hw : WF s) (hcl : ChildClosed s.f Q) (x : Nat) (hq : Q x)
    (hx : x < s.f.n) (inp : PathIn AVec) (start : Option Int) :
    Step (PathP Q) (fun _ => True) s (s.move x inp start) := by
  unfold move
  refine foldl_step Q s.f (moveOne inp start) ?_ _ s rfl hw (targets_in s Q hcl x hq hx)
  intro t i hf hwt hi hqi
  exact (moveOne_step inp start t i hwt (hf ▸ hi)).mono (pathP_mono Q i hqi) (fun _ h => h)

theorem rotate_step (s : AForest) (Q : Nat → Prop) (hw : WF s) (hcl : ChildClosed s.f Q) (x : Nat) (hq : Q x)
    (hx : x < s.f.n) (rot : PathIn ARot) (anchor : Option (PathIn AVec)) (start : Option Int) :
    Step (PathP Q) (fun _ => True) s (s.rotate x rot anchor start) := by
  unfold rotate
  simp only
  refine foldl_step Q s.f _ ?_ _ s rfl hw (targets_in s Q hcl x hq hx)
  intro t i hf hwt hi hqi
  exact (rotOne_step rot anchor start _ t i hwt (hf ▸ hi)).mono (pathP_mono Q i hqi) (fun _ h => h)

theorem setPos_step (Q : Nat → Prop) (f0 : Forest) (hcl : ChildClosed f0 Q) :
    ∀ (k : Nat) (s : AForest) (x : Nat) (p : List AVec), s.f = f0 → WF s → Q x → x < f0.n →
      Step (PathP Q) (fun _ => True) s (setPos k s x p) := by
  intro k
  induction k with
  | zero => intro s x p _ hw _ _; exact Step.refl _ _ s hw
  | succ k ih =>
    intro s x p hf hw hq hx
    unfold setPos
    simp only
    have h1 := (setFresh_spec s x .pos (.vecs p) hw).1
    have h2 := (setFresh_spec _ x .ori (.rots (padSlice p.length (s.oriOf x))) h1.wf).1
    have h12 : Step (PathP Q) (fun _ => True) s ((s.setFresh x .pos (.vecs p)).setFresh x .ori
        (.rots (padSlice p.length (s.oriOf x)))) := by
      refine (h1.mono ?_ (fun _ h => h)).trans (h2.mono ?_ (fun _ h => h))
      · rintro j tl (h | h) ⟨rfl, rfl⟩
        · exact h hq
        · exact h.1 rfl
      · rintro j tl (h | h) ⟨rfl, rfl⟩
        · exact h hq
        · exact h.2 rfl
    refine h12.trans ?_
    refine foldl_step Q f0 _ ?_ _ _ (h12.f_eq.trans hf) h12.wf ?_
    · intro t c htf hwt hc hqc
      exact ih t c _ htf hwt hqc hc
    · intro c hc
      rw [hf] at hc
      exact ⟨(hcl x c hq hc).2, (hcl x c hq hc).1⟩

theorem setOri_step (Q : Nat → Prop) (s : AForest) (hw : WF s) (hcl : ChildClosed s.f Q) (x : Nat) (hq : Q x)
    (hx : x < s.f.n) (inp : List ARot) : Step (PathP Q) (fun _ => True) s (s.setOri x inp) := by
  unfold setOri
  simp only
  have h1 := (setFresh_spec s x .ori (.rots inp) hw).1
  have hP : ∀ (sl : Slot), (sl = .pos ∨ sl = .ori) → ∀ j tl, PathP Q j tl → ¬ (j = x ∧ tl = sl) := by
    rintro sl hsl j tl (h | h) ⟨rfl, rfl⟩
    · exact h hq
    · rcases hsl with rfl | rfl
      · exact h.1 rfl
      · exact h.2 rfl
  have h12 : ∀ (b : Bool), Step (PathP Q) (fun _ => True) s
      (if b then (s.setFresh x .ori (.rots inp)).setFresh x .pos (.vecs (padSlice inp.length (s.posOf x)))
       else (s.setFresh x .ori (.rots inp)).write x .pos (.vecs (padSlice inp.length (s.posOf x)))) := by
    intro b
    cases b
    · have h2 := (write_spec _ x .pos (.vecs (padSlice inp.length (s.posOf x))) h1.wf (by rw [h1.f_eq]; exact hx)).1
      exact (h1.mono (hP _ (Or.inr rfl)) (fun _ h => h)).trans (h2.mono (hP _ (Or.inl rfl)) (fun _ h => h))
    · have h2 := (setFresh_spec _ x .pos (.vecs (padSlice inp.length (s.posOf x))) h1.wf).1
      exact (h1.mono (hP _ (Or.inr rfl)) (fun _ h => h)).trans (h2.mono (hP _ (Or.inl rfl)) (fun _ h => h))
  have h12' := h12 (decide ((s.posOf x).length < inp.length))
  simp only [decide_eq_true_eq] at h12'
  refine h12'.trans ?_
  refine foldl_step Q s.f _ ?_ _ _ h12'.f_eq h12'.wf ?_
  · intro t c htf hwt hc hqc
    have a := setPos_step Q s.f hcl (t.f.n + 1) t c (padSlice (padSlice inp.length (s.posOf x)).length (t.posOf c))
      htf hwt hqc hc
    have hf2 : (setPos (t.f.n + 1) t c (padSlice (padSlice inp.length (s.posOf x)).length (t.posOf c))).f = s.f :=
      a.f_eq.trans htf
    exact a.trans (rotate_step _ Q a.wf (by rw [hf2]; exact hcl) c hqc (by rw [hf2]; exact hc) _ _ _)
  · intro c hc
    exact ⟨(hcl x c hq hc).2, (hcl x c hq hc).1⟩

/-! ### style -/

theorem SData.update_empty (d : SData) : d.update SData.empty = d := by
  cases d; simp [SData.update, SData.empty]

theorem styleView_of_cell (s : AForest) (i : Nat) (d : SData) (h : s.cellAt i .style = some (.style d)) :
    s.styleView i = d.update (s.na i).skw := by
  unfold styleView; rw [h]

abbrev StyleP (i : Nat) : Nat → Slot → Prop := fun j tl => ¬ (j = i ∧ tl = .style)

theorem realise_spec (s : AForest) (i : Nat) (hw : WF s) (hi : i < s.f.n) :
    Step (StyleP i) (· ≠ i) s (s.realise i) ∧ (s.realise i).styleView i = s.styleView i ∧
    ((s.realise i).na i).cls = (s.na i).cls ∧ ((s.realise i).na i).scal = (s.na i).scal ∧
    ((s.realise i).na i).skw = SData.empty ∧ (s.realise i).cellAt i .style = some (.style (s.styleView i)) := by
  unfold realise
  obtain ⟨h1, c1⟩ := write_spec s i .style (.style (s.styleView i)) hw hi
  obtain ⟨h2, m1, m2, m3⟩ := setMeta_spec (s.write i .style (.style (s.styleView i))) i (s.na i).scal SData.empty h1.wf
  have hcell : ((s.write i .style (.style (s.styleView i))).setMeta i (s.na i).scal SData.empty).cellAt i .style =
      some (.style (s.styleView i)) := by
    rw [h2.keeps.cellAt i .style trivial (by rw [h1.f_eq]; exact hi), c1]
  refine ⟨(h1.mono (fun _ _ h => h) (fun _ _ => trivial)).trans (h2.mono (fun _ _ _ => trivial) (fun _ h => h)),
    ?_, ?_, m2, m3, hcell⟩
  · rw [styleView_of_cell _ i _ hcell, m3, SData.update_empty]
  · rw [m1]
    have := (h1.keeps.meta_eq i trivial hi).1
    exact this

theorem setStyle_spec (s : AForest) (i : Nat) (g : SData → SData) (hw : WF s) (hi : i < s.f.n) :
    Step (StyleP i) (· ≠ i) s (s.setStyle i g) ∧ (s.setStyle i g).styleView i = g (s.styleView i) ∧
    ((s.setStyle i g).na i).cls = (s.na i).cls ∧ ((s.setStyle i g).na i).scal = (s.na i).scal := by
  unfold setStyle
  simp only
  obtain ⟨h1, v1, c1, sc1, k1, _⟩ := realise_spec s i hw hi
  have hi1 : i < (s.realise i).f.n := by rw [h1.f_eq]; exact hi
  obtain ⟨h2, c2⟩ := write_spec (s.realise i) i .style (.style (g ((s.realise i).styleView i))) h1.wf hi1
  have hm := h2.keeps.meta_eq i trivial hi1
  refine ⟨h1.trans (h2.mono (fun _ _ h => h) (fun _ _ => trivial)), ?_, hm.1.trans c1, hm.2.1.trans sc1⟩
  rw [styleView_of_cell _ i _ c2, hm.2.2, k1, SData.update_empty, v1]

/-! ### deepcopy -/

theorem Slot.code_lt (sl : Slot) : sl.code < Slot.count := by cases sl <;> decide
theorem Slot.ofCode_code (sl : Slot) : Slot.ofCode sl.code = sl := by cases sl <;> rfl
theorem Slot.code_inj (a b : Slot) (h : a.code = b.code) : a = b := by
  have := congrArg Slot.ofCode h
  rwa [Slot.ofCode_code, Slot.ofCode_code] at this

theorem copy0_f (s : AForest) (o : Nat) : (s.copy0 o).f = s.f.copy o := rfl
theorem copy0_next (s : AForest) (o : Nat) : (s.copy0 o).next = s.next + Slot.count * (s.f.cnodes o).length := rfl

theorem copy0_na_old (s : AForest) (o j : Nat) (hj : j < s.f.n) : (s.copy0 o).na j = s.na j := by
  unfold copy0
  simp only
  rw [if_neg]
  simp; omega

theorem copy0_adr_new (s : AForest) (o j : Nat) (hj : IsNew s.f o j) (sl : Slot) :
    ((s.copy0 o).na j).adr sl =
      ((s.na (s.f.csrc o j)).adr sl).map (fun _ => s.next + Slot.count * (j - s.f.n) + sl.code) := by
  unfold copy0
  simp only
  rw [if_pos]
  · rfl
  · have := hj.1; have := hj.2
    unfold cnodes at *
    simp; omega

theorem copy0_meta_new (s : AForest) (o j : Nat) (hj : IsNew s.f o j) :
    ((s.copy0 o).na j).cls = (s.na (s.f.csrc o j)).cls ∧ ((s.copy0 o).na j).scal = (s.na (s.f.csrc o j)).scal ∧
    ((s.copy0 o).na j).skw = (s.na (s.f.csrc o j)).skw := by
  unfold copy0
  simp only
  rw [if_pos]
  · exact ⟨rfl, rfl, rfl⟩
  · have := hj.1; have := hj.2
    unfold cnodes at *
    simp; omega

theorem copy0_heap_old (s : AForest) (o a : Nat) (ha : a < s.next) : (s.copy0 o).heap a = s.heap a := by
  unfold copy0
  simp only
  rw [if_neg]
  simp; omega

theorem copy0_heap_new (s : AForest) (o j : Nat) (hj : IsNew s.f o j) (sl : Slot) (b : Nat)
    (hb : (s.na (s.f.csrc o j)).adr sl = some b) :
    (s.copy0 o).heap (s.next + Slot.count * (j - s.f.n) + sl.code) = s.heap b := by
  have hc := Slot.code_lt sl
  have hlen : j - s.f.n < (s.f.cnodes o).length := by have := hj.1; have := hj.2; omega
  have hd : (s.next + Slot.count * (j - s.f.n) + sl.code - s.next) / Slot.count = j - s.f.n := by
    have : s.next + Slot.count * (j - s.f.n) + sl.code - s.next = Slot.count * (j - s.f.n) + sl.code := by omega
    rw [this, Nat.mul_add_div (by decide : Slot.count > 0), Nat.div_eq_of_lt hc]; rfl
  have hm : (s.next + Slot.count * (j - s.f.n) + sl.code - s.next) % Slot.count = sl.code := by
    have : s.next + Slot.count * (j - s.f.n) + sl.code - s.next = Slot.count * (j - s.f.n) + sl.code := by omega
    rw [this, Nat.mul_add_mod, Nat.mod_eq_of_lt hc]
  unfold copy0
  simp only
  rw [if_pos]
  · rw [hd, hm, Slot.ofCode_code]
    show (match (s.na (s.f.csrc o j)).adr sl with | some b => s.heap b | none => _) = _
    rw [hb]
  · unfold cnodes at hlen
    have h7 : Slot.count * (j - s.f.n) + sl.code < Slot.count * (s.f.subtree (s.f.n + 1) o).length := by
      have : Slot.count * (j - s.f.n + 1) ≤ Slot.count * (s.f.subtree (s.f.n + 1) o).length :=
        Nat.mul_le_mul_left _ hlen
      rw [Nat.mul_add, Nat.mul_one] at this
      omega
    simp; omega

/-- the clone holds, slot by slot, a container with the content of the original's container -/
theorem copy0_cellAt_new (s : AForest) (o j : Nat) (hj : IsNew s.f o j) (sl : Slot) :
    (s.copy0 o).cellAt j sl = s.cellAt (s.f.csrc o j) sl := by
  unfold AForest.cellAt
  rw [copy0_adr_new s o j hj sl]
  cases hb : (s.na (s.f.csrc o j)).adr sl with
  | none => rfl
  | some b =>
    simp only [Option.map_some]
    rw [copy0_heap_new s o j hj sl b hb]

theorem copy0_wf (s : AForest) (o : Nat) (hw : WF s) : WF (s.copy0 o) := by
  have hn : ∀ j, j < (s.copy0 o).f.n → j < s.f.n ∨ IsNew s.f o j := by
    intro j hj
    rw [copy0_f, copy_n] at hj
    by_cases h : j < s.f.n
    · exact Or.inl h
    · exact Or.inr ⟨by omega, hj⟩
  have hnew : ∀ j sl a, IsNew s.f o j → ((s.copy0 o).na j).adr sl = some a →
      a = s.next + Slot.count * (j - s.f.n) + sl.code := by
    intro j sl a hj ha
    rw [copy0_adr_new s o j hj] at ha
    cases hb : (s.na (s.f.csrc o j)).adr sl with
    | none => rw [hb] at ha; cases ha
    | some b => rw [hb] at ha; simp at ha; exact ha.symm
  constructor
  · intro j sl a hj ha
    rw [copy0_next]
    rcases hn j hj with h | h
    · rw [copy0_na_old s o j h] at ha
      have := hw.bound j sl a h ha; omega
    · rw [hnew j sl a h ha]
      have hc := Slot.code_lt sl
      have hlen : j - s.f.n + 1 ≤ (s.f.cnodes o).length := by have := h.1; have := h.2; omega
      have := Nat.mul_le_mul_left Slot.count hlen
      rw [Nat.mul_add, Nat.mul_one] at this
      omega
  · intro j k sl tl a hj hk ha hb
    rcases hn j hj with h1 | h1 <;> rcases hn k hk with h2 | h2
    · rw [copy0_na_old s o j h1] at ha
      rw [copy0_na_old s o k h2] at hb
      exact hw.inj j k sl tl a h1 h2 ha hb
    · rw [copy0_na_old s o j h1] at ha
      have := hw.bound j sl a h1 ha
      have := hnew k tl a h2 hb
      omega
    · rw [copy0_na_old s o k h2] at hb
      have := hw.bound k tl a h2 hb
      have := hnew j sl a h1 ha
      omega
    · have e1 := hnew j sl a h1 ha
      have e2 := hnew k tl a h2 hb
      have hc1 := Slot.code_lt sl
      have hc2 := Slot.code_lt tl
      have hcount : Slot.count = 8 := rfl
      rw [hcount] at e1 e2 hc1 hc2
      have hjk : j - s.f.n = k - s.f.n := by omega
      have hcode : sl.code = tl.code := by omega
      have := h1.1; have := h2.1
      exact ⟨by omega, Slot.code_inj _ _ hcode⟩

theorem copy0_keeps (s : AForest) (o : Nat) (hw : WF s) :
    Keeps (fun _ _ => True) (fun _ => True) s (s.copy0 o) := by
  refine ⟨?_, ?_, ?_, ?_, ?_⟩
  · rw [copy0_f, copy_n]; omega
  · rw [copy0_next]; omega
  · intro j sl _ hj; rw [copy0_na_old s o j hj]
  · intro j sl a _ hj ha; exact copy0_heap_old s o a (hw.bound j sl a hj ha)
  · intro j _ hj; rw [copy0_na_old s o j hj]; exact ⟨rfl, rfl, rfl⟩

/-! ### reads depend on the containers and the record only -/

theorem styleView_congr (s t : AForest) (i j : Nat) (hc : t.cellAt j .style = s.cellAt i .style)
    (hk : (t.na j).skw = (s.na i).skw) : t.styleView j = s.styleView i := by
  unfold styleView; rw [hc, hk]

theorem view_congr (s t : AForest) (i j : Nat) (hc : ∀ sl, sl ≠ .style → t.cellAt j sl = s.cellAt i sl)
    (hs : t.styleView j = s.styleView i) (h1 : (t.na j).cls = (s.na i).cls) (h2 : (t.na j).scal = (s.na i).scal) :
    t.view j = s.view i := by
  unfold view posOf oriOf intsOf
  simp only [List.map_cons, List.map_nil]
  rw [hc .pos (by decide), hc .ori (by decide), hc .a0 (by decide), hc .a1 (by decide), hc .a2 (by decide),
    hc .a3 (by decide), hs, h1, h2]

theorem view_of_keeps {P M} {s t : AForest} (h : Keeps P M s t) (j : Nat) (hj : j < s.f.n) (hp : ∀ sl, P j sl)
    (hm : M j) : t.view j = s.view j := by
  obtain ⟨m1, m2, m3⟩ := h.meta_eq j hm hj
  exact view_congr s t j j (fun sl _ => h.cellAt j sl (hp sl) hj)
    (styleView_congr s t j j (h.cellAt j .style (hp _) hj) m3) m1 m2

/-! ### copy(**kwargs) -/

/-- the objects created by the copy -/
def NewQ (s : AForest) (o : Nat) : Nat → Prop := fun j => s.f.n ≤ j ∧ j < (s.f.copy o).n

theorem newQ_iff (s : AForest) (o j : Nat) : NewQ s o j ↔ IsNew s.f o j := by
  unfold NewQ IsNew; rw [copy_n]

theorem newQ_closed (s : AForest) (o : Nat) (hi : s.f.Inv) (ha : s.f.Acyclic) :
    ChildClosed (s.f.copy o) (NewQ s o) := by
  intro c y hc hy
  have hinv := copy_inv s.f hi ha o
  have hpar := (hinv.parent_iff y c).mpr hy
  have hlt := (hinv.inScope y c hpar).2
  have hc' := (newQ_iff s o c).mp hc
  rw [copy_children, if_pos hc'] at hy
  obtain ⟨z, _, rfl⟩ := List.mem_map.mp hy
  exact ⟨⟨cren_ge s.f o z, hlt⟩, hlt⟩

theorem root_new (s : AForest) (o : Nat) : NewQ s o s.f.n := by
  rw [newQ_iff]
  have := cren_isNew s.f o o (root_mem_cnodes s.f o)
  rwa [cren_root] at this

theorem csrc_root (s : AForest) (o : Nat) : s.f.csrc o s.f.n = o := by
  have := csrc_cren s.f o o (root_mem_cnodes s.f o)
  rwa [cren_root] at this

abbrev OvP (s : AForest) (o : Nat) : Nat → Slot → Prop :=
  fun j tl => j ≠ s.f.n ∧ (¬ NewQ s o j ∨ (tl ≠ .pos ∧ tl ≠ .ori))

theorem applyOv_step (s : AForest) (o : Nat) (hi : s.f.Inv) (ha : s.f.Acyclic) (t : AForest)
    (ht : t.f = s.f.copy o) (hwt : WF t) (ov : Ov) :
    Step (OvP s o) (· ≠ s.f.n) t (applyOv t s.f.n ov) := by
  have hroot : s.f.n < (s.f.copy o).n := (root_new s o).2
  cases ov with
  | pos p =>
    simp only [applyOv]
    split
    · exact Step.refl _ _ t hwt
    · exact (setPos_step (NewQ s o) (s.f.copy o) (newQ_closed s o hi ha) _ t s.f.n p ht hwt (root_new s o)
        hroot).mono (fun j tl h => h.2) (fun _ _ => trivial)
  | ori r =>
    simp only [applyOv]
    split
    · exact Step.refl _ _ t hwt
    · exact (setOri_step (NewQ s o) t hwt (by rw [ht]; exact newQ_closed s o hi ha) s.f.n (root_new s o)
        (by rw [ht]; exact hroot) _).mono (fun j tl h => h.2) (fun _ _ => trivial)
  | arr sl v =>
    simp only [applyOv]
    split
    · exact (setFresh_spec t s.f.n sl (.ints v) hwt).1.mono (fun j tl h hh => h.1 hh.1) (fun _ _ => trivial)
    · exact Step.refl _ _ t hwt
  | scal k v =>
    simp only [applyOv]
    split
    · exact (setMeta_spec t s.f.n _ _ hwt).1.mono (fun _ _ _ => trivial) (fun _ h => h)
    · exact Step.refl _ _ t hwt
  | label l => exact Step.refl _ _ t hwt
  | sprop k v => exact Step.refl _ _ t hwt

/-- keyword arguments other than `position` / `orientation` touch the copied object only -/
theorem applyOv_step_nopos (s : AForest) (t : AForest) (hwt : WF t) (ov : Ov) (hnp : ∀ p, ov ≠ .pos p)
    (hno : ∀ r, ov ≠ .ori r) :
    Step (fun j _ => j ≠ s.f.n) (· ≠ s.f.n) t (applyOv t s.f.n ov) := by
  cases ov with
  | pos p => exact absurd rfl (hnp p)
  | ori r => exact absurd rfl (hno r)
  | arr sl v =>
    simp only [applyOv]
    split
    · exact (setFresh_spec t s.f.n sl (.ints v) hwt).1.mono (fun j tl h hh => h hh.1) (fun _ _ => trivial)
    · exact Step.refl _ _ t hwt
  | scal k v =>
    simp only [applyOv]
    split
    · exact (setMeta_spec t s.f.n _ _ hwt).1.mono (fun _ _ _ => trivial) (fun _ h => h)
    · exact Step.refl _ _ t hwt
  | label l => exact Step.refl _ _ t hwt
  | sprop k v => exact Step.refl _ _ t hwt

theorem foldl_ov_step {P M} (f1 : Forest) (root : Nat) :
    ∀ (kw : List Ov) (t : AForest), t.f = f1 → WF t →
      (∀ u ov, ov ∈ kw → u.f = f1 → WF u → Step P M u (applyOv u root ov)) →
      Step P M t (kw.foldl (fun t ov => applyOv t root ov) t) := by
  intro kw
  induction kw with
  | nil => intro t _ hw _; exact Step.refl _ _ t hw
  | cons ov kw ih =>
    intro t ht hw hg
    have h1 := hg t ov (by simp) ht hw
    exact h1.trans (ih _ (h1.f_eq.trans ht) h1.wf (fun u ov' hm => hg u ov' (by simp [hm])))

/-- the label part of `copy()`: the original's style is realised (its view, class and scalars stay), the copy
gets the iterated label — nothing else is written -/
theorem labelStep_spec (s : AForest) (o : Nat) (hw : WF s) (ho : o < s.f.n) :
    Step (fun j tl => j ≠ s.f.n ∧ ¬ (j = o ∧ tl = .style)) (fun j => j ≠ s.f.n ∧ j ≠ o) (s.copy0 o)
      (labelStep s (s.copy0 o) o) ∧
    (labelStep s (s.copy0 o) o).styleView o = s.styleView o ∧
    ((labelStep s (s.copy0 o) o).na o).cls = (s.na o).cls ∧
    ((labelStep s (s.copy0 o) o).na o).scal = (s.na o).scal ∧
    (labelStep s (s.copy0 o) o).styleView s.f.n =
      (if s.touched o then
        { s.styleView o with label := copyLabel (clsName (s.na o).cls) true (s.styleView o).label }
       else s.styleView o) ∧
    ((labelStep s (s.copy0 o) o).na s.f.n).cls = (s.na o).cls ∧
    ((labelStep s (s.copy0 o) o).na s.f.n).scal = (s.na o).scal ∧
    (∀ sl, sl ≠ .style → (labelStep s (s.copy0 o) o).cellAt s.f.n sl = s.cellAt o sl) := by
  have hw1 := copy0_wf s o hw
  have hk1 := copy0_keeps s o hw
  have hnew := (newQ_iff s o s.f.n).mp (root_new s o)
  have hne : o ≠ s.f.n := by omega
  have ho1 : o < (s.copy0 o).f.n := lt_of_lt_of_le ho hk1.n_le
  have hr1 : s.f.n < (s.copy0 o).f.n := (root_new s o).2
  have hcr : ∀ sl, (s.copy0 o).cellAt s.f.n sl = s.cellAt o sl := by
    intro sl; rw [copy0_cellAt_new s o _ hnew, csrc_root]
  have hmr := copy0_meta_new s o _ hnew
  rw [csrc_root] at hmr
  have hso : (s.copy0 o).styleView o = s.styleView o :=
    styleView_congr s _ o o (hk1.cellAt o .style trivial ho) (hk1.meta_eq o trivial ho).2.2
  have hsr : (s.copy0 o).styleView s.f.n = s.styleView o := styleView_congr s _ o _ (hcr _) hmr.2.2
  unfold labelStep
  split
  · rename_i htouched
    simp only
    obtain ⟨a1, a2, a3, a4, _, _⟩ := realise_spec (s.copy0 o) o hw1 ho1
    have hr2 : s.f.n < ((s.copy0 o).realise o).f.n := by rw [a1.f_eq]; exact hr1
    obtain ⟨b1, b2, b3, b4⟩ := setStyle_spec ((s.copy0 o).realise o) s.f.n
      (fun d => { d with label := copyLabel (clsName (s.na o).cls) true (s.styleView o).label }) a1.wf hr2
    have ho2 : o < ((s.copy0 o).realise o).f.n := by rw [a1.f_eq]; exact ho1
    have hroot_keep : ∀ sl, ((s.copy0 o).realise o).cellAt s.f.n sl = (s.copy0 o).cellAt s.f.n sl :=
      fun sl => a1.keeps.cellAt _ sl (fun h => hne h.1.symm) hr1
    have hroot_meta := a1.keeps.meta_eq s.f.n (fun h => hne h.symm) hr1
    refine ⟨(a1.mono (fun j tl h => h.2) (fun j h => h.2)).trans (b1.mono (fun j tl h hh => h.1 hh.1) (fun j h => h.1)),
      ?_, ?_, ?_, ?_, ?_, ?_, ?_⟩
    · rw [styleView_congr _ _ o o (b1.keeps.cellAt o .style (fun h => hne h.1) ho2)
        (b1.keeps.meta_eq o hne ho2).2.2, a2, hso]
    · rw [(b1.keeps.meta_eq o hne ho2).1, a3, (hk1.meta_eq o trivial ho).1]
    · rw [(b1.keeps.meta_eq o hne ho2).2.1, a4, (hk1.meta_eq o trivial ho).2.1]
    · rw [b2, styleView_congr _ _ s.f.n s.f.n (hroot_keep _) hroot_meta.2.2, hsr]
    · rw [b3, hroot_meta.1, hmr.1]
    · rw [b4, hroot_meta.2.1, hmr.2.1]
    · intro sl hsl
      rw [b1.keeps.cellAt s.f.n sl (fun h => hsl h.2) hr2, hroot_keep, hcr]
  · refine ⟨Step.refl _ _ _ hw1, hso, ?_, ?_, hsr, hmr.1, hmr.2.1, fun sl _ => hcr sl⟩
    · exact (hk1.meta_eq o trivial ho).1
    · exact (hk1.meta_eq o trivial ho).2.1

theorem labelStep_f (s : AForest) (o : Nat) (hw : WF s) (ho : o < s.f.n) :
    (labelStep s (s.copy0 o) o).f = s.f.copy o := (labelStep_spec s o hw ho).1.f_eq

/-- `copy(**kwargs)` after the deepcopy: old objects keep every container except the original's style slot
(realised), and their records except the original's pending style arguments; clones other than the copied object
keep everything but their paths -/
theorem copyKw_step (s : AForest) (o : Nat) (kw : List Ov) (hw : WF s) (hi : s.f.Inv) (ha : s.f.Acyclic)
    (ho : o < s.f.n) :
    Step (fun j tl => OvP s o j tl ∧ ¬ (j = o ∧ tl = .style)) (fun j => j ≠ s.f.n ∧ j ≠ o) (s.copy0 o)
      (s.copyKw o kw) := by
  have hA := (labelStep_spec s o hw ho).1
  have hB := foldl_ov_step (P := OvP s o) (M := (· ≠ s.f.n)) (s.f.copy o) s.f.n kw _ hA.f_eq hA.wf
    (fun u ov _ hu hwu => applyOv_step s o hi ha u hu hwu ov)
  have hAB := (hA.mono (P' := fun j tl => OvP s o j tl ∧ ¬ (j = o ∧ tl = .style)) (M' := fun j => j ≠ s.f.n ∧ j ≠ o)
      (fun j tl h => ⟨h.1.1, h.2⟩) (fun j h => h)).trans
    (hB.mono (fun j tl h => h.1) (fun j h => h.1))
  unfold copyKw
  simp only
  split
  · have hroot : s.f.n < (kw.foldl (fun t ov => applyOv t s.f.n ov) (labelStep s (s.copy0 o) o)).f.n := by
      rw [hAB.f_eq]; exact (root_new s o).2
    exact hAB.trans ((setStyle_spec _ s.f.n _ hAB.wf hroot).1.mono (fun j tl h hh => h.1.1 hh.1) (fun j h => h.1))
  · exact hAB

end AForest

/-! ### frame lemmas of the tree operations -/
namespace Forest

/-- no parent link crosses the border of `P` -/
def Closed (f : Forest) (P : Nat → Prop) : Prop := ∀ x c, f.parent x = some c → (P x ↔ P c)

/-- the objects in `P` keep all their tree attributes -/
def FKeeps (P : Nat → Prop) (f g : Forest) : Prop :=
  ∀ j, P j → g.parent j = f.parent j ∧ g.children j = f.children j ∧ g.srcs j = f.srcs j ∧
    g.sens j = f.sens j ∧ g.colls j = f.colls j ∧ g.kind j = f.kind j

theorem FKeeps.refl (P) (f : Forest) : FKeeps P f f := fun _ _ => ⟨rfl, rfl, rfl, rfl, rfl, rfl⟩

theorem FKeeps.trans {P} {f g h : Forest} (h1 : FKeeps P f g) (h2 : FKeeps P g h) : FKeeps P f h := by
  intro j hj
  obtain ⟨a1, a2, a3, a4, a5, a6⟩ := h1 j hj
  obtain ⟨b1, b2, b3, b4, b5, b6⟩ := h2 j hj
  exact ⟨b1.trans a1, b2.trans a2, b3.trans a3, b4.trans a4, b5.trans a5, b6.trans a6⟩

theorem detach_fkeeps (f : Forest) (P : Nat → Prop) (hc : Closed f P) (x : Nat) (hx : ¬ P x) :
    FKeeps P f (f.detach x) ∧ Closed (f.detach x) P := by
  constructor
  · intro j hj
    have hjx : j ≠ x := fun h => hx (h ▸ hj)
    unfold detach
    cases hp : f.parent x with
    | none => exact ⟨rfl, rfl, rfl, rfl, rfl, rfl⟩
    | some p =>
      have hjp : j ≠ p := fun h => ((hc x p hp).not.mp hx) (h ▸ hj)
      simp [sync, upd, hjx, hjp]
  · intro y c hyc
    by_cases hy : y = x
    · subst hy; rw [detach_parent] at hyc; cases hyc
    · rw [detach_parent_other f x y hy] at hyc; exact hc y c hyc

theorem attach_fkeeps (f : Forest) (P : Nat → Prop) (hc : Closed f P) (x c : Nat) (hx : ¬ P x) (hcc : ¬ P c) :
    FKeeps P f (f.attach x c) ∧ Closed (f.attach x c) P := by
  constructor
  · intro j hj
    have hjx : j ≠ x := fun h => hx (h ▸ hj)
    have hjc : j ≠ c := fun h => hcc (h ▸ hj)
    simp [attach, sync, upd, hjx, hjc]
  · intro y d hyd
    rw [attach_parent] at hyd
    split at hyd
    · rename_i h; subst h; cases hyd
      exact ⟨fun h => absurd h hx, fun h => absurd h hcc⟩
    · exact hc y d hyd

theorem fold_reparent_fkeeps (P : Nat → Prop) (c : Nat) (hcc : ¬ P c) (objs : List Nat) :
    ∀ f : Forest, Closed f P → (∀ o ∈ objs, ¬ P o) →
      FKeeps P f (objs.foldl (fun s o => (s.detach o).attach o c) f) ∧
      Closed (objs.foldl (fun s o => (s.detach o).attach o c) f) P := by
  induction objs with
  | nil => intro f hc _; exact ⟨FKeeps.refl P f, hc⟩
  | cons o objs ih =>
    intro f hc ho
    obtain ⟨a1, a2⟩ := detach_fkeeps f P hc o (ho o (by simp))
    obtain ⟨b1, b2⟩ := attach_fkeeps _ P a2 o c (ho o (by simp)) hcc
    obtain ⟨c1, c2⟩ := ih _ b2 (fun o' h => ho o' (by simp [h]))
    exact ⟨(a1.trans b1).trans c1, c2⟩

theorem add_fkeeps (f : Forest) (P : Nat → Prop) (hc : Closed f P) (c : Nat) (objs : List Nat) (ov : Bool)
    (hcc : ¬ P c) (ho : ∀ o ∈ objs, ¬ P o) : FKeeps P f (f.add c objs ov).1 ∧ Closed (f.add c objs ov).1 P := by
  unfold add
  split
  · exact fold_reparent_fkeeps P c hcc objs f hc ho
  · exact ⟨FKeeps.refl P f, hc⟩

theorem remove_fkeeps (P : Nat → Prop) (c : Nat) (r e : Bool) (objs : List Nat) :
    ∀ f : Forest, Closed f P → (∀ o ∈ objs, ¬ P o) →
      FKeeps P f (f.remove c r e objs).1 ∧ Closed (f.remove c r e objs).1 P := by
  induction objs with
  | nil => intro f hc _; exact ⟨FKeeps.refl P f, hc⟩
  | cons x rest ih =>
    intro f hc ho
    unfold remove
    split
    · obtain ⟨a1, a2⟩ := detach_fkeeps f P hc x (ho x (by simp))
      obtain ⟨b1, b2⟩ := ih _ a2 (fun o' h => ho o' (by simp [h]))
      exact ⟨a1.trans b1, b2⟩
    · split
      · exact ⟨FKeeps.refl P f, hc⟩
      · exact ih f hc (fun o' h => ho o' (by simp [h]))

theorem fold_detach_fkeeps (P : Nat → Prop) (xs : List Nat) :
    ∀ f : Forest, Closed f P → (∀ o ∈ xs, ¬ P o) →
      FKeeps P f (xs.foldl (fun s o => s.detach o) f) ∧ Closed (xs.foldl (fun s o => s.detach o) f) P := by
  induction xs with
  | nil => intro f hc _; exact ⟨FKeeps.refl P f, hc⟩
  | cons x rest ih =>
    intro f hc ho
    obtain ⟨a1, a2⟩ := detach_fkeeps f P hc x (ho x (by simp))
    obtain ⟨b1, b2⟩ := ih _ a2 (fun o' h => ho o' (by simp [h]))
    exact ⟨a1.trans b1, b2⟩

/-- children of an object outside `P` are outside `P` -/
theorem child_notP (f : Forest) (P : Nat → Prop) (hi : f.Inv) (hc : Closed f P) (c y : Nat) (hcc : ¬ P c)
    (hy : y ∈ f.children c) : ¬ P y :=
  (hc y c ((hi.parent_iff y c).mpr hy)).not.mpr hcc

theorem flat_notP (f : Forest) (P : Nat → Prop) (hi : f.Inv) (hc : Closed f P) :
    ∀ (k o : Nat), ¬ P o → ∀ x ∈ f.flat k o, ¬ P x := by
  intro k
  induction k with
  | zero => intro o _ x hx; simp [flat] at hx
  | succ k ih =>
    intro o ho x hx
    unfold flat at hx
    split at hx
    · obtain ⟨y, hy, hxy⟩ := List.mem_flatMap.mp hx
      exact ih y (child_notP f P hi hc o y ho hy) x hxy
    · simp at hx; subst hx; exact ho

theorem fresh_fkeeps (f : Forest) (P : Nat → Prop) (hc : Closed f P) (hP : ∀ j, P j → j < f.n) :
    FKeeps P f f.fresh ∧ Closed f.fresh P := by
  constructor
  · intro j hj
    have : j ≠ f.n := by have := hP j hj; omega
    simp [fresh, upd, this]
  · intro y c hyc
    simp only [fresh] at hyc
    by_cases hy : y = f.n
    · subst hy; simp [upd] at hyc
    · rw [upd_other _ _ _ _ hy] at hyc; exact hc y c hyc

theorem unlinked_fkeeps (f : Forest) (P : Nat → Prop) (hi : f.Inv) (hc : Closed f P) (c : Nat) (hcc : ¬ P c)
    (removed : List Nat) (hsub : ∀ x ∈ removed, x ∈ f.children c) :
    FKeeps P f (f.unlinked c removed) ∧ Closed (f.unlinked c removed) P := by
  constructor
  · intro j hj
    have hjc : j ≠ c := fun h => hcc (h ▸ hj)
    have hjr : j ∉ removed := fun h => child_notP f P hi hc c j hcc (hsub j h) hj
    refine ⟨by rw [unlinked_parent, if_neg hjr], by rw [unlinked_children, if_neg hjc], ?_, ?_, ?_,
      by rw [(unlinked_kind_n f c removed).1]⟩ <;> simp [unlinked, sync, setParents_eq, upd, hjc]
  · intro y d hyd
    rw [unlinked_parent] at hyd
    split at hyd
    · cases hyd
    · exact hc y d hyd

theorem replaceChildren_fkeeps (f : Forest) (P : Nat → Prop) (hi : f.Inv) (hc : Closed f P) (c : Nat) (hcc : ¬ P c)
    (removed new : List Nat) (hsub : ∀ x ∈ removed, x ∈ f.children c) (hnew : ∀ o ∈ new, ¬ P o) :
    FKeeps P f (f.replaceChildren c removed new).1 ∧ Closed (f.replaceChildren c removed new).1 P := by
  by_cases hr : (f.replaceChildren c removed new).2 = false
  · rw [replaceChildren_rejected f c removed new hi hsub hr]; exact ⟨FKeeps.refl P f, hc⟩
  · rw [replaceChildren_eq] at hr ⊢
    split
    · obtain ⟨a1, a2⟩ := unlinked_fkeeps f P hi hc c hcc removed hsub
      obtain ⟨b1, b2⟩ := add_fkeeps _ P a2 c new true hcc hnew
      exact ⟨a1.trans b1, b2⟩
    · rename_i h2; rw [if_neg h2] at hr; simp at hr

theorem setTyped_fkeeps (f : Forest) (P : Nat → Prop) (hi : f.Inv) (hc : Closed f P) (c : Nat) (k : Kind)
    (objs : List Nat) (hcc : ¬ P c) (hobjs : ∀ o ∈ objs, ¬ P o) :
    FKeeps P f (f.setTyped c k objs).1 ∧ Closed (f.setTyped c k objs).1 P := by
  have hflat : ∀ o, o ∈ (objs.flatMap (f.flat (f.n + 1))) → ¬ P o := by
    intro o ho
    obtain ⟨y, hy, hoy⟩ := List.mem_flatMap.mp ho
    exact flat_notP f P hi hc _ y (hobjs y hy) o hoy
  unfold setTyped
  split
  · exact ⟨FKeeps.refl P f, hc⟩
  · rename_i l hl
    refine replaceChildren_fkeeps f P hi hc c hcc _ l (typed_removed_sub f c k) ?_
    intro o ho
    unfold formatTyped at hl
    cases k with
    | coll =>
      simp only at hl
      split at hl
      · simp only [Option.some.injEq] at hl; subst hl; exact hobjs o (List.mem_of_mem_filter ho)
      · cases hl
    | src =>
      simp only at hl
      split at hl
      · simp only [Option.some.injEq] at hl; subst hl; exact hflat o (List.mem_of_mem_filter ho)
      · cases hl
    | sens =>
      simp only at hl
      split at hl
      · simp only [Option.some.injEq] at hl; subst hl; exact hflat o (List.mem_of_mem_filter ho)
      · cases hl

/-- the objects a tree operation names -/
def fmentions : FOp → List Nat
  | .add c objs _ => c :: objs
  | .remove c objs _ _ => c :: objs
  | .setParent o p => o :: p.toList
  | .setChildren c objs => c :: objs
  | .setTyped c _ objs => c :: objs
  | .plus a b => [a, b]
  | .rejected => []

/-- a tree operation that names no object of `P` changes no tree attribute of an object of `P`, and no parent
link crosses the border of `P` afterwards -/
theorem step_fkeeps (f : Forest) (P : Nat → Prop) (hi : f.Inv) (hc : Closed f P) (hP : ∀ j, P j → j < f.n)
    (op : FOp) (hm : ∀ i ∈ fmentions op, ¬ P i) : FKeeps P f (f.step op).1 ∧ Closed (f.step op).1 P := by
  cases op with
  | add c objs ov =>
    exact add_fkeeps f P hc c objs ov (hm c (by simp [fmentions])) (fun o h => hm o (by simp [fmentions, h]))
  | remove c objs r e =>
    simp only [step]; split
    · exact remove_fkeeps P c r e objs f hc (fun o h => hm o (by simp [fmentions, h]))
    · exact ⟨FKeeps.refl P f, hc⟩
  | setParent o p =>
    cases p with
    | none => exact detach_fkeeps f P hc o (hm o (by simp [fmentions]))
    | some c =>
      exact add_fkeeps f P hc c [o] true (hm c (by simp [fmentions]))
        (fun o' h => by simp at h; subst h; exact hm o' (by simp [fmentions]))
  | setChildren c objs =>
    simp only [step]; split
    · exact replaceChildren_fkeeps f P hi hc c (hm c (by simp [fmentions])) _ objs (fun _ hx => hx)
        (fun o h => hm o (by simp [fmentions, h]))
    · exact ⟨FKeeps.refl P f, hc⟩
  | setTyped c k objs =>
    simp only [step]; split
    · exact setTyped_fkeeps f P hi hc c k objs (hm c (by simp [fmentions])) (fun o h => hm o (by simp [fmentions, h]))
    · exact ⟨FKeeps.refl P f, hc⟩
  | plus a b =>
    simp only [step]
    rw [plus_eq]
    split
    · obtain ⟨a1, a2⟩ := fresh_fkeeps f P hc hP
      obtain ⟨b1, b2⟩ := add_fkeeps f.fresh P a2 f.n [a, b] false (fun h => by have := hP _ h; omega)
        (fun o h => hm o (by simpa [fmentions] using h))
      exact ⟨a1.trans b1, b2⟩
    · exact ⟨FKeeps.refl P f, hc⟩
  | rejected => exact ⟨FKeeps.refl P f, hc⟩

theorem step_n (f : Forest) (hi : f.Inv) (op : FOp) : (f.step op).1.n = f.n ∨ (f.step op).1.n = f.n + 1 := by
  cases op with
  | add c objs ov => exact Or.inl (add_inv f c objs ov hi).2.2
  | remove c objs r e =>
    simp only [step]; split
    · exact Or.inl (remove_inv c r e objs f hi).2.2
    · exact Or.inl rfl
  | setParent o p =>
    cases p with
    | none => exact Or.inl (detach_kind f o).2
    | some c => exact Or.inl (add_inv f c [o] true hi).2.2
  | setChildren c objs =>
    simp only [step]; split
    · exact Or.inl (setChildren_inv f c objs hi).2.2
    · exact Or.inl rfl
  | setTyped c k objs =>
    simp only [step]; split
    · exact Or.inl (setTyped_inv f c k objs hi).2.2
    · exact Or.inl rfl
  | plus a b =>
    simp only [step]
    rw [plus_eq]
    split
    · exact Or.inr (add_inv f.fresh f.n [a, b] false (fresh_inv f hi)).2.2
    · exact Or.inl rfl
  | rejected => exact Or.inl rfl

theorem copy_closed (f : Forest) (hi : f.Inv) (P : Nat → Prop) (hc : Closed f P) (hP : ∀ j, P j → j < f.n) (o : Nat) :
    Closed (f.copy o) P := by
  intro y c hyc
  obtain ⟨hold, hnew⟩ := C18aux.copy_links f hi o
  by_cases hy : y < f.n
  · have := (C18aux.copy_old f o y hy).1
    rw [this] at hyc
    exact hc y c hyc
  · have hny : ¬ P y := fun h => hy (hP y h)
    have hyn : IsNew f o y := by
      by_contra hnn
      rw [copy_parent, if_neg hnn] at hyc
      exact hy (hi.inScope y c hyc).2
    have := hnew y hyn c hyc
    exact ⟨fun h => absurd h hny, fun h => by have := hP c h; omega⟩

end Forest
namespace AForest
open Forest

/-- the keyword part of `copy(**kwargs)` (everything after the label step) -/
theorem copyKw_phaseB (s : AForest) (o : Nat) (kw : List Ov) (hw : WF s) (hi : s.f.Inv) (ha : s.f.Acyclic)
    (ho : o < s.f.n) : Step (OvP s o) (· ≠ s.f.n) (labelStep s (s.copy0 o) o) (s.copyKw o kw) := by
  have hA := (labelStep_spec s o hw ho).1
  have hB := foldl_ov_step (P := OvP s o) (M := (· ≠ s.f.n)) (s.f.copy o) s.f.n kw _ hA.f_eq hA.wf
    (fun u ov _ hu hwu => applyOv_step s o hi ha u hu hwu ov)
  unfold copyKw
  simp only
  split
  · have hroot : s.f.n < (kw.foldl (fun t ov => applyOv t s.f.n ov) (labelStep s (s.copy0 o) o)).f.n := by
      rw [hB.f_eq, hA.f_eq]; exact (root_new s o).2
    exact hB.trans ((setStyle_spec _ s.f.n _ hB.wf hroot).1.mono (fun j tl h hh => h.1 hh.1) (fun j h => h))
  · exact hB

/-- without a `position` keyword the keyword part writes to the copied object only -/
theorem copyKw_phaseB_nopos (s : AForest) (o : Nat) (kw : List Ov) (hw : WF s) (ho : o < s.f.n)
    (hnp : ∀ ov ∈ kw, (∀ p, ov ≠ .pos p) ∧ (∀ r, ov ≠ .ori r)) :
    Step (fun j _ => j ≠ s.f.n) (· ≠ s.f.n) (labelStep s (s.copy0 o) o) (s.copyKw o kw) := by
  have hA := (labelStep_spec s o hw ho).1
  have hB := foldl_ov_step (P := fun j _ => j ≠ s.f.n) (M := (· ≠ s.f.n)) (s.f.copy o) s.f.n kw _ hA.f_eq hA.wf
    (fun u ov hov _ hwu => applyOv_step_nopos s u hwu ov (hnp ov hov).1 (hnp ov hov).2)
  unfold copyKw
  simp only
  split
  · have hroot : s.f.n < (kw.foldl (fun t ov => applyOv t s.f.n ov) (labelStep s (s.copy0 o) o)).f.n := by
      rw [hB.f_eq, hA.f_eq]; exact (root_new s o).2
    exact hB.trans ((setStyle_spec _ s.f.n _ hB.wf hroot).1.mono (fun j tl h hh => h hh.1) (fun j h => h))
  · exact hB

/-! ### histories: what operations that do not name an object of `P` leave alone -/

/-- `P` is a set of existing objects that no parent link leaves or enters, in a well-formed consistent state -/
structure Sep (P : Nat → Prop) (s : AForest) : Prop where
  wf : WF s
  inv : s.f.Inv
  acyc : s.f.Acyclic
  closed : Closed s.f P
  lt : ∀ j, P j → j < s.f.n

/-- the objects of `P` keep every container (address and content), their record and their tree attributes -/
structure Same (P : Nat → Prop) (s t : AForest) : Prop where
  keeps : Keeps (fun j _ => P j) P s t
  tree : FKeeps P s.f t.f

theorem Same.refl (P) (s : AForest) : Same P s s := ⟨Keeps.refl _ _ s, FKeeps.refl P s.f⟩
theorem Same.trans {P} {s t u : AForest} (h1 : Same P s t) (h2 : Same P t u) : Same P s u :=
  ⟨h1.keeps.trans h2.keeps, h1.tree.trans h2.tree⟩

theorem Same.view {P} {s t : AForest} (h : Same P s t) (hs : Sep P s) (j : Nat) (hj : P j) :
    t.view j = s.view j ∧ t.f.parent j = s.f.parent j ∧ t.f.children j = s.f.children j ∧ t.f.kind j = s.f.kind j ∧
    t.na j = s.na j ∧ (∀ sl a, (s.na j).adr sl = some a → t.heap a = s.heap a) := by
  obtain ⟨a1, a2, _, _, _, a6⟩ := h.tree j hj
  refine ⟨view_of_keeps h.keeps j (hs.lt j hj) (fun _ => hj) hj, a1, a2, a6, ?_,
    fun sl a ha => h.keeps.heap_eq j sl a hj (hs.lt j hj) ha⟩
  obtain ⟨m1, m2, m3⟩ := h.keeps.meta_eq j hj (hs.lt j hj)
  have hadr : (t.na j).adr = (s.na j).adr := funext fun sl => h.keeps.adr_eq j sl hj (hs.lt j hj)
  cases ht : t.na j; cases hs' : s.na j
  rw [ht, hs'] at m1 m2 m3 hadr
  simp only at m1 m2 m3 hadr
  rw [m1, m2, m3, hadr]

theorem notP_closed {P} {s : AForest} (hs : Sep P s) : ChildClosed s.f (fun j => ¬ P j) := by
  intro c y hc hy
  exact ⟨child_notP s.f P hs.inv hs.closed c y hc hy,
    (hs.inv.inScope y c ((hs.inv.parent_iff y c).mpr hy)).2⟩

theorem sep_of_step {P} {P' : Nat → Slot → Prop} {M' : Nat → Prop} {s t : AForest} (hs : Sep P s)
    (h : Step P' M' s t) (hp : ∀ j tl, P j → P' j tl) (hm : ∀ j, P j → M' j) : Sep P t ∧ Same P s t := by
  refine ⟨⟨h.wf, ?_, ?_, ?_, ?_⟩, ⟨h.keeps.mono (fun j tl hj => hp j tl hj) hm, ?_⟩⟩
  · rw [h.f_eq]; exact hs.inv
  · rw [h.f_eq]; exact hs.acyc
  · rw [h.f_eq]; exact hs.closed
  · rw [h.f_eq]; exact hs.lt
  · rw [h.f_eq]; exact FKeeps.refl P s.f

theorem mentions_tree (op : FOp) : mentions (.tree op) = fmentions op := by cases op <;> rfl

/-- a Collection created by `a + b` gets its own new containers -/
theorem plus_init_spec (s : AForest) (f' : Forest) (hw : WF s) (hn : f'.n = s.f.n + 1) :
    WF (({ s with f := f' } : AForest).initNode s.f.n collSpec) ∧
    (({ s with f := f' } : AForest).initNode s.f.n collSpec).f = f' ∧
    Keeps (fun j _ => j ≠ s.f.n) (· ≠ s.f.n) s (({ s with f := f' } : AForest).initNode s.f.n collSpec) := by
  let s1 : AForest := { f := f', na := upd s.na s.f.n { NodeA.blank 5 with scal := [], skw := SData.empty },
                        heap := s.heap, next := s.next }
  have hw1 : WF s1 := by
    constructor
    · intro i sl a hi ha
      by_cases hin : i = s.f.n
      · subst hin; simp [s1, upd, NodeA.blank] at ha
      · have hlt : i < s.f.n := by have : i < f'.n := hi; omega
        simp only [s1, upd_other _ _ _ _ hin] at ha
        exact hw.bound i sl a hlt ha
    · intro i j sl tl a hi hj ha hb
      by_cases hin : i = s.f.n
      · subst hin; simp [s1, upd, NodeA.blank] at ha
      · by_cases hjn : j = s.f.n
        · subst hjn; simp [s1, upd, NodeA.blank] at hb
        · have h1 : i < s.f.n := by have : i < f'.n := hi; omega
          have h2 : j < s.f.n := by have : j < f'.n := hj; omega
          simp only [s1, upd_other _ _ _ _ hin] at ha
          simp only [s1, upd_other _ _ _ _ hjn] at hb
          exact hw.inj i j sl tl a h1 h2 ha hb
  have hk1 : Keeps (fun j _ => j ≠ s.f.n) (· ≠ s.f.n) s s1 := by
    refine ⟨by show s.f.n ≤ f'.n; omega, le_refl _, ?_, fun _ _ _ _ _ _ => rfl, ?_⟩
    · intro j sl hj _; simp only [s1, upd_other _ _ _ _ hj]
    · intro j hj _; simp [s1, upd_other _ _ _ _ hj]
  have h1 := (setFresh_spec s1 s.f.n .pos (.vecs [(0 : AVec)]) hw1).1
  have h2 := (setFresh_spec _ s.f.n .ori (.rots ([(0 : AVec)].map fun _ => (1 : ARot))) h1.wf).1
  have h12 := (h1.mono (P' := fun j _ => j ≠ s.f.n) (M' := (· ≠ s.f.n)) (fun j tl h hh => h hh.1) (fun _ _ => trivial)).trans
    (h2.mono (fun j tl h hh => h hh.1) (fun _ _ => trivial))
  have h3 := (setFresh_spec _ s.f.n .kids .list h12.wf).1
  have h123 := h12.trans (h3.mono (P' := fun j _ => j ≠ s.f.n) (M' := (· ≠ s.f.n)) (fun j tl h hh => h hh.1)
    (fun _ _ => trivial))
  have hk123 : Keeps (fun j _ => j ≠ s.f.n) (· ≠ s.f.n) s1 _ := h123.keeps
  have heq : ({ s with f := f' } : AForest).initNode s.f.n collSpec =
      ((s1.setFresh s.f.n .pos (.vecs [(0 : AVec)])).setFresh s.f.n .ori
        (.rots ([(0 : AVec)].map fun _ => (1 : ARot)))).setFresh s.f.n .kids .list := rfl
  rw [heq]
  exact ⟨h123.wf, h123.f_eq, hk1.trans hk123⟩

theorem copy_closed_lt (s : AForest) (o : Nat) (hi : s.f.Inv) : Closed (s.f.copy o) (· < s.f.n) :=
  copy_closed s.f hi (· < s.f.n) (fun x c h => ⟨fun _ => (hi.inScope x c h).1, fun _ => (hi.inScope x c h).2⟩)
    (fun _ h => h) o

theorem copy_closed_new (s : AForest) (o : Nat) (hi : s.f.Inv) (ha : s.f.Acyclic) :
    Closed (s.f.copy o) (NewQ s o) := by
  intro y c hyc
  have hsc := (copy_inv s.f hi ha o).inScope y c hyc
  have hiff : y < s.f.n ↔ c < s.f.n := copy_closed_lt s o hi y c hyc
  unfold NewQ
  constructor
  · intro h; exact ⟨by have h1 := h.1; by_contra hh; have := hiff.mpr (by omega); omega, hsc.1⟩
  · intro h; exact ⟨by have h1 := h.1; by_contra hh; have := hiff.mp (by omega); omega, hsc.2⟩

/-- `copy(**kwargs)` of an object outside `P` -/
theorem copyKw_sep {P} (s : AForest) (hs : Sep P s) (o : Nat) (kw : List Ov) (ho : o < s.f.n) (hoP : ¬ P o) :
    Sep P (s.copyKw o kw) ∧ Same P s (s.copyKw o kw) := by
  have h0 := copy0_keeps s o hs.wf
  have h1 := copyKw_step s o kw hs.wf hs.inv hs.acyc ho
  have hlt : ∀ j, P j → j < s.f.n := hs.lt
  have hf : (s.copyKw o kw).f = s.f.copy o := h1.f_eq
  refine ⟨⟨h1.wf, ?_, ?_, ?_, ?_⟩, ⟨?_, ?_⟩⟩
  · rw [hf]; exact copy_inv s.f hs.inv hs.acyc o
  · rw [hf]; exact copy_acyclic s.f hs.inv hs.acyc o
  · rw [hf]; exact copy_closed s.f hs.inv P hs.closed hs.lt o
  · intro j hj; rw [hf, copy_n]; have := hlt j hj; omega
  · refine (h0.mono (fun _ _ _ => trivial) (fun _ _ => trivial)).trans (h1.keeps.mono ?_ ?_)
    · intro j tl hj
      have hjn := hlt j hj
      exact ⟨⟨by omega, Or.inl (fun h => by have := h.1; omega)⟩, fun h => hoP (h.1 ▸ hj)⟩
    · intro j hj
      have hjn := hlt j hj
      exact ⟨by omega, fun h => hoP (h ▸ hj)⟩
  · rw [hf]
    intro j hj
    exact C18aux.copy_old s.f o j (hlt j hj)

/-- one operation other than `copy` that names no object of `P` -/
theorem stepBase_sep {P} (s : AForest) (hs : Sep P s) (op : AOp) (hm : ∀ i ∈ mentions op, ¬ P i) :
    Sep P (s.stepBase op).1 ∧ Same P s (s.stepBase op).1 := by
  have hnn : ∀ j, P j → ¬ ¬ P j := fun _ h hn => hn h
  cases op with
  | tree op =>
    rw [mentions_tree] at hm
    obtain ⟨fk, cl⟩ := step_fkeeps s.f P hs.inv hs.closed hs.lt op hm
    have hinv := step_inv s.f op hs.inv
    have hac := step_acyclic s.f op hs.inv hs.acyc
    simp only [stepBase]
    split
    · rename_i hn
      obtain ⟨w, hf, hk⟩ := plus_init_spec s (s.f.step op).1 hs.wf hn
      refine ⟨⟨w, ?_, ?_, ?_, ?_⟩, ⟨hk.mono (fun j _ hj => by have := hs.lt j hj; omega)
        (fun j hj => by have := hs.lt j hj; omega), ?_⟩⟩
      · rw [hf]; exact hinv
      · rw [hf]; exact hac
      · rw [hf]; exact cl
      · intro j hj; rw [hf, hn]; have := hs.lt j hj; omega
      · rw [hf]; exact fk
    · rename_i hn
      have hn' : (s.f.step op).1.n = s.f.n := by
        rcases step_n s.f hs.inv op with h | h
        · exact h
        · exact absurd h hn
      have hbase : Sep P ({ s with f := (s.f.step op).1 } : AForest) ∧
          Same P s ({ s with f := (s.f.step op).1 } : AForest) := by
        refine ⟨⟨⟨?_, ?_⟩, hinv, hac, cl, ?_⟩, ⟨⟨?_, le_refl _, fun _ _ _ _ => rfl, fun _ _ _ _ _ _ => rfl,
          fun _ _ _ => ⟨rfl, rfl, rfl⟩⟩, fk⟩⟩
        · intro i sl a hi ha; exact hs.wf.bound i sl a (by rw [← hn']; exact hi) ha
        · intro i j sl tl a hi hj ha hb
          exact hs.wf.inj i j sl tl a (by rw [← hn']; exact hi) (by rw [← hn']; exact hj) ha hb
        · intro j hj; show j < (s.f.step op).1.n; rw [hn']; exact hs.lt j hj
        · show s.f.n ≤ (s.f.step op).1.n; omega
      cases hq : (if (s.f.step op).2 = true then newList op else none) with
      | none => exact hbase
      | some c =>
        have hcP : ¬ P c := by
          have hnl : newList op = some c := by
            split at hq
            · exact hq
            · cases hq
          cases op <;> simp [newList] at hnl <;> subst hnl <;> exact hm _ (by simp [fmentions])
        obtain ⟨b1, b2⟩ := sep_of_step (P' := fun j tl => ¬ (j = c ∧ tl = .kids)) (M' := fun _ => True) hbase.1
          (setFresh_spec _ c .kids .list hbase.1.wf).1 (fun j tl hj h => hcP (h.1 ▸ hj)) (fun _ _ => trivial)
        exact ⟨b1, hbase.2.trans b2⟩
  | move x inp start =>
    have hx := hm x (by simp [mentions])
    simp only [stepBase]
    split
    · rename_i hlt
      exact sep_of_step hs (move_step s _ hs.wf (notP_closed hs) x hx hlt inp start)
        (fun j tl hj => Or.inl (hnn j hj)) (fun _ _ => trivial)
    · exact ⟨hs, Same.refl P s⟩
  | rotate x rot anchor start =>
    have hx := hm x (by simp [mentions])
    simp only [stepBase]
    split
    · rename_i hlt
      exact sep_of_step hs (rotate_step s _ hs.wf (notP_closed hs) x hx hlt rot anchor start)
        (fun j tl hj => Or.inl (hnn j hj)) (fun _ _ => trivial)
    · exact ⟨hs, Same.refl P s⟩
  | setPos x p =>
    have hx := hm x (by simp [mentions])
    simp only [stepBase]
    split
    · rename_i hlt
      simp only [Bool.and_eq_true, decide_eq_true_eq] at hlt
      exact sep_of_step hs (setPos_step _ s.f (notP_closed hs) _ s x p rfl hs.wf hx hlt.1)
        (fun j tl hj => Or.inl (hnn j hj)) (fun _ _ => trivial)
    · exact ⟨hs, Same.refl P s⟩
  | setOri x r =>
    have hx := hm x (by simp [mentions])
    simp only [stepBase]
    split
    · rename_i hlt
      simp only [Bool.and_eq_true, decide_eq_true_eq] at hlt
      exact sep_of_step hs (setOri_step _ s hs.wf (notP_closed hs) x hx hlt.1 _)
        (fun j tl hj => Or.inl (hnn j hj)) (fun _ _ => trivial)
    · exact ⟨hs, Same.refl P s⟩
  | setArr x sl v =>
    have hx := hm x (by simp [mentions])
    simp only [stepBase]
    split
    · exact sep_of_step hs (setFresh_spec s x sl (.ints v) hs.wf).1
        (fun j tl hj h => hx (h.1 ▸ hj)) (fun _ _ => trivial)
    · exact ⟨hs, Same.refl P s⟩
  | setScal x k v =>
    have hx := hm x (by simp [mentions])
    simp only [stepBase]
    split
    · exact sep_of_step hs (setMeta_spec s x _ _ hs.wf).1 (fun _ _ _ => trivial) (fun j hj h => hx (h ▸ hj))
    · exact ⟨hs, Same.refl P s⟩
  | setLabel x l =>
    have hx := hm x (by simp [mentions])
    simp only [stepBase]
    split
    · rename_i hlt
      dsimp only
      exact sep_of_step (P' := StyleP x) (M' := (· ≠ x)) hs (setStyle_spec s x _ hs.wf hlt).1
        (fun j tl hj h => hx (h.1 ▸ hj)) (fun j hj h => hx (h ▸ hj))
    · exact ⟨hs, Same.refl P s⟩
  | setProp x k v =>
    have hx := hm x (by simp [mentions])
    simp only [stepBase]
    split
    · rename_i hlt
      dsimp only
      exact sep_of_step (P' := StyleP x) (M' := (· ≠ x)) hs (setStyle_spec s x _ hs.wf hlt).1
        (fun j tl hj h => hx (h.1 ▸ hj)) (fun j hj h => hx (h ▸ hj))
    · exact ⟨hs, Same.refl P s⟩
  | touchStyle x =>
    have hx := hm x (by simp [mentions])
    simp only [stepBase]
    split
    · rename_i hlt
      exact sep_of_step (P' := StyleP x) (M' := (· ≠ x)) hs (realise_spec s x hs.wf hlt).1
        (fun j tl hj h => hx (h.1 ▸ hj)) (fun j hj h => hx (h ▸ hj))
    · exact ⟨hs, Same.refl P s⟩
  | copy o kw => exact ⟨hs, Same.refl P s⟩

theorem kwOp_mentions (root : Nat) (kw : Kw) (op : AOp) (h : kwOp root kw = some op) :
    ∀ i ∈ mentions op, i = root ∨ i ∈ kw.named := by
  cases kw with
  | attr ov => cases ov <;> simp [kwOp] at h <;> subst h <;> simp [mentions]
  | parent p => simp [kwOp] at h; subst h; cases p <;> simp [mentions, Kw.named]
  | children objs => simp [kwOp] at h; subst h; simp [mentions, Kw.named]
  | bad => simp [kwOp] at h; subst h; simp [mentions]

/-- one keyword of `copy(**kwargs)` that names no object of `P`, applied to an object outside `P` -/
theorem kwStep_sep {P} (root : Nat) (r : AForest × Bool) (hs : Sep P r.1) (kw : Kw) (hroot : ¬ P root)
    (hn : ∀ i ∈ kw.named, ¬ P i) : Sep P (kwStep root r kw).1 ∧ Same P r.1 (kwStep root r kw).1 := by
  unfold kwStep
  split
  · cases hk : kwOp root kw with
    | none => exact ⟨hs, Same.refl P _⟩
    | some op =>
      simp only
      refine stepBase_sep r.1 hs op (fun i hi => ?_)
      rcases kwOp_mentions root kw op hk i hi with rfl | h
      · exact hroot
      · exact hn i h
  · exact ⟨hs, Same.refl P _⟩

theorem foldl_kwStep_sep {P} (root : Nat) (hroot : ¬ P root) :
    ∀ (kws : List Kw) (r : AForest × Bool), Sep P r.1 → (∀ kw ∈ kws, ∀ i ∈ kw.named, ¬ P i) →
      Sep P (kws.foldl (kwStep root) r).1 ∧ Same P r.1 (kws.foldl (kwStep root) r).1 := by
  intro kws
  induction kws with
  | nil => intro r hs _; exact ⟨hs, Same.refl P _⟩
  | cons kw kws ih =>
    intro r hs hn
    obtain ⟨a1, a2⟩ := kwStep_sep root r hs kw hroot (hn kw (by simp))
    obtain ⟨b1, b2⟩ := ih _ a1 (fun kw' h => hn kw' (by simp [h]))
    exact ⟨b1, a2.trans b2⟩

theorem copyKw_nil (s : AForest) (o : Nat) : s.copyKw o [] = labelStep s (s.copy0 o) o := by
  unfold copyKw; simp [styleKw, SData.nonempty, SData.empty]

/-- `copy(**kwargs)`, any keywords, of an object outside `P`, naming no object of `P` — also when it raises -/
theorem copyKwG_sep {P} (s : AForest) (hs : Sep P s) (o : Nat) (kws : List Kw) (ho : o < s.f.n) (hoP : ¬ P o)
    (hn : ∀ kw ∈ kws, ∀ i ∈ kw.named, ¬ P i) :
    Sep P (s.copyKwG o kws).1 ∧ Same P s (s.copyKwG o kws).1 := by
  obtain ⟨a1, a2⟩ := copyKw_sep s hs o [] ho hoP
  rw [copyKw_nil] at a1 a2
  have hroot : ¬ P s.f.n := fun h => by have := hs.lt _ h; omega
  obtain ⟨b1, b2⟩ := foldl_kwStep_sep s.f.n hroot kws (labelStep s (s.copy0 o) o, true) a1 hn
  unfold copyKwG
  simp only
  split
  · have hlt : s.f.n < (kws.foldl (kwStep s.f.n) (labelStep s (s.copy0 o) o, true)).1.f.n := by
      refine lt_of_lt_of_le ?_ b2.keeps.n_le
      show s.f.n < (labelStep s (s.copy0 o) o).f.n
      rw [labelStep_f s o hs.wf ho]; exact (root_new s o).2
    obtain ⟨c1, c2⟩ := sep_of_step (P' := StyleP s.f.n) (M' := (· ≠ s.f.n)) b1
      (setStyle_spec _ s.f.n (fun d => d.update (styleKw (attrs kws))) b1.wf hlt).1
      (fun j tl hj h => hroot (h.1 ▸ hj)) (fun j hj h => hroot (h ▸ hj))
    exact ⟨c1, (a2.trans b2).trans c2⟩
  · exact ⟨b1, a2.trans b2⟩

/-- one operation that names no object of `P` -/
theorem step_sep {P} (s : AForest) (hs : Sep P s) (op : AOp) (hm : ∀ i ∈ mentions op, ¬ P i) :
    Sep P (s.step op).1 ∧ Same P s (s.step op).1 := by
  cases op with
  | copy o kw =>
    simp only [step]
    split
    · rename_i hlt
      refine copyKwG_sep s hs o kw hlt (hm o (by simp [mentions])) (fun k hk i hi => hm i ?_)
      simp only [mentions, List.mem_cons, List.mem_flatMap]
      exact Or.inr ⟨k, hk, hi⟩
    · exact ⟨hs, Same.refl P s⟩
  | _ => exact stepBase_sep s hs _ hm

/-- run a history -/
def run (ops : List AOp) (s : AForest) : AForest := ops.foldl (fun s op => (s.step op).1) s

theorem run_sep {P} : ∀ (ops : List AOp) (s : AForest), Sep P s → (∀ op ∈ ops, ∀ i ∈ mentions op, ¬ P i) →
    Sep P (run ops s) ∧ Same P s (run ops s) := by
  intro ops
  induction ops with
  | nil => intro s hs _; exact ⟨hs, Same.refl P s⟩
  | cons op ops ih =>
    intro s hs hm
    obtain ⟨a1, a2⟩ := step_sep s hs op (hm op (by simp))
    obtain ⟨b1, b2⟩ := ih _ a1 (fun op' h => hm op' (by simp [h]))
    exact ⟨b1, a2.trans b2⟩

/-! ### creation -/

theorem initNode_wf (s : AForest) (i : Nat) (sp : Spec) (hw : WF s) :
    WF (s.initNode i sp) ∧ (s.initNode i sp).f = s.f := by
  let s1 : AForest := { s with na := upd s.na i { NodeA.blank sp.cls with scal := sp.scal, skw := sp.skw } }
  have hw1 : WF s1 := by
    constructor
    · intro j sl a hj ha
      by_cases hji : j = i
      · subst hji; simp [s1, upd, NodeA.blank] at ha
      · simp only [s1, upd_other _ _ _ _ hji] at ha; exact hw.bound j sl a hj ha
    · intro j k sl tl a hj hk ha hb
      by_cases hji : j = i
      · subst hji; simp [s1, upd, NodeA.blank] at ha
      · by_cases hki : k = i
        · subst hki; simp [s1, upd, NodeA.blank] at hb
        · simp only [s1, upd_other _ _ _ _ hji] at ha
          simp only [s1, upd_other _ _ _ _ hki] at hb
          exact hw.inj j k sl tl a hj hk ha hb
  have h1 := (setFresh_spec s1 i .pos (.vecs sp.pos) hw1).1
  have h2 := (setFresh_spec _ i .ori (.rots (sp.pos.map fun _ => (1 : ARot))) h1.wf).1
  have key : ∀ (l : List (Slot × List Int)) (t : AForest), WF t →
      WF (l.foldl (fun t e => t.setFresh i e.1 (.ints e.2)) t) ∧
      (l.foldl (fun t e => t.setFresh i e.1 (.ints e.2)) t).f = t.f := by
    intro l
    induction l with
    | nil => intro t ht; exact ⟨ht, rfl⟩
    | cons e l ih =>
      intro t ht
      have := (setFresh_spec t i e.1 (.ints e.2) ht).1
      obtain ⟨a, b⟩ := ih _ this.wf
      exact ⟨a, b.trans this.f_eq⟩
  obtain ⟨a, b⟩ := key sp.arrs _ h2.wf
  have hb := b.trans (h2.f_eq.trans h1.f_eq)
  unfold initNode
  simp only
  split
  · have h3 := (setFresh_spec _ i .kids .list a).1
    exact ⟨h3.wf, h3.f_eq.trans hb⟩
  · exact ⟨a, hb⟩

theorem init_wf (specs : List Spec) : WF (init specs) ∧ (init specs).f = Forest.init (specs.map (·.kind)) := by
  unfold init
  simp only
  have key : ∀ (l : List Nat) (t : AForest), WF t →
      WF (l.foldl (fun s i => match specs[i]? with | some sp => s.initNode i sp | none => s) t) ∧
      (l.foldl (fun s i => match specs[i]? with | some sp => s.initNode i sp | none => s) t).f = t.f := by
    intro l
    induction l with
    | nil => intro t ht; exact ⟨ht, rfl⟩
    | cons i l ih =>
      intro t ht
      simp only [List.foldl_cons]
      cases hsp : specs[i]? with
      | none => exact ih t ht
      | some sp =>
        obtain ⟨a, b⟩ := initNode_wf t i sp ht
        obtain ⟨c, d⟩ := ih _ a
        exact ⟨c, d.trans b⟩
  exact key _ _ ⟨fun i sl a _ h => by simp [NodeA.blank] at h, fun i j sl tl a _ _ h => by simp [NodeA.blank] at h⟩

end AForest
end MagpyVerif
