/-
Lemmas/OwnSensorHist.lean — the field a collection's own sensor reads, over whole histories (C10):
`reading_eq_of_relAt_eq` (Lemmas/OwnSensor.lean) instantiated with the relative-pose equalities that
`objAt_history` (Lemmas/HistoryAddr.lean) delivers for every member a history does not touch.
-/
import MagpyVerif.Lemmas.OwnSensor
import MagpyVerif.Lemmas.HistoryAddr
namespace MagpyVerif
open Gen Spec RotFrom Level2
variable {G V : Type}
variable [Group G] [AddCommGroup V] [DistribMulAction G V]

/-- a re-indexed relative path, read at one index -/
theorem relAt_of_relPath_reindex (c c' d d' : Obj G V) (N N' : Nat) (σ : Nat → Nat)
    (hc : c.pos.length = N ∧ c.ori.length = N) (hd : d.pos.length = N ∧ d.ori.length = N)
    (hc' : c'.pos.length = N' ∧ c'.ori.length = N') (hd' : d'.pos.length = N' ∧ d'.ori.length = N')
    (h : relPath c' d' = reindex σ N' (relPath c d)) (i : Nat) (hi : i < N') (hσ : σ i < N) :
    relAt c' d' i = relAt c d (σ i) := by
  rw [← getElem?_relPath c' d' N' hc' hd', ← getElem?_relPath c d N hc hd, h]
  have hl := length_relPath c d N hc hd
  unfold reindex
  simp only [List.getElem?_map, List.getElem?_range hi, Option.map_some]
  rw [List.getD_eq_getElem?_getD, List.getElem?_eq_getElem (by omega)]
  rfl

section hops
variable {α : Type} [Kern.Num α]

/-- `m` is the address of a member before the history, the member is still there afterwards (not removed, not addressed
itself or through an ancestor below the collection), `d` / `d'` are its objects before / after -/
def TrackedMember (sc : Scipy α G) (ops : List (HOp α G V)) (t : Node G V) (d d' : Obj G V) : Prop :=
  ∃ (k : Nat) (m0 m' : List Nat), histTrack sc ops (k :: m0) = some m' ∧ t.objAt? (k :: m0) = some d ∧
    (ops.foldl (Node.hstep sc) t).objAt? m' = some d'

/-- pointwise form of `objAt_history` -/
theorem relAt_history (sc : Scipy α G) (ops : List (HOp α G V)) (t : Node G V) (N : Nat) (hN : 1 ≤ N)
    (hU : t.UniformLen N) (hadm : AdmissibleAt sc N ops) (d d' : Obj G V) (hm : TrackedMember sc ops t d d')
    (i : Nat) (hi : i < histLen sc N ops) :
    (d.pos.length = N ∧ d.ori.length = N) ∧ (d'.pos.length = histLen sc N ops ∧ d'.ori.length = histLen sc N ops) ∧
    histIdx sc N ops i < N ∧
    relAt (ops.foldl (Node.hstep sc) t).obj d' i = relAt t.obj d (histIdx sc N ops i) := by
  obtain ⟨k, m0, m', htr, hd, hd'⟩ := hm
  obtain ⟨d'', hd'', hrel⟩ := objAt_history sc ops t N hN hU hadm k m0 m' d htr hd
  rw [hd'] at hd''
  cases hd''
  obtain ⟨_, hU', _⟩ := absH_history sc ops t N hN hU hadm
  have hdl := hU d (Node.objAt?_mem _ _ _ hd)
  have hdl' := hU' d' (Node.objAt?_mem _ _ _ hd')
  have ho := hU t.obj (Node.mem_objs_self t)
  have ho' := hU' _ (Node.mem_objs_self _)
  have hlt := histIdx_lt sc ops N hN hadm i hi
  exact ⟨hdl, hdl', hlt, relAt_of_relPath_reindex _ _ _ _ N _ _ ho hdl ho' hdl' hrel i hi hlt⟩

/-- **own-sensor invariance over histories**: sources (arbitrary field functions) and a sensor among the members of a
collection tree; after any admissible history (operations at any address, add, remove) that leaves these members where
they are, the sensor reads at every path index `i` what it read before at index `histIdx … i` -/
theorem reading_history (flipX : V → V) (sc : Scipy α G) (ops : List (HOp α G V)) (t : Node G V) (N : Nat) (hN : 1 ≤ N)
    (hU : t.UniformLen N) (hadm : AdmissibleAt sc N ops)
    (srcs srcs' : List (Obj G V × (V → V))) (ks ks' : Obj G V) (pixels : List V) (pixShape : List Nat) (left : Bool)
    (hs : List.Forall₂ (fun a b => b.2 = a.2 ∧ TrackedMember sc ops t a.1 b.1) srcs srcs')
    (hk : TrackedMember sc ops t ks ks') (i : Nat) (hi : i < histLen sc N ops) :
    reading flipX (entryOf srcs') (sensOf ks' pixels pixShape left) i =
      reading flipX (entryOf srcs) (sensOf ks pixels pixShape left) (histIdx sc N ops i) := by
  obtain ⟨_, hU', _⟩ := absH_history sc ops t N hN hU hadm
  have ho := hU t.obj (Node.mem_objs_self t)
  have ho' := hU' _ (Node.mem_objs_self _)
  obtain ⟨k1, k2, hlt, k4⟩ := relAt_history sc ops t N hN hU hadm ks ks' hk i hi
  apply reading_eq_of_relAt_eq flipX t.obj _ N _ i _ hi hlt ho ho' srcs srcs' ks ks' pixels pixShape left k1 k2 ?_ k4
  induction hs with
  | nil => exact .nil
  | cons hab _ ih =>
    obtain ⟨s1, s2, _, s4⟩ := relAt_history sc ops t N hN hU hadm _ _ hab.2 i hi
    exact .cons ⟨hab.1, s1, s2, s4⟩ ih
end hops
end MagpyVerif
