/-
Lemmas/KernDefined.lean — definedness of the closed-form kernels on their general branch
(property C15, exact real arithmetic): the special-case masks of the wrappers cover the
singular sets of the closed forms.

Cuboid (`magnet_cuboid_Bfield` behind `BHJM_magnet_cuboid`): after the reflection into the
bottom-Q4 octant (`x ≥ 0, y ≤ 0, z ≤ 0`) the 24 factors inside the six logarithms have fixed
signs — 20 positive, the four written `(ymb - mmp)`, `(ypb - ppp)`, `(zmc - mpm)`, `(zpc - ppp)`
negative (two in each of two products, so each product is positive) — except the three factors
that contain the corner distance `mpp`: they vanish exactly on the three *closed body edges*
through the corner `(a, -b, -c)`, not on their extensions.  All of these are inside the
wrapper's edge mask.  `atan2(0, 0)` occurs exactly on the three edge *lines* through that
corner (extensions included).
-/
import MagpyVerif.Lemmas.KernReal
import MagpyVerif.Lemmas.KernAlgebra
import MagpyVerif.Lemmas.SegmentBS
import MagpyVerif.Model.Polyline

namespace MagpyVerif.Kern
open Real

/-! ### Cuboid -/

/-- distance of the (reflected) observer from a corner, as the code computes it -/
noncomputable def cdist (u v w : ℝ) : ℝ := √(u * u + v * v + w * w)

theorem cdist_nonneg (u v w : ℝ) : 0 ≤ cdist u v w := Real.sqrt_nonneg _

theorem abs_lt_cdist1 {u v w : ℝ} (h : v ≠ 0 ∨ w ≠ 0) : |u| < cdist u v w := by
  unfold cdist
  rw [Real.lt_sqrt (abs_nonneg u), sq_abs]
  rcases h with h | h
  · nlinarith [mul_self_pos.mpr h, mul_self_nonneg w]
  · nlinarith [mul_self_pos.mpr h, mul_self_nonneg v]

theorem abs_lt_cdist2 {u v w : ℝ} (h : u ≠ 0 ∨ w ≠ 0) : |v| < cdist u v w := by
  unfold cdist
  rw [Real.lt_sqrt (abs_nonneg v), sq_abs]
  rcases h with h | h
  · nlinarith [mul_self_pos.mpr h, mul_self_nonneg w]
  · nlinarith [mul_self_pos.mpr h, mul_self_nonneg u]

theorem abs_lt_cdist3 {u v w : ℝ} (h : u ≠ 0 ∨ v ≠ 0) : |w| < cdist u v w := by
  unfold cdist
  rw [Real.lt_sqrt (abs_nonneg w), sq_abs]
  rcases h with h | h
  · nlinarith [mul_self_pos.mpr h, mul_self_nonneg v]
  · nlinarith [mul_self_pos.mpr h, mul_self_nonneg u]

theorem cdist_pos {u v w : ℝ} (h : u ≠ 0 ∨ v ≠ 0 ∨ w ≠ 0) : 0 < cdist u v w := by
  rcases h with h | h
  · exact lt_of_le_of_lt (abs_nonneg v) (abs_lt_cdist2 (Or.inl h))
  · exact lt_of_le_of_lt (abs_nonneg u) (abs_lt_cdist1 h)

theorem cdist_eq_zero_iff {u v w : ℝ} : cdist u v w = 0 ↔ u = 0 ∧ v = 0 ∧ w = 0 := by
  constructor
  · intro h
    by_contra hne
    have : u ≠ 0 ∨ v ≠ 0 ∨ w ≠ 0 := by
      by_contra h'
      push Not at h'
      exact hne h'
    exact absurd h (cdist_pos this).ne'
  · rintro ⟨rfl, rfl, rfl⟩
    simp [cdist]

/-- the sign pattern of the 24 logarithm factors of `magnet_cuboid_Bfield`, in the order of the
source: numerator and denominator product of `ff2x`, of `ff2y`, of `ff2z` -/
structure CuboidLogSigns (xma xpa ymb ypb zmc zpc : ℝ) : Prop where
  x1 : 0 < xma + cdist xma ymb zmc
  x2 : 0 < xpa + cdist xpa ypb zmc
  x3 : 0 < xpa + cdist xpa ymb zpc
  x4 : 0 < xma + cdist xma ypb zpc
  x5 : 0 < xpa + cdist xpa ymb zmc
  x6 : 0 < xma + cdist xma ypb zmc
  x7 : 0 < xma + cdist xma ymb zpc
  x8 : 0 < xpa + cdist xpa ypb zpc
  y1 : 0 < -ymb + cdist xma ymb zmc
  y2 : 0 < -ypb + cdist xpa ypb zmc
  y3 : 0 < -ymb + cdist xpa ymb zpc
  y4 : 0 < -ypb + cdist xma ypb zpc
  y5 : 0 < -ymb + cdist xpa ymb zmc
  y6 : 0 < -ypb + cdist xma ypb zmc
  /-- written `(ymb - mmp)` in the source: negative -/
  y7 : ymb - cdist xma ymb zpc < 0
  /-- written `(ypb - ppp)` in the source: negative -/
  y8 : ypb - cdist xpa ypb zpc < 0
  z1 : 0 < -zmc + cdist xma ymb zmc
  z2 : 0 < -zmc + cdist xpa ypb zmc
  z3 : 0 < -zpc + cdist xpa ymb zpc
  z4 : 0 < -zpc + cdist xma ypb zpc
  z5 : 0 < -zmc + cdist xpa ymb zmc
  /-- written `(zmc - mpm)` in the source: negative -/
  z6 : zmc - cdist xma ypb zmc < 0
  z7 : 0 < -zpc + cdist xma ymb zpc
  /-- written `(zpc - ppp)` in the source: negative -/
  z8 : zpc - cdist xpa ypb zpc < 0

/-- the reflected observer is not on one of the three closed body edges through the corner
`(a, -b, -c)`: `xma = x - a`, `ypb = y + b`, `zpc = z + c` -/
structure CuboidOffEdges (xma ypb zpc : ℝ) : Prop where
  ex : ¬ (ypb = 0 ∧ zpc = 0 ∧ xma ≤ 0)
  ey : ¬ (xma = 0 ∧ zpc = 0 ∧ 0 ≤ ypb)
  ez : ¬ (xma = 0 ∧ ypb = 0 ∧ 0 ≤ zpc)

theorem add_cdist_pos_of_off {t v w : ℝ} (h : ¬ (v = 0 ∧ w = 0 ∧ t ≤ 0)) (c : ℝ)
    (hc0 : 0 ≤ c) (hc : v ≠ 0 ∨ w ≠ 0 → |t| < c) : 0 < t + c := by
  by_cases hvw : v ≠ 0 ∨ w ≠ 0
  · have := abs_lt.mp (hc hvw); linarith
  · push Not at hvw
    have : 0 < t := by
      by_contra ht
      exact h ⟨hvw.1, hvw.2, not_lt.mp ht⟩
    linarith

/-- Cuboid, the core sign lemma: in the bottom-Q4 octant (`0 < xpa`, `ymb < 0`, `zmc < 0`, which
is what the reflection and positive side lengths give) and off the three closed body edges
through the corner `(a, -b, -c)` the 24 logarithm factors have the signs of `CuboidLogSigns` -/
theorem cuboid_log_signs {xma xpa ymb ypb zmc zpc : ℝ} (hxp : 0 < xpa) (hym : ymb < 0)
    (hzm : zmc < 0) (hoff : CuboidOffEdges xma ypb zpc) :
    CuboidLogSigns xma xpa ymb ypb zmc zpc := by
  have hxp' : xpa ≠ 0 := hxp.ne'
  have hym' : ymb ≠ 0 := hym.ne
  have hzm' : zmc ≠ 0 := hzm.ne
  have n := cdist_nonneg
  -- strict bounds
  have a_mmm := abs_lt.mp (abs_lt_cdist1 (u := xma) (v := ymb) (w := zmc) (Or.inl hym'))
  have a_mpm := abs_lt.mp (abs_lt_cdist1 (u := xma) (v := ypb) (w := zmc) (Or.inr hzm'))
  have a_mmp := abs_lt.mp (abs_lt_cdist1 (u := xma) (v := ymb) (w := zpc) (Or.inl hym'))
  have b_ppm := abs_lt.mp (abs_lt_cdist2 (u := xpa) (v := ypb) (w := zmc) (Or.inl hxp'))
  have b_mpm := abs_lt.mp (abs_lt_cdist2 (u := xma) (v := ypb) (w := zmc) (Or.inr hzm'))
  have b_ppp := abs_lt.mp (abs_lt_cdist2 (u := xpa) (v := ypb) (w := zpc) (Or.inl hxp'))
  have c_pmp := abs_lt.mp (abs_lt_cdist3 (u := xpa) (v := ymb) (w := zpc) (Or.inl hxp'))
  have c_mmp := abs_lt.mp (abs_lt_cdist3 (u := xma) (v := ymb) (w := zpc) (Or.inr hym'))
  have c_ppp := abs_lt.mp (abs_lt_cdist3 (u := xpa) (v := ypb) (w := zpc) (Or.inl hxp'))
  refine
    { x1 := by linarith, x2 := by linarith [n xpa ypb zmc], x3 := by linarith [n xpa ymb zpc],
      x4 := ?_, x5 := by linarith [n xpa ymb zmc], x6 := by linarith, x7 := by linarith,
      x8 := by linarith [n xpa ypb zpc],
      y1 := by linarith [n xma ymb zmc], y2 := by linarith, y3 := by linarith [n xpa ymb zpc],
      y4 := ?_, y5 := by linarith [n xpa ymb zmc], y6 := by linarith,
      y7 := by linarith [n xma ymb zpc], y8 := by linarith,
      z1 := by linarith [n xma ymb zmc], z2 := by linarith [n xpa ypb zmc], z3 := by linarith,
      z4 := ?_, z5 := by linarith [n xpa ymb zmc], z6 := by linarith [n xma ypb zmc],
      z7 := by linarith, z8 := by linarith }
  · exact add_cdist_pos_of_off hoff.ex _ (n _ _ _) (fun h => abs_lt_cdist1 h)
  · have h : ¬ (xma = 0 ∧ zpc = 0 ∧ -ypb ≤ 0) := fun ⟨h1, h2, h3⟩ => hoff.ey ⟨h1, h2, by linarith⟩
    exact add_cdist_pos_of_off h _ (n _ _ _) (fun h => by rw [abs_neg]; exact abs_lt_cdist2 h)
  · have h : ¬ (xma = 0 ∧ ypb = 0 ∧ -zpc ≤ 0) := fun ⟨h1, h2, h3⟩ => hoff.ez ⟨h1, h2, by linarith⟩
    exact add_cdist_pos_of_off h _ (n _ _ _) (fun h => by rw [abs_neg]; exact abs_lt_cdist3 h)

/-- the sign pattern is sharp: on each of the three closed body edges one factor is zero -/
theorem cuboid_log_zero_on_edge_x {xma ypb zpc : ℝ} (h1 : ypb = 0) (h2 : zpc = 0) (h3 : xma ≤ 0) :
    xma + cdist xma ypb zpc = 0 := by
  subst h1 h2
  have : cdist xma 0 0 = |xma| := by
    unfold cdist; rw [mul_zero, add_zero, add_zero]; exact Real.sqrt_mul_self_eq_abs xma
  rw [this, abs_of_nonpos h3]; ring

theorem cuboid_log_zero_on_edge_y {xma ypb zpc : ℝ} (h1 : xma = 0) (h2 : zpc = 0) (h3 : 0 ≤ ypb) :
    -ypb + cdist xma ypb zpc = 0 := by
  subst h1 h2
  have : cdist 0 ypb 0 = |ypb| := by
    unfold cdist; rw [mul_zero, zero_add, add_zero]; exact Real.sqrt_mul_self_eq_abs ypb
  rw [this, abs_of_nonneg h3]; ring

theorem cuboid_log_zero_on_edge_z {xma ypb zpc : ℝ} (h1 : xma = 0) (h2 : ypb = 0) (h3 : 0 ≤ zpc) :
    -zpc + cdist xma ypb zpc = 0 := by
  subst h1 h2
  have : cdist 0 0 zpc = |zpc| := by
    unfold cdist; rw [mul_zero, zero_add, zero_add]; exact Real.sqrt_mul_self_eq_abs zpc
  rw [this, abs_of_nonneg h3]; ring

theorem log_mul4 {p q r s : ℝ} (hp : p ≠ 0) (hq : q ≠ 0) (hr : r ≠ 0) (hs : s ≠ 0) :
    Real.log (p * q * r * s) = Real.log p + Real.log q + Real.log r + Real.log s := by
  rw [Real.log_mul (by positivity) hs, Real.log_mul (by positivity) hr, Real.log_mul hp hq]

/-- with the signs of `CuboidLogSigns` the six products are positive and the three logarithmic
factors of the model `cuboidFF` are the corresponding sums of logarithms of positive numbers -/
theorem cuboidFF_logs_of_signs {xma xpa ymb ypb zmc zpc : ℝ}
    (S : CuboidLogSigns xma xpa ymb ypb zmc zpc) :
    let F := cuboidFF xma xpa ymb ypb zmc zpc
    F.ff2x = Real.log (xma + cdist xma ymb zmc) + Real.log (xpa + cdist xpa ypb zmc) +
        Real.log (xpa + cdist xpa ymb zpc) + Real.log (xma + cdist xma ypb zpc) -
        (Real.log (xpa + cdist xpa ymb zmc) + Real.log (xma + cdist xma ypb zmc) +
         Real.log (xma + cdist xma ymb zpc) + Real.log (xpa + cdist xpa ypb zpc)) ∧
    F.ff2y = Real.log (-ymb + cdist xma ymb zmc) + Real.log (-ypb + cdist xpa ypb zmc) +
        Real.log (-ymb + cdist xpa ymb zpc) + Real.log (-ypb + cdist xma ypb zpc) -
        (Real.log (-ymb + cdist xpa ymb zmc) + Real.log (-ypb + cdist xma ypb zmc) +
         Real.log (-(ymb - cdist xma ymb zpc)) + Real.log (-(ypb - cdist xpa ypb zpc))) ∧
    F.ff2z = Real.log (-zmc + cdist xma ymb zmc) + Real.log (-zmc + cdist xpa ypb zmc) +
        Real.log (-zpc + cdist xpa ymb zpc) + Real.log (-zpc + cdist xma ypb zpc) -
        (Real.log (-zmc + cdist xpa ymb zmc) + Real.log (-(zmc - cdist xma ypb zmc)) +
         Real.log (-zpc + cdist xma ymb zpc) + Real.log (-(zpc - cdist xpa ypb zpc))) := by
  intro F
  refine ⟨?_, ?_, ?_⟩
  · show Real.log _ - Real.log _ = _
    rw [← log_mul4 S.x1.ne' S.x2.ne' S.x3.ne' S.x4.ne', ← log_mul4 S.x5.ne' S.x6.ne' S.x7.ne' S.x8.ne']
    rfl
  · show Real.log _ - Real.log _ = _
    rw [← log_mul4 S.y1.ne' S.y2.ne' S.y3.ne' S.y4.ne',
      ← log_mul4 S.y5.ne' S.y6.ne' (neg_ne_zero.mpr S.y7.ne) (neg_ne_zero.mpr S.y8.ne)]
    have e : ∀ p q r s : ℝ, p * q * (-r) * (-s) = p * q * r * s := fun p q r s => by ring
    rw [e]
    rfl
  · show Real.log _ - Real.log _ = _
    rw [← log_mul4 S.z1.ne' S.z2.ne' S.z3.ne' S.z4.ne',
      ← log_mul4 S.z5.ne' (neg_ne_zero.mpr S.z6.ne) S.z7.ne' (neg_ne_zero.mpr S.z8.ne)]
    have e : ∀ p q r s : ℝ, p * (-q) * r * (-s) = p * q * r * s := fun p q r s => by ring
    rw [e]
    rfl

/-- the reflection into the bottom-Q4 octant: `x ↦ |x|`, `y ↦ -|y|`, `z ↦ -|z|` -/
theorem cuboidReflect_eq (obs : V3 ℝ) : cuboidReflect obs = ⟨|obs.x|, -|obs.y|, -|obs.z|⟩ := by
  apply V3.ext' <;>
    simp only [cuboidReflect, cuboidFlip, lt_real, n, ofNat_real, Nat.cast_zero, Nat.cast_one,
      decide_eq_true_eq] <;> split_ifs with h
  · rw [abs_of_neg h]; ring
  · rw [abs_of_nonneg (not_lt.mp h)]
  · rw [abs_of_pos h]; ring
  · rw [abs_of_nonpos (not_lt.mp h)]; ring
  · rw [abs_of_pos h]; ring
  · rw [abs_of_nonpos (not_lt.mp h)]; ring

/-- `BHJM_magnet_cuboid`, rows sent to the general branch (`mask_gen`), positive side lengths:
the reflected observer satisfies the octant conditions and is off the three closed body edges
through the corner `(a, -b, -c)` — the wrapper's relative-tolerance edge mask contains them -/
theorem cuboidMasks_general_off_edges (dim pol obs : V3 ℝ) (hx : 0 < dim.x) (hy : 0 < dim.y)
    (hz : 0 < dim.z) (hgen : (cuboidMasks dim pol obs).general = true) :
    let r := cuboidReflect obs
    0 < r.x + dim.x / 2 ∧ r.y - dim.y / 2 < 0 ∧ r.z - dim.z / 2 < 0 ∧
      CuboidOffEdges (r.x - dim.x / 2) (r.y + dim.y / 2) (r.z + dim.z / 2) := by
  intro r
  have hr : r = ⟨|obs.x|, -|obs.y|, -|obs.z|⟩ := cuboidReflect_eq obs
  simp only [hr]
  have hax := abs_nonneg obs.x
  have hay := abs_nonneg obs.y
  have haz := abs_nonneg obs.z
  refine ⟨by linarith, by linarith, by linarith, ?_⟩
  simp only [cuboidMasks, lt_real, abs_real, eq0_real, n, ofNat_real, Nat.cast_ofNat, Nat.cast_one,
    abs_of_pos hx, abs_of_pos hy, abs_of_pos hz, Bool.and_eq_true,
    Bool.not_eq_true', Bool.or_eq_false_iff, Bool.and_eq_false_iff, decide_eq_false_iff_not] at hgen
  obtain ⟨_, ⟨hex, hey⟩, hez⟩ := hgen
  have ta : 0 < 1 / 1000000000000000 * (dim.x / 2) := by positivity
  have tb : 0 < 1 / 1000000000000000 * (dim.y / 2) := by positivity
  have tc : 0 < 1 / 1000000000000000 * (dim.z / 2) := by positivity
  refine ⟨?_, ?_, ?_⟩
  · rintro ⟨h1, h2, h3⟩
    have e1 : |obs.y| - dim.y / 2 = 0 := by linarith
    have e2 : |obs.z| - dim.z / 2 = 0 := by linarith
    rcases hex with (h | h) | h
    · exact h (by rw [e1, abs_zero]; exact tb)
    · exact h (by rw [e2, abs_zero]; exact tc)
    · exact h (by linarith)
  · rintro ⟨h1, h2, h3⟩
    have e1 : |obs.x| - dim.x / 2 = 0 := by linarith
    have e2 : |obs.z| - dim.z / 2 = 0 := by linarith
    rcases hey with (h | h) | h
    · exact h (by rw [e1, abs_zero]; exact ta)
    · exact h (by rw [e2, abs_zero]; exact tc)
    · exact h (by linarith)
  · rintro ⟨h1, h2, h3⟩
    have e1 : |obs.x| - dim.x / 2 = 0 := by linarith
    have e2 : |obs.y| - dim.y / 2 = 0 := by linarith
    rcases hez with (h | h) | h
    · exact h (by rw [e1, abs_zero]; exact ta)
    · exact h (by rw [e2, abs_zero]; exact tb)
    · exact h (by linarith)

/-- the 24 argument pairs `(y, x)` of the `arctan2(y, x)` calls of `magnet_cuboid_Bfield`, in the
order of the source (`ff1x`, `ff1y`, `ff1z`, eight each) -/
noncomputable def cuboidAtan2Args (xma xpa ymb ypb zmc zpc : ℝ) : List (ℝ × ℝ) :=
  let mmm := cdist xma ymb zmc
  let pmp := cdist xpa ymb zpc
  let pmm := cdist xpa ymb zmc
  let mmp := cdist xma ymb zpc
  let mpm := cdist xma ypb zmc
  let ppp := cdist xpa ypb zpc
  let ppm := cdist xpa ypb zmc
  let mpp := cdist xma ypb zpc
  [(ymb * zmc, xma * mmm), (ymb * zmc, xpa * pmm), (ypb * zmc, xma * mpm), (ypb * zmc, xpa * ppm),
   (ymb * zpc, xma * mmp), (ymb * zpc, xpa * pmp), (ypb * zpc, xma * mpp), (ypb * zpc, xpa * ppp),
   (xma * zmc, ymb * mmm), (xpa * zmc, ymb * pmm), (xma * zmc, ypb * mpm), (xpa * zmc, ypb * ppm),
   (xma * zpc, ymb * mmp), (xpa * zpc, ymb * pmp), (xma * zpc, ypb * mpp), (xpa * zpc, ypb * ppp),
   (xma * ymb, zmc * mmm), (xpa * ymb, zmc * pmm), (xma * ypb, zmc * mpm), (xpa * ypb, zmc * ppm),
   (xma * ymb, zpc * mmp), (xpa * ymb, zpc * pmp), (xma * ypb, zpc * mpp), (xpa * ypb, zpc * ppp)]

/-- the list is what the model evaluates: the three `arctan2` factors of `cuboidFF` are the signed
sums of `atan2` over the list entries -/
theorem cuboidFF_atan2_args (xma xpa ymb ypb zmc zpc : ℝ) :
    let F := cuboidFF xma xpa ymb ypb zmc zpc
    let A := cuboidAtan2Args xma xpa ymb ypb zmc zpc
    let at2 : ℕ → ℝ := fun i => Complex.arg ⟨(A.getD i (0, 0)).2, (A.getD i (0, 0)).1⟩
    F.ff1x = at2 0 - at2 1 - at2 2 + at2 3 - at2 4 + at2 5 + at2 6 - at2 7 ∧
    F.ff1y = at2 8 - at2 9 - at2 10 + at2 11 - at2 12 + at2 13 + at2 14 - at2 15 ∧
    F.ff1z = at2 16 - at2 17 - at2 18 + at2 19 - at2 20 + at2 21 + at2 22 - at2 23 :=
  ⟨rfl, rfl, rfl⟩

/-- Cuboid: in the bottom-Q4 octant and off the three edge *lines* through the corner
`(a, -b, -c)` (extensions included) no `arctan2` call receives `(0, 0)` -/
theorem cuboid_atan2_args_ne_zero {xma xpa ymb ypb zmc zpc : ℝ} (hxp : 0 < xpa) (hym : ymb < 0)
    (hzm : zmc < 0) (L1 : ¬ (xma = 0 ∧ ypb = 0)) (L2 : ¬ (xma = 0 ∧ zpc = 0))
    (L3 : ¬ (ypb = 0 ∧ zpc = 0)) :
    ∀ p ∈ cuboidAtan2Args xma xpa ymb ypb zmc zpc, p.1 ≠ 0 ∨ p.2 ≠ 0 := by
  have hxp' : xpa ≠ 0 := hxp.ne'
  have hym' : ymb ≠ 0 := hym.ne
  have hzm' : zmc ≠ 0 := hzm.ne
  have d1 : cdist xma ymb zmc ≠ 0 := (cdist_pos (Or.inr (Or.inl hym'))).ne'
  have d2 : cdist xpa ymb zpc ≠ 0 := (cdist_pos (Or.inl hxp')).ne'
  have d3 : cdist xpa ymb zmc ≠ 0 := (cdist_pos (Or.inl hxp')).ne'
  have d4 : cdist xma ymb zpc ≠ 0 := (cdist_pos (Or.inr (Or.inl hym'))).ne'
  have d5 : cdist xma ypb zmc ≠ 0 := (cdist_pos (Or.inr (Or.inr hzm'))).ne'
  have d6 : cdist xpa ypb zpc ≠ 0 := (cdist_pos (Or.inl hxp')).ne'
  have d7 : cdist xpa ypb zmc ≠ 0 := (cdist_pos (Or.inl hxp')).ne'
  have d8 : cdist xma ypb zpc ≠ 0 := by
    intro h
    obtain ⟨h1, h2, _⟩ := cdist_eq_zero_iff.mp h
    exact L1 ⟨h1, h2⟩
  intro p hp
  simp only [cuboidAtan2Args, List.mem_cons, List.not_mem_nil, or_false] at hp
  rcases hp with rfl | rfl | rfl | rfl | rfl | rfl | rfl | rfl | rfl | rfl | rfl | rfl | rfl | rfl |
    rfl | rfl | rfl | rfl | rfl | rfl | rfl | rfl | rfl | rfl <;>
  · simp only [ne_eq, mul_eq_zero, not_or]
    tauto

/-- … and on each of the three edge lines (body edge or extension) some call does receive `(0, 0)`:
the hypothesis of `cuboid_atan2_args_ne_zero` is sharp -/
theorem cuboid_atan2_zero_on_edge_lines (xma xpa ymb ypb zmc zpc : ℝ)
    (h : (xma = 0 ∧ ypb = 0) ∨ (xma = 0 ∧ zpc = 0) ∨ (ypb = 0 ∧ zpc = 0)) :
    (0, 0) ∈ cuboidAtan2Args xma xpa ymb ypb zmc zpc := by
  simp only [cuboidAtan2Args, List.mem_cons, Prod.mk.injEq, List.not_mem_nil, or_false]
  rcases h with ⟨h1, h2⟩ | ⟨h1, h2⟩ | ⟨h1, h2⟩
  · right; right; left
    rw [h1, h2]; simp
  · right; right; right; right; left
    rw [h1, h2]; simp
  · iterate 15 right
    left
    rw [h1, h2]; simp

/-! ### Triangle sheet: the edge integrals `I` and the solid angle of `triangle_Bfield` -/

theorem dot_self_nonneg (R : V3 ℝ) : 0 ≤ V3.dot R R := by
  simp only [V3.dot]; nlinarith [mul_self_nonneg R.x, mul_self_nonneg R.y, mul_self_nonneg R.z]

theorem dot_self_pos {R : V3 ℝ} (h : R.x ≠ 0 ∨ R.y ≠ 0 ∨ R.z ≠ 0) : 0 < V3.dot R R := by
  simp only [V3.dot]
  rcases h with h | h | h
  · nlinarith [mul_self_pos.mpr h, mul_self_nonneg R.y, mul_self_nonneg R.z]
  · nlinarith [mul_self_pos.mpr h, mul_self_nonneg R.x, mul_self_nonneg R.z]
  · nlinarith [mul_self_pos.mpr h, mul_self_nonneg R.x, mul_self_nonneg R.y]

/-- Cauchy–Schwarz through Lagrange's identity -/
theorem dot_sq_le (R L : V3 ℝ) : V3.dot R L * V3.dot R L ≤ V3.dot R R * V3.dot L L := by
  simp only [V3.dot]
  nlinarith [mul_self_nonneg (R.x * L.y - R.y * L.x), mul_self_nonneg (R.y * L.z - R.z * L.y),
    mul_self_nonneg (R.z * L.x - R.x * L.z)]

theorem abs_dot_le (R L : V3 ℝ) : |V3.dot R L| ≤ √(V3.dot R R) * √(V3.dot L L) := by
  rw [← Real.sqrt_mul (dot_self_nonneg R), ← Real.sqrt_mul_self (abs_nonneg _), abs_mul_abs_self]
  exact Real.sqrt_le_sqrt (dot_sq_le R L)

/-- the observer (the origin of the vertex-minus-observer vectors `R`, `S`) lies on the closed
segment between the two vertices -/
def OriginOnSegment (R S : V3 ℝ) : Prop :=
  ∃ t : ℝ, 0 ≤ t ∧ t ≤ 1 ∧ (1 - t) * R.x + t * S.x = 0 ∧ (1 - t) * R.y + t * S.y = 0 ∧
    (1 - t) * R.z + t * S.z = 0

theorem dot_self_eq_zero {R : V3 ℝ} (h : V3.dot R R = 0) : R.x = 0 ∧ R.y = 0 ∧ R.z = 0 := by
  simp only [V3.dot] at h
  refine ⟨?_, ?_, ?_⟩ <;> nlinarith [mul_self_nonneg R.x, mul_self_nonneg R.y, mul_self_nonneg R.z]

/-- equality in Cauchy–Schwarz with the negative sign: `|R||S| + R·S = 0` only if the observer is
on the closed segment between the two vertices -/
theorem originOnSegment_of_eq (R S : V3 ℝ) (h : √(V3.dot R R) * √(V3.dot S S) + V3.dot R S = 0) :
    OriginOnSegment R S := by
  set r := √(V3.dot R R) with hr_def
  set s := √(V3.dot S S) with hs_def
  have hr0 : 0 ≤ r := Real.sqrt_nonneg _
  have hs0 : 0 ≤ s := Real.sqrt_nonneg _
  have hr2 : r * r = V3.dot R R := Real.mul_self_sqrt (dot_self_nonneg R)
  have hs2 : s * s = V3.dot S S := Real.mul_self_sqrt (dot_self_nonneg S)
  by_cases hr : r = 0
  · have hR : V3.dot R R = 0 := by rw [← hr2, hr, mul_zero]
    obtain ⟨h1, h2, h3⟩ := dot_self_eq_zero hR
    exact ⟨0, le_rfl, zero_le_one, by rw [h1]; ring, by rw [h2]; ring, by rw [h3]; ring⟩
  by_cases hs : s = 0
  · have hS : V3.dot S S = 0 := by rw [← hs2, hs, mul_zero]
    obtain ⟨h1, h2, h3⟩ := dot_self_eq_zero hS
    exact ⟨1, zero_le_one, le_rfl, by rw [h1]; ring, by rw [h2]; ring, by rw [h3]; ring⟩
  have hrp : 0 < r := lt_of_le_of_ne hr0 (Ne.symm hr)
  have hsp : 0 < s := lt_of_le_of_ne hs0 (Ne.symm hs)
  -- |s R + r S|² = 2 r s (r s + R·S) = 0
  have hsum : (s * R.x + r * S.x) * (s * R.x + r * S.x) + (s * R.y + r * S.y) * (s * R.y + r * S.y) +
      (s * R.z + r * S.z) * (s * R.z + r * S.z) = 0 := by
    have e : (s * R.x + r * S.x) * (s * R.x + r * S.x) + (s * R.y + r * S.y) * (s * R.y + r * S.y) +
        (s * R.z + r * S.z) * (s * R.z + r * S.z) =
        s * s * V3.dot R R + r * r * V3.dot S S + 2 * r * s * V3.dot R S := by
      simp only [V3.dot]; ring
    rw [e, ← hr2, ← hs2]
    have : V3.dot R S = -(r * s) := by linarith
    rw [this]; ring
  have hx : s * R.x + r * S.x = 0 := by
    nlinarith [mul_self_nonneg (s * R.x + r * S.x), mul_self_nonneg (s * R.y + r * S.y),
      mul_self_nonneg (s * R.z + r * S.z)]
  have hy : s * R.y + r * S.y = 0 := by
    nlinarith [mul_self_nonneg (s * R.x + r * S.x), mul_self_nonneg (s * R.y + r * S.y),
      mul_self_nonneg (s * R.z + r * S.z)]
  have hz : s * R.z + r * S.z = 0 := by
    nlinarith [mul_self_nonneg (s * R.x + r * S.x), mul_self_nonneg (s * R.y + r * S.y),
      mul_self_nonneg (s * R.z + r * S.z)]
  have hrs : 0 < r + s := by linarith
  refine ⟨r / (r + s), by positivity, by rw [div_le_one hrs]; linarith, ?_, ?_, ?_⟩
  · have : (1 - r / (r + s)) * R.x + r / (r + s) * S.x = (s * R.x + r * S.x) / (r + s) := by
      field_simp; ring
    rw [this, hx, zero_div]
  · have : (1 - r / (r + s)) * R.y + r / (r + s) * S.y = (s * R.y + r * S.y) / (r + s) := by
      field_simp; ring
    rw [this, hy, zero_div]
  · have : (1 - r / (r + s)) * R.z + r / (r + s) * S.z = (s * R.z + r * S.z) / (r + s) := by
      field_simp; ring
    rw [this, hz, zero_div]

/-- numerator and denominator of the `arctan2` of `solid_angle` (van Oosterom–Strackee) satisfy
`N² + D² = 2 (r0 r1 + R0·R1)(r1 r2 + R1·R2)(r0 r2 + R0·R2)` -/
theorem solidAngle_ND_identity (R0 R1 R2 : V3 ℝ) :
    let r0 := √(V3.dot R0 R0); let r1 := √(V3.dot R1 R1); let r2 := √(V3.dot R2 R2)
    let N := V3.dot R2 (V3.cross R1 R0)
    let D := r0 * r1 * r2 + V3.dot R2 R1 * r0 + V3.dot R2 R0 * r1 + V3.dot R1 R0 * r2
    N * N + D * D = 2 * (r0 * r1 + V3.dot R0 R1) * (r1 * r2 + V3.dot R1 R2) * (r0 * r2 + V3.dot R0 R2) := by
  intro r0 r1 r2 N D
  have h0 : r0 * r0 = V3.dot R0 R0 := Real.mul_self_sqrt (dot_self_nonneg R0)
  have h1 : r1 * r1 = V3.dot R1 R1 := Real.mul_self_sqrt (dot_self_nonneg R1)
  have h2 : r2 * r2 = V3.dot R2 R2 := Real.mul_self_sqrt (dot_self_nonneg R2)
  simp only [N, D]
  simp only [V3.dot, V3.cross] at h0 h1 h2 ⊢
  linear_combination
    (-(r1 * r1 * (r2 * r2)) +
      (R1.x * R2.x + R1.y * R2.y + R1.z * R2.z) * (R1.x * R2.x + R1.y * R2.y + R1.z * R2.z)) * h0 +
    (-((R0.x * R0.x + R0.y * R0.y + R0.z * R0.z) * (r2 * r2)) +
      (R0.x * R2.x + R0.y * R2.y + R0.z * R2.z) * (R0.x * R2.x + R0.y * R2.y + R0.z * R2.z)) * h1 +
    (-((R0.x * R0.x + R0.y * R0.y + R0.z * R0.z) * (R1.x * R1.x + R1.y * R1.y + R1.z * R1.z)) +
      (R0.x * R1.x + R0.y * R1.y + R0.z * R1.z) * (R0.x * R1.x + R0.y * R1.y + R0.z * R1.z)) * h2

/-- `solid_angle`: off the three closed edges the `arctan2` does not receive `(0, 0)` -/
theorem solidAngle_args_ne_zero (R0 R1 R2 : V3 ℝ) (h01 : ¬ OriginOnSegment R0 R1)
    (h12 : ¬ OriginOnSegment R1 R2) (h02 : ¬ OriginOnSegment R0 R2) :
    let r0 := √(V3.dot R0 R0); let r1 := √(V3.dot R1 R1); let r2 := √(V3.dot R2 R2)
    V3.dot R2 (V3.cross R1 R0) ≠ 0 ∨
      r0 * r1 * r2 + V3.dot R2 R1 * r0 + V3.dot R2 R0 * r1 + V3.dot R1 R0 * r2 ≠ 0 := by
  intro r0 r1 r2
  by_contra hc
  push Not at hc
  obtain ⟨hN, hD⟩ := hc
  have hid := solidAngle_ND_identity R0 R1 R2
  simp only at hid
  rw [hN, hD] at hid
  have hz : (r0 * r1 + V3.dot R0 R1) * (r1 * r2 + V3.dot R1 R2) * (r0 * r2 + V3.dot R0 R2) = 0 := by
    linarith
  rcases mul_eq_zero.mp hz with h | h
  · rcases mul_eq_zero.mp h with h | h
    · exact h01 (originOnSegment_of_eq R0 R1 h)
    · exact h12 (originOnSegment_of_eq R1 R2 h)
  · exact h02 (originOnSegment_of_eq R0 R2 h)

theorem originOnSegment_of_left_zero {R S : V3 ℝ} (h : V3.dot R R = 0) : OriginOnSegment R S := by
  obtain ⟨h1, h2, h3⟩ := dot_self_eq_zero h
  exact ⟨0, le_rfl, zero_le_one, by rw [h1]; ring, by rw [h2]; ring, by rw [h3]; ring⟩

theorem originOnSegment_of_right_zero {R S : V3 ℝ} (h : V3.dot S S = 0) : OriginOnSegment R S := by
  obtain ⟨h1, h2, h3⟩ := dot_self_eq_zero h
  exact ⟨1, zero_le_one, le_rfl, by rw [h1]; ring, by rw [h2]; ring, by rw [h3]; ring⟩

/-! #### the edge integral `triEdgeI` (repaired form: no cancelling sums) -/

/-- every operation of the branch of `triEdgeI` that is taken is defined (`rr = R·R`, `nn = Rn·Rn`,
`ll = L·L`, `rl = R·L`, `nl = Rn·L`, `xr = |R×L|²`, `xn = |Rn×L|²`; `a = rl/l`, `c = nl/l`,
`rho2 = (xn or xr)/ll`): the square roots receive non-negative numbers, the divisors `l`, `l2` are positive;
on the on-edge branch (`triEdgeOn`) the divisor `c` and the argument `-a/c` of `log` are positive; otherwise,
in the sub-branch that is selected by the signs of `a` and `c`, the divisor (`r + a`, `rn - c` resp.
`rho2`) and the argument of `log` are positive -/
def TriEdgeDefined (rr nn ll rl nl xr xn : ℝ) : Prop :=
  0 ≤ rr ∧ 0 ≤ nn ∧ 0 < ll ∧ 0 < √ll ∧
  (triEdgeOn rr nn ll rl nl xr xn → 0 < nl / √ll ∧ 0 < -(rl / √ll) / (nl / √ll)) ∧
  (¬ triEdgeOn rr nn ll rl nl xr xn →
    (0 ≤ rl / √ll → 0 < √rr + rl / √ll ∧ 0 < (√nn + nl / √ll) / (√rr + rl / √ll)) ∧
    (¬ 0 ≤ rl / √ll → nl / √ll < 0 → 0 < √nn - nl / √ll ∧ 0 < (√rr - rl / √ll) / (√nn - nl / √ll)) ∧
    (¬ 0 ≤ rl / √ll → ¬ nl / √ll < 0 → 0 < (if √nn < √rr then xn else xr) / ll ∧
      0 < (√nn + nl / √ll) * (√rr - rl / √ll) / ((if √nn < √rr then xn else xr) / ll)))

/-- Lagrange's identity `|R×L|² = |R|²|L|² − (R·L)²` -/
theorem cross_dot_lagrange (R L : V3 ℝ) :
    V3.dot (V3.cross R L) (V3.cross R L) = V3.dot R R * V3.dot L L - V3.dot R L * V3.dot R L := by
  simp only [V3.dot, V3.cross]; ring

theorem cross_add_self (R L : V3 ℝ) : V3.cross (R + L) L = V3.cross R L := by
  apply V3.ext' <;> simp only [V3.cross, V3.add_x, V3.add_y, V3.add_z] <;> ring

theorem dot_add_self (R L : V3 ℝ) : V3.dot (R + L) L = V3.dot R L + V3.dot L L := by
  simp only [V3.dot, V3.add_x, V3.add_y, V3.add_z]; ring

/-- `R×L = 0`, `R·L < 0 ≤ (R+L)·L`: the observer is on the edge from `R` to `R + L` (BAC–CAB:
`(L·L) R − (R·L) L = L×(R×L)`) -/
theorem originOnSegment_of_cross_zero (R L : V3 ℝ) (hL : 0 < V3.dot L L)
    (hx : V3.dot (V3.cross R L) (V3.cross R L) = 0) (ha : V3.dot R L < 0) (hc : 0 ≤ V3.dot R L + V3.dot L L) :
    OriginOnSegment R (R + L) := by
  obtain ⟨x1, x2, x3⟩ := dot_self_eq_zero hx
  simp only [V3.cross] at x1 x2 x3
  have hl : V3.dot L L ≠ 0 := hL.ne'
  refine ⟨-(V3.dot R L) / V3.dot L L, by apply div_nonneg <;> linarith, by rw [div_le_one hL]; linarith, ?_, ?_, ?_⟩
  · simp only [V3.add_x]
    have : (1 - -(V3.dot R L) / V3.dot L L) * R.x + -(V3.dot R L) / V3.dot L L * (R.x + L.x) =
        (V3.dot L L * R.x - V3.dot R L * L.x) / V3.dot L L := by field_simp; ring
    rw [this, div_eq_zero_iff]; left
    simp only [V3.dot]; linear_combination L.y * x3 - L.z * x2
  · simp only [V3.add_y]
    have : (1 - -(V3.dot R L) / V3.dot L L) * R.y + -(V3.dot R L) / V3.dot L L * (R.y + L.y) =
        (V3.dot L L * R.y - V3.dot R L * L.y) / V3.dot L L := by field_simp; ring
    rw [this, div_eq_zero_iff]; left
    simp only [V3.dot]; linear_combination L.z * x1 - L.x * x3
  · simp only [V3.add_z]
    have : (1 - -(V3.dot R L) / V3.dot L L) * R.z + -(V3.dot R L) / V3.dot L L * (R.z + L.z) =
        (V3.dot L L * R.z - V3.dot R L * L.z) / V3.dot L L := by field_simp; ring
    rw [this, div_eq_zero_iff]; left
    simp only [V3.dot]; linear_combination L.x * x2 - L.y * x1

/-- the branch test of `triEdgeI` in geometric terms: the observer is closer than `1e-15` edge lengths to
the line through the edge (`|R×L|² ≤ 1e-30 (L·L)²`) and its foot point lies strictly between the two ends
(`R·L < 0 < R·L + L·L`) -/
theorem triEdgeOn_iff (R L : V3 ℝ) (hL : 0 < V3.dot L L) :
    triEdgeOn (V3.dot R R) (V3.dot (R + L) (R + L)) (V3.dot L L) (V3.dot R L) (V3.dot (R + L) L)
      (V3.dot (V3.cross R L) (V3.cross R L)) (V3.dot (V3.cross (R + L) L) (V3.cross (R + L) L)) ↔
    V3.dot (V3.cross R L) (V3.cross R L) ≤ 1 / 1000000000000000000000000000000 * (V3.dot L L * V3.dot L L) ∧
      V3.dot R L < 0 ∧ 0 < V3.dot R L + V3.dot L L := by
  have hl : 0 < √(V3.dot L L) := Real.sqrt_pos.mpr hL
  unfold triEdgeOn
  rw [cross_add_self, dot_add_self, ite_self, div_le_iff₀ hL, div_neg_iff, div_pos_iff, mul_assoc]
  constructor
  · rintro ⟨⟨hx, ha⟩, hc⟩
    refine ⟨hx, ?_, ?_⟩
    · rcases ha with h | h
      · exact absurd h.2 (not_lt.mpr hl.le)
      · exact h.1
    · rcases hc with h | h
      · exact h.1
      · exact absurd h.2 (not_lt.mpr hl.le)
  · rintro ⟨hx, ha, hc⟩
    exact ⟨⟨hx, Or.inr ⟨ha, hl⟩⟩, Or.inl ⟨hc, hl⟩⟩

/-- the repaired edge integral is defined off the closed edge: whichever branch is taken — the on-edge
value inside the `1e-15 l` tube alongside the edge, or the sub-branch selected by the signs of `a = R·L/l`
and `c = Rn·L/l` — the divisors and the argument of the logarithm are positive.  No hypothesis on the
distance from the edge line or from the vertices besides "not on the closed edge" is needed (the narrow cone
around the edge's extension, where the earlier `ind ≤ 1e-12·l` switch computed `log(|l - r|/r)`, is gone; the
on-edge value `log(-a/c)` has no singular point inside its tube). -/
theorem triEdge_defined (R L : V3 ℝ) (hL : 0 < V3.dot L L) (hoff : ¬ OriginOnSegment R (R + L)) :
    TriEdgeDefined (V3.dot R R) (V3.dot (R + L) (R + L)) (V3.dot L L) (V3.dot R L) (V3.dot (R + L) L)
      (V3.dot (V3.cross R L) (V3.cross R L)) (V3.dot (V3.cross (R + L) L) (V3.cross (R + L) L)) := by
  have hl : 0 < √(V3.dot L L) := Real.sqrt_pos.mpr hL
  have hrr : 0 < V3.dot R R := lt_of_le_of_ne (dot_self_nonneg R)
    (fun e => hoff (originOnSegment_of_left_zero e.symm))
  have hnn : 0 < V3.dot (R + L) (R + L) := lt_of_le_of_ne (dot_self_nonneg _)
    (fun e => hoff (originOnSegment_of_right_zero e.symm))
  have hr : 0 < √(V3.dot R R) := Real.sqrt_pos.mpr hrr
  have hn : 0 < √(V3.dot (R + L) (R + L)) := Real.sqrt_pos.mpr hnn
  refine ⟨dot_self_nonneg R, dot_self_nonneg _, hL, hl, ?_, fun _ => ⟨?_, ?_, ?_⟩⟩
  · -- the on-edge value: a < 0 < c by the branch test itself
    rintro ⟨⟨_, ha⟩, hc⟩
    exact ⟨hc, div_pos (by linarith) hc⟩
  · -- behind the start: a ≥ 0, hence c = a + l > 0
    intro ha
    have ha' : 0 ≤ V3.dot R L := by
      rcases div_nonneg_iff.mp ha with h | h
      · exact h.1
      · exact absurd h.2 (not_le.mpr hl)
    have hc : 0 < V3.dot (R + L) L / √(V3.dot L L) := by
      rw [dot_add_self]; exact div_pos (by linarith) hl
    have h1 : 0 < √(V3.dot R R) + V3.dot R L / √(V3.dot L L) := by linarith
    exact ⟨h1, div_pos (by linarith) h1⟩
  · -- beyond the end: c < 0 (and a < 0)
    intro ha hc
    have h1 : 0 < √(V3.dot (R + L) (R + L)) - V3.dot (R + L) L / √(V3.dot L L) := by linarith
    exact ⟨h1, div_pos (by linarith [not_le.mp ha]) h1⟩
  · -- alongside the edge: a < 0 ≤ c, off the edge hence rho2 > 0
    intro ha hc
    have ha1 : V3.dot R L / √(V3.dot L L) < 0 := not_le.mp ha
    have hc1 : 0 ≤ V3.dot (R + L) L / √(V3.dot L L) := not_lt.mp hc
    have ha' : V3.dot R L < 0 := by
      rcases div_neg_iff.mp ha1 with h | h
      · exact absurd h.2 (not_lt.mpr hl.le)
      · exact h.1
    have hc' : 0 ≤ V3.dot R L + V3.dot L L := by
      rw [dot_add_self] at hc1
      rcases div_nonneg_iff.mp hc1 with h | h
      · exact h.1
      · exact absurd h.2 (not_le.mpr hl)
    have hx0 : 0 ≤ V3.dot (V3.cross R L) (V3.cross R L) := dot_self_nonneg _
    have hxpos : 0 < V3.dot (V3.cross R L) (V3.cross R L) := lt_of_le_of_ne hx0
      (fun e => hoff (originOnSegment_of_cross_zero R L hL e.symm ha' hc'))
    have hrho : 0 < (if √(V3.dot (R + L) (R + L)) < √(V3.dot R R) then
        V3.dot (V3.cross (R + L) L) (V3.cross (R + L) L) else V3.dot (V3.cross R L) (V3.cross R L)) / V3.dot L L := by
      rw [cross_add_self, ite_self]; exact div_pos hxpos hL
    exact ⟨hrho, div_pos (mul_pos (by linarith) (by linarith)) hrho⟩

/-- a triangle with non-zero normal vector `(v1 - v0) × (v2 - v0)` has three edges of positive length -/
theorem triangle_edges_pos (v0 v1 v2 : V3 ℝ)
    (hnd : (V3.cross (v1 - v0) (v2 - v0)).x ≠ 0 ∨ (V3.cross (v1 - v0) (v2 - v0)).y ≠ 0 ∨
      (V3.cross (v1 - v0) (v2 - v0)).z ≠ 0) :
    0 < V3.dot (v1 - v0) (v1 - v0) ∧ 0 < V3.dot (v2 - v1) (v2 - v1) ∧ 0 < V3.dot (v0 - v2) (v0 - v2) := by
  have key : ∀ L : V3 ℝ, (V3.dot L L = 0 → False) → 0 < V3.dot L L := fun L h =>
    lt_of_le_of_ne (dot_self_nonneg L) (fun e => h e.symm)
  simp only [V3.cross, V3.sub_x, V3.sub_y, V3.sub_z] at hnd
  refine ⟨key _ ?_, key _ ?_, key _ ?_⟩ <;> intro h <;> obtain ⟨h1, h2, h3⟩ := dot_self_eq_zero h <;>
    simp only [V3.sub_x, V3.sub_y, V3.sub_z] at h1 h2 h3
  · rcases hnd with e | e | e <;> apply e
    · rw [h2, h3]; ring
    · rw [h3, h1]; ring
    · rw [h1, h2]; ring
  · have e1 : v2.x = v1.x := by linarith
    have e2 : v2.y = v1.y := by linarith
    have e3 : v2.z = v1.z := by linarith
    rcases hnd with e | e | e <;> apply e <;> simp only [e1, e2, e3] <;> ring
  · have e1 : v2.x = v0.x := by linarith
    have e2 : v2.y = v0.y := by linarith
    have e3 : v2.z = v0.z := by linarith
    rcases hnd with e | e | e <;> apply e <;> simp only [e1, e2, e3] <;> ring

/-! ### Polyline: `mask_equal` of `BHJM_current_polyline` and `mask1` of `current_polyline_Hfield` -/

/-- `mask_equal` false: the segment has positive length -/
theorem v3eq_false_nsq_pos (p1 p2 : V3 ℝ) (h : v3eq p1 p2 = false) : 0 < SegBS.nsq (p2 - p1) := by
  simp only [v3eq, eq0_real, Bool.and_eq_false_iff, decide_eq_false_iff_not] at h
  simp only [SegBS.nsq, V3.sub_x, V3.sub_y, V3.sub_z]
  rcases h with (h | h) | h
  · have : p2.x - p1.x ≠ 0 := fun e => h (by linarith)
    nlinarith [mul_self_pos.mpr this, mul_self_nonneg (p2.y - p1.y), mul_self_nonneg (p2.z - p1.z)]
  · have : p2.y - p1.y ≠ 0 := fun e => h (by linarith)
    nlinarith [mul_self_pos.mpr this, mul_self_nonneg (p2.x - p1.x), mul_self_nonneg (p2.z - p1.z)]
  · have : p2.z - p1.z ≠ 0 := fun e => h (by linarith)
    nlinarith [mul_self_pos.mpr this, mul_self_nonneg (p2.x - p1.x), mul_self_nonneg (p2.y - p1.y)]

/-- a row that passes both masks — end points not equal, normalised distance from the carrier line
`norm_o4` not below `1e-15` — has its observer off the carrier line -/
theorem polyline_masks_off_line (p1 p2 po : V3 ℝ) (hne : v3eq p1 p2 = false)
    (hmask : ¬ (segmentCore (vd p1 (Kern.norm (p1 - p2))) (vd p2 (Kern.norm (p1 - p2)))
      (vd po (Kern.norm (p1 - p2)))).2.1 < 1 / 1000000000000000) :
    0 < SegBS.nsq (V3.cross (p2 - p1) (po - p1)) := by
  have hd := v3eq_false_nsq_pos p1 p2 hne
  set L := Kern.norm (p1 - p2) with hLdef
  have hL : 0 < L := by
    rw [hLdef, SegBS.norm_eq, SegBS.nsq_swap]; exact Real.sqrt_pos.mpr hd
  have hLL : L * L = SegBS.nsq (p2 - p1) := by rw [hLdef, SegBS.norm_mul_self, SegBS.nsq_swap]
  have hu : SegBS.nsq (vd p2 L - vd p1 L) = 1 := by
    rw [SegBS.vd_sub, SegBS.nsq_vd _ L hL.ne', hLL]; exact div_self hd.ne'
  have hno4 : 0 < (segmentCore (vd p1 L) (vd p2 L) (vd po L)).2.1 :=
    lt_of_lt_of_le (by norm_num) (not_lt.mp hmask)
  rw [SegBS.core_unit _ _ _ hu] at hno4
  simp only at hno4
  have hD := Real.sqrt_pos.mp hno4
  rw [← SegBS.nsq_cross (vd p1 L) (vd p2 L) (vd po L) hu, SegBS.vd_sub, SegBS.vd_sub,
    SegBS.cross_vd _ _ L hL.ne', SegBS.nsq_vd _ _ (by positivity)] at hD
  have hLp : 0 < L * L * (L * L) := by positivity
  by_contra hc
  have h0 : SegBS.nsq (V3.cross (p2 - p1) (po - p1)) = 0 :=
    le_antisymm (not_lt.mp hc) (SegBS.nsq_nonneg _)
  rw [h0, zero_div] at hD
  exact lt_irrefl _ hD

end MagpyVerif.Kern
