/- lemmas about the marshalling model Model/Level2.lean (C03–C06) -/
import Mathlib.Algebra.GroupWithZero.Action.Defs
import Mathlib.Tactic.Abel
import Mathlib.Tactic.Group
import MagpyVerif.Model.Level2
namespace MagpyVerif.Level2
variable {G V : Type}

section collapse
variable [Add V]

theorem sumT_singleton (t : List (List V)) : sumT [t] = t := rfl

/-- C05: the slice-sum-and-delete loop returns, for every top-level entry, the sum over the
leaves of that entry — for any mix, order and nesting of bare sources and collections. -/
theorem collapse_spec (f : Src G V → List (List V)) :
    ∀ (rest : List (Entry G V)) (done : List (List (List V))),
      (∀ e ∈ rest, e.leaves ≠ []) →
      collapse done.length (rest.map Entry.colLen) (done ++ (rest.flatMap Entry.leaves).map f) =
        done ++ rest.map (fun e => sumT (e.leaves.map f)) := by
  intro rest
  induction rest with
  | nil => intro done _; simp [collapse]
  | cons e rest ih =>
    intro done hne
    have hrest : ∀ e ∈ rest, e.leaves ≠ [] := fun e' h' => hne e' (by simp [h'])
    cases e with
    | leaf s =>
      simp only [List.map_cons, Entry.colLen, collapse, List.flatMap_cons, Entry.leaves,
        List.singleton_append, sumT_singleton]
      have := ih (done ++ [f s]) hrest
      simp only [List.length_append, List.length_singleton, List.append_assoc, List.singleton_append] at this
      exact this
    | coll cs =>
      have hlen : 0 < (Entry.coll cs : Entry G V).leaves.length :=
        List.length_pos_iff.mpr (hne _ (by simp))
      simp only [List.map_cons, Entry.colLen, collapse, List.flatMap_cons, List.map_append]
      have h1 : (done ++ ((Entry.coll cs).leaves.map f ++ (rest.flatMap Entry.leaves).map f)).take done.length = done := by
        simp
      have h2 : ((done ++ ((Entry.coll cs).leaves.map f ++ (rest.flatMap Entry.leaves).map f)).drop done.length).take
          (Entry.coll cs).leaves.length = (Entry.coll cs).leaves.map f := by
        simp
      have h3 : (done ++ ((Entry.coll cs).leaves.map f ++ (rest.flatMap Entry.leaves).map f)).drop
          (done.length + (Entry.coll cs).leaves.length) = (rest.flatMap Entry.leaves).map f := by
        rw [← List.drop_drop]; simp
      rw [h1, h2, h3]
      have := ih (done ++ [sumT ((Entry.coll cs).leaves.map f)]) hrest
      simp only [List.length_append, List.length_singleton, List.append_assoc, List.singleton_append] at this
      simp only [List.append_assoc, List.singleton_append]
      exact this
end collapse

section sens
variable [Group G] [AddCommGroup V] [DistribMulAction G V] [BEq G] [LawfulBEq G]

theorem clampGet_of_all {α} [BEq α] [LawfulBEq α] (xs : List α) (a : α) (h : xs.all (· == a) = true)
    (m : Nat) (x : α) (hx : clampGet xs m = some x) : x = a := by
  unfold clampGet at hx
  have hmem : x ∈ xs := List.mem_of_getElem? hx
  have := List.all_eq_true.mp h x hmem
  exact eq_of_beq this

/-- all entries of a path equal its first entry (static orientation) -/
theorem clampGet_static (q : G) (qs : List G) (h : qs.all (· == q) = true) (m : Nat) :
    clampGet (q :: qs) m = some q := by
  unfold clampGet
  have hlt : min m ((q :: qs).length - 1) < (q :: qs).length := by simp
  rw [List.getElem?_eq_getElem hlt]
  congr 1
  have hmem : (q :: qs)[min m ((q :: qs).length - 1)] ∈ q :: qs := List.getElem_mem hlt
  rcases List.mem_cons.mp hmem with h1 | h1
  · exact h1
  · exact eq_of_beq (List.all_eq_true.mp h _ h1)

theorem backRot_eq (k : Sens G V) (hk : k.ori ≠ []) (hlen : k.pos.length = k.ori.length)
    (m : Nat) (v : V) :
    (if unrotated k then v
     else if staticRot k then (match clampGet k.ori 0 with | some r => r⁻¹ • v | none => v)
     else (match clampGet k.ori m with | some r => r⁻¹ • v | none => v)) =
    (match clampGet k.ori m with | some r => r⁻¹ • v | none => v) := by
  by_cases hu : unrotated k = true
  · simp only [hu, if_true]
    cases hc : clampGet k.ori m with
    | none => rfl
    | some r =>
      have : r = 1 := clampGet_of_all k.ori 1 hu m r hc
      subst this; simp
  · simp only [hu, Bool.false_eq_true, if_false]
    by_cases hs : staticRot k = true
    · simp only [hs, if_true]
      obtain ⟨q, qs, hq⟩ := List.exists_cons_of_ne_nil hk
      unfold staticRot at hs
      rw [hq] at hs ⊢
      simp only [Bool.or_eq_true, beq_iff_eq] at hs
      rcases hs with h1 | h1
      · have : qs = [] := by
          have : (q :: qs).length = 1 := by rw [← hq, ← hlen]; exact h1
          simpa using this
        subst this
        simp [clampGet]
      · rw [clampGet_static q qs h1 0, clampGet_static q qs h1 m]
    · simp only [hs, Bool.false_eq_true, if_false]

/-- C04: the three back-rotation paths of the code (unrotated / static orientation / general)
all compute `R_k(m)⁻¹ • v` on sensor `k`'s pixel slice, followed by the handedness flip. -/
theorem sensorFrame_spec (flipX : V → V) (k : Sens G V) (hk : k.ori ≠ [])
    (hlen : k.pos.length = k.ori.length) (lo hi : Nat) (B : List (List (List V))) :
    sensorFrame flipX k lo hi B =
      B.map fun Bl => Bl.mapIdx fun m row => row.mapIdx fun j v =>
        if lo ≤ j ∧ j < hi then
          (if k.left then flipX (match clampGet k.ori m with | some r => r⁻¹ • v | none => v)
           else (match clampGet k.ori m with | some r => r⁻¹ • v | none => v))
        else v := by
  unfold sensorFrame
  congr 1; funext Bl; congr 1; funext m row; congr 1; funext j v
  have h := backRot_eq k hk hlen m v
  by_cases hin : lo ≤ j ∧ j < hi
  · simp only [hin, and_self, if_true]
    by_cases hl : k.left = true
    · simp only [hl, if_true]; exact congrArg flipX h
    · simp only [hl, Bool.false_eq_true, if_false]; exact h
  · simp only [hin, if_false]
end sens

section split
theorem cumsum_ne_nil (a : Nat) (ns : List Nat) : cumsum a ns ≠ [] := by cases ns <;> simp [cumsum]

theorem cumsum_head (a : Nat) (ns : List Nat) : ∃ t, cumsum a ns = a :: t := by
  cases ns <;> simp [cumsum]

theorem splitRow_cumsum {β : Type} (chunks : List (List β)) :
    ∀ (pre : List β), splitRow (cumsum pre.length (chunks.map List.length)) (pre ++ chunks.flatten) = chunks := by
  induction chunks with
  | nil => intro pre; simp [splitRow, cumsum]
  | cons c cs ih =>
    intro pre
    obtain ⟨t, ht⟩ := cumsum_head (pre.length + c.length) (cs.map List.length)
    have hih := ih (pre ++ c)
    simp only [List.length_append] at hih
    simp only [List.map_cons, cumsum, splitRow, List.tail_cons, ht, List.zip_cons_cons, List.map_cons,
      List.flatten_cons]
    rw [ht] at hih
    simp only [splitRow, List.tail_cons] at hih
    rw [List.append_assoc] at hih
    rw [hih]
    congr 1
    simp

/-- C04 (pixel_agg with different pixel shapes): splitting a flat pixel row at the cumulative
pixel indices returns exactly each sensor's own pixels, in sensor order. -/
theorem splitRow_pixInds {γ : Type} (ks : List (Sens G V)) (g : Sens G V → List γ)
    (hg : ∀ k ∈ ks, (g k).length = pixNum k) :
    splitRow (pixInds ks) (ks.flatMap g) = ks.map g := by
  have h := splitRow_cumsum (ks.map g) []
  simp only [List.length_nil, List.nil_append, List.map_map] at h
  unfold pixInds
  have hnum : ks.map pixNum = ks.map (List.length ∘ g) := by
    apply List.map_congr_left
    intro k hk; simp [hg k hk]
  rw [hnum, List.flatMap_def]
  exact h
end split

section cov
variable [Group G] [AddCommGroup V] [DistribMulAction G V]

/-- the same rigid motion `x ↦ Q x + t` applied to a source's whole path -/
def Src.moved (Q : G) (t : V) (s : Src G V) : Src G V :=
  { pos := s.pos.map (fun p => Q • p + t), ori := s.ori.map (Q * ·), F := s.F }

theorem clampGet_map {α β} (f : α → β) (xs : List α) (m : Nat) :
    clampGet (xs.map f) m = (clampGet xs m).map f := by
  simp [clampGet]

/-- C03 (kernel of the statement): moving source and observer by one rigid motion rotates the
field vector by that rotation — for every local field function `F`, pose path and path index. -/
theorem level1_covariant (Q : G) (t : V) (s : Src G V) (m : Nat) (x : V) :
    level1 (s.moved Q t) m (Q • x + t) = Q • level1 s m x := by
  unfold level1 Src.moved
  simp only [clampGet_map]
  cases clampGet s.ori m with
  | none => simp
  | some r =>
    cases clampGet s.pos m with
    | none => simp
    | some p =>
      simp only [Option.map_some]
      have : Q • x + t - (Q • p + t) = Q • (x - p) := by rw [smul_sub]; abel
      rw [this, mul_inv_rev, mul_smul, mul_smul, inv_smul_smul]

/-- array observers: a sensor at the origin with unit orientation whose pixels are the positions -/
def obsSensor (X : List V) : Sens G V :=
  { pos := [0], ori := [1], pixels := X, pixShape := [X.length], left := false }

theorem poso_obsSensor (X : List V) (m : Nat) : poso [obsSensor (G := G) X] m = X := by
  simp [poso, obsSensor, clampGet]

theorem leafB_covariant (Q : G) (t : V) (s : Src G V) (M : Nat) (X : List V) :
    leafB [obsSensor (X.map fun x => Q • x + t)] M (s.moved Q t) =
      (leafB [obsSensor X] M s).map (List.map (Q • ·)) := by
  unfold leafB
  simp only [poso_obsSensor, List.map_map]
  apply List.map_congr_left
  intro m _
  simp only [Function.comp_apply, List.map_map]
  apply List.map_congr_left
  intro x _
  exact level1_covariant Q t s m x

theorem addT_smul (Q : G) (a b : List (List V)) :
    addT (a.map (List.map (Q • ·))) (b.map (List.map (Q • ·))) = (addT a b).map (List.map (Q • ·)) := by
  unfold addT
  rw [List.zipWith_map, List.map_zipWith]
  congr 1
  funext r1 r2
  rw [List.zipWith_map, List.map_zipWith]
  congr 1
  funext u v
  exact (smul_add Q u v).symm

theorem sumT_smul (Q : G) (ts : List (List (List V))) :
    sumT (ts.map (List.map (List.map (Q • ·)))) = (sumT ts).map (List.map (Q • ·)) := by
  induction ts with
  | nil => rfl
  | cons t ts ih =>
    cases ts with
    | nil => rfl
    | cons u us =>
      simp only [List.map_cons, sumT] at ih ⊢
      rw [ih, addT_smul]

/-- C03: for every source entry (bare source or nested collection), any common rigid motion of
all its leaves' paths and of the observer positions rotates the returned `[path][position]`
field tensor by that rotation and changes nothing else. -/
theorem entry_covariant (Q : G) (t : V) (leaves : List (Src G V)) (M : Nat) (X : List V) :
    sumT ((leaves.map (Src.moved Q t)).map (leafB [obsSensor (X.map fun x => Q • x + t)] M)) =
      (sumT (leaves.map (leafB [obsSensor X] M))).map (List.map (Q • ·)) := by
  rw [← sumT_smul, List.map_map, List.map_map]
  congr 1
  apply List.map_congr_left
  intro s _
  exact leafB_covariant Q t s M X

/-- C05 (linearity in the excitation, marshalling part): if a source's local field function is
the sum / a scalar multiple of others, so is its global field at every pose and observer. -/
theorem level1_add (s : Src G V) (F1 F2 : V → V) (hF : ∀ x, s.F x = F1 x + F2 x) (m : Nat) (x : V) :
    level1 s m x = level1 { s with F := F1 } m x + level1 { s with F := F2 } m x := by
  unfold level1
  cases clampGet s.ori m with
  | none => simp
  | some r =>
    cases clampGet s.pos m with
    | none => simp
    | some p => simp only [hF, smul_add]

theorem level1_smul {K : Type} [Monoid K] [DistribMulAction K V] [SMulCommClass G K V]
    (s : Src G V) (F1 : V → V) (a : K) (hF : ∀ x, s.F x = a • F1 x) (m : Nat) (x : V) :
    level1 s m x = a • level1 { s with F := F1 } m x := by
  unfold level1
  cases clampGet s.ori m with
  | none => simp
  | some r =>
    cases clampGet s.pos m with
    | none => simp
    | some p => simp only [hF, smul_comm r a]

/-- C06: the `[m]` row of a leaf's tensor is the leaf's field at its own pose `m` evaluated at the
pixel positions of path index `m`; nothing else in the call enters. -/
theorem leafB_getElem? [BEq G] (sensors : List (Sens G V)) (M : Nat) (s : Src G V) (m : Nat) :
    (leafB sensors M s)[m]? = if m < M then some ((poso sensors m).map (level1 s m)) else none := by
  unfold leafB
  by_cases h : m < M <;> simp [h]

/-- C06/C04: pixel positions of one sensor do not depend on the other sensors in the call -/
theorem poso_append [BEq G] (ks1 ks2 : List (Sens G V)) (m : Nat) :
    poso (ks1 ++ ks2) m = poso ks1 m ++ poso ks2 m := by
  simp [poso]
end cov
end MagpyVerif.Level2
