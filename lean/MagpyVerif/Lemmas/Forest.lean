/- invariant lemmas for the collection forest (C11) — core Lean only -/
import MagpyVerif.Model.Forest
namespace MagpyVerif
namespace Forest

@[simp] theorem upd_same {α} (f : Nat → α) (i : Nat) (v : α) : upd f i v i = v := by simp [upd]
theorem upd_other {α} (f : Nat → α) (i j : Nat) (v : α) (h : j ≠ i) : upd f i v j = f j := by
  simp [upd, h]

/-- the representation invariant of C11 (acyclicity is `Acyclic` below) -/
structure Inv (s : Forest) : Prop where
  parent_iff : ∀ o c, s.parent o = some c ↔ o ∈ s.children c
  nodup : ∀ c, (s.children c).Nodup
  views : ∀ c, s.srcs c = (s.children c).filter (fun o => s.kind o = .src) ∧
               s.sens c = (s.children c).filter (fun o => s.kind o = .sens) ∧
               s.colls c = (s.children c).filter (fun o => s.kind o = .coll)
  only_colls : ∀ c, s.kind c ≠ .coll → s.children c = []
  inScope : ∀ o c, s.parent o = some c → c < s.n ∧ o < s.n

theorem sync_inv_of (s : Forest) (p : Nat)
    (h1 : ∀ o c, s.parent o = some c ↔ o ∈ s.children c)
    (h2 : ∀ c, (s.children c).Nodup)
    (h3 : ∀ c, c ≠ p → (s.srcs c = (s.children c).filter (fun o => s.kind o = .src) ∧
               s.sens c = (s.children c).filter (fun o => s.kind o = .sens) ∧
               s.colls c = (s.children c).filter (fun o => s.kind o = .coll)))
    (h4 : ∀ c, s.kind c ≠ .coll → s.children c = [])
    (h5 : ∀ o c, s.parent o = some c → c < s.n ∧ o < s.n) : (s.sync p).Inv := by
  refine ⟨h1, h2, ?_, h4, h5⟩
  intro c
  by_cases hc : c = p
  · subst hc; simp only [sync, upd_same]; exact ⟨rfl, rfl, rfl⟩
  · simp only [sync, upd_other _ _ _ _ hc]; exact h3 c hc

theorem detach_inv (s : Forest) (x : Nat) (h : s.Inv) : (s.detach x).Inv := by
  unfold detach
  cases hp : s.parent x with
  | none => exact h
  | some p =>
    simp only
    apply sync_inv_of
    · intro o c
      simp only
      by_cases ho : o = x
      · subst ho
        simp only [upd_same]
        constructor
        · intro hh; cases hh
        · intro hmem
          exfalso
          by_cases hc : c = p
          · subst hc
            simp only [upd_same] at hmem
            exact (List.Nodup.mem_erase_iff (h.nodup c)).mp hmem |>.1 rfl
          · rw [upd_other _ _ _ _ hc] at hmem
            have := (h.parent_iff o c).mpr hmem
            rw [hp] at this
            exact hc (Option.some.inj this).symm
      · rw [upd_other _ _ _ _ ho]
        by_cases hc : c = p
        · subst hc
          simp only [upd_same]
          rw [h.parent_iff]
          exact ⟨fun hm => (List.mem_erase_of_ne ho).mpr hm, fun hm => (List.mem_erase_of_ne ho).mp hm⟩
        · rw [upd_other _ _ _ _ hc]
          exact h.parent_iff o c
    · intro c
      simp only
      by_cases hc : c = p
      · subst hc; simp only [upd_same]; exact (h.nodup c).erase x
      · rw [upd_other _ _ _ _ hc]; exact h.nodup c
    · intro c hc
      simp only [upd_other _ _ _ _ hc]
      exact h.views c
    · intro c hk
      simp only
      by_cases hc : c = p
      · subst hc; simp only [upd_same]; rw [h.only_colls c hk]; rfl
      · rw [upd_other _ _ _ _ hc]; exact h.only_colls c hk
    · intro o c hh
      simp only at hh ⊢
      by_cases ho : o = x
      · subst ho; simp at hh
      · rw [upd_other _ _ _ _ ho] at hh; exact h.inScope o c hh

theorem detach_parent (s : Forest) (x : Nat) : (s.detach x).parent x = none := by
  unfold detach
  cases hp : s.parent x with
  | none => simpa using hp
  | some p => simp [sync]

theorem detach_kind (s : Forest) (x : Nat) : (s.detach x).kind = s.kind ∧ (s.detach x).n = s.n := by
  unfold detach
  cases s.parent x <;> simp [sync]

theorem attach_inv (s : Forest) (x c : Nat) (h : s.Inv) (hx : s.parent x = none)
    (hc : s.kind c = .coll) (hn : c < s.n) (hxn : x < s.n) : (s.attach x c).Inv := by
  unfold attach
  apply sync_inv_of
  · intro o c'
    simp only
    by_cases ho : o = x
    · subst ho
      simp only [upd_same]
      by_cases hcc : c' = c
      · subst hcc; simp
      · rw [upd_other _ _ _ _ hcc]
        constructor
        · intro hh; exact absurd (Option.some.inj hh).symm hcc
        · intro hm
          have := (h.parent_iff o c').mpr hm
          rw [hx] at this; cases this
    · rw [upd_other _ _ _ _ ho]
      by_cases hcc : c' = c
      · subst hcc
        simp only [upd_same, List.mem_append, List.mem_singleton, ho, or_false]
        exact h.parent_iff o c'
      · rw [upd_other _ _ _ _ hcc]; exact h.parent_iff o c'
  · intro c'
    simp only
    by_cases hcc : c' = c
    · subst hcc
      simp only [upd_same]
      rw [List.nodup_append]
      refine ⟨h.nodup c', by simp, ?_⟩
      intro a ha b hb
      simp at hb; subst hb
      intro hab; subst hab
      have := (h.parent_iff a c').mpr ha
      rw [hx] at this; cases this
    · rw [upd_other _ _ _ _ hcc]; exact h.nodup c'
  · intro c' hcc
    simp only [upd_other _ _ _ _ hcc]
    exact h.views c'
  · intro c' hk
    simp only
    by_cases hcc : c' = c
    · subst hcc; exact absurd hc hk
    · rw [upd_other _ _ _ _ hcc]; exact h.only_colls c' hk
  · intro o c' hh
    simp only at hh ⊢
    by_cases ho : o = x
    · subst ho; simp at hh; subst hh; exact ⟨hn, hxn⟩
    · rw [upd_other _ _ _ _ ho] at hh; exact h.inScope o c' hh


theorem attach_kind (s : Forest) (x c : Nat) : (s.attach x c).kind = s.kind ∧ (s.attach x c).n = s.n := by
  simp [attach, sync]

theorem reparent_inv (s : Forest) (x c : Nat) (h : s.Inv) (hc : s.kind c = .coll) (hn : c < s.n)
    (hxn : x < s.n) : ((s.detach x).attach x c).Inv := by
  apply attach_inv _ _ _ (detach_inv s x h) (detach_parent s x)
  · rw [(detach_kind s x).1]; exact hc
  · rw [(detach_kind s x).2]; exact hn
  · rw [(detach_kind s x).2]; exact hxn

theorem fold_reparent_inv (c : Nat) (objs : List Nat) :
    ∀ s : Forest, s.Inv → s.kind c = .coll → c < s.n → (∀ o ∈ objs, o < s.n) →
      (objs.foldl (fun s o => (s.detach o).attach o c) s).Inv ∧
      (objs.foldl (fun s o => (s.detach o).attach o c) s).kind = s.kind ∧
      (objs.foldl (fun s o => (s.detach o).attach o c) s).n = s.n := by
  induction objs with
  | nil => intro s h _ _ _; exact ⟨h, rfl, rfl⟩
  | cons o rest ih =>
    intro s h hc hn hall
    simp only [List.foldl_cons]
    have hk : ((s.detach o).attach o c).kind = s.kind := by
      rw [(attach_kind _ _ _).1, (detach_kind _ _).1]
    have hnn : ((s.detach o).attach o c).n = s.n := by
      rw [(attach_kind _ _ _).2, (detach_kind _ _).2]
    obtain ⟨a, b, d⟩ := ih _ (reparent_inv s o c h hc hn (hall o (by simp))) (by rw [hk]; exact hc)
      (by rw [hnn]; exact hn) (by intro o' ho'; rw [hnn]; exact hall o' (by simp [ho']))
    exact ⟨a, by rw [b, hk], by rw [d, hnn]⟩

theorem add_inv (s : Forest) (c : Nat) (objs : List Nat) (ov : Bool) (h : s.Inv) :
    (s.add c objs ov).1.Inv ∧ (s.add c objs ov).1.kind = s.kind ∧ (s.add c objs ov).1.n = s.n := by
  unfold add
  split
  · rename_i hok
    simp only [addOk, Bool.and_eq_true, decide_eq_true_eq] at hok
    exact fold_reparent_inv c objs s h hok.1.1.1.1.1 hok.1.1.1.2
      (by intro o ho; have := hok.1.1.1.1.2; simp only [List.all_eq_true, decide_eq_true_eq] at this; exact this o ho)
  · exact ⟨h, rfl, rfl⟩

theorem add_rejected_unchanged (s : Forest) (c : Nat) (objs : List Nat) (ov : Bool)
    (h : (s.add c objs ov).2 = false) : (s.add c objs ov).1 = s := by
  unfold add at h ⊢
  split <;> simp_all

theorem remove_inv (c : Nat) (r e : Bool) (objs : List Nat) :
    ∀ s : Forest, s.Inv → (s.remove c r e objs).1.Inv ∧ (s.remove c r e objs).1.kind = s.kind ∧
      (s.remove c r e objs).1.n = s.n := by
  induction objs with
  | nil => intro s h; exact ⟨h, rfl, rfl⟩
  | cons x rest ih =>
    intro s h
    simp only [remove]
    split
    · obtain ⟨a, b, d⟩ := ih _ (detach_inv s x h)
      exact ⟨a, by rw [b, (detach_kind s x).1], by rw [d, (detach_kind s x).2]⟩
    · split
      · exact ⟨h, rfl, rfl⟩
      · exact ih s h

theorem fold_detach_inv (xs : List Nat) :
    ∀ s : Forest, s.Inv → (xs.foldl (fun s o => s.detach o) s).Inv ∧
      (xs.foldl (fun s o => s.detach o) s).kind = s.kind ∧ (xs.foldl (fun s o => s.detach o) s).n = s.n := by
  induction xs with
  | nil => intro s h; exact ⟨h, rfl, rfl⟩
  | cons x rest ih =>
    intro s h
    simp only [List.foldl_cons]
    obtain ⟨a, b, d⟩ := ih _ (detach_inv s x h)
    exact ⟨a, by rw [b, (detach_kind s x).1], by rw [d, (detach_kind s x).2]⟩

/-! ### `_replace_children` (the all-or-nothing setters, repo fix 9176cc9) -/

theorem ext' {s t : Forest} (h1 : s.n = t.n) (h2 : s.kind = t.kind) (h3 : s.parent = t.parent)
    (h4 : s.children = t.children) (h5 : s.srcs = t.srcs) (h6 : s.sens = t.sens) (h7 : s.colls = t.colls) : s = t := by
  cases s; cases t; simp_all

/-- `for child in xs: child._parent = p`, closed form -/
theorem setParents_eq (xs : List Nat) (p : Option Nat) :
    ∀ s : Forest, s.setParents xs p = { s with parent := fun x => if x ∈ xs then p else s.parent x } := by
  induction xs with
  | nil => intro s; apply ext' <;> simp [setParents]
  | cons y xs ih =>
    intro s
    have : s.setParents (y :: xs) p = ({ s with parent := upd s.parent y p } : Forest).setParents xs p := rfl
    rw [this, ih]
    apply ext' <;> try rfl
    funext x
    simp only [List.mem_cons]
    by_cases hx : x ∈ xs
    · simp [hx]
    · by_cases hy : x = y
      · simp [hy, upd]
      · simp [hx, hy, upd]

/-- the state after the first three statements of `_replace_children` -/
def unlinked (s : Forest) (c : Nat) (removed : List Nat) : Forest :=
  sync { s.setParents removed none with
         children := upd (s.setParents removed none).children c
           ((s.children c).filter fun x => !removed.contains x) } c

theorem replaceChildren_eq (s : Forest) (c : Nat) (removed new : List Nat) :
    s.replaceChildren c removed new =
      if ((s.unlinked c removed).add c new true).2 then (s.unlinked c removed).add c new true
      else (sync (({ ((s.unlinked c removed).add c new true).1 with
                      children := upd ((s.unlinked c removed).add c new true).1.children c (s.children c) } :
                    Forest).setParents removed (some c)) c, false) := rfl

theorem unlinked_parent (s : Forest) (c : Nat) (removed : List Nat) (x : Nat) :
    (s.unlinked c removed).parent x = if x ∈ removed then none else s.parent x := by
  simp [unlinked, sync, setParents_eq]

theorem unlinked_children (s : Forest) (c : Nat) (removed : List Nat) (d : Nat) :
    (s.unlinked c removed).children d =
      if d = c then (s.children c).filter (fun x => !removed.contains x) else s.children d := by
  simp only [unlinked, sync, setParents_eq, upd]

theorem unlinked_kind_n (s : Forest) (c : Nat) (removed : List Nat) :
    (s.unlinked c removed).kind = s.kind ∧ (s.unlinked c removed).n = s.n := by
  simp [unlinked, sync, setParents_eq]

theorem unlinked_inv (s : Forest) (c : Nat) (removed : List Nat) (h : s.Inv)
    (hsub : ∀ x ∈ removed, x ∈ s.children c) : (s.unlinked c removed).Inv := by
  unfold unlinked
  apply sync_inv_of
  · intro o d
    simp only [setParents_eq, upd]
    by_cases ho : o ∈ removed
    · simp only [ho, if_true]
      constructor
      · intro hh; cases hh
      · intro hmem
        exfalso
        have hoc := (h.parent_iff o c).mpr (hsub o ho)
        split at hmem
        · rename_i hd
          have := (List.mem_filter.mp hmem).2
          simp [ho] at this
        · rename_i hd
          have := (h.parent_iff o d).mpr hmem
          rw [hoc] at this
          exact hd (Option.some.inj this).symm
    · simp only [ho, if_false]
      split
      · rename_i hd
        subst hd
        rw [h.parent_iff o d]
        simp [List.mem_filter, ho]
      · exact h.parent_iff o d
  · intro d
    simp only [setParents_eq, upd]
    split
    · exact (h.nodup c).filter _
    · exact h.nodup d
  · intro d hd
    simp only [setParents_eq, upd_other _ _ _ _ hd]
    exact h.views d
  · intro d hd
    simp only [setParents_eq, upd] at hd ⊢
    split
    · rename_i hdc; subst hdc; rw [h.only_colls d hd]; rfl
    · exact h.only_colls d hd
  · intro o d hod
    simp only [setParents_eq] at hod ⊢
    split at hod
    · cases hod
    · exact h.inScope o d hod

/-- the `except` branch of `_replace_children` undoes the unlinking exactly -/
theorem restore_unlinked (s : Forest) (c : Nat) (removed : List Nat) (h : s.Inv)
    (hsub : ∀ x ∈ removed, x ∈ s.children c) :
    sync (({ s.unlinked c removed with children := upd (s.unlinked c removed).children c (s.children c) } :
            Forest).setParents removed (some c)) c = s := by
  obtain ⟨v1, v2, v3⟩ := h.views c
  apply ext'
  · simp [sync, setParents_eq, (unlinked_kind_n s c removed).2]
  · simp [sync, setParents_eq, (unlinked_kind_n s c removed).1]
  · funext x
    simp only [sync, setParents_eq, unlinked_parent]
    by_cases hx : x ∈ removed
    · simp only [hx, if_true]; exact ((h.parent_iff x c).mpr (hsub x hx)).symm
    · simp [hx]
  · funext d
    simp only [sync, setParents_eq, unlinked_children, upd]
    split <;> simp_all
  · funext d
    simp only [sync, setParents_eq, upd, (unlinked_kind_n s c removed).1]
    by_cases hd : d = c
    · subst hd; simp [v1]
    · simp [hd, unlinked, sync, setParents_eq, upd]
  · funext d
    simp only [sync, setParents_eq, upd, (unlinked_kind_n s c removed).1]
    by_cases hd : d = c
    · subst hd; simp [v2]
    · simp [hd, unlinked, sync, setParents_eq, upd]
  · funext d
    simp only [sync, setParents_eq, upd, (unlinked_kind_n s c removed).1]
    by_cases hd : d = c
    · subst hd; simp [v3]
    · simp [hd, unlinked, sync, setParents_eq, upd]

/-- ALL OR NOTHING: when `add` refuses the new children, `_replace_children` leaves the forest as it was -/
theorem replaceChildren_rejected (s : Forest) (c : Nat) (removed new : List Nat) (h : s.Inv)
    (hsub : ∀ x ∈ removed, x ∈ s.children c) (hr : (s.replaceChildren c removed new).2 = false) :
    (s.replaceChildren c removed new).1 = s := by
  rw [replaceChildren_eq] at hr ⊢
  split at hr
  · rename_i h2; rw [if_pos h2] at *; simp_all
  · rename_i h2
    rw [if_neg h2]
    simp only
    rw [add_rejected_unchanged _ c new true (by simpa using h2)]
    exact restore_unlinked s c removed h hsub

theorem replaceChildren_inv (s : Forest) (c : Nat) (removed new : List Nat) (h : s.Inv)
    (hsub : ∀ x ∈ removed, x ∈ s.children c) :
    (s.replaceChildren c removed new).1.Inv ∧ (s.replaceChildren c removed new).1.kind = s.kind ∧
    (s.replaceChildren c removed new).1.n = s.n := by
  by_cases hr : (s.replaceChildren c removed new).2 = false
  · rw [replaceChildren_rejected s c removed new h hsub hr]; exact ⟨h, rfl, rfl⟩
  · rw [replaceChildren_eq] at hr ⊢
    split
    · obtain ⟨a, b, d⟩ := add_inv _ c new true (unlinked_inv s c removed h hsub)
      exact ⟨a, b.trans (unlinked_kind_n s c removed).1, d.trans (unlinked_kind_n s c removed).2⟩
    · rename_i h2; rw [if_neg h2] at hr; simp at hr

theorem typed_removed_sub (s : Forest) (c : Nat) (k : Kind) :
    ∀ x ∈ (s.children c).filter (fun x => (s.typedView k c).contains x), x ∈ s.children c :=
  fun _ hx => (List.mem_filter.mp hx).1

theorem setChildren_inv (s : Forest) (c : Nat) (objs : List Nat) (h : s.Inv) :
    (s.setChildren c objs).1.Inv ∧ (s.setChildren c objs).1.kind = s.kind ∧ (s.setChildren c objs).1.n = s.n :=
  replaceChildren_inv s c _ objs h (fun _ hx => hx)

theorem setTyped_inv (s : Forest) (c : Nat) (k : Kind) (objs : List Nat) (h : s.Inv) :
    (s.setTyped c k objs).1.Inv ∧ (s.setTyped c k objs).1.kind = s.kind ∧ (s.setTyped c k objs).1.n = s.n := by
  unfold setTyped
  split
  · exact ⟨h, rfl, rfl⟩
  · exact replaceChildren_inv s c _ _ h (typed_removed_sub s c k)

/-- a refused assignment to children / sources / sensors / collections changes nothing (consistent state) -/
theorem setter_rejected_unchanged (s : Forest) (h : s.Inv) (c : Nat) :
    (∀ objs, (s.setChildren c objs).2 = false → (s.setChildren c objs).1 = s) ∧
    (∀ k objs, (s.setTyped c k objs).2 = false → (s.setTyped c k objs).1 = s) := by
  constructor
  · intro objs hr
    exact replaceChildren_rejected s c _ objs h (fun _ hx => hx) hr
  · intro k objs hr
    unfold setTyped at hr ⊢
    split
    · rfl
    · rename_i l hl
      rw [hl] at hr
      exact replaceChildren_rejected s c _ _ h (typed_removed_sub s c k) hr

theorem plus_inv (s : Forest) (a b : Nat) (h : s.Inv) : (s.plus a b).1.Inv := by
  unfold plus
  simp only
  split
  · apply (add_inv _ _ _ _ _).1
    refine ⟨?_, ?_, ?_, ?_, ?_⟩
    · intro o c
      simp only
      by_cases hc : c = s.n
      · subst hc
        simp only [upd_same, List.not_mem_nil, iff_false]
        by_cases ho : o = s.n
        · subst ho; simp
        · rw [upd_other _ _ _ _ ho]
          intro hh
          exact Nat.lt_irrefl _ (h.inScope o _ hh).1
      · rw [upd_other _ _ _ _ hc]
        by_cases ho : o = s.n
        · subst ho
          simp only [upd_same]
          constructor
          · intro hh; cases hh
          · intro hm
            exact absurd (h.inScope _ _ ((h.parent_iff _ _).mpr hm)).2 (Nat.lt_irrefl _)
        · rw [upd_other _ _ _ _ ho]; exact h.parent_iff o c
    · intro c
      simp only
      by_cases hc : c = s.n
      · subst hc; simp
      · rw [upd_other _ _ _ _ hc]; exact h.nodup c
    · intro c
      simp only
      by_cases hc : c = s.n
      · subst hc; simp
      · simp only [upd_other _ _ _ _ hc]
        have hv := h.views c
        have hf : ∀ k : Kind, (s.children c).filter (fun o => decide (upd s.kind s.n Kind.coll o = k)) =
            (s.children c).filter (fun o => decide (s.kind o = k)) := by
          intro k
          apply List.filter_congr
          intro o ho
          have : o ≠ s.n := fun e => by
            subst e; exact absurd (h.inScope _ _ ((h.parent_iff _ _).mpr ho)).2 (Nat.lt_irrefl _)
          rw [upd_other _ _ _ _ this]
        rw [hf, hf, hf]; exact hv
    · intro c hk
      simp only at hk ⊢
      by_cases hc : c = s.n
      · subst hc; simp
      · rw [upd_other _ _ _ _ hc] at hk ⊢; exact h.only_colls c hk
    · intro o c hh
      simp only at hh ⊢
      by_cases ho : o = s.n
      · subst ho; simp at hh
      · rw [upd_other _ _ _ _ ho] at hh
        have := h.inScope o c hh
        omega
  · exact h

theorem step_inv (s : Forest) (op : FOp) (h : s.Inv) : (s.step op).1.Inv := by
  cases op with
  | add c objs ov => exact (add_inv s c objs ov h).1
  | remove c objs r e =>
    simp only [step]; split
    · exact (remove_inv c r e objs s h).1
    · exact h
  | setParent o p =>
    cases p with
    | none => exact detach_inv s o h
    | some c => exact (add_inv s c [o] true h).1
  | setChildren c objs =>
    simp only [step]; split
    · exact (setChildren_inv s c objs h).1
    · exact h
  | setTyped c k objs =>
    simp only [step]; split
    · exact (setTyped_inv s c k objs h).1
    · exact h
  | plus a b => exact plus_inv s a b h
  | rejected => exact h

theorem init_inv (ks : List Kind) : (init ks).Inv :=
  ⟨by intro o c; simp [init], by intro c; simp [init], by intro c; simp [init],
   by intro c _; rfl, by intro o c hh; simp [init] at hh⟩
end Forest
end MagpyVerif
