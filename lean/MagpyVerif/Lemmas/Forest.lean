/- invariant lemmas for the collection forest (C11) — core Lean only -/
import MagpyVerif.Model.Forest
namespace MagpyVerif
namespace Forest

@[simp] theorem upd_same {α} (f : Nat → α) (i : Nat) (v : α) : upd f i v i = v := by simp [upd]
theorem upd_other {α} (f : Nat → α) (i j : Nat) (v : α) (h : j ≠ i) : upd f i v j = f j := by
  simp [upd, h]

/-- the representation invariant of C11 (acyclicity is `Acyclic` below) -/
structure Inv (s : Forest) : Prop where
  parent_iff : ∀ o c, s.parent o = some c ↔ o ∈ s.children c
  nodup : ∀ c, (s.children c).Nodup
  views : ∀ c, s.srcs c = (s.children c).filter (fun o => s.kind o = .src) ∧
               s.sens c = (s.children c).filter (fun o => s.kind o = .sens) ∧
               s.colls c = (s.children c).filter (fun o => s.kind o = .coll)
  only_colls : ∀ c, s.kind c ≠ .coll → s.children c = []
  inScope : ∀ o c, s.parent o = some c → c < s.n ∧ o < s.n

theorem sync_inv_of (s : Forest) (p : Nat)
    (h1 : ∀ o c, s.parent o = some c ↔ o ∈ s.children c)
    (h2 : ∀ c, (s.children c).Nodup)
    (h3 : ∀ c, c ≠ p → (s.srcs c = (s.children c).filter (fun o => s.kind o = .src) ∧
               s.sens c = (s.children c).filter (fun o => s.kind o = .sens) ∧
               s.colls c = (s.children c).filter (fun o => s.kind o = .coll)))
    (h4 : ∀ c, s.kind c ≠ .coll → s.children c = [])
    (h5 : ∀ o c, s.parent o = some c → c < s.n ∧ o < s.n) : (s.sync p).Inv := by
  refine ⟨h1, h2, ?_, h4, h5⟩
  intro c
  by_cases hc : c = p
  · subst hc; simp only [sync, upd_same]; exact ⟨rfl, rfl, rfl⟩
  · simp only [sync, upd_other _ _ _ _ hc]; exact h3 c hc

theorem detach_inv (s : Forest) (x : Nat) (h : s.Inv) : (s.detach x).Inv := by
  unfold detach
  cases hp : s.parent x with
  | none => exact h
  | some p =>
    simp only
    apply sync_inv_of
    · intro o c
      simp only
      by_cases ho : o = x
      · subst ho
        simp only [upd_same]
        constructor
        · intro hh; cases hh
        · intro hmem
          exfalso
          by_cases hc : c = p
          · subst hc
            simp only [upd_same] at hmem
            exact (List.Nodup.mem_erase_iff (h.nodup c)).mp hmem |>.1 rfl
          · rw [upd_other _ _ _ _ hc] at hmem
            have := (h.parent_iff o c).mpr hmem
            rw [hp] at this
            exact hc (Option.some.inj this).symm
      · rw [upd_other _ _ _ _ ho]
        by_cases hc : c = p
        · subst hc
          simp only [upd_same]
          rw [h.parent_iff]
          exact ⟨fun hm => (List.mem_erase_of_ne ho).mpr hm, fun hm => (List.mem_erase_of_ne ho).mp hm⟩
        · rw [upd_other _ _ _ _ hc]
          exact h.parent_iff o c
    · intro c
      simp only
      by_cases hc : c = p
      · subst hc; simp only [upd_same]; exact (h.nodup c).erase x
      · rw [upd_other _ _ _ _ hc]; exact h.nodup c
    · intro c hc
      simp only [upd_other _ _ _ _ hc]
      exact h.views c
    · intro c hk
      simp only
      by_cases hc : c = p
      · subst hc; simp only [upd_same]; rw [h.only_colls c hk]; rfl
      · rw [upd_other _ _ _ _ hc]; exact h.only_colls c hk
    · intro o c hh
      simp only at hh ⊢
      by_cases ho : o = x
      · subst ho; simp at hh
      · rw [upd_other _ _ _ _ ho] at hh; exact h.inScope o c hh

theorem detach_parent (s : Forest) (x : Nat) : (s.detach x).parent x = none := by
  unfold detach
  cases hp : s.parent x with
  | none => simpa using hp
  | some p => simp [sync]

theorem detach_kind (s : Forest) (x : Nat) : (s.detach x).kind = s.kind ∧ (s.detach x).n = s.n := by
  unfold detach
  cases s.parent x <;> simp [sync]

theorem attach_inv (s : Forest) (x c : Nat) (h : s.Inv) (hx : s.parent x = none)
    (hc : s.kind c = .coll) (hn : c < s.n) (hxn : x < s.n) : (s.attach x c).Inv := by
  unfold attach
  apply sync_inv_of
  · intro o c'
    simp only
    by_cases ho : o = x
    · subst ho
      simp only [upd_same]
      by_cases hcc : c' = c
      · subst hcc; simp
      · rw [upd_other _ _ _ _ hcc]
        constructor
        · intro hh; exact absurd (Option.some.inj hh).symm hcc
        · intro hm
          have := (h.parent_iff o c').mpr hm
          rw [hx] at this; cases this
    · rw [upd_other _ _ _ _ ho]
      by_cases hcc : c' = c
      · subst hcc
        simp only [upd_same, List.mem_append, List.mem_singleton, ho, or_false]
        exact h.parent_iff o c'
      · rw [upd_other _ _ _ _ hcc]; exact h.parent_iff o c'
  · intro c'
    simp only
    by_cases hcc : c' = c
    · subst hcc
      simp only [upd_same]
      rw [List.nodup_append]
      refine ⟨h.nodup c', by simp, ?_⟩
      intro a ha b hb
      simp at hb; subst hb
      intro hab; subst hab
      have := (h.parent_iff a c').mpr ha
      rw [hx] at this; cases this
    · rw [upd_other _ _ _ _ hcc]; exact h.nodup c'
  · intro c' hcc
    simp only [upd_other _ _ _ _ hcc]
    exact h.views c'
  · intro c' hk
    simp only
    by_cases hcc : c' = c
    · subst hcc; exact absurd hc hk
    · rw [upd_other _ _ _ _ hcc]; exact h.only_colls c' hk
  · intro o c' hh
    simp only at hh ⊢
    by_cases ho : o = x
    · subst ho; simp at hh; subst hh; exact ⟨hn, hxn⟩
    · rw [upd_other _ _ _ _ ho] at hh; exact h.inScope o c' hh


theorem attach_kind (s : Forest) (x c : Nat) : (s.attach x c).kind = s.kind ∧ (s.attach x c).n = s.n := by
  simp [attach, sync]

theorem reparent_inv (s : Forest) (x c : Nat) (h : s.Inv) (hc : s.kind c = .coll) (hn : c < s.n)
    (hxn : x < s.n) : ((s.detach x).attach x c).Inv := by
  apply attach_inv _ _ _ (detach_inv s x h) (detach_parent s x)
  · rw [(detach_kind s x).1]; exact hc
  · rw [(detach_kind s x).2]; exact hn
  · rw [(detach_kind s x).2]; exact hxn

theorem fold_reparent_inv (c : Nat) (objs : List Nat) :
    ∀ s : Forest, s.Inv → s.kind c = .coll → c < s.n → (∀ o ∈ objs, o < s.n) →
      (objs.foldl (fun s o => (s.detach o).attach o c) s).Inv ∧
      (objs.foldl (fun s o => (s.detach o).attach o c) s).kind = s.kind ∧
      (objs.foldl (fun s o => (s.detach o).attach o c) s).n = s.n := by
  induction objs with
  | nil => intro s h _ _ _; exact ⟨h, rfl, rfl⟩
  | cons o rest ih =>
    intro s h hc hn hall
    simp only [List.foldl_cons]
    have hk : ((s.detach o).attach o c).kind = s.kind := by
      rw [(attach_kind _ _ _).1, (detach_kind _ _).1]
    have hnn : ((s.detach o).attach o c).n = s.n := by
      rw [(attach_kind _ _ _).2, (detach_kind _ _).2]
    obtain ⟨a, b, d⟩ := ih _ (reparent_inv s o c h hc hn (hall o (by simp))) (by rw [hk]; exact hc)
      (by rw [hnn]; exact hn) (by intro o' ho'; rw [hnn]; exact hall o' (by simp [ho']))
    exact ⟨a, by rw [b, hk], by rw [d, hnn]⟩

theorem add_inv (s : Forest) (c : Nat) (objs : List Nat) (ov : Bool) (h : s.Inv) :
    (s.add c objs ov).1.Inv ∧ (s.add c objs ov).1.kind = s.kind ∧ (s.add c objs ov).1.n = s.n := by
  unfold add
  split
  · rename_i hok
    simp only [addOk, Bool.and_eq_true, decide_eq_true_eq] at hok
    exact fold_reparent_inv c objs s h hok.1.1.1.1.1 hok.1.1.1.2
      (by intro o ho; have := hok.1.1.1.1.2; simp only [List.all_eq_true, decide_eq_true_eq] at this; exact this o ho)
  · exact ⟨h, rfl, rfl⟩

theorem add_rejected_unchanged (s : Forest) (c : Nat) (objs : List Nat) (ov : Bool)
    (h : (s.add c objs ov).2 = false) : (s.add c objs ov).1 = s := by
  unfold add at h ⊢
  split <;> simp_all

theorem remove_inv (c : Nat) (r e : Bool) (objs : List Nat) :
    ∀ s : Forest, s.Inv → (s.remove c r e objs).1.Inv ∧ (s.remove c r e objs).1.kind = s.kind ∧
      (s.remove c r e objs).1.n = s.n := by
  induction objs with
  | nil => intro s h; exact ⟨h, rfl, rfl⟩
  | cons x rest ih =>
    intro s h
    simp only [remove]
    split
    · obtain ⟨a, b, d⟩ := ih _ (detach_inv s x h)
      exact ⟨a, by rw [b, (detach_kind s x).1], by rw [d, (detach_kind s x).2]⟩
    · split
      · exact ⟨h, rfl, rfl⟩
      · exact ih s h

theorem fold_detach_inv (xs : List Nat) :
    ∀ s : Forest, s.Inv → (xs.foldl (fun s o => s.detach o) s).Inv ∧
      (xs.foldl (fun s o => s.detach o) s).kind = s.kind ∧ (xs.foldl (fun s o => s.detach o) s).n = s.n := by
  induction xs with
  | nil => intro s h; exact ⟨h, rfl, rfl⟩
  | cons x rest ih =>
    intro s h
    simp only [List.foldl_cons]
    obtain ⟨a, b, d⟩ := ih _ (detach_inv s x h)
    exact ⟨a, by rw [b, (detach_kind s x).1], by rw [d, (detach_kind s x).2]⟩

theorem dropWhere_inv (s : Forest) (c : Nat) (f : Nat → Bool) (h : s.Inv) :
    (s.dropWhere c f).Inv ∧ (s.dropWhere c f).kind = s.kind ∧ (s.dropWhere c f).n = s.n :=
  fold_detach_inv _ s h

theorem plus_inv (s : Forest) (a b : Nat) (h : s.Inv) : (s.plus a b).1.Inv := by
  unfold plus
  simp only
  split
  · apply (add_inv _ _ _ _ _).1
    refine ⟨?_, ?_, ?_, ?_, ?_⟩
    · intro o c
      simp only
      by_cases hc : c = s.n
      · subst hc
        simp only [upd_same, List.not_mem_nil, iff_false]
        by_cases ho : o = s.n
        · subst ho; simp
        · rw [upd_other _ _ _ _ ho]
          intro hh
          exact Nat.lt_irrefl _ (h.inScope o _ hh).1
      · rw [upd_other _ _ _ _ hc]
        by_cases ho : o = s.n
        · subst ho
          simp only [upd_same]
          constructor
          · intro hh; cases hh
          · intro hm
            exact absurd (h.inScope _ _ ((h.parent_iff _ _).mpr hm)).2 (Nat.lt_irrefl _)
        · rw [upd_other _ _ _ _ ho]; exact h.parent_iff o c
    · intro c
      simp only
      by_cases hc : c = s.n
      · subst hc; simp
      · rw [upd_other _ _ _ _ hc]; exact h.nodup c
    · intro c
      simp only
      by_cases hc : c = s.n
      · subst hc; simp
      · simp only [upd_other _ _ _ _ hc]
        have hv := h.views c
        have hf : ∀ k : Kind, (s.children c).filter (fun o => decide (upd s.kind s.n Kind.coll o = k)) =
            (s.children c).filter (fun o => decide (s.kind o = k)) := by
          intro k
          apply List.filter_congr
          intro o ho
          have : o ≠ s.n := fun e => by
            subst e; exact absurd (h.inScope _ _ ((h.parent_iff _ _).mpr ho)).2 (Nat.lt_irrefl _)
          rw [upd_other _ _ _ _ this]
        rw [hf, hf, hf]; exact hv
    · intro c hk
      simp only at hk ⊢
      by_cases hc : c = s.n
      · subst hc; simp
      · rw [upd_other _ _ _ _ hc] at hk ⊢; exact h.only_colls c hk
    · intro o c hh
      simp only at hh ⊢
      by_cases ho : o = s.n
      · subst ho; simp at hh
      · rw [upd_other _ _ _ _ ho] at hh
        have := h.inScope o c hh
        omega
  · exact h

theorem step_inv (s : Forest) (op : FOp) (h : s.Inv) : (s.step op).1.Inv := by
  cases op with
  | add c objs ov => exact (add_inv s c objs ov h).1
  | remove c objs r e =>
    simp only [step]; split
    · exact (remove_inv c r e objs s h).1
    · exact h
  | setParent o p =>
    cases p with
    | none => exact detach_inv s o h
    | some c => exact (add_inv s c [o] true h).1
  | setChildren c objs =>
    simp only [step]; split
    · exact (add_inv _ c objs true (dropWhere_inv s c _ h).1).1
    · exact h
  | setTyped c k objs =>
    simp only [step]; split
    · exact (add_inv _ c _ true (dropWhere_inv s c _ h).1).1
    · exact h
  | plus a b => exact plus_inv s a b h
  | rejected => exact h

theorem init_inv (ks : List Kind) : (init ks).Inv :=
  ⟨by intro o c; simp [init], by intro c; simp [init], by intro c; simp [init],
   by intro c _; rfl, by intro o c hh; simp [init] at hh⟩
end Forest
end MagpyVerif
