/- helper lemmas for the path model (C09/C10): aligned rotation entries, multi-anchor broadcasting -/
import MagpyVerif.Lemmas.Basic
import MagpyVerif.Lemmas.PathPad
namespace MagpyVerif
open Gen Spec
variable {G V : Type} {α : Type}

theorem PathIn.lenip_of_scalar {α} (p : PathIn α) : p.isScalar = true → p.lenip = 1 := by
  cases p <;> simp [PathIn.isScalar, PathIn.lenip]

/-- documented entries for aligned inputs -/
def alignedAt [Mul G] [SMul G V] [Add V] [Sub V]
    (rot : PathIn G) (anchor : Option (PathIn V)) (start : Option Int)
    (pos : List V) (ori : List G) (i : Nat) : Option V × Option G :=
  let w := window rot.isScalar pos.length rot.lenip start
  let inWin := w.s0 ≤ i ∧ i < w.stop
  let k := i - w.s0
  ( (baseAt pos w i).map fun p =>
      if inWin then
        match anchor with
        | none => p
        | some a => match rot.get? k, a.get? k with
                    | some r, some c => r • (p - c) + c
                    | _, _ => p
      else p,
    (baseAt ori w i).map fun q =>
      if inWin then (match rot.get? k with | some r => r * q | none => q) else q )

theorem applyRotationAligned_at [Mul G] [SMul G V] [Add V] [Sub V]
    (rot : PathIn G) (anchor : Option (PathIn V)) (start : Option Int) (o : Obj G V)
    (hne : o.pos ≠ []) (hlen : o.ori.length = o.pos.length) (i : Nat) :
    ((applyRotationAligned rot anchor start none o).pos[i]?,
     (applyRotationAligned rot anchor start none o).ori[i]?) =
      alignedAt rot anchor start o.pos o.ori i := by
  have hone : o.ori ≠ [] := by
    intro h; rw [h] at hlen; exact hne (List.length_eq_zero_iff.mp hlen.symm)
  obtain ⟨hb, hs, hs0, hN, hfit⟩ :=
    pathPaddingParam_spec rot.isScalar o.pos.length rot.lenip start rot.lenip_of_scalar
  simp only [applyRotationAligned, pathPadding, alignedAt, baseAt]
  generalize (padOf (pathPaddingParam rot.isScalar (↑o.pos.length) (↑rot.lenip) start).fst).fst = pb at *
  generalize (padOf (pathPaddingParam rot.isScalar (↑o.pos.length) (↑rot.lenip) start).fst).snd = pe at *
  generalize (pathPaddingParam rot.isScalar (↑o.pos.length) (↑rot.lenip) start).snd.toNat = st at *
  subst hb hs
  have e1 : (window rot.isScalar o.pos.length rot.lenip start).b + o.pos.length + pe
      = (window rot.isScalar o.pos.length rot.lenip start).newLen := by omega
  have e2 : (if rot.isScalar = true then (window rot.isScalar o.pos.length rot.lenip start).newLen
      else (window rot.isScalar o.pos.length rot.lenip start).s0 + rot.lenip)
      = (window rot.isScalar o.pos.length rot.lenip start).stop := by
    simp only [window]
  congr 1
  · cases anchor with
    | none =>
      simp only [getElem?_edgePad _ _ _ hne, e1]
      simp
    | some a =>
      simp only [getElem?_mapSlice, getElem?_edgePad _ _ _ hne, length_edgePad _ _ _ hne, e1, e2]
      rfl
  · simp only [getElem?_mapSlice, getElem?_edgePad _ _ _ hone, length_edgePad _ _ _ hne, hlen, e1, e2]
    rfl

/-- vector inputs are non-empty (an empty `(0,3)` anchor / empty Rotation makes the real code
raise inside `multi_anchor_behavior`) -/
def PathIn.WF : PathIn α → Prop
  | .scalar _ => True
  | .vector xs => xs ≠ []

theorem window_scalar (N L L' : Nat) (start : Option Int) :
    window true N L start = window true N L' start := by
  simp [window]

theorem get?_eq_bcast (p : PathIn α) (k : Nat) (h : p.isScalar = false → k < p.len0) :
    p.get? k = bcast p k := by
  cases p with
  | scalar x => rfl
  | vector xs =>
    have := h rfl
    simp only [PathIn.len0] at this
    simp only [PathIn.get?, bcast]
    congr 1; omega

theorem multiAnchor_facts (a : PathIn V) (r : PathIn G) (ha : a.WF) (hr : r.WF) :
    let m := multiAnchor a r
    let sc := r.isScalar && a.isScalar
    let L := max r.len0 a.len0
    m.2.isScalar = sc ∧ (sc = false → m.2.lenip = L) ∧
    (∀ k, (sc = false → k < L) → m.2.get? k = bcast r k ∧ m.1.get? k = bcast a k) := by
  intro m sc L
  cases a with
  | scalar x =>
    cases r with
    | scalar y => simp [m, sc, multiAnchor, PathIn.len0, PathIn.isScalar, PathIn.get?, bcast]
    | vector ys =>
      have hy : ys ≠ [] := hr
      have hl : 0 < ys.length := List.length_pos_iff.mpr hy
      simp only [m, sc, L, multiAnchor, PathIn.len0, PathIn.isScalar, PathIn.get?, bcast, PathIn.toList,
        PathIn.lenip, hl, if_true, Bool.false_and, true_and, forall_const]
      refine ⟨by omega, ?_⟩
      intro k hk
      have hk : k < ys.length := by omega
      refine ⟨by congr 1; omega, ?_⟩
      rw [getElem?_edgePad _ _ _ (by simp)]
      simp; omega
  | vector xs =>
    have hx : xs ≠ [] := ha
    have hlx : 0 < xs.length := List.length_pos_iff.mpr hx
    cases r with
    | scalar y =>
      simp only [m, sc, L, multiAnchor, PathIn.len0, PathIn.isScalar, PathIn.get?, bcast, PathIn.toList,
        PathIn.lenip, Bool.and_false, true_and, forall_const]
      have h1 : ¬ (0 > xs.length) := by omega
      simp only [h1, if_false, hlx, if_true, PathIn.isScalar, PathIn.lenip, PathIn.get?, true_and]
      refine ⟨by rw [length_edgePad _ _ _ (by simp)]; simp; omega, ?_⟩
      intro k hk
      have hk : k < xs.length := by omega
      refine ⟨?_, by congr 1; omega⟩
      rw [getElem?_edgePad _ _ _ (by simp)]
      simp; omega
    | vector ys =>
      have hy : ys ≠ [] := hr
      have hly : 0 < ys.length := List.length_pos_iff.mpr hy
      simp only [m, sc, L, multiAnchor, PathIn.len0, PathIn.isScalar, bcast, PathIn.toList,
        Bool.and_false, true_and, forall_const]
      by_cases h1 : ys.length > xs.length
      · simp only [h1, if_true, PathIn.isScalar, PathIn.lenip, PathIn.get?, true_and]
        refine ⟨by omega, ?_⟩
        intro k hk
        have hk : k < ys.length := by omega
        refine ⟨by congr 1; omega, ?_⟩
        rw [getElem?_edgePad _ _ _ hx]
        have : max xs.length 1 = xs.length := by omega
        rw [this]
        have : k < 0 + xs.length + (ys.length - xs.length) := by omega
        rw [if_pos this]; simp
      · simp only [h1, if_false]
        by_cases h2 : ys.length < xs.length
        · simp only [h2, if_true, PathIn.isScalar, PathIn.lenip, PathIn.get?, true_and]
          refine ⟨by rw [length_edgePad _ _ _ hy]; omega, ?_⟩
          intro k hk
          have hk : k < xs.length := by omega
          refine ⟨?_, by congr 1; omega⟩
          rw [getElem?_edgePad _ _ _ hy]
          have : max ys.length 1 = ys.length := by omega
          rw [this]
          have : k < 0 + ys.length + (xs.length - ys.length) := by omega
          rw [if_pos this]; simp
        · simp only [h2, if_false, PathIn.isScalar, PathIn.lenip, PathIn.get?, true_and]
          refine ⟨by omega, ?_⟩
          intro k hk
          have hk1 : k < xs.length := by omega
          have hk2 : k < ys.length := by omega
          exact ⟨by congr 1; omega, by congr 1; omega⟩
theorem len0_eq_lenip {α} (p : PathIn α) (h : p.isScalar = false) : p.len0 = p.lenip := by
  cases p <;> simp_all [PathIn.isScalar, PathIn.len0, PathIn.lenip]

theorem window_congr (sc : Bool) (N L L' : Nat) (start : Option Int) (h : sc = false → L = L') :
    window sc N L start = window sc N L' start := by
  cases sc
  · rw [h rfl]
  · exact window_scalar _ _ _ _

theorem inWin_lt {sc : Bool} {N L : Nat} {start : Option Int} {i : Nat}
    (h : (window sc N L start).s0 ≤ i ∧ i < (window sc N L start).stop) (hsc : sc = false) :
    i - (window sc N L start).s0 < L := by
  subst hsc
  simp only [window] at h ⊢
  simp at h ⊢
  omega

theorem applyMove_at [Add V] (inp : PathIn V) (start : Option Int) (o : Obj G V)
    (hne : o.pos ≠ []) (hlen : o.ori.length = o.pos.length) (i : Nat) :
    (applyMove inp start o).pos[i]? = applyAt (fun d x => x + d) inp start o.pos i ∧
    (applyMove inp start o).ori[i]? =
      baseAt o.ori (window inp.isScalar o.pos.length inp.lenip start) i := by
  have hone : o.ori ≠ [] := by
    intro h; rw [h] at hlen; exact hne (List.length_eq_zero_iff.mp hlen.symm)
  obtain ⟨hb, hs, hs0, hN, hfit⟩ :=
    pathPaddingParam_spec inp.isScalar o.pos.length inp.lenip start inp.lenip_of_scalar
  simp only [applyMove, pathPadding, applyAt, baseAt]
  generalize (padOf (pathPaddingParam inp.isScalar (↑o.pos.length) (↑inp.lenip) start).fst).fst = pb at *
  generalize (padOf (pathPaddingParam inp.isScalar (↑o.pos.length) (↑inp.lenip) start).fst).snd = pe at *
  generalize (pathPaddingParam inp.isScalar (↑o.pos.length) (↑inp.lenip) start).snd.toNat = st at *
  subst hb hs
  constructor
  · rw [getElem?_mapSlice, getElem?_edgePad _ _ _ hne]
    simp only [length_edgePad _ _ _ hne]
    have e1 : (window inp.isScalar o.pos.length inp.lenip start).b + o.pos.length + pe
        = (window inp.isScalar o.pos.length inp.lenip start).newLen := by omega
    rw [e1]
    have e2 : (if inp.isScalar = true then (window inp.isScalar o.pos.length inp.lenip start).newLen
        else (window inp.isScalar o.pos.length inp.lenip start).s0 + inp.lenip)
        = (window inp.isScalar o.pos.length inp.lenip start).stop := by
      simp only [window]
    rw [e2]
    rfl
  · rw [getElem?_edgePad _ _ _ hone, hlen]
    have e1 : (window inp.isScalar o.pos.length inp.lenip start).b + o.pos.length + pe
        = (window inp.isScalar o.pos.length inp.lenip start).newLen := by omega
    simp only [e1]

theorem applyRotation_at [Mul G] [SMul G V] [Add V] [Sub V]
    (rot : PathIn G) (anchor : Option (PathIn V)) (start : Option Int) (o : Obj G V)
    (hne : o.pos ≠ []) (hlen : o.ori.length = o.pos.length)
    (hr : rot.WF) (ha : ∀ a, anchor = some a → a.WF) (i : Nat) :
    ((applyRotation rot anchor start none o).pos[i]?,
     (applyRotation rot anchor start none o).ori[i]?) =
      rotateAt rot anchor start o.pos o.ori i := by
  cases anchor with
  | none =>
    simp only [applyRotation]
    rw [applyRotationAligned_at _ _ _ _ hne hlen]
    simp only [alignedAt, rotateAt, Bool.and_true]
    have hw : window rot.isScalar o.pos.length rot.lenip start
        = window rot.isScalar o.pos.length (max rot.len0 0) start :=
      window_congr _ _ _ _ _ (fun h => by rw [len0_eq_lenip _ h]; simp)
    rw [← hw]
    congr 1
    congr 1
    funext q
    by_cases hin : (window rot.isScalar o.pos.length rot.lenip start).s0 ≤ i ∧
        i < (window rot.isScalar o.pos.length rot.lenip start).stop
    · simp only [hin, and_self, if_true]
      rw [get?_eq_bcast rot _ (fun hsc => by rw [len0_eq_lenip _ hsc]; exact inWin_lt hin hsc)]
      rfl
    · simp only [hin, if_false]
  | some a =>
    obtain ⟨f1, f2, f3⟩ := multiAnchor_facts a rot (ha a rfl) hr
    simp only [applyRotation]
    rw [applyRotationAligned_at _ _ _ _ hne hlen]
    simp only [alignedAt, rotateAt]
    have hw : window (multiAnchor a rot).2.isScalar o.pos.length (multiAnchor a rot).2.lenip start
        = window (rot.isScalar && a.isScalar) o.pos.length (max rot.len0 a.len0) start := by
      rw [f1]
      exact window_congr _ _ _ _ _ f2
    rw [hw]
    congr 1
    · congr 1
      funext p
      by_cases hin : (window (rot.isScalar && a.isScalar) o.pos.length (max rot.len0 a.len0) start).s0 ≤ i ∧
          i < (window (rot.isScalar && a.isScalar) o.pos.length (max rot.len0 a.len0) start).stop
      · simp only [hin, and_self, if_true]
        obtain ⟨g1, g2⟩ := f3 (i - (window (rot.isScalar && a.isScalar) o.pos.length (max rot.len0 a.len0) start).s0)
          (fun hsc => inWin_lt hin hsc)
        rw [g1, g2]
        rfl
      · simp only [hin, if_false]
    · congr 1
      funext q
      by_cases hin : (window (rot.isScalar && a.isScalar) o.pos.length (max rot.len0 a.len0) start).s0 ≤ i ∧
          i < (window (rot.isScalar && a.isScalar) o.pos.length (max rot.len0 a.len0) start).stop
      · simp only [hin, and_self, if_true]
        obtain ⟨g1, g2⟩ := f3 (i - (window (rot.isScalar && a.isScalar) o.pos.length (max rot.len0 a.len0) start).s0)
          (fun hsc => inWin_lt hin hsc)
        rw [g1]
        rfl
      · simp only [hin, if_false]


end MagpyVerif
