/-
Lemmas/StyleWF.lean — well-formed states of the defaults / style state machine (Model/StyleState.lean):
a tree is well formed for a class when it has exactly the class's non-alias properties as keys, in order, every
sub-object is well formed for its class, and every stored leaf is a FIXPOINT of its validator (assigning it again
stores it again).  Every constructor call and every setter produces such trees; every operation preserves them.
-/
import MagpyVerif.Lemmas.StyleState
import MagpyVerif.Lemmas.StyleLinearize

namespace MagpyVerif.StyleState
open MagpyVerif.StyleNested

/-! ### validators: idempotence as a check over the table -/

/-- `out` is "stored `v`" -/
def outIs : LeafOut → Option Val → Bool
  | .ok a, v => a == v
  | .error _, _ => false

/-- the validator stores `v` when given `v` -/
def fixB (T : Tables) (vid : Nat) (v : Option Val) : Bool := outIs (runV T vid (.leaf v)) v

def rowApply (r : LeafV) : Option Val → LeafOut
  | none => r.onNone
  | some n => (r.onVal[n]?).getD (.error .other)

def okFix (r : LeafV) : LeafOut → Bool
  | .ok v' => outIs (rowApply r v') v'
  | .error _ => true

/-- every value a setter stores is stored unchanged when assigned again (checked over the whole regenerated table) -/
def idemB (T : Tables) : Bool :=
  T.leafV.all (fun r => okFix r r.onNone && r.onVal.all (okFix r) && okFix r r.onDict)

theorem fixB_of_idem (T : Tables) (h : idemB T = true) (vid : Nat) (val : Tree) (v' : Option Val)
    (hv : runV T vid val = .ok v') : fixB T vid v' = true := by
  unfold runV at hv
  cases hr : T.leafV[vid]? with
  | none => rw [hr] at hv; cases hv
  | some r =>
    rw [hr] at hv
    simp only [] at hv
    have hmem : r ∈ T.leafV := List.mem_of_getElem? hr
    have hrow := List.all_eq_true.mp h r hmem
    simp only [Bool.and_eq_true] at hrow
    have key : okFix r (.ok v') = true := by
      cases val with
      | leaf v =>
        cases v with
        | none => simp only [] at hv; rw [← hv]; exact hrow.1.1
        | some n =>
          simp only [] at hv
          cases hn : r.onVal[n]? with
          | none => rw [hn] at hv; cases hv
          | some o =>
            rw [hn] at hv
            simp only [Option.getD_some] at hv
            rw [← hv]
            exact List.all_eq_true.mp hrow.1.2 o (List.mem_of_getElem? hn)
      | node kv => simp only [] at hv; rw [← hv]; exact hrow.2
    unfold fixB runV
    rw [hr]
    simp only [okFix] at key
    cases v' with
    | none => exact key
    | some n => exact key

/-! ### well-formed trees -/

def Schema.isAlias : Schema → Bool
  | .alias _ => true
  | _ => false

mutual
def wfVal (P : Nat → Option Val → Bool) : Schema → Tree → Bool
  | .leaf vid, .leaf v => P vid v
  | .leaf _, .node _ => false
  | .alias _, _ => false
  | .obj ps _ _ _ _, .node kids => wfKids P ps kids
  | .obj _ _ _ _ _, .leaf _ => false
def wfKids (P : Nat → Option Val → Bool) : List (Key × Schema) → Dict → Bool
  | [], kids => kids.isEmpty
  | (k, s) :: ps, kids =>
    if s.isAlias then wfKids P ps kids else
    match kids with
    | [] => false
    | (k', v) :: kids' => k == k' && wfVal P s v && wfKids P ps kids'
end

theorem wfKids_nil (P : Nat → Option Val → Bool) (kids : Dict) : wfKids P [] kids = kids.isEmpty := by rw [wfKids.eq_def]

theorem wfKids_cons_alias (P : Nat → Option Val → Bool) (k : Key) (s : Schema) (ps : List (Key × Schema)) (kids : Dict) (h : s.isAlias = true) :
    wfKids P ((k, s) :: ps) kids = wfKids P ps kids := by rw [wfKids.eq_def]; simp [h]

theorem wfKids_cons_nil (P : Nat → Option Val → Bool) (k : Key) (s : Schema) (ps : List (Key × Schema)) (h : s.isAlias = false) :
    wfKids P ((k, s) :: ps) [] = false := by rw [wfKids.eq_def]; simp [h]

theorem wfKids_cons_cons (P : Nat → Option Val → Bool) (k k' : Key) (s : Schema) (v : Tree) (ps : List (Key × Schema)) (kids : Dict) (h : s.isAlias = false) :
    wfKids P ((k, s) :: ps) ((k', v) :: kids) = (k == k' && wfVal P s v && wfKids P ps kids) := by rw [wfKids.eq_def]; simp [h]

theorem wfVal_not_alias {P : Nat → Option Val → Bool} {s : Schema} {v : Tree} (h : wfVal P s v = true) : s.isAlias = false := by
  cases s with
  | leaf vid => rfl
  | alias t => rw [wfVal] at h; cases h
  | obj a b c d e => rfl

/-- a key that is no property is no key of a well-formed tree -/
theorem wfKids_lookup_none (P : Nat → Option Val → Bool) (k : Key) : ∀ (ps : List (Key × Schema)) (kids : Dict),
    wfKids P ps kids = true → lookup k ps = none → lookup k kids = none := by
  intro ps
  induction ps with
  | nil =>
    intro kids h _
    rw [wfKids_nil] at h
    cases kids with
    | nil => rfl
    | cons a b => simp at h
  | cons hd t ih =>
    obtain ⟨k0, s0⟩ := hd
    intro kids h hl
    have hk0 : k0 ≠ k := by intro e; simp [lookup_cons, e] at hl
    simp only [lookup_cons, hk0, if_false] at hl
    cases ha : s0.isAlias with
    | true => rw [wfKids_cons_alias P k0 s0 t kids ha] at h; exact ih kids h hl
    | false =>
      cases kids with
      | nil => rw [wfKids_cons_nil P k0 s0 t ha] at h; cases h
      | cons kv kids' =>
        obtain ⟨k', v⟩ := kv
        rw [wfKids_cons_cons P k0 k' s0 v t kids' ha] at h
        simp only [Bool.and_eq_true, beq_iff_eq] at h
        have : k' ≠ k := by rw [← h.1.1]; exact hk0
        simp only [lookup_cons, this, if_false]
        exact ih kids' h.2 hl

/-- the value under a (non-alias) property of a well-formed tree is well formed for the property -/
theorem wfKids_lookup (P : Nat → Option Val → Bool) (k : Key) (s : Schema) (hs : s.isAlias = false) : ∀ (ps : List (Key × Schema)) (kids : Dict),
    wfKids P ps kids = true → lookup k ps = some s → ∃ v, lookup k kids = some v ∧ wfVal P s v = true := by
  intro ps
  induction ps with
  | nil => intro kids _ hl; simp at hl
  | cons hd t ih =>
    obtain ⟨k0, s0⟩ := hd
    intro kids h hl
    cases ha : s0.isAlias with
    | true =>
      rw [wfKids_cons_alias P k0 s0 t kids ha] at h
      have hk0 : k0 ≠ k := by
        intro e
        simp only [lookup_cons, e, if_true, Option.some.injEq] at hl
        rw [hl] at ha; rw [ha] at hs; cases hs
      simp only [lookup_cons, hk0, if_false] at hl
      exact ih kids h hl
    | false =>
      cases kids with
      | nil => rw [wfKids_cons_nil P k0 s0 t ha] at h; cases h
      | cons kv kids' =>
        obtain ⟨k', v⟩ := kv
        rw [wfKids_cons_cons P k0 k' s0 v t kids' ha] at h
        simp only [Bool.and_eq_true, beq_iff_eq] at h
        by_cases hk0 : k0 = k
        · simp only [lookup_cons, hk0, if_true, Option.some.injEq] at hl
          subst hl
          exact ⟨v, by simp [lookup_cons, ← h.1.1, hk0], h.1.2⟩
        · simp only [lookup_cons, hk0, if_false] at hl
          have : k' ≠ k := by rw [← h.1.1]; exact hk0
          obtain ⟨v', h1, h2⟩ := ih kids' h.2 hl
          exact ⟨v', by simp [lookup_cons, this, h1], h2⟩

/-- replacing the value of a property by a well-formed one keeps the tree well formed -/
theorem wfKids_setKey (P : Nat → Option Val → Bool) (k : Key) (s : Schema) (v : Tree) (hv : wfVal P s v = true) :
    ∀ (ps : List (Key × Schema)) (kids : Dict), wfKids P ps kids = true → lookup k ps = some s →
      wfKids P ps (setKey k v kids) = true := by
  have hs := wfVal_not_alias hv
  intro ps
  induction ps with
  | nil => intro kids _ hl; simp at hl
  | cons hd t ih =>
    obtain ⟨k0, s0⟩ := hd
    intro kids h hl
    cases ha : s0.isAlias with
    | true =>
      rw [wfKids_cons_alias P k0 s0 t kids ha] at h
      rw [wfKids_cons_alias P k0 s0 t _ ha]
      have hk0 : k0 ≠ k := by
        intro e
        simp only [lookup_cons, e, if_true, Option.some.injEq] at hl
        rw [hl] at ha; rw [ha] at hs; cases hs
      simp only [lookup_cons, hk0, if_false] at hl
      exact ih kids h hl
    | false =>
      cases kids with
      | nil => rw [wfKids_cons_nil P k0 s0 t ha] at h; cases h
      | cons kv kids' =>
        obtain ⟨k', v0⟩ := kv
        rw [wfKids_cons_cons P k0 k' s0 v0 t kids' ha] at h
        simp only [Bool.and_eq_true, beq_iff_eq] at h
        by_cases hk0 : k0 = k
        · simp only [lookup_cons, hk0, if_true, Option.some.injEq] at hl
          subst hl
          have hk' : k' = k := by rw [← h.1.1]; exact hk0
          simp only [setKey, hk', if_true]
          rw [wfKids_cons_cons P k0 k s0 v t kids' ha]
          simp [hk0, hv, h.2]
        · simp only [lookup_cons, hk0, if_false] at hl
          have hk' : k' ≠ k := by rw [← h.1.1]; exact hk0
          simp only [setKey, hk', if_false]
          rw [wfKids_cons_cons P k0 k' s0 v0 t _ ha]
          simp [h.1.1, h.1.2, ih kids' h.2 hl]

/-! ### what the schema must satisfy (checked on the regenerated classes) -/

/-- every alias target has at least two segments (`Magnetization.size` ↦ `arrow.size`) -/
def aliasLen : List (Key × Schema) → Bool
  | [] => true
  | (_, .alias (_ :: _ :: _)) :: r => aliasLen r
  | (_, .alias _) :: _ => false
  | (_, .leaf _) :: r => aliasLen r
  | (_, .obj _ _ _ _ _) :: r => aliasLen r

mutual
/-- in every class of the schema: pairwise different property names, alias targets of length ≥ 2 -/
def okSchema : Schema → Bool
  | .obj ps _ _ _ _ => okProps ps && nodupK ps && aliasLen ps
  | .leaf _ => true
  | .alias _ => true
def okProps : List (Key × Schema) → Bool
  | [] => true
  | (_, s) :: r => okSchema s && okProps r
end

theorem okProps_lookup {k : Key} {s : Schema} : ∀ {ps : List (Key × Schema)}, okProps ps = true → lookup k ps = some s → okSchema s = true := by
  intro ps
  induction ps with
  | nil => intro _ h; simp at h
  | cons hd t ih =>
    obtain ⟨k0, s0⟩ := hd
    intro h hl
    rw [okProps] at h
    simp only [Bool.and_eq_true] at h
    by_cases hk : k0 = k
    · simp only [lookup_cons, hk, if_true, Option.some.injEq] at hl
      rw [← hl]; exact h.1
    · simp only [lookup_cons, hk, if_false] at hl
      exact ih h.2 hl

theorem nodupK_prefix_lookup {α : Type} (k : Key) (s : α) (rest : List (Key × α)) : ∀ (pre : List (Key × α)),
    nodupK (pre ++ (k, s) :: rest) = true → lookup k pre = none := by
  intro pre
  induction pre with
  | nil => intro _; rfl
  | cons hd t ih =>
    obtain ⟨k0, s0⟩ := hd
    intro h
    simp only [List.cons_append, nodupK_cons, Bool.and_eq_true, Option.isNone_iff_eq_none] at h
    have hk : k0 ≠ k := by
      intro e
      have := h.1
      rw [e, lookup_append] at this
      cases hl : lookup k t with
      | some v => rw [hl] at this; cases this
      | none => rw [hl] at this; simp [lookup_cons] at this
    simp only [lookup_cons, hk, if_false]
    exact ih h.2

theorem wfKids_append_alias (P : Nat → Option Val → Bool) (k : Key) (s : Schema) (hs : s.isAlias = true) : ∀ (pre : List (Key × Schema)) (acc : Dict),
    wfKids P pre acc = true → wfKids P (pre ++ [(k, s)]) acc = true := by
  intro pre
  induction pre with
  | nil =>
    intro acc h
    rw [List.nil_append, wfKids_cons_alias P k s [] acc hs]; exact h
  | cons hd t ih =>
    obtain ⟨k0, s0⟩ := hd
    intro acc h
    rw [List.cons_append]
    cases ha : s0.isAlias with
    | true =>
      rw [wfKids_cons_alias P k0 s0 t acc ha] at h
      rw [wfKids_cons_alias P k0 s0 _ acc ha]
      exact ih acc h
    | false =>
      cases acc with
      | nil => rw [wfKids_cons_nil P k0 s0 t ha] at h; cases h
      | cons kv acc' =>
        obtain ⟨k', v0⟩ := kv
        rw [wfKids_cons_cons P k0 k' s0 v0 t acc' ha] at h
        rw [wfKids_cons_cons P k0 k' s0 v0 _ acc' ha]
        simp only [Bool.and_eq_true] at h ⊢
        exact ⟨h.1, ih acc' h.2⟩

theorem wfKids_append (P : Nat → Option Val → Bool) (k : Key) (s : Schema) (v : Tree) (hv : wfVal P s v = true) : ∀ (pre : List (Key × Schema)) (acc : Dict),
    wfKids P pre acc = true → wfKids P (pre ++ [(k, s)]) (acc ++ [(k, v)]) = true := by
  have hs := wfVal_not_alias hv
  intro pre
  induction pre with
  | nil =>
    intro acc h
    rw [wfKids_nil] at h
    cases acc with
    | nil =>
      rw [List.nil_append, List.nil_append, wfKids_cons_cons P k k s v [] [] hs, wfKids_nil]
      simp [hv]
    | cons a b => simp at h
  | cons hd t ih =>
    obtain ⟨k0, s0⟩ := hd
    intro acc h
    rw [List.cons_append]
    cases ha : s0.isAlias with
    | true =>
      rw [wfKids_cons_alias P k0 s0 t acc ha] at h
      rw [wfKids_cons_alias P k0 s0 _ _ ha]
      exact ih acc h
    | false =>
      cases acc with
      | nil => rw [wfKids_cons_nil P k0 s0 t ha] at h; cases h
      | cons kv acc' =>
        obtain ⟨k', v0⟩ := kv
        rw [wfKids_cons_cons P k0 k' s0 v0 t acc' ha] at h
        rw [List.cons_append, wfKids_cons_cons P k0 k' s0 v0 _ _ ha]
        simp only [Bool.and_eq_true] at h ⊢
        exact ⟨h.1, ih acc' h.2⟩

/-! ### the alias setter keeps trees well formed -/

theorem wfVal_obj_elim {P : Nat → Option Val → Bool} {ps : List (Key × Schema)} {a : List Str} {b : Option Key} {c : List (Key × Option Val)} {d : Bool} {v : Tree}
    (h : wfVal P (.obj ps a b c d) v = true) : ∃ kids, v = .node kids ∧ wfKids P ps kids = true := by
  cases v with
  | leaf x => rw [wfVal] at h; cases h
  | node kids => rw [wfVal] at h; exact ⟨kids, rfl, h⟩

theorem setLeafAt_wf (T : Tables) (hT : idemB T = true) (val : Tree) : ∀ (tgt : List Key) (props : List (Key × Schema)) (acc r : Dict),
    wfKids (fixB T) props acc = true → setLeafAt T props acc tgt val = .ok r → wfKids (fixB T) props r = true := by
  intro tgt
  induction tgt with
  | nil => intro props acc r _ h; rw [setLeafAt] at h; cases h
  | cons k ks ih =>
    intro props acc r hw h
    cases ks with
    | nil =>
      rw [setLeafAt] at h
      split at h
      · rename_i vid hl
        split at h
        · rename_i v hv
          injection h with h
          subst h
          exact wfKids_setKey (fixB T) k (.leaf vid) (.leaf v) (by rw [wfVal]; exact fixB_of_idem T hT vid val v hv) props acc hw hl
        · cases h
      · cases h
    | cons k2 ks' =>
      rw [setLeafAt] at h
      split at h
      · rename_i ps1 a b c d sub hl hc
        split at h
        · rename_i r' hr
          injection h with h
          subst h
          obtain ⟨v, hv1, hv2⟩ := wfKids_lookup (fixB T) k (.obj ps1 a b c d) rfl props acc hw hl
          rw [hc] at hv1
          injection hv1 with hv1
          subst hv1
          rw [wfVal] at hv2
          have := ih ps1 sub r' hv2 hr
          exact wfKids_setKey (fixB T) k (.obj ps1 a b c d) (.node r') (by rw [wfVal]; exact this) props acc hw hl
        · cases h
      · cases h

/-- the alias setter during a constructor call: the tree built so far (for the properties `pre` already assigned) stays
well formed -/
theorem setLeafAt_wf_prefix (T : Tables) (hT : idemB T = true) (val : Tree) (pre rest : List (Key × Schema)) (acc r : Dict)
    (k k2 : Key) (ks : List Key) (hw : wfKids (fixB T) pre acc = true) (h : setLeafAt T (pre ++ rest) acc (k :: k2 :: ks) val = .ok r) :
    wfKids (fixB T) pre r = true := by
  rw [setLeafAt] at h
  split at h
  · rename_i ps1 a b c d sub hl hc
    split at h
    · rename_i r' hr
      injection h with h
      subst h
      have hpre : lookup k pre = some (.obj ps1 a b c d) := by
        cases hp : lookup k pre with
        | none => rw [wfKids_lookup_none (fixB T) k pre acc hw hp] at hc; cases hc
        | some s => rw [lookup_append, hp] at hl; exact hl
      obtain ⟨v, hv1, hv2⟩ := wfKids_lookup (fixB T) k (.obj ps1 a b c d) rfl pre acc hw hpre
      rw [hc] at hv1
      injection hv1 with hv1
      subst hv1
      rw [wfVal] at hv2
      have := setLeafAt_wf T hT val (k2 :: ks) ps1 sub r' hv2 hr
      exact wfKids_setKey (fixB T) k (.obj ps1 a b c d) (.node r') (by rw [wfVal]; exact this) pre acc hw hpre
    · cases h
  · cases h

/-! ### constructors and setters produce well-formed trees -/

theorem aliasLen_cons_alias {k : Key} {tgt : List Key} {r : List (Key × Schema)} (h : aliasLen ((k, .alias tgt) :: r) = true) :
    (∃ k1 k2 ks, tgt = k1 :: k2 :: ks) ∧ aliasLen r = true := by
  match tgt, h with
  | k1 :: k2 :: ks, h => rw [aliasLen] at h; exact ⟨⟨k1, k2, ks, rfl⟩, h⟩
  | [_], h => simp [aliasLen] at h
  | [], h => simp [aliasLen] at h

theorem aliasLen_tail {k : Key} {s : Schema} {r : List (Key × Schema)} (h : aliasLen ((k, s) :: r) = true) : aliasLen r = true := by
  cases s with
  | leaf v => rw [aliasLen] at h; exact h
  | obj a b c d e => rw [aliasLen] at h; exact h
  | alias t => exact (aliasLen_cons_alias h).2

theorem setProp_alias_none (T : Tables) (all : List (Key × Schema)) (acc : Dict) (k : Key) (tgt : List Key) :
    setProp T all acc k (.alias tgt) (.leaf none) = .ok acc := by rw [setProp]

theorem setProp_alias_val (T : Tables) (all : List (Key × Schema)) (acc : Dict) (k : Key) (tgt : List Key) (val : Tree)
    (h : val ≠ .leaf none) : setProp T all acc k (.alias tgt) val = setLeafAt T all acc tgt val := by
  cases val with
  | leaf v =>
    cases v with
    | none => exact absurd rfl h
    | some n => rw [setProp]; exact h
  | node kv => rw [setProp]; exact h

mutual
/-- a property setter that succeeds puts a well-formed value under its key -/
theorem setProp_wf (T : Tables) (hT : idemB T = true) : ∀ (s : Schema), okSchema s = true → s.isAlias = false →
    ∀ (all : List (Key × Schema)) (acc : Dict) (k : Key) (val : Tree) (r : Dict),
      setProp T all acc k s val = .ok r → ∃ v, r = setKey k v acc ∧ wfVal (fixB T) s v = true
  | .leaf vid, _, _, all, acc, k, val, r, h => by
    rw [setProp] at h
    split at h
    · rename_i v hv
      injection h with h
      exact ⟨.leaf v, h.symm, by rw [wfVal]; exact fixB_of_idem T hT vid val v hv⟩
    · cases h
  | .alias _, _, ha, _, _, _, _, _, _ => by cases ha
  | .obj ps a b c d, hok, _, all, acc, k, val, r, h => by
    rw [setProp] at h
    split at h
    · cases h
    · split at h
      · cases h
      · rename_i g _
        split at h
        · rename_i r' hr
          injection h with h
          rw [okSchema] at hok
          simp only [Bool.and_eq_true] at hok
          have := constructProps_wf T hT ps hok.1.1 ps g [] [] r' (by simp) hok.1.2 hok.2 (by rw [wfKids_nil]; rfl) hr
          exact ⟨.node r', h.symm, by rw [wfVal]; exact this⟩
        · cases h
/-- the loop of `MagicProperties.__init__` builds a well-formed tree -/
theorem constructProps_wf (T : Tables) (hT : idemB T = true) : ∀ (rest : List (Key × Schema)), okProps rest = true →
    ∀ (all : List (Key × Schema)) (g : Dict) (pre : List (Key × Schema)) (acc r : Dict),
      all = pre ++ rest → nodupK all = true → aliasLen rest = true → wfKids (fixB T) pre acc = true →
      constructProps T all g rest acc = .ok r → wfKids (fixB T) all r = true
  | [], _, all, g, pre, acc, r, hall, _, _, hw, h => by
    rw [constructProps] at h
    injection h with h
    subst h
    rw [hall, List.append_nil]; exact hw
  | (k, s) :: rest', hok, all, g, pre, acc, r, hall, hnd, hal, hw, h => by
    rw [constructProps] at h
    rw [okProps] at hok
    simp only [Bool.and_eq_true] at hok
    split at h
    · cases h
    · rename_i acc' hs
      have hall' : all = (pre ++ [(k, s)]) ++ rest' := by rw [hall]; simp
      refine constructProps_wf T hT rest' hok.2 all g (pre ++ [(k, s)]) acc' r hall' hnd (aliasLen_tail hal) ?_ h
      cases ha : s.isAlias with
      | true =>
        cases s with
        | leaf v => cases ha
        | obj a b c d e => cases ha
        | alias tgt =>
          obtain ⟨⟨k1, k2, ks, rfl⟩, _⟩ := aliasLen_cons_alias hal
          apply wfKids_append_alias (fixB T) k _ rfl
          by_cases hval : (lookup k g).getD (Tree.leaf none) = .leaf none
          · rw [hval, setProp_alias_none] at hs
            injection hs with hs; rw [← hs]; exact hw
          · rw [setProp_alias_val T all acc k _ _ hval, hall] at hs
            exact setLeafAt_wf_prefix T hT _ pre _ acc acc' k1 k2 ks hw hs
      | false =>
        obtain ⟨v, hr, hv⟩ := setProp_wf T hT s hok.1 ha all acc k _ acc' hs
        have hkp : lookup k pre = none := nodupK_prefix_lookup k s rest' pre (by rw [← hall]; exact hnd)
        have hka : lookup k acc = none := wfKids_lookup_none (fixB T) k pre acc hw hkp
        rw [hr, setKey_of_lookup_none hka]
        exact wfKids_append (fixB T) k s v hv pre acc hw
end

/-- `Class(**kw)` that succeeds gives a well-formed tree -/
theorem construct_wf (T : Tables) (hT : idemB T = true) (ps : List (Key × Schema)) (a : List Str) (b : Option Key)
    (ct : List (Key × Option Val)) (vk : Bool) (hok : okSchema (.obj ps a b ct vk) = true) (kw r : Dict)
    (h : construct T ps ct vk kw = .ok r) : wfKids (fixB T) ps r = true := by
  rw [okSchema] at hok
  simp only [Bool.and_eq_true] at hok
  unfold construct at h
  split at h
  · cases h
  · rename_i g _
    exact constructProps_wf T hT ps hok.1.1 ps g [] [] r (by simp) hok.1.2 hok.2 (by rw [wfKids_nil]; rfl) h

/-- `setattr(self, k, val)` that succeeds keeps the object well formed -/
theorem setAttr_wf (T : Tables) (hT : idemB T = true) (props : List (Key × Schema)) (hok : okProps props = true) (others : List Str)
    (cur : Dict) (k : Key) (val : Tree) (c' : Dict) (hw : wfKids (fixB T) props cur = true)
    (h : setAttr T props others cur k val = .ok c') : wfKids (fixB T) props c' = true := by
  unfold setAttr at h
  cases hl : lookup k props with
  | none =>
    rw [hl] at h
    simp only [] at h
    split at h
    · split at h <;> cases h
    · cases h
  | some s =>
    rw [hl] at h
    simp only [] at h
    cases ha : s.isAlias with
    | false =>
      obtain ⟨v, hr, hv⟩ := setProp_wf T hT s (okProps_lookup hok hl) ha props cur k val c' h
      rw [hr]
      exact wfKids_setKey (fixB T) k s v hv props cur hw hl
    | true =>
      cases s with
      | leaf v => cases ha
      | obj a b c d e => cases ha
      | alias tgt =>
        by_cases hval : val = .leaf none
        · rw [hval, setProp_alias_none] at h
          injection h with h; rw [← h]; exact hw
        · rw [setProp_alias_val T props cur k tgt val hval] at h
          exact setLeafAt_wf T hT val tgt props cur c' hw h

theorem setAllS_wf (T : Tables) (hT : idemB T = true) (props : List (Key × Schema)) (hok : okProps props = true) (others : List Str) :
    ∀ (items cur : Dict), wfKids (fixB T) props cur = true → wfKids (fixB T) props (setAllS T props others cur items).1 = true := by
  intro items
  induction items with
  | nil => intro cur h; exact h
  | cons hd t ih =>
    obtain ⟨k, v⟩ := hd
    intro cur h
    rw [setAllS_cons]
    cases hs : setAttr T props others cur k v with
    | error e => exact h
    | ok c' => exact ih c' (setAttr_wf T hT props hok others cur k v c' h hs)

theorem updateObj_wf (T : Tables) (hT : idemB T = true) (props : List (Key × Schema)) (hok : okProps props = true) (others : List Str)
    (cur : Dict) (arg : Option Tree) (kwargs : Dict) (mt rno : Bool) (hw : wfKids (fixB T) props cur = true) :
    wfKids (fixB T) props (updateObj T props others cur arg kwargs mt rno).1 = true := by
  unfold updateObj
  simp only []
  split
  · exact hw
  · split
    · exact hw
    · split
      · exact hw
      · exact hw
      · rename_i nd _
        have := setAllS_wf T hT props hok others nd cur hw
        split
        · rename_i c u heq
          rw [heq] at this
          exact this
        · exact hw

/-- an operation that keeps every sub-object well formed keeps the object well formed when run at a path -/
theorem atPath_wf (T : Tables) (f : List (Key × Schema) → List Str → Dict → Dict × Except Kind Unit)
    (hf : ∀ ps os c, okProps ps = true → wfKids (fixB T) ps c = true → wfKids (fixB T) ps (f ps os c).1 = true) :
    ∀ (path : List Key) (props : List (Key × Schema)) (others : List Str) (cur : Dict), okProps props = true →
      wfKids (fixB T) props cur = true → wfKids (fixB T) props (atPath f props others cur path).1 = true := by
  intro path
  induction path with
  | nil => intro props others cur hok hw; exact hf props others cur hok hw
  | cons k ks ih =>
    intro props others cur hok hw
    unfold atPath
    split
    · rename_i ps1 os1 b c d sub hl hc
      obtain ⟨v, hv1, hv2⟩ := wfKids_lookup (fixB T) k (.obj ps1 os1 b c d) rfl props cur hw hl
      rw [hc] at hv1
      injection hv1 with hv1
      subst hv1
      rw [wfVal] at hv2
      have hok1 := okProps_lookup hok hl
      rw [okSchema] at hok1
      simp only [Bool.and_eq_true] at hok1
      have := ih ps1 os1 sub hok1.1.1 hv2
      exact wfKids_setKey (fixB T) k (.obj ps1 os1 b c d) _ (by rw [wfVal]; exact this) props cur hw hl
    · exact hw

end MagpyVerif.StyleState
