/-
Lemmas/History.lean — the abstract specification of collection histories (C10) and the glue for the
`rotate_from_*` entry points (C09).

Abstract state of a collection (`Spec`): the collection's own pose path (`frame`) and, for every object below it
(per direct child, pre-order, any depth), its path of poses *relative to the collection frame* (`relPath`).
`compose frame rel` is the absolute path.  A collection operation changes the frame by the single-object
semantics of C09 and re-indexes every relative path by one index map (the edge padding / end slicing of the
operation) — the same for all descendants.
-/
import MagpyVerif.Lemmas.Setters
import MagpyVerif.Model.History
namespace MagpyVerif
open Gen Spec RotFrom
variable {G V : Type}

section relpath
variable [Group G] [AddCommGroup V] [DistribMulAction G V]

/-- path of poses of `d` in the frame of `c`: `(R_c(i)⁻¹ (p_d(i) − p_c(i)), R_c(i)⁻¹ R_d(i))` -/
def relPath (c d : Obj G V) : List (V × G) :=
  List.zipWith (fun (a b : V × G) => (a.2⁻¹ • (b.1 - a.1), a.2⁻¹ * b.2)) (c.pos.zip c.ori) (d.pos.zip d.ori)

/-- absolute path from a frame path and a relative path: `(p_c(i) + R_c(i) v_i, R_c(i) g_i)` -/
def compose (c : Obj G V) (r : List (V × G)) : Obj G V :=
  { pos := List.zipWith (fun (a b : V × G) => a.1 + a.2 • b.1) (c.pos.zip c.ori) r,
    ori := List.zipWith (fun (a b : V × G) => a.2 * b.2) (c.pos.zip c.ori) r }

omit [Group G] [AddCommGroup V] [DistribMulAction G V] in
theorem zip_getElem?_some {α β} {xs : List α} {ys : List β} {i : Nat} {a : α} {b : β}
    (h1 : xs[i]? = some a) (h2 : ys[i]? = some b) : (xs.zip ys)[i]? = some (a, b) :=
  List.getElem?_zip_eq_some.mpr ⟨h1, h2⟩

omit [Group G] [AddCommGroup V] [DistribMulAction G V] in
theorem zip_getElem?_none {α β} {xs : List α} {ys : List β} {i : Nat}
    (h1 : xs[i]? = none) : (xs.zip ys)[i]? = none := by
  rw [List.getElem?_eq_none_iff] at h1 ⊢
  simp only [List.length_zip]; omega

theorem length_relPath (c d : Obj G V) (N : Nat) (hc : c.pos.length = N ∧ c.ori.length = N)
    (hd : d.pos.length = N ∧ d.ori.length = N) : (relPath c d).length = N := by
  simp [relPath, hc.1, hc.2, hd.1, hd.2]

theorem getElem?_relPath (c d : Obj G V) (N : Nat) (hc : c.pos.length = N ∧ c.ori.length = N)
    (hd : d.pos.length = N ∧ d.ori.length = N) (i : Nat) : (relPath c d)[i]? = relAt c d i := by
  unfold relPath relAt
  by_cases hi : i < N
  · obtain ⟨pc, hpc⟩ := (getElem?_of_len c.pos N i hc.1).1 hi
    obtain ⟨qc, hqc⟩ := (getElem?_of_len c.ori N i hc.2).1 hi
    obtain ⟨pd, hpd⟩ := (getElem?_of_len d.pos N i hd.1).1 hi
    obtain ⟨qd, hqd⟩ := (getElem?_of_len d.ori N i hd.2).1 hi
    simp [List.getElem?_zipWith, zip_getElem?_some hpc hqc, zip_getElem?_some hpd hqd, hpc, hqc, hpd, hqd]
  · have h1 := (getElem?_of_len c.pos N i hc.1).2 hi
    simp [List.getElem?_zipWith, zip_getElem?_none (ys := c.ori) h1, h1]

/-- `compose` inverts `relPath`: every object IS the collection frame composed with its relative path -/
theorem compose_relPath (c d : Obj G V) (N : Nat) (hc : c.pos.length = N ∧ c.ori.length = N)
    (hd : d.pos.length = N ∧ d.ori.length = N) : compose c (relPath c d) = d := by
  have hr := getElem?_relPath c d N hc hd
  apply Obj.ext'
  · apply List.ext_getElem?
    intro i
    simp only [compose, List.getElem?_zipWith, hr]
    unfold relAt
    by_cases hi : i < N
    · obtain ⟨pc, hpc⟩ := (getElem?_of_len c.pos N i hc.1).1 hi
      obtain ⟨qc, hqc⟩ := (getElem?_of_len c.ori N i hc.2).1 hi
      obtain ⟨pd, hpd⟩ := (getElem?_of_len d.pos N i hd.1).1 hi
      obtain ⟨qd, hqd⟩ := (getElem?_of_len d.ori N i hd.2).1 hi
      simp [zip_getElem?_some hpc hqc, hpc, hqc, hpd, hqd, smul_inv_smul]
    · have h1 := (getElem?_of_len c.pos N i hc.1).2 hi
      have h2 := (getElem?_of_len d.pos N i hd.1).2 hi
      simp [zip_getElem?_none (ys := c.ori) h1, h1, h2]
  · apply List.ext_getElem?
    intro i
    simp only [compose, List.getElem?_zipWith, hr]
    unfold relAt
    by_cases hi : i < N
    · obtain ⟨pc, hpc⟩ := (getElem?_of_len c.pos N i hc.1).1 hi
      obtain ⟨qc, hqc⟩ := (getElem?_of_len c.ori N i hc.2).1 hi
      obtain ⟨pd, hpd⟩ := (getElem?_of_len d.pos N i hd.1).1 hi
      obtain ⟨qd, hqd⟩ := (getElem?_of_len d.ori N i hd.2).1 hi
      simp [zip_getElem?_some hpc hqc, hpc, hqc, hpd, hqd]
    · have h1 := (getElem?_of_len c.pos N i hc.1).2 hi
      have h2 := (getElem?_of_len d.ori N i hd.2).2 hi
      simp [zip_getElem?_none (ys := c.ori) h1, h1, h2]

/-- re-indexing of a relative path: entry `i` of the new path (length `N'`) is the old entry `σ i` -/
def reindex (σ : Nat → Nat) (N' : Nat) (r : List (V × G)) : List (V × G) :=
  (List.range N').map fun i => r.getD (σ i) (0, 1)

theorem relPath_eq_reindex (o o' d d' : Obj G V) (N N' : Nat) (σ : Nat → Nat)
    (ho : o.pos.length = N ∧ o.ori.length = N) (hd : d.pos.length = N ∧ d.ori.length = N)
    (ho' : o'.pos.length = N' ∧ o'.ori.length = N') (hd' : d'.pos.length = N' ∧ d'.ori.length = N')
    (hσ : ∀ i, i < N' → σ i < N)
    (h : ∀ i, relAt o' d' i = if i < N' then relAt o d (σ i) else none) :
    relPath o' d' = reindex σ N' (relPath o d) := by
  apply List.ext_getElem?
  intro i
  rw [getElem?_relPath o' d' N' ho' hd', h i]
  unfold reindex
  by_cases hi : i < N'
  · have hl := length_relPath o d N ho hd
    have hlt : σ i < (relPath o d).length := by rw [hl]; exact hσ i hi
    simp only [hi, if_true, List.getElem?_map, List.getElem?_range hi, Option.map_some]
    rw [← getElem?_relPath o d N ho hd, List.getD_eq_getElem?_getD, List.getElem?_eq_getElem hlt]
    rfl
  · simp [hi]

theorem reindex_reindex (σ τ : Nat → Nat) (N' N'' : Nat) (r : List (V × G)) (hτ : ∀ i, i < N'' → τ i < N') :
    reindex τ N'' (reindex σ N' r) = reindex (σ ∘ τ) N'' r := by
  unfold reindex
  apply List.map_congr_left
  intro i hi
  have hi' : i < N'' := List.mem_range.mp hi
  have := hτ i hi'
  simp [List.getD_eq_getElem?_getD, List.getElem?_range this]

/-- abstract state of a collection: its own pose path and, per direct child, the relative pose paths of all
objects of that child's subtree (pre-order, any depth) -/
structure CollSpec (G V : Type) where
  frame : Obj G V
  rels : List (List (List (V × G)))

/-- the abstraction function -/
def absColl (t : Node G V) : CollSpec G V :=
  ⟨t.obj, t.children.map fun c => c.objs.map (relPath t.obj)⟩

/-- every object of the tree has position and orientation paths of length `N` -/
def Node.UniformLen (N : Nat) (n : Node G V) : Prop :=
  ∀ d ∈ n.objs, d.pos.length = N ∧ d.ori.length = N

omit [Group G] [AddCommGroup V] [DistribMulAction G V] in
theorem Node.mem_objs_of_child {o : Obj G V} {cs : List (Node G V)} {c : Node G V} {d : Obj G V}
    (hc : c ∈ cs) (hd : d ∈ c.objs) : d ∈ (Node.mk o cs).objs := by
  rw [Node.objs]
  exact List.mem_cons_of_mem _ (List.mem_flatten.mpr ⟨c.objs, List.mem_map.mpr ⟨c, hc, rfl⟩, hd⟩)

omit [Group G] [AddCommGroup V] [DistribMulAction G V] in
theorem Node.all_of_objs {P : Obj G V → Prop} : ∀ n : Node G V, (∀ d ∈ n.objs, P d) → n.All P := by
  apply Node.induct
  intro o cs ih h
  refine .mk (h o (by simp [Node.objs])) ?_
  intro c hc
  exact ih c hc (fun d hd => h d (Node.mem_objs_of_child hc hd))

omit [Group G] [AddCommGroup V] [DistribMulAction G V] in
theorem Node.uniform_all_inv {N : Nat} (hN : 1 ≤ N) {n : Node G V} (h : n.UniformLen N) : n.All Obj.Inv :=
  Node.all_of_objs n (fun d hd => ⟨by rw [(h d hd).1, (h d hd).2], by rw [(h d hd).1]; exact hN⟩)

omit [Group G] [AddCommGroup V] [DistribMulAction G V] in
theorem Node.uniform_of_objs_eq {N : Nat} {n n' : Node G V} {F : Obj G V → Obj G V}
    (h : n'.objs = n.objs.map F) (hF : ∀ d ∈ n.objs, (F d).pos.length = N ∧ (F d).ori.length = N) :
    n'.UniformLen N := by
  intro d' hd'
  rw [h] at hd'
  obtain ⟨d, hd, rfl⟩ := List.mem_map.mp hd'
  exact hF d hd

/-- the shape every collection operation has: new frame object, every child mapped by `g`, whose objects are the
old ones mapped by `F`, and `F` re-indexes the relative path by `σ` -/
theorem absColl_of_map (o o' : Obj G V) (cs : List (Node G V)) (g : Node G V → Node G V)
    (F : Obj G V → Obj G V) (σ : Nat → Nat) (N' : Nat)
    (hobjs : ∀ c ∈ cs, (g c).objs = c.objs.map F)
    (hrel : ∀ c ∈ cs, ∀ d ∈ c.objs, relPath o' (F d) = reindex σ N' (relPath o d)) :
    absColl (Node.mk o' (cs.map g)) =
      ⟨o', (absColl (Node.mk o cs)).rels.map (List.map (reindex σ N'))⟩ := by
  simp only [absColl, Node.obj, Node.children, List.map_map]
  congr 1
  apply List.map_congr_left
  intro c hc
  simp only [Function.comp_apply]
  rw [hobjs c hc, List.map_map, List.map_map]
  apply List.map_congr_left
  intro d hd
  exact hrel c hc d hd

/-- index map of a move/rotate window: new index ↦ old index it is based on (edge padding = clamping) -/
def winIdx (w : Window) (N : Nat) : Nat → Nat := fun i => min (i - w.b) (N - 1)

theorem absColl_move (o : Obj G V) (cs : List (Node G V)) (N : Nat) (hN : 1 ≤ N)
    (hU : (Node.mk o cs).UniformLen N) (inp : PathIn V) (start : Option Int) :
    let w := window inp.isScalar N inp.lenip start
    absColl ((Node.mk o cs).move inp start) =
      ⟨applyMove inp start o, (absColl (Node.mk o cs)).rels.map (List.map (reindex (winIdx w N) w.newLen))⟩ ∧
    ((Node.mk o cs).move inp start).UniformLen w.newLen := by
  intro w
  have ho := hU o (by simp [Node.objs])
  constructor
  · rw [Node.move]
    apply absColl_of_map o _ cs _ (applyMove inp start) _ _ (fun c _ => Node.move_objs inp start c)
    intro c hc d hd
    have hd' := hU d (Node.mem_objs_of_child hc hd)
    exact relPath_eq_reindex o _ d _ N w.newLen _ ho hd' (length_applyMove inp start o N hN ho)
      (length_applyMove inp start d N hN hd') (fun i _ => by simp only [winIdx]; omega)
      (fun i => rel_applyMove inp start o d N hN ho hd' i)
  · exact Node.uniform_of_objs_eq (Node.move_objs inp start _)
      (fun d hd => length_applyMove inp start d N hN (hU d hd))

theorem absColl_rotate (o : Obj G V) (cs : List (Node G V)) (N : Nat) (hN : 1 ≤ N)
    (hU : (Node.mk o cs).UniformLen N) (rot : PathIn G) (anchor : Option (PathIn V)) (start : Option Int)
    (hr : rot.WF) (ha : ∀ a, anchor = some a → a.WF) :
    let w := rotWindow rot anchor N start
    absColl ((Node.mk o cs).rotate rot anchor start none) =
      ⟨applyRotation rot anchor start none o,
        (absColl (Node.mk o cs)).rels.map (List.map (reindex (winIdx w N) w.newLen))⟩ ∧
    ((Node.mk o cs).rotate rot anchor start none).UniformLen w.newLen := by
  intro w
  have ho := hU o (by simp [Node.objs])
  constructor
  · rw [Node.rotate.eq_def]
    simp only
    apply absColl_of_map o _ cs _ (applyRotation rot anchor start (some o.pos)) _ _
      (fun c _ => Node.rotate_objs_some rot anchor start o.pos c)
    intro c hc d hd
    have hd' := hU d (Node.mem_objs_of_child hc hd)
    exact relPath_eq_reindex o _ d _ N w.newLen _ ho hd' (length_applyRotation rot anchor start none o N hN ho hr ha)
      (length_applyRotation rot anchor start (some o.pos) d N hN hd' hr ha) (fun i _ => by simp only [winIdx]; omega)
      (fun i => rel_applyRotation rot anchor start o d N hN ho hd' hr ha i)
  · intro d' hd'
    rw [Node.rotate_objs_none] at hd'
    rcases List.mem_cons.mp hd' with rfl | hmem
    · exact length_applyRotation rot anchor start none o N hN ho hr ha
    · obtain ⟨d, hd, rfl⟩ := List.mem_map.mp hmem
      exact length_applyRotation rot anchor start (some o.pos) d N hN
        (hU d (by simp only [Node.objs, List.mem_cons]; exact Or.inr hd)) hr ha

theorem psIndex_lt (N M i : Nat) (hN : 1 ≤ N) (hi : i < M) : psIndex N M i < N := by
  unfold psIndex; split <;> omega

omit [Group G] [DistribMulAction G V] in
theorem uniform_singleton {o : Obj G V} {cs : List (Node G V)} {c : Node G V} {N : Nat}
    (hU : (Node.mk o cs).UniformLen N) (hc : c ∈ cs) : (Node.mk o [c]).UniformLen N := by
  intro d hd
  simp only [Node.objs, List.map_cons, List.map_nil, List.flatten_cons, List.flatten_nil, List.append_nil,
    List.mem_cons] at hd
  rcases hd with rfl | hd
  · exact hU _ (by simp [Node.objs])
  · exact hU d (Node.mem_objs_of_child hc hd)

theorem absColl_setPosition (o : Obj G V) (cs : List (Node G V)) (N : Nat) (hN : 1 ≤ N)
    (hU : (Node.mk o cs).UniformLen N) (Y : List V) (hY : Y ≠ []) :
    absColl ((Node.mk o cs).setPosition Y) =
      ⟨setPositionObj Y o, (absColl (Node.mk o cs)).rels.map (List.map (reindex (psIndex N Y.length) Y.length))⟩ ∧
    ((Node.mk o cs).setPosition Y).UniformLen Y.length := by
  have ho := hU o (by simp [Node.objs])
  have hM : 0 < Y.length := List.length_pos_iff.mpr hY
  have hall := Node.uniform_all_inv hN hU
  have hop : o.pos ≠ [] := ne_nil_of_one_le (by omega)
  have hoo : o.ori ≠ [] := ne_nil_of_one_le (by omega)
  let F : Obj G V → Obj G V := fun d =>
    { pos := vadd Y (vsub (padSlice Y.length d.pos) (padSlice Y.length o.pos)), ori := padSlice Y.length d.ori }
  have hFlen : ∀ d : Obj G V, d.pos.length = N ∧ d.ori.length = N →
      (F d).pos.length = Y.length ∧ (F d).ori.length = Y.length := by
    intro d hd
    have hdp : d.pos ≠ [] := ne_nil_of_one_le (by omega)
    have hdo : d.ori ≠ [] := ne_nil_of_one_le (by omega)
    refine ⟨?_, length_padSlice _ _ hdo⟩
    simp only [F, vadd, vsub, List.length_zipWith, length_padSlice _ _ hdp, length_padSlice _ _ hop]
    omega
  constructor
  · rw [Node.setPosition]
    apply absColl_of_map o _ cs _ F (psIndex N Y.length) Y.length
    · intro c hc
      have h1 := Node.setPosition_objs (Node.mk o [c]) Y hY (Node.uniform_all_inv hN (uniform_singleton hU hc))
      simp only [Node.setPosition, Node.objs, List.map_cons, List.map_nil, List.flatten_cons, List.flatten_nil,
        List.append_nil, List.cons.injEq, Node.obj] at h1
      exact h1.2
    · intro c hc d hd
      have hd' := hU d (Node.mem_objs_of_child hc hd)
      have hdinv : d.Inv := ⟨by rw [hd'.1, hd'.2], by omega⟩
      have hoinv : o.Inv := ⟨by rw [ho.1, ho.2], by omega⟩
      refine relPath_eq_reindex o _ d _ N Y.length _ ho hd' ?_ (hFlen d hd') (fun i hi => psIndex_lt N _ i hN hi) ?_
      · simp only [setPositionObj, length_padSlice _ _ hoo, and_self]
      · intro i
        have h1 := rel_setPosition Y o d hY hoinv hdinv i
        simp only [setPositionObj]
        rw [h1, rel_psObj o d N Y.length hN ho hd' i]
  · apply Node.uniform_of_objs_eq (Node.setPosition_objs _ Y hY hall)
    intro d hd
    exact hFlen d (hU d hd)

/-- length of a descendant after the child update of `orientation = Q` -/
theorem length_setOri_child (Q : List G) (hQ : Q ≠ []) (o d : Obj G V) (ho : o.Inv) (hd : d.Inv) :
    let M := Q.length
    let t := Node.squeezeRot (List.zipWith (fun a b => a * b⁻¹) Q (padSlice M o.ori))
    (applyRotation t (some (.vector (padSlice M o.pos))) (some 0) none (psObj M d)).pos.length = M ∧
    (applyRotation t (some (.vector (padSlice M o.pos))) (some 0) none (psObj M d)).ori.length = M := by
  intro M t
  have hM : 0 < Q.length := List.length_pos_iff.mpr hQ
  have hop : o.pos ≠ [] := ne_nil_of_one_le ho.2
  have hoo : o.ori ≠ [] := ne_nil_of_one_le (ho.1 ▸ ho.2)
  have hdp : d.pos ≠ [] := ne_nil_of_one_le hd.2
  have hdo : d.ori ≠ [] := ne_nil_of_one_le (hd.1 ▸ hd.2)
  have l1 : (padSlice M o.pos).length = M := length_padSlice M _ hop
  have l2 : (padSlice M o.ori).length = M := length_padSlice M _ hoo
  set T := List.zipWith (fun a b => a * b⁻¹) Q (padSlice M o.ori) with hT
  have lT : T.length = M := by simp [hT, l2, M]
  have hTne : T ≠ [] := by intro h; rw [h] at lT; simp at lT; omega
  obtain ⟨wf, hle, _⟩ := squeezeRot_facts T hTne
  have hPne : padSlice M o.pos ≠ [] := by intro h; rw [h] at l1; simp at l1; omega
  have h := length_applyRotation t (some (.vector (padSlice M o.pos))) (some 0) none (psObj M d) M (by omega)
    ⟨length_padSlice M _ hdp, length_padSlice M _ hdo⟩ wf
    (fun a ha => by cases ha; exact hPne)
  have hw : (rotWindow t (some (PathIn.vector (padSlice M o.pos))) M (some 0)).newLen = M := by
    have e1 : (PathIn.vector (padSlice M o.pos) : PathIn V).len0 = M := l1
    have hle' : t.len0 ≤ M := lT ▸ hle
    show (window (t.isScalar && false) M (max t.len0 (PathIn.vector (padSlice M o.pos) : PathIn V).len0) (some 0)).newLen = M
    rw [e1]
    generalize t.len0 = L at hle'
    simp [window, normStart]
    omega
  rw [hw] at h
  exact h

theorem absColl_setOrientation (o : Obj G V) (cs : List (Node G V)) (N : Nat) (hN : 1 ≤ N)
    (hU : (Node.mk o cs).UniformLen N) (Q : List G) (hQ : Q ≠ []) :
    absColl ((Node.mk o cs).setOrientation Q) =
      ⟨setOrientationObj Q o, (absColl (Node.mk o cs)).rels.map (List.map (reindex (psIndex N Q.length) Q.length))⟩ ∧
    ((Node.mk o cs).setOrientation Q).UniformLen Q.length := by
  have ho := hU o (by simp [Node.objs])
  have hM : 0 < Q.length := List.length_pos_iff.mpr hQ
  have hall := Node.uniform_all_inv hN hU
  have hop : o.pos ≠ [] := ne_nil_of_one_le (by omega)
  have hoinv : o.Inv := ⟨by rw [ho.1, ho.2], by omega⟩
  have hinv : ∀ d : Obj G V, d.pos.length = N ∧ d.ori.length = N → d.Inv := fun d hd => ⟨by rw [hd.1, hd.2], by omega⟩
  have hlo : (padSlice Q.length o.pos).length = Q.length := length_padSlice _ _ hop
  constructor
  · rw [Node.setOrientation.eq_def]
    simp only
    apply absColl_of_map o _ cs _
      (fun d => applyRotation (Node.squeezeRot (List.zipWith (fun a b => a * b⁻¹) Q (padSlice Q.length o.ori)))
        (some (.vector (padSlice Q.length o.pos))) (some 0) none (psObj Q.length d)) (psIndex N Q.length) Q.length
    · intro c hc
      have h1 := Node.setOrientation_objs o [c] Q hQ (Node.uniform_all_inv hN (uniform_singleton hU hc))
      rw [Node.setOrientation.eq_def] at h1
      simp only [Node.objs, List.map_cons, List.map_nil, List.flatten_cons, List.flatten_nil,
        List.append_nil, List.cons.injEq] at h1
      exact h1.2
    · intro c hc d hd
      have hd' := hU d (Node.mem_objs_of_child hc hd)
      refine relPath_eq_reindex o _ d _ N Q.length _ ho hd' ⟨hlo, rfl⟩
        (length_setOri_child Q hQ o d hoinv (hinv d hd')) (fun i hi => psIndex_lt N _ i hN hi) ?_
      intro i
      have h1 := rel_setOrientation Q hQ o d hoinv (hinv d hd') i
      simp only at h1
      rw [h1, rel_psObj o d N Q.length hN ho hd' i]
  · intro d' hd'
    rw [Node.setOrientation_objs o cs Q hQ hall] at hd'
    rcases List.mem_cons.mp hd' with rfl | hmem
    · exact ⟨hlo, rfl⟩
    · obtain ⟨d, hd, rfl⟩ := List.mem_map.mp hmem
      exact length_setOri_child Q hQ o d hoinv
        (hinv d (hU d (by simp only [Node.objs, List.mem_cons]; exact Or.inr hd)))

theorem reindex_congr (σ τ : Nat → Nat) (N' : Nat) (r : List (V × G)) (h : ∀ i, i < N' → σ i = τ i) :
    reindex σ N' r = reindex τ N' r := by
  unfold reindex
  apply List.map_congr_left
  intro i hi
  rw [h i (List.mem_range.mp hi)]

/-! ### operations addressed to the collection itself -/

omit [Group G] [AddCommGroup V] [DistribMulAction G V] in
/-- node an operation is addressed to -/
def Op.addr : Op G V → List Nat
  | .move a _ _ => a
  | .rotate a _ _ _ => a
  | .setPos a _ => a
  | .setOri a _ => a
  | .reset a => a
  | .rejected => []

omit [Group G] [AddCommGroup V] [DistribMulAction G V] in
/-- domain of `rotate`: non-empty rotation stack, non-empty anchor array -/
def Op.WF : Op G V → Prop
  | .rotate _ rot anchor _ => rot.WF ∧ ∀ a, anchor = some a → a.WF
  | _ => True

omit [Group G] [AddCommGroup V] [DistribMulAction G V] in
/-- what an operation on a collection of path length `N` does to path indices: `none` = nothing changes
(rejected call); `some (N', σ)` = new common length `N'`, new index `i` shows the old relative pose `σ i` -/
def Op.effect (N : Nat) : Op G V → Option (Nat × (Nat → Nat))
  | .move _ inp s => some ((window inp.isScalar N inp.lenip s).newLen, winIdx (window inp.isScalar N inp.lenip s) N)
  | .rotate _ rot an s => some ((rotWindow rot an N s).newLen, winIdx (rotWindow rot an N s) N)
  | .setPos _ Y => if Y.isEmpty then none else some (Y.length, psIndex N Y.length)
  | .setOri _ Q => if Q.isEmpty then none else some (Q.length, psIndex N Q.length)
  | .reset _ => some (1, fun _ => N - 1)
  | .rejected => none

/-- what the operation does to the collection's own object: the single-object semantics of C09
(`reset_path` = `position = (0,0,0)` then `orientation = None`: the one-entry path at the origin) -/
def objStep (o : Obj G V) : Op G V → Obj G V
  | .move _ inp s => applyMove inp s o
  | .rotate _ rot an s => applyRotation rot an s none o
  | .setPos _ Y => if Y.isEmpty then o else setPositionObj Y o
  | .setOri _ Q => if Q.isEmpty then o else setOrientationObj Q o
  | .reset _ => ⟨[0], [1]⟩
  | .rejected => o

/-- the abstract step: the frame follows the single-object semantics, every relative path is re-indexed by
the operation's index map — the same map for every descendant -/
def specStepOp (s : CollSpec G V) (op : Op G V) : CollSpec G V :=
  match op.effect s.frame.pos.length with
  | none => s
  | some (N', σ) => ⟨objStep s.frame op, s.rels.map (List.map (reindex σ N'))⟩

omit [Group G] [AddCommGroup V] [DistribMulAction G V] in
def Op.newLen (N : Nat) (op : Op G V) : Nat :=
  match op.effect N with
  | none => N
  | some (N', _) => N'

theorem absColl_step (o : Obj G V) (cs : List (Node G V)) (N : Nat) (hN : 1 ≤ N)
    (hU : (Node.mk o cs).UniformLen N) (op : Op G V) (hroot : op.addr = []) (hwf : op.WF) :
    absColl ((Node.mk o cs).step op) = specStepOp (absColl (Node.mk o cs)) op ∧
    ((Node.mk o cs).step op).UniformLen (op.newLen N) ∧ 1 ≤ op.newLen N := by
  have ho := hU o (by simp [Node.objs])
  have hfr : (absColl (Node.mk o cs)).frame.pos.length = N := ho.1
  cases op with
  | move a inp s =>
    simp only [Op.addr] at hroot; subst hroot
    obtain ⟨h1, h2⟩ := absColl_move o cs N hN hU inp s
    refine ⟨?_, h2, window_newLen_pos _ _ _ _ hN⟩
    simp only [Node.step, Node.modifyAt, specStepOp, hfr, Op.effect]
    exact h1
  | rotate a rot an s =>
    simp only [Op.addr] at hroot; subst hroot
    obtain ⟨h1, h2⟩ := absColl_rotate o cs N hN hU rot an s hwf.1 hwf.2
    refine ⟨?_, h2, window_newLen_pos _ _ _ _ hN⟩
    simp only [Node.step, Node.modifyAt, specStepOp, hfr, Op.effect]
    exact h1
  | setPos a Y =>
    simp only [Op.addr] at hroot; subst hroot
    by_cases hY : Y.isEmpty
    · simp only [Node.step, hY, if_true, specStepOp, Op.effect, Op.newLen]
      exact ⟨trivial, hU, hN⟩
    · have hY' : Y ≠ [] := by simpa using hY
      obtain ⟨h1, h2⟩ := absColl_setPosition o cs N hN hU Y hY'
      simp only [Node.step, hY, Node.modifyAt, specStepOp, hfr, Op.effect, Op.newLen, objStep]
      exact ⟨h1, h2, List.length_pos_iff.mpr hY'⟩
  | setOri a Q =>
    simp only [Op.addr] at hroot; subst hroot
    by_cases hQ : Q.isEmpty
    · simp only [Node.step, hQ, if_true, specStepOp, Op.effect, Op.newLen]
      exact ⟨trivial, hU, hN⟩
    · have hQ' : Q ≠ [] := by simpa using hQ
      obtain ⟨h1, h2⟩ := absColl_setOrientation o cs N hN hU Q hQ'
      simp only [Node.step, hQ, Node.modifyAt, specStepOp, hfr, Op.effect, Op.newLen, objStep]
      exact ⟨h1, h2, List.length_pos_iff.mpr hQ'⟩
  | reset a =>
    simp only [Op.addr] at hroot; subst hroot
    obtain ⟨h1, h2⟩ := absColl_setPosition o cs N hN hU [0] (by simp)
    cases hm : (Node.mk o cs).setPosition [0] with
    | mk o1 cs1 =>
      rw [hm] at h1 h2
      obtain ⟨h3, h4⟩ := absColl_setOrientation o1 cs1 1 (by omega) h2 [1] (by simp)
      simp only [Node.step, Node.modifyAt, Node.resetPath, hm, specStepOp, hfr, Op.effect, Op.newLen, objStep]
      refine ⟨?_, h4, by omega⟩
      rw [h3, h1]
      have ho1 : o1 = setPositionObj [0] o := by
        have := congrArg CollSpec.frame h1
        exact this
      congr 1
      · rw [ho1]
        simp [setOrientationObj, setPositionObj, padSlice]
      · simp only [List.length_cons, List.length_nil, List.map_map]
        apply List.map_congr_left
        intro blk _
        simp only [Function.comp_apply, List.map_map]
        apply List.map_congr_left
        intro r _
        simp only [Function.comp_apply]
        rw [reindex_reindex _ _ _ _ _ (fun i hi => by simp only [psIndex]; split <;> omega)]
        apply reindex_congr
        intro i hi
        simp only [Function.comp_apply, psIndex]
        have : i = 0 := by omega
        subst this
        simp
        omega
  | rejected =>
    simp only [Node.step, specStepOp, Op.effect, Op.newLen]
    exact ⟨trivial, hU, hN⟩

omit [Group G] [AddCommGroup V] [DistribMulAction G V] in
theorem map_eraseIdx' {β γ : Type} (f : β → γ) : ∀ (l : List β) (j : Nat), (l.eraseIdx j).map f = (l.map f).eraseIdx j
  | [], _ => rfl
  | _ :: _, 0 => rfl
  | a :: l, j + 1 => by simp [List.eraseIdx, map_eraseIdx' f l j]

/-! ### the full operation set: `rotate_from_*` entry points, `add`, `remove` -/
section hops
variable {α : Type} [Kern.Num α]

omit [AddCommGroup V] [DistribMulAction G V] in
/-- what may be applied to a collection of common path length `N`: addressed to the collection itself, inside the
domain of `rotate`; an added child (object or collection of any depth) shares the path length -/
def HOp.Adm (sc : Scipy α G) (N : Nat) : HOp α G V → Prop
  | .base o => o.addr = [] ∧ o.WF
  | .rotFrom a e an s => a = [] ∧ (rotFromOp sc a e an s).WF
  | .add a c => a = [] ∧ c.UniformLen N
  | .remove a _ => a = []

/-- the abstract step over the full operation set -/
def specStep (sc : Scipy α G) (s : CollSpec G V) : HOp α G V → CollSpec G V
  | .base o => specStepOp s o
  | .rotFrom a e an st => specStepOp s (rotFromOp sc a e an st)
  | .add _ c => ⟨s.frame, s.rels ++ [c.objs.map (relPath s.frame)]⟩
  | .remove _ j => ⟨s.frame, s.rels.eraseIdx j⟩

omit [AddCommGroup V] [DistribMulAction G V] in
def HOp.newLen (sc : Scipy α G) (N : Nat) : HOp α G V → Nat
  | .base o => o.newLen N
  | .rotFrom a e an s => (rotFromOp (V := V) sc a e an s).newLen N
  | .add _ _ => N
  | .remove _ _ => N

omit [AddCommGroup V] [DistribMulAction G V] in
/-- a history is admissible from length `N` if every operation is admissible at the length reached before it -/
def Admissible (sc : Scipy α G) : Nat → List (HOp α G V) → Prop
  | _, [] => True
  | N, op :: rest => op.Adm sc N ∧ Admissible sc (op.newLen sc N) rest

omit [AddCommGroup V] [DistribMulAction G V] in
/-- common path length after a history -/
def histLen (sc : Scipy α G) : Nat → List (HOp α G V) → Nat
  | N, [] => N
  | N, op :: rest => histLen sc (op.newLen sc N) rest

omit [Group G] [AddCommGroup V] [DistribMulAction G V] in
theorem rotFromOp_addr [Mul G] [One G] (sc : Scipy α G) (e : Entry α) (an : Option (PathIn V)) (s : Option Int) :
    (rotFromOp sc [] e an s).addr = [] := by
  unfold rotFromOp
  cases toRot sc e <;> rfl

theorem absColl_hstep (sc : Scipy α G) (o : Obj G V) (cs : List (Node G V)) (N : Nat) (hN : 1 ≤ N)
    (hU : (Node.mk o cs).UniformLen N) (op : HOp α G V) (hadm : op.Adm sc N) :
    absColl ((Node.mk o cs).hstep sc op) = specStep sc (absColl (Node.mk o cs)) op ∧
    ((Node.mk o cs).hstep sc op).UniformLen (op.newLen sc N) ∧ 1 ≤ op.newLen sc N := by
  cases op with
  | base b => exact absColl_step o cs N hN hU b hadm.1 hadm.2
  | rotFrom a e an s =>
    obtain ⟨ha, hwf⟩ := hadm
    subst ha
    exact absColl_step o cs N hN hU _ (rotFromOp_addr sc e an s) hwf
  | add a c =>
    obtain ⟨ha, hc⟩ := hadm
    subst ha
    refine ⟨?_, ?_, hN⟩
    · simp [Node.hstep, Node.modifyAt, Node.addChild, absColl, specStep, Node.obj, Node.children]
    · intro d hd
      simp only [Node.hstep, Node.modifyAt, Node.addChild, Node.objs, List.map_append, List.flatten_append,
        List.map_cons, List.map_nil, List.flatten_cons, List.flatten_nil, List.append_nil, List.mem_cons,
        List.mem_append] at hd
      rcases hd with rfl | hd | hd
      · exact hU _ (by simp [Node.objs])
      · exact hU d (by simp only [Node.objs, List.mem_cons]; exact Or.inr hd)
      · exact hc d hd
  | remove a j =>
    subst hadm
    refine ⟨?_, ?_, hN⟩
    · simp [Node.hstep, Node.modifyAt, Node.removeChild, absColl, specStep, Node.obj, Node.children,
        map_eraseIdx']
    · intro d hd
      simp only [Node.hstep, Node.modifyAt, Node.removeChild, Node.objs, List.mem_cons] at hd
      rcases hd with rfl | hd
      · exact hU _ (by simp [Node.objs])
      · obtain ⟨l, hl, hdl⟩ := List.mem_flatten.mp hd
        obtain ⟨c, hc, rfl⟩ := List.mem_map.mp hl
        exact hU d (Node.mem_objs_of_child (List.mem_of_mem_eraseIdx hc) hdl)

/-- **the abstraction commutes with every history**: induction over the operation list -/
theorem absColl_history (sc : Scipy α G) : ∀ (ops : List (HOp α G V)) (t : Node G V) (N : Nat), 1 ≤ N →
    t.UniformLen N → Admissible sc N ops →
    absColl (ops.foldl (Node.hstep sc) t) = ops.foldl (specStep sc) (absColl t) ∧
    (ops.foldl (Node.hstep sc) t).UniformLen (histLen sc N ops) ∧ 1 ≤ histLen sc N ops := by
  intro ops
  induction ops with
  | nil => intro t N hN hU _; exact ⟨rfl, hU, hN⟩
  | cons op rest ih =>
    intro t N hN hU hadm
    cases t with | mk o cs =>
    obtain ⟨h1, h2, h3⟩ := absColl_hstep sc o cs N hN hU op hadm.1
    obtain ⟨g1, g2, g3⟩ := ih _ _ h3 h2 hadm.2
    simp only [List.foldl_cons, histLen]
    exact ⟨by rw [g1, h1], g2, g3⟩
end hops

end relpath

/-! ### the `rotate_from_*` entry points: the input class decides scalar / vector semantics -/
section entries
variable {α : Type} [Kern.Num α]

theorem PathIn.map_isScalar {β γ : Type} (f : β → γ) (p : PathIn β) : (p.map f).isScalar = p.isScalar := by
  cases p <;> rfl
theorem PathIn.map_lenip {β γ : Type} (f : β → γ) (p : PathIn β) : (p.map f).lenip = p.lenip := by
  cases p <;> simp [PathIn.map, PathIn.lenip]

theorem allSome_length {β γ : Type} (f : β → Option γ) : ∀ (xs : List β) (ys : List γ),
    allSome f xs = some ys → ys.length = xs.length
  | [], ys, h => by simp [allSome] at h; subst h; rfl
  | x :: xs, ys, h => by
    simp only [allSome] at h
    split at h
    · rename_i y ys' _ h2
      cases h
      simp [allSome_length f xs ys' h2]
    · cases h

theorem mapOpt_shape {β γ : Type} (f : β → Option γ) (p : PathIn β) (r : PathIn γ) (h : mapOpt f p = some r) :
    r.isScalar = p.isScalar ∧ r.lenip = p.lenip := by
  cases p with
  | scalar x =>
    simp only [mapOpt, Option.map_eq_some_iff] at h
    obtain ⟨y, _, rfl⟩ := h
    exact ⟨rfl, rfl⟩
  | vector xs =>
    simp only [mapOpt, Option.map_eq_some_iff] at h
    obtain ⟨ys, hys, rfl⟩ := h
    exact ⟨rfl, allSome_length f xs ys hys⟩

/-- the rotation object an entry point builds is single / a stack of `n` exactly as its argument is one parameter set /
`n` parameter sets -/
theorem toRot_shape [Mul G] [One G] (sc : Scipy α G) (e : Entry α) (rot : PathIn G) (h : toRot sc e = .ok rot) :
    e.shape = some (rot.isScalar, rot.lenip) := by
  cases e with
  | angax angle axis degrees =>
    simp only [toRot] at h
    cases hv : Angax.angaxRotvecs angle axis degrees with
    | error e => rw [hv] at h; cases h
    | ok rv =>
      rw [hv] at h
      cases h
      simp only [Angax.angaxRotvecs] at hv
      cases ha : Angax.axisVec axis with
      | error e => rw [ha] at hv; cases hv
      | ok ax =>
        rw [ha] at hv
        cases hv
        simp [Entry.shape, PathIn.map_isScalar, PathIn.map_lenip]
  | rotvec rv degrees =>
    simp only [toRot] at h
    cases h
    simp [Entry.shape, PathIn.map_isScalar, PathIn.map_lenip]
  | euler angles seq degrees =>
    simp only [toRot] at h
    cases hp : parseSeq seq with
    | none => rw [hp] at h; cases h
    | some p =>
      obtain ⟨intr, axes⟩ := p
      rw [hp] at h
      simp only at h
      cases hr : eulerRows axes.length angles with
      | none => rw [hr] at h; cases h
      | some rows =>
        rw [hr] at h
        cases h
        simp [Entry.shape, hp, hr, PathIn.map_isScalar, PathIn.map_lenip]
  | matrix m =>
    simp only [toRot] at h
    cases hm : mapOpt sc.fromMatrix m with
    | none => rw [hm] at h; cases h
    | some r =>
      rw [hm] at h
      cases h
      obtain ⟨h1, h2⟩ := mapOpt_shape _ _ _ hm
      simp [Entry.shape, h1, h2]
  | mrp m =>
    simp only [toRot] at h
    cases h
    simp [Entry.shape, PathIn.map_isScalar, PathIn.map_lenip]
  | quat q =>
    simp only [toRot] at h
    cases hm : mapOpt sc.fromQuat q with
    | none => rw [hm] at h; cases h
    | some r =>
      rw [hm] at h
      cases h
      obtain ⟨h1, h2⟩ := mapOpt_shape _ _ _ hm
      simp [Entry.shape, h1, h2]

/-- a rotation input is in the domain of `rotate` iff it is a single rotation or a non-empty stack -/
theorem PathIn.WF_of_shape {β : Type} (p : PathIn β) (h : p.isScalar = false → 1 ≤ p.lenip) : p.WF := by
  cases p with
  | scalar x => trivial
  | vector xs =>
    have := h rfl
    simp only [PathIn.lenip] at this
    show xs ≠ []
    intro e; rw [e] at this; simp at this
end entries

/-! ### lengths: the path invariant over the full operation set, any addresses -/
section inv
variable {α : Type} [Kern.Num α]

theorem Node.hstep_inv [Mul G] [Inv G] [One G] [SMul G V] [Add V] [Sub V] [Zero V] (sc : Scipy α G)
    (t : Node G V) (op : HOp α G V) (h : t.All Obj.Inv)
    (hadd : ∀ a c, op = .add a c → c.All Obj.Inv) : (t.hstep sc op).All Obj.Inv := by
  cases op with
  | base b => exact Node.step_inv t b h
  | rotFrom a e an s => exact Node.step_inv t _ h
  | add a c =>
    apply Node.modifyAt_all _ _ a t h
    intro m hm
    cases m with | mk o cs =>
    rw [Node.all_mk] at hm
    rw [Node.addChild, Node.all_mk]
    refine ⟨hm.1, ?_⟩
    intro c' hc'
    rcases List.mem_append.mp hc' with h1 | h1
    · exact hm.2 c' h1
    · rw [List.mem_singleton.mp h1]; exact hadd a c rfl
  | remove a j =>
    apply Node.modifyAt_all _ _ a t h
    intro m hm
    cases m with | mk o cs =>
    rw [Node.all_mk] at hm
    rw [Node.removeChild, Node.all_mk]
    exact ⟨hm.1, fun c' hc' => hm.2 c' (List.mem_of_mem_eraseIdx hc')⟩
end inv
end MagpyVerif
