/-
Lemmas/KernAlgebra.lean — algebra of the Triangle / Tetrahedron / Circle kernels over the real
carrier `realNum μ` (any value `μ` of mu_0): how every intermediate quantity of the ports in
Model/Kernels.lean behaves under a common positive length factor `l` (C12), under linear
combinations of the excitation (C05), and under the chirality swap of a tetrahedron (C13, C02).
The property-level statements are in Props/C02, C05, C12, C13.
-/
import MagpyVerif.Lemmas.KernReal
namespace MagpyVerif.Kern
open MagpyVerif

/-! ### vectors -/

section vec
variable (μ : ℝ)

theorem vs_sub_vs (l : ℝ) (a b : V3 ℝ) : letI := realNum μ
    vs l a - vs l b = vs l (a - b) := by
  apply V3.ext' <;> simp [vs] <;> ring

theorem vs_add_vs (l : ℝ) (a b : V3 ℝ) : letI := realNum μ
    vs l a + vs l b = vs l (a + b) := by
  apply V3.ext' <;> simp [vs] <;> ring

theorem vs_vs (a b : ℝ) (v : V3 ℝ) : letI := realNum μ
    vs a (vs b v) = vs (a * b) v := by
  apply V3.ext' <;> simp [vs] <;> ring

theorem cross_vs_vs (l : ℝ) (a b : V3 ℝ) : letI := realNum μ
    V3.cross (vs l a) (vs l b) = vs (l * l) (V3.cross a b) := by
  apply V3.ext' <;> simp [vs, V3.cross] <;> ring

theorem dot_vs_vs (l : ℝ) (a b : V3 ℝ) : letI := realNum μ
    V3.dot (vs l a) (vs l b) = l ^ 2 * V3.dot a b := by
  simp [vs, V3.dot]; ring

theorem norm_vs (l : ℝ) (hl : 0 < l) (x : V3 ℝ) : letI := realNum μ
    Kern.norm (vs l x) = l * Kern.norm x := by
  simp only [Kern.norm, vs, sqrt_real]
  have : l * x.x * (l * x.x) + l * x.y * (l * x.y) + l * x.z * (l * x.z) =
      l ^ 2 * (x.x * x.x + x.y * x.y + x.z * x.z) := by ring
  rw [this, Real.sqrt_mul (by positivity), Real.sqrt_sq hl.le]

theorem vd_vs_vs (l : ℝ) (hl : l ≠ 0) (p : V3 ℝ) (c : ℝ) : letI := realNum μ
    vd (vs l p) (l * c) = vd p c := by
  apply V3.ext' <;> simp only [vd, vs] <;> exact mul_div_mul_left _ _ hl

theorem vs_inv_vs (l : ℝ) (hl : l ≠ 0) (c : ℝ) (p : V3 ℝ) : letI := realNum μ
    vs (1 / l * c) (vs l p) = vs c p := by
  apply V3.ext' <;> simp only [vs] <;> field_simp

end vec

/-! ### the edge integral of `triangle_Bfield` -/

/-- `triEdgeI` as a function of the scalar products `rr = R·R`, `nn = Rn·Rn`, `ll = L·L`,
`rl = R·L`, `nl = Rn·L`, `xr = |R×L|²`, `xn = |Rn×L|²` -/
noncomputable def triEdgeS (rr nn ll rl nl xr xn : ℝ) : ℝ :=
  Real.log (if ((if √nn < √rr then xn else xr) / ll ≤ 1 / 1000000000000000000000000000000 * ll ∧ rl / √ll < 0) ∧
      0 < nl / √ll then -(rl / √ll) / (nl / √ll)
    else if 0 ≤ rl / √ll then (√nn + nl / √ll) / (√rr + rl / √ll)
    else if nl / √ll < 0 then (√rr - rl / √ll) / (√nn - nl / √ll)
    else (√nn + nl / √ll) * (√rr - rl / √ll) / ((if √nn < √rr then xn else xr) / ll)) / √ll

theorem triEdgeI_eq (μ : ℝ) (R Rn L : V3 ℝ) : letI := realNum μ
    triEdgeI R Rn L = triEdgeS (V3.dot R R) (V3.dot Rn Rn) (V3.dot L L) (V3.dot R L) (V3.dot Rn L)
      (V3.dot (V3.cross R L) (V3.cross R L)) (V3.dot (V3.cross Rn L) (V3.cross Rn L)) := by
  have hx : letI := realNum μ
      V3.dot (V3.cross (if √(V3.dot Rn Rn) < √(V3.dot R R) then Rn else R) L)
        (V3.cross (if √(V3.dot Rn Rn) < √(V3.dot R R) then Rn else R) L) =
      if √(V3.dot Rn Rn) < √(V3.dot R R) then V3.dot (V3.cross Rn L) (V3.cross Rn L)
      else V3.dot (V3.cross R L) (V3.cross R L) := by
    split_ifs <;> rfl
  simp only [triEdgeI, triEdgeS, sqrt_real, log_real, lt_real, le_real, n, ofNat_real,
    Nat.cast_ofNat, Nat.cast_one, Nat.cast_zero, decide_eq_true_eq, Bool.and_eq_true, hx]

/-- the branch test of `triEdgeI`: the observer cannot be told from the edge in double precision
(`rho2 ≤ 1e-30·l2`, i.e. closer than `1e-15` edge lengths to the edge line, alongside the edge
`a < 0 < c`); there the edge integral is replaced by the finite on-edge value -/
def triEdgeOn (rr nn ll rl nl xr xn : ℝ) : Prop :=
  ((if √nn < √rr then xn else xr) / ll ≤ 1 / 1000000000000000000000000000000 * ll ∧ rl / √ll < 0) ∧ 0 < nl / √ll

theorem triEdgeS_on (rr nn ll rl nl xr xn : ℝ) (h : triEdgeOn rr nn ll rl nl xr xn) :
    triEdgeS rr nn ll rl nl xr xn = Real.log (-(rl / √ll) / (nl / √ll)) / √ll := by
  unfold triEdgeOn at h
  simp only [triEdgeS, h, and_self, if_true]

theorem triEdgeS_off (rr nn ll rl nl xr xn : ℝ) (h : ¬ triEdgeOn rr nn ll rl nl xr xn) :
    triEdgeS rr nn ll rl nl xr xn =
      Real.log (if 0 ≤ rl / √ll then (√nn + nl / √ll) / (√rr + rl / √ll)
        else if nl / √ll < 0 then (√rr - rl / √ll) / (√nn - nl / √ll)
        else (√nn + nl / √ll) * (√rr - rl / √ll) / ((if √nn < √rr then xn else xr) / ll)) / √ll := by
  unfold triEdgeOn at h
  simp only [triEdgeS, h, if_false]

section scale
variable (c : ℝ) (hc : 0 < c)
include hc

private theorem sqrt_sq_mul (x : ℝ) : √(c ^ 2 * x) = c * √x := by
  rw [Real.sqrt_mul (sq_nonneg c), Real.sqrt_sq hc.le]

private theorem proj_scale (b l2 : ℝ) : c ^ 2 * b / (c * √l2) = c * (b / √l2) := by
  rw [sq, mul_assoc, mul_div_mul_left _ _ hc.ne', mul_div_assoc]

private theorem rho_scale (x l2 : ℝ) : c ^ 4 * x / (c ^ 2 * l2) = c ^ 2 * (x / l2) := by
  have : c ^ 4 * x = c ^ 2 * (c ^ 2 * x) := by ring
  rw [this, mul_div_mul_left _ _ (pow_ne_zero 2 hc.ne'), mul_div_assoc]

private theorem lt_scale (x y : ℝ) : c * x < c * y ↔ x < y := mul_lt_mul_iff_right₀ hc
private theorem neg_scale (x : ℝ) : c * x < 0 ↔ x < 0 := by
  constructor <;> intro h <;> nlinarith
private theorem nonneg_scale (x : ℝ) : 0 ≤ c * x ↔ 0 ≤ x := by
  constructor <;> intro h <;> nlinarith
private theorem pos_scale (x : ℝ) : 0 < c * x ↔ 0 < x := by
  constructor <;> intro h <;> nlinarith
private theorem tol_scale (x y : ℝ) :
    c ^ 2 * x ≤ 1 / 1000000000000000000000000000000 * (c ^ 2 * y) ↔ x ≤ 1 / 1000000000000000000000000000000 * y := by
  have h2 : 0 < c ^ 2 := by positivity
  constructor <;> intro h <;> nlinarith

theorem triEdgeOn_scale (rr nn ll rl nl xr xn : ℝ) :
    triEdgeOn (c ^ 2 * rr) (c ^ 2 * nn) (c ^ 2 * ll) (c ^ 2 * rl) (c ^ 2 * nl) (c ^ 4 * xr) (c ^ 4 * xn) ↔
      triEdgeOn rr nn ll rl nl xr xn := by
  simp only [triEdgeOn, sqrt_sq_mul c hc, proj_scale c hc, lt_scale c hc, neg_scale c hc, pos_scale c hc]
  split_ifs <;> simp only [rho_scale c hc, tol_scale c hc]

theorem triEdgeS_scale (rr nn ll rl nl xr xn : ℝ) :
    triEdgeS (c ^ 2 * rr) (c ^ 2 * nn) (c ^ 2 * ll) (c ^ 2 * rl) (c ^ 2 * nl) (c ^ 4 * xr) (c ^ 4 * xn) =
      1 / c * triEdgeS rr nn ll rl nl xr xn := by
  have hc' : c ≠ 0 := hc.ne'
  have e5 : ∀ p q : ℝ, c * p + c * q = c * (p + q) := fun p q => by ring
  have e6 : ∀ p q : ℝ, c * p - c * q = c * (p - q) := fun p q => by ring
  have e7 : ∀ p : ℝ, -(c * p) = c * -p := fun p => by ring
  have e8 : ∀ p q y : ℝ, c * p * (c * q) / (c ^ 2 * y) = p * q / y := fun p q y => by
    have : c * p * (c * q) = c ^ 2 * (p * q) := by ring
    rw [this, mul_div_mul_left _ _ (pow_ne_zero 2 hc')]
  have e9 : ∀ P : Prop, [Decidable P] → (if P then c ^ 4 * xn else c ^ 4 * xr) = c ^ 4 * (if P then xn else xr) :=
    fun P _ => by split_ifs <;> rfl
  have e10 : ∀ x s : ℝ, x / (c * s) = 1 / c * (x / s) := fun x s => by
    rw [one_div, ← div_eq_inv_mul, div_div, mul_comm s c]
  by_cases h : triEdgeOn rr nn ll rl nl xr xn
  · rw [triEdgeS_on _ _ _ _ _ _ _ h, triEdgeS_on _ _ _ _ _ _ _ ((triEdgeOn_scale c hc _ _ _ _ _ _ _).mpr h)]
    simp only [sqrt_sq_mul c hc, proj_scale c hc, e7, mul_div_mul_left _ _ hc', e10]
  · rw [triEdgeS_off _ _ _ _ _ _ _ h,
      triEdgeS_off _ _ _ _ _ _ _ (fun h' => h ((triEdgeOn_scale c hc _ _ _ _ _ _ _).mp h'))]
    simp only [sqrt_sq_mul c hc, proj_scale c hc, lt_scale c hc, neg_scale c hc, nonneg_scale c hc, e9,
      rho_scale c hc, e5, e6, e8, mul_div_mul_left _ _ hc', e10]

end scale

theorem cross_dot_scale (μ l : ℝ) (R L : V3 ℝ) : letI := realNum μ
    V3.dot (V3.cross (vs l R) (vs l L)) (V3.cross (vs l R) (vs l L)) =
      l ^ 4 * V3.dot (V3.cross R L) (V3.cross R L) := by
  simp [vs, V3.dot, V3.cross]; ring

theorem triEdgeI_scale' (μ l : ℝ) (hl : 0 < l) (R Rn L : V3 ℝ) : letI := realNum μ
    triEdgeI (vs l R) (vs l Rn) (vs l L) = 1 / l * triEdgeI R Rn L := by
  simp only [triEdgeI_eq, dot_vs_vs, cross_dot_scale, triEdgeS_scale l hl]

/-! ### solid angle -/

/-- `solidAngle` as a function of the numerator `N` and denominator `D` of the arctan2 -/
noncomputable def solidAngleS (N D : ℝ) : ℝ :=
  if (62831853 : ℝ) / 10000000 < |2 * Complex.arg ⟨D, N⟩| then 0 else 2 * Complex.arg ⟨D, N⟩

theorem solidAngle_eq (μ : ℝ) (R0 R1 R2 : V3 ℝ) (r0 r1 r2 : ℝ) : letI := realNum μ
    solidAngle R0 R1 R2 r0 r1 r2 = solidAngleS (V3.dot R2 (V3.cross R1 R0))
      (r0 * r1 * r2 + V3.dot R2 R1 * r0 + V3.dot R2 R0 * r1 + V3.dot R1 R0 * r2) := by
  simp only [solidAngle, solidAngleS, atan2_real, abs_real, lt_real, n, ofNat_real, Nat.cast_ofNat,
    Nat.cast_zero, decide_eq_true_eq]

theorem arg_pos_smul (c : ℝ) (hc : 0 < c) (x y : ℝ) :
    Complex.arg ⟨c * x, c * y⟩ = Complex.arg ⟨x, y⟩ := by
  have : (⟨c * x, c * y⟩ : ℂ) = ((c : ℝ) : ℂ) * ⟨x, y⟩ := by
    apply Complex.ext
    · simp only [Complex.mul_re, Complex.ofReal_re, Complex.ofReal_im]; ring
    · simp only [Complex.mul_im, Complex.ofReal_re, Complex.ofReal_im]; ring
  rw [this, Complex.arg_real_mul _ hc]

theorem solidAngleS_scale (c : ℝ) (hc : 0 < c) (N D : ℝ) :
    solidAngleS (c * N) (c * D) = solidAngleS N D := by
  simp only [solidAngleS, arg_pos_smul c hc]

theorem solidAngle_scale' (μ l : ℝ) (hl : 0 < l) (R0 R1 R2 : V3 ℝ) (r0 r1 r2 : ℝ) : letI := realNum μ
    solidAngle (vs l R0) (vs l R1) (vs l R2) (l * r0) (l * r1) (l * r2) = solidAngle R0 R1 R2 r0 r1 r2 := by
  simp only [solidAngle_eq]
  have hN : letI := realNum μ
      V3.dot (vs l R2) (V3.cross (vs l R1) (vs l R0)) = l ^ 3 * V3.dot R2 (V3.cross R1 R0) := by
    simp [vs, V3.dot, V3.cross]; ring
  have hD : letI := realNum μ
      l * r0 * (l * r1) * (l * r2) + V3.dot (vs l R2) (vs l R1) * (l * r0) +
      V3.dot (vs l R2) (vs l R0) * (l * r1) + V3.dot (vs l R1) (vs l R0) * (l * r2) =
      l ^ 3 * (r0 * r1 * r2 + V3.dot R2 R1 * r0 + V3.dot R2 R0 * r1 + V3.dot R1 R0 * r2) := by
    simp [vs, V3.dot]; ring
  rw [hN, hD, solidAngleS_scale _ (by positivity)]

/-! ### `triangle_Bfield`, `BHJM_triangle` -/

theorem triangleB_scale' (μ l : ℝ) (hl : 0 < l) (v0 v1 v2 pol x : V3 ℝ) : letI := realNum μ
    triangleB (vs l v0) (vs l v1) (vs l v2) pol (vs l x) = triangleB v0 v1 v2 pol x := by
  have hl' : l ≠ 0 := hl.ne'
  have hll : 0 < l * l := by positivity
  have h0 : ∀ d : ℝ, (l * l * d = 0) ↔ (d = 0) := fun d => by simp [hl']
  simp only [triangleB, vs_sub_vs, cross_vs_vs, norm_vs μ (l * l) hll, norm_vs μ l hl,
    vd_vs_vs μ (l * l) hll.ne', triEdgeI_scale' μ l hl, solidAngle_scale' μ l hl, vs_inv_vs μ l hl',
    eq0_real, h0]

theorem bhjmTriangle_scale' (μ l : ℝ) (hl : 0 < l) (f : Field) (v0 v1 v2 pol x : V3 ℝ) : letI := realNum μ
    bhjmTriangle f (vs l v0) (vs l v1) (vs l v2) pol (vs l x) = bhjmTriangle f v0 v1 v2 pol x := by
  cases f <;> simp only [bhjmTriangle, triangleB_scale' μ l hl]

/-! ### Tetrahedron -/

theorem det3_vs (μ l : ℝ) (a b c : V3 ℝ) : letI := realNum μ
    det3 (vs l a) (vs l b) (vs l c) = l ^ 3 * det3 a b c := by
  simp [det3, vs]; ring

theorem tetraChirality_scale' (μ l : ℝ) (hl : 0 < l) (v0 v1 v2 v3 : V3 ℝ) : letI := realNum μ
    tetraChirality (vs l v0) (vs l v1) (vs l v2) (vs l v3) =
      ((vs l (tetraChirality v0 v1 v2 v3).1, vs l (tetraChirality v0 v1 v2 v3).2.1,
        vs l (tetraChirality v0 v1 v2 v3).2.2.1, vs l (tetraChirality v0 v1 v2 v3).2.2.2)) := by
  have hl3 : 0 < l ^ 3 := by positivity
  have hiff : ∀ d : ℝ, (l ^ 3 * d < 0) ↔ (d < 0) := fun d => by
    constructor <;> intro h <;> nlinarith
  simp only [tetraChirality, vs_sub_vs, det3_vs, lt_real, n, ofNat_real, Nat.cast_zero, hiff]
  split_ifs <;> rfl

theorem tetraInside_scale' (μ l : ℝ) (hl : 0 < l) (v0 v1 v2 v3 x : V3 ℝ) : letI := realNum μ
    tetraInside (vs l v0) (vs l v1) (vs l v2) (vs l v3) (vs l x) = tetraInside v0 v1 v2 v3 x := by
  have hl3 : l ^ 3 ≠ 0 := by positivity
  have h0 : ∀ d : ℝ, (l ^ 3 * d = 0) ↔ (d = 0) := fun d => by simp [hl3]
  simp only [tetraInside, vs_sub_vs, det3_vs, mul_div_mul_left _ _ hl3, eq0_real, h0]

/-- `tetraInside` does not see the chirality swap of the last two vertices: the barycentric
coordinates `(l1, l2, l3)` become `(l1, l3, l2)` -/
theorem tetraInside_swap (μ : ℝ) (v0 v1 v2 v3 x : V3 ℝ) : letI := realNum μ
    tetraInside v0 v1 v3 v2 x = tetraInside v0 v1 v2 v3 x := by
  let _ := realNum μ
  have hdt : ∀ a b c : V3 ℝ, det3 a c b = -det3 a b c := fun a b c => by
    simp [det3]; ring
  have h1 : ∀ a b c d : V3 ℝ, det3 d c b / det3 a c b = det3 d b c / det3 a b c := fun a b c d => by
    rw [hdt a b c, hdt d b c, neg_div_neg_eq]
  have h2 : ∀ a b c d : V3 ℝ, det3 a d b / det3 a c b = det3 a b d / det3 a b c := fun a b c d => by
    rw [hdt a b c, hdt a b d, neg_div_neg_eq]
  have h3 : ∀ a b c d : V3 ℝ, det3 a c d / det3 a c b = det3 a d c / det3 a b c := fun a b c d => by
    rw [hdt a b c, hdt a d c, neg_div_neg_eq]
  have h4 : ∀ a b c : V3 ℝ, (det3 a c b = 0) ↔ (det3 a b c = 0) := fun a b c => by
    rw [hdt a b c, neg_eq_zero]
  simp only [tetraInside]
  rw [h1 (v1 - v0) (v2 - v0) (v3 - v0) (x - v0), h2 (v1 - v0) (v2 - v0) (v3 - v0) (x - v0),
    h3 (v1 - v0) (v2 - v0) (v3 - v0) (x - v0), Bool.eq_iff_iff]
  simp only [Bool.and_eq_true, le_real, decide_eq_true_eq, eq0_real, Bool.not_eq_true', decide_eq_false_iff_not,
    h4 (v1 - v0) (v2 - v0) (v3 - v0)]
  constructor <;> rintro ⟨⟨⟨⟨⟨⟨⟨a0, a1⟩, a2⟩, a3⟩, a4⟩, a5⟩, a6⟩, a7⟩ <;>
    refine ⟨⟨⟨⟨⟨⟨⟨a0, a1⟩, a3⟩, a2⟩, a4⟩, a6⟩, a5⟩, ?_⟩ <;> linarith

theorem tetraChirality_cases (μ : ℝ) (v0 v1 v2 v3 : V3 ℝ) : letI := realNum μ
    tetraChirality v0 v1 v2 v3 = (v0, v1, v2, v3) ∨ tetraChirality v0 v1 v2 v3 = (v0, v1, v3, v2) := by
  simp only [tetraChirality]
  split_ifs
  · exact Or.inr rfl
  · exact Or.inl rfl

/-- the inside test on the chirality-fixed vertices (B branch) equals the inside test on the
vertices as given (J / M branch) -/
theorem tetraInside_chirality (μ : ℝ) (v0 v1 v2 v3 x : V3 ℝ) : letI := realNum μ
    tetraInside (tetraChirality v0 v1 v2 v3).1 (tetraChirality v0 v1 v2 v3).2.1
      (tetraChirality v0 v1 v2 v3).2.2.1 (tetraChirality v0 v1 v2 v3).2.2.2 x = tetraInside v0 v1 v2 v3 x := by
  rcases tetraChirality_cases μ v0 v1 v2 v3 with h | h
  · simp only [h]
  · simp only [h, tetraInside_swap]

theorem bhjmTetra_scale' (μ l : ℝ) (hl : 0 < l) (f : Field) (v0 v1 v2 v3 pol x : V3 ℝ) : letI := realNum μ
    bhjmTetra f (vs l v0) (vs l v1) (vs l v2) (vs l v3) pol (vs l x) = bhjmTetra f v0 v1 v2 v3 pol x := by
  cases f <;>
    simp only [bhjmTetra, tetraChirality_scale' μ l hl, tetraInside_scale' μ l hl, bhjmTriangle_scale' μ l hl]

/-! ### Circle -/

theorem circleHcyl_scale' (μ l : ℝ) (hl : l ≠ 0) (fuel : Nat) (r0 r z i0 : ℝ) : letI := realNum μ
    circleHcyl fuel (l * r0) (l * r) (l * z) i0 =
      (circleHcyl fuel r0 r z i0).map (fun h => (h.1 / l, h.2 / l)) := by
  simp only [circleHcyl, mul_div_mul_left _ _ hl]
  rcases @celIter ℝ (realNum μ) fuel _ _ _ _ _ _ _ with _ | c1
  · rfl
  · simp only []
    rcases @celIter ℝ (realNum μ) fuel _ _ _ _ _ _ _ with _ | c2
    · rfl
    · simp only [Option.map_some, Option.some.injEq, Prod.mk.injEq]
      have key : ∀ A : ℝ, A / (l * r0) = A / r0 / l := fun A => by rw [mul_comm, div_div]
      constructor <;> (simp only [key]; ring)

theorem vs_zero3 (μ c : ℝ) : letI := realNum μ
    vs c (zero3 : V3 ℝ) = zero3 := by
  apply V3.ext' <;> simp [vs, zero3, n]

theorem bhjmCircle_B_eq (μ : ℝ) (fuel : Nat) (d cur : ℝ) (x : V3 ℝ) : letI := realNum μ
    bhjmCircle fuel .B d cur x = (bhjmCircle fuel .H d cur x).map (vs μ) := rfl

theorem bhjmCircle_scale_H (μ l : ℝ) (hl : 0 < l) (fuel : Nat) (d cur : ℝ) (x : V3 ℝ) : letI := realNum μ
    bhjmCircle fuel .H (l * d) cur (vs l x) = (bhjmCircle fuel .H d cur x).map (vs (1 / l)) := by
  have hl' : l ≠ 0 := hl.ne'
  have hr : ∀ a b : ℝ, Real.sqrt (l * a * (l * a) + l * b * (l * b)) = l * Real.sqrt (a * a + b * b) := fun a b => by
    have : l * a * (l * a) + l * b * (l * b) = l ^ 2 * (a * a + b * b) := by ring
    rw [this, Real.sqrt_mul (by positivity), Real.sqrt_sq hl.le]
  have hr0 : |l * d / 2| = l * |d / 2| := by rw [mul_div_assoc, abs_mul, abs_of_pos hl]
  have hm1 : ∀ a : ℝ, (l * a = 0) ↔ (a = 0) := fun a => by simp [hl']
  have hsub : ∀ a b : ℝ, |l * a - l * b| = l * |a - b| := fun a b => by
    rw [← mul_sub, abs_mul, abs_of_pos hl]
  have habs : ∀ a : ℝ, |l * a| = l * |a| := fun a => by rw [abs_mul, abs_of_pos hl]
  have hlt : ∀ t a b : ℝ, (l * a < t * (l * b)) ↔ (a < t * b) := fun t a b => by
    constructor <;> intro h <;> nlinarith
  simp only [bhjmCircle, vs, sqrt_real, atan2_real, abs_real, eq0_real, lt_real, n, ofNat_real,
    Nat.cast_ofNat, Nat.cast_one, Nat.cast_zero, hr, hr0, arg_pos_smul l hl, hm1, hsub, habs, hlt]
  by_cases h3 : Real.sqrt (x.x * x.x + x.y * x.y) = 0
  · by_cases h1 : |d / 2| = 0
    · simp only [h3, h1, decide_true, if_true, Option.map_some, vs_zero3 μ]
    · simp only [h3, h1, decide_true, decide_false, if_true, if_false, Bool.false_eq_true, Option.map_some,
        vs, Option.some.injEq, V3.mk.injEq, mul_zero, true_and]
      generalize Real.sqrt (x.z * x.z + |d / 2| * |d / 2|) = s
      have e1 : l * |d / 2| * (l * |d / 2|) / ((l * x.z * (l * x.z) + l * |d / 2| * (l * |d / 2|)) * (l * s)) =
          l ^ 2 * (|d / 2| * |d / 2|) / (l ^ 2 * (l * ((x.z * x.z + |d / 2| * |d / 2|) * s))) := by
        congr 1 <;> ring
      rw [e1, mul_div_mul_left _ _ (by positivity : l ^ 2 ≠ 0)]
      generalize (x.z * x.z + |d / 2| * |d / 2|) * s = W
      ring
  · simp only [h3, decide_false, if_false, Bool.false_eq_true]
    split_ifs
    · simp only [Option.map_some, vs_zero3 μ]
    · rw [circleHcyl_scale' μ l hl']
      rcases @circleHcyl ℝ (realNum μ) fuel _ _ _ _ with _ | ⟨hr, hz⟩
      · rfl
      · simp only [Option.map_some, vs, Option.some.injEq, V3.mk.injEq]
        refine ⟨by ring, by ring, by ring⟩

theorem bhjmCircle_scale' (μ l : ℝ) (hl : 0 < l) (fuel : Nat) (f : Field) (d cur : ℝ) (x : V3 ℝ) : letI := realNum μ
    bhjmCircle fuel f (l * d) cur (vs l x) = (bhjmCircle fuel f d cur x).map (vs (1 / l)) := by
  cases f
  case M => simp only [bhjmCircle, Option.map_some, vs_zero3]
  case J => simp only [bhjmCircle, Option.map_some, vs_zero3]
  case H => exact bhjmCircle_scale_H μ l hl fuel d cur x
  case B =>
    rw [bhjmCircle_B_eq, bhjmCircle_B_eq, bhjmCircle_scale_H μ l hl, Option.map_map, Option.map_map]
    congr 1
    funext v
    simp only [Function.comp, vs_vs, mul_comm]

/-! ### linearity in the excitation (C05) -/

theorem triangleB_linear' (μ a b : ℝ) (v0 v1 v2 p1 p2 x : V3 ℝ) : letI := realNum μ
    triangleB v0 v1 v2 (vs a p1 + vs b p2) x =
      vs a (triangleB v0 v1 v2 p1 x) + vs b (triangleB v0 v1 v2 p2 x) := by
  simp only [triangleB]
  split_ifs
  · apply V3.ext' <;> simp [vs, zero3, n]
  · generalize @vd ℝ (realNum μ) (V3.cross (v1 - v0) (v2 - v0)) _ = nv
    generalize @HSub.hSub (V3 ℝ) (V3 ℝ) (V3 ℝ) _ (@vs ℝ (realNum μ) _ nv) _ = W
    apply V3.ext' <;> simp [vs, vd, V3.dot] <;> ring

theorem bhjmTriangle_linear' (μ a b : ℝ) (f : Field) (v0 v1 v2 p1 p2 x : V3 ℝ) : letI := realNum μ
    bhjmTriangle f v0 v1 v2 (vs a p1 + vs b p2) x =
      vs a (bhjmTriangle f v0 v1 v2 p1 x) + vs b (bhjmTriangle f v0 v1 v2 p2 x) := by
  cases f <;> simp only [bhjmTriangle, triangleB_linear'] <;>
    (apply V3.ext' <;> simp [vs, vd, zero3, n] <;> ring)

theorem bhjmTetra_linear' (μ a b : ℝ) (f : Field) (v0 v1 v2 v3 p1 p2 x : V3 ℝ) : letI := realNum μ
    bhjmTetra f v0 v1 v2 v3 (vs a p1 + vs b p2) x =
      vs a (bhjmTetra f v0 v1 v2 v3 p1 x) + vs b (bhjmTetra f v0 v1 v2 v3 p2 x) := by
  cases f <;> simp only [bhjmTetra, bhjmTriangle_linear' μ a b] <;> (try split_ifs) <;>
    (apply V3.ext' <;> simp [vs, vd, zero3, n] <;> ring)

/-- the current enters `current_circle_Hfield` as one factor of `pf` only -/
theorem circleHcyl_current_factor (μ : ℝ) (fuel : Nat) (r0 r z i0 : ℝ) : letI := realNum μ
    circleHcyl fuel r0 r z i0 = (circleHcyl fuel r0 r z 1).map (fun h => (i0 * h.1, i0 * h.2)) := by
  simp only [circleHcyl]
  rcases @celIter ℝ (realNum μ) fuel _ _ _ _ _ _ _ with _ | c1
  · rfl
  · simp only []
    rcases @celIter ℝ (realNum μ) fuel _ _ _ _ _ _ _ with _ | c2
    · rfl
    · simp only [Option.map_some, Option.some.injEq, Prod.mk.injEq]
      constructor <;> ring

theorem circleHcyl_linear' (μ a b : ℝ) (fuel : Nat) (r0 r z i1 i2 : ℝ) (h1 h2 : ℝ × ℝ) : letI := realNum μ
    circleHcyl fuel r0 r z i1 = some h1 → circleHcyl fuel r0 r z i2 = some h2 →
    circleHcyl fuel r0 r z (a * i1 + b * i2) = some (a * h1.1 + b * h2.1, a * h1.2 + b * h2.2) := by
  intro e1 e2
  rw [circleHcyl_current_factor] at e1 e2 ⊢
  generalize @circleHcyl ℝ (realNum μ) fuel r0 r z 1 = o at e1 e2 ⊢
  rcases o with _ | h
  · simp at e1
  · simp only [Option.map_some, Option.some.injEq] at e1 e2 ⊢
    subst e1 e2
    simp only [Prod.mk.injEq]
    constructor <;> ring

theorem segmentH_linear' (μ a b c1 c2 : ℝ) (p1 p2 po : V3 ℝ) : letI := realNum μ
    segmentH (a * c1 + b * c2) p1 p2 po = vs a (segmentH c1 p1 p2 po) + vs b (segmentH c2 p1 p2 po) := by
  simp only [segmentH]
  generalize @segmentCore ℝ (realNum μ) _ _ _ = c
  apply V3.ext' <;> simp [vs, n] <;> ring

theorem dipoleH_linear' (μ a b : ℝ) (m1 m2 x : V3 ℝ) : letI := realNum μ
    dipoleH (vs a m1 + vs b m2) x = vs a (dipoleH m1 x) + vs b (dipoleH m2 x) := by
  simp only [dipoleH]
  generalize @Kern.norm ℝ (realNum μ) x = r
  apply V3.ext' <;> simp [vs, vd, V3.dot, n] <;> ring

theorem cuboidB_linear' (μ a b : ℝ) (dim p1 p2 obs : V3 ℝ) : letI := realNum μ
    cuboidB dim (vs a p1 + vs b p2) obs = vs a (cuboidB dim p1 obs) + vs b (cuboidB dim p2 obs) := by
  simp only [cuboidB]
  generalize @cuboidFF ℝ (realNum μ) _ _ _ _ _ _ = F
  generalize @cuboidFlip ℝ (realNum μ) obs = fl
  apply V3.ext' <;> simp only [cuboidAssemble, vs, vd, V3.add_x, V3.add_y, V3.add_z] <;> ring

/-! ### Tetrahedron = `wrapH` of its four sheets (C13, C02) -/

/-- the sum of the four triangle sheets of the chirality-fixed tetrahedron (a μ₀H-type field) -/
noncomputable def tetraSheets (μ : ℝ) (v0 v1 v2 v3 pol x : V3 ℝ) : V3 ℝ :=
  letI := realNum μ
  let w := tetraChirality v0 v1 v2 v3
  triangleB w.1 w.2.2.1 w.2.1 pol x + triangleB w.1 w.2.1 w.2.2.2 pol x +
    triangleB w.2.1 w.2.2.1 w.2.2.2 pol x + triangleB w.1 w.2.2.2 w.2.2.1 pol x

theorem vd_add4 (μ : ℝ) (a b c d : V3 ℝ) (m : ℝ) : letI := realNum μ
    vd (a + b + c + d) m = vd a m + vd b m + vd c m + vd d m := by
  apply V3.ext' <;> simp [vd] <;> ring

theorem add_zero3 (μ : ℝ) (a : V3 ℝ) : letI := realNum μ
    a + zero3 = a := by
  apply V3.ext' <;> simp [zero3, n]

theorem tetra_wrapH' (μ : ℝ) (f : Field) (v0 v1 v2 v3 pol x : V3 ℝ) : letI := realNum μ
    bhjmTetra f v0 v1 v2 v3 pol x =
      wrapH f (tetraInside v0 v1 v2 v3 x) pol (tetraSheets μ v0 v1 v2 v3 pol x) := by
  cases f
  case J => rfl
  case M => rfl
  case H => simp only [bhjmTetra, bhjmTriangle, wrapH, tetraSheets, vd_add4]
  case B =>
    simp only [bhjmTetra, bhjmTriangle, wrapH, tetraSheets, tetraInside_chirality]
    split_ifs
    · rfl
    · rw [add_zero3]

end MagpyVerif.Kern
