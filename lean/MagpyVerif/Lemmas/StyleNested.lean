/-
Lemmas/StyleNested.lean — helper lemmas about the nested-dictionary model (Model/StyleNested.lean):
dict primitives, `update_nested_dict` (lookup characterisation of the loop, leaf-level effect),
object identity, `str.split`/`str.join`, `magic_to_dict` (fuel, termination measure, grouping),
`linearize_dict` (lookup characterisation).
-/
import MagpyVerif.Model.StyleNested

namespace MagpyVerif.StyleNested

/-! ### dict primitives -/

section dict
variable {α : Type}

@[simp] theorem lookup_nil (k : Key) : lookup k ([] : List (Key × α)) = none := rfl

theorem lookup_cons (k k' : Key) (v : α) (r : List (Key × α)) :
    lookup k ((k', v) :: r) = if k' = k then some v else lookup k r := rfl

theorem lookup_setKey_self (k : Key) (v : α) (l : List (Key × α)) : lookup k (setKey k v l) = some v := by
  induction l with
  | nil => simp [setKey, lookup_cons]
  | cons h t ih =>
    obtain ⟨k', v'⟩ := h
    by_cases hk : k' = k
    · simp [setKey, hk, lookup_cons]
    · simp [setKey, hk, lookup_cons, ih]

theorem lookup_setKey_ne {k k' : Key} (h : k ≠ k') (v : α) (l : List (Key × α)) :
    lookup k' (setKey k v l) = lookup k' l := by
  induction l with
  | nil => simp [setKey, lookup_cons, h]
  | cons hd t ih =>
    obtain ⟨k'', v''⟩ := hd
    by_cases hk : k'' = k
    · subst hk; simp [setKey, lookup_cons, h]
    · by_cases hk' : k'' = k'
      · subst hk'; simp [setKey, hk, lookup_cons]
      · simp [setKey, hk, lookup_cons, hk', ih]

theorem lookup_setKey (k k' : Key) (v : α) (l : List (Key × α)) :
    lookup k' (setKey k v l) = if k = k' then some v else lookup k' l := by
  by_cases h : k = k'
  · subst h; simp [lookup_setKey_self]
  · simp [h, lookup_setKey_ne h]

theorem setKey_of_lookup_none {k : Key} {l : List (Key × α)} (h : lookup k l = none) (v : α) :
    setKey k v l = l ++ [(k, v)] := by
  induction l with
  | nil => rfl
  | cons hd t ih =>
    obtain ⟨k', v'⟩ := hd
    by_cases hk : k' = k
    · simp [lookup_cons, hk] at h
    · simp only [lookup_cons, hk, if_false] at h
      simp [setKey, hk, ih h]

theorem lookup_append (k : Key) (a b : List (Key × α)) :
    lookup k (a ++ b) = match lookup k a with | some v => some v | none => lookup k b := by
  induction a with
  | nil => simp
  | cons hd t ih =>
    obtain ⟨k', v'⟩ := hd
    by_cases hk : k' = k
    · simp [lookup_cons, hk]
    · simp [lookup_cons, hk, ih]

theorem lookup_eq_none_iff {k : Key} {l : List (Key × α)} : lookup k l = none ↔ ∀ kv ∈ l, kv.1 ≠ k := by
  induction l with
  | nil => simp
  | cons hd t ih =>
    obtain ⟨k', v'⟩ := hd
    by_cases hk : k' = k
    · simp [lookup_cons, hk]
    · simp [lookup_cons, hk, ih]

theorem mem_of_lookup {k : Key} {v : α} {l : List (Key × α)} (h : lookup k l = some v) : (k, v) ∈ l := by
  induction l with
  | nil => simp at h
  | cons hd t ih =>
    obtain ⟨k', v'⟩ := hd
    by_cases hk : k' = k
    · simp [lookup_cons, hk] at h; subst hk; subst h; simp
    · simp only [lookup_cons, hk, if_false] at h
      exact List.mem_cons_of_mem _ (ih h)

end dict

/-! ### update_nested_dict -/

/-- the inlined callee in `updVal` is `update_nested_dict(new_dict.get(k, {}), v, …)` -/
theorem updVal_node (sko rno : Bool) (cur : Option Tree) (kv : Dict) :
    updVal sko rno cur (.node kv) =
      if cur.isSome || !sko then some (updDict sko rno (cur.getD (.node [])) kv) else none := by
  simp only [updVal, updDict]
  split
  · cases cur.getD (.node []) with
    | leaf dv => simp only []; split <;> rfl
    | node kd => rfl
  · rfl

theorem updLoop_nil (sko rno : Bool) (acc : Dict) : updLoop sko rno acc [] = acc := by
  simp only [updLoop]

theorem updLoop_cons (sko rno : Bool) (acc : Dict) (k : Key) (v : Tree) (rest : Dict) :
    updLoop sko rno acc ((k, v) :: rest) =
      match updVal sko rno (lookup k acc) v with
      | some r => updLoop sko rno (setKey k r acc) rest
      | none => updLoop sko rno acc rest := by
  rfl

/-- a key that does not occur in `u` keeps its value -/
theorem lookup_updLoop_of_not_mem (sko rno : Bool) (k : Key) (ku : Dict) :
    ∀ acc : Dict, lookup k ku = none → lookup k (updLoop sko rno acc ku) = lookup k acc := by
  induction ku with
  | nil => intro acc _; rw [updLoop_nil]
  | cons hd t ih =>
    intro acc h
    obtain ⟨k', v'⟩ := hd
    have hk : k' ≠ k := by
      intro e; simp [lookup_cons, e] at h
    have ht : lookup k t = none := by simpa [lookup_cons, hk] using h
    rw [updLoop_cons]
    cases updVal sko rno (lookup k' acc) v' with
    | none => exact ih acc ht
    | some r => simp only []; rw [ih _ ht, lookup_setKey_ne hk]

theorem wfKids_cons (k : Key) (v : Tree) (r : Dict) :
    wfKids ((k, v) :: r) = ((lookup k r).isNone && v.wf && wfKids r) := by
  simp only [wfKids]

theorem wf_of_lookup {k : Key} {c : Tree} {ku : Dict} (hw : wfKids ku = true) (h : lookup k ku = some c) :
    c.wf = true := by
  induction ku with
  | nil => simp at h
  | cons hd t ih =>
    obtain ⟨k', v'⟩ := hd
    rw [wfKids_cons] at hw
    simp only [Bool.and_eq_true] at hw
    by_cases hk : k' = k
    · simp [lookup_cons, hk] at h; subst h; exact hw.1.2
    · simp only [lookup_cons, hk, if_false] at h; exact ih hw.2 h

/-- the value of key `k` after the loop, when `u` has `k ↦ v` (keys of `u` pairwise different) -/
theorem lookup_updLoop_of_mem (sko rno : Bool) (k : Key) (v : Tree) (ku : Dict) :
    ∀ acc : Dict, wfKids ku = true → lookup k ku = some v →
      lookup k (updLoop sko rno acc ku) =
        match updVal sko rno (lookup k acc) v with
        | some r => some r
        | none => lookup k acc := by
  induction ku with
  | nil => intro acc _ h; simp at h
  | cons hd t ih =>
    intro acc hw h
    obtain ⟨k', v'⟩ := hd
    rw [wfKids_cons] at hw
    simp only [Bool.and_eq_true, Option.isNone_iff_eq_none] at hw
    rw [updLoop_cons]
    by_cases hk : k' = k
    · subst hk
      have hv : v' = v := by simpa [lookup_cons] using h
      subst hv
      cases hu : updVal sko rno (lookup k' acc) v' with
      | none => simp only []; exact lookup_updLoop_of_not_mem sko rno k' t acc hw.1.1
      | some r =>
        simp only []
        rw [lookup_updLoop_of_not_mem sko rno k' t _ hw.1.1, lookup_setKey_self]
    · have ht : lookup k t = some v := by simpa [lookup_cons, hk] using h
      cases updVal sko rno (lookup k' acc) v' with
      | none => exact ih acc hw.2 ht
      | some r =>
        simp only []
        rw [ih _ hw.2 ht, lookup_setKey_ne hk]

theorem getPath_nil (t : Tree) : getPath t [] = some t := by
  cases t <;> rfl

theorem getPath_leaf_cons (v : Option Val) (k : Key) (ps : List Key) : getPath (.leaf v) (k :: ps) = none := rfl

theorem getPath_node_cons (kids : Dict) (k : Key) (ps : List Key) :
    getPath (.node kids) (k :: ps) = match lookup k kids with | none => none | some c => getPath c ps := rfl

theorem getPath_eq_none_of_not_covers : ∀ (p : List Key) (u : Tree), covers u p = false → getPath u p = none := by
  intro p
  induction p with
  | nil => intro u h; cases u <;> simp [covers] at h
  | cons k ps ih =>
    intro u h
    cases u with
    | leaf v => simp [covers] at h
    | node kids =>
      rw [getPath_node_cons]
      simp only [covers] at h
      cases hl : lookup k kids with
      | none => rfl
      | some c => rw [hl] at h; exact ih c h


private theorem leaf_case (sko rno : Bool) (lv : Option Val) (cur : Option Tree) :
    (match (match updVal sko rno cur (.leaf lv) with
            | some r => some r
            | none => cur) with
      | none => none
      | some c => getPath c []) =
    bif (match cur with
        | none => !sko
        | some c => writable sko rno c []) then some (Tree.leaf lv)
    else (match cur with
      | none => none
      | some c => getPath c []) := by
  cases cur with
  | none => cases sko <;> cases rno <;> simp [updVal, isNoneOrMissing, getPath_nil]
  | some c' =>
    cases c' with
    | leaf dv => cases dv <;> cases sko <;> cases rno <;> simp [updVal, isNoneOrMissing, writable, getPath_nil]
    | node kd' => cases sko <;> cases rno <;> simp [updVal, isNoneOrMissing, writable, getPath_nil]

private theorem node_case_leaf (sko rno : Bool) (v : Option Val) (kv : Dict) (ps : List Key) (hps : ps ≠ [])
    (ih : ∀ d : Tree, getPath (updDict sko rno d kv) ps =
      bif writable sko rno d ps then some (Tree.leaf v) else getPath d ps) (cur : Option Tree) :
    (match (match (if (cur.isSome || !sko) = true then some (updDict sko rno (cur.getD (.node [])) kv) else none) with
            | some r => some r
            | none => cur) with
      | none => none
      | some c => getPath c ps) =
    bif (match cur with
        | none => !sko
        | some c => writable sko rno c ps) then some (Tree.leaf v)
    else (match cur with
      | none => none
      | some c => getPath c ps) := by
  cases cur with
  | none =>
    cases ps with
    | nil => exact absurd rfl hps
    | cons k2 ps2 => cases sko <;> simp [ih, writable]
  | some c' => simp [ih]

private theorem node_case_untouched (sko rno : Bool) (kv : Dict) (ps : List Key) (hps : ps ≠ [])
    (ih : ∀ d : Tree, getPath (updDict sko rno d kv) ps = getPath d ps) (cur : Option Tree) :
    (match (match (if (cur.isSome || !sko) = true then some (updDict sko rno (cur.getD (.node [])) kv) else none) with
            | some r => some r
            | none => cur) with
      | none => none
      | some c => getPath c ps) =
    (match cur with
      | none => none
      | some c => getPath c ps) := by
  cases cur with
  | none =>
    cases ps with
    | nil => exact absurd rfl hps
    | cons k2 ps2 => cases sko <;> simp [ih, getPath_node_cons]
  | some c' => simp [ih]

theorem writable_leaf (sko rno : Bool) (dv : Option Val) (p : List Key) :
    writable sko rno (.leaf dv) p = (dv.isNone || !rno) := by
  cases p <;> rfl

theorem writable_node_cons (sko rno : Bool) (kids : Dict) (k : Key) (ps : List Key) :
    writable sko rno (.node kids) (k :: ps) =
      match lookup k kids with
      | none => !sko
      | some c => writable sko rno c ps := rfl

theorem covers_node_cons (kids : Dict) (k : Key) (ps : List Key) :
    covers (.node kids) (k :: ps) = match lookup k kids with | none => false | some c => covers c ps := rfl

/-- **leaf-level effect of `update_nested_dict`**: a non-dict value `v` that `u` has at path `p` is in the
result iff `p` is writable in `d` under the two flags; otherwise the result has at `p` what `d` had. -/
theorem getPath_updDict_leaf (sko rno : Bool) (v : Option Val) :
    ∀ (p : List Key) (d : Tree) (ku : Dict), wfKids ku = true → getPath (.node ku) p = some (.leaf v) →
      getPath (updDict sko rno d ku) p = bif writable sko rno d p then some (.leaf v) else getPath d p := by
  intro p
  induction p with
  | nil => intro d ku _ h; simp [getPath_nil] at h
  | cons k ps ih =>
    intro d ku hw h
    rw [getPath_node_cons] at h
    cases hl : lookup k ku with
    | none => rw [hl] at h; simp at h
    | some c =>
      rw [hl] at h; simp only [] at h
      cases d with
      | leaf dv =>
        rw [writable_leaf]
        simp only [updDict]
        by_cases hc : (dv.isNone || !rno) = true
        · rw [if_pos hc, hc, cond_true, getPath_node_cons, hl]; exact h
        · rw [if_neg hc]
          have : (dv.isNone || !rno) = false := Bool.eq_false_iff.mpr hc
          rw [this, cond_false]
      | node kd =>
        simp only [updDict]
        rw [getPath_node_cons, lookup_updLoop_of_mem sko rno k c ku kd hw hl, writable_node_cons, getPath_node_cons]
        cases c with
        | leaf lv =>
          -- then ps = [] and lv = v
          cases ps with
          | cons k2 ps2 => simp [getPath_leaf_cons] at h
          | nil =>
            simp only [getPath_nil, Option.some.injEq, Tree.leaf.injEq] at h
            subst h
            exact leaf_case sko rno lv (lookup k kd)
        | node kv =>
          have hps : ps ≠ [] := by
            intro e; subst e; simp [getPath_nil] at h
          have hwc : wfKids kv = true := by
            have := wf_of_lookup hw hl
            simpa [Tree.wf] using this
          rw [updVal_node]
          exact node_case_leaf sko rno v kv ps hps (fun d => ih d kv hwc h) (lookup k kd)

/-- **every path `u` does not reach keeps its value**, whatever the flags -/
theorem getPath_updDict_untouched (sko rno : Bool) :
    ∀ (p : List Key) (d : Tree) (ku : Dict), wfKids ku = true → covers (.node ku) p = false →
      getPath (updDict sko rno d ku) p = getPath d p := by
  intro p
  induction p with
  | nil => intro d ku _ h; simp [covers] at h
  | cons k ps ih =>
    intro d ku hw h
    cases d with
    | leaf dv =>
      simp only [updDict]
      by_cases hc : (dv.isNone || !rno) = true
      · rw [if_pos hc, getPath_eq_none_of_not_covers _ _ h]; rfl
      · rw [if_neg hc]
    | node kd =>
      simp only [updDict]
      rw [getPath_node_cons, getPath_node_cons]
      rw [covers_node_cons] at h
      cases hl : lookup k ku with
      | none => rw [lookup_updLoop_of_not_mem sko rno k ku kd hl]
      | some c =>
        rw [hl] at h; simp only [] at h
        rw [lookup_updLoop_of_mem sko rno k c ku kd hw hl]
        cases c with
        | leaf lv => simp [covers] at h
        | node kv =>
          have hps : ps ≠ [] := by
            intro e; subst e; simp [covers] at h
          have hwc : wfKids kv = true := by
            have := wf_of_lookup hw hl
            simpa [Tree.wf] using this
          rw [updVal_node]
          exact node_case_untouched sko rno kv ps hps (fun d => ih d kv hwc h) (lookup k kd)

/-! ### `writable` in the four flag combinations -/

theorem writable_ff : ∀ (p : List Key) (d : Tree), writable false false d p = true := by
  intro p
  induction p with
  | nil => intro d; cases d <;> simp [writable]
  | cons k ps ih =>
    intro d
    cases d with
    | leaf v => simp [writable]
    | node kids =>
      rw [writable_node_cons]
      cases lookup k kids with
      | none => rfl
      | some c => exact ih c

theorem writable_tf_eq_covers : ∀ (p : List Key) (d : Tree), writable true false d p = covers d p := by
  intro p
  induction p with
  | nil => intro d; cases d <;> simp [writable, covers]
  | cons k ps ih =>
    intro d
    cases d with
    | leaf v => simp [writable, covers]
    | node kids =>
      rw [writable_node_cons, covers_node_cons]
      cases lookup k kids with
      | none => rfl
      | some c => exact ih c

theorem writable_of_getPath_leaf (sko rno : Bool) : ∀ (p : List Key) (d : Tree) (y : Option Val),
    getPath d p = some (.leaf y) → writable sko rno d p = (y.isNone || !rno) := by
  intro p
  induction p with
  | nil => intro d y h; simp only [getPath_nil, Option.some.injEq] at h; subst h; simp [writable]
  | cons k ps ih =>
    intro d y h
    cases d with
    | leaf v => simp [getPath_leaf_cons] at h
    | node kids =>
      rw [getPath_node_cons] at h
      rw [writable_node_cons]
      cases hl : lookup k kids with
      | none => rw [hl] at h; cases h
      | some c => rw [hl] at h; exact ih c y h

/-! ### one assignment = attribute assignment -/

theorem updLoop_single (sko rno : Bool) (acc : Dict) (k : Key) (v : Tree) :
    updLoop sko rno acc [(k, v)] =
      match updVal sko rno (lookup k acc) v with
      | some r => setKey k r acc
      | none => acc := by
  rw [updLoop_cons]
  cases updVal sko rno (lookup k acc) v <;> simp [updLoop_nil]

/-- updating with the nested-dict form `{k1: {k2: … {kn: v}}}` of one assignment of a non-dict value is the
attribute assignment `d.k1.k2.….kn = v` (plain update: both flags off) -/
theorem updDict_pathTree (lv : Option Val) :
    ∀ (ps : List Key) (k : Key) (d : Tree),
      updDict false false d [(k, pathTree ps (.leaf lv))] = setPath d (k :: ps) (.leaf lv) := by
  intro ps
  induction ps with
  | nil =>
    intro k d
    cases d with
    | leaf dv => simp [updDict, setPath, pathTree]
    | node kd =>
      simp only [updDict, setPath, pathTree, updLoop_single]
      cases hl : lookup k kd with
      | none => simp [updVal, isNoneOrMissing]
      | some c => cases c <;> simp [updVal, isNoneOrMissing]
  | cons k2 ps2 ih =>
    intro k d
    cases d with
    | leaf dv => simp [updDict, setPath, pathTree]
    | node kd =>
      simp only [updDict, setPath, updLoop_single]
      rw [show pathTree (k2 :: ps2) (Tree.leaf lv) = .node [(k2, pathTree ps2 (.leaf lv))] from rfl, updVal_node]
      cases hl : lookup k kd with
      | none =>
        simp only [Option.isSome_none, Bool.not_false, Bool.or_true, if_true, Option.getD_none]
        rw [ih k2 (.node [])]
        simp [setPath, setKey, pathTree]
      | some c =>
        simp only [Option.isSome_some, Bool.true_or, if_true, Option.getD_some]
        rw [ih k2 c]

/-! ### object identity (`deepcopy(d)`, `u.copy()`) -/

theorem lookup_eraseKids (k : Key) (l : List (Key × ATree)) :
    lookup k (eraseKids l) = (lookup k l).map ATree.erase := by
  induction l with
  | nil => rfl
  | cons hd t ih =>
    obtain ⟨k', v'⟩ := hd
    by_cases hk : k' = k
    · simp [eraseKids, lookup_cons, hk]
    · simp [eraseKids, lookup_cons, hk, ih]

theorem eraseKids_setKey (k : Key) (v : ATree) (l : List (Key × ATree)) :
    eraseKids (setKey k v l) = setKey k v.erase (eraseKids l) := by
  induction l with
  | nil => rfl
  | cons hd t ih =>
    obtain ⟨k', v'⟩ := hd
    by_cases hk : k' = k
    · simp [eraseKids, setKey, hk]
    · simp [eraseKids, setKey, hk, ih]

mutual
theorem erase_fresh : ∀ t : ATree, t.fresh.erase = t.erase
  | .leaf _ => rfl
  | .node _ kids => by simp only [ATree.fresh, ATree.erase, eraseKids_freshKids kids]
theorem eraseKids_freshKids : ∀ l : List (Key × ATree), eraseKids (freshKids l) = eraseKids l
  | [] => rfl
  | (k, v) :: r => by simp only [freshKids, eraseKids, erase_fresh v, eraseKids_freshKids r]
end

mutual
theorem addrs_fresh : ∀ t : ATree, t.fresh.addrs = []
  | .leaf _ => rfl
  | .node _ kids => by simp [ATree.fresh, ATree.addrs, addrsKids_freshKids kids]
theorem addrsKids_freshKids : ∀ l : List (Key × ATree), addrsKids (freshKids l) = []
  | [] => rfl
  | (k, v) :: r => by simp [freshKids, addrsKids, addrs_fresh v, addrsKids_freshKids r]
end

theorem isNoneOrMissingA_erase (cur : Option ATree) : isNoneOrMissing (cur.map ATree.erase) = isNoneOrMissingA cur := by
  cases cur with
  | none => rfl
  | some c =>
    cases c with
    | leaf v => cases v <;> rfl
    | node a kids => rfl

mutual
/-- forgetting the addresses turns the address-labelled update into the plain model -/
theorem updValA_erase : ∀ (sko rno : Bool) (v : ATree) (cur : Option ATree),
    (updValA sko rno cur v).map ATree.erase = updVal sko rno (cur.map ATree.erase) v.erase
  | sko, rno, .leaf lv, cur => by
    simp only [updValA, updVal, ATree.erase, isNoneOrMissingA_erase, Option.isSome_map]
    split
    · split
      · split <;> rfl
      · rfl
    · rfl
  | sko, rno, .node a kv, cur => by
    simp only [updValA, updVal, ATree.erase, Option.isSome_map]
    cases cur with
    | none =>
      cases sko
      · simp only [Option.isSome_none, Bool.not_false, Bool.or_true, if_true, Option.getD_none, Option.map_none,
          freshKids, Option.map_some, ATree.erase]
        rw [updLoopA_erase false rno kv []]; rfl
      · simp
    | some c =>
      cases c with
      | leaf dv =>
        simp only [Option.isSome_some, Bool.true_or, if_true, Option.getD_some, Option.map_some, ATree.erase]
        split <;> simp [ATree.erase]
      | node b kd =>
        simp only [Option.isSome_some, Bool.true_or, if_true, Option.getD_some, Option.map_some, ATree.erase]
        rw [updLoopA_erase sko rno kv (freshKids kd), eraseKids_freshKids]
theorem updLoopA_erase : ∀ (sko rno : Bool) (ku acc : List (Key × ATree)),
    eraseKids (updLoopA sko rno acc ku) = updLoop sko rno (eraseKids acc) (eraseKids ku)
  | sko, rno, [], acc => by simp only [updLoopA, eraseKids, updLoop]
  | sko, rno, (k, v) :: rest, acc => by
    simp only [updLoopA, eraseKids, updLoop_cons]
    have h := updValA_erase sko rno v (lookup k acc)
    rw [lookup_eraseKids, ← h]
    cases updValA sko rno (lookup k acc) v with
    | none => simp only [Option.map_none]; exact updLoopA_erase sko rno rest acc
    | some r =>
      simp only [Option.map_some]
      rw [updLoopA_erase sko rno rest (setKey k r acc), eraseKids_setKey]
end

theorem updDictA_erase (sko rno : Bool) (d : ATree) (ku : List (Key × ATree)) :
    (updDictA sko rno d ku).erase = updDict sko rno d.erase (eraseKids ku) := by
  cases d with
  | leaf dv => simp only [updDictA, updDict, ATree.erase]; split <;> simp [ATree.erase]
  | node a kd => simp only [updDictA, updDict, ATree.erase]; rw [updLoopA_erase, eraseKids_freshKids]

theorem mem_addrsKids_setKey {a : Nat} {k : Key} {r : ATree} {acc : List (Key × ATree)}
    (h : a ∈ addrsKids (setKey k r acc)) : a ∈ addrsKids acc ∨ a ∈ r.addrs := by
  induction acc with
  | nil => simpa [setKey, addrsKids] using h
  | cons hd t ih =>
    obtain ⟨k', v'⟩ := hd
    by_cases hk : k' = k
    · simp only [setKey, hk, if_true, addrsKids, List.mem_append] at h ⊢
      rcases h with h | h
      · exact Or.inr h
      · exact Or.inl (Or.inr h)
    · simp only [setKey, hk, if_false, addrsKids, List.mem_append] at h ⊢
      rcases h with h | h
      · exact Or.inl (Or.inl h)
      · rcases ih h with h | h
        · exact Or.inl (Or.inr h)
        · exact Or.inr h

mutual
theorem addrs_updValA : ∀ (sko rno : Bool) (v : ATree) (cur : Option ATree) (r : ATree),
    updValA sko rno cur v = some r → ∀ a ∈ r.addrs, a ∈ v.addrs
  | sko, rno, .leaf lv, cur, r => by
    intro h a ha
    simp only [updValA] at h
    split at h
    · split at h
      · split at h
        · cases h; simp [ATree.addrs] at ha
        · cases h
      · cases h
    · cases h
  | sko, rno, .node b kv, cur, r => by
    intro h a ha
    simp only [updValA] at h
    split at h
    · cases hc : cur.getD (.node 0 []) with
      | leaf dv =>
        rw [hc] at h; simp only [] at h
        split at h
        · cases h
          simp only [ATree.addrs, List.mem_append] at ha ⊢
          rcases ha with ha | ha
          · simp at ha
          · exact Or.inr ha
        · cases h; simp [ATree.addrs] at ha
      | node c kd =>
        rw [hc] at h; simp only [] at h
        cases h
        simp only [ATree.addrs, List.mem_append] at ha ⊢
        rcases ha with ha | ha
        · simp at ha
        · rcases addrs_updLoopA sko rno kv (freshKids kd) a ha with h1 | h1
          · simp [addrsKids_freshKids] at h1
          · exact Or.inr h1
    · cases h
theorem addrs_updLoopA : ∀ (sko rno : Bool) (ku acc : List (Key × ATree)) (a : Nat),
    a ∈ addrsKids (updLoopA sko rno acc ku) → a ∈ addrsKids acc ∨ a ∈ addrsKids ku
  | sko, rno, [], acc, a => by
    intro h; simp only [updLoopA] at h; exact Or.inl h
  | sko, rno, (k, v) :: rest, acc, a => by
    intro h
    simp only [updLoopA] at h
    simp only [addrsKids, List.mem_append]
    cases hu : updValA sko rno (lookup k acc) v with
    | none =>
      rw [hu] at h; simp only [] at h
      rcases addrs_updLoopA sko rno rest acc a h with h1 | h1
      · exact Or.inl h1
      · exact Or.inr (Or.inr h1)
    | some r =>
      rw [hu] at h; simp only [] at h
      rcases addrs_updLoopA sko rno rest (setKey k r acc) a h with h1 | h1
      · rcases mem_addrsKids_setKey h1 with h2 | h2
        · exact Or.inl h2
        · exact Or.inr (Or.inl (addrs_updValA sko rno v (lookup k acc) r hu a h2))
      · exact Or.inr (Or.inr h1)
end

/-- every dictionary object of the result that is not new is a dictionary nested inside `u` -/
theorem addrs_updDictA (sko rno : Bool) (d : ATree) (ku : List (Key × ATree)) (a : Nat)
    (h : a ∈ (updDictA sko rno d ku).addrs) : a ∈ addrsKids ku := by
  cases d with
  | leaf dv =>
    simp only [updDictA] at h
    split at h
    · simpa [ATree.addrs] using h
    · simp [ATree.addrs] at h
  | node b kd =>
    simp only [updDictA, ATree.addrs, List.mem_append] at h
    rcases h with h | h
    · simp at h
    · rcases addrs_updLoopA sko rno ku (freshKids kd) a h with h1 | h1
      · simp [addrsKids_freshKids] at h1
      · exact h1

/-! ### str.split / str.join -/

theorem splitOn_cons_sep (sep : Char) (cs : Str) : splitOn sep (sep :: cs) = [] :: splitOn sep cs := by
  simp [splitOn]

theorem splitOn_cons_ne {c sep : Char} (h : c ≠ sep) (cs : Str) :
    splitOn sep (c :: cs) = match splitOn sep cs with
      | [] => [[c]]
      | w :: ws => (c :: w) :: ws := by
  rw [splitOn, if_neg h]
  cases splitOn sep cs <;> rfl

theorem splitOn_ne_nil (sep : Char) (s : Str) : splitOn sep s ≠ [] := by
  induction s with
  | nil => simp [splitOn]
  | cons c cs ih =>
    by_cases h : c = sep
    · subst h; simp [splitOn_cons_sep]
    · rw [splitOn_cons_ne h]; split <;> simp

theorem splitOn_cons_ne' {c sep : Char} (h : c ≠ sep) (cs : Str) :
    ∃ w ws, splitOn sep cs = w :: ws ∧ splitOn sep (c :: cs) = (c :: w) :: ws := by
  cases hs : splitOn sep cs with
  | nil => exact absurd hs (splitOn_ne_nil sep cs)
  | cons w ws => exact ⟨w, ws, rfl, by rw [splitOn_cons_ne h, hs]⟩

theorem splitOn_of_not_mem {sep : Char} {w : Str} (h : sep ∉ w) : splitOn sep w = [w] := by
  induction w with
  | nil => rfl
  | cons c cs ih =>
    have hc : c ≠ sep := by intro e; subst e; simp at h
    have hcs : sep ∉ cs := by intro e; exact h (List.mem_cons_of_mem _ e)
    rw [splitOn_cons_ne hc, ih hcs]

theorem splitOn_append_sep {sep : Char} {w : Str} (h : sep ∉ w) (rest : Str) :
    splitOn sep (w ++ sep :: rest) = w :: splitOn sep rest := by
  induction w with
  | nil => simp [splitOn_cons_sep]
  | cons c cs ih =>
    have hc : c ≠ sep := by intro e; subst e; simp at h
    have hcs : sep ∉ cs := by intro e; exact h (List.mem_cons_of_mem _ e)
    rw [List.cons_append, splitOn_cons_ne hc, ih hcs]

theorem joinWith_cons_cons (sep : Char) (w w' : Str) (ws : List Str) :
    joinWith sep (w :: w' :: ws) = w ++ sep :: joinWith sep (w' :: ws) := rfl

theorem splitOn_joinWith {sep : Char} : ∀ {segs : List Str}, segs ≠ [] → (∀ w ∈ segs, sep ∉ w) →
    splitOn sep (joinWith sep segs) = segs := by
  intro segs
  induction segs with
  | nil => intro h; exact absurd rfl h
  | cons w ws ih =>
    intro _ hf
    cases ws with
    | nil => simpa [joinWith] using splitOn_of_not_mem (hf w (by simp))
    | cons w' ws' =>
      rw [joinWith_cons_cons, splitOn_append_sep (hf w (by simp)), ih (by simp) (fun x hx => hf x (List.mem_cons_of_mem _ hx))]

theorem splitOn_sepfree (sep : Char) (s : Str) : ∀ w ∈ splitOn sep s, sep ∉ w := by
  induction s with
  | nil => simp [splitOn]
  | cons c cs ih =>
    by_cases h : c = sep
    · subst h
      rw [splitOn_cons_sep]
      intro w hw
      rcases List.mem_cons.mp hw with e | e
      · subst e; simp
      · exact ih w e
    · obtain ⟨w0, ws, h1, h2⟩ := splitOn_cons_ne' h cs
      rw [h2]
      intro w hw
      rcases List.mem_cons.mp hw with e | e
      · subst e
        have := ih w0 (by rw [h1]; simp)
        intro hm
        rcases List.mem_cons.mp hm with e2 | e2
        · exact h e2.symm
        · exact this e2
      · exact ih w (by rw [h1]; exact List.mem_cons_of_mem _ e)

theorem length_splitOn (sep : Char) (s : Str) : (splitOn sep s).length = s.count sep + 1 := by
  induction s with
  | nil => rfl
  | cons c cs ih =>
    by_cases h : c = sep
    · subst h; rw [splitOn_cons_sep]; simp [ih]
    · obtain ⟨w0, ws, h1, h2⟩ := splitOn_cons_ne' h cs
      rw [h2, List.count_cons_of_ne (by simpa using h), ← ih, h1]; rfl

theorem count_joinWith {sep : Char} : ∀ {segs : List Str}, (∀ w ∈ segs, sep ∉ w) →
    (joinWith sep segs).count sep = segs.length - 1 := by
  intro segs
  induction segs with
  | nil => intro _; rfl
  | cons w ws ih =>
    intro hf
    have hw : List.count sep w = 0 := List.count_eq_zero.mpr (hf w (by simp))
    cases ws with
    | nil => simpa [joinWith] using hw
    | cons w' ws' =>
      rw [joinWith_cons_cons, List.count_append, List.count_cons_self, hw,
        ih (fun x hx => hf x (List.mem_cons_of_mem _ hx))]
      simp

/-! ### magic_to_dict: the first loop on a key given by its segments -/

theorem mergeDict_single {α : Type} (e : List (Key × α)) (k : Key) (v : α) : mergeDict e [(k, v)] = setKey k v e := rfl

/-- the first loop's body for a string key whose `split` is `k0 :: more` -/
theorem magicStep_of_split {sep : Char} {s : Str} {k0 : Str} {more : List Str} (h : splitOn sep s = k0 :: more)
    (acc : Dict) (v : Tree) :
    magicStep sep acc (.str s) v = .ok (match more with
      | [] => setKey (.str k0) v acc
      | _ :: _ => match lookup (.str k0) acc with
        | some (.node e) => setKey (.str k0) (.node (setKey (.str (joinWith sep more)) v e)) acc
        | _ => setKey (.str k0) (.node [(.str (joinWith sep more), v)]) acc) := by
  simp only [magicStep, h]
  cases more with
  | nil => rfl
  | cons m ms =>
    simp only []
    cases lookup (Key.str k0) acc with
    | none => rfl
    | some c => cases c <;> rfl

theorem magicLoop_nil (sep : Char) (acc : Dict) : magicLoop sep acc [] = .ok acc := rfl

theorem magicLoop_cons (sep : Char) (acc : Dict) (k : Key) (v : Tree) (rest : Dict) :
    magicLoop sep acc ((k, v) :: rest) =
      match magicStep sep acc k v with
      | .ok a => magicLoop sep a rest
      | .error e => .error e := rfl

theorem magicFuel_succ (sep : Char) (n : Nat) (kw : Dict) :
    magicFuel sep (n + 1) kw =
      match magicLoop sep [] kw with
      | .error e => .error e
      | .ok g => mapValsM (magicFuel sep n) g := rfl

theorem mapValsM_nil (f : Dict → Except Err Dict) : mapValsM f [] = .ok [] := rfl

theorem mapValsM_cons_leaf (f : Dict → Except Err Dict) (k : Key) (v : Option Val) (rest : Dict) :
    mapValsM f ((k, .leaf v) :: rest) =
      match mapValsM f rest with
      | .ok rs => .ok ((k, .leaf v) :: rs)
      | .error e => .error e := rfl

theorem mapValsM_cons_node (f : Dict → Except Err Dict) (k : Key) (kv : Dict) (rest : Dict) :
    mapValsM f ((k, .node kv) :: rest) =
      match f kv with
      | .error e => .error e
      | .ok r =>
        match mapValsM f rest with
        | .ok rs => .ok ((k, .node r) :: rs)
        | .error e => .error e := rfl

/-- the underscore-keyword form `k1_k2_…_kn = v` of one assignment becomes the nested form `{k1: {k2: … {kn: v}}}` -/
theorem magicFuel_single (sep : Char) (v : Option Val) :
    ∀ (ps : List Str) (k : Str) (n : Nat), (∀ w ∈ k :: ps, sep ∉ w) → ps.length + 1 ≤ n →
      magicFuel sep n [(.str (joinWith sep (k :: ps)), .leaf v)] =
        .ok [(.str k, pathTree (ps.map Key.str) (.leaf v))] := by
  intro ps
  induction ps with
  | nil =>
    intro k n hf hn
    obtain ⟨m, rfl⟩ : ∃ m, n = m + 1 := ⟨n - 1, by omega⟩
    have hs : splitOn sep (joinWith sep [k]) = k :: [] := splitOn_joinWith (by simp) hf
    rw [magicFuel_succ, magicLoop_cons, magicStep_of_split hs]
    rfl
  | cons k2 ps2 ih =>
    intro k n hf hn
    obtain ⟨m, rfl⟩ : ∃ m, n = m + 1 := ⟨n - 1, by omega⟩
    have hs : splitOn sep (joinWith sep (k :: k2 :: ps2)) = k :: (k2 :: ps2) := splitOn_joinWith (by simp) hf
    rw [magicFuel_succ, magicLoop_cons, magicStep_of_split hs]
    simp only [lookup_nil, magicLoop_nil, setKey]
    rw [mapValsM_cons_node, ih k2 m (fun w hw => hf w (List.mem_cons_of_mem _ hw)) (by simp at hn; omega)]
    rfl

theorem weightKids_single (sep : Char) (k : Key) (v : Option Val) :
    weightKids sep [(k, .leaf v)] = k.seps sep := by
  simp [weightKids, Tree.weight]

theorem magicToDict_single (sep : Char) (v : Option Val) (k : Str) (ps : List Str) (hf : ∀ w ∈ k :: ps, sep ∉ w) :
    magicToDict sep (.node [(.str (joinWith sep (k :: ps)), .leaf v)]) =
      .ok (pathTree ((k :: ps).map Key.str) (.leaf v)) := by
  simp only [magicToDict]
  rw [magicFuel_single sep v ps k _ hf (by simp [weightKids_single, Key.seps, count_joinWith hf])]
  rfl

/-! ### magic_to_dict: fuel -/

theorem mapValsM_mono {f g : Dict → Except Err Dict} (h : ∀ kv r, f kv = .ok r → g kv = .ok r) :
    ∀ (l r : Dict), mapValsM f l = .ok r → mapValsM g l = .ok r := by
  intro l
  induction l with
  | nil => intro r hr; simpa [mapValsM_nil] using hr
  | cons hd t ih =>
    intro r hr
    obtain ⟨k, v⟩ := hd
    cases v with
    | leaf lv =>
      rw [mapValsM_cons_leaf] at hr ⊢
      cases ht : mapValsM f t with
      | error e => rw [ht] at hr; cases hr
      | ok rs => rw [ht] at hr; rw [ih rs ht]; exact hr
    | node kv =>
      rw [mapValsM_cons_node] at hr ⊢
      cases hf : f kv with
      | error e => rw [hf] at hr; cases hr
      | ok r1 =>
        rw [hf] at hr; simp only [] at hr
        rw [h kv r1 hf]; simp only []
        cases ht : mapValsM f t with
        | error e => rw [ht] at hr; cases hr
        | ok rs => rw [ht] at hr; rw [ih rs ht]; exact hr

/-- more fuel does not change a result -/
theorem magicFuel_mono (sep : Char) : ∀ (n : Nat) (kw r : Dict),
    magicFuel sep n kw = .ok r → magicFuel sep (n + 1) kw = .ok r := by
  intro n
  induction n with
  | zero => intro kw r h; cases h
  | succ m ih =>
    intro kw r h
    rw [magicFuel_succ] at h ⊢
    cases hl : magicLoop sep [] kw with
    | error e => rw [hl] at h; cases h
    | ok g =>
      rw [hl] at h; simp only [] at h ⊢
      exact mapValsM_mono (ih) g r h

theorem magicFuel_mono_le (sep : Char) {n m : Nat} (hnm : n ≤ m) (kw r : Dict)
    (h : magicFuel sep n kw = .ok r) : magicFuel sep m kw = .ok r := by
  induction hnm with
  | refl => exact h
  | step _ ih => exact magicFuel_mono sep _ kw r ih

/-! ### magic_to_dict terminates: the fuel `weightKids kw + 1` is never exhausted -/

/-- sum of the weights of the values of a dict -/
def sumW (sep : Char) : Dict → Nat
  | [] => 0
  | (_, v) :: r => v.weight sep + sumW sep r

theorem weightKids_cons (sep : Char) (k : Key) (v : Tree) (r : Dict) :
    weightKids sep ((k, v) :: r) = k.seps sep + v.weight sep + weightKids sep r := by
  simp only [weightKids]

theorem weight_node (sep : Char) (kids : Dict) : (Tree.node kids).weight sep = 1 + weightKids sep kids := by
  simp only [Tree.weight]

theorem sumW_setKey_le (sep : Char) (k : Key) (v : Tree) (l : Dict) :
    sumW sep (setKey k v l) ≤ sumW sep l + v.weight sep := by
  induction l with
  | nil => simp [setKey, sumW]
  | cons hd t ih =>
    obtain ⟨k', v'⟩ := hd
    by_cases hk : k' = k
    · simp only [setKey, hk, if_true, sumW]; omega
    · simp only [setKey, hk, if_false, sumW]; omega

theorem sumW_setKey_of_lookup (sep : Char) {k : Key} {old : Tree} (v : Tree) {l : Dict} (h : lookup k l = some old) :
    sumW sep (setKey k v l) + old.weight sep = sumW sep l + v.weight sep := by
  induction l with
  | nil => simp at h
  | cons hd t ih =>
    obtain ⟨k', v'⟩ := hd
    by_cases hk : k' = k
    · simp only [lookup_cons, hk, if_true, Option.some.injEq] at h
      subst h
      simp only [setKey, hk, if_true, sumW]; omega
    · simp only [lookup_cons, hk, if_false] at h
      simp only [setKey, hk, if_false, sumW]
      have := ih h
      omega

theorem weightKids_setKey_le (sep : Char) (k : Key) (v : Tree) (l : Dict) :
    weightKids sep (setKey k v l) ≤ weightKids sep l + k.seps sep + v.weight sep := by
  induction l with
  | nil => simp [setKey, weightKids]
  | cons hd t ih =>
    obtain ⟨k', v'⟩ := hd
    by_cases hk : k' = k
    · subst hk; simp only [setKey, if_true, weightKids_cons]; omega
    · simp only [setKey, hk, if_false, weightKids_cons]; omega

theorem magicStep_weight (sep : Char) (acc : Dict) (k : Key) (v : Tree) (acc' : Dict)
    (h : magicStep sep acc k v = .ok acc') :
    sumW sep acc' ≤ sumW sep acc + k.seps sep + v.weight sep := by
  cases k with
  | int n => simp [magicStep] at h
  | str s =>
    cases hs : splitOn sep s with
    | nil => exact absurd hs (splitOn_ne_nil sep s)
    | cons k0 more =>
      rw [magicStep_of_split hs] at h
      cases more with
      | nil =>
        simp only [Except.ok.injEq] at h; subst h
        have := sumW_setKey_le sep (.str k0) v acc
        omega
      | cons m ms =>
        -- the key has at least one separator, the remainder one less
        have hlen := length_splitOn sep s
        rw [hs] at hlen
        have hfree : ∀ w ∈ m :: ms, sep ∉ w := fun w hw => splitOn_sepfree sep s w (by rw [hs]; exact List.mem_cons_of_mem _ hw)
        have hcnt := count_joinWith hfree
        have hseps : (Key.str s).seps sep = (Key.str (joinWith sep (m :: ms))).seps sep + 1 := by
          simp only [Key.seps, hcnt]; simp at hlen ⊢; omega
        simp only [] at h
        cases hl : lookup (Key.str k0) acc with
        | none =>
          rw [hl] at h; simp only [Except.ok.injEq] at h; subst h
          have := sumW_setKey_le sep (.str k0) (.node [(.str (joinWith sep (m :: ms)), v)]) acc
          rw [weight_node, weightKids_cons] at this
          simp only [weightKids] at this
          omega
        | some c =>
          cases c with
          | leaf lv =>
            rw [hl] at h; simp only [Except.ok.injEq] at h; subst h
            have := sumW_setKey_le sep (.str k0) (.node [(.str (joinWith sep (m :: ms)), v)]) acc
            rw [weight_node, weightKids_cons] at this
            simp only [weightKids] at this
            omega
          | node e =>
            rw [hl] at h; simp only [Except.ok.injEq] at h; subst h
            have h1 := sumW_setKey_of_lookup sep (.node (setKey (.str (joinWith sep (m :: ms))) v e)) hl
            have h2 := weightKids_setKey_le sep (.str (joinWith sep (m :: ms))) v e
            rw [weight_node, weight_node] at h1
            omega

theorem magicLoop_weight (sep : Char) : ∀ (kw acc g : Dict), magicLoop sep acc kw = .ok g →
    sumW sep g ≤ sumW sep acc + weightKids sep kw := by
  intro kw
  induction kw with
  | nil => intro acc g h; simp only [magicLoop_nil, Except.ok.injEq] at h; subst h; simp [weightKids]
  | cons hd t ih =>
    intro acc g h
    obtain ⟨k, v⟩ := hd
    rw [magicLoop_cons] at h
    cases hst : magicStep sep acc k v with
    | error e => rw [hst] at h; cases h
    | ok a =>
      rw [hst] at h; simp only [] at h
      have h1 := magicStep_weight sep acc k v a hst
      have h2 := ih a g h
      rw [weightKids_cons]; omega

theorem magicLoop_error (sep : Char) : ∀ (kw acc : Dict) (e : Err), magicLoop sep acc kw = .error e → e = .attribute := by
  intro kw
  induction kw with
  | nil => intro acc e h; cases h
  | cons hd t ih =>
    intro acc e h
    obtain ⟨k, v⟩ := hd
    rw [magicLoop_cons] at h
    cases hst : magicStep sep acc k v with
    | ok a => rw [hst] at h; exact ih a e h
    | error e' =>
      rw [hst] at h; simp only [Except.error.injEq] at h; subst h
      cases k with
      | int n => simpa [magicStep] using hst.symm
      | str s =>
        cases hs : splitOn sep s with
        | nil => exact absurd hs (splitOn_ne_nil sep s)
        | cons k0 more => rw [magicStep_of_split hs] at hst; cases hst

theorem weight_le_sumW (sep : Char) {k : Key} {v : Tree} {g : Dict} (h : (k, v) ∈ g) : v.weight sep ≤ sumW sep g := by
  induction g with
  | nil => cases h
  | cons hd t ih =>
    obtain ⟨k', v'⟩ := hd
    rcases List.mem_cons.mp h with e | e
    · cases e; simp only [sumW]; omega
    · have := ih e; simp only [sumW]; omega

theorem mapValsM_no_fuel {f : Dict → Except Err Dict} :
    ∀ (g : Dict), (∀ k kv, (k, Tree.node kv) ∈ g → f kv ≠ .error .fuel) → mapValsM f g ≠ .error .fuel := by
  intro g
  induction g with
  | nil => intro _ h; cases h
  | cons hd t ih =>
    intro hf
    obtain ⟨k, v⟩ := hd
    have iht := ih (fun k' kv' hm => hf k' kv' (List.mem_cons_of_mem _ hm))
    cases v with
    | leaf lv =>
      rw [mapValsM_cons_leaf]
      cases ht : mapValsM f t with
      | ok rs => simp
      | error e => simp only []; intro h; cases h; exact iht ht
    | node kv =>
      rw [mapValsM_cons_node]
      cases hk : f kv with
      | error e => simp only []; intro h; cases h; exact hf k kv (by simp) hk
      | ok r =>
        simp only []
        cases ht : mapValsM f t with
        | ok rs => simp
        | error e => simp only []; intro h; cases h; exact iht ht

/-- **termination of `magic_to_dict`**: with fuel above the weight of the argument the recursion never runs out -/
theorem magicFuel_no_fuel_error (sep : Char) : ∀ (n : Nat) (kw : Dict), weightKids sep kw < n →
    magicFuel sep n kw ≠ .error .fuel := by
  intro n
  induction n with
  | zero => intro kw h; omega
  | succ m ih =>
    intro kw h
    rw [magicFuel_succ]
    cases hl : magicLoop sep [] kw with
    | error e =>
      simp only []
      have := magicLoop_error sep kw [] e hl
      subst this; simp
    | ok g =>
      simp only []
      apply mapValsM_no_fuel
      intro k kv hm
      apply ih
      have h1 := magicLoop_weight sep kw [] g hl
      have h2 := weight_le_sumW sep hm
      rw [weight_node] at h2
      simp only [sumW] at h1
      omega

/-- the nested-dict form of one assignment is left as it is by `magic_to_dict` -/
theorem magicFuel_pathTree (sep : Char) (v : Option Val) :
    ∀ (ps : List Str) (k : Str) (n : Nat), (∀ w ∈ k :: ps, sep ∉ w) → ps.length + 1 ≤ n →
      magicFuel sep n [(.str k, pathTree (ps.map Key.str) (.leaf v))] =
        .ok [(.str k, pathTree (ps.map Key.str) (.leaf v))] := by
  intro ps
  induction ps with
  | nil =>
    intro k n hf hn
    obtain ⟨m, rfl⟩ : ∃ m, n = m + 1 := ⟨n - 1, by omega⟩
    have hs : splitOn sep k = k :: [] := splitOn_of_not_mem (hf k (by simp))
    rw [magicFuel_succ, magicLoop_cons, magicStep_of_split hs]
    rfl
  | cons k2 ps2 ih =>
    intro k n hf hn
    obtain ⟨m, rfl⟩ : ∃ m, n = m + 1 := ⟨n - 1, by omega⟩
    have hs : splitOn sep k = k :: [] := splitOn_of_not_mem (hf k (by simp))
    rw [magicFuel_succ, magicLoop_cons, magicStep_of_split hs]
    simp only [magicLoop_nil, setKey, List.map_cons, pathTree]
    rw [mapValsM_cons_node, ih k2 m (fun w hw => hf w (List.mem_cons_of_mem _ hw)) (by simp at hn; omega)]
    rfl

theorem weight_pathTree (sep : Char) (v : Option Val) : ∀ (ps : List Str), (∀ w ∈ ps, sep ∉ w) →
    (pathTree (ps.map Key.str) (.leaf v)).weight sep = ps.length := by
  intro ps
  induction ps with
  | nil => intro _; simp [pathTree, Tree.weight]
  | cons k ps ih =>
    intro hf
    have hk : List.count sep k = 0 := List.count_eq_zero.mpr (hf k (by simp))
    simp only [List.map_cons, pathTree, weight_node, weightKids_cons, Key.seps, hk,
      ih (fun w hw => hf w (List.mem_cons_of_mem _ hw)), List.length_cons]
    simp only [weightKids]; omega

theorem magicToDict_pathTree (sep : Char) (v : Option Val) (k : Str) (ps : List Str) (hf : ∀ w ∈ k :: ps, sep ∉ w) :
    magicToDict sep (pathTree ((k :: ps).map Key.str) (.leaf v)) =
      .ok (pathTree ((k :: ps).map Key.str) (.leaf v)) := by
  simp only [List.map_cons, pathTree, magicToDict]
  have hk : List.count sep k = 0 := List.count_eq_zero.mpr (hf k (by simp))
  have hw : weightKids sep [(Key.str k, pathTree (ps.map Key.str) (.leaf v))] = ps.length := by
    simp only [weightKids_cons, Key.seps, hk, weight_pathTree sep v ps (fun w hw => hf w (List.mem_cons_of_mem _ hw))]
    simp only [weightKids]; omega
  rw [magicFuel_pathTree sep v ps k _ hf (by rw [hw]; omega)]

end MagpyVerif.StyleNested
