/- C10 helper lemmas: the anchor sliced from the parent path; relative poses under aligned rotation -/
import Mathlib.Algebra.GroupWithZero.Action.Defs
import Mathlib.Tactic.Abel
import Mathlib.Tactic.Group
import MagpyVerif.Lemmas.Tree
namespace MagpyVerif
open Gen Spec
variable {G V : Type}

theorem padOf_ite (pb pe : Int) (h1 : 0 ≤ pb) (h2 : 0 ≤ pe) :
    padOf (if pb + pe > 0 then some (pb, pe) else none) = (pb.toNat, pe.toNat) := by
  split
  · rfl
  · have : pb = 0 := by omega
    have : pe = 0 := by omega
    subst_vars; rfl

/-- the second `path_padding_param` call in `apply_rotation` (on the parent path, with
`len_anchor = end - start`) pads exactly like the first one when both paths have length `N` -/
theorem second_padding_same (sc : Bool) (N l : Nat) (start : Option Int) (hl : sc = true → l = 1) :
    let r1 := pathPaddingParam sc N l start
    let stop := if sc then (padOf r1.1).1 + N + (padOf r1.1).2 else r1.2.toNat + l
    let r2 := pathPaddingParam sc N (stop - r1.2.toNat : Nat) start
    padOf r2.1 = padOf r1.1 ∧ r2.2 = r1.2 := by
  intro r1 stop r2
  cases sc with
  | false =>
    have : stop - r1.2.toNat = l := by simp [stop]
    simp only [r2, this, r1, and_self]
  | true =>
    have hl1 := hl rfl
    subst hl1
    have h1 := pathPaddingParam_int true N (1 : Nat) start (by omega) (by omega)
    have h2 := pathPaddingParam_int true N (stop - r1.2.toNat : Nat) start (by omega) (by omega)
    simp only at h1 h2
    obtain ⟨h1a, h1b⟩ := h1
    obtain ⟨h2a, h2b⟩ := h2
    have e1 : r1.2 = max 0 (normStart true N start) := h1a
    have e2 : r2.2 = max 0 (normStart true N start) := h2a
    refine ⟨?_, by rw [e1, e2]⟩
    have f1 : r1.1 = _ := h1b
    have f2 : r2.1 = _ := h2b
    rw [f1, f2, padOf_ite _ _ (by omega) (by omega), padOf_ite _ _ (by omega) (by omega)]
    have hstop : stop = (padOf r1.1).1 + N + (padOf r1.1).2 := by simp [stop]
    rw [f1, padOf_ite _ _ (by omega) (by omega)] at hstop
    generalize normStart true N start = s at *
    simp only [Prod.mk.injEq, true_and]
    rw [hstop, e1]
    omega
theorem window_stop (sc : Bool) (N L : Nat) (start : Option Int) :
    (window sc N L start).stop =
      if sc = true then (window sc N L start).newLen else (window sc N L start).s0 + L := by
  cases sc <;> simp [window]

/-- the anchor `apply_rotation` slices out of the (padded) parent path -/
def parentAnchor (rot : PathIn G) (start : Option Int) (pp : List V) (o : Obj G V) : PathIn V :=
  let r1 := pathPaddingParam rot.isScalar o.pos.length rot.lenip start
  let p1 := padOf r1.1
  let ppath := edgePad p1.1 p1.2 o.pos
  let e := if rot.isScalar then ppath.length else r1.2.toNat + rot.lenip
  let lenA := e - r1.2.toNat
  let r := pathPaddingParam rot.isScalar pp.length lenA start
  let p := padOf r.1
  PathIn.vector (((edgePad p.1 p.2 pp).drop r.2.toNat).take lenA)

theorem aligned_none_pp [Mul G] [SMul G V] [Add V] [Sub V] (rot : PathIn G) (start : Option Int)
    (pp : List V) (o : Obj G V) :
    applyRotationAligned rot none start (some pp) o =
      applyRotationAligned rot (some (parentAnchor rot start pp o)) start none o := rfl

theorem aligned_some_pp [Mul G] [SMul G V] [Add V] [Sub V] (rot : PathIn G) (a : PathIn V)
    (start : Option Int) (pp : Option (List V)) (o : Obj G V) :
    applyRotationAligned rot (some a) start pp o = applyRotationAligned rot (some a) start none o := by
  cases pp <;> rfl

theorem parentAnchor_get? (rot : PathIn G) (start : Option Int) (pp : List V) (o : Obj G V)
    (N : Nat) (hN : 1 ≤ N) (hp : pp.length = N) (ho : o.pos.length = N) (k : Nat)
    (hk : k < (window rot.isScalar N rot.lenip start).stop - (window rot.isScalar N rot.lenip start).s0) :
    (parentAnchor rot start pp o).get? k =
      pp[min ((window rot.isScalar N rot.lenip start).s0 + k - (window rot.isScalar N rot.lenip start).b) (N - 1)]? := by
  have hone : o.pos ≠ [] := ne_nil_of_one_le (by omega)
  have hpne : pp ≠ [] := ne_nil_of_one_le (by omega)
  obtain ⟨hb, hs, hs0, hNew, hfit⟩ :=
    pathPaddingParam_spec rot.isScalar N rot.lenip start rot.lenip_of_scalar
  obtain ⟨g1, g2⟩ := second_padding_same rot.isScalar N rot.lenip start rot.lenip_of_scalar
  simp only [parentAnchor, PathIn.get?, ho, hp, length_edgePad _ _ _ hone]
  rw [g1, g2, List.getElem?_take, List.getElem?_drop, getElem?_edgePad _ _ _ hpne, hp, hb, hs]
  have hst := window_stop rot.isScalar N rot.lenip start
  have hstop : (if rot.isScalar = true then
        (window rot.isScalar N rot.lenip start).b + N + (padOf (pathPaddingParam rot.isScalar (↑N) (↑rot.lenip) start).fst).snd
      else (window rot.isScalar N rot.lenip start).s0 + rot.lenip) = (window rot.isScalar N rot.lenip start).stop := by
    rw [hst]; split <;> omega
  rw [hstop, if_pos hk]
  have hle : (window rot.isScalar N rot.lenip start).stop ≤ (window rot.isScalar N rot.lenip start).newLen := by
    rw [hst]; split <;> omega
  rw [if_pos (by omega)]
/-- pose of `d` expressed in the frame of `c` at path index `i` -/
def relAt [Mul G] [Inv G] [SMul G V] [Sub V] (c d : Obj G V) (i : Nat) : Option (V × G) :=
  match c.pos[i]?, c.ori[i]?, d.pos[i]?, d.ori[i]? with
  | some pc, some qc, some pd, some qd => some (qc⁻¹ • (pd - pc), qc⁻¹ * qd)
  | _, _, _, _ => none

theorem getElem?_clamp {α} (xs : List α) (N : Nat) (h : xs.length = N) (hN : 1 ≤ N) (j : Nat) :
    ∃ x, xs[min j (xs.length - 1)]? = some x := by
  have : min j (xs.length - 1) < xs.length := by omega
  exact ⟨xs[min j (xs.length - 1)], List.getElem?_eq_getElem this⟩

section
variable [Group G] [AddCommGroup V] [DistribMulAction G V]

theorem rel_aligned (rot : PathIn G) (ac ad : PathIn V) (start : Option Int) (c d : Obj G V)
    (N : Nat) (hN : 1 ≤ N)
    (hc : c.pos.length = N ∧ c.ori.length = N) (hd : d.pos.length = N ∧ d.ori.length = N)
    (hagree : ∀ k, k < (window rot.isScalar N rot.lenip start).stop -
        (window rot.isScalar N rot.lenip start).s0 →
        ∃ x r, ac.get? k = some x ∧ ad.get? k = some x ∧ rot.get? k = some r) (i : Nat) :
    relAt (applyRotationAligned rot (some ac) start none c)
          (applyRotationAligned rot (some ad) start none d) i =
      if i < (window rot.isScalar N rot.lenip start).newLen then
        relAt c d (min (i - (window rot.isScalar N rot.lenip start).b) (N - 1))
      else none := by
  have hcne : c.pos ≠ [] := ne_nil_of_one_le (by omega)
  have hdne : d.pos ≠ [] := ne_nil_of_one_le (by omega)
  have e1 := applyRotationAligned_at rot (some ac) start c hcne (by omega) i
  have e2 := applyRotationAligned_at rot (some ad) start d hdne (by omega) i
  have e1p := congrArg Prod.fst e1
  have e1o := congrArg Prod.snd e1
  have e2p := congrArg Prod.fst e2
  have e2o := congrArg Prod.snd e2
  simp only [alignedAt, baseAt, hc.1, hc.2, hd.1, hd.2] at e1p e1o e2p e2o
  unfold relAt
  rw [e1p, e1o, e2p, e2o]
  generalize window rot.isScalar N rot.lenip start = w at *
  by_cases hi : i < w.newLen
  · simp only [hi, if_true]
    obtain ⟨pc, hpc⟩ := getElem?_clamp c.pos N hc.1 hN (i - w.b)
    obtain ⟨qc, hqc⟩ := getElem?_clamp c.ori N hc.2 hN (i - w.b)
    obtain ⟨pd, hpd⟩ := getElem?_clamp d.pos N hd.1 hN (i - w.b)
    obtain ⟨qd, hqd⟩ := getElem?_clamp d.ori N hd.2 hN (i - w.b)
    rw [hc.1] at hpc; rw [hc.2] at hqc; rw [hd.1] at hpd; rw [hd.2] at hqd
    simp only [hpc, hqc, hpd, hqd, Option.map_some]
    by_cases hin : w.s0 ≤ i ∧ i < w.stop
    · obtain ⟨x, r, h1, h2, h3⟩ := hagree (i - w.s0) (by omega)
      simp only [hin, and_self, if_true, h1, h2, h3]
      congr 1
      have : (r • (pd - x) + x) - (r • (pc - x) + x) = r • (pd - pc) := by
        rw [smul_sub, smul_sub, smul_sub]; abel
      rw [this, mul_inv_rev, mul_smul, inv_smul_smul]
      congr 1
      group
    · simp only [hin, if_false]
  · simp [hi]
end
section
variable [Group G] [AddCommGroup V] [DistribMulAction G V]

omit [Group G] [AddCommGroup V] [DistribMulAction G V] in
theorem Obj.ext' {a b : Obj G V} (h1 : a.pos = b.pos) (h2 : a.ori = b.ori) : a = b := by
  cases a; cases b; simp_all

/-- a collection rotating with `anchor=None` rotates about its own (padded) position path:
same as rotating about the anchor sliced from its own path -/
theorem aligned_none_self (rot : PathIn G) (start : Option Int) (c : Obj G V)
    (N : Nat) (hN : 1 ≤ N) (hc : c.pos.length = N ∧ c.ori.length = N) :
    applyRotationAligned rot none start none c =
      applyRotationAligned rot (some (parentAnchor rot start c.pos c)) start none c := by
  have hcne : c.pos ≠ [] := ne_nil_of_one_le (by omega)
  apply Obj.ext'
  · apply List.ext_getElem?
    intro i
    have e1 := congrArg Prod.fst (applyRotationAligned_at rot none start c hcne (by omega) i)
    have e2 := congrArg Prod.fst (applyRotationAligned_at rot (some (parentAnchor rot start c.pos c)) start c hcne (by omega) i)
    simp only [alignedAt, baseAt, hc.1] at e1 e2
    rw [e1, e2]
    by_cases hi : i < (window rot.isScalar N rot.lenip start).newLen
    · simp only [hi, if_true]
      obtain ⟨pc, hpc⟩ := getElem?_clamp c.pos N hc.1 hN (i - (window rot.isScalar N rot.lenip start).b)
      rw [hc.1] at hpc
      simp only [hpc, Option.map_some]
      by_cases hin : (window rot.isScalar N rot.lenip start).s0 ≤ i ∧ i < (window rot.isScalar N rot.lenip start).stop
      · simp only [hin, and_self, if_true]
        have hg := parentAnchor_get? rot start c.pos c N hN hc.1 hc.1
          (i - (window rot.isScalar N rot.lenip start).s0) (by omega)
        have : (window rot.isScalar N rot.lenip start).s0 + (i - (window rot.isScalar N rot.lenip start).s0) = i := by omega
        rw [this, hpc] at hg
        rw [hg]
        cases rot.get? (i - (window rot.isScalar N rot.lenip start).s0) with
        | none => rfl
        | some r => simp
      · simp only [hin, if_false]
    · simp [hi]
  · apply List.ext_getElem?
    intro i
    have e1 := congrArg Prod.snd (applyRotationAligned_at rot none start c hcne (by omega) i)
    have e2 := congrArg Prod.snd (applyRotationAligned_at rot (some (parentAnchor rot start c.pos c)) start c hcne (by omega) i)
    simp only [alignedAt] at e1 e2
    rw [e1, e2]
end
theorem bcast_some {α} (p : PathIn α) (h : p.WF) (k : Nat) : ∃ x, bcast p k = some x := by
  cases p with
  | scalar x => exact ⟨x, rfl⟩
  | vector xs =>
    have hx : xs ≠ [] := h
    have : 0 < xs.length := List.length_pos_iff.mpr hx
    have hlt : min k (xs.length - 1) < xs.length := by omega
    exact ⟨xs[min k (xs.length - 1)], by simp only [bcast]; exact List.getElem?_eq_getElem hlt⟩

/-- the window of `rotate(rot, anchor, start)` on a path of length `N` (rotation and anchor
inputs broadcast against each other) -/
def rotWindow (rot : PathIn G) (anchor : Option (PathIn V)) (N : Nat) (start : Option Int) : Window :=
  window (rot.isScalar && (match anchor with | some a => a.isScalar | none => true)) N
    (max rot.len0 (match anchor with | some a => a.len0 | none => 0)) start

section
variable [Group G] [AddCommGroup V] [DistribMulAction G V]

theorem rel_applyRotation (rot : PathIn G) (anchor : Option (PathIn V)) (start : Option Int)
    (c d : Obj G V) (N : Nat) (hN : 1 ≤ N)
    (hc : c.pos.length = N ∧ c.ori.length = N) (hd : d.pos.length = N ∧ d.ori.length = N)
    (hr : rot.WF) (ha : ∀ a, anchor = some a → a.WF) (i : Nat) :
    relAt (applyRotation rot anchor start none c) (applyRotation rot anchor start (some c.pos) d) i =
      if i < (rotWindow rot anchor N start).newLen then
        relAt c d (min (i - (rotWindow rot anchor N start).b) (N - 1))
      else none := by
  cases anchor with
  | none =>
    simp only [applyRotation, rotWindow, Bool.and_true]
    rw [aligned_none_self rot start c N hN hc, aligned_none_pp]
    have hw : window rot.isScalar N rot.lenip start = window rot.isScalar N (max rot.len0 0) start :=
      window_congr _ _ _ _ _ (fun h => by rw [len0_eq_lenip _ h]; simp)
    simp only [← hw]
    apply rel_aligned rot _ _ start c d N hN hc hd
    intro k hk
    have h1 := parentAnchor_get? rot start c.pos c N hN hc.1 hc.1 k hk
    have h2 := parentAnchor_get? rot start c.pos d N hN hc.1 hd.1 k hk
    obtain ⟨x, hx⟩ := getElem?_clamp c.pos N hc.1 hN
      ((window rot.isScalar N rot.lenip start).s0 + k - (window rot.isScalar N rot.lenip start).b)
    rw [hc.1] at hx
    have hrk : ∃ r, rot.get? k = some r := by
      cases hsc : rot.isScalar with
      | true => cases rot with
        | scalar y => exact ⟨y, rfl⟩
        | vector ys => simp [PathIn.isScalar] at hsc
      | false =>
        have := inWin_lt (sc := rot.isScalar) (N := N) (L := rot.lenip) (start := start)
          (i := (window rot.isScalar N rot.lenip start).s0 + k) ⟨by omega, by omega⟩ hsc
        have hk' : k < rot.lenip := by omega
        cases rot with
        | scalar y => simp [PathIn.isScalar] at hsc
        | vector ys =>
          simp only [PathIn.lenip] at hk'
          exact ⟨ys[k], by simp only [PathIn.get?]; exact List.getElem?_eq_getElem hk'⟩
    obtain ⟨r, hr'⟩ := hrk
    exact ⟨x, r, by rw [h1, hx], by rw [h2, hx], hr'⟩
  | some a =>
    obtain ⟨f1, f2, f3⟩ := multiAnchor_facts a rot (ha a rfl) hr
    simp only [applyRotation, rotWindow]
    rw [aligned_some_pp _ _ _ (some c.pos)]
    have hw : window (multiAnchor a rot).2.isScalar N (multiAnchor a rot).2.lenip start
        = window (rot.isScalar && a.isScalar) N (max rot.len0 a.len0) start := by
      rw [f1]
      exact window_congr _ _ _ _ _ f2
    simp only [← hw]
    apply rel_aligned _ _ _ start c d N hN hc hd
    intro k hk
    rw [hw] at hk
    obtain ⟨g1, g2⟩ := f3 k (fun hsc => by
      have := inWin_lt (sc := (rot.isScalar && a.isScalar)) (N := N) (L := max rot.len0 a.len0) (start := start)
        (i := (window (rot.isScalar && a.isScalar) N (max rot.len0 a.len0) start).s0 + k) ⟨by omega, by omega⟩ hsc
      omega)
    obtain ⟨x, hx⟩ := bcast_some a (ha a rfl) k
    obtain ⟨r, hr'⟩ := bcast_some rot hr k
    exact ⟨x, r, by rw [g2, hx], by rw [g2, hx], by rw [g1, hr']⟩
end

/-- objects of the tree in pre-order (the node itself first) -/
def Node.objs : Node G V → List (Obj G V)
  | .mk o cs => o :: (cs.map Node.objs).flatten

theorem Node.move_objs [Add V] (inp : PathIn V) (start : Option Int) :
    ∀ n : Node G V, (n.move inp start).objs = n.objs.map (applyMove inp start) := by
  apply Node.induct
  intro o cs ih
  rw [Node.move, Node.objs, Node.objs, List.map_cons, List.map_flatten, List.map_map, List.map_map]
  congr 2
  apply List.map_congr_left
  intro c hc
  exact ih c hc

theorem Node.rotate_objs_some [Mul G] [SMul G V] [Add V] [Sub V] (rot : PathIn G)
    (anchor : Option (PathIn V)) (start : Option Int) (pp : List V) :
    ∀ n : Node G V, (n.rotate rot anchor start (some pp)).objs =
      n.objs.map (applyRotation rot anchor start (some pp)) := by
  apply Node.induct
  intro o cs ih
  rw [Node.rotate.eq_def]
  simp only
  rw [Node.objs, Node.objs, List.map_cons, List.map_flatten, List.map_map, List.map_map]
  congr 2
  apply List.map_congr_left
  intro c hc
  exact ih c hc

theorem Node.rotate_objs_none [Mul G] [SMul G V] [Add V] [Sub V] (rot : PathIn G)
    (anchor : Option (PathIn V)) (start : Option Int) (o : Obj G V) (cs : List (Node G V)) :
    ((Node.mk o cs).rotate rot anchor start none).objs =
      applyRotation rot anchor start none o ::
        ((cs.map Node.objs).flatten).map (applyRotation rot anchor start (some o.pos)) := by
  rw [Node.rotate.eq_def]
  simp only
  rw [Node.objs, List.map_flatten, List.map_map, List.map_map]
  congr 2
  apply List.map_congr_left
  intro c _
  exact Node.rotate_objs_some rot anchor start o.pos c

section
variable [Group G] [AddCommGroup V] [DistribMulAction G V]

theorem rel_applyMove (inp : PathIn V) (start : Option Int) (c d : Obj G V) (N : Nat) (hN : 1 ≤ N)
    (hc : c.pos.length = N ∧ c.ori.length = N) (hd : d.pos.length = N ∧ d.ori.length = N)
    (i : Nat) :
    relAt (applyMove inp start c) (applyMove inp start d) i =
      if i < (window inp.isScalar N inp.lenip start).newLen then
        relAt c d (min (i - (window inp.isScalar N inp.lenip start).b) (N - 1))
      else none := by
  have hcne : c.pos ≠ [] := ne_nil_of_one_le (by omega)
  have hdne : d.pos ≠ [] := ne_nil_of_one_le (by omega)
  obtain ⟨e1p, e1o⟩ := applyMove_at inp start c hcne (by omega) i
  obtain ⟨e2p, e2o⟩ := applyMove_at inp start d hdne (by omega) i
  simp only [applyAt, baseAt, hc.1, hc.2, hd.1, hd.2] at e1p e1o e2p e2o
  unfold relAt
  rw [e1p, e1o, e2p, e2o]
  generalize window inp.isScalar N inp.lenip start = w at *
  by_cases hlt : i < w.newLen
  · simp only [hlt, if_true]
    obtain ⟨pc, hpc⟩ := getElem?_clamp c.pos N hc.1 hN (i - w.b)
    obtain ⟨qc, hqc⟩ := getElem?_clamp c.ori N hc.2 hN (i - w.b)
    obtain ⟨pd, hpd⟩ := getElem?_clamp d.pos N hd.1 hN (i - w.b)
    obtain ⟨qd, hqd⟩ := getElem?_clamp d.ori N hd.2 hN (i - w.b)
    rw [hc.1] at hpc; rw [hc.2] at hqc; rw [hd.1] at hpd; rw [hd.2] at hqd
    simp only [hpc, hqc, hpd, hqd, Option.map_some]
    by_cases hin : w.s0 ≤ i ∧ i < w.stop
    · simp only [hin, and_self, if_true]
      cases inp.get? (i - w.s0) with
      | none => rfl
      | some x =>
        simp only
        congr 2
        rw [add_sub_add_right_eq_sub]
    · simp only [hin, if_false]
  · simp [hlt]
end

theorem length_applyMove [Add V] (inp : PathIn V) (start : Option Int) (d : Obj G V) (N : Nat)
    (hN : 1 ≤ N) (hd : d.pos.length = N ∧ d.ori.length = N) :
    (applyMove inp start d).pos.length = (window inp.isScalar N inp.lenip start).newLen ∧
    (applyMove inp start d).ori.length = (window inp.isScalar N inp.lenip start).newLen := by
  have hp : d.pos ≠ [] := ne_nil_of_one_le (by omega)
  have hq : d.ori ≠ [] := ne_nil_of_one_le (by omega)
  obtain ⟨hb, hs, hs0, hNew, hfit⟩ :=
    pathPaddingParam_spec inp.isScalar N inp.lenip start inp.lenip_of_scalar
  simp only [applyMove, pathPadding, length_mapSlice, length_edgePad _ _ _ hp,
    length_edgePad _ _ _ hq, hd.1, hd.2]
  omega

theorem length_applyRotationAligned [Mul G] [SMul G V] [Add V] [Sub V] (rot : PathIn G)
    (anchor : Option (PathIn V)) (start : Option Int) (pp : Option (List V)) (d : Obj G V) (N : Nat)
    (hN : 1 ≤ N) (hd : d.pos.length = N ∧ d.ori.length = N) :
    (applyRotationAligned rot anchor start pp d).pos.length = (window rot.isScalar N rot.lenip start).newLen ∧
    (applyRotationAligned rot anchor start pp d).ori.length = (window rot.isScalar N rot.lenip start).newLen := by
  have hp : d.pos ≠ [] := ne_nil_of_one_le (by omega)
  have hq : d.ori ≠ [] := ne_nil_of_one_le (by omega)
  obtain ⟨hb, hs, hs0, hNew, hfit⟩ :=
    pathPaddingParam_spec rot.isScalar N rot.lenip start rot.lenip_of_scalar
  simp only [applyRotationAligned, pathPadding]
  split <;> simp only [length_mapSlice, length_edgePad _ _ _ hp, length_edgePad _ _ _ hq, hd.1, hd.2] <;> omega

theorem length_applyRotation [Mul G] [SMul G V] [Add V] [Sub V] (rot : PathIn G)
    (anchor : Option (PathIn V)) (start : Option Int) (pp : Option (List V)) (d : Obj G V) (N : Nat)
    (hN : 1 ≤ N) (hd : d.pos.length = N ∧ d.ori.length = N)
    (hr : rot.WF) (ha : ∀ a, anchor = some a → a.WF) :
    (applyRotation rot anchor start pp d).pos.length = (rotWindow rot anchor N start).newLen ∧
    (applyRotation rot anchor start pp d).ori.length = (rotWindow rot anchor N start).newLen := by
  cases anchor with
  | none =>
    simp only [applyRotation, rotWindow, Bool.and_true]
    have hw : window rot.isScalar N rot.lenip start = window rot.isScalar N (max rot.len0 0) start :=
      window_congr _ _ _ _ _ (fun h => by rw [len0_eq_lenip _ h]; simp)
    rw [← hw]
    exact length_applyRotationAligned rot none start pp d N hN hd
  | some a =>
    obtain ⟨f1, f2, _⟩ := multiAnchor_facts a rot (ha a rfl) hr
    simp only [applyRotation, rotWindow]
    have hw : window (multiAnchor a rot).2.isScalar N (multiAnchor a rot).2.lenip start
        = window (rot.isScalar && a.isScalar) N (max rot.len0 a.len0) start := by
      rw [f1]
      exact window_congr _ _ _ _ _ f2
    rw [← hw]
    exact length_applyRotationAligned _ _ start pp d N hN hd

theorem window_newLen_pos (sc : Bool) (N L : Nat) (start : Option Int) (hN : 1 ≤ N) :
    1 ≤ (window sc N L start).newLen := by
  simp only [window]; omega

section
variable [Group G] [AddCommGroup V] [DistribMulAction G V]
theorem relAt_self (o : Obj G V) (N : Nat) (ho : o.pos.length = N ∧ o.ori.length = N) (i : Nat) :
    relAt o o i = if i < N then some (0, 1) else none := by
  unfold relAt
  by_cases hi : i < N
  · have h1 : i < o.pos.length := by omega
    have h2 : i < o.ori.length := by omega
    simp [hi, List.getElem?_eq_getElem h1, List.getElem?_eq_getElem h2]
  · have h1 : o.pos[i]? = none := List.getElem?_eq_none (by omega)
    simp [hi, h1]
end
end MagpyVerif
