/-
Lemmas/Iface.lean — facts about the input-formatting model (Model/Iface.lean) used by Props/C07.
-/
import MagpyVerif.Model.Iface
import MagpyVerif.Lemmas.Level2Shape

namespace MagpyVerif.Iface
open MagpyVerif.Level2

variable {G V : Type}

/-! ### collections: depth-first flattening -/

theorem sourcesAll_coll (i : Nat) (cs : List (Obj G V)) :
    (Obj.coll i cs).sourcesAll = cs.flatMap Obj.sourcesAll := by
  simp [Obj.sourcesAll, List.flatMap]

theorem sensorsAll_coll (i : Nat) (cs : List (Obj G V)) :
    (Obj.coll i cs).sensorsAll = cs.flatMap Obj.sensorsAll := by
  simp [Obj.sensorsAll, List.flatMap]

theorem toEntry?_none {o : Obj G V} (h : o.toEntry? = none) : o.sourcesAll = [] := by
  cases o <;> simp [Obj.toEntry?, Obj.sourcesAll] at h ⊢

mutual
/-- the entry handed to the marshalling model has exactly the collection's `sources_all` as leaves, in order -/
theorem toEntry?_leaves : ∀ (o : Obj G V) (e : Entry G V), o.toEntry? = some e →
    e.leaves = o.sourcesAll.map (·.2)
  | .src i s, e, h => by
    simp only [Obj.toEntry?, Option.some.injEq] at h
    subst h
    simp [Entry.leaves, Obj.sourcesAll]
  | .sens i k, e, h => by simp [Obj.toEntry?] at h
  | .coll i cs, e, h => by
    simp only [Obj.toEntry?, Option.some.injEq] at h
    subst h
    have := toEntries_leaves cs
    simp only [Entry.leaves, Obj.sourcesAll]
    simpa [List.flatMap] using this
theorem toEntries_leaves : ∀ (os : List (Obj G V)),
    (Obj.toEntries os).flatMap Entry.leaves = (os.flatMap Obj.sourcesAll).map (·.2)
  | [] => by simp [Obj.toEntries]
  | o :: os => by
    have ih := toEntries_leaves os
    cases h : o.toEntry? with
    | none =>
      simp only [Obj.toEntries, h, List.flatMap_cons, toEntry?_none h, List.nil_append]
      exact ih
    | some e =>
      simp only [Obj.toEntries, h, List.flatMap_cons, List.map_append, ih, toEntry?_leaves o e h]
end

/-! ### `format_src_inputs` -/

/-- the top-level entries `format_src_inputs` iterates over (a bare object is wrapped in a list) -/
def items : Inp G V → List (Inp G V)
  | .list xs => xs
  | x => [x]

/-- acceptable top-level source entries: a source, or a collection holding at least one source at some depth -/
def GoodSrc (x : Inp G V) : Prop :=
  (∃ i s, x = .obj (.src i s)) ∨ (∃ i cs, x = .obj (.coll i cs) ∧ (Obj.coll i cs).sourcesAll ≠ [])

theorem checkSrcEntry_ok_iff (x : Inp G V) (o : Obj G V) :
    checkSrcEntry x = .ok o ↔ GoodSrc x ∧ x = .obj o := by
  cases x with
  | obj o' =>
    cases o' with
    | src i s =>
      constructor
      · intro h
        simp only [checkSrcEntry, Except.ok.injEq] at h
        subst h
        exact ⟨Or.inl ⟨i, s, rfl⟩, rfl⟩
      · rintro ⟨_, h⟩
        injection h with h
        subst h
        rfl
    | sens i k =>
      constructor
      · intro h; simp [checkSrcEntry] at h
      · rintro ⟨hg, _⟩
        rcases hg with ⟨j, s, hj⟩ | ⟨j, cs', hj, _⟩ <;> cases hj
    | coll i cs =>
      by_cases hE : (Obj.coll i cs).sourcesAll = []
      · constructor
        · intro h; simp [checkSrcEntry, hE] at h
        · rintro ⟨hg, h⟩
          rcases hg with ⟨j, s, hj⟩ | ⟨j, cs', hj, hne⟩
          · cases hj
          · cases hj; exact absurd hE hne
      · constructor
        · intro h
          simp only [checkSrcEntry, List.isEmpty_iff, hE, if_false, Except.ok.injEq] at h
          subst h
          exact ⟨Or.inr ⟨i, cs, rfl, hE⟩, rfl⟩
        · rintro ⟨_, h⟩
          injection h with h
          subst h
          simp [checkSrcEntry, hE]
  | pos sh d =>
    constructor
    · intro h; simp [checkSrcEntry] at h
    · rintro ⟨hg, _⟩
      rcases hg with ⟨j, s, hj⟩ | ⟨j, cs', hj, _⟩ <;> cases hj
  | list xs =>
    constructor
    · intro h; simp [checkSrcEntry] at h
    · rintro ⟨hg, _⟩
      rcases hg with ⟨j, s, hj⟩ | ⟨j, cs', hj, _⟩ <;> cases hj
  | junk =>
    constructor
    · intro h; simp [checkSrcEntry] at h
    · rintro ⟨hg, _⟩
      rcases hg with ⟨j, s, hj⟩ | ⟨j, cs', hj, _⟩ <;> cases hj

theorem checkSrcEntry_error (x : Inp G V) (e : ErrKind) (h : checkSrcEntry x = .error e) :
    e = .badUserInput := by
  cases x with
  | obj o' =>
    cases o' with
    | src i s => simp [checkSrcEntry] at h
    | sens i k => simp [checkSrcEntry] at h; exact h.symm
    | coll i cs =>
      by_cases hE : (Obj.coll i cs).sourcesAll = []
      · simp [checkSrcEntry, hE] at h; exact h.symm
      · simp [checkSrcEntry, hE] at h
  | pos sh d => simp [checkSrcEntry] at h; exact h.symm
  | list xs => simp [checkSrcEntry] at h; exact h.symm
  | junk => simp [checkSrcEntry] at h; exact h.symm

theorem checkSrcEntry_cases (x : Inp G V) :
    (∃ o, checkSrcEntry x = .ok o) ∨ checkSrcEntry x = .error .badUserInput := by
  cases h : checkSrcEntry x with
  | ok o => exact Or.inl ⟨o, rfl⟩
  | error e => rw [checkSrcEntry_error x e h]; exact Or.inr rfl

theorem checkSrcEntries_ok_iff (xs : List (Inp G V)) (os : List (Obj G V)) :
    checkSrcEntries xs = .ok os ↔ (∀ x ∈ xs, GoodSrc x) ∧ xs = os.map Inp.obj := by
  induction xs generalizing os with
  | nil =>
    simp only [checkSrcEntries, Except.ok.injEq, List.not_mem_nil, false_imp_iff, implies_true, true_and]
    constructor
    · intro h; subst h; rfl
    · intro h; cases os <;> simp_all
  | cons x xs ih =>
    simp only [checkSrcEntries]
    rcases checkSrcEntry_cases x with ⟨o, ho⟩ | he
    · rw [ho]
      have hx := (checkSrcEntry_ok_iff x o).mp ho
      cases hr : checkSrcEntries xs with
      | error e =>
        simp only [reduceCtorEq, false_iff, not_and]
        intro hg hmap
        cases os with
        | nil => simp at hmap
        | cons o' os' =>
          simp only [List.map_cons, List.cons.injEq] at hmap
          have := (ih os').mpr ⟨fun y hy => hg y (List.mem_cons_of_mem _ hy), hmap.2⟩
          rw [hr] at this; cases this
      | ok os' =>
        have hr' := (ih os').mp hr
        simp only [Except.ok.injEq]
        constructor
        · intro h; subst h
          refine ⟨?_, ?_⟩
          · intro y hy
            rcases List.mem_cons.mp hy with rfl | hy
            · exact hx.1
            · exact hr'.1 y hy
          · simp [hx.2, hr'.2]
        · rintro ⟨hg, hmap⟩
          cases os with
          | nil => simp at hmap
          | cons o'' os'' =>
            simp only [List.map_cons, List.cons.injEq] at hmap
            have h1 : o = o'' := by
              have := hx.2; rw [hmap.1] at this; injection this with h; exact h.symm
            have h2 := (ih os'').mpr ⟨fun y hy => hg y (List.mem_cons_of_mem _ hy), hmap.2⟩
            rw [hr] at h2; injection h2 with h2
            rw [h1, h2]
    · rw [he]
      simp only [reduceCtorEq, false_iff, not_and]
      intro hg hmap
      cases os with
      | nil => simp at hmap
      | cons o' os' =>
        simp only [List.map_cons, List.cons.injEq] at hmap
        have := (checkSrcEntry_ok_iff x o').mpr ⟨hg x (by simp), hmap.1⟩
        rw [he] at this; cases this

theorem checkSrcEntries_error (xs : List (Inp G V)) (e : ErrKind) (h : checkSrcEntries xs = .error e) :
    e = .badUserInput := by
  induction xs with
  | nil => simp [checkSrcEntries] at h
  | cons x xs ih =>
    simp only [checkSrcEntries] at h
    rcases checkSrcEntry_cases x with ⟨o, ho⟩ | he
    · rw [ho] at h
      cases hr : checkSrcEntries xs with
      | error e' => rw [hr] at h; simp at h; subst h; exact ih hr
      | ok os => rw [hr] at h; simp at h
    · rw [he] at h; simp at h; exact h.symm

theorem formatSrc_eq (inp : Inp G V) :
    formatSrc inp =
      if (items inp).isEmpty then .error .badUserInput else
      match checkSrcEntries (items inp) with
      | .error e => .error e
      | .ok os => .ok { sources := os, srcList := os.flatMap Obj.sourcesAll } := by
  cases inp <;> rfl

/-- `format_src_inputs` only ever fails with MagpylibBadUserInput -/
theorem formatSrc_error (inp : Inp G V) (e : ErrKind) (h : formatSrc inp = .error e) : e = .badUserInput := by
  rw [formatSrc_eq] at h
  split at h
  · simp at h; exact h.symm
  · cases hr : checkSrcEntries (items inp) with
    | error e' => rw [hr] at h; simp at h; subst h; exact checkSrcEntries_error _ _ hr
    | ok os => rw [hr] at h; simp at h

theorem formatSrc_ok_iff (inp : Inp G V) (sf : SrcFmt G V) :
    formatSrc inp = .ok sf ↔
      items inp ≠ [] ∧ (∀ x ∈ items inp, GoodSrc x) ∧ items inp = sf.sources.map Inp.obj ∧
        sf.srcList = sf.sources.flatMap Obj.sourcesAll := by
  rw [formatSrc_eq]
  by_cases hne : items inp = []
  · simp [hne]
  · simp only [List.isEmpty_iff, hne, if_false, ne_eq, not_false_eq_true, true_and]
    cases hr : checkSrcEntries (items inp) with
    | error e =>
      simp only [reduceCtorEq, false_iff, not_and]
      intro hg hmap
      have := (checkSrcEntries_ok_iff (items inp) sf.sources).mpr ⟨hg, hmap⟩
      rw [hr] at this; cases this
    | ok os =>
      have hr' := (checkSrcEntries_ok_iff (items inp) os).mp hr
      simp only [Except.ok.injEq]
      constructor
      · intro h; subst h; exact ⟨hr'.1, hr'.2, rfl⟩
      · rintro ⟨hg, hmap, hl⟩
        have := (checkSrcEntries_ok_iff (items inp) sf.sources).mpr ⟨hg, hmap⟩
        rw [hr] at this; injection this with this
        cases sf; simp_all

/-- objects accepted by `format_src_inputs` all become entries -/
theorem toEntries_length_of_good (os : List (Obj G V)) (h : ∀ o ∈ os, GoodSrc (Inp.obj o)) :
    (Obj.toEntries os).length = os.length := by
  induction os with
  | nil => simp [Obj.toEntries]
  | cons o os ih =>
    have ho := h o (by simp)
    have ih' := ih (fun o' ho' => h o' (List.mem_cons_of_mem _ ho'))
    rcases ho with ⟨i, s, hs⟩ | ⟨i, cs, hc, _⟩
    · injection hs with hs; subst hs; simp [Obj.toEntries, Obj.toEntry?, ih']
    · injection hc with hc; subst hc; simp [Obj.toEntries, Obj.toEntry?, ih']

/-! ### `check_duplicates` and `set(src_list + sensors)` -/
section dedup
variable {α : Type} [DecidableEq α]

def dedupStep (acc : List α) (x : α) : List α := if x ∈ acc then acc else acc ++ [x]

theorem checkDuplicates_fst (xs : List α) : (checkDuplicates xs).1 = xs.foldl dedupStep [] := rfl

theorem foldl_dedupStep (xs acc : List α) (hacc : acc.Nodup) :
    (xs.foldl dedupStep acc).Nodup ∧ (∀ x, x ∈ xs.foldl dedupStep acc ↔ x ∈ acc ∨ x ∈ xs) ∧
      ∃ t, xs.foldl dedupStep acc = acc ++ t ∧ t.Sublist xs := by
  induction xs generalizing acc with
  | nil => exact ⟨hacc, by simp, [], by simp⟩
  | cons y ys ih =>
    simp only [List.foldl_cons]
    by_cases hy : y ∈ acc
    · have hs : dedupStep acc y = acc := by simp [dedupStep, hy]
      rw [hs]
      obtain ⟨h1, h2, t, h3, h4⟩ := ih acc hacc
      refine ⟨h1, ?_, t, h3, h4.cons _⟩
      intro x; rw [h2 x]; simp only [List.mem_cons]
      constructor
      · rintro (h | h); exact Or.inl h; exact Or.inr (Or.inr h)
      · rintro (h | rfl | h); exact Or.inl h; exact Or.inl hy; exact Or.inr h
    · have hs : dedupStep acc y = acc ++ [y] := by simp [dedupStep, hy]
      rw [hs]
      have hn : (acc ++ [y]).Nodup := by
        rw [List.nodup_append]
        refine ⟨hacc, by simp, ?_⟩
        intro a ha b hb
        simp only [List.mem_singleton] at hb
        subst hb
        intro hab; subst hab; exact hy ha
      obtain ⟨h1, h2, t, h3, h4⟩ := ih (acc ++ [y]) hn
      refine ⟨h1, ?_, y :: t, by rw [h3]; simp, h4.cons_cons _⟩
      intro x; rw [h2 x]; simp only [List.mem_append, List.mem_cons, List.not_mem_nil, or_false]
      constructor
      · rintro ((h | h) | h); exact Or.inl h; exact Or.inr (Or.inl h); exact Or.inr (Or.inr h)
      · rintro (h | h | h); exact Or.inl (Or.inl h); exact Or.inl (Or.inr h); exact Or.inr h

theorem foldl_dedupStep_of_nodup (xs acc : List α) (hx : xs.Nodup) (hd : ∀ x ∈ xs, x ∉ acc) :
    xs.foldl dedupStep acc = acc ++ xs := by
  induction xs generalizing acc with
  | nil => simp
  | cons y ys ih =>
    have hy : y ∉ acc := hd y (by simp)
    have hs : dedupStep acc y = acc ++ [y] := by simp [dedupStep, hy]
    rw [List.nodup_cons] at hx
    simp only [List.foldl_cons, hs]
    rw [ih (acc ++ [y]) hx.2]
    · simp
    · intro x hxm
      simp only [List.mem_append, List.mem_singleton, not_or]
      refine ⟨hd x (List.mem_cons_of_mem _ hxm), ?_⟩
      rintro rfl; exact hx.1 hxm
end dedup

/-! ### longest path: only the set of objects matters -/

theorem le_foldl_max (l : List Nat) (a : Nat) : a ≤ l.foldl max a ∧ ∀ x ∈ l, x ≤ l.foldl max a := by
  induction l generalizing a with
  | nil => simp
  | cons y ys ih =>
    simp only [List.foldl_cons]
    obtain ⟨h1, h2⟩ := ih (max a y)
    refine ⟨by omega, ?_⟩
    intro x hx
    rcases List.mem_cons.mp hx with rfl | hx
    · omega
    · exact h2 x hx

theorem foldl_max_mem (l : List Nat) (a : Nat) : l.foldl max a = a ∨ l.foldl max a ∈ l := by
  induction l generalizing a with
  | nil => simp
  | cons y ys ih =>
    simp only [List.foldl_cons]
    rcases ih (max a y) with h | h
    · rw [h]
      rcases Nat.le_total a y with hay | hay
      · right; rw [Nat.max_eq_right hay]; simp
      · left; exact Nat.max_eq_left hay
    · right; exact List.mem_cons_of_mem _ h

theorem foldl_max_congr (l1 l2 : List Nat) (h : ∀ x, x ∈ l1 ↔ x ∈ l2) : l1.foldl max 0 = l2.foldl max 0 := by
  apply Nat.le_antisymm
  · rcases foldl_max_mem l1 0 with h0 | hm
    · rw [h0]; exact Nat.zero_le _
    · exact (le_foldl_max l2 0).2 _ ((h _).mp hm)
  · rcases foldl_max_mem l2 0 with h0 | hm
    · rw [h0]; exact Nat.zero_le _
    · exact (le_foldl_max l1 0).2 _ ((h _).mpr hm)

/-! ### observers -/
section obs
variable [One G] [Zero V]

omit [One G] [Zero V] in
theorem asArrays_obj_none (o : Obj G V) (xs : List (Inp G V)) : Inp.asArrays (Inp.obj o :: xs) = none := by
  simp [Inp.asArrays, Inp.asArray]

omit [One G] [Zero V] in
theorem asArray_list_obj_none (o : Obj G V) (xs : List (Inp G V)) :
    (Inp.list (Inp.obj o :: xs)).asArray = none := by
  simp [Inp.asArray, asArrays_obj_none]

/-- the loop over a list of Sensor objects returns them in order -/
theorem obsLoop_sensors (ks : List (Nat × Sens G V)) (n : Nat) :
    obsLoop n (ks.map fun p => Inp.obj (.sens p.1 p.2)) = .ok (ks.map fun p => (OId.user p.1, p.2)) := by
  induction ks generalizing n with
  | nil => simp [obsLoop]
  | cons k ks ih => simp [obsLoop, obsEntry, ih]

/-- a Collection given as observers stands for the list of its `sensors_all` -/
theorem formatObs_coll (i : Nat) (cs : List (Obj G V)) (agg : Agg)
    (hne : (Obj.coll i cs).sensorsAll ≠ []) :
    formatObs (.obj (.coll i cs)) agg =
      formatObs (.list ((Obj.coll i cs).sensorsAll.map fun p => Inp.obj (.sens p.1 p.2))) agg := by
  obtain ⟨k, ks, hks⟩ := List.exists_cons_of_ne_nil hne
  have hl : obsLoop 0 [Inp.obj (Obj.coll i cs)] =
      .ok ((Obj.coll i cs).sensorsAll.map fun p => (OId.user p.1, p.2)) := by
    simp [obsLoop, obsEntry, hne]
  have hr := obsLoop_sensors (Obj.coll i cs).sensorsAll 0
  simp only [formatObs]
  rw [asArray_list_obj_none, hl]
  rw [hks] at hr ⊢
  simp only [List.map_cons] at hr ⊢
  rw [asArray_list_obj_none, hr]
  simp

/-- a bare Sensor as observers: the sensor itself -/
theorem formatObs_sensor (i : Nat) (k : Sens G V) (agg : Agg) :
    formatObs (.obj (.sens i k)) agg = .ok [(.user i, k)] := by
  simp [formatObs, asArray_list_obj_none, obsLoop, obsEntry, allSame]

/-- a bare position array as observers: one fresh Sensor holding it as pixel -/
theorem formatObs_pos (sh : List Nat) (d : List V) (agg : Agg) (hd : d ≠ []) :
    formatObs (.pos sh d : Inp G V) agg = .ok [(.fresh 0, freshSensor sh d)] := by
  simp [formatObs, sensorOfArray, hd]

end obs

/-! ### the whole call on accepted input -/
section call
variable [Mul G] [Inv G] [One G] [SMul G V] [Add V] [Sub V] [Zero V] [BEq G]

/-- accepted input: the result of the top-level call is the marshalling model's on the formatted lists; an unknown
output type is only noticed then -/
theorem getBtop_ok (flipX : V → V) (vmin vmax : V → V → V) (s o : Inp G V) (f : Flags) (sf : SrcFmt G V) (a : Agg)
    (ks : List (OId × Sens G V)) (h1 : formatSrc s = .ok sf) (h2 : f.agg = .agg a) (h3 : formatObs o a = .ok ks)
    (h4 : ¬ BadInput sf.entries (ks.map (·.2)) a) :
    getBtop flipX vmin vmax s o f =
      if f.outOk then
        .ok { shape := if f.squeeze then (shape0 sf.entries (ks.map (·.2)) f.sumup a).filter (· ≠ 1)
                       else if a = .none then shape0 sf.entries (ks.map (·.2)) f.sumup a
                       else shape0 sf.entries (ks.map (·.2)) f.sumup a ++ [1]
              data := flat4 (coreB flipX vmin vmax sf.entries (ks.map (·.2)) f.sumup a) }
      else .error .valueError := by
  unfold getBtop
  rw [h1]
  simp only [h2, checkPixelAgg]
  rw [h3]
  simp only []
  rw [getBH_ok flipX vmin vmax _ _ _ _ _ h4]
  simp only [liftErr]
end call

/-! ### a small world for the non-vacuity examples of Props/C07 -/
namespace Example
open MagpyVerif.Level2.Example
abbrev R := M3 Int
abbrev W := V3 Int
def s0 : Src R W := { pos := [⟨1, 0, 0⟩], ori := [1], F := fun x => x }
def s1 : Src R W := { pos := [⟨0, 1, 0⟩, ⟨0, 2, 0⟩], ori := [1, 1], F := fun x => x + x }
def k0 : Sens R W := { pos := [⟨5, 0, 0⟩], ori := [1], pixels := [⟨0, 0, 0⟩, ⟨1, 0, 0⟩], pixShape := [2], left := true }
def k1 : Sens R W := { pos := [⟨0, 5, 0⟩], ori := [1], pixels := [⟨0, 0, 0⟩, ⟨0, 0, 1⟩], pixShape := [2], left := false }
/-- sources only / sensors only (nested) / both / empty -/
def cS : Obj R W := .coll 10 [.src 0 s0, .coll 11 [.src 1 s1]]
def cK : Obj R W := .coll 12 [.sens 2 k0, .coll 13 [.sens 3 k1]]
def cB : Obj R W := .coll 14 [.src 0 s0, .sens 2 k0]
def cE : Obj R W := .coll 15 [.coll 16 []]
def errOf {α : Type} : Except ErrKind α → Option ErrKind
  | .error e => some e
  | .ok _ => none
def flags : Flags := { sumup := false, squeeze := false, agg := .agg .none, outOk := true }
end Example
end MagpyVerif.Iface
