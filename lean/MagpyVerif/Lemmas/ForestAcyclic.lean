/- acyclicity of the collection forest (C11): rank argument, completeness of the fuel-bounded ancestor walk -/
import Mathlib.Data.Finset.Card
import Mathlib.Data.Finset.Range
import Mathlib.Data.List.Nodup
import Mathlib.Tactic
import MagpyVerif.Lemmas.Forest
namespace MagpyVerif
namespace Forest

/-- `b` is `a` itself or one of its ancestors -/
inductive Reach (s : Forest) : Nat → Nat → Prop
  | refl (a : Nat) : Reach s a a
  | step {a p b : Nat} : s.parent a = some p → Reach s p b → Reach s a b

/-- no collection contains itself directly or indirectly: parent links strictly decrease a rank -/
def Acyclic (s : Forest) : Prop := ∃ rank : Nat → Nat, ∀ o c, s.parent o = some c → rank c < rank o

theorem acyclic_of_sub (s t : Forest) (h : ∀ o c, t.parent o = some c → s.parent o = some c)
    (ha : s.Acyclic) : t.Acyclic := by
  obtain ⟨r, hr⟩ := ha
  exact ⟨r, fun o c hoc => hr o c (h o c hoc)⟩

theorem detach_parent_sub (s : Forest) (x o c : Nat) (h : (s.detach x).parent o = some c) :
    s.parent o = some c := by
  unfold detach at h
  cases hp : s.parent x with
  | none => simpa [hp] using h
  | some p =>
    simp only [hp, sync] at h
    by_cases ho : o = x
    · subst ho; simp at h
    · rwa [upd_other _ _ _ _ ho] at h

theorem detach_acyclic (s : Forest) (x : Nat) (h : s.Acyclic) : (s.detach x).Acyclic :=
  acyclic_of_sub s _ (detach_parent_sub s x) h

theorem attach_parent (s : Forest) (x c o : Nat) :
    (s.attach x c).parent o = if o = x then some c else s.parent o := by
  simp [attach, sync, upd]

theorem reach_ne_step {s : Forest} {o x p : Nat} (hne : o ≠ x) (hp : s.parent o = some p) :
    Reach s o x ↔ Reach s p x := by
  constructor
  · intro h
    cases h with
    | refl => exact absurd rfl hne
    | step hp' hr => rw [hp] at hp'; cases hp'; exact hr
  · intro h; exact Reach.step hp h

/-- attaching a root `x` below `c` keeps the forest acyclic provided `x` is not `c` or an ancestor of `c` -/
theorem attach_acyclic (s : Forest) (x c : Nat) (h : s.Acyclic) (hx : s.parent x = none)
    (hnr : ¬ Reach s c x) : (s.attach x c).Acyclic := by
  classical
  obtain ⟨r, hr⟩ := h
  refine ⟨fun o => if Reach s o x then r o + r c + 1 else r o, ?_⟩
  intro o p hop
  rw [attach_parent] at hop
  by_cases ho : o = x
  · subst ho
    simp only [if_true] at hop
    cases hop
    simp only [Reach.refl, if_true, hnr, if_false]
    omega
  · simp only [ho, if_false] at hop
    have hiff := reach_ne_step ho hop
    have hlt := hr o p hop
    by_cases hro : Reach s o x
    · have hrp := hiff.mp hro
      simp only [hro, hrp, if_true]; omega
    · have hrp : ¬ Reach s p x := fun h' => hro (hiff.mpr h')
      simp only [hro, hrp, if_false]; exact hlt


/-! #### the fuel-bounded ancestor walk is complete in an acyclic, in-scope forest -/

theorem reach_mem_ancestors (s : Forest) :
    ∀ (k c x : Nat), Reach s c x → (s.ancestors k c).length < k → x = c ∨ x ∈ s.ancestors k c := by
  intro k
  induction k with
  | zero => intro c x _ h; simp [ancestors] at h
  | succ k ih =>
    intro c x hr hlen
    cases hr with
    | refl => exact Or.inl rfl
    | step hp hr' =>
      rename_i p
      simp only [ancestors, hp] at hlen ⊢
      simp only [List.length_cons] at hlen
      rcases ih p x hr' (by omega) with h | h
      · exact Or.inr (by simp [h])
      · exact Or.inr (by simp [h])

theorem ancestors_rank (s : Forest) (r : Nat → Nat) (hr : ∀ o c, s.parent o = some c → r c < r o) :
    ∀ (k c : Nat), ∀ a ∈ s.ancestors k c, r a < r c := by
  intro k
  induction k with
  | zero => intro c a ha; simp [ancestors] at ha
  | succ k ih =>
    intro c a ha
    simp only [ancestors] at ha
    cases hp : s.parent c with
    | none => simp [hp] at ha
    | some p =>
      simp only [hp, List.mem_cons] at ha
      have hpc := hr c p hp
      rcases ha with rfl | ha
      · exact hpc
      · exact lt_trans (ih p a ha) hpc

theorem ancestors_nodup (s : Forest) (r : Nat → Nat) (hr : ∀ o c, s.parent o = some c → r c < r o) :
    ∀ (k c : Nat), (c :: s.ancestors k c).Nodup := by
  intro k
  induction k with
  | zero => intro c; simp [ancestors]
  | succ k ih =>
    intro c
    cases hp : s.parent c with
    | none => simp [ancestors, hp]
    | some p =>
      simp only [ancestors, hp]
      rw [List.nodup_cons]
      refine ⟨?_, ih p⟩
      intro hmem
      have hlt : ∀ a ∈ p :: s.ancestors k p, r a < r c := by
        intro a ha
        rcases List.mem_cons.mp ha with rfl | ha
        · exact hr c _ hp
        · exact lt_trans (ancestors_rank s r hr k _ a ha) (hr c p hp)
      exact absurd (hlt c hmem) (lt_irrefl _)

theorem ancestors_lt (s : Forest) (hs : ∀ o c, s.parent o = some c → c < s.n ∧ o < s.n) :
    ∀ (k c : Nat), ∀ a ∈ s.ancestors k c, a < s.n := by
  intro k
  induction k with
  | zero => intro c a ha; simp [ancestors] at ha
  | succ k ih =>
    intro c a ha
    simp only [ancestors] at ha
    cases hp : s.parent c with
    | none => simp [hp] at ha
    | some p =>
      simp only [hp, List.mem_cons] at ha
      rcases ha with rfl | ha
      · exact (hs c _ hp).1
      · exact ih p a ha

theorem nodup_bounded_length (l : List Nat) (n : Nat) (hnd : l.Nodup) (hlt : ∀ a ∈ l, a < n) : l.length ≤ n := by
  have h1 : l.toFinset.card = l.length := List.toFinset_card_of_nodup hnd
  have h2 : l.toFinset ⊆ Finset.range n := by
    intro a ha
    simp only [List.mem_toFinset] at ha
    exact Finset.mem_range.mpr (hlt a ha)
  have h3 := Finset.card_le_card h2
  rw [Finset.card_range] at h3
  omega

/-- with `fuel = s.n` the ancestor walk from an existing object always terminates early -/
theorem ancestors_complete (s : Forest) (hi : s.Inv) (ha : s.Acyclic) (c : Nat) (hc : c < s.n) :
    (s.ancestors s.n c).length < s.n := by
  obtain ⟨r, hr⟩ := ha
  have hnd := ancestors_nodup s r hr s.n c
  have hlt : ∀ a ∈ c :: s.ancestors s.n c, a < s.n := by
    intro a ha
    rcases List.mem_cons.mp ha with rfl | ha
    · exact hc
    · exact ancestors_lt s hi.inScope s.n c a ha
  have := nodup_bounded_length _ s.n hnd hlt
  simp only [List.length_cons] at this
  omega

/-- soundness of the self-reference check of `add` -/
theorem not_reach_of_check (s : Forest) (hi : s.Inv) (ha : s.Acyclic) (c x : Nat) (hc : c < s.n)
    (hck : s.kind c = .coll) (hcheck : ¬ (s.kind x = .coll ∧ (x = c ∨ x ∈ s.ancestors s.n c))) :
    ¬ Reach s c x := by
  intro hreach
  have hcomp := ancestors_complete s hi ha c hc
  rcases reach_mem_ancestors s s.n c x hreach hcomp with h | h
  · subst h; exact hcheck ⟨hck, Or.inl rfl⟩
  · by_cases hk : s.kind x = .coll
    · exact hcheck ⟨hk, Or.inr h⟩
    · -- a proper ancestor has a child, so it is a collection
      have hch := hi.only_colls x hk
      -- x ∈ ancestors means some object has parent x
      have : ∃ o, s.parent o = some x := by
        clear hcomp hcheck hreach hc hck
        generalize s.n = k at h
        induction k generalizing c with
        | zero => simp [ancestors] at h
        | succ k ih =>
          simp only [ancestors] at h
          cases hp : s.parent c with
          | none => simp [hp] at h
          | some p =>
            simp only [hp, List.mem_cons] at h
            rcases h with rfl | h
            · exact ⟨c, hp⟩
            · exact ih p h
      obtain ⟨o, ho⟩ := this
      have := (hi.parent_iff o x).mp ho
      rw [hch] at this
      simp at this

theorem ancestors_congr (s t : Forest) (x : Nat) (hpar : ∀ o, o ≠ x → t.parent o = s.parent o) :
    ∀ (k c : Nat), x ∉ c :: s.ancestors k c → t.ancestors k c = s.ancestors k c := by
  intro k
  induction k with
  | zero => intro c _; rfl
  | succ k ih =>
    intro c hx
    have hcx : c ≠ x := fun h => hx (by simp [h])
    simp only [ancestors, hpar c hcx]
    cases hp : s.parent c with
    | none => rfl
    | some p =>
      simp only
      rw [ih p]
      intro hmem
      apply hx
      simp only [ancestors, hp, List.mem_cons] at hmem ⊢
      rcases hmem with h | h
      · exact Or.inr (Or.inl h)
      · exact Or.inr (Or.inr h)

theorem detach_parent_other (s : Forest) (x o : Nat) (h : o ≠ x) : (s.detach x).parent o = s.parent o := by
  unfold detach
  cases hp : s.parent x with
  | none => rfl
  | some p => simp [sync, upd_other _ _ _ _ h]

theorem reparent_parent_other (s : Forest) (x c o : Nat) (h : o ≠ x) :
    ((s.detach x).attach x c).parent o = s.parent o := by
  rw [attach_parent]; simp [h, detach_parent_other s x o h]

theorem ancestors_are_colls (s : Forest) (hi : s.Inv) : ∀ (k c a : Nat), a ∈ s.ancestors k c → s.kind a = .coll := by
  intro k
  induction k with
  | zero => intro c a h; simp [ancestors] at h
  | succ k ih =>
    intro c a h
    simp only [ancestors] at h
    cases hp : s.parent c with
    | none => simp [hp] at h
    | some p =>
      simp only [hp, List.mem_cons] at h
      rcases h with rfl | h
      · by_contra hk
        have := (hi.parent_iff c a).mp hp
        rw [hi.only_colls a hk] at this
        simp at this
      · exact ih p a h

theorem reparent_acyclic (s : Forest) (x c : Nat) (hi : s.Inv) (ha : s.Acyclic) (hc : c < s.n)
    (hck : s.kind c = .coll) (hx : x ∉ c :: s.ancestors s.n c) :
    ((s.detach x).attach x c).Acyclic ∧
    ((s.detach x).attach x c).ancestors s.n c = s.ancestors s.n c := by
  have hi1 := detach_inv s x hi
  have ha1 := detach_acyclic s x ha
  have hn1 := (detach_kind s x).2
  have hk1 := (detach_kind s x).1
  have hanc1 : (s.detach x).ancestors s.n c = s.ancestors s.n c :=
    ancestors_congr s _ x (detach_parent_other s x) s.n c hx
  constructor
  · apply attach_acyclic _ _ _ ha1 (detach_parent s x)
    apply not_reach_of_check _ hi1 ha1 c x (by rw [hn1]; exact hc) (by rw [hk1]; exact hck)
    rintro ⟨_, h⟩
    apply hx
    rw [hn1, hanc1] at h
    rcases h with h | h
    · simp [h]
    · simp [h]
  · exact ancestors_congr s _ x (reparent_parent_other s x c) s.n c hx

theorem fold_reparent_acyclic (c : Nat) (objs : List Nat) :
    ∀ s : Forest, s.Inv → s.Acyclic → s.kind c = .coll → c < s.n →
      (∀ o ∈ objs, o < s.n ∧ o ∉ c :: s.ancestors s.n c) →
      (objs.foldl (fun s o => (s.detach o).attach o c) s).Acyclic := by
  induction objs with
  | nil => intro s _ ha _ _ _; exact ha
  | cons o rest ih =>
    intro s hi ha hck hc hall
    simp only [List.foldl_cons]
    have ho := hall o (by simp)
    obtain ⟨hacyc, hanc⟩ := reparent_acyclic s o c hi ha hc hck ho.2
    have hk : ((s.detach o).attach o c).kind = s.kind := by rw [(attach_kind _ _ _).1, (detach_kind _ _).1]
    have hn : ((s.detach o).attach o c).n = s.n := by rw [(attach_kind _ _ _).2, (detach_kind _ _).2]
    apply ih _ (reparent_inv s o c hi hck hc ho.1) hacyc (by rw [hk]; exact hck) (by rw [hn]; exact hc)
    intro o' ho'
    rw [hn, hanc]
    exact hall o' (by simp [ho'])

theorem add_acyclic (s : Forest) (c : Nat) (objs : List Nat) (ov : Bool) (hi : s.Inv) (ha : s.Acyclic) :
    (s.add c objs ov).1.Acyclic := by
  unfold add
  split
  · rename_i hok
    simp only [addOk, Bool.and_eq_true, decide_eq_true_eq, List.all_eq_true, Bool.not_eq_true', Bool.and_eq_false_iff,
      Bool.or_eq_true, List.contains_iff_mem] at hok
    obtain ⟨⟨⟨⟨⟨hck, hlt⟩, hc⟩, hcyc⟩, _⟩, _⟩ := hok
    apply fold_reparent_acyclic c objs s hi ha hck hc
    intro o ho
    refine ⟨hlt o ho, ?_⟩
    intro hmem
    have hcy := hcyc o ho
    by_cases hk : s.kind o = .coll
    · rcases hcy with h | h
      · simp [hk] at h
      · rcases List.mem_cons.mp hmem with h' | h'
        · simp [h'] at h
        · simp only [Bool.or_eq_false_iff, decide_eq_false_iff_not] at h
          have := h.2
          rw [List.contains_eq_mem] at this
          simp [h'] at this
    · rcases List.mem_cons.mp hmem with h' | h'
      · subst h'; exact hk hck
      · exact hk (ancestors_are_colls s hi _ _ _ h')
  · exact ha

theorem remove_acyclic (c : Nat) (r e : Bool) (objs : List Nat) :
    ∀ s : Forest, s.Acyclic → (s.remove c r e objs).1.Acyclic := by
  induction objs with
  | nil => intro s h; exact h
  | cons x rest ih =>
    intro s h
    simp only [remove]
    split
    · exact ih _ (detach_acyclic s x h)
    · split
      · exact h
      · exact ih s h

theorem fold_detach_acyclic (xs : List Nat) :
    ∀ s : Forest, s.Acyclic → (xs.foldl (fun s o => s.detach o) s).Acyclic := by
  induction xs with
  | nil => intro s h; exact h
  | cons x rest ih => intro s h; exact ih _ (detach_acyclic s x h)

/-- the state with one more (empty, parentless) collection, as `a + b` creates it before `add` -/
def fresh (s : Forest) : Forest :=
  { n := s.n + 1, kind := upd s.kind s.n .coll, parent := upd s.parent s.n none,
    children := upd s.children s.n [], srcs := upd s.srcs s.n [], sens := upd s.sens s.n [],
    colls := upd s.colls s.n [] }

theorem plus_eq (s : Forest) (a b : Nat) :
    s.plus a b = (if (s.fresh.add s.n [a, b] false).2 then s.fresh.add s.n [a, b] false else (s, false)) := rfl

theorem fresh_acyclic (s : Forest) (ha : s.Acyclic) : s.fresh.Acyclic := by
  obtain ⟨r, hr⟩ := ha
  refine ⟨r, ?_⟩
  intro o c hoc
  simp only [fresh] at hoc
  by_cases ho : o = s.n
  · subst ho; simp at hoc
  · rw [upd_other _ _ _ _ ho] at hoc; exact hr o c hoc

theorem fresh_inv (s : Forest) (hi : s.Inv) : s.fresh.Inv := by
  refine ⟨?_, ?_, ?_, ?_, ?_⟩
  · intro o c
    simp only [fresh]
    by_cases hc : c = s.n
    · subst hc
      simp only [upd_same, List.not_mem_nil, iff_false]
      by_cases ho : o = s.n
      · subst ho; simp
      · rw [upd_other _ _ _ _ ho]
        intro hh
        exact Nat.lt_irrefl _ (hi.inScope o _ hh).1
    · rw [upd_other _ _ _ _ hc]
      by_cases ho : o = s.n
      · subst ho
        simp only [upd_same]
        constructor
        · intro hh; cases hh
        · intro hm
          exact absurd (hi.inScope _ _ ((hi.parent_iff _ _).mpr hm)).2 (Nat.lt_irrefl _)
      · rw [upd_other _ _ _ _ ho]; exact hi.parent_iff o c
  · intro c
    simp only [fresh]
    by_cases hc : c = s.n
    · subst hc; simp
    · rw [upd_other _ _ _ _ hc]; exact hi.nodup c
  · intro c
    by_cases hc : c = s.n
    · subst hc; simp [fresh]
    · have hv := hi.views c
      have e1 : s.fresh.srcs c = s.srcs c := by simp [fresh, upd_other _ _ _ _ hc]
      have e2 : s.fresh.sens c = s.sens c := by simp [fresh, upd_other _ _ _ _ hc]
      have e3 : s.fresh.colls c = s.colls c := by simp [fresh, upd_other _ _ _ _ hc]
      have e4 : s.fresh.children c = s.children c := by simp [fresh, upd_other _ _ _ _ hc]
      have hk : ∀ o ∈ s.children c, s.fresh.kind o = s.kind o := by
        intro o ho
        have : o ≠ s.n := fun e => by
          subst e; exact absurd (hi.inScope _ _ ((hi.parent_iff _ _).mpr ho)).2 (Nat.lt_irrefl _)
        simp [fresh, upd_other _ _ _ _ this]
      rw [e1, e2, e3, e4, hv.1, hv.2.1, hv.2.2]
      refine ⟨?_, ?_, ?_⟩ <;> (apply List.filter_congr; intro o ho; rw [hk o ho])
  · intro c hk
    simp only [fresh] at hk ⊢
    by_cases hc : c = s.n
    · subst hc; simp
    · rw [upd_other _ _ _ _ hc] at hk ⊢; exact hi.only_colls c hk
  · intro o c hh
    simp only [fresh] at hh ⊢
    by_cases ho : o = s.n
    · subst ho; simp at hh
    · rw [upd_other _ _ _ _ ho] at hh
      have := hi.inScope o c hh
      omega

theorem plus_acyclic (s : Forest) (a b : Nat) (hi : s.Inv) (ha : s.Acyclic) : (s.plus a b).1.Acyclic := by
  rw [plus_eq]
  split
  · exact add_acyclic s.fresh s.n [a, b] false (fresh_inv s hi) (fresh_acyclic s ha)
  · exact ha

theorem unlinked_acyclic (s : Forest) (c : Nat) (removed : List Nat) (ha : s.Acyclic) :
    (s.unlinked c removed).Acyclic := by
  refine acyclic_of_sub s _ ?_ ha
  intro o d h
  rw [unlinked_parent] at h
  split at h
  · cases h
  · exact h

theorem replaceChildren_acyclic (s : Forest) (c : Nat) (removed new : List Nat) (hi : s.Inv) (ha : s.Acyclic)
    (hsub : ∀ x ∈ removed, x ∈ s.children c) : (s.replaceChildren c removed new).1.Acyclic := by
  by_cases hr : (s.replaceChildren c removed new).2 = false
  · rw [replaceChildren_rejected s c removed new hi hsub hr]; exact ha
  · rw [replaceChildren_eq] at hr ⊢
    split
    · exact add_acyclic _ c new true (unlinked_inv s c removed hi hsub) (unlinked_acyclic s c removed ha)
    · rename_i h2; rw [if_neg h2] at hr; simp at hr

theorem step_acyclic (s : Forest) (op : FOp) (hi : s.Inv) (ha : s.Acyclic) : (s.step op).1.Acyclic := by
  cases op with
  | add c objs ov => exact add_acyclic s c objs ov hi ha
  | remove c objs r e =>
    simp only [step]; split
    · exact remove_acyclic c r e objs s ha
    · exact ha
  | setParent o p =>
    cases p with
    | none => exact detach_acyclic s o ha
    | some c => exact add_acyclic s c [o] true hi ha
  | setChildren c objs =>
    simp only [step]; split
    · exact replaceChildren_acyclic s c _ objs hi ha (fun _ hx => hx)
    · exact ha
  | setTyped c k objs =>
    simp only [step]; split
    · unfold setTyped
      split
      · exact ha
      · exact replaceChildren_acyclic s c _ _ hi ha (typed_removed_sub s c k)
    · exact ha
  | plus a b => exact plus_acyclic s a b hi ha
  | rejected => exact ha

theorem init_acyclic (ks : List Kind) : (init ks).Acyclic :=
  ⟨fun _ => 0, by intro o c h; simp [init] at h⟩

theorem reach_rank (s : Forest) (r : Nat → Nat) (hr : ∀ o c, s.parent o = some c → r c < r o) {a b : Nat}
    (h : Reach s a b) : r b ≤ r a := by
  induction h with
  | refl => exact le_refl _
  | step hp _ ih => exact le_trans ih (le_of_lt (hr _ _ hp))

/-- acyclic in the property's words: no object is its own ancestor — a collection never contains
itself directly or indirectly -/
theorem acyclic_no_self_containment (s : Forest) (ha : s.Acyclic) (c p : Nat) (hp : s.parent c = some p) :
    ¬ Reach s p c := by
  obtain ⟨r, hr⟩ := ha
  intro h
  have := reach_rank s r hr h
  have := hr c p hp
  omega
end Forest
end MagpyVerif
