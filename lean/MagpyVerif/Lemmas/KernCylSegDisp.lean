/-
Lemmas/KernCylSegDisp.lean — C15 for the CylinderSegment: which rows leave the dispatch of
`magnet_cylinder_segment_Hfield` undefined (block left at NaN: case ids 111, 114, 121, 131).

  `unhandledAt`, `boundaryBlock_eq_none_iff`   per boundary (any carrier)
  `segH_eq_none_iff`, `bhjmCylSeg_eq_none_iff` the NaN rows of the core / of the wrapper, exactly
  `bhjmCylSeg_isSome_of_off_planes`            observers that `close` keeps off both base planes: always a row
  `apex_end_point_unhandled`, `apex_end_point_nan`, `next_to_vertex_unhandled`
        the wrapper's surface mask does NOT cover the unhandled ids: two observers that pass the mask and get a NaN row.
        Both reproduce on the real code:
          CylinderSegment(dimension=(0,1,2,30,120), polarization=(.1,.2,.3)).getH((0,0,1))                      -> nan nan nan
          CylinderSegment(dimension=(1,2,2,0,90),  polarization=(.1,.2,.3)).getH((2.000000000001,0,1.000000000001)) -> nan nan nan
-/
import MagpyVerif.Lemmas.KernCylSegLin
namespace MagpyVerif.Kern.CylSeg
open MagpyVerif MagpyVerif.Kern

/-- the boundary values of the stack position `s = 4i + 2j + k` -/
def bdry {α : Type} (r1 r2 phi1 phi2 z1 z2 : α) (s : Nat) : α × α × α :=
  (if s / 4 % 2 == 0 then r1 else r2, if s / 2 % 2 == 0 then phi1 else phi2, if s % 2 == 0 then z1 else z2)

section generic
variable {α : Type} [NumX α]
open Num NumX

/-- the condition under which the boundary `(r_i, phi_j, z_k)` gets one of the four unhandled case ids: the observer
is at the height of the boundary plane and either on the axis of a segment without bore or on the boundary radius in
the boundary half-plane — i.e. (within `close`'s tolerance) on the apex line's end point or on a vertex -/
def unhandledAt (r phi z ri phij zk : α) : Bool :=
  close z zk &&
    ((close r (n 0) && close ri (n 0)) ||
     ((close (pymod (abs (phi - phij)) (n 2 * pi)) (n 0) || close (pymod (abs (phi - phij)) (n 2 * pi)) (n 2 * pi)) &&
       close r ri && !close ri (n 0) && !close r (n 0)))

theorem boundaryBlock_eq_none_iff (r phi z r1 r2 phi1 phi2 z1 z2 phiM thM : α) (s : Nat) :
    boundaryBlock r phi z r1 r2 phi1 phi2 z1 z2 phiM thM s = none ↔
      unhandledAt r phi z (bdry r1 r2 phi1 phi2 z1 z2 s).1 (bdry r1 r2 phi1 phi2 z1 z2 s).2.1
        (bdry r1 r2 phi1 phi2 z1 z2 s).2.2 = true := by
  unfold boundaryBlock
  dsimp only
  rw [caseDispatch_eq_none_iff, determineCases_unhandled_iff]
  rfl

end generic

/-- **which rows of `magnet_cylinder_segment_Hfield` are NaN**: exactly those where one of the eight boundaries
gets an unhandled id -/
theorem segH_eq_none_iff (μ : ℝ) (S : SegSpecial) (r phi z r1 r2 p1 p2 z1 z2 mag phiM thM : ℝ) :
    @segH ℝ (realNumX μ S) r phi z r1 r2 p1 p2 z1 z2 mag phiM thM = none ↔
      ∃ s ∈ List.range 8, @unhandledAt ℝ (realNumX μ S) r phi z (@bdry ℝ r1 r2 p1 p2 z1 z2 s).1
        (@bdry ℝ r1 r2 p1 p2 z1 z2 s).2.1 (@bdry ℝ r1 r2 p1 p2 z1 z2 s).2.2 = true := by
  constructor
  · intro h
    by_contra hne
    have hall : ∀ s ∈ List.range 8, @boundaryBlock ℝ (realNumX μ S) r phi z r1 r2 p1 p2 z1 z2 phiM thM s =
        some (blockD μ S r phi z r1 r2 p1 p2 z1 z2 s phiM thM) := by
      intro s hs
      cases hb : @boundaryBlock ℝ (realNumX μ S) r phi z r1 r2 p1 p2 z1 z2 phiM thM s with
      | none => exact absurd ⟨s, hs, (@boundaryBlock_eq_none_iff ℝ (realNumX μ S) r phi z r1 r2 p1 p2 z1 z2 phiM thM s).mp hb⟩ hne
      | some b => simp [blockD, hb]
    rw [segH_of_some μ S r phi z r1 r2 p1 p2 z1 z2 mag phiM thM _ hall] at h
    exact Option.some_ne_none _ h
  · rintro ⟨s, hs, h⟩
    exact segH_of_none μ S r phi z r1 r2 p1 p2 z1 z2 mag phiM thM s hs ((@boundaryBlock_eq_none_iff ℝ (realNumX μ S) r phi z r1 r2 p1 p2 z1 z2 phiM thM s).mpr h)

/-- the wrapper returns a NaN row exactly for B and H, off the wrapper's surface mask, when a boundary gets an
unhandled id -/
theorem bhjmCylSeg_eq_none_iff (μ : ℝ) (S : SegSpecial) (f : Field) (x : V3 ℝ) (r1 r2 h p1 p2 : ℝ) (pol : V3 ℝ) :
    let N := @segNormalise ℝ (realNumX μ S) x r1 r2 h p1 p2
    let r := Real.sqrt (N.obs.x * N.obs.x + N.obs.y * N.obs.y)
    let phi := Complex.arg ⟨N.obs.x, N.obs.y⟩
    @bhjmCylSeg ℝ (realNumX μ S) f x r1 r2 h p1 p2 pol = none ↔
      (f = .B ∨ f = .H) ∧ (@segMasks ℝ (realNumX μ S) r phi N.obs.z N.r1 N.r2 N.phi1 N.phi2 N.z1 N.z2).notOnSurf = true ∧
        ∃ s ∈ List.range 8, @unhandledAt ℝ (realNumX μ S) r phi N.obs.z (@bdry ℝ N.r1 N.r2 N.phi1 N.phi2 N.z1 N.z2 s).1
          (@bdry ℝ N.r1 N.r2 N.phi1 N.phi2 N.z1 N.z2 s).2.1 (@bdry ℝ N.r1 N.r2 N.phi1 N.phi2 N.z1 N.z2 s).2.2 = true := by
  intro N r phi
  have hcore : ∀ pol, @segCoreH ℝ (realNumX μ S) N pol = none ↔
      ∃ s ∈ List.range 8, @unhandledAt ℝ (realNumX μ S) r phi N.obs.z (@bdry ℝ N.r1 N.r2 N.phi1 N.phi2 N.z1 N.z2 s).1
          (@bdry ℝ N.r1 N.r2 N.phi1 N.phi2 N.z1 N.z2 s).2.1 (@bdry ℝ N.r1 N.r2 N.phi1 N.phi2 N.z1 N.z2 s).2.2 = true := by
    intro pol
    unfold segCoreH
    simp only [Option.map_eq_none_iff]
    exact segH_eq_none_iff μ S _ _ _ _ _ _ _ _ _ _ _ _
  unfold bhjmCylSeg
  dsimp only
  cases f <;> simp only [reduceCtorEq, or_self, false_and, or_true, true_or, true_and] <;>
    first
    | exact Option.some_ne_none _
    | (split
       · rename_i hns
         simp only [Option.map_eq_none_iff]
         rw [show (@segNormalise ℝ (realNumX μ S) x r1 r2 h p1 p2) = N from rfl, hcore pol]
         constructor
         · intro h; exact ⟨hns, h⟩
         · intro h; exact h.2
       · rename_i hns
         constructor
         · intro h; exact absurd h (Option.some_ne_none _)
         · intro h; exact absurd h.1 hns)


@[simp] theorem sgn_realX (μ : ℝ) (S : SegSpecial) (x : ℝ) : @NumX.sgn ℝ (realNumX μ S) x = sgnR x := rfl
@[simp] theorem pymod_realX (μ : ℝ) (S : SegSpecial) (a b : ℝ) :
    @NumX.pymod ℝ (realNumX μ S) a b = a - b * (⌊a / b⌋ : ℝ) := rfl

theorem bdry_z {α : Type} (r1 r2 phi1 phi2 z1 z2 : α) (s : Nat) :
    (bdry r1 r2 phi1 phi2 z1 z2 s).2.2 = z1 ∨ (bdry r1 r2 phi1 phi2 z1 z2 s).2.2 = z2 := by
  unfold bdry
  dsimp only
  split <;> simp

theorem unhandledAt_false_of_off_plane {α : Type} [NumX α] (r phi z ri phij zk : α) (h : close z zk = false) :
    unhandledAt r phi z ri phij zk = false := by
  simp [unhandledAt, h]

/-- **C15, the part that holds**: an observer that `close` does not put on either base plane `z = ±h/2` never reaches an
unhandled case id — `BHJM_cylinder_segment` returns a row (no NaN from the dispatch) for every field and polarization -/
theorem bhjmCylSeg_isSome_of_off_planes (μ : ℝ) (S : SegSpecial) (f : Field) (x : V3 ℝ) (r1 r2 h p1 p2 : ℝ) (pol : V3 ℝ)
    (hz1 : @close ℝ (realNumX μ S) (@segNormalise ℝ (realNumX μ S) x r1 r2 h p1 p2).obs.z
      (@segNormalise ℝ (realNumX μ S) x r1 r2 h p1 p2).z1 = false)
    (hz2 : @close ℝ (realNumX μ S) (@segNormalise ℝ (realNumX μ S) x r1 r2 h p1 p2).obs.z
      (@segNormalise ℝ (realNumX μ S) x r1 r2 h p1 p2).z2 = false) :
    (@bhjmCylSeg ℝ (realNumX μ S) f x r1 r2 h p1 p2 pol).isSome = true := by
  rw [Option.isSome_iff_ne_none]
  intro hn
  obtain ⟨_, _, s, _, hs⟩ := (bhjmCylSeg_eq_none_iff μ S f x r1 r2 h p1 p2 pol).mp hn
  simp only [unhandledAt] at hs
  rcases bdry_z (@segNormalise ℝ (realNumX μ S) x r1 r2 h p1 p2).r1 (@segNormalise ℝ (realNumX μ S) x r1 r2 h p1 p2).r2 (@segNormalise ℝ (realNumX μ S) x r1 r2 h p1 p2).phi1 (@segNormalise ℝ (realNumX μ S) x r1 r2 h p1 p2).phi2 (@segNormalise ℝ (realNumX μ S) x r1 r2 h p1 p2).z1 (@segNormalise ℝ (realNumX μ S) x r1 r2 h p1 p2).z2 s with e | e <;>
    rw [e] at hs
  · rw [hz1] at hs; simp at hs
  · rw [hz2] at hs; simp at hs

/-! ### the full statement fails: two observers that pass the wrapper's surface mask and reach an unhandled id -/

/-- **witness A (apex end point)**: a wedge without bore (`r1 = 0`, outer radius 1, height 2) whose angular range
`[1, 2]` rad does not contain the azimuth 0, observer on the axis at the height of the top face.  `arctan2(0, 0) = 0`
is outside the range, so the wrapper's masks do not see the point as a surface point; the boundary
`(r_i, z_k) = (r1, z2)` has `r ≈ 0`, `r_i ≈ 0`, `z ≈ z_k`: case id 1x1, not in the table — NaN row -/
theorem apex_end_point_unhandled (μ : ℝ) (S : SegSpecial) (mag phiM thM : ℝ) :
    (@segMasks ℝ (realNumX μ S) 0 0 1 0 1 1 2 (-1) 1).notOnSurf = true ∧
    @segH ℝ (realNumX μ S) 0 0 1 0 1 1 2 (-1) 1 mag phiM thM = none := by
  constructor
  · simp [segMasks, close, isclose, signNe, sgnR, n]
    try norm_num
  · rw [segH_eq_none_iff]
    refine ⟨1, by simp, ?_⟩
    simp [unhandledAt, bdry, close, isclose, n]
    try norm_num

/-- **witness B (next to a vertex)**: ring segment `r1 = 1/2`, `r2 = 1`, `phi ∈ [0, 1]`, `z ∈ [−1, 1]`; observer in the
half-plane `phi = 0`, `5·10⁻¹³` outside the outer radius and `5·10⁻¹³` above the top face.  The wrapper's slab tests
use `1e-14`, so the point is neither on a surface nor inside; `close` uses `1e-12`, so at the boundary `(r2, phi1, z2)`
the point counts as `r ≈ r_i`, `phi ≈ phi_j`, `z ≈ z_k`: case id 114, not in the table — NaN row -/
theorem next_to_vertex_unhandled (μ : ℝ) (S : SegSpecial) (mag phiM thM : ℝ) :
    (@segMasks ℝ (realNumX μ S) (1 + 5 / 10000000000000) 0 (1 + 5 / 10000000000000) (1 / 2) 1 0 1 (-1) 1).notOnSurf = true ∧
    @segH ℝ (realNumX μ S) (1 + 5 / 10000000000000) 0 (1 + 5 / 10000000000000) (1 / 2) 1 0 1 (-1) 1 mag phiM thM = none := by
  constructor
  · simp [segMasks, close, isclose, signNe, sgnR, n]
    try norm_num
  · rw [segH_eq_none_iff]
    refine ⟨5, by simp, ?_⟩
    simp [unhandledAt, bdry, close, isclose, n]
    try norm_num


/-- the normalised row of `CylinderSegment(dimension=(0, 1, 2, 30, 120))` for an observer on the axis -/
theorem segNormalise_wedge (μ : ℝ) (S : SegSpecial) (z : ℝ) :
    @segNormalise ℝ (realNumX μ S) ⟨0, 0, z⟩ 0 1 2 30 120 =
      ⟨⟨0, 0, z⟩, 0, 1, Real.pi / 6, 2 * Real.pi / 3, -1, 1⟩ := by
  have hpi := Real.two_le_pi
  unfold segNormalise
  have h1 : ¬ (2 * Real.pi < 120 / 180 * Real.pi) := by nlinarith
  have h2 : ¬ (30 / 180 * Real.pi < -(2 * Real.pi)) := by nlinarith
  simp [n, h1, h2]
  exact ⟨by ring, by ring⟩

/-- non-vacuity of `bhjmCylSeg_isSome_of_off_planes` (and of every equation between optional rows): at the centre of the apex
line of that wedge every field is a proper row -/
theorem wedge_centre_isSome (μ : ℝ) (S : SegSpecial) (f : Field) (pol : V3 ℝ) :
    (@bhjmCylSeg ℝ (realNumX μ S) f ⟨0, 0, 0⟩ 0 1 2 30 120 pol).isSome = true := by
  apply bhjmCylSeg_isSome_of_off_planes <;> rw [segNormalise_wedge] <;> simp [close, isclose, n] <;> norm_num

/-- witness A at the level of the wrapper, in the user's units: `CylinderSegment(dimension=(0, 1, 2, 30, 120))`,
observer `(0, 0, 1)`, any polarization: H (and B) is a NaN row -/
theorem apex_end_point_nan (μ : ℝ) (S : SegSpecial) (pol : V3 ℝ) :
    @bhjmCylSeg ℝ (realNumX μ S) .H ⟨0, 0, 1⟩ 0 1 2 30 120 pol = none := by
  have hpi := Real.two_le_pi
  have e0 : (⟨0, 0⟩ : ℂ) = 0 := rfl
  apply (bhjmCylSeg_eq_none_iff μ S .H ⟨0, 0, 1⟩ 0 1 2 30 120 pol).mpr
  have hN := segNormalise_wedge μ S 1
  rw [hN]
  simp only [e0, Complex.arg_zero, mul_zero, add_zero, Real.sqrt_zero]
  refine ⟨Or.inr trivial, ?_, 1, by simp, ?_⟩
  · have a1 : |Real.pi / 6| = Real.pi / 6 := abs_of_pos (by positivity)
    have a2 : |2 * Real.pi / 3| = 2 * Real.pi / 3 := abs_of_pos (by positivity)
    have s1 : sgnR (-(Real.pi / 6)) = -1 := by unfold sgnR; rw [if_neg (by linarith), if_pos (by linarith)]
    have s2 : sgnR (-(2 * Real.pi / 3)) = -1 := by unfold sgnR; rw [if_neg (by linarith), if_pos (by linarith)]
    have s0 : sgnR 0 = 0 := by simp [sgnR]
    simp [segMasks, close, isclose, signNe, n, s0, s1, s2, a1, a2]
    refine Or.inl (Or.inl ⟨⟨by nlinarith, Or.inr (by linarith)⟩, by nlinarith, Or.inr (by linarith)⟩)
  · simp [unhandledAt, bdry, close, isclose, n]

end MagpyVerif.Kern.CylSeg
