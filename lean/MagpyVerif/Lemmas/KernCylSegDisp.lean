/-
Lemmas/KernCylSegDisp.lean — C15 for the CylinderSegment: which rows leave the dispatch of
`magnet_cylinder_segment_Hfield` undefined (block left at NaN: case ids 111, 114, 121, 131).

  `unhandledAt`, `boundaryBlock_eq_none_iff`   per boundary (any carrier)
  `segH_eq_none_iff`, `bhjmCylSeg_eq_none_iff` the NaN rows of the core / of the wrapper, exactly
  `bhjmCylSeg_isSome_of_off_planes`            observers that `close` keeps off both base planes: always a row
  `segMasks_surface_of_unhandled`, `bhjmCylSeg_isSome`
        after the repair of the wrapper's masks (apex line belongs to every azimuth; `phi = phi_j` by the test of
        determine_cases; "in between" includes what `close` accepts) every unhandled id is a surface row: the wrapper
        returns a row for every observer.  Before the repair two observers passed the mask and got a NaN row:
          CylinderSegment(dimension=(0,1,2,30,120), polarization=(.1,.2,.3)).getH((0,0,1))                      -> nan nan nan
          CylinderSegment(dimension=(1,2,2,0,90),  polarization=(.1,.2,.3)).getH((2.000000000001,0,1.000000000001)) -> nan nan nan
        (`apex_end_point_surface`, `next_to_vertex_surface`: both are surface rows now)
-/
import MagpyVerif.Lemmas.KernCylSegLin
namespace MagpyVerif.Kern.CylSeg
open MagpyVerif MagpyVerif.Kern

/-- the boundary values of the stack position `s = 4i + 2j + k` -/
def bdry {α : Type} (r1 r2 phi1 phi2 z1 z2 : α) (s : Nat) : α × α × α :=
  (if s / 4 % 2 == 0 then r1 else r2, if s / 2 % 2 == 0 then phi1 else phi2, if s % 2 == 0 then z1 else z2)

section generic
variable {α : Type} [NumX α]
open Num NumX

/-- the condition under which the boundary `(r_i, phi_j, z_k)` gets one of the four unhandled case ids: the observer
is at the height of the boundary plane and either on the axis of a segment without bore or on the boundary radius in
the boundary half-plane — i.e. (within `close`'s tolerance) on the apex line's end point or on a vertex -/
def unhandledAt (r phi z ri phij zk : α) : Bool :=
  close z zk &&
    ((close r (n 0) && close ri (n 0)) ||
     ((close (pymod (abs (phi - phij)) (n 2 * pi)) (n 0) || close (pymod (abs (phi - phij)) (n 2 * pi)) (n 2 * pi)) &&
       close r ri && !close ri (n 0) && !close r (n 0)))

theorem boundaryBlock_eq_none_iff (r phi z r1 r2 phi1 phi2 z1 z2 phiM thM : α) (s : Nat) :
    boundaryBlock r phi z r1 r2 phi1 phi2 z1 z2 phiM thM s = none ↔
      unhandledAt r phi z (bdry r1 r2 phi1 phi2 z1 z2 s).1 (bdry r1 r2 phi1 phi2 z1 z2 s).2.1
        (bdry r1 r2 phi1 phi2 z1 z2 s).2.2 = true := by
  unfold boundaryBlock
  dsimp only
  rw [caseDispatch_eq_none_iff, determineCases_unhandled_iff]
  rfl

end generic

/-- **which rows of `magnet_cylinder_segment_Hfield` are NaN**: exactly those where one of the eight boundaries
gets an unhandled id -/
theorem segH_eq_none_iff (μ : ℝ) (S : SegSpecial) (r phi z r1 r2 p1 p2 z1 z2 mag phiM thM : ℝ) :
    @segH ℝ (realNumX μ S) r phi z r1 r2 p1 p2 z1 z2 mag phiM thM = none ↔
      ∃ s ∈ List.range 8, @unhandledAt ℝ (realNumX μ S) r phi z (@bdry ℝ r1 r2 p1 p2 z1 z2 s).1
        (@bdry ℝ r1 r2 p1 p2 z1 z2 s).2.1 (@bdry ℝ r1 r2 p1 p2 z1 z2 s).2.2 = true := by
  constructor
  · intro h
    by_contra hne
    have hall : ∀ s ∈ List.range 8, @boundaryBlock ℝ (realNumX μ S) r phi z r1 r2 p1 p2 z1 z2 phiM thM s =
        some (blockD μ S r phi z r1 r2 p1 p2 z1 z2 s phiM thM) := by
      intro s hs
      cases hb : @boundaryBlock ℝ (realNumX μ S) r phi z r1 r2 p1 p2 z1 z2 phiM thM s with
      | none => exact absurd ⟨s, hs, (@boundaryBlock_eq_none_iff ℝ (realNumX μ S) r phi z r1 r2 p1 p2 z1 z2 phiM thM s).mp hb⟩ hne
      | some b => simp [blockD, hb]
    rw [segH_of_some μ S r phi z r1 r2 p1 p2 z1 z2 mag phiM thM _ hall] at h
    exact Option.some_ne_none _ h
  · rintro ⟨s, hs, h⟩
    exact segH_of_none μ S r phi z r1 r2 p1 p2 z1 z2 mag phiM thM s hs ((@boundaryBlock_eq_none_iff ℝ (realNumX μ S) r phi z r1 r2 p1 p2 z1 z2 phiM thM s).mpr h)

/-- the wrapper returns a NaN row exactly for B and H, off the wrapper's surface mask, when a boundary gets an
unhandled id -/
theorem bhjmCylSeg_eq_none_iff (μ : ℝ) (S : SegSpecial) (f : Field) (x : V3 ℝ) (r1 r2 h p1 p2 : ℝ) (pol : V3 ℝ) :
    let N := @segNormalise ℝ (realNumX μ S) x r1 r2 h p1 p2
    let r := Real.sqrt (N.obs.x * N.obs.x + N.obs.y * N.obs.y)
    let phi := Complex.arg ⟨N.obs.x, N.obs.y⟩
    @bhjmCylSeg ℝ (realNumX μ S) f x r1 r2 h p1 p2 pol = none ↔
      (f = .B ∨ f = .H) ∧ (@segMasks ℝ (realNumX μ S) r phi N.obs.z N.r1 N.r2 N.phi1 N.phi2 N.z1 N.z2).notOnSurf = true ∧
        ∃ s ∈ List.range 8, @unhandledAt ℝ (realNumX μ S) r phi N.obs.z (@bdry ℝ N.r1 N.r2 N.phi1 N.phi2 N.z1 N.z2 s).1
          (@bdry ℝ N.r1 N.r2 N.phi1 N.phi2 N.z1 N.z2 s).2.1 (@bdry ℝ N.r1 N.r2 N.phi1 N.phi2 N.z1 N.z2 s).2.2 = true := by
  intro N r phi
  have hcore : ∀ pol, @segCoreH ℝ (realNumX μ S) N pol = none ↔
      ∃ s ∈ List.range 8, @unhandledAt ℝ (realNumX μ S) r phi N.obs.z (@bdry ℝ N.r1 N.r2 N.phi1 N.phi2 N.z1 N.z2 s).1
          (@bdry ℝ N.r1 N.r2 N.phi1 N.phi2 N.z1 N.z2 s).2.1 (@bdry ℝ N.r1 N.r2 N.phi1 N.phi2 N.z1 N.z2 s).2.2 = true := by
    intro pol
    unfold segCoreH
    simp only [Option.map_eq_none_iff]
    exact segH_eq_none_iff μ S _ _ _ _ _ _ _ _ _ _ _ _
  unfold bhjmCylSeg
  dsimp only
  cases f <;> simp only [reduceCtorEq, or_self, false_and, or_true, true_or, true_and] <;>
    first
    | exact Option.some_ne_none _
    | (split
       · rename_i hns
         simp only [Option.map_eq_none_iff]
         rw [show (@segNormalise ℝ (realNumX μ S) x r1 r2 h p1 p2) = N from rfl, hcore pol]
         constructor
         · intro h; exact ⟨hns, h⟩
         · intro h; exact h.2
       · rename_i hns
         constructor
         · intro h; exact absurd h (Option.some_ne_none _)
         · intro h; exact absurd h.1 hns)


@[simp] theorem sgn_realX (μ : ℝ) (S : SegSpecial) (x : ℝ) : @NumX.sgn ℝ (realNumX μ S) x = sgnR x := rfl
@[simp] theorem pymod_realX (μ : ℝ) (S : SegSpecial) (a b : ℝ) :
    @NumX.pymod ℝ (realNumX μ S) a b = a - b * (⌊a / b⌋ : ℝ) := rfl

theorem bdry_z {α : Type} (r1 r2 phi1 phi2 z1 z2 : α) (s : Nat) :
    (bdry r1 r2 phi1 phi2 z1 z2 s).2.2 = z1 ∨ (bdry r1 r2 phi1 phi2 z1 z2 s).2.2 = z2 := by
  unfold bdry
  dsimp only
  split <;> simp

theorem unhandledAt_false_of_off_plane {α : Type} [NumX α] (r phi z ri phij zk : α) (h : close z zk = false) :
    unhandledAt r phi z ri phij zk = false := by
  simp [unhandledAt, h]

/-- **C15, the part that holds**: an observer that `close` does not put on either base plane `z = ±h/2` never reaches an
unhandled case id — `BHJM_cylinder_segment` returns a row (no NaN from the dispatch) for every field and polarization -/
theorem bhjmCylSeg_isSome_of_off_planes (μ : ℝ) (S : SegSpecial) (f : Field) (x : V3 ℝ) (r1 r2 h p1 p2 : ℝ) (pol : V3 ℝ)
    (hz1 : @close ℝ (realNumX μ S) (@segNormalise ℝ (realNumX μ S) x r1 r2 h p1 p2).obs.z
      (@segNormalise ℝ (realNumX μ S) x r1 r2 h p1 p2).z1 = false)
    (hz2 : @close ℝ (realNumX μ S) (@segNormalise ℝ (realNumX μ S) x r1 r2 h p1 p2).obs.z
      (@segNormalise ℝ (realNumX μ S) x r1 r2 h p1 p2).z2 = false) :
    (@bhjmCylSeg ℝ (realNumX μ S) f x r1 r2 h p1 p2 pol).isSome = true := by
  rw [Option.isSome_iff_ne_none]
  intro hn
  obtain ⟨_, _, s, _, hs⟩ := (bhjmCylSeg_eq_none_iff μ S f x r1 r2 h p1 p2 pol).mp hn
  simp only [unhandledAt] at hs
  rcases bdry_z (@segNormalise ℝ (realNumX μ S) x r1 r2 h p1 p2).r1 (@segNormalise ℝ (realNumX μ S) x r1 r2 h p1 p2).r2 (@segNormalise ℝ (realNumX μ S) x r1 r2 h p1 p2).phi1 (@segNormalise ℝ (realNumX μ S) x r1 r2 h p1 p2).phi2 (@segNormalise ℝ (realNumX μ S) x r1 r2 h p1 p2).z1 (@segNormalise ℝ (realNumX μ S) x r1 r2 h p1 p2).z2 s with e | e <;>
    rw [e] at hs
  · rw [hz1] at hs; simp at hs
  · rw [hz2] at hs; simp at hs

/-! ### after the repair of the wrapper's masks: every unhandled id is a surface row -/

theorem bdry_r {α : Type} (r1 r2 phi1 phi2 z1 z2 : α) (s : Nat) :
    (bdry r1 r2 phi1 phi2 z1 z2 s).1 = r1 ∨ (bdry r1 r2 phi1 phi2 z1 z2 s).1 = r2 := by
  unfold bdry
  dsimp only
  split <;> simp

theorem bdry_phi {α : Type} (r1 r2 phi1 phi2 z1 z2 : α) (s : Nat) :
    (bdry r1 r2 phi1 phi2 z1 z2 s).2.1 = phi1 ∨ (bdry r1 r2 phi1 phi2 z1 z2 s).2.1 = phi2 := by
  unfold bdry
  dsimp only
  split <;> simp

/-- `close` over ℝ, spelled out -/
theorem close_real_iff (μ : ℝ) (S : SegSpecial) (a b : ℝ) :
    @close ℝ (realNumX μ S) a b = true ↔ |a - b| ≤ 1 / 1000000000000 + 1 / 1000000000000 * |b| := by
  simp only [close, isclose, n, ofNat_real, abs_real, le_real, eq0_real, sub_self, decide_true, Bool.and_true,
    Nat.cast_one, Nat.cast_ofNat, Bool.or_eq_true, Bool.and_eq_true, decide_eq_true_eq]
  constructor
  · rintro (h | ⟨h1, h2⟩)
    · exact h
    · have : a = b := le_antisymm h1 h2
      rw [this, sub_self, abs_zero]
      positivity
  · exact Or.inl

/-- two non-negative numbers that are both `close` to 0 are `close` to each other -/
theorem close_of_both_small (μ : ℝ) (S : SegSpecial) (a b : ℝ) (ha : 0 ≤ a) (hb : 0 ≤ b)
    (h1 : @close ℝ (realNumX μ S) a (@n ℝ (realNum μ) 0) = true) (h2 : @close ℝ (realNumX μ S) b (@n ℝ (realNum μ) 0) = true) :
    @close ℝ (realNumX μ S) a b = true := by
  rw [close_real_iff] at h1 h2 ⊢
  simp only [n, ofNat_real, Nat.cast_zero, sub_zero, abs_zero, mul_zero, add_zero] at h1 h2
  rw [abs_of_nonneg ha] at h1
  rw [abs_of_nonneg hb] at h2
  have : |a - b| ≤ 1 / 1000000000000 := by
    rw [abs_le]; constructor <;> linarith
  have hb' : 0 ≤ 1 / 1000000000000 * |b| := by positivity
  linarith

/-- **the repaired masks cover the unhandled ids**: an observer that gets one of the four unhandled case ids at a boundary
`(r_i, phi_j, z_k)` of the segment is a surface row of the wrapper — on the axis of a segment without bore through the top /
bottom test (the apex line belongs to every azimuth), next to a vertex through the `phi = phi_j` test, which is the
test of `determine_cases`, with "in between" in `r` and `z` including what `close` accepts -/
theorem segMasks_surface_of_unhandled (μ : ℝ) (S : SegSpecial) (r phi z r1 r2 p1 p2 z1 z2 ri pj zk : ℝ)
    (hr : 0 ≤ r) (hr1 : 0 ≤ r1)
    (hr12 : @close ℝ (realNumX μ S) r2 (@n ℝ (realNum μ) 0) = true → @close ℝ (realNumX μ S) r1 (@n ℝ (realNum μ) 0) = true)
    (hri : ri = r1 ∨ ri = r2) (hpj : pj = p1 ∨ pj = p2) (hzk : zk = z1 ∨ zk = z2)
    (h : @unhandledAt ℝ (realNumX μ S) r phi z ri pj zk = true) :
    (@segMasks ℝ (realNumX μ S) r phi z r1 r2 p1 p2 z1 z2).notOnSurf = false := by
  simp only [unhandledAt, Bool.and_eq_true, Bool.or_eq_true, Bool.not_eq_true'] at h
  obtain ⟨hz, hcase⟩ := h
  have hzc : (@close ℝ (realNumX μ S) z z1 || @close ℝ (realNumX μ S) z z2) = true := by
    rcases hzk with rfl | rfl <;> simp [hz]
  rcases hcase with ⟨hr0, hri0⟩ | ⟨⟨⟨hphi, hrri⟩, _⟩, _⟩
  · -- on the axis of a segment without bore
    have hr10 : @close ℝ (realNumX μ S) r1 (@n ℝ (realNum μ) 0) = true := by
      rcases hri with rfl | rfl
      · exact hri0
      · exact hr12 hri0
    have hrr1 : @close ℝ (realNumX μ S) r r1 = true := close_of_both_small μ S r r1 hr hr1 hr0 hr10
    simp only [segMasks, hr0, hr10, hrr1, Bool.and_self, Bool.or_true, Bool.true_or, Bool.and_true, hzc, Bool.not_true]
  · -- next to a vertex
    have hrc : (@close ℝ (realNumX μ S) r r1 || @close ℝ (realNumX μ S) r r2) = true := by
      rcases hri with rfl | rfl <;> simp [hrri]
    have hrin : (((@Num.lt ℝ (realNum μ) r1 r && @Num.lt ℝ (realNum μ) r r2) || @close ℝ (realNumX μ S) r r1) ||
        @close ℝ (realNumX μ S) r r2) = true := by
      rw [Bool.or_assoc, hrc, Bool.or_true]
    have hzin : (((@Num.lt ℝ (realNum μ) z1 z && @Num.lt ℝ (realNum μ) z z2) || @close ℝ (realNumX μ S) z z1) ||
        @close ℝ (realNumX μ S) z z2) = true := by
      rw [Bool.or_assoc, hzc, Bool.or_true]
    have hmask : ((@close ℝ (realNumX μ S) (@NumX.pymod ℝ (realNumX μ S) (@Num.abs ℝ (realNum μ) (phi - p1)) (@n ℝ (realNum μ) 2 * @Num.pi ℝ (realNum μ))) (@n ℝ (realNum μ) 0) ||
          @close ℝ (realNumX μ S) (@NumX.pymod ℝ (realNumX μ S) (@Num.abs ℝ (realNum μ) (phi - p1)) (@n ℝ (realNum μ) 2 * @Num.pi ℝ (realNum μ))) (@n ℝ (realNum μ) 2 * @Num.pi ℝ (realNum μ))) ||
        (@close ℝ (realNumX μ S) (@NumX.pymod ℝ (realNumX μ S) (@Num.abs ℝ (realNum μ) (phi - p2)) (@n ℝ (realNum μ) 2 * @Num.pi ℝ (realNum μ))) (@n ℝ (realNum μ) 0) ||
          @close ℝ (realNumX μ S) (@NumX.pymod ℝ (realNumX μ S) (@Num.abs ℝ (realNum μ) (phi - p2)) (@n ℝ (realNum μ) 2 * @Num.pi ℝ (realNum μ))) (@n ℝ (realNum μ) 2 * @Num.pi ℝ (realNum μ)))) = true := by
      rcases hpj with rfl | rfl
      · rw [Bool.or_eq_true]; left; simpa [Bool.or_eq_true] using hphi
      · rw [Bool.or_eq_true]; right; simpa [Bool.or_eq_true] using hphi
    simp only [segMasks, hmask, hrin, hzin, Bool.and_self, Bool.or_true, Bool.not_true]

/-- the normalised row of `CylinderSegment(dimension=(0, 1, 2, 30, 120))` for an observer on the axis -/
theorem segNormalise_wedge (μ : ℝ) (S : SegSpecial) (z : ℝ) :
    @segNormalise ℝ (realNumX μ S) ⟨0, 0, z⟩ 0 1 2 30 120 =
      ⟨⟨0, 0, z⟩, 0, 1, Real.pi / 6, 2 * Real.pi / 3, -1, 1⟩ := by
  have hpi := Real.two_le_pi
  unfold segNormalise
  have h1 : ¬ (2 * Real.pi < 120 / 180 * Real.pi) := by nlinarith
  have h2 : ¬ (30 / 180 * Real.pi < -(2 * Real.pi)) := by nlinarith
  simp [n, h1, h2]
  exact ⟨by ring, by ring⟩

/-- non-vacuity of `bhjmCylSeg_isSome_of_off_planes` (and of every equation between optional rows): at the centre of the apex
line of that wedge every field is a proper row -/
theorem wedge_centre_isSome (μ : ℝ) (S : SegSpecial) (f : Field) (pol : V3 ℝ) :
    (@bhjmCylSeg ℝ (realNumX μ S) f ⟨0, 0, 0⟩ 0 1 2 30 120 pol).isSome = true := by
  apply bhjmCylSeg_isSome_of_off_planes <;> rw [segNormalise_wedge] <;> simp [close, isclose, n] <;> norm_num

/-- **C15 at full strength (after the repair)**: for every geometry with `|r1| ≤ |r2|` (the documented `r1 < r2`; only used when
the outer radius is 0), every observer, field and polarization `BHJM_cylinder_segment` returns a row: the observers the
wrapper lets through to the core never meet one of the four unhandled case ids -/
theorem bhjmCylSeg_isSome (μ : ℝ) (S : SegSpecial) (f : Field) (x : V3 ℝ) (r1 r2 h p1 p2 : ℝ) (pol : V3 ℝ)
    (hr12 : |r1| ≤ |r2|) :
    (@bhjmCylSeg ℝ (realNumX μ S) f x r1 r2 h p1 p2 pol).isSome = true := by
  rw [Option.isSome_iff_ne_none]
  intro hn
  obtain ⟨_, hns, s, _, hs⟩ := (bhjmCylSeg_eq_none_iff μ S f x r1 r2 h p1 p2 pol).mp hn
  have hunit : (0 : ℝ) < if 0 < |r2| then |r2| else 1 := by split <;> [assumption; norm_num]
  have hN1 : (@segNormalise ℝ (realNumX μ S) x r1 r2 h p1 p2).r1 = |r1| / (if 0 < |r2| then |r2| else 1) := by
    simp [segNormalise, n]
  have hN2 : (@segNormalise ℝ (realNumX μ S) x r1 r2 h p1 p2).r2 = |r2| / (if 0 < |r2| then |r2| else 1) := by
    simp [segNormalise, n]
  have h1 : 0 ≤ (@segNormalise ℝ (realNumX μ S) x r1 r2 h p1 p2).r1 := by
    rw [hN1]; exact div_nonneg (abs_nonneg _) hunit.le
  have h12 : @close ℝ (realNumX μ S) (@segNormalise ℝ (realNumX μ S) x r1 r2 h p1 p2).r2 (@n ℝ (realNum μ) 0) = true →
      @close ℝ (realNumX μ S) (@segNormalise ℝ (realNumX μ S) x r1 r2 h p1 p2).r1 (@n ℝ (realNum μ) 0) = true := by
    rw [hN1, hN2]
    by_cases hpos : 0 < |r2|
    · simp only [hpos, if_true, div_self hpos.ne']
      intro hc
      rw [close_real_iff] at hc
      simp [n] at hc
      norm_num at hc
    · have h2 : |r2| = 0 := le_antisymm (not_lt.mp hpos) (abs_nonneg _)
      have h1' : |r1| = 0 := le_antisymm (h2 ▸ hr12) (abs_nonneg _)
      simp [h2, h1']
  have := segMasks_surface_of_unhandled μ S _ _ _ _ _ _ _ _ _ _ _ _ (Real.sqrt_nonneg _) h1 h12
    (bdry_r _ _ _ _ _ _ s) (bdry_phi _ _ _ _ _ _ s) (bdry_z _ _ _ _ _ _ s) hs
  rw [this] at hns
  exact Bool.false_ne_true hns

/-- the two former NaN observers are surface rows now.  A: the end point of the apex line of
`CylinderSegment(dimension=(0, 1, 2, 30, 120))` (azimuth 0 is not in the range) -/
theorem apex_end_point_surface (μ : ℝ) (S : SegSpecial) :
    (@segMasks ℝ (realNumX μ S) 0 0 1 0 1 1 2 (-1) 1).notOnSurf = false := by
  apply segMasks_surface_of_unhandled μ S 0 0 1 0 1 1 2 (-1) 1 0 1 1 le_rfl le_rfl _ (Or.inl rfl) (Or.inl rfl) (Or.inr rfl)
  · simp [unhandledAt, close, isclose, n]
  · intro hc
    rw [close_real_iff] at hc
    simp [n] at hc
    norm_num at hc

/-- B: `5·10⁻¹³` outside the vertex `(r2, phi1, z2)` of the ring segment `r1 = 1/2`, `r2 = 1`, `phi ∈ [0, 1]`, `z ∈ [−1, 1]` -/
theorem next_to_vertex_surface (μ : ℝ) (S : SegSpecial) :
    (@segMasks ℝ (realNumX μ S) (1 + 5 / 10000000000000) 0 (1 + 5 / 10000000000000) (1 / 2) 1 0 1 (-1) 1).notOnSurf = false := by
  apply segMasks_surface_of_unhandled μ S _ 0 _ (1 / 2) 1 0 1 (-1) 1 1 0 1 (by norm_num) (by norm_num) _ (Or.inr rfl) (Or.inl rfl)
    (Or.inr rfl)
  · simp [unhandledAt, close, isclose, n]
    norm_num
  · intro hc
    rw [close_real_iff] at hc
    simp [n] at hc
    norm_num at hc

end MagpyVerif.Kern.CylSeg
